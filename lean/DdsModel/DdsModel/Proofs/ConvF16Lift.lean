/-
C04, fp16: from the checked facts about the 31 744 non-negative finite halves (`chkHalf`) to the statements about
all 65 536 half bit patterns (sign, ±0, ±∞, NaN) in terms of the model `Conv.small*` and the specification
`Spec.smallFloat`.  Symbolic; the kernel evaluation is in `Proofs/ConvF16Rows*.lean`.
-/
import DdsModel.Proofs.ConvF16Chk
namespace Dds.ConvFast
open Dds Dds.CF32 Dds.Spec Dds.Conv
open Dds.F32.Raw (lz lz_eq nadd nsub nmul ndiv nmod npow nshl cond_ble cond_blt cond_beq ble_dec blt_dec beq_dec cond_dec)

theorem sat_le (b : Nat) : (if b ≥ posInf then posInf else b) ≤ posInf := by
  split <;> omega

theorem roundPack_false_le (m : Nat) (e : Int) : roundPack false m e ≤ posInf := by
  by_cases hm : m = 0
  · rw [hm, roundPack_zero]; decide
  · rw [roundPack_pos m e hm]
    exact sat_le _

theorem roundF32_le (q : Rat) (h : 0 ≤ q.num) : roundF32 q ≤ posInf := by
  rw [roundF32_unfold]
  split
  · decide
  · have : ¬ q.num < 0 := by omega
    rw [decide_eq_false this]
    exact roundPack_false_le _ _

theorem neg_of_le (r : Nat) (h : r ≤ posInf) : neg r = signBit + r := by
  unfold neg isNeg
  simp only [posInf, signBit] at *
  have : ¬ r ≥ 2147483648 := by omega
  simp only [this, decide_false, Bool.false_eq_true, if_false]
  omega

/-- fields of a 16-bit pattern -/
theorem half_fields (x : Nat) (hx : x < 65536) :
    hExp x = x % 32768 / 1024 ∧ hMant x = x % 32768 % 1024 ∧ (hNeg x = true ↔ 32768 ≤ x) := by
  unfold hExp hMant hNeg
  rw [ndiv, nmod, ndiv, nmod, nmod]
  refine ⟨by omega, by omega, ?_⟩
  rw [beq_dec, decide_eq_true_eq]
  omega

section
variable (H : ∀ y, y < 31744 → chkHalf y = true)
include H

/-- `fp16::f32`: a finite half gives the binary32 of exactly its value (a zero keeps its sign), `±∞` gives `±∞`,
a NaN gives a NaN -/
theorem half_f32_of (x : Nat) (hx : x < 65536) :
    match smallFloat 10 true x with
    | some v => smallF32 10 true x = if v = 0 then (if x < 32768 then 0 else signBit) else roundF32 v
    | none => if x % 1024 = 0 then smallF32 10 true x = (if x < 32768 then posInf else negInf)
        else isNaN (smallF32 10 true x) = true := by
  obtain ⟨f1, f2, f3⟩ := half_fields x hx
  rw [smallFloat_eq, smallF32_eq]
  by_cases he : hExp x = 31
  · rw [if_pos he]
    simp only
    have hm : hMant x = x % 1024 := by omega
    rw [he, hm]
    unfold hF32
    simp only [cond_beq, show ¬ (31 = 0) by decide, if_false, if_true]
    by_cases h0 : x % 1024 = 0
    · rw [if_pos h0, if_pos h0]
      by_cases hn : hNeg x = true
      · have : ¬ x < 32768 := by have := f3.mp hn; omega
        rw [if_pos hn, if_neg this]; decide
      · have : x < 32768 := by
          have : ¬ 32768 ≤ x := fun h => hn (f3.mpr h)
          omega
        rw [if_neg hn, if_pos this]; rfl
    · rw [if_neg h0, if_neg h0]
      split <;> decide
  · rw [if_neg he]
    simp only
    have hy : x % 32768 < 31744 := by omega
    obtain ⟨c1, -, -⟩ := chkHalf_sound _ (H _ hy)
    rw [← f1, ← f2] at c1
    have hD := hMagD_ne (hExp x)
    generalize hMagN (hExp x) (hMant x) = N at *
    generalize hMagD (hExp x) = D at *
    rw [c1]
    by_cases hN : N = 0
    · have hz : mkRat (N : Int) D = 0 := by rw [hN]; exact Rat.zero_mkRat D
      rw [hz]
      by_cases hn : hNeg x = true
      · have : ¬ x < 32768 := by have := f3.mp hn; omega
        rw [if_pos hn, if_pos hn, if_pos Rat.neg_zero, if_neg this]; decide
      · have : x < 32768 := by
          have : ¬ 32768 ≤ x := fun h => hn (f3.mpr h)
          omega
        rw [if_neg hn, if_neg hn, if_pos rfl, if_pos this]; decide
    · have hnz : mkRat (N : Int) D ≠ 0 := (Rat.mkRat_ne_zero hD).mpr (by omega)
      have hpos := num_mkRat_pos N D hD hN
      by_cases hn : hNeg x = true
      · rw [if_pos hn, if_pos hn]
        have : ¬ (-(mkRat (N : Int) D) = 0) := by
          intro h
          apply hnz
          have := congrArg (fun q => -q) h
          simpa [Rat.neg_neg] using this
        rw [if_neg this, roundF32_neg _ hpos]
        exact neg_of_le _ (roundF32_le _ (by omega))
      · rw [if_neg hn, if_neg hn, if_neg hnz]

/-- `fp16::n8`: nearest 8-bit code of the value clamped to [0, 1] (tie up); `+∞` gives 255, `−∞` and NaN give 0 -/
theorem half_n8_of (x : Nat) (hx : x < 65536) :
    ((smallN8 10 true x : Nat) : Int) = match smallFloat 10 true x with
      | some v => toCode 255 v
      | none => if x % 1024 = 0 ∧ x < 32768 then 255 else 0 := by
  obtain ⟨f1, f2, f3⟩ := half_fields x hx
  rw [smallFloat_eq, smallN8_eq]
  by_cases he : hExp x = 31
  · rw [if_pos he]
    simp only
    have hm : hMant x = x % 1024 := by omega
    rw [he, hm]
    unfold hN8
    simp only [cond_beq, if_true]
    by_cases hn : hNeg x = true
    · have : ¬ x < 32768 := by have := f3.mp hn; omega
      rw [if_pos hn, if_neg (fun h => this h.2)]; rfl
    · have : x < 32768 := by
        have : ¬ 32768 ≤ x := fun h => hn (f3.mpr h)
        omega
      rw [if_neg hn]
      by_cases h0 : x % 1024 = 0
      · rw [if_pos h0, if_pos ⟨h0, this⟩]; rfl
      · rw [if_neg h0, if_neg (fun h => h0 h.1)]; rfl
  · rw [if_neg he]
    simp only
    have hy : x % 32768 < 31744 := by omega
    obtain ⟨-, c2, -⟩ := chkHalf_sound _ (H _ hy)
    rw [← f1, ← f2] at c2
    by_cases hn : hNeg x = true
    · rw [if_pos hn, if_pos hn, toCode_neg_mkRat]; rfl
    · rw [if_neg hn, if_neg hn, c2]

/-- `fp16::n16`: nearest 16-bit code of the value clamped to [0, 1] (tie up) EXCEPT for the four halves
`0x3801 … 0x3804`, whose code is one too high; `+∞` gives 65535, `−∞` and NaN give 0 -/
theorem half_n16_of (x : Nat) (hx : x < 65536) :
    ((smallN16 10 true x : Nat) : Int) = match smallFloat 10 true x with
      | some v => toCode 65535 v + (if 14337 ≤ x ∧ x ≤ 14340 then 1 else 0)
      | none => if x % 1024 = 0 ∧ x < 32768 then 65535 else 0 := by
  obtain ⟨f1, f2, f3⟩ := half_fields x hx
  rw [smallFloat_eq, smallN16_eq]
  by_cases he : hExp x = 31
  · rw [if_pos he]
    simp only
    have hm : hMant x = x % 1024 := by omega
    rw [he, hm]
    unfold hN16
    simp only [cond_beq, show ¬ (31 = 0) by decide, if_false, if_true]
    by_cases hn : hNeg x = true
    · have : ¬ x < 32768 := by have := f3.mp hn; omega
      rw [if_pos hn, if_neg (fun h => this h.2)]; rfl
    · have : x < 32768 := by
        have : ¬ 32768 ≤ x := fun h => hn (f3.mpr h)
        omega
      rw [if_neg hn]
      by_cases h0 : x % 1024 = 0
      · rw [if_pos h0, if_pos ⟨h0, this⟩]; rfl
      · rw [if_neg h0, if_neg (fun h => h0 h.1)]; rfl
  · rw [if_neg he]
    simp only
    have hy : x % 32768 < 31744 := by omega
    obtain ⟨-, -, c3⟩ := chkHalf_sound _ (H _ hy)
    rw [← f1, ← f2] at c3
    by_cases hn : hNeg x = true
    · have h32 : 32768 ≤ x := f3.mp hn
      have : ¬ (14337 ≤ x ∧ x ≤ 14340) := by omega
      rw [if_pos hn, if_pos hn, toCode_neg_mkRat, if_neg this]; rfl
    · have h32 : x < 32768 := by
        have : ¬ 32768 ≤ x := fun h => hn (f3.mpr h)
        omega
      have hxy : x % 32768 = x := Nat.mod_eq_of_lt h32
      rw [hxy] at c3
      rw [if_neg hn, if_neg hn, c3]

end
end Dds.ConvFast
