/- 65 536-point complete evaluation of `s16n16`, half 0 (chunks of 8 192 points; own file so that lake
checks the halves in parallel). -/
import DdsModel.Proofs.ConvInt
namespace Dds.ConvProofs
open Dds Dds.Conv Dds.Spec Dds.ConvRange
set_option maxRecDepth 100000
theorem s16n16_c00 : allRange (okInt s16n16 65535 (snorm 16) tieZero) 8 0 8192 = true := by decide +kernel
theorem s16n16_c01 : allRange (okInt s16n16 65535 (snorm 16) tieZero) 8 8192 8192 = true := by decide +kernel
theorem s16n16_c02 : allRange (okInt s16n16 65535 (snorm 16) tieZero) 8 16384 8192 = true := by decide +kernel
theorem s16n16_c03 : allRange (okInt s16n16 65535 (snorm 16) tieZero) 8 24576 8192 = true := by decide +kernel
theorem s16n16_half0 : ∀ x, 0 ≤ x → x < 32768 → okInt s16n16 65535 (snorm 16) tieZero x = true := by
  intro x h1 h2
  by_cases a : x < 8192
  · exact allRange_sound _ 8 0 8192 s16n16_c00 x h1 (by omega)
  · by_cases b : x < 16384
    · exact allRange_sound _ 8 8192 8192 s16n16_c01 x (by omega) (by omega)
    · by_cases c : x < 24576
      · exact allRange_sound _ 8 16384 8192 s16n16_c02 x (by omega) (by omega)
      · exact allRange_sound _ 8 24576 8192 s16n16_c03 x (by omega) (by omega)
end Dds.ConvProofs
