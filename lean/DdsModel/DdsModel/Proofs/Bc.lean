/-
Generic lemmas of C03 (BC1–BC5): bit-field and index extraction, palette selection, and the assembly of
the finite lemmas of `Proofs/BcFinite.lean` into per-pixel equalities `implementation model = spec`.
-/
import DdsModel.Proofs.BcFinite
namespace Dds.Bc
open Dds.BcSpec (rnd quant leWord chan8 colorEntry bc4Entry interp)

theorem and3 (x : Nat) : x &&& 3 = x % 4 := Nat.and_two_pow_sub_one_eq_mod x 2
theorem and7 (x : Nat) : x &&& 7 = x % 8 := Nat.and_two_pow_sub_one_eq_mod x 3
theorem and15 (x : Nat) : x &&& 0xF = x % 16 := Nat.and_two_pow_sub_one_eq_mod x 4
theorem and31 (x : Nat) : x &&& 0x1F = x % 32 := Nat.and_two_pow_sub_one_eq_mod x 5
theorem and63 (x : Nat) : x &&& 0x3F = x % 64 := Nat.and_two_pow_sub_one_eq_mod x 6

theorem lt16_cases {p : Nat} (hp : p < 16) :
    p = 0 ∨ p = 1 ∨ p = 2 ∨ p = 3 ∨ p = 4 ∨ p = 5 ∨ p = 6 ∨ p = 7 ∨ p = 8 ∨ p = 9 ∨ p = 10 ∨
    p = 11 ∨ p = 12 ∨ p = 13 ∨ p = 14 ∨ p = 15 := by omega

theorem beq_true {a b : Nat} (h : (a == b) = true) : a = b := by simpa using h

/-! ### little-endian words, index extraction -/

theorem leWord_shift (blk : Nat → Nat) (s : Nat) : ∀ n o, leWord (fun i => blk (i + s)) o n = leWord blk (o + s) n := by
  intro n
  induction n with
  | zero => intro o; rfl
  | succ n ih =>
    intro o
    simp only [leWord]
    rw [ih (o + 1)]
    have : o + 1 + s = o + s + 1 := by omega
    rw [this]

theorem le16_eq (blk : Nat → Nat) (o : Nat) : le16 blk o = leWord blk o 2 := by
  simp only [le16, leWord]; omega

/-- colour index: `(indexes >> (p*2)) & 0b11` is the base-4 digit `p` of the little-endian word -/
theorem colorIndex_eq (blk : Nat → Nat) (hb : ∀ i, blk i < 256) (p : Nat) (hp : p < 16) :
    (le32 blk 4 >>> (p * 2)) &&& 3 = leWord blk 4 4 / 4 ^ p % 4 := by
  have h4 := hb 4; have h5 := hb 5; have h6 := hb 6; have h7 := hb 7
  rw [and3, Nat.shiftRight_eq_div_pow]
  simp only [le32, leWord]
  rcases lt16_cases hp with h | h | h | h | h | h | h | h | h | h | h | h | h | h | h | h <;>
    subst h <;> simp only [Nat.reduceMul, Nat.reducePow, Nat.reduceAdd] <;> omega

/-- BC4 index: `(indexes_i >> (j*3)) & 0b111` is the base-8 digit `p` of the 48-bit little-endian word -/
theorem bc4Index_eq (blk : Nat → Nat) (hb : ∀ i, blk i < 256) (p : Nat) (hp : p < 16) :
    bc4Index blk p = leWord blk 2 6 / 8 ^ p % 8 := by
  have h2 := hb 2; have h3 := hb 3; have h4 := hb 4; have h5 := hb 5; have h6 := hb 6; have h7 := hb 7
  unfold bc4Index
  rw [and7, Nat.shiftRight_eq_div_pow]
  simp only [le24, leWord]
  rcases lt16_cases hp with h | h | h | h | h | h | h | h | h | h | h | h | h | h | h | h <;>
    subst h <;> simp only [Nat.reduceMul, Nat.reducePow, Nat.reduceAdd, Nat.reduceDiv, Nat.reduceMod] <;> omega

/-- BC2 alpha nibble of pixel `p` is the base-16 digit `p` of the 64-bit little-endian alpha word -/
theorem bc2Nibble_eq (blk : Nat → Nat) (hb : ∀ i, blk i < 256) (p : Nat) (hp : p < 16) :
    lut4 (blk (p / 4 * 2) &&& 0xF) (blk (p / 4 * 2) >>> 4) (blk (p / 4 * 2 + 1) &&& 0xF)
      (blk (p / 4 * 2 + 1) >>> 4) (p % 4) = leWord blk 0 8 / 16 ^ p % 16 := by
  have h0 := hb 0; have h1 := hb 1; have h2 := hb 2; have h3 := hb 3
  have h4 := hb 4; have h5 := hb 5; have h6 := hb 6; have h7 := hb 7
  simp only [and15, Nat.shiftRight_eq_div_pow, leWord]
  rcases lt16_cases hp with h | h | h | h | h | h | h | h | h | h | h | h | h | h | h | h <;>
    subst h <;>
    simp only [lut4, Nat.reduceMul, Nat.reducePow, Nat.reduceAdd, Nat.reduceDiv, Nat.reduceMod] <;> omega

/-- `B5G6R5::from_u16` extracts the 5:6:5 fields -/
theorem fromU16_eq (c : Nat) (hc : c < 65536) :
    B565.fromU16 c = ⟨c / 2048, c / 32 % 64, c % 32⟩ := by
  unfold B565.fromU16
  rw [and31, and63, and31, Nat.shiftRight_eq_div_pow, Nat.shiftRight_eq_div_pow]
  congr 1 <;> omega

/-! ### colour channels -/

theorem c5_0 (four : Bool) (a b : Nat) (ha : a ≤ 31) : n5n8 a = chan8 four 0 a b 31 := by
  have h := beq_true (n5n8_fin a ha)
  simp only [chan8, colorEntry, interp_eq, Nat.one_mul, Nat.zero_mul, Nat.add_zero]
  exact h
theorem c5_1 (four : Bool) (a b : Nat) (hb : b ≤ 31) : n5n8 b = chan8 four 1 a b 31 := by
  have h := beq_true (n5n8_fin b hb)
  simp only [chan8, colorEntry, interp_eq, Nat.one_mul, Nat.zero_mul, Nat.zero_add]
  exact h
theorem c6_0 (four : Bool) (a b : Nat) (ha : a ≤ 63) : n6n8 a = chan8 four 0 a b 63 := by
  have h := beq_true (n6n8_fin a ha)
  simp only [chan8, colorEntry, interp_eq, Nat.one_mul, Nat.zero_mul, Nat.add_zero]
  exact h
theorem c6_1 (four : Bool) (a b : Nat) (hb : b ≤ 63) : n6n8 b = chan8 four 1 a b 63 := by
  have h := beq_true (n6n8_fin b hb)
  simp only [chan8, colorEntry, interp_eq, Nat.one_mul, Nat.zero_mul, Nat.zero_add]
  exact h

theorem c5_2t (a b : Nat) (ha : a ≤ 31) (hb : b ≤ 31) : third5 a b = chan8 true 2 a b 31 := by
  have h := beq_true (third5_fin (2 * a + 1 * b) (by omega))
  have hr : w16 (w16 (a * 2) + b) = 2 * a + 1 * b := by unfold w16; omega
  simp only [third5, hr, chan8, colorEntry, interp_eq]
  exact h
theorem c5_3t (a b : Nat) (ha : a ≤ 31) (hb : b ≤ 31) : third5 b a = chan8 true 3 a b 31 := by
  have h := beq_true (third5_fin (1 * a + 2 * b) (by omega))
  have hr : w16 (w16 (b * 2) + a) = 1 * a + 2 * b := by unfold w16; omega
  simp only [third5, hr, chan8, colorEntry, interp_eq]
  exact h
theorem c5_2f (a b : Nat) (ha : a ≤ 31) (hb : b ≤ 31) : mid5 a b = chan8 false 2 a b 31 := by
  have h := beq_true (mid5_fin (1 * a + 1 * b) (by omega))
  have hr : w16 (a + b) = 1 * a + 1 * b := by unfold w16; omega
  simp only [mid5, hr, chan8, colorEntry, interp_eq]
  exact h
theorem c6_2t (a b : Nat) (ha : a ≤ 63) (hb : b ≤ 63) : third6 a b = chan8 true 2 a b 63 := by
  have h := beq_true (third6_fin (2 * a + 1 * b) (by omega))
  have hr : w16 (w16 (a * 2) + b) = 2 * a + 1 * b := by unfold w16; omega
  simp only [third6, hr, chan8, colorEntry, interp_eq]
  exact h
theorem c6_3t (a b : Nat) (ha : a ≤ 63) (hb : b ≤ 63) : third6 b a = chan8 true 3 a b 63 := by
  have h := beq_true (third6_fin (1 * a + 2 * b) (by omega))
  have hr : w16 (w16 (b * 2) + a) = 1 * a + 2 * b := by unfold w16; omega
  simp only [third6, hr, chan8, colorEntry, interp_eq]
  exact h
theorem c6_2f (a b : Nat) (ha : a ≤ 63) (hb : b ≤ 63) : mid6 a b = chan8 false 2 a b 63 := by
  have h := beq_true (mid6_fin (1 * a + 1 * b) (by omega))
  have hr : w16 (a + b) = 1 * a + 1 * b := by unfold w16; omega
  simp only [mid6, hr, chan8, colorEntry, interp_eq]
  exact h

theorem lt4_cases {k : Nat} (hk : k < 4) : k = 0 ∨ k = 1 ∨ k = 2 ∨ k = 3 := by omega

/-- the palette of a colour block in mode `four`, entry `k`, equals the specification's entry -/
theorem palette_eq (four : Bool) (c0 c1 k : Nat) (h0 : c0 < 65536) (h1 : c1 < 65536) (hk : k < 4) :
    lut4 (toRgba (B565.fromU16 c0).toN8) (toRgba (B565.fromU16 c1).toN8)
      (if four then toRgba ((B565.fromU16 c0).oneThird (B565.fromU16 c1))
        else toRgba ((B565.fromU16 c0).mid (B565.fromU16 c1)))
      (if four then toRgba ((B565.fromU16 c1).oneThird (B565.fromU16 c0)) else (0, 0, 0, 0)) k
    = (chan8 four k (c0 / 2048) (c1 / 2048) 31, chan8 four k (c0 / 32 % 64) (c1 / 32 % 64) 63,
       chan8 four k (c0 % 32) (c1 % 32) 31, if !four && k == 3 then 0 else 255) := by
  rw [fromU16_eq c0 h0, fromU16_eq c1 h1]
  have r0 : c0 / 2048 ≤ 31 := by omega
  have r1 : c1 / 2048 ≤ 31 := by omega
  have g0 : c0 / 32 % 64 ≤ 63 := by omega
  have g1 : c1 / 32 % 64 ≤ 63 := by omega
  have b0 : c0 % 32 ≤ 31 := by omega
  have b1 : c1 % 32 ≤ 31 := by omega
  rcases lt4_cases hk with h | h | h | h <;> subst h <;> cases four <;>
    simp only [lut4, toRgba, B565.toN8, B565.oneThird, B565.mid, if_true, if_false, Bool.false_eq_true,
      Bool.not_true, Bool.not_false, Bool.and_true, Bool.false_and, Bool.true_and, beq_self_eq_true,
      Nat.reduceBEq, Bool.and_false] <;>
    first
    | rw [← c5_0 _ _ _ r0, ← c6_0 _ _ _ g0, ← c5_0 _ _ _ b0]
    | rw [← c5_1 _ _ _ r1, ← c6_1 _ _ _ g1, ← c5_1 _ _ _ b1]
    | rw [← c5_2t _ _ r0 r1, ← c6_2t _ _ g0 g1, ← c5_2t _ _ b0 b1]
    | rw [← c5_3t _ _ r0 r1, ← c6_3t _ _ g0 g1, ← c5_3t _ _ b0 b1]
    | rw [← c5_2f _ _ r0 r1, ← c6_2f _ _ g0 g1, ← c5_2f _ _ b0 b1]
    | rfl

theorem le16_lt (blk : Nat → Nat) (hb : ∀ i, blk i < 256) (o : Nat) : le16 blk o < 65536 := by
  have h0 := hb o; have h1 := hb (o + 1)
  unfold le16; omega

/-- BC1 pixel: implementation model = specification -/
theorem bc1Px_eq (blk : Nat → Nat) (hb : ∀ i, blk i < 256) (p : Nat) (hp : p < 16) :
    bc1Px blk p = BcSpec.colorPx true blk 0 p := by
  have hk : leWord blk 4 4 / 4 ^ p % 4 < 4 := Nat.mod_lt _ (by decide)
  have h := palette_eq (decide (le16 blk 0 > le16 blk 2)) (le16 blk 0) (le16 blk 2) _
    (le16_lt blk hb 0) (le16_lt blk hb 2) hk
  unfold bc1Px BcSpec.colorPx BcSpec.fourMode
  simp only [colorIndex_eq blk hb p hp, Nat.zero_add, ← le16_eq, Bool.not_true, Bool.false_or]
  rw [← h]
  by_cases hgt : le16 blk 0 > le16 blk 2
  · simp only [hgt, if_true, decide_true]
  · simp only [hgt, if_false, decide_false, Bool.false_eq_true]

/-- BC2/BC3 colour pixel (always four colours): implementation model = specification -/
theorem bc1NoDefaultPx_eq (blk : Nat → Nat) (hb : ∀ i, blk i < 256) (p : Nat) (hp : p < 16) :
    bc1NoDefaultPx blk p = BcSpec.colorPx false blk 0 p := by
  have hk : leWord blk 4 4 / 4 ^ p % 4 < 4 := Nat.mod_lt _ (by decide)
  have h := palette_eq true (le16 blk 0) (le16 blk 2) _ (le16_lt blk hb 0) (le16_lt blk hb 2) hk
  unfold bc1NoDefaultPx BcSpec.colorPx BcSpec.fourMode
  simp only [colorIndex_eq blk hb p hp, Nat.zero_add, ← le16_eq, Bool.not_false, Bool.true_or]
  rw [← h]
  simp only [if_true]

/-- the specification's colour pixel at offset 8 is the one of the upper half at offset 0 -/
theorem colorPx_upper (bc1 : Bool) (blk : Nat → Nat) (p : Nat) :
    BcSpec.colorPx bc1 (upper blk) 0 p = BcSpec.colorPx bc1 blk 8 p := by
  unfold BcSpec.colorPx upper
  simp only [leWord_shift]

theorem upper_lt (blk : Nat → Nat) (hb : ∀ i, blk i < 256) : ∀ i, upper blk i < 256 := fun i => hb (i + 8)

/-! ### BC2 alpha -/

theorem bc2Alpha_eq (blk : Nat → Nat) (hb : ∀ i, blk i < 256) (p : Nat) (hp : p < 16) :
    bc2Alpha blk p = BcSpec.bc2Alpha blk p := by
  simp only [bc2Alpha, BcSpec.bc2Alpha]
  rw [bc2Nibble_eq blk hb p hp]
  have hn : leWord blk 0 8 / 16 ^ p % 16 ≤ 15 := by
    have := Nat.mod_lt (leWord blk 0 8 / 16 ^ p) (show 0 < 16 by decide)
    omega
  exact beq_true (n4n8_fin _ hn)

/-! ### BC4 -/

theorem lt8_cases {k : Nat} (hk : k < 8) :
    k = 0 ∨ k = 1 ∨ k = 2 ∨ k = 3 ∨ k = 4 ∨ k = 5 ∨ k = 6 ∨ k = 7 := by omega

/-- the 8-entry palette of `bc4u_gray`/`bc4s_gray` equals the specification's, given that the
precision's operations are correct on the interpolation numerators -/
theorem bc4Lut_eq (ops : Bc4Ops) (pr : Prec) (m a b c0 c1 : Nat) (six : Bool) (k : Nat) (hk : k < 8)
    (ha : a ≤ m) (hb : b ≤ m) (hm : m ≤ 255)
    (h0 : c0 = quant pr (frac a m)) (h1 : c1 = quant pr (frac b m))
    (h6 : ∀ n, n ≤ 7 * m → ops.interp6 n = quant pr (frac n (7 * m)))
    (h4 : ∀ n, n ≤ 5 * m → ops.interp4 n = quant pr (frac n (5 * m)))
    (hz : ops.zero = quant pr 0) (ho : ops.one = quant pr 1) :
    bc4Lut ops c0 c1 a b six k = quant pr (bc4Entry six k a b m) := by
  have H6 : ∀ n n', n = n' → n' ≤ 7 * m → ops.interp6 n = quant pr (frac n' (7 * m)) := by
    intro n n' hn hle; subst hn; exact h6 _ hle
  have H4 : ∀ n n', n = n' → n' ≤ 5 * m → ops.interp4 n = quant pr (frac n' (5 * m)) := by
    intro n n' hn hle; subst hn; exact h4 _ hle
  rcases lt8_cases hk with h | h | h | h | h | h | h | h <;> subst h <;> cases six <;>
    simp only [bc4Lut, bc4Entry, interp_eq, if_true, if_false, Bool.false_eq_true, Nat.reduceSub,
      Nat.reduceEqDiff, Nat.one_mul, Nat.zero_mul, Nat.add_zero, Nat.zero_add, Nat.reduceAdd]
  all_goals first
    | exact h0
    | exact h1
    | exact hz
    | exact ho
    | exact H6 _ _ (by unfold w16; omega) (by omega)
    | exact H4 _ _ (by unfold w16; omega) (by omega)

theorem bc4uPx_eq (pr : Prec) (blk : Nat → Nat) (hb : ∀ i, blk i < 256) (p : Nat) (hp : p < 16) :
    bc4uPx (bc4uOps pr) blk p = quant pr (BcSpec.bc4uVal blk 0 p) := by
  have h0 := hb 0; have h1 := hb 1
  have hk : leWord blk 2 6 / 8 ^ p % 8 < 8 := Nat.mod_lt _ (by decide)
  have hc := consts_fin pr
  unfold bc4uPx BcSpec.bc4uVal
  simp only [bc4Index_eq blk hb p hp, Nat.zero_add]
  exact bc4Lut_eq (bc4uOps pr) pr 255 (blk 0) (blk 1) _ _ _ _ hk (by omega) (by omega) (by omega)
    (beq_true (u_byte_fin pr _ (by omega))) (beq_true (u_byte_fin pr _ (by omega)))
    (fun n hn => beq_true (u6_fin pr n hn)) (fun n hn => beq_true (u4_fin pr n hn)) hc.1 hc.2.1

theorem asI8_eq (x : Nat) : asI8 x = BcSpec.sraw x := rfl

theorem bc4sPx_eq (pr : Prec) (blk : Nat → Nat) (hb : ∀ i, blk i < 256) (p : Nat) (hp : p < 16) :
    bc4sPx (bc4sOps pr) blk p = quant pr (BcSpec.bc4sVal blk 0 p) := by
  have h0 := hb 0; have h1 := hb 1
  have hk : leWord blk 2 6 / 8 ^ p % 8 < 8 := Nat.mod_lt _ (by decide)
  have hc := consts_fin pr
  have n0 := s_norm_fin (blk 0) (by omega)
  have n1 := s_norm_fin (blk 1) (by omega)
  simp only [Bool.and_eq_true, decide_eq_true_eq] at n0 n1
  have e0 : s8norm (blk 0) = BcSpec.snormU (blk 0) := beq_true n0.1
  have e1 : s8norm (blk 1) = BcSpec.snormU (blk 1) := beq_true n1.1
  unfold bc4sPx BcSpec.bc4sVal
  simp only [bc4Index_eq blk hb p hp, Nat.zero_add, asI8_eq, e0, e1]
  exact bc4Lut_eq (bc4sOps pr) pr 254 _ _ _ _ _ _ hk (by omega) (by omega) (by omega)
    (beq_true (s_byte_fin pr _ (by omega))) (beq_true (s_byte_fin pr _ (by omega)))
    (fun n hn => beq_true (s6_fin pr n hn)) (fun n hn => beq_true (s4_fin pr n hn)) hc.2.2.1 hc.2.2.2.1

theorem bc4uVal_upper (blk : Nat → Nat) (p : Nat) : BcSpec.bc4uVal (upper blk) 0 p = BcSpec.bc4uVal blk 8 p := by
  unfold BcSpec.bc4uVal upper
  simp only [leWord_shift, Nat.zero_add]
theorem bc4sVal_upper (blk : Nat → Nat) (p : Nat) : BcSpec.bc4sVal (upper blk) 0 p = BcSpec.bc4sVal blk 8 p := by
  unfold BcSpec.bc4sVal upper
  simp only [leWord_shift, Nat.zero_add]

end Dds.Bc
