/-
C12: the binary32 quantisers `nK::from_f32`, `s8::from_uf32` on ALL 2^32 bit patterns against the exact quantiser
`Quant.qL` (round half up of `clamp(x)·L`), from the kernel-checked threshold tables (`Proofs/F32ThrTab*.lean`) and
the monotonicity of the software float (`Proofs/F32Mono.lean`).
-/
import DdsModel.Proofs.F32ThrTabFpN8
import DdsModel.Proofs.F32ThrTabFpN16
import DdsModel.Proofs.F32ThrTabN2
import DdsModel.Proofs.F32ThrTabN4
import DdsModel.Proofs.F32ThrTabN5
import DdsModel.Proofs.F32ThrTabN6
import DdsModel.Proofs.F32ThrTabN10
import DdsModel.Proofs.F32ThrTabS8
import DdsModel.Proofs.F32ThrDev
import DdsModel.Proofs.Quant
import DdsModel.QuantF32
namespace Dds.QuantF32
open Dds Dds.CF32 Dds.Spec Dds.F32Mono Dds.F32Thr Dds.ConvFast Dds.EncTotal Dds.EncTotal.QuantBits

/-! ### the two clamps, the two quantisers -/

theorem spec_clamp_eq (q : Rat) : Spec.clamp01 q = Quant.clamp01 q := by
  unfold Spec.clamp01 Quant.clamp01
  by_cases h0 : q < 0
  · have h1 : ¬ (1 : Rat) ≤ q := by grind
    have h2 : ¬ (0 : Rat) ≤ q := by rw [Rat.not_le]; exact h0
    rw [if_pos h0, Rat.min_def, if_neg h1, Rat.max_def, if_neg h2]
  · have h0' : (0 : Rat) ≤ q := by rw [← Rat.not_lt]; exact h0
    rw [if_neg h0]
    by_cases h1 : 1 < q
    · rw [if_pos h1, Rat.min_def, if_pos (Rat.le_of_lt h1), Rat.max_def, if_pos (by decide)]
    · rw [if_neg h1, Rat.min_def]
      by_cases h2 : (1 : Rat) ≤ q
      · have : q = 1 := Rat.le_antisymm (by rw [← Rat.not_lt]; exact h1) h2
        rw [if_pos h2, Rat.max_def, if_pos (by decide), this]
      · rw [if_neg h2, Rat.max_def, if_pos h0']

theorem toCode_eq_qL (L : Nat) (q : Rat) : toCode L q = ((Quant.qL L q : Nat) : Int) := by
  unfold toCode nearest Quant.qL Quant.roundHalfUp
  rw [spec_clamp_eq, Rat.mul_comm]
  have h := (Quant.clamp01_mem q).1
  have hL : (0 : Rat) ≤ (L : Rat) := Rat.natCast_nonneg
  have hp : (0 : Rat) ≤ Quant.clamp01 q * (L : Rat) := Rat.mul_nonneg h hL
  have hn : (0 : Int) ≤ (Quant.clamp01 q * (L : Rat) + 1 / 2).floor := by
    rw [Rat.le_floor_iff]
    generalize Quant.clamp01 q * (L : Rat) = y at *
    have : ((0 : Int) : Rat) = 0 := rfl
    rw [this]
    grind
  exact (Int.toNat_of_nonneg hn).symm

/-! ### `x.min(1.0)` -/

theorem key_nonneg (b : Nat) (h : b < 0x80000000) : key b = (b : Int) := Dds.EncTotal.SharedExp.key_of_lt b h

theorem one_flags : isNaN one = false ∧ key one = (one : Int) := by decide

theorem fmin_nan (b : Nat) (h : isNaN b = true) : fmin b one = one := by
  unfold fmin; rw [if_pos h]

theorem fmin_le_one (b : Nat) (h : b ≤ one) : fmin b one = b := by
  have hb : b < 0x7F800000 := Nat.lt_of_le_of_lt h (by decide)
  obtain ⟨a1, _, _, _, _⟩ := posfin b hb
  unfold fmin flt
  rw [a1, one_flags.1, one_flags.2, key_nonneg b (by omega)]
  simp only [Bool.false_eq_true, if_false, Bool.not_false, Bool.true_and, decide_eq_true_eq]
  rw [if_neg (by omega)]

theorem fmin_gt_one (b : Nat) (h : one < b) (hb : b ≤ 0x7F800000) : fmin b one = one := by
  have a1 : isNaN b = false := Dds.EncTotal.SharedExp.isNaN_of_le b hb
  unfold fmin flt
  rw [a1, one_flags.1, one_flags.2, key_nonneg b (by omega)]
  simp only [Bool.false_eq_true, if_false, Bool.not_false, Bool.true_and, decide_eq_true_eq]
  rw [if_pos (by omega)]

theorem fmin_neg (b : Nat) (h : NegR b) : fmin b one = b := by
  obtain ⟨a1, a2⟩ := negR_flags b h
  have hk : key b ≤ 0 := by
    unfold key; rw [a2]; simp only [if_true]; omega
  unfold fmin flt
  rw [a1, one_flags.1, one_flags.2]
  simp only [Bool.false_eq_true, if_false, Bool.not_false, Bool.true_and, decide_eq_true_eq]
  have : ¬ ((one : Nat) : Int) < key b := by
    have : (0 : Int) < ((one : Nat) : Int) := by decide
    omega
  rw [if_neg this]

/-! ### all 2^32 patterns -/

theorem pval_one : pval 0x3F800000 = 2 ^ 149 := by decide +kernel

/-- the hypotheses about a `min(1.0)` quantiser `(x.min(1.0) * K + 0.5) as uN` with `L` steps and its table -/
structure MinQ (K cap L : Nat) (tbl : List Nat) : Prop where
  hK : K < 0x7F800000
  hK0 : 0 < K
  hlen : tbl.length = L
  hc : chkList K half cap L 0x3F800001 1 0 tbl = true
  hone : pipe K half cap 0x3F800000 = L

theorem MinQ.mono {K cap L : Nat} {tbl : List Nat} (h : MinQ K cap L tbl) :
    ∀ a b, a ≤ b → b < 0x3F800001 → pipe K half cap a ≤ pipe K half cap b :=
  fun _ _ hab hb => pipe_mono h.hK h.hK0 (by decide) hab (by omega)

theorem MinQ.le {K cap L : Nat} {tbl : List Nat} (h : MinQ K cap L tbl) :
    ∀ b, b < 0x3F800001 → pipe K half cap b ≤ L := by
  intro b hb
  have := pipe_mono (mx := cap) h.hK h.hK0 (show half < 0x7F800000 by decide) (show b ≤ 0x3F800000 by omega)
    (by decide)
  rw [h.hone] at this
  exact this

theorem not_mem_of_ge {K cap L top : Nat} {tbl : List Nat} (hc : chkList K half cap L top 1 0 tbl = true) (b : Nat)
    (hb : top ≤ b + 1) : ¬ (2 * b + 1) ∈ tbl := by
  intro hm
  obtain ⟨k, _, _, e⟩ := mem_entry K half cap L top tbl hc _ hm
  have := e.s_fin
  omega

/-- `nK::from_f32` (`K = 2, 4, 5, 6, 10`) and the norm of `s8::from_uf32` on every bit pattern -/
theorem unorm_all {K cap L : Nat} {tbl : List Nat} (h : MinQ K cap L tbl) (b : Nat) (hb : b < 2 ^ 32) :
    QuantBits.unorm K cap b =
      (if isNaN b then L else if isInf b then (if isNeg b then 0 else L) else Quant.qL L (toRat b)) +
        (if b ∈ devOf tbl then 1 else 0) := by
  have hmem : (b ∈ devOf tbl) ↔ (2 * b + 1) ∈ tbl := mem_devOf tbl b
  have hD : (2 : Nat) ^ 149 ≠ 0 := Nat.pos_iff_ne_zero.mp (two_pow_pos 149)
  unfold QuantBits.unorm
  show pipe K half cap (fmin b one) = _
  rcases classify b hb with h1 | h1 | h1 | ⟨h1, h1'⟩ | h1
  · obtain ⟨a1, a2, _, _, _⟩ := posfin b h1
    rw [a1, a2]
    simp only [Bool.false_eq_true, if_false]
    by_cases hle : b ≤ one
    · rw [fmin_le_one b hle]
      have := thr_main K half cap L 0x3F800001 tbl (by decide) h.mono h.le h.hlen h.hc b
        (by simp only [one] at hle; omega)
      rw [toCode_eq_qL] at this
      by_cases hm : (2 * b + 1) ∈ tbl
      · rw [if_pos hm] at this; rw [if_pos (hmem.mpr hm)]; omega
      · rw [if_neg hm] at this; rw [if_neg (fun h' => hm (hmem.mp h'))]; omega
    · have hgt : one < b := by omega
      rw [fmin_gt_one b hgt (by omega)]
      have hnm := not_mem_of_ge h.hc b (by simp only [one] at hgt; omega)
      rw [if_neg (fun h' => hnm (hmem.mp h')), Nat.add_zero]
      have hq : toCode L (toRat b) = ((L : Nat) : Int) := by
        rw [toRat_pval b h1, toCode_mkRat L (pval b) (2 ^ 149) hD, codeR_def]
        have : pval 0x3F800000 ≤ pval b := pval_mono (by simp only [one] at hgt; omega)
        rw [pval_one] at this
        rw [if_pos this]
      rw [toCode_eq_qL] at hq
      show pipe K half cap 0x3F800000 = _
      rw [h.hone]; omega
  · subst h1
    obtain ⟨i1, i2, i3, _⟩ := posInf_flags
    rw [i1, i2, i3, fmin_gt_one _ (by decide) (Nat.le_refl _)]
    have hnm := not_mem_of_ge h.hc 0x7F800000 (by decide)
    rw [if_neg (fun h' => hnm (hmem.mp h'))]
    show pipe K half cap 0x3F800000 = _
    rw [h.hone]; rfl
  · have hge : ¬ b < 0x7F800000 := by
      intro hlt
      rw [(posfin b hlt).1] at h1
      exact Bool.false_ne_true h1
    have hnm := not_mem_of_ge h.hc b (by omega)
    rw [h1, fmin_nan b h1, if_neg (fun h' => hnm (hmem.mp h'))]
    show pipe K half cap 0x3F800000 = _
    rw [h.hone]; rfl
  · have hs : 0x80000000 ≤ b := by have := h1.1; simpa only [signBit] using this
    have hnm := not_mem_of_ge h.hc b (by omega)
    obtain ⟨n1, n2, n3⟩ := negfin_flags b hs h1'
    rw [fmin_neg b h1, pipe_neg K cap b h.hK h.hK0 h1, n1, n2, if_neg (fun h' => hnm (hmem.mp h'))]
    simp only [Bool.false_eq_true, if_false]
    have := toCode_nonpos L _ (toRat_nonpos_of_neg b n3)
    rw [toCode_eq_qL] at this
    omega
  · subst h1
    have hN : NegR 0xFF800000 := ⟨by decide, by decide⟩
    have hnm := not_mem_of_ge h.hc 0xFF800000 (by decide)
    have : isNaN 0xFF800000 = false ∧ isInf 0xFF800000 = true ∧ isNeg 0xFF800000 = true := by decide
    rw [fmin_neg _ hN, pipe_neg K cap _ h.hK h.hK0 hN, this.1, this.2.1, this.2.2,
      if_neg (fun h' => hnm (hmem.mp h'))]
    rfl

/-- the hypotheses about a saturating quantiser `(x * K + 0.5) as uN` (`n8`, `n16`) and its table -/
structure SatQ (K L : Nat) (tbl : List Nat) : Prop where
  hK : K < 0x7F800000
  hK0 : 0 < K
  hlen : tbl.length = L
  hc : chkList K half L L 0x7F800000 1 0 tbl = true

/-- `n8::from_f32`, `n16::from_f32` on every bit pattern -/
theorem sat_all {K L : Nat} {tbl : List Nat} (h : SatQ K L tbl) (b : Nat) (hb : b < 2 ^ 32) :
    pipe K half L b =
      (if isNaN b then 0 else if isInf b then (if isNeg b then 0 else L) else Quant.qL L (toRat b)) +
        (if b ∈ devOf tbl then 1 else 0) := by
  have hmem : (b ∈ devOf tbl) ↔ (2 * b + 1) ∈ tbl := mem_devOf tbl b
  have := pipe_half_all K L tbl h.hK h.hK0 h.hlen h.hc b hb
  unfold specCode at this
  rw [toCode_eq_qL] at this
  by_cases hm : (2 * b + 1) ∈ tbl
  · rw [if_pos hm] at this; rw [if_pos (hmem.mpr hm)]
    split at this <;> (try split at this) <;> (try split at this) <;> simp_all <;> omega
  · rw [if_neg hm] at this; rw [if_neg (fun h' => hm (hmem.mp h'))]
    split at this <;> (try split at this) <;> (try split at this) <;> simp_all <;> omega

/-! ### the exceptional patterns -/

/-- on an exceptional pattern: positive, finite, below `top`; the code is one above the exact quantiser; it decodes
to MORE than half a step above the input, by at most the tie tolerance `2^-12/255` -/
theorem dev_q (K cap L top : Nat) (tbl : List Nat) (htop : top ≤ 0x7F800000)
    (hmono : ∀ a b, a ≤ b → b < top → pipe K half cap a ≤ pipe K half cap b)
    (hle : ∀ b, b < top → pipe K half cap b ≤ L) (hL : 0 < L)
    (hlen : tbl.length = L) (hc : chkList K half cap L top 1 0 tbl = true) (b : Nat) (hm : b ∈ devOf tbl) :
    b + 1 < top ∧ pipe K half cap b = Quant.qL L (toRat b) + 1 ∧
    1 / (2 * (L : Rat)) < Quant.deqL L (pipe K half cap b) - Quant.clamp01 (toRat b) ∧
    Quant.deqL L (pipe K half cap b) - Quant.clamp01 (toRat b) ≤ 1 / (2 * (L : Rat)) + 1 / (4096 * 255) := by
  obtain ⟨h0, h1, h2, h3, _, h5⟩ := dev_facts K half cap L top tbl htop hmono hle hlen hc b ((mem_devOf tbl b).mp hm)
  rw [toCode_eq_qL] at h1
  refine ⟨h0, by omega, ?_, ?_⟩
  · -- `toRat b < tie` and `code/L = tie + 1/(2L)`
    have hq0 : (0 : Rat) ≤ toRat b := by rw [toRat_pval b (by omega)]; exact mkRat_nonneg _ _
    have hq1 : toRat b ≤ 1 := by
      have hk := hle b (by omega)
      have hlt : ((2 * pipe K half cap b - 1 : Nat) : Rat) / ((2 * L : Nat) : Rat) ≤ 1 := by
        have : (1 : Rat) = ((1 : Nat) : Rat) / ((1 : Nat) : Rat) := by decide +kernel
        rw [this, natDiv_le_natDiv _ _ _ _ (by omega) (by decide)]
        omega
      generalize ((2 * pipe K half cap b - 1 : Nat) : Rat) / ((2 * L : Nat) : Rat) = tie at *
      grind
    rw [Quant.clamp01_of_mem hq0 hq1]
    unfold Quant.deqL
    rw [tie_half _ L h2 hL]
    generalize ((2 * pipe K half cap b - 1 : Nat) : Rat) / ((2 * L : Nat) : Rat) = tie at *
    generalize 1 / (2 * (L : Rat)) = hl
    grind
  · unfold admissible at h5
    have := (of_decide_eq_true h5).2
    rw [spec_clamp_eq] at this
    exact this

/-! ### the eight quantisers -/

theorem n8_eq_pipe (b : Nat) : n8 b = pipe 0x437F0000 half 255 b := rfl
theorem n16_eq_pipe (b : Nat) : n16 b = pipe 0x477FFF00 half 65535 b := rfl

theorem satQ_n8 : SatQ 0x437F0000 255 FpN8.tbl := ⟨by decide, by decide, FpN8.tbl_len, FpN8.tbl_ok⟩
theorem satQ_n16 : SatQ 0x477FFF00 65535 FpN16.tbl := ⟨by decide, by decide, FpN16.tbl_len, FpN16.tbl_ok⟩

theorem minQ_n2 : MinQ k3 255 3 N2.tbl := ⟨by decide, by decide, N2.tbl_len, N2.tbl_ok, by decide +kernel⟩
theorem minQ_n4 : MinQ k15 255 15 N4.tbl := ⟨by decide, by decide, N4.tbl_len, N4.tbl_ok, by decide +kernel⟩
theorem minQ_n5 : MinQ k31 255 31 N5.tbl := ⟨by decide, by decide, N5.tbl_len, N5.tbl_ok, by decide +kernel⟩
theorem minQ_n6 : MinQ k63 255 63 N6.tbl := ⟨by decide, by decide, N6.tbl_len, N6.tbl_ok, by decide +kernel⟩
theorem minQ_n10 : MinQ k1023 65535 1023 N10.tbl := ⟨by decide, by decide, N10.tbl_len, N10.tbl_ok, by decide +kernel⟩
theorem minQ_s8 : MinQ k254 255 254 S8.tbl := ⟨by decide, by decide, S8.tbl_len, S8.tbl_ok, by decide +kernel⟩

/-- the exception sets (patterns whose code is one above the exact quantiser) -/
def n2Dev : List Nat := devOf N2.tbl
def n4Dev : List Nat := devOf N4.tbl
def n5Dev : List Nat := devOf N5.tbl
def n6Dev : List Nat := devOf N6.tbl
def n8Dev : List Nat := devOf FpN8.tbl
def n10Dev : List Nat := devOf N10.tbl
def n16Dev : List Nat := devOf FpN16.tbl
def s8Dev : List Nat := devOf S8.tbl

theorem dev_min {K cap L : Nat} {tbl : List Nat} (h : MinQ K cap L tbl) (hL : 0 < L) (b : Nat) (hm : b ∈ devOf tbl) :
    0 < b ∧ b < 0x3F800000 ∧ QuantBits.unorm K cap b = Quant.qL L (toRat b) + 1 ∧
    1 / (2 * (L : Rat)) < Quant.deqL L (QuantBits.unorm K cap b) - Quant.clamp01 (toRat b) ∧
    Quant.deqL L (QuantBits.unorm K cap b) - Quant.clamp01 (toRat b) ≤ 1 / (2 * (L : Rat)) + 1 / (4096 * 255) := by
  obtain ⟨h0, h1, h2, h3⟩ := dev_q K cap L 0x3F800001 tbl (by decide) h.mono h.le hL h.hlen h.hc b hm
  have hpos : 0 < b := by
    apply Nat.pos_of_ne_zero
    intro h0'
    obtain ⟨k, _, _, e⟩ := mem_entry K half cap L 0x3F800001 tbl h.hc _ ((mem_devOf tbl b).mp hm)
    have := e.t_pos
    omega
  have hu : QuantBits.unorm K cap b = pipe K half cap b := by
    unfold QuantBits.unorm
    rw [fmin_le_one b (by simp only [one]; omega)]
    rfl
  rw [hu]
  exact ⟨hpos, by omega, h1, h2, h3⟩

theorem dev_sat {K L : Nat} {tbl : List Nat} (h : SatQ K L tbl) (hL : 0 < L) (b : Nat) (hm : b ∈ devOf tbl) :
    0 < b ∧ b < 0x7F800000 ∧ pipe K half L b = Quant.qL L (toRat b) + 1 ∧
    1 / (2 * (L : Rat)) < Quant.deqL L (pipe K half L b) - Quant.clamp01 (toRat b) ∧
    Quant.deqL L (pipe K half L b) - Quant.clamp01 (toRat b) ≤ 1 / (2 * (L : Rat)) + 1 / (4096 * 255) := by
  obtain ⟨h0, h1, h2, h3⟩ := dev_q K L L 0x7F800000 tbl (Nat.le_refl _)
    (fun a b hab hb => pipe_mono h.hK h.hK0 (by decide) hab (by omega))
    (fun b hb => pipe_le K half L b (by omega) h.hK h.hK0 (by decide)) hL h.hlen h.hc b hm
  have hpos : 0 < b := by
    apply Nat.pos_of_ne_zero
    intro h0'
    obtain ⟨k, _, _, e⟩ := mem_entry K half L L 0x7F800000 tbl h.hc _ ((mem_devOf tbl b).mp hm)
    have := e.t_pos
    omega
  exact ⟨hpos, by omega, h1, h2, h3⟩

/-! ### the property's clause: within half a step of the clamped input (plus the tie tolerance on the exceptions) -/

theorem half_step_min {K cap L : Nat} {tbl : List Nat} (h : MinQ K cap L tbl) (hL : 0 < L) (b : Nat) (hb : b < 2 ^ 32)
    (hn : isNaN b = false) (hi : isInf b = false) :
    -(1 / (2 * (L : Rat))) ≤ Quant.deqL L (QuantBits.unorm K cap b) - Quant.clamp01 (toRat b) ∧
    Quant.deqL L (QuantBits.unorm K cap b) - Quant.clamp01 (toRat b) ≤
      1 / (2 * (L : Rat)) + (if b ∈ devOf tbl then 1 / (4096 * 255) else 0) := by
  by_cases hm : b ∈ devOf tbl
  · obtain ⟨_, _, _, h2, h3⟩ := dev_min h hL b hm
    rw [if_pos hm]
    refine ⟨?_, h3⟩
    have hl : (0 : Rat) < 1 / (2 * (L : Rat)) := by
      rw [Rat.div_def]
      exact Rat.mul_pos (by decide) (Rat.inv_pos.mpr (Rat.mul_pos (by decide) (Rat.natCast_pos.mpr hL)))
    generalize 1 / (2 * (L : Rat)) = hl' at *
    generalize Quant.deqL L (QuantBits.unorm K cap b) - Quant.clamp01 (toRat b) = d at *
    grind
  · have := unorm_all h b hb
    rw [hn, hi, if_neg hm] at this
    simp only [Bool.false_eq_true, if_false, Nat.add_zero] at this
    rw [if_neg hm, this, Rat.add_zero]
    have := Quant.qL_half_step L hL (toRat b)
    exact ⟨this.2, this.1⟩

theorem half_step_sat {K L : Nat} {tbl : List Nat} (h : SatQ K L tbl) (hL : 0 < L) (b : Nat) (hb : b < 2 ^ 32)
    (hn : isNaN b = false) (hi : isInf b = false) :
    -(1 / (2 * (L : Rat))) ≤ Quant.deqL L (pipe K half L b) - Quant.clamp01 (toRat b) ∧
    Quant.deqL L (pipe K half L b) - Quant.clamp01 (toRat b) ≤
      1 / (2 * (L : Rat)) + (if b ∈ devOf tbl then 1 / (4096 * 255) else 0) := by
  by_cases hm : b ∈ devOf tbl
  · obtain ⟨_, _, _, h2, h3⟩ := dev_sat h hL b hm
    rw [if_pos hm]
    refine ⟨?_, h3⟩
    have hl : (0 : Rat) < 1 / (2 * (L : Rat)) := by
      rw [Rat.div_def]
      exact Rat.mul_pos (by decide) (Rat.inv_pos.mpr (Rat.mul_pos (by decide) (Rat.natCast_pos.mpr hL)))
    generalize 1 / (2 * (L : Rat)) = hl' at *
    generalize Quant.deqL L (pipe K half L b) - Quant.clamp01 (toRat b) = d at *
    grind
  · have := sat_all h b hb
    rw [hn, hi, if_neg hm] at this
    simp only [Bool.false_eq_true, if_false, Nat.add_zero] at this
    rw [if_neg hm, this, Rat.add_zero]
    have := Quant.qL_half_step L hL (toRat b)
    exact ⟨this.2, this.1⟩

/-! ### the small exception sets, explicitly -/

theorem n2Dev_eq : n2Dev = [0x3E2AAAAA, 0x3F555555] := by decide +kernel
theorem n4Dev_eq : n4Dev = [0x3D088888, 0x3F111111, 0x3F222222, 0x3F333333, 0x3F444444, 0x3F555555, 0x3F666666,
    0x3F777777] := by decide +kernel
theorem n5Dev_length : n5Dev.length = 16 := by decide +kernel
theorem n6Dev_length : n6Dev.length = 32 := by decide +kernel
theorem n8Dev_length : n8Dev.length = 128 := by decide +kernel
theorem n10Dev_length : n10Dev.length = 512 := by decide +kernel
theorem s8Dev_length : s8Dev.length = 128 := by decide +kernel
theorem n16Dev_length : n16Dev.length = 32768 := by
  unfold n16Dev
  rw [devOf_length]
  decide +kernel

end Dds.QuantF32
