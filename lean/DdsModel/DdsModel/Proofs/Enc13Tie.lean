/-
C13 — lemmas about the definitions of `Enc13.lean` that the differential tie evaluates on every run
(`predictBlock`, `bc7Rule`, `bc7Fields`): they connect what the driver prints with the control-flow theorems of
`Proofs/Enc13Opaque.lean`, `Proofs/Enc13Single.lean`, `Proofs/Bc7Single.lean`.
-/
import DdsModel.Proofs.Enc13Opaque
import DdsModel.Proofs.Enc13Single
import DdsModel.Proofs.Enc13F32
import DdsModel.Proofs.Enc13Sep
import DdsModel.Proofs.Bc7Single
namespace Dds.Enc13
open Dds Dds.Bc

/-! ### p-bits: what `bc7Rule` prints as forced is forced for every outcome of the float search -/

theorem subsetPBits_spec (q : Quality) (o : Bool) :
    subsetPBits q o = if o then some (true, true) else none := by
  cases q <;> cases o <;> decide

/-- if the rule says the stored p-bits of a subset are `p`, then `compress_rgba` + `Compressed::mode6/7` store `p`
whatever `get_best` / `get_best_2` (`best1`, `best2`), the per-state errors (`err`) and the anchor swap are -/
theorem subsetPBits_sound (q : Quality) (o : Bool) (p : Bool × Bool) (h : subsetPBits q o = some p)
    (best1 : List (Bool × Bool) → Bool × Bool) (best2 : List (Bool × Bool) → List (Bool × Bool))
    (err : Bool × Bool → Nat) (swap : Bool) :
    (pickBestOfDirectly (pickBestStates (possiblePBits o) ALL_UNIQUE (bc7MaxPBitCombinations q) best1 best2) err).map
      (pSwap · swap) = some p := by
  rw [subsetPBits_spec] at h
  cases o with
  | false => simp at h
  | true =>
    simp only [if_true, Option.some.injEq] at h
    subst h
    exact (opaque_pbits _ best1 best2 err swap).2

example : subsetPBits .fast true = some (true, true) ∧ subsetPBits .unreasonable true = some (true, true) ∧
    subsetPBits .high false = none := by decide

/-! ### rotations -/

theorem rotations_forced (px : List Px) (h : bc7RotationForced px = true) : bc7RotationsAllowed px = [0] := by
  unfold bc7RotationsAllowed; rw [if_pos h]

/-- nothing forced: a rotation handed to the compressor never has a constant separated channel; in particular a block
of constant alpha (e.g. an opaque one) is then never tried with `Rotation::None` -/
theorem rotations_unforced (px : List Px) (h : bc7RotationForced px = false) (r : Nat)
    (hr : r ∈ bc7RotationsAllowed px) : chanConst px (rotChannel r) = none ∧ r ≤ 3 := by
  unfold bc7RotationsAllowed at hr
  rw [if_neg (by simp [h])] at hr
  rw [List.mem_filter] at hr
  obtain ⟨hm, hc⟩ := hr
  refine ⟨by simpa using hc, ?_⟩
  simp only [List.mem_cons, List.not_mem_nil, or_false] at hm
  omega

theorem rotations_unforced_const_alpha (px : List Px) (h : bc7RotationForced px = false) (a : Nat)
    (ha : chanConst px 3 = some a) : 0 ∉ bc7RotationsAllowed px := by
  intro h0
  have := (rotations_unforced px h 0 h0).1
  rw [show rotChannel 0 = 3 from rfl, ha] at this
  cases this

theorem chanConst_none_of_ne (p q : Px) (rest : List Px) (c : Nat) (hq : q ∈ rest) (hne : q.chan c ≠ p.chan c) :
    chanConst (p :: rest) c = none := by
  unfold chanConst
  have : rest.all (fun q => q.chan c == p.chan c) = false := by
    rw [List.all_eq_false]
    exact ⟨q, hq, by simpa using hne⟩
  simp [this]

theorem px_ne_chan (p q : Px) (h : q ≠ p) : ∃ c, c < 4 ∧ q.chan c ≠ p.chan c := by
  obtain ⟨pr, pg, pb, pa⟩ := p
  obtain ⟨qr, qg, qb, qa⟩ := q
  by_cases h0 : qr = pr
  · by_cases h1 : qg = pg
    · by_cases h2 : qb = pb
      · by_cases h3 : qa = pa
        · subst h0 h1 h2 h3; exact absurd rfl h
        · exact ⟨3, by omega, by simpa [Px.chan] using h3⟩
      · exact ⟨2, by omega, by simpa [Px.chan] using h2⟩
    · exact ⟨1, by omega, by simpa [Px.chan] using h1⟩
  · exact ⟨0, by omega, by simpa [Px.chan] using h0⟩

/-- a block that is not single-coloured always has a rotation to try: modes 4 / 5 never come back `invalid()` -/
theorem rotations_nonempty (px : List Px) (hne : px ≠ []) (h : singleColour px = none) :
    bc7RotationsAllowed px ≠ [] := by
  by_cases hf : bc7RotationForced px = true
  · rw [rotations_forced px hf]; simp
  · cases px with
    | nil => exact absurd rfl hne
    | cons p rest =>
      unfold singleColour at h
      have hall : rest.all (fun q => q == p) = false := by
        by_cases hh : rest.all (fun q => q == p) = true
        · simp [hh] at h
        · simpa using hh
      rw [List.all_eq_false] at hall
      obtain ⟨q, hq, hqp⟩ := hall
      have hqp' : q ≠ p := by simpa using hqp
      obtain ⟨c, hc, hcn⟩ := px_ne_chan p q hqp'
      have hnone := chanConst_none_of_ne p q rest c hq hcn
      unfold bc7RotationsAllowed
      rw [if_neg hf]
      intro hnil
      have hmem : ∀ r, r ∈ [0, 1, 2, 3] → (chanConst (p :: rest) (rotChannel r)).isNone = true →
          r ∈ ([0, 1, 2, 3].filter fun r => (chanConst (p :: rest) (rotChannel r)).isNone) :=
        fun r hr hh => List.mem_filter.mpr ⟨hr, hh⟩
      rw [hnil] at hmem
      have hc4 : c = 0 ∨ c = 1 ∨ c = 2 ∨ c = 3 := by omega
      rcases hc4 with rfl | rfl | rfl | rfl
      · exact absurd (hmem 1 (by simp) (by rw [show rotChannel 1 = 0 from rfl, hnone]; rfl)) (by simp)
      · exact absurd (hmem 2 (by simp) (by rw [show rotChannel 2 = 1 from rfl, hnone]; rfl)) (by simp)
      · exact absurd (hmem 3 (by simp) (by rw [show rotChannel 3 = 2 from rfl, hnone]; rfl)) (by simp)
      · exact absurd (hmem 0 (by simp) (by rw [show rotChannel 0 = 3 from rfl, hnone]; rfl)) (by simp)

example : bc7RotationForced [⟨10, 200, 30, 255⟩, ⟨12, 190, 30, 255⟩] = false ∧
    bc7RotationsAllowed [⟨10, 200, 30, 255⟩, ⟨12, 190, 30, 255⟩] = [1, 2] ∧
    bc7RotationsAllowed [⟨10, 12, 11, 255⟩, ⟨90, 91, 92, 255⟩] = [0] := by decide

/-- the hypotheses of `rotations_unforced_const_alpha` / `rotations_nonempty` are satisfiable (an opaque two-colour
block that is not grey: nothing forced, `Rotation::None` not among the rotations) -/
example : bc7RotationForced [⟨10, 200, 30, 255⟩, ⟨12, 190, 30, 255⟩] = false ∧
    chanConst [⟨10, 200, 30, 255⟩, ⟨12, 190, 30, 255⟩] 3 = some 255 ∧
    singleColour [⟨10, 200, 30, 255⟩, ⟨12, 190, 30, 255⟩] = none ∧
    0 ∉ bc7RotationsAllowed [⟨10, 200, 30, 255⟩, ⟨12, 190, 30, 255⟩] := by decide

/-! ### the single-colour block meets its own rule (`bc7Fields` agrees with the layout theorem) -/

theorem rd_zero (x p : Nat) : Bc7Spec.rd x p 0 = 0 := by unfold Bc7Spec.rd; simp [Nat.mod_one]

/-- what `bc7Fields` reads from any block whose low byte selects mode 5 -/
theorem bc7Fields_mode5 (B : Nat) (hm : Bc7Spec.modeOf B = 5) :
    bc7Fields B = some ⟨5, 0, Bc7Spec.rd B 6 2, 0, [], [Bc7Spec.rd B 50 8, Bc7Spec.rd B 58 8]⟩ := by
  unfold bc7Fields
  simp only [hm]
  have hrec : Bc7Spec.modes[5]? = some ⟨1, 0, 2, 0, 7, 8, 0, 0, 2, 2⟩ := rfl
  rw [hrec]
  simp only [rd_zero]
  rfl

theorem bc7Fields_single (r g b a : Nat) (hr : r ≤ 255) (hg : g ≤ 255) (hb : b ≤ 255) (ha : a ≤ 255) :
    bc7Fields (bc7Single r g b a) = some ⟨5, 0, 0, 0, [], [a, a]⟩ := by
  obtain ⟨hr0, hr1⟩ := optimize_lt r hr
  obtain ⟨hg0, hg1⟩ := optimize_lt g hg
  obtain ⟨hb0, hb1⟩ := optimize_lt b hb
  have ha' : a < 256 := by omega
  rw [bc7Single_eq_sum r g b a hr hg hb ha]
  obtain ⟨f0, _, _, _, _, _, _, f7, f8⟩ := sum_fields _ _ _ _ _ _ a hr0 hr1 hg0 hg1 hb0 hb1 ha'
  rw [bc7Fields_mode5 _ (sum_mode _ _ _ _ _ _ _), f0, f7, f8]

theorem bc7Single_meets_rule (q : Quality) (inside : List Bool) (r g b a : Nat) (hr : r ≤ 255) (hg : g ≤ 255)
    (hb : b ≤ 255) (ha : a ≤ 255) :
    ∃ f, bc7Fields (bc7Single r g b a) = some f ∧
      bc7Meets (bc7Rule q (List.replicate 16 ⟨r, g, b, a⟩) inside f.mode f.part f.rot) f = true := by
  refine ⟨_, bc7Fields_single r g b a hr hg hb ha, ?_⟩
  have hs : singleColour (List.replicate 16 (⟨r, g, b, a⟩ : Px)) = some ⟨r, g, b, a⟩ := by
    simp [singleColour, List.replicate]
  unfold bc7Rule
  rw [hs]
  simp [bc7Meets]

/-! ### BC2 explicit alpha of EVERY block: per-pixel rule -/

/-- the accumulator `indexes` of `bc2_alpha` after the first `k` pixels, for per-pixel 4-bit values `n i` -/
def bc2Acc (n : Nat → Nat) (k : Nat) : Nat :=
  (List.range k).foldl (fun ix i => (ix ||| (n i <<< (i * 4))) % U64) 0

def bc2Sum (n : Nat → Nat) : Nat → Nat
  | 0 => 0
  | k + 1 => bc2Sum n k + n k * 2 ^ (k * 4)

theorem bc2Acc_succ (n : Nat → Nat) (k : Nat) : bc2Acc n (k + 1) = (bc2Acc n k ||| (n k <<< (k * 4))) % U64 := by
  unfold bc2Acc
  rw [List.range_succ, List.foldl_append]
  rfl

/-- the sixteen `|=` of `bc2_alpha` write disjoint nibbles: the accumulator is the sum, and never leaves `u64` -/
theorem bc2Acc_eq_sum (n : Nat → Nat) (hn : ∀ i, n i ≤ 15) :
    ∀ k, k ≤ 16 → bc2Acc n k = bc2Sum n k ∧ bc2Sum n k < 2 ^ (k * 4) := by
  intro k
  induction k with
  | zero => intro _; exact ⟨rfl, by simp [bc2Sum]⟩
  | succ k ih =>
    intro hk
    obtain ⟨e, hlt⟩ := ih (by omega)
    have hP : 2 ^ ((k + 1) * 4) = 2 ^ (k * 4) * 16 := by
      rw [Nat.succ_mul, Nat.pow_add]
    have hle : 2 ^ ((k + 1) * 4) ≤ U64 := by
      have : (2 : Nat) ^ ((k + 1) * 4) ≤ 2 ^ 64 := Nat.pow_le_pow_right (by omega) (by omega)
      simpa [U64] using this
    have hnk : n k * 2 ^ (k * 4) ≤ 15 * 2 ^ (k * 4) := Nat.mul_le_mul_right _ (hn k)
    have hs : bc2Sum n (k + 1) = bc2Sum n k + n k * 2 ^ (k * 4) := rfl
    have hb : bc2Sum n (k + 1) < 2 ^ ((k + 1) * 4) := by rw [hs, hP]; omega
    refine ⟨?_, hb⟩
    rw [bc2Acc_succ, e, or_shl_eq_add _ _ _ hlt, ← hs]
    exact Nat.mod_eq_of_lt (by omega)


theorem bc2Sum_16 (n : Nat → Nat) :
    bc2Sum n 16 = n 0 + n 1 * 16 + n 2 * 256 + n 3 * 4096 + n 4 * 65536 + n 5 * 1048576 + n 6 * 16777216 +
      n 7 * 268435456 + n 8 * 4294967296 + n 9 * 68719476736 + n 10 * 1099511627776 + n 11 * 17592186044416 +
      n 12 * 281474976710656 + n 13 * 4503599627370496 + n 14 * 72057594037927936 + n 15 * 1152921504606846976 := by
  simp only [bc2Sum, Nat.reduceMul, Nat.reducePow, Nat.zero_add, Nat.mul_one]

/-- byte `k` of `indexes.to_le_bytes()` holds the values of pixels `2k` (low nibble) and `2k + 1` (high nibble) -/
theorem bc2Acc_bytes (n : Nat → Nat) (hn : ∀ i, n i ≤ 15) (k : Nat) (hk : k < 8) :
    bc2Acc n 16 / 256 ^ k % 256 = n (2 * k) + 16 * n (2 * k + 1) := by
  rw [(bc2Acc_eq_sum n hn 16 (by omega)).1, bc2Sum_16]
  have h0 := hn 0; have h1 := hn 1; have h2 := hn 2; have h3 := hn 3; have h4 := hn 4; have h5 := hn 5
  have h6 := hn 6; have h7 := hn 7; have h8 := hn 8; have h9 := hn 9; have h10 := hn 10; have h11 := hn 11
  have h12 := hn 12; have h13 := hn 13; have h14 := hn 14; have h15 := hn 15
  have hk8 : k = 0 ∨ k = 1 ∨ k = 2 ∨ k = 3 ∨ k = 4 ∨ k = 5 ∨ k = 6 ∨ k = 7 := by omega
  rcases hk8 with rfl | rfl | rfl | rfl | rfl | rfl | rfl | rfl <;>
    simp only [Nat.reducePow, Nat.reduceMul, Nat.reduceAdd, Nat.div_one] <;> omega


theorem n4FromU8_le (a : Nat) (h : a ≤ 255) : n4FromU8 a ≤ 15 := by unfold n4FromU8; omega

theorem getD_le (l : List Nat) (h : ∀ a ∈ l, a ≤ 255) (i : Nat) : l.getD i 0 ≤ 255 := by
  rw [List.getD_eq_getElem?_getD]
  by_cases hi : i < l.length
  · rw [List.getElem?_eq_getElem hi]; exact h _ (List.getElem_mem hi)
  · rw [List.getElem?_eq_none (by omega)]; exact Nat.zero_le _

theorem bc2AlphaBlock_eq (alphas : List Nat) :
    bc2AlphaBlock alphas = (List.range 8).map fun k => bc2Acc (fun i => n4FromU8 (alphas.getD i 0)) 16 / 256 ^ k % 256 := rfl

/-- the eight alpha bytes of ANY block: byte `k` = `q(a₂ₖ) + 16·q(a₂ₖ₊₁)` with `q = n4FromU8` -/
theorem bc2AlphaBlock_bytes (alphas : List Nat) (h : ∀ a ∈ alphas, a ≤ 255) (k : Nat) (hk : k < 8) :
    (bc2AlphaBlock alphas).getD k 0 = n4FromU8 (alphas.getD (2 * k) 0) + 16 * n4FromU8 (alphas.getD (2 * k + 1) 0) := by
  rw [bc2AlphaBlock_eq, List.getD_eq_getElem?_getD, List.getElem?_map, List.getElem?_range hk]
  exact bc2Acc_bytes _ (fun i => n4FromU8_le _ (getD_le alphas h i)) k hk

theorem nib_lo (a b : Nat) (ha : a ≤ 15) : (a + 16 * b) &&& 0xF = a := by
  rw [show (0xF : Nat) = 2 ^ 4 - 1 from rfl, Nat.and_two_pow_sub_one_eq_mod]; omega
theorem nib_hi (a b : Nat) (ha : a ≤ 15) : (a + 16 * b) >>> 4 = b := by
  rw [Nat.shiftRight_eq_div_pow]; omega
theorem n4n8_eq (x : Nat) (h : x ≤ 15) : n4n8 x = 17 * x := by unfold n4n8 w8; omega

/-- decoder side: pixel `p` of the explicit-alpha block shows `17·q(aₚ)` — every pixel of every block -/
theorem bc2AlphaBlock_px (alphas : List Nat) (h : ∀ a ∈ alphas, a ≤ 255) (p : Nat) (hp : p < 16) :
    bc2Alpha (blkOf (bc2AlphaBlock alphas)) p = 17 * n4FromU8 (alphas.getD p 0) := by
  have hb := bc2AlphaBlock_bytes alphas h
  have hn : ∀ i, n4FromU8 (alphas.getD i 0) ≤ 15 := fun i => n4FromU8_le _ (getD_le alphas h i)
  unfold bc2Alpha blkOf
  have hp16 : p = 0 ∨ p = 1 ∨ p = 2 ∨ p = 3 ∨ p = 4 ∨ p = 5 ∨ p = 6 ∨ p = 7 ∨ p = 8 ∨ p = 9 ∨ p = 10 ∨ p = 11 ∨
      p = 12 ∨ p = 13 ∨ p = 14 ∨ p = 15 := by omega
  rcases hp16 with rfl | rfl | rfl | rfl | rfl | rfl | rfl | rfl | rfl | rfl | rfl | rfl | rfl | rfl | rfl | rfl <;>
    simp only [Nat.reduceDiv, Nat.reduceMod, Nat.reduceMul, Nat.reduceAdd, lut4] <;>
    rw [hb _ (by omega)] <;>
    simp only [Nat.reduceMul, Nat.reduceAdd] <;>
    first
      | rw [nib_lo _ _ (hn _), n4n8_eq _ (hn _)]
      | rw [nib_hi _ _ (hn _), n4n8_eq _ (hn _)]

/-- BC2 / BC2 premultiplied, ALL blocks (not only constant alpha): a block whose first 8 bytes are `bc2_alpha`'s output
for the 16 input alphas decodes, at every pixel and under ANY colour block, alpha `17·round(aₚ/17)`, which is within
8 (< STEP4 = 17) of the input alpha `aₚ` and equal to it when `17 ∣ aₚ` -/
theorem bc2_alpha_block (alphas : List Nat) (h : ∀ a ∈ alphas, a ≤ 255) (blk : Nat → Nat)
    (hb : ∀ i, i < 8 → blk i = (bc2AlphaBlock alphas).getD i 0) (p : Nat) (hp : p < 16) :
    (px8 .bc2 blk p).getD 3 0 = 17 * n4FromU8 (alphas.getD p 0) ∧
    (px8 .bc2p blk p).getD 3 0 = 17 * n4FromU8 (alphas.getD p 0) ∧
    dist (17 * n4FromU8 (alphas.getD p 0)) (alphas.getD p 0) ≤ 8 ∧
    (alphas.getD p 0 % 17 = 0 → 17 * n4FromU8 (alphas.getD p 0) = alphas.getD p 0) := by
  have e : bc2Alpha blk p = 17 * n4FromU8 (alphas.getD p 0) := by
    rw [bc2Alpha_congr blk (blkOf (bc2AlphaBlock alphas)) hb p hp]; exact bc2AlphaBlock_px alphas h p hp
  have hs := bc2AlphaSingle_px (alphas.getD p 0) (getD_le alphas h p)
  refine ⟨?_, ?_, hs.2.2.2.1, hs.2.2.2.2⟩
  · show (bc2Px blk p).2.2.2 = _
    unfold bc2Px; rw [setA_alpha]; exact e
  · show (toStraight (bc2Px blk p)).2.2.2 = _
    rw [toStraight_alpha]; unfold bc2Px; rw [setA_alpha]; exact e

/-- the hypothesis of `bc2_alpha_block` is satisfiable: the alpha bytes followed by any colour block -/
example : ∀ i, i < 8 →
    blkOf (bc2AlphaBlock [0, 8, 9, 25, 26, 127, 128, 255, 254, 246, 247, 17, 34, 51, 68, 85] ++ [1, 2, 3, 4, 5, 6, 7, 8]) i =
      (bc2AlphaBlock [0, 8, 9, 25, 26, 127, 128, 255, 254, 246, 247, 17, 34, 51, 68, 85]).getD i 0 := by decide

example : bc2AlphaBlock [0, 8, 9, 25, 26, 127, 128, 255, 254, 246, 247, 17, 34, 51, 68, 85] =
    [0x00, 0x11, 0x72, 0xf8, 0xef, 0x1f, 0x32, 0x54] := by decide

end Dds.Enc13
