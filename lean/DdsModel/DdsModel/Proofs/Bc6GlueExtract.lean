/-
C03x glue (BC6H), part 1: `bc6_extract_eq_fields` — the code's header extraction (`consume!` sequences of
`extract_compressed_endpoints_two`, the straight-line `extract_compressed_endpoints_one` with `consume_bits_rev`)
yields exactly the specification's raw field values `Bc6Spec.rawField` for all 14 modes.

Method: every accumulator bit is characterised as an OR over block positions (`opSrc` / `oneSrc`); the position
tables are compared with the spec's `srcPos` as data (`decide +kernel`), and a generic lemma turns the `stepOp` fold
into the position table.
-/
import DdsModel.Proofs.Bc6
import DdsModel.Proofs.Bc7GlueCommon
set_option linter.unusedSimpArgs false
namespace Dds.Bc6
open Dds.BcTables Dds.Bc6Spec Dds.Bc7

theorem U32_eq : U32 = 2 ^ 32 := by decide

/-! ### stream reads -/

theorem consumeBits32_at (n b p : Nat) (h : n < 32) :
    consumeBits32 n (b >>> p) = (Bc7Spec.rd b p n, b >>> (p + n)) := by
  have h1 : 2 ^ n < 2 ^ 32 := Nat.pow_lt_pow_right (by decide) h
  have h2 : 0 < 2 ^ n := Nat.two_pow_pos n
  have hm : ((1 <<< n) % U32 + U32 - 1) % U32 = 2 ^ n - 1 := by
    rw [Nat.one_shiftLeft, U32_eq]
    generalize 2 ^ n = t at *
    omega
  have hd : 2 ^ n ∣ U32 := by rw [U32_eq]; exact Nat.pow_dvd_pow 2 (by omega)
  simp only [consumeBits32, hm, Nat.and_two_pow_sub_one_eq_mod, Nat.mod_mod_of_dvd _ hd, rd_eq_shift,
    Nat.shiftRight_add]

theorem rd_testBit (b p n j : Nat) : (Bc7Spec.rd b p n).testBit j = (decide (j < n) && b.testBit (p + j)) := by
  simp only [Bc7Spec.rd, Nat.testBit_mod_two_pow, Nat.testBit_div_two_pow, Nat.add_comm]

theorem single_testBit (b pos k j : Nat) (hk : k < 32) :
    ((Bc7Spec.rd b pos 1 <<< k) % U32).testBit j = (decide (j = k) && b.testBit pos) := by
  simp only [U32_eq, Nat.testBit_mod_two_pow, Nat.testBit_shiftLeft, rd_testBit]
  by_cases h : j = k
  · subst h; bsimp; simp
  · by_cases h2 : j < k
    · bsimp
    · bsimp

/-! ### the `consume!` fold -/

/-- all block positions that the op list (stream at block bit `pos`) ORs into bit `j` of component (`c`, `e`) -/
def opSrc : List Op → Nat → Nat → Nat → Nat → List Nat
  | [], _, _, _, _ => []
  | op :: rest, pos, c, e, j =>
    (if op.chan = c ∧ op.ep = e ∧ (if op.range then j ≤ op.bit else j = op.bit)
      then [if op.range then pos + j else pos] else [])
    ++ opSrc rest (pos + (if op.range then op.bit + 1 else 1)) c e j

def opsWidth (ops : List Op) : Nat := (ops.map fun op => if op.range then op.bit + 1 else 1).sum
theorem opsWidth_cons (op : Op) (rest : List Op) :
    opsWidth (op :: rest) = (if op.range then op.bit + 1 else 1) + opsWidth rest := by
  simp only [opsWidth, List.map_cons, List.sum_cons]

theorem accGet_accOr (acc : List Nat) (hl : acc.length = 12) (e' c' v e c : Nat) (hc : c < 3) (hc' : c' < 3)
    (he : e < 4) :
    accGet (accOr acc e' c' v) e c = if e' = e ∧ c' = c then accGet acc e c ||| v else accGet acc e c := by
  simp only [accGet, accOr, List.getD_eq_getElem?_getD, List.getElem?_set]
  by_cases h : e' = e ∧ c' = c
  · obtain ⟨h1, h2⟩ := h
    subst h1; subst h2
    have : e' * 3 + c' < acc.length := by omega
    simp only [this, if_true, and_self, Option.getD_some]
  · have : ¬ e' * 3 + c' = e * 3 + c := by omega
    simp only [this, h, if_false]

theorem length_accOr (acc : List Nat) (e c v : Nat) : (accOr acc e c v).length = acc.length := by
  simp only [accOr, List.length_set]

theorem fold_stepOp (b : Nat) (ops : List Op) :
    ∀ (acc : List Nat) (pos : Nat), acc.length = 12 → (∀ op ∈ ops, op.chan < 3 ∧ op.bit < 31) →
      (ops.foldl stepOp (acc, b >>> pos)).2 = b >>> (pos + opsWidth ops) ∧
      ∀ c e j, c < 3 → e < 4 →
        (accGet (ops.foldl stepOp (acc, b >>> pos)).1 e c).testBit j =
          ((accGet acc e c).testBit j || (opSrc ops pos c e j).any (fun p => b.testBit p)) := by
  induction ops with
  | nil =>
    intro acc pos _ _
    simp [opsWidth, opSrc]
  | cons op rest ih =>
    intro acc pos hl hops
    have hop := hops op (List.mem_cons_self ..)
    have hrest : ∀ o ∈ rest, o.chan < 3 ∧ o.bit < 31 := fun o ho => hops o (List.mem_cons_of_mem _ ho)
    simp only [List.foldl_cons]
    by_cases hr : op.range = true
    · have hstep : stepOp (acc, b >>> pos) op =
          (accOr acc op.ep op.chan (Bc7Spec.rd b pos (op.bit + 1)), b >>> (pos + (op.bit + 1))) := by
        simp only [stepOp, hr, if_true, consumeBits32_at _ b pos (by omega : op.bit + 1 < 32)]
      rw [hstep]
      obtain ⟨ih1, ih2⟩ := ih (accOr acc op.ep op.chan (Bc7Spec.rd b pos (op.bit + 1))) (pos + (op.bit + 1))
        (by rw [length_accOr]; exact hl) hrest
      refine ⟨?_, ?_⟩
      · rw [ih1, opsWidth_cons, hr]; simp only [if_true, Nat.add_assoc]
      · intro c e j hc he
        rw [ih2 c e j hc he, accGet_accOr acc hl _ _ _ e c hc hop.1 he]
        simp only [opSrc, hr, if_true, List.any_append]
        by_cases hce : op.ep = e ∧ op.chan = c
        · obtain ⟨h1, h2⟩ := hce
          by_cases hj : j ≤ op.bit
          · simp [h1, h2, hj, Nat.testBit_or, rd_testBit, show j < op.bit + 1 by omega, Bool.or_assoc]
          · simp [h1, h2, hj, Nat.testBit_or, rd_testBit, show ¬ j < op.bit + 1 by omega]
        · have : ¬ (op.chan = c ∧ op.ep = e ∧ j ≤ op.bit) := fun hh => hce ⟨hh.2.1, hh.1⟩
          simp [hce, this]
    · have hr' : op.range = false := by simpa using hr
      have hstep : stepOp (acc, b >>> pos) op =
          (accOr acc op.ep op.chan ((Bc7Spec.rd b pos 1 <<< op.bit) % U32), b >>> (pos + 1)) := by
        simp only [stepOp, hr', Bool.false_eq_true, if_false, consumeBits32_at _ b pos (by omega : 1 < 32)]
      rw [hstep]
      obtain ⟨ih1, ih2⟩ := ih (accOr acc op.ep op.chan ((Bc7Spec.rd b pos 1 <<< op.bit) % U32)) (pos + 1)
        (by rw [length_accOr]; exact hl) hrest
      refine ⟨?_, ?_⟩
      · rw [ih1, opsWidth_cons, hr']; simp only [Bool.false_eq_true, if_false, Nat.add_assoc]
      · intro c e j hc he
        rw [ih2 c e j hc he, accGet_accOr acc hl _ _ _ e c hc hop.1 he]
        simp only [opSrc, hr', Bool.false_eq_true, if_false, List.any_append]
        by_cases hce : op.ep = e ∧ op.chan = c
        · obtain ⟨h1, h2⟩ := hce
          by_cases hj : j = op.bit
          · simp [h1, h2, hj, Nat.testBit_or, single_testBit _ _ _ _ (show op.bit < 32 by omega), Bool.or_assoc]
          · simp [h1, h2, hj, Nat.testBit_or, single_testBit _ _ _ _ (show op.bit < 32 by omega)]
        · have : ¬ (op.chan = c ∧ op.ep = e ∧ j = op.bit) := fun hh => hce ⟨hh.2.1, hh.1⟩
          simp [hce, this]

/-! ### the spec's `rawField` bit by bit -/

theorem sum_bits (g : Nat → Bool) (n : Nat) :
    ∀ i, (((List.range n).map fun j => if g j then 2 ^ j else 0).sum).testBit i = (decide (i < n) && g i) := by
  induction n with
  | zero => intro i; simp
  | succ n ih =>
    intro i
    have hlt : ((List.range n).map fun j => if g j then 2 ^ j else 0).sum < 2 ^ n := by
      apply Nat.lt_pow_two_of_testBit
      intro k hk
      rw [ih k]; simp; omega
    rw [List.range_succ, List.map_append, List.sum_append]
    simp only [List.map_cons, List.map_nil, List.sum_cons, List.sum_nil, Nat.add_zero]
    generalize ((List.range n).map fun j => if g j then 2 ^ j else 0).sum = S at *
    by_cases hg : g n = true
    · have e : S + 2 ^ n = 2 ^ n * 1 + S := by omega
      simp only [hg, if_true, e, Nat.testBit_two_pow_mul_add _ hlt]
      by_cases h1 : i < n
      · simp [h1, ih i, show i < n + 1 by omega]
      · by_cases h2 : i = n
        · subst h2; simp [hg]
        · have : i - n = (i - n - 1) + 1 := by omega
          rw [if_neg h1, this, Nat.testBit_add_one]
          simp [show ¬ i < n + 1 by omega]
    · simp only [hg, Bool.false_eq_true, if_false, Nat.add_zero, ih i]
      by_cases h2 : i = n
      · subst h2; simp [hg]
      · by_cases h1 : i < n
        · simp [h1, show i < n + 1 by omega]
        · simp [h1, show ¬ i < n + 1 by omega]

theorem blockBit_eq (b p : Nat) : blockBit b p = if b.testBit p then 1 else 0 := by
  simp only [blockBit, Nat.testBit_eq_decide_div_mod_eq, decide_eq_true_eq]
  split <;> omega

/-- bit `j` of the raw field = the block bit at the spec's source position -/
theorem rawField_testBit (r : ModeRec) (b c e j : Nat) :
    (rawField r b c e).testBit j =
      (decide (j < 16) && (srcPos r.layout r.modeBits c e j).toList.any (fun p => b.testBit p)) := by
  have : rawField r b c e = ((List.range 16).map fun j =>
      if (srcPos r.layout r.modeBits c e j).toList.any (fun p => b.testBit p) then 2 ^ j else 0).sum := by
    unfold rawField
    congr 1
    apply List.map_congr_left
    intro j _
    cases h : srcPos r.layout r.modeBits c e j with
    | none => simp
    | some p =>
      simp only [blockBit_eq, Option.toList, List.any_cons, List.any_nil, Bool.or_false]
      split <;> simp
  rw [this]
  exact sum_bits _ 16 j

/-! ### two-region modes: the ten `consume!` sequences against the spec layouts -/

def recTwo : ModeTwo → ModeRec
  | .M10_555 => modes[0]'(by decide) | .M7_666 => modes[1]'(by decide) | .M11_544 => modes[2]'(by decide)
  | .M11_454 => modes[3]'(by decide) | .M11_445 => modes[4]'(by decide) | .M9_555 => modes[5]'(by decide)
  | .M8_655 => modes[6]'(by decide) | .M8_565 => modes[7]'(by decide) | .M8_556 => modes[8]'(by decide)
  | .M6_666 => modes[9]'(by decide)

/-- declared width of component (`c`, `e`) -/
def fieldWidth (r : ModeRec) (c e : Nat) : Nat := if e = 0 then r.prec else deltaW r c

/-- everything finite about one two-region mode, as data -/
def twoOk (m : ModeTwo) : Bool :=
  let r := recTwo m
  let ops := modeTwoOps m
  r.regions == 2 && r.prec == m.a0BitCount && r.delta == m.deltaBitCount && r.transformed == m.transformed &&
  r.modeBits + layoutBits r.layout == 77 && r.modeBits + opsWidth ops == 77 &&
  ops.all (fun op => decide (op.chan < 3) && decide (op.bit < 16)) &&
  (List.range 3).all fun c => (List.range 4).all fun e => (List.range 16).all fun j =>
    opSrc ops r.modeBits c e j == (srcPos r.layout r.modeBits c e j).toList &&
    (!(srcPos r.layout r.modeBits c e j).isSome || decide (j < fieldWidth r c e))

theorem twoOk_true (m : ModeTwo) : twoOk m = true := by cases m <;> decide +kernel

theorem opSrc_nil (ops : List Op) (n : Nat) (h : ∀ op ∈ ops, op.bit < n) (pos c e j : Nat) (hj : n ≤ j) :
    opSrc ops pos c e j = [] := by
  induction ops generalizing pos with
  | nil => rfl
  | cons op rest ih =>
    have hop := h op (List.mem_cons_self ..)
    have : ¬ (op.chan = c ∧ op.ep = e ∧ (if op.range then j ≤ op.bit else j = op.bit)) := by
      intro hh
      have := hh.2.2
      split at this <;> omega
    simp only [opSrc, this, if_false, List.nil_append]
    exact ih (fun o ho => h o (List.mem_cons_of_mem _ ho)) _

theorem accGet_zero (e c : Nat) : accGet (List.replicate 12 0) e c = 0 := by
  simp only [accGet, List.getD_eq_getElem?_getD, List.getElem?_replicate]
  split <;> rfl

/-- `bc6_extract_eq_fields`, two-region modes: after `extract_compressed_endpoints_two` the twelve accumulators are
the spec's raw fields, each below `2 ^ width`, and the stream stands at block bit 77 -/
theorem extractTwo_eq (m : ModeTwo) (b : Nat) :
    (extractTwo m (b >>> (recTwo m).modeBits)).2 = b >>> 77 ∧
    ∀ c e, c < 3 → e < 4 →
      accGet (extractTwo m (b >>> (recTwo m).modeBits)).1 e c = rawField (recTwo m) b c e ∧
      rawField (recTwo m) b c e < 2 ^ fieldWidth (recTwo m) c e := by
  have hok := twoOk_true m
  simp only [twoOk, Bool.and_eq_true, beq_iff_eq, List.all_eq_true, List.mem_range, decide_eq_true_eq,
    Bool.or_eq_true, Bool.not_eq_true'] at hok
  obtain ⟨⟨⟨⟨⟨⟨⟨_, _⟩, _⟩, _⟩, _⟩, hw⟩, hops⟩, htab⟩ := hok
  have hops' : ∀ op ∈ modeTwoOps m, op.chan < 3 ∧ op.bit < 31 := fun op ho => by
    have := hops op ho; omega
  obtain ⟨h2, hbits⟩ := fold_stepOp b (modeTwoOps m) (List.replicate 12 0) (recTwo m).modeBits
    (by simp) hops'
  refine ⟨?_, ?_⟩
  · show ((modeTwoOps m).foldl stepOp (List.replicate 12 0, b >>> (recTwo m).modeBits)).2 = _
    rw [h2, hw]
  · intro c e hc he
    have hraw : ∀ j, (rawField (recTwo m) b c e).testBit j =
        (opSrc (modeTwoOps m) (recTwo m).modeBits c e j).any (fun p => b.testBit p) := by
      intro j
      rw [rawField_testBit]
      by_cases hj : j < 16
      · rw [(htab c hc e he j hj).1]; simp [hj]
      · rw [opSrc_nil _ 16 (fun op ho => (hops op ho).2) _ _ _ _ (by omega)]; simp [hj]
    refine ⟨?_, ?_⟩
    · apply Nat.eq_of_testBit_eq
      intro j
      show (accGet ((modeTwoOps m).foldl stepOp (List.replicate 12 0, b >>> (recTwo m).modeBits)).1 e c).testBit j = _
      rw [hbits c e j hc he, accGet_zero, hraw j]
      simp
    · apply Nat.lt_pow_two_of_testBit
      intro j hj
      rw [rawField_testBit]
      by_cases hj16 : j < 16
      · have := (htab c hc e he j hj16).2
        rcases this with h | h
        · cases hs : srcPos (recTwo m).layout (recTwo m).modeBits c e j with
          | none => simp
          | some p => rw [hs] at h; simp at h
        · omega
      · simp [hj16]

/-! ### one-region modes: `extract_compressed_endpoints_one` with `consume_bits_rev` -/

def recOne : ModeOne → ModeRec
  | .M10_10 => modes[10]'(by decide) | .M11_9 => modes[11]'(by decide) | .M12_8 => modes[12]'(by decide)
  | .M16_4 => modes[13]'(by decide)

/-- the value `consume_bits_rev(n)` makes of the `n` stream bits `v` -/
def revBits (n v : Nat) : Nat := if n ≥ 2 then reverseBits8 v >>> (8 - n) else v

theorem revBits_ok : ∀ n, n < 7 → ∀ v, v < 2 ^ n →
    revBits n v < 2 ^ n ∧ ∀ j, j < n → (revBits n v).testBit j = v.testBit (n - 1 - j) := by decide +kernel

theorem revBits_testBit (n v j : Nat) (hn : n < 7) (hv : v < 2 ^ n) :
    (revBits n v).testBit j = (decide (j < n) && v.testBit (n - 1 - j)) := by
  obtain ⟨h1, h2⟩ := revBits_ok n hn v hv
  by_cases hj : j < n
  · simp [hj, h2 j hj]
  · have : (revBits n v).testBit j = false :=
      Nat.testBit_lt_two_pow (Nat.lt_of_lt_of_le h1 (Nat.pow_le_pow_right (by decide) (by omega)))
    simp [hj, this]

theorem consumeBitsRev_at (n b p : Nat) (hn : n < 7) :
    consumeBitsRev n (b >>> p) = (revBits n (Bc7Spec.rd b p n), b >>> (p + n)) := by
  by_cases h0 : n = 0
  · subst h0
    have : mask8 0 = 0 := by decide
    simp [consumeBitsRev, revBits, this, Bc7.rd_zero]
  · have hb : (b >>> p % U8) &&& mask8 n = Bc7Spec.rd b p n := by
      have := consumeBits_at n b p (by omega) (by omega)
      simp only [consumeBits, Prod.mk.injEq] at this
      exact this.1
    simp only [consumeBitsRev, hb, revBits, Nat.shiftRight_add]

/-- bits of an `a` accumulator: ten direct bits, then `ext` bit-reversed extension bits -/
theorem aval_testBit (b p q ext j : Nat) (hext : ext < 7) :
    (Bc7Spec.rd b p 10 ||| (revBits ext (Bc7Spec.rd b q ext) <<< 10) % U32).testBit j =
      ((if j < 10 then [p + j] else []) ++
       (if 10 ≤ j ∧ j < 10 + ext then [q + (ext - 1 - (j - 10))] else [])).any (fun x => b.testBit x) := by
  simp only [Nat.testBit_or, U32_eq, Nat.testBit_mod_two_pow, Nat.testBit_shiftLeft, rd_testBit,
    revBits_testBit _ _ _ hext (rd_lt b q ext), List.any_append]
  by_cases h1 : j < 10
  · bsimp; simp
  · by_cases h2 : j < 10 + ext
    · have : ext - 1 - (j - 10) < ext := by omega
      bsimp; simp
    · bsimp; simp

theorem bval_testBit (b p n j : Nat) :
    (Bc7Spec.rd b p n).testBit j = (if j < n then [p + j] else []).any (fun x => b.testBit x) := by
  rw [rd_testBit]
  by_cases h : j < n <;> simp [h]

/-- source positions of bit `j` of component (`c`, `e`) as `extract_compressed_endpoints_one` reads them -/
def oneSrcG (bc ext c e j : Nat) : List Nat :=
  if e = 0 then
    (if j < 10 then [5 + 10 * c + j] else []) ++
    (if 10 ≤ j ∧ j < 10 + ext then [35 + 10 * c + bc + (ext - 1 - (j - 10))] else [])
  else (if j < bc then [35 + 10 * c + j] else [])

def oneSrc (m : ModeOne) (c e j : Nat) : List Nat := oneSrcG (20 - m.a0BitCount) (m.a0BitCount - 10) c e j

def oneOk (m : ModeOne) : Bool :=
  let r := recOne m
  r.regions == 1 && r.prec == m.a0BitCount && r.delta == (m.b0BitCount, m.b0BitCount, m.b0BitCount) &&
  r.transformed == m.transformed && r.modeBits == 5 && r.modeBits + layoutBits r.layout == 65 &&
  (List.range 3).all fun c => (List.range 2).all fun e => (List.range 16).all fun j =>
    oneSrc m c e j == (srcPos r.layout r.modeBits c e j).toList &&
    (!(srcPos r.layout r.modeBits c e j).isSome || decide (j < fieldWidth r c e))

theorem oneOk_true (m : ModeOne) : oneOk m = true := by cases m <;> decide +kernel

theorem oneSrcG_nil (bc ext c e j : Nat) (hbc : bc ≤ 16) (hext : ext ≤ 6) (hj : 16 ≤ j) :
    oneSrcG bc ext c e j = [] := by
  unfold oneSrcG
  have h1 : ¬ j < 10 := by omega
  have h2 : ¬ (10 ≤ j ∧ j < 10 + ext) := by omega
  have h3 : ¬ j < bc := by omega
  simp only [h1, h2, h3, if_false, List.append_nil, ite_self]

theorem oneSrc_nil (m : ModeOne) (c e j : Nat) (hj : 16 ≤ j) : oneSrc m c e j = [] := by
  apply oneSrcG_nil _ _ _ _ _ _ _ hj <;> cases m <;> decide

/-- `extract_compressed_endpoints_one` in closed form -/
theorem extractOne_at (m : ModeOne) (b : Nat) :
    extractOne m (b >>> 5) =
      ((List.range 3).map (fun c => Bc7Spec.rd b (5 + 10 * c) 10 |||
          (revBits (m.a0BitCount - 10) (Bc7Spec.rd b (35 + 10 * c + (20 - m.a0BitCount)) (m.a0BitCount - 10)) <<< 10) % U32)
        ++ (List.range 3).map (fun c => Bc7Spec.rd b (35 + 10 * c) (20 - m.a0BitCount)), b >>> 65) := by
  cases m <;>
    simp (disch := omega) only [extractOne, ModeOne.a0BitCount, Nat.reduceSub, consumeBits32_at, consumeBitsRev_at,
      Nat.reduceAdd, Nat.reduceMul, Bc7.range3, List.map, List.cons_append, List.nil_append, Nat.add_zero]

theorem ext_lt (m : ModeOne) : m.a0BitCount - 10 < 7 := by cases m <;> decide

/-- `bc6_extract_eq_fields`, one-region modes -/
theorem extractOne_eq (m : ModeOne) (b : Nat) :
    (extractOne m (b >>> 5)).2 = b >>> 65 ∧
    ∀ c, c < 3 →
      (extractOne m (b >>> 5)).1.getD c 0 = rawField (recOne m) b c 0 ∧
      (extractOne m (b >>> 5)).1.getD (3 + c) 0 = rawField (recOne m) b c 1 ∧
      rawField (recOne m) b c 0 < 2 ^ fieldWidth (recOne m) c 0 ∧
      rawField (recOne m) b c 1 < 2 ^ fieldWidth (recOne m) c 1 := by
  have hok := oneOk_true m
  simp only [oneOk, Bool.and_eq_true, beq_iff_eq, List.all_eq_true, List.mem_range, decide_eq_true_eq,
    Bool.or_eq_true, Bool.not_eq_true'] at hok
  obtain ⟨⟨⟨⟨⟨⟨_, _⟩, _⟩, _⟩, hmb⟩, _⟩, htab⟩ := hok
  rw [extractOne_at]
  refine ⟨rfl, ?_⟩
  intro c hc
  have hraw : ∀ e, e < 2 → ∀ j, (rawField (recOne m) b c e).testBit j = (oneSrc m c e j).any (fun p => b.testBit p) := by
    intro e he j
    rw [rawField_testBit]
    by_cases hj : j < 16
    · rw [(htab c hc e he j hj).1]; simp [hj]
    · rw [oneSrc_nil m c e j (by omega)]; simp [hj]
  have hlt : ∀ e, e < 2 → rawField (recOne m) b c e < 2 ^ fieldWidth (recOne m) c e := by
    intro e he
    apply Nat.lt_pow_two_of_testBit
    intro j hj
    rw [rawField_testBit]
    by_cases hj16 : j < 16
    · have := (htab c hc e he j hj16).2
      rcases this with h | h
      · cases hs : srcPos (recOne m).layout (recOne m).modeBits c e j with
        | none => simp
        | some p => rw [hs] at h; simp at h
      · omega
    · simp [hj16]
  refine ⟨?_, ?_, hlt 0 (by decide), hlt 1 (by decide)⟩
  · have hA : ((List.range 3).map (fun c => Bc7Spec.rd b (5 + 10 * c) 10 |||
          (revBits (m.a0BitCount - 10) (Bc7Spec.rd b (35 + 10 * c + (20 - m.a0BitCount)) (m.a0BitCount - 10)) <<< 10) % U32)
        ++ (List.range 3).map (fun c => Bc7Spec.rd b (35 + 10 * c) (20 - m.a0BitCount))).getD c 0 =
        Bc7Spec.rd b (5 + 10 * c) 10 |||
          (revBits (m.a0BitCount - 10) (Bc7Spec.rd b (35 + 10 * c + (20 - m.a0BitCount)) (m.a0BitCount - 10)) <<< 10) % U32 := by
      have : c = 0 ∨ c = 1 ∨ c = 2 := by omega
      rcases this with h | h | h <;> subst h <;> rfl
    simp only []
    rw [hA]
    apply Nat.eq_of_testBit_eq
    intro j
    rw [hraw 0 (by decide) j, aval_testBit _ _ _ _ _ (ext_lt m)]
    simp only [oneSrc, oneSrcG, if_true]
  · have hB : ((List.range 3).map (fun c => Bc7Spec.rd b (5 + 10 * c) 10 |||
          (revBits (m.a0BitCount - 10) (Bc7Spec.rd b (35 + 10 * c + (20 - m.a0BitCount)) (m.a0BitCount - 10)) <<< 10) % U32)
        ++ (List.range 3).map (fun c => Bc7Spec.rd b (35 + 10 * c) (20 - m.a0BitCount))).getD (3 + c) 0 =
        Bc7Spec.rd b (35 + 10 * c) (20 - m.a0BitCount) := by
      have : c = 0 ∨ c = 1 ∨ c = 2 := by omega
      rcases this with h | h | h <;> subst h <;> rfl
    simp only []
    rw [hB]
    apply Nat.eq_of_testBit_eq
    intro j
    rw [hraw 1 (by decide) j, bval_testBit]
    simp only [oneSrc, oneSrcG, Nat.reduceEqDiff, if_false, Nat.one_ne_zero]

end Dds.Bc6
