/-
half -> f32 / UNORM8 / UNORM16: the models of the code's conversions (`fp16::*`, `bc6h_uf16::*`, float
arithmetic modelled exactly) against the specification readings, by complete evaluation over all 65536 halves.
-/
import DdsModel.Range
import DdsModel.Bc6
import DdsModel.Bc6Spec
namespace Dds.Bc6
open Dds.Bc6Spec

theorem f32_all : allRange (fun h => fp16F32 h == halfToF32 h) 10 0 65536 = true := by decide +kernel
theorem n8_all : allRange (fun h => fp16N8 h == halfToUnorm 255 h) 10 0 65536 = true := by decide +kernel
/-- U16: equal to the nearest value except for the halves 0x3801..0x3804, where the code is one too high -/
theorem n16_all : allRange (fun h =>
    if 0x3801 ≤ h ∧ h ≤ 0x3804 then fp16N16 h == halfToUnorm 65535 h + 1
    else fp16N16 h == halfToUnorm 65535 h) 10 0 65536 = true := by decide +kernel
/-- below 0x7C00 (all that BC6H_UF16 can produce) the sign bit is clear and the exponent is not 31 -/
theorem small_bits : allRange (fun h => ((h >>> 10) &&& 31) != 31 && (h &&& 0x8000) == 0) 9 0 31744 = true := by
  decide +kernel

theorem fp16F32_eq (h : Nat) (hh : h < 65536) : fp16F32 h = halfToF32 h := by
  have := allRange_sound _ _ _ _ f32_all h (by omega) (by omega)
  simpa using this
theorem fp16N8_eq (h : Nat) (hh : h < 65536) : fp16N8 h = halfToUnorm 255 h := by
  have := allRange_sound _ _ _ _ n8_all h (by omega) (by omega)
  simpa using this
theorem fp16N16_eq (h : Nat) (hh : h < 65536) (hne : ¬ (0x3801 ≤ h ∧ h ≤ 0x3804)) :
    fp16N16 h = halfToUnorm 65535 h := by
  have := allRange_sound _ _ _ _ n16_all h (by omega) (by omega)
  simp only [hne, if_false] at this
  simpa using this
theorem fp16N16_off_by_one (h : Nat) (h1 : 0x3801 ≤ h) (h2 : h ≤ 0x3804) :
    fp16N16 h = halfToUnorm 65535 h + 1 := by
  have := allRange_sound _ _ _ _ n16_all h (by omega) (by omega)
  simp only [And.intro h1 h2, if_true] at this
  simpa using this

theorem uf16_eq_fp16 (h : Nat) (hh : h < 31744) :
    uf16N8 h = fp16N8 h ∧ uf16N16 h = fp16N16 h ∧ uf16F32 h = fp16F32 h := by
  have := allRange_sound _ _ _ _ small_bits h (by omega) (by omega)
  simp only [Bool.and_eq_true, bne_iff_ne, ne_eq, beq_iff_eq] at this
  obtain ⟨he, hs⟩ := this
  refine ⟨?_, ?_, ?_⟩
  · simp [uf16N8, fp16N8, he, hs]
  · simp [uf16N16, fp16N16, he, hs]
  · simp only [uf16F32, fp16F32, halfMagToF32, hs, he]
    simp
    split <;> simp_all
