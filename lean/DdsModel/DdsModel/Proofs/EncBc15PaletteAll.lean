/-
C13, BC1–BC5 encoder core: the palette relations assembled from the complete evaluations of `Proofs/EncBc15Pal*.lean`,
and the index maps of bc4.rs against the decoder's palette.
-/
import DdsModel.Proofs.EncBc15Pal5
import DdsModel.Proofs.EncBc15Pal6a
import DdsModel.Proofs.EncBc15Pal6b
import DdsModel.Proofs.EncBc15Pal6c
import DdsModel.Proofs.EncBc15Pal6d
import DdsModel.Proofs.EncBc15Pal6e
import DdsModel.Proofs.EncBc15Pal6f
import DdsModel.Proofs.EncBc15Pal6g
import DdsModel.Proofs.EncBc15Pal6h
import DdsModel.Proofs.EncBc15Pal4u6
import DdsModel.Proofs.EncBc15Pal4u4
import DdsModel.Proofs.EncBc15Pal4s6
import DdsModel.Proofs.EncBc15Pal4s4
namespace Dds.Enc15
open Dds Dds.Bc Dds.Enc13

/-! ### colour palettes -/

theorem okEntry_iff (v d n den : Nat) :
    okEntry v d n den = true ↔ f32Small v = true ∧ f32Nearest8 v = d ∧ f32Within22 v n den = true := by
  unfold okEntry
  simp only [CF32.force_eq, Bool.and_eq_true, beq_iff_eq, and_assoc]

theorem chkPair5_at (a b : Nat) (hb : b ≤ 31) (h : chkPair 31 Conv.n5f32 third5 mid5 (a * 32 + b) = true) :
    okEntry (p4Entry (Conv.n5f32 a) (Conv.n5f32 b) 2) (third5 a b) (2 * a + b) 93 = true ∧
    okEntry (p4Entry (Conv.n5f32 a) (Conv.n5f32 b) 3) (third5 b a) (a + 2 * b) 93 = true ∧
    okEntry (p3Entry (Conv.n5f32 a) (Conv.n5f32 b) 2) (mid5 a b) (a + b) 62 = true := by
  unfold chkPair at h
  have e1 : (a * 32 + b) / (31 + 1) = a := by omega
  have e2 : (a * 32 + b) % (31 + 1) = b := by omega
  simp only [e1, e2, CF32.force_eq, Bool.and_eq_true] at h
  exact ⟨h.1.1, h.1.2, h.2⟩

theorem chkPair6_at (a b : Nat) (hb : b ≤ 63) (h : chkPair 63 Conv.n6f32 third6 mid6 (a * 64 + b) = true) :
    okEntry (p4Entry (Conv.n6f32 a) (Conv.n6f32 b) 2) (third6 a b) (2 * a + b) 189 = true ∧
    okEntry (p4Entry (Conv.n6f32 a) (Conv.n6f32 b) 3) (third6 b a) (a + 2 * b) 189 = true ∧
    okEntry (p3Entry (Conv.n6f32 a) (Conv.n6f32 b) 2) (mid6 a b) (a + b) 126 = true := by
  unfold chkPair at h
  have e1 : (a * 64 + b) / (63 + 1) = a := by omega
  have e2 : (a * 64 + b) % (63 + 1) = b := by omega
  simp only [e1, e2, CF32.force_eq, Bool.and_eq_true] at h
  exact ⟨h.1.1, h.1.2, h.2⟩

theorem pal5_pair (a b : Nat) (ha : a ≤ 31) (hb : b ≤ 31) : chkPair 31 Conv.n5f32 third5 mid5 (a * 32 + b) = true :=
  allRange_sound _ 6 0 1024 pal5_all _ (Nat.zero_le _) (by omega)

theorem pal6_pair (a b : Nat) (ha : a ≤ 63) (hb : b ≤ 63) : chkPair 63 Conv.n6f32 third6 mid6 (a * 64 + b) = true := by
  have hx : a * 64 + b < 4096 := by omega
  generalize a * 64 + b = x at hx ⊢
  by_cases h1 : x < 512
  · exact allRange_sound _ 5 0 512 pal6a_all x (by omega) (by omega)
  by_cases h2 : x < 1024
  · exact allRange_sound _ 5 512 512 pal6b_all x (by omega) (by omega)
  by_cases h3 : x < 1536
  · exact allRange_sound _ 5 1024 512 pal6c_all x (by omega) (by omega)
  by_cases h4 : x < 2048
  · exact allRange_sound _ 5 1536 512 pal6d_all x (by omega) (by omega)
  by_cases h5 : x < 2560
  · exact allRange_sound _ 5 2048 512 pal6e_all x (by omega) (by omega)
  by_cases h6 : x < 3072
  · exact allRange_sound _ 5 2560 512 pal6f_all x (by omega) (by omega)
  by_cases h7 : x < 3584
  · exact allRange_sound _ 5 3072 512 pal6g_all x (by omega) (by omega)
  · exact allRange_sound _ 5 3584 512 pal6h_all x (by omega) (by omega)

theorem end5 (a : Nat) (ha : a ≤ 31) : okEntry (Conv.n5f32 a) (n5n8 a) a 31 = true := by
  have h := allRange_sound _ 2 0 32 chkEnd5_all a (Nat.zero_le _) (by omega)
  unfold chkEnd at h; rw [CF32.force_eq] at h; exact h

theorem end6 (a : Nat) (ha : a ≤ 63) : okEntry (Conv.n6f32 a) (n6n8 a) a 63 = true := by
  have h := allRange_sound _ 2 0 64 chkEnd6_all a (Nat.zero_le _) (by omega)
  unfold chkEnd at h; rw [CF32.force_eq] at h; exact h

/-- 5-bit channels: every entry of both palettes, every endpoint pair -/
theorem palette5 (mode : PaletteMode) (a b k : Nat) (ha : a ≤ 31) (hb : b ≤ 31) (hk : k < (if mode = .p3 then 3 else 4)) :
    okEntry (paletteEntry mode (Conv.n5f32 a) (Conv.n5f32 b) k) (BcSpec.chan8 (decide (mode = .p4)) k a b 31)
      ((paletteWeights mode k).1 * a + (paletteWeights mode k).2 * b)
      (((paletteWeights mode k).1 + (paletteWeights mode k).2) * 31) = true := by
  have hp := chkPair5_at a b hb (pal5_pair a b ha hb)
  have e0 := end5 a ha
  have e1 := end5 b hb
  cases mode with
  | p4 =>
    simp only [reduceCtorEq, if_false] at hk
    have hk4 : k = 0 ∨ k = 1 ∨ k = 2 ∨ k = 3 := by omega
    rcases hk4 with rfl | rfl | rfl | rfl <;>
      simp only [paletteEntry, p4Entry, paletteWeights, decide_true, Nat.one_mul, Nat.zero_mul, Nat.add_zero, Nat.zero_add,
        Nat.reduceAdd, Nat.reduceMul]
    · rw [← c5_0 true a b ha]; exact e0
    · rw [← c5_1 true a b hb]; exact e1
    · rw [← c5_2t a b ha hb]; exact hp.1
    · rw [← c5_3t a b ha hb]; exact hp.2.1
  | p3 =>
    simp only [if_true] at hk
    have hk3 : k = 0 ∨ k = 1 ∨ k = 2 := by omega
    rcases hk3 with rfl | rfl | rfl <;>
      simp only [paletteEntry, p3Entry, paletteWeights, reduceCtorEq, decide_false, Nat.one_mul, Nat.zero_mul, Nat.add_zero,
        Nat.zero_add, Nat.reduceAdd, Nat.reduceMul]
    · rw [← c5_0 false a b ha]; exact e0
    · rw [← c5_1 false a b hb]; exact e1
    · rw [← c5_2f a b ha hb]; exact hp.2.2

/-- 6-bit channels -/
theorem palette6 (mode : PaletteMode) (a b k : Nat) (ha : a ≤ 63) (hb : b ≤ 63) (hk : k < (if mode = .p3 then 3 else 4)) :
    okEntry (paletteEntry mode (Conv.n6f32 a) (Conv.n6f32 b) k) (BcSpec.chan8 (decide (mode = .p4)) k a b 63)
      ((paletteWeights mode k).1 * a + (paletteWeights mode k).2 * b)
      (((paletteWeights mode k).1 + (paletteWeights mode k).2) * 63) = true := by
  have hp := chkPair6_at a b hb (pal6_pair a b ha hb)
  have e0 := end6 a ha
  have e1 := end6 b hb
  cases mode with
  | p4 =>
    simp only [reduceCtorEq, if_false] at hk
    have hk4 : k = 0 ∨ k = 1 ∨ k = 2 ∨ k = 3 := by omega
    rcases hk4 with rfl | rfl | rfl | rfl <;>
      simp only [paletteEntry, p4Entry, paletteWeights, decide_true, Nat.one_mul, Nat.zero_mul, Nat.add_zero, Nat.zero_add,
        Nat.reduceAdd, Nat.reduceMul]
    · rw [← c6_0 true a b ha]; exact e0
    · rw [← c6_1 true a b hb]; exact e1
    · rw [← c6_2t a b ha hb]; exact hp.1
    · rw [← c6_3t a b ha hb]; exact hp.2.1
  | p3 =>
    simp only [if_true] at hk
    have hk3 : k = 0 ∨ k = 1 ∨ k = 2 := by omega
    rcases hk3 with rfl | rfl | rfl <;>
      simp only [paletteEntry, p3Entry, paletteWeights, reduceCtorEq, decide_false, Nat.one_mul, Nat.zero_mul, Nat.add_zero,
        Nat.zero_add, Nat.reduceAdd, Nat.reduceMul]
    · rw [← c6_0 false a b ha]; exact e0
    · rw [← c6_1 false a b hb]; exact e1
    · rw [← c6_2f a b ha hb]; exact hp.2.2

/-! ### BC4: `INDEX_MAP` and the index order of `Inter4Palette` against the decoder's palette (exact, all endpoints) -/

/-- six interpolants: step `j` counted from `c1` is written as the index whose entry has weights `j : 7 − j` -/
theorem indexMap6 (c0 c1 m j : Nat) (h1 : 1 ≤ j) (h6 : j ≤ 6) :
    intended4 true c0 c1 m (INDEX_MAP.getD j 0) = BcSpec.interp j (7 - j) c0 c1 m := by
  have hj : j = 1 ∨ j = 2 ∨ j = 3 ∨ j = 4 ∨ j = 5 ∨ j = 6 := by omega
  rcases hj with rfl | rfl | rfl | rfl | rfl | rfl <;> rfl

theorem indexMap6_ends (c0 c1 m : Nat) :
    intended4 true c0 c1 m (INDEX_MAP.getD 0 0) = BcSpec.interp 0 1 c0 c1 m ∧
    intended4 true c0 c1 m (INDEX_MAP.getD 7 0) = BcSpec.interp 1 0 c0 c1 m := ⟨rfl, rfl⟩

/-- four interpolants: `colors[k]` is index `k`: weights `6 − k : k − 1` of five, then the constants 0 and 1 -/
theorem indexMap4 (c0 c1 m : Nat) :
    intended4 false c0 c1 m 0 = BcSpec.interp 1 0 c0 c1 m ∧ intended4 false c0 c1 m 1 = BcSpec.interp 0 1 c0 c1 m ∧
    (∀ k, 2 ≤ k → k ≤ 5 → intended4 false c0 c1 m k = BcSpec.interp (6 - k) (k - 1) c0 c1 m) ∧
    intended4 false c0 c1 m 6 = 0 ∧ intended4 false c0 c1 m 7 = 1 := by
  refine ⟨rfl, rfl, ?_, rfl, rfl⟩
  intro k h2 h5
  have hk : k = 2 ∨ k = 3 ∨ k = 4 ∨ k = 5 := by omega
  rcases hk with rfl | rfl | rfl | rfl <;> rfl

/-! ### BC4 palettes in binary32 on the sub-domain -/

theorem okEntryT_iff (v d n den : Nat) :
    okEntryT v d n den = true ↔
      f32Small v = true ∧ (f32Nearest8 v = d ∨ 510 * n + den = 2 * d * den) ∧ f32Within22 v n den = true := by
  unfold okEntryT isTie
  simp only [CF32.force_eq, Bool.and_eq_true, Bool.or_eq_true, beq_iff_eq, and_assoc]

theorem sub6 (snorm : Bool) (kind i : Nat) (hk : kind < 2) (hi : i + 1 < denOf snorm) : chk6Sub snorm kind i = true := by
  have hk2 : kind = 0 ∨ kind = 1 := by omega
  cases snorm with
  | false =>
    have hi' : i + 1 < 255 := hi
    rcases hk2 with rfl | rfl
    · exact allRange_sound _ 4 0 254 pal4u6_0 i (Nat.zero_le _) (by omega)
    · exact allRange_sound _ 4 0 254 pal4u6_1 i (Nat.zero_le _) (by omega)
  | true =>
    have hi' : i + 1 < 254 := hi
    rcases hk2 with rfl | rfl
    · exact allRange_sound _ 4 0 253 pal4s6_0 i (Nat.zero_le _) (by omega)
    · exact allRange_sound _ 4 0 253 pal4s6_1 i (Nat.zero_le _) (by omega)

theorem sub4 (snorm : Bool) (kind i : Nat) (hk : kind < 2) (hi : i + 1 < denOf snorm) : chk4Sub snorm kind i = true := by
  have hk2 : kind = 0 ∨ kind = 1 := by omega
  cases snorm with
  | false =>
    have hi' : i + 1 < 255 := hi
    rcases hk2 with rfl | rfl
    · exact allRange_sound _ 4 0 254 pal4u4_0 i (Nat.zero_le _) (by omega)
    · exact allRange_sound _ 4 0 254 pal4u4_1 i (Nat.zero_le _) (by omega)
  | true =>
    have hi' : i + 1 < 254 := hi
    rcases hk2 with rfl | rfl
    · exact allRange_sound _ 4 0 253 pal4s4_0 i (Nat.zero_le _) (by omega)
    · exact allRange_sound _ 4 0 253 pal4s4_1 i (Nat.zero_le _) (by omega)

end Dds.Enc15
