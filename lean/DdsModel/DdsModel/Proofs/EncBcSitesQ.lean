/-
C15, bc1.rs and bc7.rs sites (`EncBcSites.lean`): `R5G6B5Color::round/floor/ceil`, `optimal_channel`,
`channel_round/floor/ceil::<B>` stay within their fields for EVERY bit pattern: a `min` with the constant `MAX`
in front of the cast (glam SSE2 `_mm_min_ps` or `f32::min`: NaN ↦ MAX either way) bounds the cast by the cast
of `MAX`; without a `min` the operand is `f32::clamp(0.0, 1.0)`ed (NaN ↦ 0 through the cast, `-0.0` ↦ 0) and
`(x * MAX + 0.5) as u8` is monotone, `≤` its value at 1.0.
-/
import DdsModel.Proofs.EncBcSitesBc4
namespace Dds.EncBcSites
open Dds Dds.CF32 Dds.ConvFast Dds.F32Mono Dds.F32Thr
open Dds.EncTotal.QuantBits (NegR negR_flags toNatSat_neg toNatSat_small fmul_neg fadd_neg_half)
open Dds.EncTotal.SharedExp (isNaN_iff key_of_lt key_of_ge isNaN_of_le)

/-! ### a cast behind `min(·, K)` -/

theorem toNatSat_isNeg (y M : Nat) (h : isNeg y = true) : toNatSat y M = 0 := by
  unfold toNatSat
  simp only [force_eq, h, if_true]
  split <;> rfl

theorem toNatSat_le_of_key (y K M : Nat) (_hn : isNaN y = false) (hK : K ≤ 0x7F800000) (h : key y ≤ key K) :
    toNatSat y M ≤ toNatSat K M := by
  by_cases hneg : isNeg y = true
  · rw [toNatSat_isNeg y M hneg]; exact Nat.zero_le _
  · have hy : y < signBit := by
      unfold isNeg at hneg; simpa using hneg
    rw [key_of_lt y hy, key_pos K hK] at h
    exact toNatSat_mono_nonneg M (by omega) hK

theorem cast_sseMin_le (s k : Nat) (hk : k ≤ 0x7F800000) : toNatSat (sseMin s k) 255 ≤ toNatSat k 255 := by
  rcases sseMin_cases s k with e | ⟨e, n1, _, hk'⟩
  · rw [e]; exact Nat.le_refl _
  · rw [e]; exact toNatSat_le_of_key s k 255 n1 hk (by omega)

theorem cast_fmin_le (s k : Nat) (hk : k ≤ 0x7F800000) : toNatSat (fmin s k) 255 ≤ toNatSat k 255 := by
  rcases fmin_cases s k (nan_of_pos k hk) with e | ⟨e, n1, hk'⟩
  · rw [e]; exact Nat.le_refl _
  · rw [e]; exact toNatSat_le_of_key s k 255 n1 hk hk'

/-! ### bc1.rs -/

theorem q565Lane_le (sse : Bool) (k : Nat) (h : Option Nat) (v : Nat) (hk : k ≤ 0x7F800000) :
    q565Lane sse k h v ≤ toNatSat k 255 := by
  unfold q565Lane
  dsimp only
  cases sse
  · rw [if_neg Bool.false_ne_true]; exact cast_fmin_le _ k hk
  · rw [if_pos rfl]; exact cast_sseMin_le _ k hk

theorem cast_k31 : toNatSat k31 255 = 31 := by decide +kernel
theorem cast_k63 : toNatSat k63 255 = 63 := by decide +kernel
theorem cast_k15 : toNatSat k15 255 = 15 := by decide +kernel
theorem cast_k127 : toNatSat k127 255 = 127 := by decide +kernel

theorem r5g6b5_lanes (sse : Bool) (h : Option Nat) (x y z : Nat) :
    ∃ r g b, r5g6b5New (q565Lane sse k31 h x) (q565Lane sse k63 h y) (q565Lane sse k31 h z) = some (r, g, b) ∧
      r ≤ 31 ∧ g ≤ 63 ∧ b ≤ 31 := by
  have a := q565Lane_le sse k31 h x (by decide)
  have b := q565Lane_le sse k63 h y (by decide)
  have c := q565Lane_le sse k31 h z (by decide)
  rw [cast_k31] at a c
  rw [cast_k63] at b
  unfold r5g6b5New
  rw [if_pos ⟨by omega, by omega, by omega⟩]
  exact ⟨_, _, _, rfl, a, b, c⟩

theorem optC0Max_le (color mx : Nat) : optC0Max color mx ≤ mx := Nat.min_le_left _ _

theorem optC1_some (color w0 w1 mx c0 : Nat) (hmx : mx ≤ 254) :
    ∃ f c, optC1 color w0 w1 mx c0 = some (f, c) ∧ f ≤ c ∧ c ≤ mx := by
  unfold optC1 U8
  dsimp only
  generalize toNatSat (fdiv (fsub color (fmul (ofNat c0) w0)) w1) 255 = t
  have h1 : min mx t ≤ mx := Nat.min_le_left _ _
  rw [if_pos (by omega)]
  refine ⟨_, _, rfl, ?_, Nat.min_le_left _ _⟩
  omega

/-! ### bc7.rs -/

/-- the three `if`s behind `nearest`, `floor`, `ceil`: a value `≤ max` is moved by at most one step, never
below 0 (guard `> 0`) and never above `max` (guard `< max`) -/
theorem adjust_down_up (mx n : Nat) (c1 c2 : Prop) [Decidable c1] [Decidable c2] (h : n ≤ mx) (hm : mx ≤ 254) :
    ∃ r, (if 0 < n ∧ c1 then some (n - 1)
          else if n < mx ∧ c2 then (if n + 1 < U8 then some (n + 1) else none) else some n) = some r ∧ r ≤ mx := by
  unfold U8
  by_cases a : 0 < n ∧ c1
  · rw [if_pos a]; exact ⟨_, rfl, by omega⟩
  · rw [if_neg a]
    by_cases b : n < mx ∧ c2
    · rw [if_pos b, if_pos (by omega)]; exact ⟨_, rfl, by omega⟩
    · rw [if_neg b]; exact ⟨_, rfl, h⟩

theorem adjust_up_down (mx n : Nat) (c1 c2 : Prop) [Decidable c1] [Decidable c2] (h : n ≤ mx) (hm : mx ≤ 254) :
    ∃ r, (if n < mx ∧ c1 then (if n + 1 < U8 then some (n + 1) else none)
          else if 0 < n ∧ c2 then some (n - 1) else some n) = some r ∧ r ≤ mx := by
  unfold U8
  by_cases a : n < mx ∧ c1
  · rw [if_pos a, if_pos (by omega)]; exact ⟨_, rfl, by omega⟩
  · rw [if_neg a]
    by_cases b : 0 < n ∧ c2
    · rw [if_pos b]; exact ⟨_, rfl, by omega⟩
    · rw [if_neg b]; exact ⟨_, rfl, h⟩

/-- `(v.clamp(0.0, 1.0) * K + 0.5) as u8 ≤ (1.0 * K + 0.5) as u8` -/
theorem round_clamped_le (K v : Nat) (hv : v < 2 ^ 32) (hK : K < 0x7F800000) (hK0 : 0 < K) :
    toNatSat (fadd (fmul (fclamp v 0 one) K) half) 255 ≤ toNatSat (fadd (fmul one K) half) 255 := by
  show pipe K half 255 (fclamp v 0 one) ≤ pipe K half 255 one
  rcases fclamp01_spec v hv with ⟨n, e⟩ | ⟨_, _, _, u, _⟩
  · rw [e, pipe_nan K half 255 v n]; exact Nat.zero_le _
  · rcases u with e | e
    · rw [e, pipe_neg K 255 signBit hK hK0 ⟨Nat.le_refl _, by decide⟩]; exact Nat.zero_le _
    · exact pipe_mono hK hK0 (by decide) e (by decide)

/-- `(v.clamp(0.0, 1.0) * K) as u8 ≤ (1.0 * K) as u8` -/
theorem floor_clamped_le (K v : Nat) (hv : v < 2 ^ 32) (hK : K < 0x7F800000) (hK0 : 0 < K) :
    toNatSat (fmul (fclamp v 0 one) K) 255 ≤ toNatSat (fmul one K) 255 := by
  rw [fmul_comm _ K, fmul_comm one K]
  show floorK K (fclamp v 0 one) ≤ floorK K one
  rcases fclamp01_spec v hv with ⟨n, e⟩ | ⟨_, _, _, u, _⟩
  · rw [e, floorK_nan K v n]; exact Nat.zero_le _
  · rcases u with e | e
    · rw [e, floorK_neg K signBit hK hK0 ⟨Nat.le_refl _, by decide⟩]; exact Nat.zero_le _
    · exact floorK_mono_nonneg K _ _ hK hK0 e (by decide)

theorem maxF_facts : maxF 5 = k31 ∧ maxF 6 = k63 ∧ maxF 7 = k127 := by decide +kernel

theorem round_one : toNatSat (fadd (fmul one k31) half) 255 = 31 ∧ toNatSat (fadd (fmul one k63) half) 255 = 63 ∧
    toNatSat (fadd (fmul one k127) half) 255 = 127 := by decide +kernel
theorem floor_one : toNatSat (fmul one k31) 255 = 31 ∧ toNatSat (fmul one k63) 255 = 63 ∧
    toNatSat (fmul one k127) 255 = 127 := by decide +kernel

theorem bits_cases (B : Nat) (h : 5 ≤ B ∧ B ≤ 7) : B = 5 ∨ B = 6 ∨ B = 7 := by omega

theorem channelRound_some (B v : Nat) (hB : 4 ≤ B ∧ B ≤ 8) (hv : v < 2 ^ 32) :
    ∃ r, channelRound B v = some r ∧ r ≤ 2 ^ B - 1 := by
  unfold channelRound
  by_cases h8 : B = 8
  · subst h8; rw [if_pos rfl]; exact ⟨_, rfl, toNatSat_le_max _ _⟩
  rw [if_neg h8]
  by_cases h4 : B = 4
  · subst h4; rw [if_pos rfl]
    have := cast_fmin_le (fadd (fmul v k15) half) k15 (by decide)
    rw [cast_k15] at this
    exact ⟨_, rfl, this⟩
  rw [if_neg h4]
  have h57 : 5 ≤ B ∧ B ≤ 7 := by omega
  rw [if_pos h57]
  dsimp only
  obtain ⟨m5, m6, m7⟩ := maxF_facts
  obtain ⟨r5, r6, r7⟩ := round_one
  rcases bits_cases B h57 with rfl | rfl | rfl
  · have := round_clamped_le k31 v hv (by decide) (by decide)
    rw [r5] at this; rw [m5]
    exact adjust_down_up (2 ^ 5 - 1) _ _ _ this (by decide)
  · have := round_clamped_le k63 v hv (by decide) (by decide)
    rw [r6] at this; rw [m6]
    exact adjust_down_up (2 ^ 6 - 1) _ _ _ this (by decide)
  · have := round_clamped_le k127 v hv (by decide) (by decide)
    rw [r7] at this; rw [m7]
    exact adjust_down_up (2 ^ 7 - 1) _ _ _ this (by decide)

theorem channelFloor_some (B v : Nat) (hB : 4 ≤ B ∧ B ≤ 8) (hv : v < 2 ^ 32) :
    ∃ r, channelFloor B v = some r ∧ r ≤ 2 ^ B - 1 := by
  unfold channelFloor
  by_cases h8 : B = 8
  · subst h8; rw [if_pos rfl]; exact ⟨_, rfl, toNatSat_le_max _ _⟩
  rw [if_neg h8]
  by_cases h4 : B = 4
  · subst h4; rw [if_pos rfl]
    have := cast_fmin_le (fmul v k15) k15 (by decide)
    rw [cast_k15] at this
    exact ⟨_, rfl, this⟩
  rw [if_neg h4]
  have h57 : 5 ≤ B ∧ B ≤ 7 := by omega
  rw [if_pos h57]
  dsimp only
  obtain ⟨m5, m6, m7⟩ := maxF_facts
  obtain ⟨r5, r6, r7⟩ := floor_one
  rcases bits_cases B h57 with rfl | rfl | rfl
  · have := floor_clamped_le k31 v hv (by decide) (by decide)
    rw [r5] at this; rw [m5]
    exact adjust_down_up (2 ^ 5 - 1) _ _ _ this (by decide)
  · have := floor_clamped_le k63 v hv (by decide) (by decide)
    rw [r6] at this; rw [m6]
    exact adjust_down_up (2 ^ 6 - 1) _ _ _ this (by decide)
  · have := floor_clamped_le k127 v hv (by decide) (by decide)
    rw [r7] at this; rw [m7]
    exact adjust_down_up (2 ^ 7 - 1) _ _ _ this (by decide)

theorem channelCeil_some (B v : Nat) (hB : 4 ≤ B ∧ B ≤ 8) :
    ∃ r, channelCeil B v = some r ∧ r ≤ 2 ^ B - 1 := by
  unfold channelCeil
  by_cases h8 : B = 8
  · subst h8; rw [if_pos rfl]; exact ⟨_, rfl, toNatSat_le_max _ _⟩
  rw [if_neg h8]
  by_cases h4 : B = 4
  · subst h4; rw [if_pos rfl]
    have := cast_fmin_le (fadd (fmul v k15) ceil9999) k15 (by decide)
    rw [cast_k15] at this
    exact ⟨_, rfl, this⟩
  rw [if_neg h4]
  have h57 : 5 ≤ B ∧ B ≤ 7 := by omega
  rw [if_pos h57]
  dsimp only
  obtain ⟨m5, m6, m7⟩ := maxF_facts
  rcases bits_cases B h57 with rfl | rfl | rfl
  · rw [m5]
    have := cast_fmin_le (fadd (fmul (fclamp v 0 one) k31) ceil9999) k31 (by decide)
    rw [cast_k31] at this
    exact adjust_up_down (2 ^ 5 - 1) _ _ _ this (by decide)
  · rw [m6]
    have := cast_fmin_le (fadd (fmul (fclamp v 0 one) k63) ceil9999) k63 (by decide)
    rw [cast_k63] at this
    exact adjust_up_down (2 ^ 6 - 1) _ _ _ this (by decide)
  · rw [m7]
    have := cast_fmin_le (fadd (fmul (fclamp v 0 one) k127) ceil9999) k127 (by decide)
    rw [cast_k127] at this
    exact adjust_up_down (2 ^ 7 - 1) _ _ _ this (by decide)

end Dds.EncBcSites
