/-
C01 (codec bodies, uncompressed / sub-sampled / bi-planar formats, channel conversion): the trapping mirrors of
`TrapUnc.lean` return `some` of the wrapping model (`Conv.lean`, `Uncompressed.lean`) for every encoded value.
-/
import DdsModel.TrapUnc
namespace Dds.TrapUnc
open Dds.Trap Dds.Conv Dds.Unc Dds.CF32

theorem dbgP_true : dbgP True = some () := dbgP_of trivial

/-! ### scalar conversions -/

theorem n1T_eq (prec x : Nat) (h : x ≤ 1) :
    n1T prec x = some (if prec = 0 then n1n8 x else if prec = 1 then n1n16 x else n1f32 x) := by
  trap_simp [n1T]
theorem n2n8T_eq (x : Nat) (h : x ≤ 3) : n2n8T x = some (n2n8 x) := by trap_simp [n2n8T, n2n8, w8]
theorem n2n16T_eq (x : Nat) (h : x ≤ 3) : n2n16T x = some (n2n16 x) := by trap_simp [n2n16T, n2n16, w16]
theorem n2f32T_eq (x : Nat) (h : x ≤ 3) : n2f32T x = some (n2f32 x) := by trap_simp [n2f32T]
theorem n4n8T_eq (x : Nat) (h : x ≤ 15) : n4n8T x = some (n4n8 x) := by trap_simp [n4n8T, n4n8, w8]
theorem n4n16T_eq (x : Nat) (h : x ≤ 15) : n4n16T x = some (n4n16 x) := by trap_simp [n4n16T, n4n16, w16]
theorem n4f32T_eq (x : Nat) (h : x ≤ 15) : n4f32T x = some (n4f32 x) := by trap_simp [n4f32T]
theorem n5n8T_eq (x : Nat) (h : x ≤ 31) : n5n8T x = some (n5n8 x) := by trap_simp [n5n8T, n5n8, w8, w16]
theorem n5n16T_eq (x : Nat) (h : x ≤ 31) : n5n16T x = some (n5n16 x) := by trap_simp [n5n16T, n5n16, w16, w32]
theorem n5f32T_eq (x : Nat) (h : x ≤ 31) : n5f32T x = some (n5f32 x) := by trap_simp [n5f32T]
theorem n6n8T_eq (x : Nat) (h : x ≤ 63) : n6n8T x = some (n6n8 x) := by trap_simp [n6n8T, n6n8, w8, w16]
theorem n6n16T_eq (x : Nat) (h : x ≤ 63) : n6n16T x = some (n6n16 x) := by trap_simp [n6n16T, n6n16, w16, w32]
theorem n6f32T_eq (x : Nat) (h : x ≤ 63) : n6f32T x = some (n6f32 x) := by trap_simp [n6f32T]
theorem n8n16T_eq (x : Nat) (h : x ≤ 255) : n8n16T x = some (n8n16 x) := by trap_simp [n8n16T, n8n16, w16]
theorem n10n8T_eq (x : Nat) (h : x ≤ 1023) : n10n8T x = some (n10n8 x) := by trap_simp [n10n8T, n10n8, w8, w32]
theorem n10n16T_eq (x : Nat) (h : x ≤ 1023) : n10n16T x = some (n10n16 x) := by
  trap_simp [n10n16T, n10n16, w16, w32]
theorem n10f32T_eq (x : Nat) (h : x ≤ 1023) : n10f32T x = some (n10f32 x) := by trap_simp [n10f32T]
theorem n16n8T_eq (x : Nat) (h : x ≤ 65535) : n16n8T x = some (n16n8 x) := by trap_simp [n16n8T, n16n8, w8, w32]

theorem s8norm_le (x : Nat) : s8norm x ≤ 254 := by unfold s8norm w8; omega
theorem s16norm_le (x : Nat) : s16norm x ≤ 65534 := by unfold s16norm w16; omega

theorem s8n8T_eq (x : Nat) : s8n8T x = some (s8n8 x) := by
  have := s8norm_le x
  trap_simp [s8n8T, s8n8, w8, w16]
theorem s8n16T_eq (x : Nat) : s8n16T x = some (s8n16 x) := by
  have := s8norm_le x
  trap_simp [s8n16T, s8n16, w16, w32]
theorem s16n8T_eq (x : Nat) : s16n8T x = some (s16n8 x) := by
  have := s16norm_le x
  trap_simp [s16n8T, s16n8, w8, w32]
theorem s16n16T_eq (x : Nat) : s16n16T x = some (s16n16 x) := by
  have := s16norm_le x
  trap_simp [s16n16T, s16n16, w16, w32]

theorem xrSubT_eq (x : Nat) (h : x ≤ 1023) : xrSubT x = some ((x : Int) - 384) := by
  unfold xrSubT asI16
  have e : x % 65536 = x := Nat.mod_eq_of_lt (by omega)
  rw [e, if_pos (by omega), ckI16_of_range (by omega)]
theorem xrClamp_le (x : Nat) : xrClamp x ≤ 510 := by unfold xrClamp; omega
theorem xr10n8T_eq (x : Nat) (h : x ≤ 1023) : xr10n8T x = some (xr10n8 x) := by
  have := xrClamp_le x
  unfold xr10n8T
  rw [xrSubT_eq x h, bind_some']
  trap_simp [xr10n8, w8, w16]
theorem xr10n16T_eq (x : Nat) (h : x ≤ 1023) : xr10n16T x = some (xr10n16 x) := by
  have := xrClamp_le x
  unfold xr10n16T
  rw [xrSubT_eq x h, bind_some']
  trap_simp [xr10n16, w16, w32]
theorem xr10f32T_eq (x : Nat) (h : x ≤ 1023) : xr10f32T x = some (xr10f32 x) := by
  unfold xr10f32T
  rw [xrSubT_eq x h, bind_some', pure_some']

/-! ### the model's `unormTo` case by case

`Unc.unormTo` is a 25-way `match`.  `unormTo 5 1 v = n5n16 v` holds by `rfl`, but the kernel's unfolding heuristic
then unfolds `n5n16 v` (through `%` and `>>>` on a term with a 9-digit literal) before the small matcher and does not
come back; so the equations are proved on the matcher with ABSTRACT alternatives and then instantiated. -/

universe u
theorem um_1_0 {motive : Nat → Nat → Sort u} (h1 : Unit → motive 1 0) (h2 : Unit → motive 1 1) (h3 : (x : Nat) → motive 1 x) (h4 : Unit → motive 2 0) (h5 : Unit → motive 2 1) (h6 : (x : Nat) → motive 2 x) (h7 : Unit → motive 4 0) (h8 : Unit → motive 4 1) (h9 : (x : Nat) → motive 4 x) (h10 : Unit → motive 5 0) (h11 : Unit → motive 5 1) (h12 : (x : Nat) → motive 5 x) (h13 : Unit → motive 6 0) (h14 : Unit → motive 6 1) (h15 : (x : Nat) → motive 6 x) (h16 : Unit → motive 8 0) (h17 : Unit → motive 8 1) (h18 : (x : Nat) → motive 8 x) (h19 : Unit → motive 10 0) (h20 : Unit → motive 10 1) (h21 : (x : Nat) → motive 10 x) (h22 : Unit → motive 16 0) (h23 : Unit → motive 16 1) (h24 : (x : Nat) → motive 16 x) (h25 : (x x_1 : Nat) → motive x x_1) :
    unormTo.match_1 motive 1 0 h1 h2 h3 h4 h5 h6 h7 h8 h9 h10 h11 h12 h13 h14 h15 h16 h17 h18 h19 h20 h21 h22 h23 h24 h25 = h1 () := rfl
theorem unormTo_1_0 (v : Nat) : unormTo 1 0 v = n1n8 v := by
  unfold unormTo; rw [um_1_0]
theorem um_1_1 {motive : Nat → Nat → Sort u} (h1 : Unit → motive 1 0) (h2 : Unit → motive 1 1) (h3 : (x : Nat) → motive 1 x) (h4 : Unit → motive 2 0) (h5 : Unit → motive 2 1) (h6 : (x : Nat) → motive 2 x) (h7 : Unit → motive 4 0) (h8 : Unit → motive 4 1) (h9 : (x : Nat) → motive 4 x) (h10 : Unit → motive 5 0) (h11 : Unit → motive 5 1) (h12 : (x : Nat) → motive 5 x) (h13 : Unit → motive 6 0) (h14 : Unit → motive 6 1) (h15 : (x : Nat) → motive 6 x) (h16 : Unit → motive 8 0) (h17 : Unit → motive 8 1) (h18 : (x : Nat) → motive 8 x) (h19 : Unit → motive 10 0) (h20 : Unit → motive 10 1) (h21 : (x : Nat) → motive 10 x) (h22 : Unit → motive 16 0) (h23 : Unit → motive 16 1) (h24 : (x : Nat) → motive 16 x) (h25 : (x x_1 : Nat) → motive x x_1) :
    unormTo.match_1 motive 1 1 h1 h2 h3 h4 h5 h6 h7 h8 h9 h10 h11 h12 h13 h14 h15 h16 h17 h18 h19 h20 h21 h22 h23 h24 h25 = h2 () := rfl
theorem unormTo_1_1 (v : Nat) : unormTo 1 1 v = n1n16 v := by
  unfold unormTo; rw [um_1_1]
theorem um_1_2 {motive : Nat → Nat → Sort u} (n : Nat) (h1 : Unit → motive 1 0) (h2 : Unit → motive 1 1) (h3 : (x : Nat) → motive 1 x) (h4 : Unit → motive 2 0) (h5 : Unit → motive 2 1) (h6 : (x : Nat) → motive 2 x) (h7 : Unit → motive 4 0) (h8 : Unit → motive 4 1) (h9 : (x : Nat) → motive 4 x) (h10 : Unit → motive 5 0) (h11 : Unit → motive 5 1) (h12 : (x : Nat) → motive 5 x) (h13 : Unit → motive 6 0) (h14 : Unit → motive 6 1) (h15 : (x : Nat) → motive 6 x) (h16 : Unit → motive 8 0) (h17 : Unit → motive 8 1) (h18 : (x : Nat) → motive 8 x) (h19 : Unit → motive 10 0) (h20 : Unit → motive 10 1) (h21 : (x : Nat) → motive 10 x) (h22 : Unit → motive 16 0) (h23 : Unit → motive 16 1) (h24 : (x : Nat) → motive 16 x) (h25 : (x x_1 : Nat) → motive x x_1) :
    unormTo.match_1 motive 1 (n + 2) h1 h2 h3 h4 h5 h6 h7 h8 h9 h10 h11 h12 h13 h14 h15 h16 h17 h18 h19 h20 h21 h22 h23 h24 h25 = h3 (n + 2) := rfl
theorem unormTo_1_2 (n v : Nat) : unormTo 1 (n + 2) v = n1f32 v := by
  unfold unormTo; rw [um_1_2 n]
theorem um_2_0 {motive : Nat → Nat → Sort u} (h1 : Unit → motive 1 0) (h2 : Unit → motive 1 1) (h3 : (x : Nat) → motive 1 x) (h4 : Unit → motive 2 0) (h5 : Unit → motive 2 1) (h6 : (x : Nat) → motive 2 x) (h7 : Unit → motive 4 0) (h8 : Unit → motive 4 1) (h9 : (x : Nat) → motive 4 x) (h10 : Unit → motive 5 0) (h11 : Unit → motive 5 1) (h12 : (x : Nat) → motive 5 x) (h13 : Unit → motive 6 0) (h14 : Unit → motive 6 1) (h15 : (x : Nat) → motive 6 x) (h16 : Unit → motive 8 0) (h17 : Unit → motive 8 1) (h18 : (x : Nat) → motive 8 x) (h19 : Unit → motive 10 0) (h20 : Unit → motive 10 1) (h21 : (x : Nat) → motive 10 x) (h22 : Unit → motive 16 0) (h23 : Unit → motive 16 1) (h24 : (x : Nat) → motive 16 x) (h25 : (x x_1 : Nat) → motive x x_1) :
    unormTo.match_1 motive 2 0 h1 h2 h3 h4 h5 h6 h7 h8 h9 h10 h11 h12 h13 h14 h15 h16 h17 h18 h19 h20 h21 h22 h23 h24 h25 = h4 () := rfl
theorem unormTo_2_0 (v : Nat) : unormTo 2 0 v = n2n8 v := by
  unfold unormTo; rw [um_2_0]
theorem um_2_1 {motive : Nat → Nat → Sort u} (h1 : Unit → motive 1 0) (h2 : Unit → motive 1 1) (h3 : (x : Nat) → motive 1 x) (h4 : Unit → motive 2 0) (h5 : Unit → motive 2 1) (h6 : (x : Nat) → motive 2 x) (h7 : Unit → motive 4 0) (h8 : Unit → motive 4 1) (h9 : (x : Nat) → motive 4 x) (h10 : Unit → motive 5 0) (h11 : Unit → motive 5 1) (h12 : (x : Nat) → motive 5 x) (h13 : Unit → motive 6 0) (h14 : Unit → motive 6 1) (h15 : (x : Nat) → motive 6 x) (h16 : Unit → motive 8 0) (h17 : Unit → motive 8 1) (h18 : (x : Nat) → motive 8 x) (h19 : Unit → motive 10 0) (h20 : Unit → motive 10 1) (h21 : (x : Nat) → motive 10 x) (h22 : Unit → motive 16 0) (h23 : Unit → motive 16 1) (h24 : (x : Nat) → motive 16 x) (h25 : (x x_1 : Nat) → motive x x_1) :
    unormTo.match_1 motive 2 1 h1 h2 h3 h4 h5 h6 h7 h8 h9 h10 h11 h12 h13 h14 h15 h16 h17 h18 h19 h20 h21 h22 h23 h24 h25 = h5 () := rfl
theorem unormTo_2_1 (v : Nat) : unormTo 2 1 v = n2n16 v := by
  unfold unormTo; rw [um_2_1]
theorem um_2_2 {motive : Nat → Nat → Sort u} (n : Nat) (h1 : Unit → motive 1 0) (h2 : Unit → motive 1 1) (h3 : (x : Nat) → motive 1 x) (h4 : Unit → motive 2 0) (h5 : Unit → motive 2 1) (h6 : (x : Nat) → motive 2 x) (h7 : Unit → motive 4 0) (h8 : Unit → motive 4 1) (h9 : (x : Nat) → motive 4 x) (h10 : Unit → motive 5 0) (h11 : Unit → motive 5 1) (h12 : (x : Nat) → motive 5 x) (h13 : Unit → motive 6 0) (h14 : Unit → motive 6 1) (h15 : (x : Nat) → motive 6 x) (h16 : Unit → motive 8 0) (h17 : Unit → motive 8 1) (h18 : (x : Nat) → motive 8 x) (h19 : Unit → motive 10 0) (h20 : Unit → motive 10 1) (h21 : (x : Nat) → motive 10 x) (h22 : Unit → motive 16 0) (h23 : Unit → motive 16 1) (h24 : (x : Nat) → motive 16 x) (h25 : (x x_1 : Nat) → motive x x_1) :
    unormTo.match_1 motive 2 (n + 2) h1 h2 h3 h4 h5 h6 h7 h8 h9 h10 h11 h12 h13 h14 h15 h16 h17 h18 h19 h20 h21 h22 h23 h24 h25 = h6 (n + 2) := rfl
theorem unormTo_2_2 (n v : Nat) : unormTo 2 (n + 2) v = n2f32 v := by
  unfold unormTo; rw [um_2_2 n]
theorem um_4_0 {motive : Nat → Nat → Sort u} (h1 : Unit → motive 1 0) (h2 : Unit → motive 1 1) (h3 : (x : Nat) → motive 1 x) (h4 : Unit → motive 2 0) (h5 : Unit → motive 2 1) (h6 : (x : Nat) → motive 2 x) (h7 : Unit → motive 4 0) (h8 : Unit → motive 4 1) (h9 : (x : Nat) → motive 4 x) (h10 : Unit → motive 5 0) (h11 : Unit → motive 5 1) (h12 : (x : Nat) → motive 5 x) (h13 : Unit → motive 6 0) (h14 : Unit → motive 6 1) (h15 : (x : Nat) → motive 6 x) (h16 : Unit → motive 8 0) (h17 : Unit → motive 8 1) (h18 : (x : Nat) → motive 8 x) (h19 : Unit → motive 10 0) (h20 : Unit → motive 10 1) (h21 : (x : Nat) → motive 10 x) (h22 : Unit → motive 16 0) (h23 : Unit → motive 16 1) (h24 : (x : Nat) → motive 16 x) (h25 : (x x_1 : Nat) → motive x x_1) :
    unormTo.match_1 motive 4 0 h1 h2 h3 h4 h5 h6 h7 h8 h9 h10 h11 h12 h13 h14 h15 h16 h17 h18 h19 h20 h21 h22 h23 h24 h25 = h7 () := rfl
theorem unormTo_4_0 (v : Nat) : unormTo 4 0 v = n4n8 v := by
  unfold unormTo; rw [um_4_0]
theorem um_4_1 {motive : Nat → Nat → Sort u} (h1 : Unit → motive 1 0) (h2 : Unit → motive 1 1) (h3 : (x : Nat) → motive 1 x) (h4 : Unit → motive 2 0) (h5 : Unit → motive 2 1) (h6 : (x : Nat) → motive 2 x) (h7 : Unit → motive 4 0) (h8 : Unit → motive 4 1) (h9 : (x : Nat) → motive 4 x) (h10 : Unit → motive 5 0) (h11 : Unit → motive 5 1) (h12 : (x : Nat) → motive 5 x) (h13 : Unit → motive 6 0) (h14 : Unit → motive 6 1) (h15 : (x : Nat) → motive 6 x) (h16 : Unit → motive 8 0) (h17 : Unit → motive 8 1) (h18 : (x : Nat) → motive 8 x) (h19 : Unit → motive 10 0) (h20 : Unit → motive 10 1) (h21 : (x : Nat) → motive 10 x) (h22 : Unit → motive 16 0) (h23 : Unit → motive 16 1) (h24 : (x : Nat) → motive 16 x) (h25 : (x x_1 : Nat) → motive x x_1) :
    unormTo.match_1 motive 4 1 h1 h2 h3 h4 h5 h6 h7 h8 h9 h10 h11 h12 h13 h14 h15 h16 h17 h18 h19 h20 h21 h22 h23 h24 h25 = h8 () := rfl
theorem unormTo_4_1 (v : Nat) : unormTo 4 1 v = n4n16 v := by
  unfold unormTo; rw [um_4_1]
theorem um_4_2 {motive : Nat → Nat → Sort u} (n : Nat) (h1 : Unit → motive 1 0) (h2 : Unit → motive 1 1) (h3 : (x : Nat) → motive 1 x) (h4 : Unit → motive 2 0) (h5 : Unit → motive 2 1) (h6 : (x : Nat) → motive 2 x) (h7 : Unit → motive 4 0) (h8 : Unit → motive 4 1) (h9 : (x : Nat) → motive 4 x) (h10 : Unit → motive 5 0) (h11 : Unit → motive 5 1) (h12 : (x : Nat) → motive 5 x) (h13 : Unit → motive 6 0) (h14 : Unit → motive 6 1) (h15 : (x : Nat) → motive 6 x) (h16 : Unit → motive 8 0) (h17 : Unit → motive 8 1) (h18 : (x : Nat) → motive 8 x) (h19 : Unit → motive 10 0) (h20 : Unit → motive 10 1) (h21 : (x : Nat) → motive 10 x) (h22 : Unit → motive 16 0) (h23 : Unit → motive 16 1) (h24 : (x : Nat) → motive 16 x) (h25 : (x x_1 : Nat) → motive x x_1) :
    unormTo.match_1 motive 4 (n + 2) h1 h2 h3 h4 h5 h6 h7 h8 h9 h10 h11 h12 h13 h14 h15 h16 h17 h18 h19 h20 h21 h22 h23 h24 h25 = h9 (n + 2) := rfl
theorem unormTo_4_2 (n v : Nat) : unormTo 4 (n + 2) v = n4f32 v := by
  unfold unormTo; rw [um_4_2 n]
theorem um_5_0 {motive : Nat → Nat → Sort u} (h1 : Unit → motive 1 0) (h2 : Unit → motive 1 1) (h3 : (x : Nat) → motive 1 x) (h4 : Unit → motive 2 0) (h5 : Unit → motive 2 1) (h6 : (x : Nat) → motive 2 x) (h7 : Unit → motive 4 0) (h8 : Unit → motive 4 1) (h9 : (x : Nat) → motive 4 x) (h10 : Unit → motive 5 0) (h11 : Unit → motive 5 1) (h12 : (x : Nat) → motive 5 x) (h13 : Unit → motive 6 0) (h14 : Unit → motive 6 1) (h15 : (x : Nat) → motive 6 x) (h16 : Unit → motive 8 0) (h17 : Unit → motive 8 1) (h18 : (x : Nat) → motive 8 x) (h19 : Unit → motive 10 0) (h20 : Unit → motive 10 1) (h21 : (x : Nat) → motive 10 x) (h22 : Unit → motive 16 0) (h23 : Unit → motive 16 1) (h24 : (x : Nat) → motive 16 x) (h25 : (x x_1 : Nat) → motive x x_1) :
    unormTo.match_1 motive 5 0 h1 h2 h3 h4 h5 h6 h7 h8 h9 h10 h11 h12 h13 h14 h15 h16 h17 h18 h19 h20 h21 h22 h23 h24 h25 = h10 () := rfl
theorem unormTo_5_0 (v : Nat) : unormTo 5 0 v = n5n8 v := by
  unfold unormTo; rw [um_5_0]
theorem um_5_1 {motive : Nat → Nat → Sort u} (h1 : Unit → motive 1 0) (h2 : Unit → motive 1 1) (h3 : (x : Nat) → motive 1 x) (h4 : Unit → motive 2 0) (h5 : Unit → motive 2 1) (h6 : (x : Nat) → motive 2 x) (h7 : Unit → motive 4 0) (h8 : Unit → motive 4 1) (h9 : (x : Nat) → motive 4 x) (h10 : Unit → motive 5 0) (h11 : Unit → motive 5 1) (h12 : (x : Nat) → motive 5 x) (h13 : Unit → motive 6 0) (h14 : Unit → motive 6 1) (h15 : (x : Nat) → motive 6 x) (h16 : Unit → motive 8 0) (h17 : Unit → motive 8 1) (h18 : (x : Nat) → motive 8 x) (h19 : Unit → motive 10 0) (h20 : Unit → motive 10 1) (h21 : (x : Nat) → motive 10 x) (h22 : Unit → motive 16 0) (h23 : Unit → motive 16 1) (h24 : (x : Nat) → motive 16 x) (h25 : (x x_1 : Nat) → motive x x_1) :
    unormTo.match_1 motive 5 1 h1 h2 h3 h4 h5 h6 h7 h8 h9 h10 h11 h12 h13 h14 h15 h16 h17 h18 h19 h20 h21 h22 h23 h24 h25 = h11 () := rfl
theorem unormTo_5_1 (v : Nat) : unormTo 5 1 v = n5n16 v := by
  unfold unormTo; rw [um_5_1]
theorem um_5_2 {motive : Nat → Nat → Sort u} (n : Nat) (h1 : Unit → motive 1 0) (h2 : Unit → motive 1 1) (h3 : (x : Nat) → motive 1 x) (h4 : Unit → motive 2 0) (h5 : Unit → motive 2 1) (h6 : (x : Nat) → motive 2 x) (h7 : Unit → motive 4 0) (h8 : Unit → motive 4 1) (h9 : (x : Nat) → motive 4 x) (h10 : Unit → motive 5 0) (h11 : Unit → motive 5 1) (h12 : (x : Nat) → motive 5 x) (h13 : Unit → motive 6 0) (h14 : Unit → motive 6 1) (h15 : (x : Nat) → motive 6 x) (h16 : Unit → motive 8 0) (h17 : Unit → motive 8 1) (h18 : (x : Nat) → motive 8 x) (h19 : Unit → motive 10 0) (h20 : Unit → motive 10 1) (h21 : (x : Nat) → motive 10 x) (h22 : Unit → motive 16 0) (h23 : Unit → motive 16 1) (h24 : (x : Nat) → motive 16 x) (h25 : (x x_1 : Nat) → motive x x_1) :
    unormTo.match_1 motive 5 (n + 2) h1 h2 h3 h4 h5 h6 h7 h8 h9 h10 h11 h12 h13 h14 h15 h16 h17 h18 h19 h20 h21 h22 h23 h24 h25 = h12 (n + 2) := rfl
theorem unormTo_5_2 (n v : Nat) : unormTo 5 (n + 2) v = n5f32 v := by
  unfold unormTo; rw [um_5_2 n]
theorem um_6_0 {motive : Nat → Nat → Sort u} (h1 : Unit → motive 1 0) (h2 : Unit → motive 1 1) (h3 : (x : Nat) → motive 1 x) (h4 : Unit → motive 2 0) (h5 : Unit → motive 2 1) (h6 : (x : Nat) → motive 2 x) (h7 : Unit → motive 4 0) (h8 : Unit → motive 4 1) (h9 : (x : Nat) → motive 4 x) (h10 : Unit → motive 5 0) (h11 : Unit → motive 5 1) (h12 : (x : Nat) → motive 5 x) (h13 : Unit → motive 6 0) (h14 : Unit → motive 6 1) (h15 : (x : Nat) → motive 6 x) (h16 : Unit → motive 8 0) (h17 : Unit → motive 8 1) (h18 : (x : Nat) → motive 8 x) (h19 : Unit → motive 10 0) (h20 : Unit → motive 10 1) (h21 : (x : Nat) → motive 10 x) (h22 : Unit → motive 16 0) (h23 : Unit → motive 16 1) (h24 : (x : Nat) → motive 16 x) (h25 : (x x_1 : Nat) → motive x x_1) :
    unormTo.match_1 motive 6 0 h1 h2 h3 h4 h5 h6 h7 h8 h9 h10 h11 h12 h13 h14 h15 h16 h17 h18 h19 h20 h21 h22 h23 h24 h25 = h13 () := rfl
theorem unormTo_6_0 (v : Nat) : unormTo 6 0 v = n6n8 v := by
  unfold unormTo; rw [um_6_0]
theorem um_6_1 {motive : Nat → Nat → Sort u} (h1 : Unit → motive 1 0) (h2 : Unit → motive 1 1) (h3 : (x : Nat) → motive 1 x) (h4 : Unit → motive 2 0) (h5 : Unit → motive 2 1) (h6 : (x : Nat) → motive 2 x) (h7 : Unit → motive 4 0) (h8 : Unit → motive 4 1) (h9 : (x : Nat) → motive 4 x) (h10 : Unit → motive 5 0) (h11 : Unit → motive 5 1) (h12 : (x : Nat) → motive 5 x) (h13 : Unit → motive 6 0) (h14 : Unit → motive 6 1) (h15 : (x : Nat) → motive 6 x) (h16 : Unit → motive 8 0) (h17 : Unit → motive 8 1) (h18 : (x : Nat) → motive 8 x) (h19 : Unit → motive 10 0) (h20 : Unit → motive 10 1) (h21 : (x : Nat) → motive 10 x) (h22 : Unit → motive 16 0) (h23 : Unit → motive 16 1) (h24 : (x : Nat) → motive 16 x) (h25 : (x x_1 : Nat) → motive x x_1) :
    unormTo.match_1 motive 6 1 h1 h2 h3 h4 h5 h6 h7 h8 h9 h10 h11 h12 h13 h14 h15 h16 h17 h18 h19 h20 h21 h22 h23 h24 h25 = h14 () := rfl
theorem unormTo_6_1 (v : Nat) : unormTo 6 1 v = n6n16 v := by
  unfold unormTo; rw [um_6_1]
theorem um_6_2 {motive : Nat → Nat → Sort u} (n : Nat) (h1 : Unit → motive 1 0) (h2 : Unit → motive 1 1) (h3 : (x : Nat) → motive 1 x) (h4 : Unit → motive 2 0) (h5 : Unit → motive 2 1) (h6 : (x : Nat) → motive 2 x) (h7 : Unit → motive 4 0) (h8 : Unit → motive 4 1) (h9 : (x : Nat) → motive 4 x) (h10 : Unit → motive 5 0) (h11 : Unit → motive 5 1) (h12 : (x : Nat) → motive 5 x) (h13 : Unit → motive 6 0) (h14 : Unit → motive 6 1) (h15 : (x : Nat) → motive 6 x) (h16 : Unit → motive 8 0) (h17 : Unit → motive 8 1) (h18 : (x : Nat) → motive 8 x) (h19 : Unit → motive 10 0) (h20 : Unit → motive 10 1) (h21 : (x : Nat) → motive 10 x) (h22 : Unit → motive 16 0) (h23 : Unit → motive 16 1) (h24 : (x : Nat) → motive 16 x) (h25 : (x x_1 : Nat) → motive x x_1) :
    unormTo.match_1 motive 6 (n + 2) h1 h2 h3 h4 h5 h6 h7 h8 h9 h10 h11 h12 h13 h14 h15 h16 h17 h18 h19 h20 h21 h22 h23 h24 h25 = h15 (n + 2) := rfl
theorem unormTo_6_2 (n v : Nat) : unormTo 6 (n + 2) v = n6f32 v := by
  unfold unormTo; rw [um_6_2 n]
theorem um_8_0 {motive : Nat → Nat → Sort u} (h1 : Unit → motive 1 0) (h2 : Unit → motive 1 1) (h3 : (x : Nat) → motive 1 x) (h4 : Unit → motive 2 0) (h5 : Unit → motive 2 1) (h6 : (x : Nat) → motive 2 x) (h7 : Unit → motive 4 0) (h8 : Unit → motive 4 1) (h9 : (x : Nat) → motive 4 x) (h10 : Unit → motive 5 0) (h11 : Unit → motive 5 1) (h12 : (x : Nat) → motive 5 x) (h13 : Unit → motive 6 0) (h14 : Unit → motive 6 1) (h15 : (x : Nat) → motive 6 x) (h16 : Unit → motive 8 0) (h17 : Unit → motive 8 1) (h18 : (x : Nat) → motive 8 x) (h19 : Unit → motive 10 0) (h20 : Unit → motive 10 1) (h21 : (x : Nat) → motive 10 x) (h22 : Unit → motive 16 0) (h23 : Unit → motive 16 1) (h24 : (x : Nat) → motive 16 x) (h25 : (x x_1 : Nat) → motive x x_1) :
    unormTo.match_1 motive 8 0 h1 h2 h3 h4 h5 h6 h7 h8 h9 h10 h11 h12 h13 h14 h15 h16 h17 h18 h19 h20 h21 h22 h23 h24 h25 = h16 () := rfl
theorem unormTo_8_0 (v : Nat) : unormTo 8 0 v = v := by
  unfold unormTo; rw [um_8_0]
theorem um_8_1 {motive : Nat → Nat → Sort u} (h1 : Unit → motive 1 0) (h2 : Unit → motive 1 1) (h3 : (x : Nat) → motive 1 x) (h4 : Unit → motive 2 0) (h5 : Unit → motive 2 1) (h6 : (x : Nat) → motive 2 x) (h7 : Unit → motive 4 0) (h8 : Unit → motive 4 1) (h9 : (x : Nat) → motive 4 x) (h10 : Unit → motive 5 0) (h11 : Unit → motive 5 1) (h12 : (x : Nat) → motive 5 x) (h13 : Unit → motive 6 0) (h14 : Unit → motive 6 1) (h15 : (x : Nat) → motive 6 x) (h16 : Unit → motive 8 0) (h17 : Unit → motive 8 1) (h18 : (x : Nat) → motive 8 x) (h19 : Unit → motive 10 0) (h20 : Unit → motive 10 1) (h21 : (x : Nat) → motive 10 x) (h22 : Unit → motive 16 0) (h23 : Unit → motive 16 1) (h24 : (x : Nat) → motive 16 x) (h25 : (x x_1 : Nat) → motive x x_1) :
    unormTo.match_1 motive 8 1 h1 h2 h3 h4 h5 h6 h7 h8 h9 h10 h11 h12 h13 h14 h15 h16 h17 h18 h19 h20 h21 h22 h23 h24 h25 = h17 () := rfl
theorem unormTo_8_1 (v : Nat) : unormTo 8 1 v = n8n16 v := by
  unfold unormTo; rw [um_8_1]
theorem um_8_2 {motive : Nat → Nat → Sort u} (n : Nat) (h1 : Unit → motive 1 0) (h2 : Unit → motive 1 1) (h3 : (x : Nat) → motive 1 x) (h4 : Unit → motive 2 0) (h5 : Unit → motive 2 1) (h6 : (x : Nat) → motive 2 x) (h7 : Unit → motive 4 0) (h8 : Unit → motive 4 1) (h9 : (x : Nat) → motive 4 x) (h10 : Unit → motive 5 0) (h11 : Unit → motive 5 1) (h12 : (x : Nat) → motive 5 x) (h13 : Unit → motive 6 0) (h14 : Unit → motive 6 1) (h15 : (x : Nat) → motive 6 x) (h16 : Unit → motive 8 0) (h17 : Unit → motive 8 1) (h18 : (x : Nat) → motive 8 x) (h19 : Unit → motive 10 0) (h20 : Unit → motive 10 1) (h21 : (x : Nat) → motive 10 x) (h22 : Unit → motive 16 0) (h23 : Unit → motive 16 1) (h24 : (x : Nat) → motive 16 x) (h25 : (x x_1 : Nat) → motive x x_1) :
    unormTo.match_1 motive 8 (n + 2) h1 h2 h3 h4 h5 h6 h7 h8 h9 h10 h11 h12 h13 h14 h15 h16 h17 h18 h19 h20 h21 h22 h23 h24 h25 = h18 (n + 2) := rfl
theorem unormTo_8_2 (n v : Nat) : unormTo 8 (n + 2) v = n8f32 v := by
  unfold unormTo; rw [um_8_2 n]
theorem um_10_0 {motive : Nat → Nat → Sort u} (h1 : Unit → motive 1 0) (h2 : Unit → motive 1 1) (h3 : (x : Nat) → motive 1 x) (h4 : Unit → motive 2 0) (h5 : Unit → motive 2 1) (h6 : (x : Nat) → motive 2 x) (h7 : Unit → motive 4 0) (h8 : Unit → motive 4 1) (h9 : (x : Nat) → motive 4 x) (h10 : Unit → motive 5 0) (h11 : Unit → motive 5 1) (h12 : (x : Nat) → motive 5 x) (h13 : Unit → motive 6 0) (h14 : Unit → motive 6 1) (h15 : (x : Nat) → motive 6 x) (h16 : Unit → motive 8 0) (h17 : Unit → motive 8 1) (h18 : (x : Nat) → motive 8 x) (h19 : Unit → motive 10 0) (h20 : Unit → motive 10 1) (h21 : (x : Nat) → motive 10 x) (h22 : Unit → motive 16 0) (h23 : Unit → motive 16 1) (h24 : (x : Nat) → motive 16 x) (h25 : (x x_1 : Nat) → motive x x_1) :
    unormTo.match_1 motive 10 0 h1 h2 h3 h4 h5 h6 h7 h8 h9 h10 h11 h12 h13 h14 h15 h16 h17 h18 h19 h20 h21 h22 h23 h24 h25 = h19 () := rfl
theorem unormTo_10_0 (v : Nat) : unormTo 10 0 v = n10n8 v := by
  unfold unormTo; rw [um_10_0]
theorem um_10_1 {motive : Nat → Nat → Sort u} (h1 : Unit → motive 1 0) (h2 : Unit → motive 1 1) (h3 : (x : Nat) → motive 1 x) (h4 : Unit → motive 2 0) (h5 : Unit → motive 2 1) (h6 : (x : Nat) → motive 2 x) (h7 : Unit → motive 4 0) (h8 : Unit → motive 4 1) (h9 : (x : Nat) → motive 4 x) (h10 : Unit → motive 5 0) (h11 : Unit → motive 5 1) (h12 : (x : Nat) → motive 5 x) (h13 : Unit → motive 6 0) (h14 : Unit → motive 6 1) (h15 : (x : Nat) → motive 6 x) (h16 : Unit → motive 8 0) (h17 : Unit → motive 8 1) (h18 : (x : Nat) → motive 8 x) (h19 : Unit → motive 10 0) (h20 : Unit → motive 10 1) (h21 : (x : Nat) → motive 10 x) (h22 : Unit → motive 16 0) (h23 : Unit → motive 16 1) (h24 : (x : Nat) → motive 16 x) (h25 : (x x_1 : Nat) → motive x x_1) :
    unormTo.match_1 motive 10 1 h1 h2 h3 h4 h5 h6 h7 h8 h9 h10 h11 h12 h13 h14 h15 h16 h17 h18 h19 h20 h21 h22 h23 h24 h25 = h20 () := rfl
theorem unormTo_10_1 (v : Nat) : unormTo 10 1 v = n10n16 v := by
  unfold unormTo; rw [um_10_1]
theorem um_10_2 {motive : Nat → Nat → Sort u} (n : Nat) (h1 : Unit → motive 1 0) (h2 : Unit → motive 1 1) (h3 : (x : Nat) → motive 1 x) (h4 : Unit → motive 2 0) (h5 : Unit → motive 2 1) (h6 : (x : Nat) → motive 2 x) (h7 : Unit → motive 4 0) (h8 : Unit → motive 4 1) (h9 : (x : Nat) → motive 4 x) (h10 : Unit → motive 5 0) (h11 : Unit → motive 5 1) (h12 : (x : Nat) → motive 5 x) (h13 : Unit → motive 6 0) (h14 : Unit → motive 6 1) (h15 : (x : Nat) → motive 6 x) (h16 : Unit → motive 8 0) (h17 : Unit → motive 8 1) (h18 : (x : Nat) → motive 8 x) (h19 : Unit → motive 10 0) (h20 : Unit → motive 10 1) (h21 : (x : Nat) → motive 10 x) (h22 : Unit → motive 16 0) (h23 : Unit → motive 16 1) (h24 : (x : Nat) → motive 16 x) (h25 : (x x_1 : Nat) → motive x x_1) :
    unormTo.match_1 motive 10 (n + 2) h1 h2 h3 h4 h5 h6 h7 h8 h9 h10 h11 h12 h13 h14 h15 h16 h17 h18 h19 h20 h21 h22 h23 h24 h25 = h21 (n + 2) := rfl
theorem unormTo_10_2 (n v : Nat) : unormTo 10 (n + 2) v = n10f32 v := by
  unfold unormTo; rw [um_10_2 n]
theorem um_16_0 {motive : Nat → Nat → Sort u} (h1 : Unit → motive 1 0) (h2 : Unit → motive 1 1) (h3 : (x : Nat) → motive 1 x) (h4 : Unit → motive 2 0) (h5 : Unit → motive 2 1) (h6 : (x : Nat) → motive 2 x) (h7 : Unit → motive 4 0) (h8 : Unit → motive 4 1) (h9 : (x : Nat) → motive 4 x) (h10 : Unit → motive 5 0) (h11 : Unit → motive 5 1) (h12 : (x : Nat) → motive 5 x) (h13 : Unit → motive 6 0) (h14 : Unit → motive 6 1) (h15 : (x : Nat) → motive 6 x) (h16 : Unit → motive 8 0) (h17 : Unit → motive 8 1) (h18 : (x : Nat) → motive 8 x) (h19 : Unit → motive 10 0) (h20 : Unit → motive 10 1) (h21 : (x : Nat) → motive 10 x) (h22 : Unit → motive 16 0) (h23 : Unit → motive 16 1) (h24 : (x : Nat) → motive 16 x) (h25 : (x x_1 : Nat) → motive x x_1) :
    unormTo.match_1 motive 16 0 h1 h2 h3 h4 h5 h6 h7 h8 h9 h10 h11 h12 h13 h14 h15 h16 h17 h18 h19 h20 h21 h22 h23 h24 h25 = h22 () := rfl
theorem unormTo_16_0 (v : Nat) : unormTo 16 0 v = n16n8 v := by
  unfold unormTo; rw [um_16_0]
theorem um_16_1 {motive : Nat → Nat → Sort u} (h1 : Unit → motive 1 0) (h2 : Unit → motive 1 1) (h3 : (x : Nat) → motive 1 x) (h4 : Unit → motive 2 0) (h5 : Unit → motive 2 1) (h6 : (x : Nat) → motive 2 x) (h7 : Unit → motive 4 0) (h8 : Unit → motive 4 1) (h9 : (x : Nat) → motive 4 x) (h10 : Unit → motive 5 0) (h11 : Unit → motive 5 1) (h12 : (x : Nat) → motive 5 x) (h13 : Unit → motive 6 0) (h14 : Unit → motive 6 1) (h15 : (x : Nat) → motive 6 x) (h16 : Unit → motive 8 0) (h17 : Unit → motive 8 1) (h18 : (x : Nat) → motive 8 x) (h19 : Unit → motive 10 0) (h20 : Unit → motive 10 1) (h21 : (x : Nat) → motive 10 x) (h22 : Unit → motive 16 0) (h23 : Unit → motive 16 1) (h24 : (x : Nat) → motive 16 x) (h25 : (x x_1 : Nat) → motive x x_1) :
    unormTo.match_1 motive 16 1 h1 h2 h3 h4 h5 h6 h7 h8 h9 h10 h11 h12 h13 h14 h15 h16 h17 h18 h19 h20 h21 h22 h23 h24 h25 = h23 () := rfl
theorem unormTo_16_1 (v : Nat) : unormTo 16 1 v = v := by
  unfold unormTo; rw [um_16_1]
theorem um_16_2 {motive : Nat → Nat → Sort u} (n : Nat) (h1 : Unit → motive 1 0) (h2 : Unit → motive 1 1) (h3 : (x : Nat) → motive 1 x) (h4 : Unit → motive 2 0) (h5 : Unit → motive 2 1) (h6 : (x : Nat) → motive 2 x) (h7 : Unit → motive 4 0) (h8 : Unit → motive 4 1) (h9 : (x : Nat) → motive 4 x) (h10 : Unit → motive 5 0) (h11 : Unit → motive 5 1) (h12 : (x : Nat) → motive 5 x) (h13 : Unit → motive 6 0) (h14 : Unit → motive 6 1) (h15 : (x : Nat) → motive 6 x) (h16 : Unit → motive 8 0) (h17 : Unit → motive 8 1) (h18 : (x : Nat) → motive 8 x) (h19 : Unit → motive 10 0) (h20 : Unit → motive 10 1) (h21 : (x : Nat) → motive 10 x) (h22 : Unit → motive 16 0) (h23 : Unit → motive 16 1) (h24 : (x : Nat) → motive 16 x) (h25 : (x x_1 : Nat) → motive x x_1) :
    unormTo.match_1 motive 16 (n + 2) h1 h2 h3 h4 h5 h6 h7 h8 h9 h10 h11 h12 h13 h14 h15 h16 h17 h18 h19 h20 h21 h22 h23 h24 h25 = h24 (n + 2) := rfl
theorem unormTo_16_2 (n v : Nat) : unormTo 16 (n + 2) v = n16f32 v := by
  unfold unormTo; rw [um_16_2 n]

/-! ### field dispatch -/

theorem unormToT_eq (w prec v : Nat)
    (hw : w = 1 ∨ w = 2 ∨ w = 4 ∨ w = 5 ∨ w = 6 ∨ w = 8 ∨ w = 10 ∨ w = 16) (hv : v < 2 ^ w) :
    unormToT w prec v = some (unormTo w prec v) := by
  rcases hw with rfl | rfl | rfl | rfl | rfl | rfl | rfl | rfl
  · have hv : v < 2 := hv
    have e : unormTo 1 prec v = (if prec = 0 then n1n8 v else if prec = 1 then n1n16 v else n1f32 v) := by
      rcases prec with _ | _ | n
      · exact unormTo_1_0 v
      · exact unormTo_1_1 v
      · rw [unormTo_1_2 n v, if_neg (by omega), if_neg (by omega)]
    simp only [unormToT, e, ↓reduceIte]
    exact n1T_eq prec v (by omega)
  · have hv : v < 4 := hv
    rcases prec with _ | _ | n
    · have e := unormTo_2_0 v
      simp only [unormToT, e, ↓reduceIte, Nat.reduceEqDiff]
      exact n2n8T_eq v (by omega)
    · have e := unormTo_2_1 v
      simp only [unormToT, e, ↓reduceIte, Nat.reduceEqDiff]
      exact n2n16T_eq v (by omega)
    · have e := unormTo_2_2 n v
      simp only [unormToT, e, ↓reduceIte, Nat.reduceEqDiff]
      exact n2f32T_eq v (by omega)
  · have hv : v < 16 := hv
    rcases prec with _ | _ | n
    · have e := unormTo_4_0 v
      simp only [unormToT, e, ↓reduceIte, Nat.reduceEqDiff]
      exact n4n8T_eq v (by omega)
    · have e := unormTo_4_1 v
      simp only [unormToT, e, ↓reduceIte, Nat.reduceEqDiff]
      exact n4n16T_eq v (by omega)
    · have e := unormTo_4_2 n v
      simp only [unormToT, e, ↓reduceIte, Nat.reduceEqDiff]
      exact n4f32T_eq v (by omega)
  · have hv : v < 32 := hv
    rcases prec with _ | _ | n
    · have e := unormTo_5_0 v
      simp only [unormToT, e, ↓reduceIte, Nat.reduceEqDiff]
      exact n5n8T_eq v (by omega)
    · have e := unormTo_5_1 v
      simp only [unormToT, e, ↓reduceIte, Nat.reduceEqDiff]
      exact n5n16T_eq v (by omega)
    · have e := unormTo_5_2 n v
      simp only [unormToT, e, ↓reduceIte, Nat.reduceEqDiff]
      exact n5f32T_eq v (by omega)
  · have hv : v < 64 := hv
    rcases prec with _ | _ | n
    · have e := unormTo_6_0 v
      simp only [unormToT, e, ↓reduceIte, Nat.reduceEqDiff]
      exact n6n8T_eq v (by omega)
    · have e := unormTo_6_1 v
      simp only [unormToT, e, ↓reduceIte, Nat.reduceEqDiff]
      exact n6n16T_eq v (by omega)
    · have e := unormTo_6_2 n v
      simp only [unormToT, e, ↓reduceIte, Nat.reduceEqDiff]
      exact n6f32T_eq v (by omega)
  · have hv : v < 256 := hv
    rcases prec with _ | _ | n
    · have e := unormTo_8_0 v
      simp only [unormToT, e, ↓reduceIte, Nat.reduceEqDiff]
    · have e := unormTo_8_1 v
      simp only [unormToT, e, ↓reduceIte, Nat.reduceEqDiff]
      exact n8n16T_eq v (by omega)
    · have e := unormTo_8_2 n v
      simp only [unormToT, e, ↓reduceIte, Nat.reduceEqDiff]
  · have hv : v < 1024 := hv
    rcases prec with _ | _ | n
    · have e := unormTo_10_0 v
      simp only [unormToT, e, ↓reduceIte, Nat.reduceEqDiff]
      exact n10n8T_eq v (by omega)
    · have e := unormTo_10_1 v
      simp only [unormToT, e, ↓reduceIte, Nat.reduceEqDiff]
      exact n10n16T_eq v (by omega)
    · have e := unormTo_10_2 n v
      simp only [unormToT, e, ↓reduceIte, Nat.reduceEqDiff]
      exact n10f32T_eq v (by omega)
  · have hv : v < 65536 := hv
    rcases prec with _ | _ | n
    · have e := unormTo_16_0 v
      simp only [unormToT, e, ↓reduceIte, Nat.reduceEqDiff]
      exact n16n8T_eq v (by omega)
    · have e := unormTo_16_1 v
      simp only [unormToT, e, ↓reduceIte, Nat.reduceEqDiff]
    · have e := unormTo_16_2 n v
      simp only [unormToT, e, ↓reduceIte, Nat.reduceEqDiff]

theorem smallT_eq (mb : Nat) (signed : Bool) (prec x : Nat) (hmb : mb = 10 ∨ mb = 6 ∨ mb = 5) :
    smallT mb signed prec x =
      some (if prec = 0 then smallN8 mb signed x else if prec = 1 then smallN16 mb signed x else smallF32 mb signed x) := by
  have he : (x >>> mb) % 32 ≤ 31 := by omega
  have t1 : twoPowiT ((x >>> mb) % 32) ((15 + mb : Nat) : Int) = some () :=
    twoPowiT_of (by rcases hmb with rfl | rfl | rfl <;> omega)
  have t2 : twoPowiT 1 ((15 + mb : Nat) : Int) = some () :=
    twoPowiT_of (by rcases hmb with rfl | rfl | rfl <;> omega)
  have hm : x % 2 ^ mb < 64 ∨ mb = 10 := by
    rcases hmb with rfl | rfl | rfl
    · right; rfl
    · left; omega
    · left; omega
  unfold smallT
  by_cases h0 : prec = 0
  · simp only [h0, ↓reduceIte]
    split <;> simp only [t1, bind_some', pure_some']
  · by_cases h1 : prec = 1
    · simp only [h1, ↓reduceIte, Nat.reduceEqDiff]
      rcases hmb with rfl | rfl | rfl
      · simp only [Nat.reduceBEq, ↓reduceIte]
        repeat' split
        all_goals (first | rfl | simp only [t1, bind_some', pure_some'])
      · have h7 : x % 2 ^ 6 + 7 < 65536 := by omega
        simp only [Nat.reduceBEq, ↓reduceIte, Bool.false_eq_true]
        repeat' split
        all_goals (first | rfl | simp only [t1, ck_of_lt h7, bind_some', pure_some'])
      · have h3 : x % 2 ^ 5 + 3 < 65536 := by omega
        simp only [Nat.reduceBEq, ↓reduceIte, Bool.false_eq_true]
        repeat' split
        all_goals (first | rfl | simp only [t1, ck_of_lt h3, bind_some', pure_some'])
    · simp only [h0, h1, ↓reduceIte]
      repeat' split
      all_goals (first | rfl | simp only [t1, t2, bind_some', pure_some'])

/-- which width a field of a kind may have -/
def KindOk (k : Kind) (w : Nat) : Prop :=
  match k with
  | .unorm => w = 1 ∨ w = 2 ∨ w = 4 ∨ w = 5 ∨ w = 6 ∨ w = 8 ∨ w = 10 ∨ w = 16
  | .xr => w ≤ 10
  | _ => True

instance (k : Kind) (w : Nat) : Decidable (KindOk k w) := by
  unfold KindOk; cases k <;> infer_instance

theorem ite3 {α} (prec : Nat) (a b c : α) :
    (if (prec == 0) = true then a else if (prec == 1) = true then b else c) =
      (if prec = 0 then a else if prec = 1 then b else c) := by
  by_cases h0 : prec = 0
  · subst h0; rfl
  · by_cases h1 : prec = 1
    · subst h1; rfl
    · have e0 : (prec == 0) = false := by simpa using h0
      have e1 : (prec == 1) = false := by simpa using h1
      simp only [h0, h1, e0, e1, ↓reduceIte, Bool.false_eq_true]

theorem convFieldT_eq (k : Kind) (w prec v : Nat) (hk : KindOk k w) (hv : v < 2 ^ w) :
    convFieldT k w prec v = some (convField k w prec v) := by
  cases k
  case unorm =>
    have e : convField .unorm w prec v = unormTo w prec v := rfl
    simp only [convFieldT, e, ↓reduceIte]
    exact unormToT_eq w prec v hk hv
  case snorm =>
    have e : convField .snorm w prec v =
        (if w = 8 then (if prec = 0 then s8n8 v else if prec = 1 then s8n16 v else s8f32 v)
         else (if prec = 0 then s16n8 v else if prec = 1 then s16n16 v else s16f32 v)) := by
      unfold convField
      dsimp only
      rw [ite3, ite3]
      by_cases h8 : w = 8
      · subst h8; rfl
      · have e8 : (w == 8) = false := by simpa using h8
        simp only [e8, h8, ↓reduceIte, Bool.false_eq_true]
    simp only [convFieldT, e, ↓reduceIte, reduceCtorEq]
    by_cases h8 : w = 8 <;> by_cases h0 : prec = 0 <;> by_cases h1 : prec = 1 <;>
      simp only [h8, h0, h1, ↓reduceIte, Nat.reduceEqDiff, s8n8T_eq, s8n16T_eq, s16n8T_eq, s16n16T_eq]
  case half =>
    have e : convField .half w prec v =
        (if prec = 0 then smallN8 10 true v else if prec = 1 then smallN16 10 true v else smallF32 10 true v) := by
      unfold convField; dsimp only; rw [ite3]
    simp only [convFieldT, e, ↓reduceIte, reduceCtorEq]
    exact smallT_eq 10 true prec v (by omega)
  case f11 =>
    have e : convField .f11 w prec v =
        (if prec = 0 then smallN8 6 false v else if prec = 1 then smallN16 6 false v else smallF32 6 false v) := by
      unfold convField; dsimp only; rw [ite3]
    simp only [convFieldT, e, ↓reduceIte, reduceCtorEq]
    exact smallT_eq 6 false prec v (by omega)
  case f10 =>
    have e : convField .f10 w prec v =
        (if prec = 0 then smallN8 5 false v else if prec = 1 then smallN16 5 false v else smallF32 5 false v) := by
      unfold convField; dsimp only; rw [ite3]
    simp only [convFieldT, e, ↓reduceIte, reduceCtorEq]
    exact smallT_eq 5 false prec v (by omega)
  case f32 => simp only [convFieldT, ↓reduceIte, reduceCtorEq]
  case xr =>
    have hw : (2 : Nat) ^ w ≤ 2 ^ 10 := Nat.pow_le_pow_right (by decide) hk
    have hx : v ≤ 1023 := by simp only [Nat.reducePow] at hw; omega
    have e : convField .xr w prec v = (if prec = 0 then xr10n8 v else if prec = 1 then xr10n16 v else xr10f32 v) := by
      unfold convField; dsimp only; rw [ite3]
    simp only [convFieldT, e, ↓reduceIte, reduceCtorEq]
    by_cases h0 : prec = 0 <;> by_cases h1 : prec = 1 <;>
      simp only [h0, h1, ↓reduceIte, Nat.reduceEqDiff, xr10n8T_eq v hx, xr10n16T_eq v hx, xr10f32T_eq v hx]
  case mant => simp only [convFieldT, ↓reduceIte, reduceCtorEq]
  case exp => simp only [convFieldT, ↓reduceIte, reduceCtorEq]
  case yuv => simp only [convFieldT, ↓reduceIte, reduceCtorEq]

/-! ### one pixel -/

/-- what the table must satisfy for the trap-freedom of a format: kind/width combinations the conversions are
called with, and a shared exponent field of at most 5 bits -/
def FieldOk (f : Field) : Prop := KindOk f.kind f.width ∧ (f.comp = .E → f.width ≤ 5)

instance (f : Field) : Decidable (FieldOk f) := by unfold FieldOk; infer_instance

theorem fieldVal_lt (word : Nat) (f : Field) : fieldVal word f < 2 ^ f.width :=
  Nat.mod_lt _ (Nat.two_pow_pos _)

theorem findField_mem (fm : Fmt) (c : Comp) (p : Nat) (f : Field) (h : findField fm c p = some f) :
    f ∈ fm.fields ∧ f.comp = c := by
  unfold findField at h
  refine ⟨List.mem_of_find?_eq_some h, ?_⟩
  have := List.find?_some h
  simp only [Bool.and_eq_true, beq_iff_eq] at this
  exact this.1

theorem directT_eq (fm : Fmt) (hok : ∀ f ∈ fm.fields, FieldOk f) (prec word p : Nat) (c : Comp) :
    directT fm prec word p c = some (match findField fm c p with
      | some f => convField f.kind f.width prec (fieldVal word f)
      | none => defaultVal (compDefault fm c) prec) := by
  unfold directT
  cases h : findField fm c p with
  | none => rfl
  | some f =>
    exact convFieldT_eq _ _ _ _ (hok f (findField_mem fm c p f h).1).1 (fieldVal_lt word f)

theorem expField_le (fm : Fmt) (hok : ∀ f ∈ fm.fields, FieldOk f) (word p : Nat) :
    (compOf fm word p .E).getD 0 ≤ 31 := by
  unfold compOf
  cases h : findField fm .E p with
  | none => simp
  | some f =>
    have hm := findField_mem fm .E p f h
    have hw := (hok f hm.1).2 hm.2
    have h1 := fieldVal_lt word f
    have h2 : (2 : Nat) ^ f.width ≤ 2 ^ 5 := Nat.pow_le_pow_right (by decide) hw
    simp only [Option.map_some, Option.getD_some]
    simp only [Nat.reducePow] at h2
    omega

/-- **one pixel of any format whose table row is well-formed** -/
theorem decodePxT_eq (fm : Fmt) (hok : ∀ f ∈ fm.fields, FieldOk f) (prec word p : Nat) :
    decodePxT fm prec word p = some (decodePx fm prec word p) := by
  unfold decodePxT decodePx
  cases hc : fm.color with
  | direct =>
    simp only []
    apply mapT_eq_some
    intro c _
    exact directT_eq fm hok prec word p c
  | yuv bits =>
    simp only []
    by_cases hn : (fm.native == Channels.rgba) = true
    · simp only [hn, ↓reduceIte, directT_eq fm hok prec word p .A, bind_some', pure_some']
      rfl
    · simp only [hn, ↓reduceIte, bind_some', pure_some', Bool.false_eq_true]
  | sharedExp =>
    simp only []
    have he := expField_le fm hok word p
    rw [twoPowiT_of (by omega), bind_some', pure_some']

/-- every row of C04's format table is well-formed in the sense needed here -/
theorem formats_ok : ∀ fm ∈ formats, ∀ f ∈ fm.fields, FieldOk f := by decide +kernel

theorem formats_len : formats.length = 45 := by decide +kernel

/-! ### units of sub-sampled / bi-planar formats -/

theorem r1BitsT_eq (bits : Nat) :
    r1BitsT bits = some ((List.range 8).map fun i => (bits >>> (7 - i)) &&& 1) := by
  unfold r1BitsT
  apply mapT_eq_some
  intro i hi
  have hi : i < 8 := List.mem_range.mp hi
  rw [subU_of_le (by omega), bind_some', shr_of_lt (by omega), bind_some', dbgP_of hi, bind_some', pure_some']

theorem unitT_eq (fm : Fmt) (hok : ∀ f ∈ fm.fields, FieldOk f) (prec word : Nat) :
    unitT fm prec word = some ((List.range fm.pxPerUnit).map (decodePx fm prec word)) := by
  unfold unitT
  have h2 : mapT (decodePxT fm prec word) (List.range fm.pxPerUnit) =
      some ((List.range fm.pxPerUnit).map (decodePx fm prec word)) :=
    mapT_eq_some _ _ _ (fun p _ => decodePxT_eq fm hok prec word p)
  by_cases h8 : fm.pxPerUnit = 8
  · simp only [if_pos h8, r1BitsT_eq, bind_some', pure_some', h2]
  · simp only [if_neg h8, pure_some', h2]

/-! ### `convert_channels` -/

theorem fromBytesT_of {len chunk : Nat} (h : chunk ≠ 0 ∧ len % chunk = 0) : fromBytesT len chunk = some (len / chunk) :=
  if_pos h

theorem convertChannelsT_eq (src dst : Channels) (size n : Nat) (hs : size = 1 ∨ size = 2 ∨ size = 4) :
    convertChannelsT src dst size (n * (size * chanCount src)) (n * (size * chanCount dst)) = some () := by
  rcases hs with rfl | rfl | rfl <;> cases src <;> cases dst <;>
    simp (disch := omega) only [convertChannelsT, fromBytesT_of, chanCount, dbgP_of, dbgP_true, div_of_ne, bind_some', pure_some',
      reduceCtorEq, and_true, and_false, or_false, or_true, and_self, or_self, ↓reduceIte,
      Nat.reduceMul, Nat.mul_one, Nat.mul_mod_left, Nat.mul_div_cancel]

/-! ### pixel-loop wrappers -/

theorem processPixelsT_eq (a b n : Nat) (ha : 0 < a) (hb : 0 < b) : processPixelsT a b (n * a) (n * b) = some n := by
  unfold processPixelsT
  rw [fromBytesT_of ⟨by omega, Nat.mul_mod_left ..⟩, bind_some', fromBytesT_of ⟨by omega, Nat.mul_mod_left ..⟩,
    bind_some', pure_some', Nat.mul_div_cancel _ ha, Nat.mul_div_cancel _ hb, Nat.min_self]

/-- the two instantiations in `uncompressed.rs`: `F16_TO_U16` (`u16 → u16`) and `F16_TO_F32` (`u16 → f32`), `UNROLL = 4` -/
theorem processPixelsUnrollT_eq (b n : Nat) (hb : b = 2 ∨ b = 4) (hn : n < 2 ^ 60) :
    processPixelsUnrollT 4 2 b (n * 2) (n * b) = some () := by
  have e1 : n * 2 / 2 = n := Nat.mul_div_cancel _ (by decide)
  have hq : n / 4 * 4 ≤ n := Nat.div_mul_le_self n 4
  simp only [Nat.reducePow] at hn
  rcases hb with rfl | rfl
  · have p := processPixelsT_eq (4 * 2) (4 * 2) (n / 4) (by decide) (by decide)
    have r1 : n * 2 - n / 4 * (4 * 2) = (n % 4) * 2 := by omega
    simp (disch := omega) only [processPixelsUnrollT, e1, ck_of_lt, dbgP_of, dbgP_true, bind_some', p, r1,
      fromBytesT_of, Nat.mul_div_cancel]
  · have p := processPixelsT_eq (4 * 2) (4 * 4) (n / 4) (by decide) (by decide)
    have r1 : n * 2 - n / 4 * (4 * 2) = (n % 4) * 2 := by omega
    have r2 : n * 4 - n / 4 * (4 * 4) = (n % 4) * 4 := by omega
    simp (disch := omega) only [processPixelsUnrollT, e1, ck_of_lt, dbgP_of, dbgP_true, bind_some', p, r1, r2,
      fromBytesT_of, Nat.mul_div_cancel]

theorem bgraSwapT_eq (n : Nat) : bgraSwapT (4 * n) = some () := by
  unfold bgraSwapT
  rw [mapT_eq_some _ (fun _ => ()) _ (fun k hk => by
    have hk : k < (4 * n + 3) / 4 := List.mem_range.mp hk
    exact dbgP_of (by omega)), bind_some', pure_some']

end Dds.TrapUnc
