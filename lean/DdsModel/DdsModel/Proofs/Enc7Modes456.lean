/-
C13 / BC7 writer, T1 for the one-subset modes 4, 5, 6: the proved decoder applied to the written block returns, per pixel,
the encoder's own palette entry of the encoder's own (un-normalised) index — the anchor fix-up (swap endpoints / p-bits,
invert the list) is invisible after decoding.
-/
import DdsModel.Proofs.Enc7Palette
set_option linter.unusedSimpArgs false
namespace Dds.Enc7
open Dds Dds.BcTables

/-! ### small facts about `swap(0, 1)` -/

theorem ep_swapPair0 (sw : Bool) (a b : List Nat) (l : List (List Nat)) :
    ep (swapPair sw a b ++ l) 0 = if sw then b else a := by cases sw <;> rfl
theorem ep_swapPair1 (sw : Bool) (a b : List Nat) (l : List (List Nat)) :
    ep (swapPair sw a b ++ l) 1 = if sw then a else b := by cases sw <;> rfl
theorem ep_swapPair_succ (sw : Bool) (a b : List Nat) (l : List (List Nat)) (k : Nat) :
    ep (swapPair sw a b ++ l) (k + 2) = ep l k := by cases sw <;> rfl
theorem px_swapPair0 (sw : Bool) (a b : Nat) (l : List Nat) :
    px (swapPair sw a b ++ l) 0 = if sw then b else a := by cases sw <;> rfl
theorem px_swapPair1 (sw : Bool) (a b : Nat) (l : List Nat) :
    px (swapPair sw a b ++ l) 1 = if sw then a else b := by cases sw <;> rfl
theorem px_swapPair_succ (sw : Bool) (a b : Nat) (l : List Nat) (k : Nat) :
    px (swapPair sw a b ++ l) (k + 2) = px l k := by cases sw <;> rfl

theorem ep_swapPair0' (sw : Bool) (a b : List Nat) : ep (swapPair sw a b) 0 = if sw then b else a := by cases sw <;> rfl
theorem ep_swapPair1' (sw : Bool) (a b : List Nat) : ep (swapPair sw a b) 1 = if sw then a else b := by cases sw <;> rfl
theorem px_swapPair0' (sw : Bool) (a b : Nat) : px (swapPair sw a b) 0 = if sw then b else a := by cases sw <;> rfl
theorem px_swapPair1' (sw : Bool) (a b : Nat) : px (swapPair sw a b) 1 = if sw then a else b := by cases sw <;> rfl

theorem lt2_cases {P : Nat → Prop} (h0 : P 0) (h1 : P 1) : ∀ e, e < 2 → P e := by
  intro e he
  have : e = 0 ∨ e = 1 := by omega
  rcases this with h | h <;> subst h <;> assumption

theorem px4e (a0 a1 a2 a3 : Nat) :
    px [a0, a1, a2, a3] 0 = a0 ∧ px [a0, a1, a2, a3] 1 = a1 ∧ px [a0, a1, a2, a3] 2 = a2 ∧ px [a0, a1, a2, a3] 3 = a3 :=
  ⟨rfl, rfl, rfl, rfl⟩
theorem px3e (a0 a1 a2 : Nat) : px [a0, a1, a2] 0 = a0 ∧ px [a0, a1, a2] 1 = a1 ∧ px [a0, a1, a2] 2 = a2 := ⟨rfl, rfl, rfl⟩

theorem bep_map_range (f : Nat → List Nat) (n i : Nat) (h : i < n) : Bc7.ep ((List.range n).map f) i = f i := by
  simp [Bc7.ep, List.getD_eq_getElem?_getD, h]

/-! ### the decoder's endpoint readers on written endpoints -/

theorem eps6_w (E : List (List Nat)) (P : List Nat) (rest : List (Nat × Nat))
    (hE : ∀ e, e < 2 → ∀ c, c < 4 → px (ep E e) c < 2 ^ 7) (hP : ∀ k, k < 2 → px P k < 2) :
    Bc7.getEndPoints2 6 (fv (writeEndpointsRgba 7 2 E ++ (writeEndpointsP 2 P ++ rest))) =
      ((List.range 2).map (fun i => [Bc7.withP (px (ep E i) 0) (px P i), Bc7.withP (px (ep E i) 1) (px P i),
        Bc7.withP (px (ep E i) 2) (px P i), Bc7.withP (px (ep E i) 3) (px P i)]), fv rest) := by
  simp only [Bc7.getEndPoints2, Nat.reduceEqDiff, if_false, writeEndpointsRgba, List.append_assoc]
  rw [consumeN_chan 7 2 E 0 _ (by decide) (by decide) (fun e he => hE e he 0 (by decide))]
  simp only []
  rw [consumeN_chan 7 2 E 1 _ (by decide) (by decide) (fun e he => hE e he 1 (by decide))]
  simp only []
  rw [consumeN_chan 7 2 E 2 _ (by decide) (by decide) (fun e he => hE e he 2 (by decide))]
  simp only []
  rw [consumeN_chan 7 2 E 3 _ (by decide) (by decide) (fun e he => hE e he 3 (by decide))]
  simp only [writeEndpointsP, Bc7.range2, List.map, List.cons_append, List.nil_append]
  rw [consumeBit_fv _ _ (hP 0 (by decide))]
  simp only []
  rw [consumeBit_fv _ _ (hP 1 (by decide))]
  rfl

theorem lerp_sym2 (e0 e1 k : Nat) (hk : k < 2 ^ 2) :
    Bc7.lerp e1 e0 (Bc7.WEIGHTS_2.getD (2 ^ 2 - 1 - k) 0) = Bc7.lerp e0 e1 (Bc7.WEIGHTS_2.getD k 0) :=
  lerp_sym 2 e0 e1 k (by decide) hk
theorem lerp_sym3 (e0 e1 k : Nat) (hk : k < 2 ^ 3) :
    Bc7.lerp e1 e0 (Bc7.WEIGHTS_3.getD (2 ^ 3 - 1 - k) 0) = Bc7.lerp e0 e1 (Bc7.WEIGHTS_3.getD k 0) :=
  lerp_sym 3 e0 e1 k (by decide) hk
theorem lerp_sym4 (e0 e1 k : Nat) (hk : k < 2 ^ 4) :
    Bc7.lerp e1 e0 (Bc7.WEIGHTS_4.getD (2 ^ 4 - 1 - k) 0) = Bc7.lerp e0 e1 (Bc7.WEIGHTS_4.getD k 0) :=
  lerp_sym 4 e0 e1 k (by decide) hk

theorem interpolate2 (e0 e1 k : Nat) : interpolate 2 e0 e1 k = Bc7.lerp e0 e1 (Bc7.WEIGHTS_2.getD k 0) :=
  interpolate_eq_lerp 2 e0 e1 k
theorem interpolate3 (e0 e1 k : Nat) : interpolate 3 e0 e1 k = Bc7.lerp e0 e1 (Bc7.WEIGHTS_3.getD k 0) :=
  interpolate_eq_lerp 3 e0 e1 k
theorem interpolate4 (e0 e1 k : Nat) : interpolate 4 e0 e1 k = Bc7.lerp e0 e1 (Bc7.WEIGHTS_4.getD k 0) :=
  interpolate_eq_lerp 4 e0 e1 k

theorem pair_range {P : List Nat → Prop} (a b : List Nat) (sw : Bool)
    (ha : P a) (hb : P b) : ∀ e, e < 2 → P (ep (swapPair sw a b) e) := by
  apply lt2_cases
  · rw [ep_swapPair0']; split <;> assumption
  · rw [ep_swapPair1']; split <;> assumption

theorem pair_range_px {P : Nat → Prop} (a b : Nat) (sw : Bool)
    (ha : P a) (hb : P b) : ∀ e, e < 2 → P (px (swapPair sw a b) e) := by
  apply lt2_cases
  · rw [px_swapPair0']; split <;> assumption
  · rw [px_swapPair1']; split <;> assumption

theorem mode6_roundtrip (rgba : List (List Nat)) (p : List Nat) (x : Nat)
    (hE : ∀ e, e < 2 → ∀ c, c < 4 → px (ep rgba e) c < 2 ^ 7) (hP : ∀ k, k < 2 → px p k < 2) (hx : x < 2 ^ 64) :
    Bc7.decodeBlock (mode6 rgba p x) = (List.range 16).map fun i =>
      interpolateRgba 4 (pPromoteRgba 7 (ep rgba 0) (px p 0)) (pPromoteRgba 7 (ep rgba 1) (px p 1)) (get 4 x i) := by
  obtain ⟨hc, hbits, hnew, hget⟩ := compressP1_spec 4 x [] (by decide) hx
  unfold mode6
  simp only []
  generalize compressP1 4 x = ci at *
  have hE' : ∀ e, e < 2 → ∀ c, c < 4 → px (ep (swapPair ci.2 (ep rgba 0) (ep rgba 1)) e) c < 2 ^ 7 :=
    pair_range (P := fun l => ∀ c, c < 4 → px l c < 2 ^ 7) _ _ _ (hE 0 (by decide)) (hE 1 (by decide))
  have hP' : ∀ k, k < 2 → px (swapPair ci.2 (px p 0) (px p 1)) k < 2 :=
    pair_range_px (P := fun v => v < 2) _ _ _ (hP 0 (by decide)) (hP 1 (by decide))
  have hok : FieldsOK (writeMode 6 ++ writeEndpointsRgba 7 2 (swapPair ci.2 (ep rgba 0) (ep rgba 1)) ++
      writeEndpointsP 2 (swapPair ci.2 (px p 0) (px p 1)) ++ writeIndexes ci.1) := by
    simp only [fieldsOK_append, writeEndpointsRgba, writeIndexes]
    exact ⟨⟨⟨fieldsOK_mode 6 (by decide), ⟨⟨⟨fieldsOK_chan 7 2 _ 0 (by decide) (fun e he => hE' e he 0 (by decide)),
      fieldsOK_chan 7 2 _ 1 (by decide) (fun e he => hE' e he 1 (by decide))⟩,
      fieldsOK_chan 7 2 _ 2 (by decide) (fun e he => hE' e he 2 (by decide))⟩,
      fieldsOK_chan 7 2 _ 3 (by decide) (fun e he => hE' e he 3 (by decide))⟩⟩, fieldsOK_p 2 _ hP'⟩,
      fieldsOK_one _ _ (by rw [hbits]; exact hc) (by rw [hbits]; decide)⟩
  have hw : width (writeMode 6 ++ writeEndpointsRgba 7 2 (swapPair ci.2 (ep rgba 0) (ep rgba 1)) ++
      writeEndpointsP 2 (swapPair ci.2 (px p 0) (px p 1)) ++ writeIndexes ci.1) ≤ 128 := by
    simp only [width_append, writeEndpointsRgba, width_chan, width_p, writeMode, writeIndexes, width, hbits]
    decide
  rw [finish_writeAll _ hok hw]
  simp only [List.append_assoc, Bc7.decodeBlock]
  rw [extractMode_fv 6 _ (by decide)]
  simp only [Nat.reduceEqDiff, if_false, if_true, Bc7.mode6]
  rw [eps6_w _ _ _ hE' hP']
  simp only [writeIndexes]
  rw [hnew]
  apply Bc7.map_range16_congr
  intro i hi
  have hk := get_lt 4 x i (by decide)
  simp only [getIndex_eq_get 4 _ i (by decide), hget i hi, bep_map_range _ 2 0 (by decide),
    bep_map_range _ 2 1 (by decide), Bc7.interpolateColorsAlpha, Bc7.px4, ep_swapPair0', ep_swapPair1',
    px_swapPair0', px_swapPair1', interpolateRgba, pPromoteRgba, pPromoteCh7, interpolate4, px4e]
  generalize get 4 x i = k at hk ⊢
  cases ci.2
  · simp only [Bool.false_eq_true, if_false]
  · simp only [if_true, lerp_sym4 _ _ k hk]

/-! ### modes 5 and 4: separate colour / alpha index lists, rotation -/

theorem eps5_w (E : List (List Nat)) (A : List Nat) (rest : List (Nat × Nat))
    (hE : ∀ e, e < 2 → ∀ c, c < 3 → px (ep E e) c < 2 ^ 7) (hA : ∀ k, k < 2 → px A k < 2 ^ 8) :
    Bc7.getEndPoints2 5 (fv (writeEndpointsRgb 7 2 E ++ (writeEndpointsAlpha 8 2 A ++ rest))) =
      ((List.range 2).map (fun i => [Bc7.promote (px (ep E i) 0) 7, Bc7.promote (px (ep E i) 1) 7,
        Bc7.promote (px (ep E i) 2) 7, px A i]), fv rest) := by
  simp only [Bc7.getEndPoints2, Nat.reduceEqDiff, if_false, if_true, writeEndpointsRgb, List.append_assoc]
  rw [consumeN_chan 7 2 E 0 _ (by decide) (by decide) (fun e he => hE e he 0 (by decide))]
  simp only []
  rw [consumeN_chan 7 2 E 1 _ (by decide) (by decide) (fun e he => hE e he 1 (by decide))]
  simp only []
  rw [consumeN_chan 7 2 E 2 _ (by decide) (by decide) (fun e he => hE e he 2 (by decide))]
  simp only []
  rw [consumeN_alpha 8 2 A _ (by decide) (by decide) hA]
  rfl

theorem eps4_w (E : List (List Nat)) (A : List Nat) (rest : List (Nat × Nat))
    (hE : ∀ e, e < 2 → ∀ c, c < 3 → px (ep E e) c < 2 ^ 5) (hA : ∀ k, k < 2 → px A k < 2 ^ 6) :
    Bc7.getEndPoints2 4 (fv (writeEndpointsRgb 5 2 E ++ (writeEndpointsAlpha 6 2 A ++ rest))) =
      ((List.range 2).map (fun i => [Bc7.promote (px (ep E i) 0) 5, Bc7.promote (px (ep E i) 1) 5,
        Bc7.promote (px (ep E i) 2) 5, Bc7.promote (px A i) 6]), fv rest) := by
  simp only [Bc7.getEndPoints2, Nat.reduceEqDiff, if_false, if_true, writeEndpointsRgb, List.append_assoc]
  rw [consumeN_chan 5 2 E 0 _ (by decide) (by decide) (fun e he => hE e he 0 (by decide))]
  simp only []
  rw [consumeN_chan 5 2 E 1 _ (by decide) (by decide) (fun e he => hE e he 1 (by decide))]
  simp only []
  rw [consumeN_chan 5 2 E 2 _ (by decide) (by decide) (fun e he => hE e he 2 (by decide))]
  simp only []
  rw [consumeN_alpha 6 2 A _ (by decide) (by decide) hA]
  rfl

theorem rot_eq (rot a0 a1 a2 a3 : Nat) : Bc7.swapChannels [a0, a1, a2, a3] rot = rotApply rot [a0, a1, a2, a3] := by
  simp only [Bc7.swapChannels, rotApply, Bc7.px4, px4e]

theorem mode5_roundtrip (rot : Nat) (color : List (List Nat)) (x : Nat) (alpha : List Nat) (x2 : Nat)
    (hr : rot < 4) (hE : ∀ e, e < 2 → ∀ c, c < 3 → px (ep color e) c < 2 ^ 7) (hA : ∀ k, k < 2 → px alpha k < 2 ^ 8)
    (hx : x < 2 ^ 32) (hx2 : x2 < 2 ^ 32) :
    Bc7.decodeBlock (mode5 rot color x alpha x2) = (List.range 16).map fun i =>
      rotApply rot (interpolateRgb 2 (promoteRgb 7 (ep color 0)) (promoteRgb 7 (ep color 1)) (get 2 x i) ++
        [interpolateAlpha 2 (promoteCh 8 (px alpha 0)) (promoteCh 8 (px alpha 1)) (get 2 x2 i)]) := by
  unfold mode5
  simp only []
  obtain ⟨hc, hbits, hnew, hget⟩ := compressP1_spec 2 x [(compressP1 2 x2).1] (by decide) hx
  obtain ⟨hc2, hbits2, hnew2, hget2⟩ := compressP1_spec 2 x2 [] (by decide) hx2
  generalize compressP1 2 x = ci at *
  generalize compressP1 2 x2 = ai at *
  have hE' : ∀ e, e < 2 → ∀ c, c < 3 → px (ep (swapPair ci.2 (ep color 0) (ep color 1)) e) c < 2 ^ 7 :=
    pair_range (P := fun l => ∀ c, c < 3 → px l c < 2 ^ 7) _ _ _ (hE 0 (by decide)) (hE 1 (by decide))
  have hA' : ∀ k, k < 2 → px (swapPair ai.2 (px alpha 0) (px alpha 1)) k < 2 ^ 8 :=
    pair_range_px (P := fun v => v < 2 ^ 8) _ _ _ (hA 0 (by decide)) (hA 1 (by decide))
  have hok : FieldsOK (writeMode 5 ++ writeRotation rot ++ writeEndpointsRgb 7 2 (swapPair ci.2 (ep color 0) (ep color 1)) ++
      writeEndpointsAlpha 8 2 (swapPair ai.2 (px alpha 0) (px alpha 1)) ++ writeIndexes ci.1 ++ writeIndexes ai.1) := by
    simp only [fieldsOK_append, writeEndpointsRgb, writeIndexes, writeRotation]
    exact ⟨⟨⟨⟨⟨fieldsOK_mode 5 (by decide), fieldsOK_one rot 2 (by omega) (by decide)⟩,
      ⟨⟨fieldsOK_chan 7 2 _ 0 (by decide) (fun e he => hE' e he 0 (by decide)),
      fieldsOK_chan 7 2 _ 1 (by decide) (fun e he => hE' e he 1 (by decide))⟩,
      fieldsOK_chan 7 2 _ 2 (by decide) (fun e he => hE' e he 2 (by decide))⟩⟩, fieldsOK_alpha 8 2 _ (by decide) hA'⟩,
      fieldsOK_one _ _ (by rw [hbits]; exact hc) (by rw [hbits]; decide)⟩,
      fieldsOK_one _ _ (by rw [hbits2]; exact hc2) (by rw [hbits2]; decide)⟩
  have hw : width (writeMode 5 ++ writeRotation rot ++ writeEndpointsRgb 7 2 (swapPair ci.2 (ep color 0) (ep color 1)) ++
      writeEndpointsAlpha 8 2 (swapPair ai.2 (px alpha 0) (px alpha 1)) ++ writeIndexes ci.1 ++ writeIndexes ai.1) ≤ 128 := by
    simp only [width_append, writeEndpointsRgb, width_chan, width_alpha, writeMode, writeRotation, writeIndexes, width,
      hbits, hbits2]
    decide
  rw [finish_writeAll _ hok hw]
  simp only [List.append_assoc, Bc7.decodeBlock]
  rw [extractMode_fv 5 _ (by decide)]
  simp only [Nat.reduceEqDiff, if_false, if_true, Bc7.mode5, writeRotation, List.cons_append, List.nil_append]
  rw [consumeBits_fv 2 rot _ (by decide) (by decide) (by omega)]
  simp only []
  rw [eps5_w _ _ _ hE' hA']
  simp only [writeIndexes, List.cons_append, List.nil_append]
  rw [hnew]
  simp only []
  rw [hnew2]
  apply Bc7.map_range16_congr
  intro i hi
  have hk := get_lt 2 x i (by decide)
  have hk2 := get_lt 2 x2 i (by decide)
  simp only [getIndex_eq_get 2 _ i (by decide), hget i hi, hget2 i hi, bep_map_range _ 2 0 (by decide),
    bep_map_range _ 2 1 (by decide), Bc7.interpolateColorsAlpha, Bc7.px4, ep_swapPair0', ep_swapPair1',
    px_swapPair0', px_swapPair1', interpolateRgb, interpolateAlpha, promoteRgb, promoteCh8,
    promoteCh_ne8 7 _ (by decide), interpolate2, px3e, List.cons_append, List.nil_append, rot_eq]
  generalize get 2 x i = k at hk ⊢
  generalize get 2 x2 i = k2 at hk2 ⊢
  cases ci.2 <;> cases ai.2 <;>
    simp only [Bool.false_eq_true, if_false, if_true, lerp_sym2 _ _ k hk, lerp_sym2 _ _ k2 hk2]

theorem rotsel : ∀ rot, rot < 4 → ∀ im, im < 2 → (rot + 2 ^ 2 * im) < 2 ^ 3 ∧ (rot + 2 ^ 2 * im) &&& 3 = rot ∧
    (((rot + 2 ^ 2 * im) &&& 4 ≠ 0) ↔ im = 1) := by decide

theorem fv_merge21 (a b : Nat) (fs : List (Nat × Nat)) : fv ((a, 2) :: (b, 1) :: fs) = fv ((a + 2 ^ 2 * b, 3) :: fs) := by
  simp only [fv]
  generalize fv fs = r
  omega

theorem mode4_roundtrip (rot im : Nat) (color : List (List Nat)) (x : Nat) (alpha : List Nat) (x2 : Nat)
    (hr : rot < 4) (him : im < 2) (hE : ∀ e, e < 2 → ∀ c, c < 3 → px (ep color e) c < 2 ^ 5)
    (hA : ∀ k, k < 2 → px alpha k < 2 ^ 6) (hx : x < 2 ^ 32) (hx2 : x2 < 2 ^ 48) :
    Bc7.decodeBlock (mode4 rot im color x alpha x2) = (List.range 16).map fun i =>
      if im = 1 then
        rotApply rot (interpolateRgb 3 (promoteRgb 5 (ep color 0)) (promoteRgb 5 (ep color 1)) (get 3 x2 i) ++
          [interpolateAlpha 2 (promoteCh 6 (px alpha 0)) (promoteCh 6 (px alpha 1)) (get 2 x i)])
      else
        rotApply rot (interpolateRgb 2 (promoteRgb 5 (ep color 0)) (promoteRgb 5 (ep color 1)) (get 2 x i) ++
          [interpolateAlpha 3 (promoteCh 6 (px alpha 0)) (promoteCh 6 (px alpha 1)) (get 3 x2 i)]) := by
  unfold mode4
  simp only []
  obtain ⟨hc, hbits, hnew, hget⟩ := compressP1_spec 2 x [(compressP1 3 x2).1] (by decide) hx
  obtain ⟨hc2, hbits2, hnew2, hget2⟩ := compressP1_spec 3 x2 [] (by decide) hx2
  generalize compressP1 2 x = ci at *
  generalize compressP1 3 x2 = ai at *
  generalize hsc : (ci.2 && !(im == 1) || ai.2 && (im == 1)) = sc
  generalize hsa : (ai.2 && !(im == 1) || ci.2 && (im == 1)) = sa
  have hE' : ∀ e, e < 2 → ∀ c, c < 3 → px (ep (swapPair sc (ep color 0) (ep color 1)) e) c < 2 ^ 5 :=
    pair_range (P := fun l => ∀ c, c < 3 → px l c < 2 ^ 5) _ _ _ (hE 0 (by decide)) (hE 1 (by decide))
  have hA' : ∀ k, k < 2 → px (swapPair sa (px alpha 0) (px alpha 1)) k < 2 ^ 6 :=
    pair_range_px (P := fun v => v < 2 ^ 6) _ _ _ (hA 0 (by decide)) (hA 1 (by decide))
  have hok : FieldsOK (writeMode 4 ++ writeRotation rot ++ [(im, 1)] ++
      writeEndpointsRgb 5 2 (swapPair sc (ep color 0) (ep color 1)) ++
      writeEndpointsAlpha 6 2 (swapPair sa (px alpha 0) (px alpha 1)) ++ writeIndexes ci.1 ++ writeIndexes ai.1) := by
    simp only [fieldsOK_append, writeEndpointsRgb, writeIndexes, writeRotation]
    exact ⟨⟨⟨⟨⟨⟨fieldsOK_mode 4 (by decide), fieldsOK_one rot 2 (by omega) (by decide)⟩,
      fieldsOK_one im 1 (by omega) (by decide)⟩,
      ⟨⟨fieldsOK_chan 5 2 _ 0 (by decide) (fun e he => hE' e he 0 (by decide)),
      fieldsOK_chan 5 2 _ 1 (by decide) (fun e he => hE' e he 1 (by decide))⟩,
      fieldsOK_chan 5 2 _ 2 (by decide) (fun e he => hE' e he 2 (by decide))⟩⟩, fieldsOK_alpha 6 2 _ (by decide) hA'⟩,
      fieldsOK_one _ _ (by rw [hbits]; exact hc) (by rw [hbits]; decide)⟩,
      fieldsOK_one _ _ (by rw [hbits2]; exact hc2) (by rw [hbits2]; decide)⟩
  have hw : width (writeMode 4 ++ writeRotation rot ++ [(im, 1)] ++
      writeEndpointsRgb 5 2 (swapPair sc (ep color 0) (ep color 1)) ++
      writeEndpointsAlpha 6 2 (swapPair sa (px alpha 0) (px alpha 1)) ++ writeIndexes ci.1 ++ writeIndexes ai.1) ≤ 128 := by
    simp only [width_append, writeEndpointsRgb, width_chan, width_alpha, writeMode, writeRotation, writeIndexes, width,
      hbits, hbits2]
    decide
  rw [finish_writeAll _ hok hw]
  simp only [List.append_assoc, Bc7.decodeBlock]
  rw [extractMode_fv 4 _ (by decide)]
  obtain ⟨hri, hrot, hsel⟩ := rotsel rot hr im him
  simp only [Nat.reduceEqDiff, if_false, if_true, Bc7.mode4, writeRotation, List.cons_append, List.nil_append, fv_merge21]
  rw [consumeBits_fv 3 _ _ (by decide) (by decide) hri]
  simp only [hrot]
  rw [eps4_w _ _ _ hE' hA']
  simp only [writeIndexes, List.cons_append, List.nil_append]
  rw [hnew]
  simp only []
  rw [hnew2]
  apply Bc7.map_range16_congr
  intro i hi
  have hk := get_lt 2 x i (by decide)
  have hk2 := get_lt 3 x2 i (by decide)
  simp only [getIndex_eq_get 2 _ i (by decide), getIndex_eq_get 3 _ i (by decide), hget i hi, hget2 i hi,
    bep_map_range _ 2 0 (by decide),
    bep_map_range _ 2 1 (by decide), Bc7.interpolateColorsAlpha, Bc7.px4, ep_swapPair0', ep_swapPair1',
    px_swapPair0', px_swapPair1', interpolateRgb, interpolateAlpha, promoteRgb, promoteCh_ne8 6 _ (by decide),
    promoteCh_ne8 5 _ (by decide), interpolate2, interpolate3, px3e, List.cons_append, List.nil_append, rot_eq, hsel]
  generalize get 2 x i = k at hk ⊢
  generalize get 3 x2 i = k2 at hk2 ⊢
  have him' : im = 0 ∨ im = 1 := by omega
  subst hsc hsa
  rcases him' with h | h <;> subst h <;> cases ci.2 <;> cases ai.2 <;>
    simp only [Bool.false_eq_true, if_false, if_true, lerp_sym2 _ _ k hk, lerp_sym3 _ _ k2 hk2, Nat.reduceEqDiff,
      Bool.false_and, Bool.true_and, Bool.or_false, Bool.false_or, Bool.not_true, Bool.not_false, Bool.and_true,
      Bool.and_false, Nat.reduceBEq, Nat.zero_ne_one, Bool.or_self, Bool.or_true, Bool.true_or]

end Dds.Enc7
