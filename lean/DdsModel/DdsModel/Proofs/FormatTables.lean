/-
Helper lemmas for C19: quantification over the finite tables by complete evaluation, and the
structural lemmas for the default arms (arbitrary FourCC / mask values).
-/
import DdsModel.FormatTables
namespace Dds.C19

/-- every format is in the enumeration -/
theorem Format.mem_all (f : Format) : f ∈ Format.all := by
  cases f <;> decide

/-- a decidable predicate holds for all 73 formats if it evaluates to true on the enumeration -/
theorem forall_format {P : Format → Prop} [DecidablePred P]
    (h : Format.all.all (fun f => decide (P f)) = true) : ∀ f, P f := by
  intro f
  have := List.all_eq_true.mp h f (Format.mem_all f)
  exact of_decide_eq_true this

theorem ColorFormat.mem_all (c : ColorFormat) : c ∈ ColorFormat.all := by
  cases c with
  | mk ch p => cases ch <;> cases p <;> decide

theorem Dithering.mem_all (d : Dithering) : d ∈ Dithering.all := by
  cases d with
  | mk c a => cases c <;> cases a <;> decide

theorem forall_range {P : Nat → Prop} [DecidablePred P] (n : Nat)
    (h : (List.range n).all (fun x => decide (P x)) = true) : ∀ x, x < n → P x := by
  intro x hx
  have := List.all_eq_true.mp h x (List.mem_range.mpr hx)
  exact of_decide_eq_true this

/-! ## `From<Format> for PixelInfo` never panics and gives the layout of the format definition -/

theorem formatPixelInfoP_eq : ∀ f : Format, formatPixelInfoP f = some f.row.px :=
  forall_format (by decide +kernel)

/-! ## DX10 headers: complete evaluation over codes 0..255 × alpha modes 0..4 -/

/-- the agreement statement for one DX10 header, as a Boolean -/
def dx10Agrees (code alpha : Nat) : Bool :=
  match formatOfHeader (.dx10 code alpha) with
  | .error _ => true
  | .ok f =>
    match formatPixelInfoP f, pixelInfoOfHeaderP (.dx10 code alpha) with
    | some px, some (.ok p) => p == px
    | _, _ => false

/-- every accepted code fits the `u8` behind `DxgiFormat` (complete evaluation of the translated runs) -/
theorem dxgiValid_lt {v : Nat} (h : dxgiValid v = true) : v < 256 := by
  unfold dxgiValid at h
  rw [List.any_eq_true] at h
  obtain ⟨r, hr, h1⟩ := h
  have hb : (SrcTables.dxgiValidRanges.all fun r => decide (r.2 < 256)) = true := by decide
  have h2 := List.all_eq_true.mp hb r hr
  simp only [Bool.and_eq_true, decide_eq_true_eq] at h1 h2
  omega

theorem dx10Agrees_all : ∀ code, code < 256 → ∀ alpha, alpha < 5 →
    (dxgiValid code = true → dx10Agrees code alpha = true) :=
  forall_range 256 (by decide +kernel)

/-- the range pattern of `TryFrom<u32> for DxgiFormat` and the table of named constants describe the same codes -/
theorem dxgiValid_iff_row : ∀ code, code < 256 → (dxgiValid code = (dxgiRow? code).isSome) :=
  forall_range 256 (by decide +kernel)

/-- every named constant names a different code -/
theorem dxgiTable_nodup : (dxgiTable.map (·.code)).Nodup := by decide +kernel

/-- the two copies of the format enumeration correspond -/
theorem Format.ofH_toH : ∀ f : Format, Format.ofH f.toH = f := forall_format (by decide)

/-! ## Mask headers -/

theorem maskFind_some {pf : MaskPF} {f : Format} :
    ∀ rows : List MaskRow, maskFind pf rows = some f →
      ∃ row, row ∈ rows ∧ row.matches pf = true ∧ row.fmt = f := by
  intro rows
  induction rows with
  | nil => intro h; simp [maskFind] at h
  | cons row rest ih =>
    intro h
    unfold maskFind at h
    by_cases hm : row.matches pf = true
    · rw [if_pos hm] at h
      exact ⟨row, List.mem_cons_self, hm, Option.some.inj h⟩
    · rw [if_neg hm] at h
      obtain ⟨r, hr, h1, h2⟩ := ih h
      exact ⟨r, List.mem_cons_of_mem _ hr, h1, h2⟩

theorem matches_bitCount {row : MaskRow} {pf : MaskPF} (h : row.matches pf = true) :
    pf.bitCount = row.pat.bitCount := by
  unfold MaskRow.matches at h
  simp only [Bool.and_eq_true, beq_iff_eq] at h
  exact h.1.1.1.1.2

/-- table obligation of `C19.pixelinfo_agrees` (mask headers): every row of `KNOWN_PIXEL_FORMATS` carries the bit count
of its format's layout — complete evaluation over the translated rows (seeded C09h fails the build HERE) -/
theorem maskRows_bitCount : ∀ row, row ∈ maskRows →
    formatPixelInfoP row.fmt = some (.fixed ((row.pat.bitCount % 256) / 8)) := by
  have h : maskRows.all (fun row =>
      decide (formatPixelInfoP row.fmt = some (.fixed ((row.pat.bitCount % 256) / 8)))) = true := by
    decide +kernel
  intro row hr
  exact of_decide_eq_true (List.all_eq_true.mp h row hr)

end Dds.C19
