/-
C13, BC1–BC5 encoder core: BC2 = `concat_blocks(bc2_alpha(..), compress_bc1_block(..))`.  Connects the explicit-alpha
writer (`Enc13.bc2AlphaBlock`, proved against the decoder in `Proofs/Enc13Tie.lean`: `bc2_alpha_block`) with the colour
half (`Proofs/EncBc15Blocks.lean`).
-/
import DdsModel.Proofs.EncBc15Blocks
import DdsModel.Proofs.Enc13Tie
namespace Dds.Enc15
open Dds Dds.Bc Dds.Enc13

theorem bc2AlphaBlock_length (alphas : List Nat) : (bc2AlphaBlock alphas).length = 8 := by
  unfold bc2AlphaBlock; simp

theorem bc2AlphaBlock_lt (alphas : List Nat) : ∀ x ∈ bc2AlphaBlock alphas, x < 256 := by
  intro x hx
  unfold bc2AlphaBlock at hx
  simp only [List.mem_map] at hx
  obtain ⟨k, _, rfl⟩ := hx
  exact Nat.mod_lt _ (by decide)

/-- the whole BC2 block: alpha bytes of `bc2_alpha` for ANY sixteen 8-bit alphas, then the P4 colour block -/
theorem bc2_full (alphas : List Nat) (h : ∀ a ∈ alphas, a ≤ 255) (e0 e1 : C565) (v0 : e0.Valid) (v1 : e1.Valid) (idx : Nat)
    (hi : idx < 2 ^ 32) (pr : Prec) :
    Bc.decodeBlock .bc2 pr (blkOf (concatBlocks (bc2AlphaBlock alphas) (withIndexes (createEndpoints .p4 e0 e1) idx))) =
      (List.range 16).map fun p =>
        (intendedRgb .p4 (createEndpoints .p4 e0 e1) (idxGet 2 idx p) ++ [17 * n4FromU8 (alphas.getD p 0)]).map
          (BcSpec.widen pr) := by
  rw [bc2_block _ (bc2AlphaBlock_length alphas) (bc2AlphaBlock_lt alphas) e0 e1 v0 v1 idx hi pr]
  apply List.map_congr_left
  intro p hp
  rw [List.mem_range] at hp
  have hc := createEndpoints_spec .p4 e0 e1 v0 v1
  have hb := blkOf_lt _ (concat_lt (bc2AlphaBlock_lt alphas)
    (withIndexes_lt (createEndpoints .p4 e0 e1) idx (toU16_lt _ hc.1) (toU16_lt _ hc.2.1)))
  have hfirst : ∀ i, i < 8 →
      blkOf (concatBlocks (bc2AlphaBlock alphas) (withIndexes (createEndpoints .p4 e0 e1) idx)) i =
        (bc2AlphaBlock alphas).getD i 0 := by
    intro i hi8
    have := blkOf_mid [] (bc2AlphaBlock alphas) (withIndexes (createEndpoints .p4 e0 e1) idx) i
      (by rw [bc2AlphaBlock_length]; exact hi8)
    simpa [concatBlocks] using this
  have ha := (bc2_alpha_block alphas h _ hfirst p hp).1
  have e : (px8 .bc2 (blkOf (concatBlocks (bc2AlphaBlock alphas) (withIndexes (createEndpoints .p4 e0 e1) idx))) p).getD 3 0 =
      Bc.bc2Alpha (blkOf (concatBlocks (bc2AlphaBlock alphas) (withIndexes (createEndpoints .p4 e0 e1) idx))) p := rfl
  rw [e, Bc.bc2Alpha_eq _ hb p hp] at ha
  rw [ha]

/-- every combination of sixteen 4-bit values is written by `bc2_alpha` (for the alphas `17·nᵢ`) at the nibble positions
the decoder reads: byte `k` = `n₂ₖ + 16·n₂ₖ₊₁`, decoded alpha of pixel `p` = `17·nₚ` -/
theorem bc2_nibbles (n : List Nat) (hl : n.length = 16) (hn : ∀ x ∈ n, x ≤ 15) :
    (∀ k, k < 8 → (bc2AlphaBlock (n.map (17 * ·))).getD k 0 = n.getD (2 * k) 0 + 16 * n.getD (2 * k + 1) 0) ∧
    ∀ p, p < 16 → Bc.bc2Alpha (blkOf (bc2AlphaBlock (n.map (17 * ·)))) p = 17 * n.getD p 0 := by
  have ha : ∀ a ∈ n.map (17 * ·), a ≤ 255 := by
    intro a h
    simp only [List.mem_map] at h
    obtain ⟨x, hx, rfl⟩ := h
    have := hn x hx; omega
  have hq : ∀ i, i < 16 → n4FromU8 ((n.map (17 * ·)).getD i 0) = n.getD i 0 := by
    intro i hi
    have h1 : i < n.length := by omega
    simp only [List.getD_eq_getElem?_getD, List.getElem?_map, List.getElem?_eq_getElem h1, Option.map_some, Option.getD_some]
    have := hn _ (List.getElem_mem h1)
    unfold n4FromU8; omega
  constructor
  · intro k hk
    rw [bc2AlphaBlock_bytes _ ha k hk, hq _ (by omega), hq _ (by omega)]
  · intro p hp
    rw [bc2AlphaBlock_px _ ha p hp, hq p hp]

end Dds.Enc15
