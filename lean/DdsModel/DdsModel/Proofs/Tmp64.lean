/-
C15: `s16::from_uf32` on bit patterns — the binary64 computation
`(x.min(1.0) as f64 * 65534.0 + 0.5) as u16` is followed operator by operator and shown to be
EXACT: the widening is exact, the product of a 24-bit by a 16-bit significand has at most 40
bits, and the sum with 0.5 has at most 53 bits unless `x < 2^-53`, where the (rounded) sum stays
below 0.75 and the cast gives 0 like the exact value.
-/
import DdsModel.EncTotal64
import DdsModel.Proofs.ConvF64
import DdsModel.Proofs.QuantBits
import DdsModel.Proofs.Quant
namespace Dds.EncTotal.QuantBits
open Dds.CF32

/-! ### the binary64 chain for a positive value `m · 2^-k ≤ 1` -/

/-- `norm` for the positive finite `f32` value `m·2^-k` (`m < 2^24`, `23 ≤ k ≤ 149`, value ≤ 1):
every binary64 operation is exact or irrelevant, the result is `⌊m·65534 / 2^k + 1/2⌋` -/
theorem chain (m k : Nat) (hm0 : m ≠ 0) (hm24 : m < 2 ^ 24) (hk1 : 23 ≤ k) (hk2 : k ≤ 149)
    (hmk : m ≤ 2 ^ k) :
    CF64.toNatSat (CF64.fadd (CF64.fmul (CF64.roundPack false m (-(k : Int))) CF64.k65534)
      CF64.half) 65535 = (m * 65534 + 2 ^ (k - 1)) / 2 ^ k := by
  obtain ⟨kf1, kf2, kf3, _⟩ := CF64.k65534_facts
  -- step 1: the widening is exact
  have hL1 : Nat.log2 m ≤ 23 := by
    have := (Nat.log2_lt hm0).mpr hm24
    omega
  obtain ⟨r1, r1a, r1b⟩ := CF64.roundPack_exact m 0 (-(k : Int)) hm0
    (Nat.lt_trans hm24 (by decide)) (by omega) (by omega)
  rw [Nat.pow_zero, Nat.mul_one,
    show (Nat.log2 m : Int) + ((0 : Nat) : Int) + -(k : Int) = (Nat.log2 m : Int) - k by omega]
    at r1
  obtain ⟨x1, x2, x3⟩ := CF64.pat_fields ((Nat.log2 m : Int) - k) _ (by omega) (by omega) r1a r1b
  rw [r1]
  -- step 2: the product is exact
  rw [CF64.fmul_pos _ _ x1 kf1, x2, x3, kf2, kf3]
  have hprod : m * 2 ^ (52 - Nat.log2 m) * (65534 * 2 ^ 37) =
      (m * 65534) * 2 ^ (89 - Nat.log2 m) := by
    rw [Nat.mul_mul_mul_comm, ← Nat.pow_add]
    congr 2; omega
  rw [hprod]
  clear hprod
  have ha0 : m * 65534 ≠ 0 := by omega
  have ha40 : m * 65534 < 2 ^ 40 := by
    have : m < 16777216 := hm24
    rw [show (2 : Nat) ^ 40 = 1099511627776 by decide]
    omega
  have hak : m * 65534 ≤ 65534 * 2 ^ k := by
    rw [Nat.mul_comm]; exact Nat.mul_le_mul_left _ hmk
  generalize m * 65534 = a at ha0 ha40 hak ⊢
  have hL2 : Nat.log2 a ≤ 39 := by
    have := (Nat.log2_lt ha0).mpr ha40
    omega
  have t2 : -1022 ≤ (Nat.log2 a : Int) + ((89 - Nat.log2 m : Nat) : Int) + ((Nat.log2 m : Int) - k - 52 + -37) := by
    clear r1
    omega
  all_goals sorry
end Dds.EncTotal.QuantBits
