/-
C13, opacity of BC7 blocks — decoder side, for EVERY block.

Over the specification-shaped decoder `Bc7Spec.decodeMode` (equal to the code-shaped `Bc7.decodeBlock` for every
block by C03x `decodeBlock_eq`): the alpha of a decoded pixel is the interpolation of the two endpoints (of the
pixel's subset) of the channel that the rotation field routes to alpha; if both are 255 the pixel is opaque.
Modes 0–3 store no alpha (both endpoints are the constant 255) and have no rotation field.
-/
import DdsModel.Proofs.Bc7Glue
namespace Dds.Bc7Spec
open Dds Dds.BcTables

/-- the channel of the interpolated colour that `rotate rot` moves into the alpha position -/
def alphaSrc (rot : Nat) : Nat := if rot = 1 then 0 else if rot = 2 then 1 else if rot = 3 then 2 else 3

/-- rotation field of a block of mode `m` -/
def rotOf (m : Nat) (r : ModeRec) (b : Nat) : Nat := rd b (m + 1 + r.partBits) r.rotBits

theorem specWeights_le (bits idx : Nat) : (specWeights bits).getD idx 0 ≤ 64 := by
  have key : ∀ l : List Nat, (∀ x ∈ l, x ≤ 64) → l.getD idx 0 ≤ 64 := by
    intro l hl
    rw [List.getD_eq_getElem?_getD]
    cases h : l[idx]? with
    | none => simp
    | some v => exact hl v (List.mem_of_getElem? h)
  unfold specWeights
  split
  · exact key _ (by decide)
  · split
    · exact key _ (by decide)
    · exact key _ (by decide)

theorem interp_255 (w : Nat) (hw : w ≤ 64) : interp 255 255 w = 255 := by
  unfold interp
  have : (64 - w) * 255 + w * 255 = 64 * 255 := by rw [← Nat.add_mul]; congr 1; omega
  omega

theorem rotate_alpha (rot x0 x1 x2 x3 : Nat) :
    (rotate rot [x0, x1, x2, x3]).getD 3 0 = [x0, x1, x2, x3].getD (alphaSrc rot) 0 := by
  unfold rotate alphaSrc
  by_cases h1 : rot = 1
  · simp [h1]
  · by_cases h2 : rot = 2
    · simp [h2]
    · by_cases h3 : rot = 3
      · simp [h3]
      · simp [h1, h2, h3]

/-- pixel `i` of `decodeMode`: if the two endpoints of its subset are 255 in the channel routed to alpha, the
decoded alpha is 255 -/
theorem decodeMode_alpha (m : Nat) (r : ModeRec) (b i : Nat) (hi : i < 16)
    (h0 : endpoint m r b (2 * specSubset r.subsets (rd b (m + 1) r.partBits) i) (alphaSrc (rotOf m r b)) = 255)
    (h1 : endpoint m r b (2 * specSubset r.subsets (rd b (m + 1) r.partBits) i + 1) (alphaSrc (rotOf m r b)) = 255) :
    ((decodeMode m r b).getD i []).getD 3 0 = 255 := by
  unfold decodeMode
  simp only [List.getD_eq_getElem?_getD, List.getElem?_map, List.getElem?_range hi, Option.map_some, Option.getD_some]
  simp only [← List.getD_eq_getElem?_getD]
  rw [rotate_alpha]
  unfold rotOf at h0 h1
  generalize rd b (m + 1 + r.partBits) r.rotBits = rot at h0 h1 ⊢
  have hw := specWeights_le
  unfold alphaSrc at h0 h1 ⊢
  by_cases c1 : rot = 1
  · simp only [c1, if_true] at h0 h1 ⊢
    simp only [List.getD_cons_zero, h0, h1]
    split
    · exact interp_255 _ (hw _ _)
    · split <;> exact interp_255 _ (hw _ _)
  · by_cases c2 : rot = 2
    · simp only [c2, if_true, Nat.reduceEqDiff, if_false] at h0 h1 ⊢
      simp only [List.getD_cons_succ, List.getD_cons_zero, h0, h1]
      split
      · exact interp_255 _ (hw _ _)
      · split <;> exact interp_255 _ (hw _ _)
    · by_cases c3 : rot = 3
      · simp only [c3, if_true, Nat.reduceEqDiff, if_false] at h0 h1 ⊢
        simp only [List.getD_cons_succ, List.getD_cons_zero, h0, h1]
        split
        · exact interp_255 _ (hw _ _)
        · split <;> exact interp_255 _ (hw _ _)
      · simp only [c1, c2, c3, if_false] at h0 h1 ⊢
        simp only [List.getD_cons_succ, List.getD_cons_zero, h0, h1]
        split
        · exact interp_255 _ (hw _ _)
        · split <;> exact interp_255 _ (hw _ _)

/-- modes without alpha bits: the alpha endpoint is the constant 255 and there is no rotation -/
theorem noalpha_endpoint (m : Nat) (r : ModeRec) (b e : Nat) (ha : r.alphaBits = 0) : endpoint m r b e 3 = 255 := by
  simp [endpoint, ha]

theorem rotOf_zero (m : Nat) (r : ModeRec) (b : Nat) (h : r.rotBits = 0) : rotOf m r b = 0 := by
  unfold rotOf; rw [h]; exact Nat.mod_one _


/-! ### when is a stored alpha endpoint 255?  (modes 4–7, in terms of the raw fields) -/

theorem expand6_255 : ∀ v, v < 2 ^ 6 → (expand 6 v = 255 ↔ v = 63) := by decide
theorem expand6p_255 : ∀ v, v < 2 ^ 5 → ∀ p, p < 2 ^ 1 → (expand 6 (v * 2 + p) = 255 ↔ v = 31 ∧ p = 1) := by decide
theorem expand8p_255 : ∀ v, v < 2 ^ 7 → ∀ p, p < 2 ^ 1 → (expand 8 (v * 2 + p) = 255 ↔ v = 127 ∧ p = 1) := by decide

open Dds.Bc7 in
/-- The fully decoded alpha endpoint `e` is 255 exactly when the raw alpha field is all ones and (modes 6, 7) the
endpoint's p-bit is 1: mode 4 — 6-bit field 63; mode 5 — 8-bit field 255; mode 6 — 7-bit field 127 and p = 1;
mode 7 — 5-bit field 31 and p = 1. -/
theorem alpha_endpoint_255_iff (b e : Nat) :
    (endpoint 4 r4 b e 3 = 255 ↔ rd b (alphaStart 4 r4 + e * 6) 6 = 63) ∧
    (endpoint 5 r5 b e 3 = 255 ↔ rd b (alphaStart 5 r5 + e * 8) 8 = 255) ∧
    (endpoint 6 r6 b e 3 = 255 ↔ rd b (alphaStart 6 r6 + e * 7) 7 = 127 ∧ rd b (pStart 6 r6 + e) 1 = 1) ∧
    (endpoint 7 r7 b e 3 = 255 ↔ rd b (alphaStart 7 r7 + e * 5) 5 = 31 ∧ rd b (pStart 7 r7 + e) 1 = 1) := by
  refine ⟨?_, ?_, ?_, ?_⟩
  · simp only [endpoint, r4, Nat.reduceEqDiff, and_false, if_false, if_true, Nat.zero_ne_one]
    exact expand6_255 _ (rd_lt _ _ _)
  · simp only [endpoint, r5, Nat.reduceEqDiff, and_false, if_false, if_true, Nat.zero_ne_one, expand8_rd]
  · simp only [endpoint, r6, Nat.reduceEqDiff, and_false, if_false, if_true, Nat.reduceAdd]
    exact expand8p_255 _ (rd_lt _ _ _) _ (rd_lt _ _ _)
  · simp only [endpoint, r7, Nat.reduceEqDiff, and_false, if_false, if_true, Nat.reduceAdd]
    exact expand6p_255 _ (rd_lt _ _ _) _ (rd_lt _ _ _)

end Dds.Bc7Spec
