/- Helper lemmas about the iterator model (`Iter.lean`). -/
import DdsModel.Iter
import DdsModel.Proofs.Layout
namespace Dds

/-! ### explicit element formula of `specMips` -/

theorem texIdeal_split (px : PixelInfo) (w h : Nat) : ∀ (a level b : Nat),
    texIdeal px w h level (a + b) = texIdeal px w h level a + texIdeal px w h (level + a) b := by
  intro a
  induction a with
  | zero => intro level b; simp [texIdeal]
  | succ a ih =>
    intro level b
    have : a + 1 + b = (a + b) + 1 := by omega
    rw [this]
    simp only [texIdeal]
    rw [ih (level + 1) b]
    have : level + 1 + a = level + (a + 1) := by omega
    rw [this]; omega

theorem texIdeal_succ_right (px : PixelInfo) (w h level a : Nat) :
    texIdeal px w h level (a + 1) =
      texIdeal px w h level a + px.surfIdeal (mipSize w (level + a)) (mipSize h (level + a)) := by
  rw [texIdeal_split px w h a level 1]
  simp [texIdeal]

theorem specMips_getElem_eq (px : PixelInfo) (w h : Nat) : ∀ (n level off j : Nat), j < n →
    (specMips px w h level n off)[j]? =
      some ⟨mipSize w (level + j), mipSize h (level + j), off + texIdeal px w h level j,
            px.surfIdeal (mipSize w (level + j)) (mipSize h (level + j))⟩ := by
  intro n
  induction n with
  | zero => intro level off j hj; omega
  | succ n ih =>
    intro level off j hj
    cases j with
    | zero => simp [specMips, texIdeal]
    | succ j =>
      simp only [specMips, List.getElem?_cons_succ]
      rw [ih (level + 1) _ j (by omega)]
      simp only [texIdeal]
      have e : level + 1 + j = level + (j + 1) := by omega
      rw [e, Nat.add_assoc]

theorem specMips_getElem_none (px : PixelInfo) (w h : Nat) (n level off j : Nat) (hj : n ≤ j) :
    (specMips px w h level n off)[j]? = none := by
  apply List.getElem?_eq_none
  rw [specMips_length]; exact hj

/-! ### sums of lengths -/

theorem sumLens_foldl (l : List Surface) : ∀ acc : Nat,
    l.foldl (fun a s => wAdd a s.len) acc = l.foldl (fun a s => wAdd a s.len) acc := fun _ => rfl

theorem foldl_specMips (px : PixelInfo) (w h : Nat) : ∀ (n level off acc : Nat),
    acc + texIdeal px w h level n < U64 →
    (specMips px w h level n off).foldl (fun a s => wAdd a s.len) acc
      = acc + texIdeal px w h level n := by
  intro n
  induction n with
  | zero => intro level off acc _; simp [specMips, texIdeal]
  | succ n ih =>
    intro level off acc hlt
    simp only [texIdeal] at hlt
    simp only [specMips, List.foldl_cons, texIdeal]
    rw [wAdd_eq (by omega), ih _ _ _ (by omega)]
    omega

theorem specMips_drop (px : PixelInfo) (w h : Nat) : ∀ (k n level off : Nat), k ≤ n →
    (specMips px w h level n off).drop k =
      specMips px w h (level + k) (n - k) (off + texIdeal px w h level k) := by
  intro k
  induction k with
  | zero => intro n level off _; simp [texIdeal]
  | succ k ih =>
    intro n level off hk
    cases n with
    | zero => omega
    | succ n =>
      simp only [specMips, List.drop_succ_cons]
      rw [ih n (level + 1) _ (by omega)]
      simp only [texIdeal]
      have e1 : level + 1 + k = level + (k + 1) := by omega
      have e2 : n + 1 - (k + 1) = n - k := by omega
      rw [e1, e2, Nat.add_assoc]

/-! ### the texture iterator -/

/-- the invariant of `TextureSurfaceIterator` -/
structure TexIter.Inv (it : TexIter) : Prop where
  wf : it.first.px.WF
  off0 : it.first.offsetIndex = 0
  mips_pos : 1 ≤ it.first.mips
  mips_lt : it.first.mips < 256
  len_lt : it.len < U32
  fits : it.len * texIdeal it.first.px it.first.w it.first.h 0 it.first.mips < U64
  tex : texIdeal it.first.px it.first.w it.first.h 0 it.first.mips < U64
  short : it.first.shortLen = toShortLen (texIdeal it.first.px it.first.w it.first.h 0 it.first.mips)
  cursor : (it.idx < it.len ∧ it.level < it.first.mips) ∨ (it.idx = it.len ∧ it.level = 0)

/-- length of one array element -/
def TexIter.T (it : TexIter) : Nat := texIdeal it.first.px it.first.w it.first.h 0 it.first.mips

/-- the abstraction: index into the flattened surface list -/
def TexIter.abs (it : TexIter) : Nat := it.idx * it.first.mips + it.level

/-- number of surfaces -/
def TexIter.N (it : TexIter) : Nat := it.len * it.first.mips

/-- ideal number of bytes before the cursor -/
def TexIter.elapsed (it : TexIter) : Nat :=
  it.idx * it.T + texIdeal it.first.px it.first.w it.first.h 0 it.level

theorem TexIter.Inv.firstValid {it : TexIter} (v : it.Inv) : it.first.Valid := by
  refine ⟨v.wf, ?_, ?_, v.short⟩
  · rw [v.off0]; have := v.tex; omega
  · rw [v.off0]; simp [U32]

theorem TexIter.Inv.abs_le {it : TexIter} (v : it.Inv) : it.abs ≤ it.N := by
  unfold TexIter.abs TexIter.N
  cases v.cursor with
  | inl h =>
    have : (it.idx + 1) * it.first.mips ≤ it.len * it.first.mips :=
      Nat.mul_le_mul_right _ (by omega)
    rw [Nat.add_mul] at this; omega
  | inr h => rw [h.1, h.2]; omega

theorem TexIter.Inv.abs_lt_iff {it : TexIter} (v : it.Inv) : it.abs < it.N ↔ it.idx < it.len := by
  unfold TexIter.abs TexIter.N
  cases v.cursor with
  | inl h =>
    have : (it.idx + 1) * it.first.mips ≤ it.len * it.first.mips :=
      Nat.mul_le_mul_right _ (by omega)
    rw [Nat.add_mul] at this
    constructor
    · intro _; exact h.1
    · intro _; omega
  | inr h => rw [h.1, h.2]; omega

/-- `current()` reports the surface at the cursor (size, length, level) or nothing at the end;
it never panics. -/
theorem TexIter.Inv.currentP {it : TexIter} (v : it.Inv) :
    it.currentP =
      some (if it.idx < it.len then
        some ⟨mipSize it.first.w it.level, mipSize it.first.h it.level,
              it.first.px.surfIdeal (mipSize it.first.w it.level) (mipSize it.first.h it.level),
              it.level⟩
      else none) := by
  unfold TexIter.currentP
  by_cases h : it.idx < it.len
  · rw [if_pos h, if_pos h]
    have hl : it.level < it.first.mips := by
      cases v.cursor with
      | inl h' => exact h'.2
      | inr h' => omega
    unfold Texture.getP
    rw [v.firstValid.iterMipsP]
    simp only [Option.map_some]
    rw [specMips_getElem_eq _ _ _ _ _ _ _ hl]
    simp
  · rw [if_neg h, if_neg h]

theorem TexIter.Inv.advance {it : TexIter} (v : it.Inv) :
    it.advance.Inv ∧ it.advance.abs = min (it.abs + 1) it.N ∧ it.advance.first = it.first ∧
      it.advance.len = it.len := by
  unfold TexIter.advance
  by_cases h : it.idx < it.len
  · rw [if_pos h]
    have hl : it.level < it.first.mips := by
      cases v.cursor with
      | inl h' => exact h'.2
      | inr h' => omega
    have hm := v.mips_lt
    have hmod : (it.level + 1) % U8 = it.level + 1 := Nat.mod_eq_of_lt (by unfold U8; omega)
    simp only [hmod]
    have hN : (it.idx + 1) * it.first.mips ≤ it.len * it.first.mips :=
      Nat.mul_le_mul_right _ (by omega)
    rw [Nat.add_mul, Nat.one_mul] at hN
    by_cases hn : it.level + 1 < it.first.mips
    · rw [if_pos hn]
      refine ⟨⟨v.wf, v.off0, v.mips_pos, v.mips_lt, v.len_lt, v.fits, v.tex, v.short, ?_⟩, ?_, rfl, rfl⟩
      · exact Or.inl ⟨h, hn⟩
      · show it.idx * it.first.mips + (it.level + 1) = min (it.idx * it.first.mips + it.level + 1) (it.len * it.first.mips)
        rw [Nat.min_def]; split <;> omega
    · rw [if_neg hn]
      have hlen := v.len_lt
      have hmod2 : (it.idx + 1) % U32 = it.idx + 1 := Nat.mod_eq_of_lt (by omega)
      rw [hmod2]
      refine ⟨⟨v.wf, v.off0, v.mips_pos, v.mips_lt, v.len_lt, v.fits, v.tex, v.short, ?_⟩, ?_, rfl, rfl⟩
      · show (it.idx + 1 < it.len ∧ 0 < it.first.mips) ∨ (it.idx + 1 = it.len ∧ 0 = 0)
        have := v.mips_pos
        by_cases he : it.idx + 1 < it.len
        · exact Or.inl ⟨he, by omega⟩
        · exact Or.inr ⟨by omega, rfl⟩
      · show (it.idx + 1) * it.first.mips + 0 = min (it.idx * it.first.mips + it.level + 1) (it.len * it.first.mips)
        rw [Nat.add_mul, Nat.one_mul, Nat.min_def]; split <;> omega
  · rw [if_neg h]
    refine ⟨v, ?_, rfl, rfl⟩
    have h1 := v.abs_le
    have h2 := v.abs_lt_iff
    rw [Nat.min_def]; split <;> omega

theorem TexIter.Inv.rewind {it : TexIter} (v : it.Inv) :
    it.rewind.Inv ∧ it.rewind.abs = it.abs - 1 ∧ it.rewind.first = it.first ∧
      it.rewind.len = it.len := by
  unfold TexIter.rewind
  by_cases hl : it.level > 0
  · rw [if_pos hl]
    refine ⟨⟨v.wf, v.off0, v.mips_pos, v.mips_lt, v.len_lt, v.fits, v.tex, v.short, ?_⟩, ?_, rfl, rfl⟩
    · cases v.cursor with
      | inl h => exact Or.inl ⟨h.1, by show it.level - 1 < it.first.mips; omega⟩
      | inr h => omega
    · show it.idx * it.first.mips + (it.level - 1) = it.idx * it.first.mips + it.level - 1
      omega
  · rw [if_neg hl]
    by_cases hi : it.idx > 0
    · rw [if_pos hi]
      have hm := v.mips_lt
      have hp := v.mips_pos
      have hmod : (it.first.mips + U8 - 1) % U8 = it.first.mips - 1 := by
        have : it.first.mips + U8 - 1 = (it.first.mips - 1) + U8 := by omega
        rw [this, Nat.add_mod_right]
        exact Nat.mod_eq_of_lt (by unfold U8; omega)
      rw [hmod]
      have hidx : it.idx ≤ it.len := by
        cases v.cursor with
        | inl h => omega
        | inr h => omega
      refine ⟨⟨v.wf, v.off0, v.mips_pos, v.mips_lt, v.len_lt, v.fits, v.tex, v.short, ?_⟩, ?_, rfl, rfl⟩
      · exact Or.inl ⟨by show it.idx - 1 < it.len; omega, by show it.first.mips - 1 < it.first.mips; omega⟩
      · show (it.idx - 1) * it.first.mips + (it.first.mips - 1) = it.idx * it.first.mips + it.level - 1
        have : it.idx = (it.idx - 1) + 1 := by omega
        rw [this, Nat.add_mul, Nat.one_mul]
        simp only [Nat.add_sub_cancel]
        omega
    · rw [if_neg hi]
      refine ⟨v, ?_, rfl, rfl⟩
      unfold TexIter.abs
      have : it.idx = 0 := by omega
      have : it.level = 0 := by omega
      simp [*]

theorem texElapsedLoop_eq (t : Texture) (v : t.Valid) (_h0 : t.offsetIndex = 0) :
    ∀ (n level acc : Nat), level + n ≤ t.mips →
      acc + texIdeal t.px t.w t.h level n < U64 →
      texElapsedLoop t n level acc = some (acc + texIdeal t.px t.w t.h level n) := by
  intro n
  induction n with
  | zero => intro level acc _ _; simp [texElapsedLoop, texIdeal]
  | succ n ih =>
    intro level acc hle hlt
    simp only [texIdeal] at hlt
    unfold texElapsedLoop Texture.getP
    rw [v.iterMipsP]
    simp only [Option.map_some]
    rw [specMips_getElem_eq _ _ _ _ _ _ _ (by omega : level < t.mips)]
    simp only [Nat.zero_add]
    rw [wAdd_eq (by omega), ih _ _ (by omega) (by omega)]
    simp only [texIdeal]; congr 1; omega

theorem TexIter.Inv.idx_le {it : TexIter} (v : it.Inv) : it.idx ≤ it.len := by
  cases v.cursor with
  | inl h => omega
  | inr h => omega

theorem TexIter.Inv.level_le {it : TexIter} (v : it.Inv) : it.level ≤ it.first.mips := by
  cases v.cursor with
  | inl h => omega
  | inr h => omega

theorem texIdeal_prefix_le (px : PixelInfo) (w h level a b : Nat) (hab : a ≤ b) :
    texIdeal px w h level a ≤ texIdeal px w h level b := by
  have : b = a + (b - a) := by omega
  rw [this, texIdeal_split]; omega

/-- ideal elapsed bytes never exceed the total -/
theorem TexIter.Inv.elapsed_le {it : TexIter} (v : it.Inv) : it.elapsed ≤ it.len * it.T := by
  unfold TexIter.elapsed
  cases v.cursor with
  | inl h =>
    have h1 : (it.idx + 1) * it.T ≤ it.len * it.T := Nat.mul_le_mul_right _ (by omega)
    have h2 := texIdeal_prefix_le it.first.px it.first.w it.first.h 0 it.level it.first.mips (by omega)
    rw [Nat.add_mul, Nat.one_mul] at h1
    unfold TexIter.T at *
    omega
  | inr h => rw [h.1, h.2]; simp [texIdeal]

/-- `elapsed_bytes()` is the ideal offset of the cursor; no panic, no wrap. -/
theorem TexIter.Inv.elapsedP {it : TexIter} (v : it.Inv) : it.elapsedP = some it.elapsed := by
  unfold TexIter.elapsedP
  rw [v.firstValid.dataLenP]
  simp only
  have hle := v.elapsed_le
  have hfit := v.fits
  unfold TexIter.elapsed TexIter.T at hle
  have h1 : it.idx * texIdeal it.first.px it.first.w it.first.h 0 it.first.mips ≤
      it.len * texIdeal it.first.px it.first.w it.first.h 0 it.first.mips :=
    Nat.mul_le_mul_right _ v.idx_le
  have hm : it.first.len * it.idx < U64 := by
    unfold Texture.len; rw [Nat.mul_comm]; omega
  rw [wMul_eq hm]
  rw [texElapsedLoop_eq it.first v.firstValid v.off0 _ _ _ (by have := v.level_le; omega)]
  · unfold TexIter.elapsed TexIter.T Texture.len; rw [Nat.mul_comm]
  · unfold Texture.len; rw [Nat.mul_comm]; omega

/-- `skip_mipmaps()` moves to level 0 of the next element (only from a level ≠ 0) and
returns exactly the bytes in between. -/
theorem TexIter.Inv.skipMipmapsP {it : TexIter} (v : it.Inv) :
    ∃ it' n, it.skipMipmapsP = some (it', n) ∧ it'.Inv ∧ it'.first = it.first ∧ it'.len = it.len ∧
      it'.elapsed = it.elapsed + n ∧
      (if it.idx < it.len ∧ it.level ≠ 0 then it'.idx = it.idx + 1 ∧ it'.level = 0
       else it' = it ∧ n = 0) := by
  unfold TexIter.skipMipmapsP
  by_cases h : it.idx < it.len ∧ it.level ≠ 0
  · rw [if_pos h, v.firstValid.iterMipsP]
    have hl : it.level < it.first.mips := by
      cases v.cursor with
      | inl h' => exact h'.2
      | inr h' => omega
    have hlen := v.len_lt
    have hmod2 : (it.idx + 1) % U32 = it.idx + 1 := Nat.mod_eq_of_lt (by omega)
    simp only [hmod2]
    refine ⟨_, _, rfl, ⟨v.wf, v.off0, v.mips_pos, v.mips_lt, v.len_lt, v.fits, v.tex, v.short, ?_⟩,
      rfl, rfl, ?_, ?_⟩
    · show (it.idx + 1 < it.len ∧ 0 < it.first.mips) ∨ (it.idx + 1 = it.len ∧ 0 = 0)
      have := v.mips_pos
      by_cases he : it.idx + 1 < it.len
      · exact Or.inl ⟨he, by omega⟩
      · exact Or.inr ⟨by omega, rfl⟩
    · unfold sumLens
      rw [specMips_drop _ _ _ _ _ _ _ (by omega)]
      have hsplit := texIdeal_split it.first.px it.first.w it.first.h it.level 0 (it.first.mips - it.level)
      have e : it.level + (it.first.mips - it.level) = it.first.mips := by omega
      rw [e] at hsplit
      rw [foldl_specMips]
      · show (it.idx + 1) * it.T + texIdeal it.first.px it.first.w it.first.h 0 0 = _
        unfold TexIter.elapsed TexIter.T
        simp only [texIdeal, Nat.add_zero, Nat.zero_add] at hsplit ⊢
        rw [Nat.add_mul, Nat.one_mul]; omega
      · have := v.tex
        simp only [Nat.zero_add] at hsplit ⊢
        omega
    · rw [if_pos h]; exact ⟨rfl, rfl⟩
  · rw [if_neg h]
    refine ⟨it, 0, rfl, v, rfl, rfl, rfl, ?_⟩
    rw [if_neg h]; exact ⟨rfl, rfl⟩


/-! ### the volume iterator -/

theorem volIdeal_split (px : PixelInfo) (w h d : Nat) : ∀ (a level b : Nat),
    volIdeal px w h d level (a + b) = volIdeal px w h d level a + volIdeal px w h d (level + a) b := by
  intro a
  induction a with
  | zero => intro level b; simp [volIdeal]
  | succ a ih =>
    intro level b
    have : a + 1 + b = (a + b) + 1 := by omega
    rw [this]
    simp only [volIdeal]
    rw [ih (level + 1) b]
    have : level + 1 + a = level + (a + 1) := by omega
    rw [this]; omega

theorem volIdeal_succ_right (px : PixelInfo) (w h d level a : Nat) :
    volIdeal px w h d level (a + 1) = volIdeal px w h d level a +
      px.surfIdeal (mipSize w (level + a)) (mipSize h (level + a)) * mipSize d (level + a) := by
  rw [volIdeal_split px w h d a level 1]
  simp [volIdeal]

theorem volIdeal_prefix_le (px : PixelInfo) (w h d level a b : Nat) (hab : a ≤ b) :
    volIdeal px w h d level a ≤ volIdeal px w h d level b := by
  have : b = a + (b - a) := by omega
  rw [this, volIdeal_split]; omega

theorem specVol_length (px : PixelInfo) (w h d : Nat) : ∀ (n level off : Nat),
    (specVol px w h d level n off).length = n := by
  intro n
  induction n with
  | zero => intro _ _; rfl
  | succ n ih => intro level off; simp [specVol, ih]

theorem specVol_getElem_eq (px : PixelInfo) (w h d : Nat) : ∀ (n level off j : Nat), j < n →
    (specVol px w h d level n off)[j]? =
      some ⟨mipSize w (level + j), mipSize h (level + j), mipSize d (level + j),
            off + volIdeal px w h d level j,
            px.surfIdeal (mipSize w (level + j)) (mipSize h (level + j))⟩ := by
  intro n
  induction n with
  | zero => intro level off j hj; omega
  | succ n ih =>
    intro level off j hj
    cases j with
    | zero => simp [specVol, volIdeal]
    | succ j =>
      simp only [specVol, List.getElem?_cons_succ]
      rw [ih (level + 1) _ j (by omega)]
      simp only [volIdeal]
      have e : level + 1 + j = level + (j + 1) := by omega
      rw [e, Nat.add_assoc]

theorem specVol_drop (px : PixelInfo) (w h d : Nat) : ∀ (k n level off : Nat), k ≤ n →
    (specVol px w h d level n off).drop k =
      specVol px w h d (level + k) (n - k) (off + volIdeal px w h d level k) := by
  intro k
  induction k with
  | zero => intro n level off _; simp [volIdeal]
  | succ k ih =>
    intro n level off hk
    cases n with
    | zero => omega
    | succ n =>
      simp only [specVol, List.drop_succ_cons]
      rw [ih n (level + 1) _ (by omega)]
      simp only [volIdeal]
      have e1 : level + 1 + k = level + (k + 1) := by omega
      have e2 : n + 1 - (k + 1) = n - k := by omega
      rw [e1, e2, Nat.add_assoc]

theorem foldl_specVol (px : PixelInfo) (w h d : Nat) : ∀ (n level off acc : Nat),
    acc + volIdeal px w h d level n < U64 →
    (specVol px w h d level n off).foldl (fun a v => wAdd a v.dataLen) acc
      = acc + volIdeal px w h d level n := by
  intro n
  induction n with
  | zero => intro level off acc _; simp [specVol, volIdeal]
  | succ n ih =>
    intro level off acc hlt
    simp only [volIdeal] at hlt
    simp only [specVol, List.foldl_cons, volIdeal]
    have hm : px.surfIdeal (mipSize w level) (mipSize h level) * mipSize d level < U64 := by omega
    have hd : (⟨mipSize w level, mipSize h level, mipSize d level, off,
        px.surfIdeal (mipSize w level) (mipSize h level)⟩ : VolumeDesc).dataLen =
        px.surfIdeal (mipSize w level) (mipSize h level) * mipSize d level := by
      simp only [VolumeDesc.dataLen]; exact wMul_eq hm
    have ha : acc + px.surfIdeal (mipSize w level) (mipSize h level) * mipSize d level < U64 := by
      omega
    rw [hd, wAdd_eq ha]
    have hi := ih (level + 1)
      (off + px.surfIdeal (mipSize w level) (mipSize h level) * mipSize d level)
      (acc + px.surfIdeal (mipSize w level) (mipSize h level) * mipSize d level) (by omega)
    rw [hi]
    omega

/-- number of depth slices in levels `level .. level+n-1` -/
def depthSum (d : Nat) : (level n : Nat) → Nat
  | _, 0 => 0
  | level, n + 1 => mipSize d level + depthSum d (level + 1) n

theorem depthSum_split (d : Nat) : ∀ (a level b : Nat),
    depthSum d level (a + b) = depthSum d level a + depthSum d (level + a) b := by
  intro a
  induction a with
  | zero => intro level b; simp [depthSum]
  | succ a ih =>
    intro level b
    have : a + 1 + b = (a + b) + 1 := by omega
    rw [this]
    simp only [depthSum]
    rw [ih (level + 1) b]
    have : level + 1 + a = level + (a + 1) := by omega
    rw [this]; omega

/-- the invariant of `VolumeSurfaceIterator` -/
structure VolIter.Inv (it : VolIter) : Prop where
  valid : it.volume.Valid
  mips_pos : 1 ≤ it.volume.mips
  mips_lt : it.volume.mips < 256
  d_lt : it.volume.d < U32
  d_pos : 0 < it.volume.d
  cursor : (it.level < it.volume.mips ∧ it.depth < mipSize it.volume.d it.level) ∨
           (it.level = it.volume.mips ∧ it.depth = 0)

def VolIter.abs (it : VolIter) : Nat := depthSum it.volume.d 0 it.level + it.depth
def VolIter.N (it : VolIter) : Nat := depthSum it.volume.d 0 it.volume.mips

def Volume.sliceLen (v : Volume) (level : Nat) : Nat :=
  v.px.surfIdeal (mipSize v.w level) (mipSize v.h level)

def VolIter.elapsed (it : VolIter) : Nat :=
  volIdeal it.volume.px it.volume.w it.volume.h it.volume.d 0 it.level
    + it.depth * it.volume.sliceLen it.level

theorem Volume.Valid.getP {v : Volume} (hv : v.Valid) (l : Nat) :
    v.getP l = some (if l < v.mips then
      some ⟨mipSize v.w l, mipSize v.h l, mipSize v.d l, volIdeal v.px v.w v.h v.d 0 l,
            v.sliceLen l⟩ else none) := by
  unfold Volume.getP
  rw [hv.iterMipsP]
  simp only [Option.map_some]
  by_cases hl : l < v.mips
  · rw [if_pos hl, specVol_getElem_eq _ _ _ _ _ _ _ _ hl]
    simp [Volume.sliceLen]
  · rw [if_neg hl]
    congr 1
    apply List.getElem?_eq_none
    rw [specVol_length]; omega

theorem VolIter.Inv.level_le {it : VolIter} (v : it.Inv) : it.level ≤ it.volume.mips := by
  cases v.cursor with
  | inl h => omega
  | inr h => omega

/-- bytes of one whole level fit (they are part of the checked total) -/
theorem Volume.Valid.level_fits {v : Volume} (hv : v.Valid) {l : Nat} (hl : l < v.mips) :
    volIdeal v.px v.w v.h v.d 0 l + v.sliceLen l * mipSize v.d l ≤
      volIdeal v.px v.w v.h v.d 0 v.mips := by
  have h1 := volIdeal_split v.px v.w v.h v.d l 0 (v.mips - l)
  have e : l + (v.mips - l) = v.mips := by omega
  rw [e] at h1
  have h2 : v.mips - l = (v.mips - l - 1) + 1 := by omega
  rw [h2] at h1
  simp only [volIdeal, Nat.zero_add] at h1
  unfold Volume.sliceLen
  omega

theorem VolIter.Inv.currentP {it : VolIter} (v : it.Inv) :
    it.currentP = some (if it.level < it.volume.mips then
      some ⟨mipSize it.volume.w it.level, mipSize it.volume.h it.level,
            it.volume.sliceLen it.level, it.level⟩ else none) := by
  unfold VolIter.currentP
  rw [v.valid.getP]
  by_cases hl : it.level < it.volume.mips
  · rw [if_pos hl, if_pos hl]
    have hd : it.depth < mipSize it.volume.d it.level := by
      cases v.cursor with
      | inl h => exact h.2
      | inr h => omega
    simp only [VolumeDesc.getDepthSlice, hd, if_true]
  · rw [if_neg hl, if_neg hl]

theorem depthSum_succ_right (d level a : Nat) :
    depthSum d level (a + 1) = depthSum d level a + mipSize d (level + a) := by
  rw [depthSum_split d a level 1]; simp [depthSum]

theorem VolIter.Inv.abs_le {it : VolIter} (v : it.Inv) : it.abs ≤ it.N := by
  unfold VolIter.abs VolIter.N
  cases v.cursor with
  | inl h =>
    have h1 := depthSum_split it.volume.d (it.level + 1) 0 (it.volume.mips - (it.level + 1))
    have e : it.level + 1 + (it.volume.mips - (it.level + 1)) = it.volume.mips := by omega
    rw [e, depthSum_succ_right] at h1
    simp only [Nat.zero_add] at h1
    omega
  | inr h => rw [h.1, h.2]; omega

theorem VolIter.Inv.advanceP {it : VolIter} (v : it.Inv) :
    ∃ it', it.advanceP = some it' ∧ it'.Inv ∧ it'.abs = min (it.abs + 1) it.N ∧
      it'.volume = it.volume := by
  unfold VolIter.advanceP
  rw [v.valid.getP]
  by_cases hl : it.level < it.volume.mips
  · rw [if_pos hl]
    have hd : it.depth < mipSize it.volume.d it.level := by
      cases v.cursor with
      | inl h => exact h.2
      | inr h => omega
    have hdl := mipSize_lt_U32 it.volume.d it.level v.d_lt
    have hmod : (it.depth + 1) % U32 = it.depth + 1 := Nat.mod_eq_of_lt (by omega)
    simp only [hmod]
    have hN : depthSum it.volume.d 0 (it.level + 1) ≤ depthSum it.volume.d 0 it.volume.mips := by
      have h1 := depthSum_split it.volume.d (it.level + 1) 0 (it.volume.mips - (it.level + 1))
      have e : it.level + 1 + (it.volume.mips - (it.level + 1)) = it.volume.mips := by omega
      rw [e] at h1; omega
    rw [depthSum_succ_right] at hN
    simp only [Nat.zero_add] at hN
    by_cases hn : it.depth + 1 < mipSize it.volume.d it.level
    · rw [if_pos hn]
      refine ⟨_, rfl, ⟨v.valid, v.mips_pos, v.mips_lt, v.d_lt, v.d_pos, Or.inl ⟨hl, hn⟩⟩, ?_, rfl⟩
      show depthSum it.volume.d 0 it.level + (it.depth + 1) =
        min (depthSum it.volume.d 0 it.level + it.depth + 1) (depthSum it.volume.d 0 it.volume.mips)
      rw [Nat.min_def]; split <;> omega
    · rw [if_neg hn]
      have hm := v.mips_lt
      have hmod2 : (it.level + 1) % U8 = it.level + 1 := Nat.mod_eq_of_lt (by unfold U8; omega)
      rw [hmod2]
      refine ⟨_, rfl, ⟨v.valid, v.mips_pos, v.mips_lt, v.d_lt, v.d_pos, ?_⟩, ?_, rfl⟩
      · show (it.level + 1 < it.volume.mips ∧ 0 < mipSize it.volume.d (it.level + 1)) ∨
          (it.level + 1 = it.volume.mips ∧ 0 = 0)
        by_cases he : it.level + 1 < it.volume.mips
        · exact Or.inl ⟨he, mipSize_pos _ _⟩
        · exact Or.inr ⟨by omega, rfl⟩
      · show depthSum it.volume.d 0 (it.level + 1) + 0 =
          min (depthSum it.volume.d 0 it.level + it.depth + 1) (depthSum it.volume.d 0 it.volume.mips)
        rw [depthSum_succ_right, Nat.min_def]
        simp only [Nat.zero_add]
        split <;> omega
  · rw [if_neg hl]
    refine ⟨it, rfl, v, ?_, rfl⟩
    have h1 := v.abs_le
    have : it.level = it.volume.mips ∧ it.depth = 0 := by
      cases v.cursor with
      | inl h => omega
      | inr h => exact h
    unfold VolIter.abs VolIter.N at *
    rw [this.1, this.2] at *
    rw [Nat.min_def]; split <;> omega

theorem VolIter.Inv.rewindP {it : VolIter} (v : it.Inv) :
    ∃ it', it.rewindP = some it' ∧ it'.Inv ∧ it'.abs = it.abs - 1 ∧ it'.volume = it.volume := by
  unfold VolIter.rewindP
  by_cases hd : it.depth > 0
  · rw [if_pos hd]
    refine ⟨_, rfl, ⟨v.valid, v.mips_pos, v.mips_lt, v.d_lt, v.d_pos, ?_⟩, ?_, rfl⟩
    · cases v.cursor with
      | inl h =>
        exact Or.inl ⟨h.1, by show it.depth - 1 < mipSize it.volume.d it.level; omega⟩
      | inr h => omega
    · show depthSum it.volume.d 0 it.level + (it.depth - 1) = depthSum it.volume.d 0 it.level + it.depth - 1
      omega
  · rw [if_neg hd]
    by_cases hl : it.level > 0
    · rw [if_pos hl]
      have hle := v.level_le
      rw [v.valid.getP, if_pos (by omega : it.level - 1 < it.volume.mips)]
      simp only
      have hdl := mipSize_lt_U32 it.volume.d (it.level - 1) v.d_lt
      have hdp := mipSize_pos it.volume.d (it.level - 1)
      have hmod : (mipSize it.volume.d (it.level - 1) + U32 - 1) % U32 =
          mipSize it.volume.d (it.level - 1) - 1 := by
        have : mipSize it.volume.d (it.level - 1) + U32 - 1 =
            (mipSize it.volume.d (it.level - 1) - 1) + U32 := by omega
        rw [this, Nat.add_mod_right]
        exact Nat.mod_eq_of_lt (by omega)
      rw [hmod]
      refine ⟨_, rfl, ⟨v.valid, v.mips_pos, v.mips_lt, v.d_lt, v.d_pos, ?_⟩, ?_, rfl⟩
      · exact Or.inl ⟨by show it.level - 1 < it.volume.mips; omega,
          by show mipSize it.volume.d (it.level - 1) - 1 < mipSize it.volume.d (it.level - 1); omega⟩
      · show depthSum it.volume.d 0 (it.level - 1) + (mipSize it.volume.d (it.level - 1) - 1) =
          depthSum it.volume.d 0 it.level + it.depth - 1
        have e : it.level = (it.level - 1) + 1 := by omega
        have h2 := depthSum_succ_right it.volume.d 0 (it.level - 1)
        rw [← e] at h2
        simp only [Nat.zero_add] at h2
        omega
    · rw [if_neg hl]
      refine ⟨it, rfl, v, ?_, rfl⟩
      unfold VolIter.abs
      have : it.level = 0 := by omega
      have : it.depth = 0 := by omega
      simp [*, depthSum]

theorem volElapsedLoop_eq (vol : Volume) (hv : vol.Valid) :
    ∀ (n level acc : Nat), level + n ≤ vol.mips →
      acc + volIdeal vol.px vol.w vol.h vol.d level n < U64 →
      volElapsedLoop vol n level acc = some (acc + volIdeal vol.px vol.w vol.h vol.d level n) := by
  intro n
  induction n with
  | zero => intro level acc _ _; simp [volElapsedLoop, volIdeal]
  | succ n ih =>
    intro level acc hle hlt
    simp only [volIdeal] at hlt
    unfold volElapsedLoop
    rw [hv.getP, if_pos (by omega : level < vol.mips)]
    simp only [VolumeDesc.dataLen, Volume.sliceLen]
    rw [wMul_eq (by omega), wAdd_eq (by omega), ih _ _ (by omega) (by omega)]
    simp only [volIdeal]; congr 1; omega

theorem VolIter.Inv.elapsed_le {it : VolIter} (v : it.Inv) :
    it.elapsed ≤ volIdeal it.volume.px it.volume.w it.volume.h it.volume.d 0 it.volume.mips := by
  unfold VolIter.elapsed
  cases v.cursor with
  | inl h =>
    have h1 := v.valid.level_fits h.1
    have h2 : it.depth * it.volume.sliceLen it.level ≤
        it.volume.sliceLen it.level * mipSize it.volume.d it.level := by
      rw [Nat.mul_comm]; exact Nat.mul_le_mul_left _ (by omega)
    omega
  | inr h => rw [h.1, h.2]; omega

/-- `elapsed_bytes()` of the volume iterator is the ideal offset of the cursor. -/
theorem VolIter.Inv.elapsedP {it : VolIter} (v : it.Inv) : it.elapsedP = some it.elapsed := by
  unfold VolIter.elapsedP
  have hfit := v.valid.fits
  have hle := v.elapsed_le
  have hpre := volIdeal_prefix_le it.volume.px it.volume.w it.volume.h it.volume.d 0 it.level
    it.volume.mips v.level_le
  rw [volElapsedLoop_eq it.volume v.valid _ _ _ (by have := v.level_le; omega) (by omega)]
  simp only [Nat.zero_add]
  rw [v.valid.getP]
  by_cases hl : it.level < it.volume.mips
  · rw [if_pos hl]
    have hdp := mipSize_pos it.volume.d it.level
    simp only [VolumeDesc.getDepthSlice, hdp, if_true]
    unfold VolIter.elapsed at hle ⊢
    have e : it.volume.sliceLen it.level * it.depth = it.depth * it.volume.sliceLen it.level :=
      Nat.mul_comm _ _
    rw [wMul_eq (by omega), wAdd_eq (by omega), e]
  · rw [if_neg hl]
    have : it.level = it.volume.mips ∧ it.depth = 0 := by
      cases v.cursor with
      | inl h => omega
      | inr h => exact h
    unfold VolIter.elapsed
    rw [this.2]; simp

/-- `skip_mipmaps()` on a volume: error inside a level, no-op at level 0 and at the end,
otherwise jump to the end, returning exactly the bytes in between. -/
theorem VolIter.Inv.skipMipmapsP {it : VolIter} (v : it.Inv) :
    (it.depth ≠ 0 → it.skipMipmapsP = some (.error ())) ∧
    (it.depth = 0 → ∃ it' n, it.skipMipmapsP = some (.ok (it', n)) ∧ it'.Inv ∧
      it'.volume = it.volume ∧ it'.elapsed = it.elapsed + n ∧
      (if it.level = 0 ∨ it.level ≥ it.volume.mips then it' = it ∧ n = 0
       else it'.level = it.volume.mips ∧ it'.depth = 0)) := by
  unfold VolIter.skipMipmapsP
  constructor
  · intro hd; rw [if_pos hd]
  · intro hd
    have hnd : ¬ it.depth ≠ 0 := by omega
    rw [if_neg hnd]
    by_cases hc : it.level = 0 ∨ it.level ≥ it.volume.mips
    · rw [if_pos hc]
      refine ⟨it, 0, rfl, v, rfl, rfl, ?_⟩
      rw [if_pos hc]; exact ⟨rfl, rfl⟩
    · rw [if_neg hc, v.valid.iterMipsP]
      have hl : it.level < it.volume.mips := by omega
      refine ⟨_, _, rfl, ⟨v.valid, v.mips_pos, v.mips_lt, v.d_lt, v.d_pos, Or.inr ⟨rfl, hd⟩⟩,
        rfl, ?_, ?_⟩
      · unfold sumVolLens
        rw [specVol_drop _ _ _ _ _ _ _ _ (by omega)]
        have hsplit := volIdeal_split it.volume.px it.volume.w it.volume.h it.volume.d it.level 0
          (it.volume.mips - it.level)
        have e : it.level + (it.volume.mips - it.level) = it.volume.mips := by omega
        rw [e] at hsplit
        simp only [Nat.zero_add] at hsplit ⊢
        have hfit := v.valid.fits
        rw [foldl_specVol _ _ _ _ _ _ _ _ (by omega)]
        show volIdeal it.volume.px it.volume.w it.volume.h it.volume.d 0 it.volume.mips
          + it.depth * it.volume.sliceLen it.volume.mips = it.elapsed + _
        unfold VolIter.elapsed
        rw [hd]; omega
      · rw [if_neg hc]; exact ⟨rfl, hd⟩


/-! ### `advance` adds the length of the current surface to the elapsed bytes -/

theorem TexIter.Inv.advance_elapsed {it : TexIter} (v : it.Inv) (hi : it.idx < it.len) :
    it.advance.elapsed = it.elapsed +
      it.first.px.surfIdeal (mipSize it.first.w it.level) (mipSize it.first.h it.level) := by
  have hl : it.level < it.first.mips := by
    cases v.cursor with
    | inl h' => exact h'.2
    | inr h' => omega
  have hm := v.mips_lt
  have hlen := v.len_lt
  unfold TexIter.advance
  rw [if_pos hi]
  have hmod : (it.level + 1) % U8 = it.level + 1 := Nat.mod_eq_of_lt (by unfold U8; omega)
  rw [hmod]
  have hsucc := texIdeal_succ_right it.first.px it.first.w it.first.h 0 it.level
  simp only [Nat.zero_add] at hsucc
  by_cases hn : it.level + 1 < it.first.mips
  · rw [if_pos hn]
    show it.idx * it.T + texIdeal it.first.px it.first.w it.first.h 0 (it.level + 1) = _
    unfold TexIter.elapsed; omega
  · rw [if_neg hn]
    have hmod2 : (it.idx + 1) % U32 = it.idx + 1 := Nat.mod_eq_of_lt (by omega)
    rw [hmod2]
    show (it.idx + 1) * it.T + texIdeal it.first.px it.first.w it.first.h 0 0 = _
    have e : it.level + 1 = it.first.mips := by omega
    rw [e] at hsucc
    unfold TexIter.elapsed TexIter.T
    simp only [texIdeal, Nat.add_zero]
    rw [Nat.add_mul, Nat.one_mul]; omega

theorem TexIter.Inv.rewind_elapsed_le {it : TexIter} (v : it.Inv) :
    it.rewind.elapsed ≤ it.elapsed := by
  unfold TexIter.rewind
  by_cases hl : it.level > 0
  · rw [if_pos hl]
    show it.idx * it.T + texIdeal it.first.px it.first.w it.first.h 0 (it.level - 1) ≤ it.elapsed
    have := texIdeal_prefix_le it.first.px it.first.w it.first.h 0 (it.level - 1) it.level (by omega)
    unfold TexIter.elapsed; omega
  · rw [if_neg hl]
    by_cases hi : it.idx > 0
    · rw [if_pos hi]
      have hm := v.mips_lt
      have hp := v.mips_pos
      have hmod : (it.first.mips + U8 - 1) % U8 = it.first.mips - 1 := by
        have : it.first.mips + U8 - 1 = (it.first.mips - 1) + U8 := by omega
        rw [this, Nat.add_mod_right]
        exact Nat.mod_eq_of_lt (by unfold U8; omega)
      rw [hmod]
      show (it.idx - 1) * it.T + texIdeal it.first.px it.first.w it.first.h 0 (it.first.mips - 1)
        ≤ it.elapsed
      have h1 := texIdeal_prefix_le it.first.px it.first.w it.first.h 0 (it.first.mips - 1)
        it.first.mips (by omega)
      have e : it.idx = (it.idx - 1) + 1 := by omega
      unfold TexIter.elapsed TexIter.T at *
      rw [e, Nat.add_mul, Nat.one_mul]
      simp only [Nat.add_sub_cancel]
      omega
    · rw [if_neg hi]; exact Nat.le_refl _

theorem VolIter.Inv.advance_elapsed {it : VolIter} (v : it.Inv) (hl : it.level < it.volume.mips) :
    ∃ it', it.advanceP = some it' ∧ it'.elapsed = it.elapsed + it.volume.sliceLen it.level := by
  have hd : it.depth < mipSize it.volume.d it.level := by
    cases v.cursor with
    | inl h => exact h.2
    | inr h => omega
  have hdl := mipSize_lt_U32 it.volume.d it.level v.d_lt
  unfold VolIter.advanceP
  rw [v.valid.getP, if_pos hl]
  have hmod : (it.depth + 1) % U32 = it.depth + 1 := Nat.mod_eq_of_lt (by omega)
  simp only [hmod]
  by_cases hn : it.depth + 1 < mipSize it.volume.d it.level
  · rw [if_pos hn]
    refine ⟨_, rfl, ?_⟩
    show volIdeal it.volume.px it.volume.w it.volume.h it.volume.d 0 it.level
      + (it.depth + 1) * it.volume.sliceLen it.level = _
    unfold VolIter.elapsed
    rw [Nat.add_mul, Nat.one_mul]; omega
  · rw [if_neg hn]
    have hm := v.mips_lt
    have hmod2 : (it.level + 1) % U8 = it.level + 1 := Nat.mod_eq_of_lt (by unfold U8; omega)
    rw [hmod2]
    refine ⟨_, rfl, ?_⟩
    show volIdeal it.volume.px it.volume.w it.volume.h it.volume.d 0 (it.level + 1)
      + 0 * it.volume.sliceLen (it.level + 1) = _
    have h1 := volIdeal_succ_right it.volume.px it.volume.w it.volume.h it.volume.d 0 it.level
    simp only [Nat.zero_add] at h1
    have e : mipSize it.volume.d it.level = it.depth + 1 := by omega
    unfold VolIter.elapsed Volume.sliceLen at *
    rw [h1, e, Nat.mul_comm (it.volume.px.surfIdeal _ _), Nat.add_mul, Nat.one_mul]
    omega

theorem VolIter.Inv.rewind_elapsed_le {it : VolIter} (v : it.Inv) :
    ∃ it', it.rewindP = some it' ∧ it'.elapsed ≤ it.elapsed := by
  unfold VolIter.rewindP
  by_cases hd : it.depth > 0
  · rw [if_pos hd]
    refine ⟨_, rfl, ?_⟩
    show volIdeal it.volume.px it.volume.w it.volume.h it.volume.d 0 it.level
      + (it.depth - 1) * it.volume.sliceLen it.level ≤ it.elapsed
    have : (it.depth - 1) * it.volume.sliceLen it.level ≤ it.depth * it.volume.sliceLen it.level :=
      Nat.mul_le_mul_right _ (by omega)
    unfold VolIter.elapsed; omega
  · rw [if_neg hd]
    by_cases hl : it.level > 0
    · rw [if_pos hl]
      have hle := v.level_le
      rw [v.valid.getP, if_pos (by omega : it.level - 1 < it.volume.mips)]
      simp only
      have hdl := mipSize_lt_U32 it.volume.d (it.level - 1) v.d_lt
      have hdp := mipSize_pos it.volume.d (it.level - 1)
      have hmod : (mipSize it.volume.d (it.level - 1) + U32 - 1) % U32 =
          mipSize it.volume.d (it.level - 1) - 1 := by
        have : mipSize it.volume.d (it.level - 1) + U32 - 1 =
            (mipSize it.volume.d (it.level - 1) - 1) + U32 := by omega
        rw [this, Nat.add_mod_right]
        exact Nat.mod_eq_of_lt (by omega)
      rw [hmod]
      refine ⟨_, rfl, ?_⟩
      show volIdeal it.volume.px it.volume.w it.volume.h it.volume.d 0 (it.level - 1)
        + (mipSize it.volume.d (it.level - 1) - 1) * it.volume.sliceLen (it.level - 1) ≤ it.elapsed
      have h1 := volIdeal_succ_right it.volume.px it.volume.w it.volume.h it.volume.d 0 (it.level - 1)
      have e : it.level - 1 + 1 = it.level := by omega
      rw [e] at h1
      simp only [Nat.zero_add] at h1
      have h2 : (mipSize it.volume.d (it.level - 1) - 1) * it.volume.sliceLen (it.level - 1) ≤
          it.volume.sliceLen (it.level - 1) * mipSize it.volume.d (it.level - 1) := by
        rw [Nat.mul_comm]; exact Nat.mul_le_mul_left _ (by omega)
      unfold VolIter.elapsed Volume.sliceLen at *
      omega
    · rw [if_neg hl]; exact ⟨it, rfl, Nat.le_refl _⟩

end Dds
