/- Helper lemmas about the iterator model (`Iter.lean`). -/
import DdsModel.Iter
import DdsModel.Proofs.Layout
namespace Dds

/-! ### explicit element formula of `specMips` -/

theorem texIdeal_split (px : PixelInfo) (w h : Nat) : ∀ (a level b : Nat),
    texIdeal px w h level (a + b) = texIdeal px w h level a + texIdeal px w h (level + a) b := by
  intro a
  induction a with
  | zero => intro level b; simp [texIdeal]
  | succ a ih =>
    intro level b
    have : a + 1 + b = (a + b) + 1 := by omega
    rw [this]
    simp only [texIdeal]
    rw [ih (level + 1) b]
    have : level + 1 + a = level + (a + 1) := by omega
    rw [this]; omega

theorem texIdeal_succ_right (px : PixelInfo) (w h level a : Nat) :
    texIdeal px w h level (a + 1) =
      texIdeal px w h level a + px.surfIdeal (mipSize w (level + a)) (mipSize h (level + a)) := by
  rw [texIdeal_split px w h a level 1]
  simp [texIdeal]

theorem specMips_getElem_eq (px : PixelInfo) (w h : Nat) : ∀ (n level off j : Nat), j < n →
    (specMips px w h level n off)[j]? =
      some ⟨mipSize w (level + j), mipSize h (level + j), off + texIdeal px w h level j,
            px.surfIdeal (mipSize w (level + j)) (mipSize h (level + j))⟩ := by
  intro n
  induction n with
  | zero => intro level off j hj; omega
  | succ n ih =>
    intro level off j hj
    cases j with
    | zero => simp [specMips, texIdeal]
    | succ j =>
      simp only [specMips, List.getElem?_cons_succ]
      rw [ih (level + 1) _ j (by omega)]
      simp only [texIdeal]
      have e : level + 1 + j = level + (j + 1) := by omega
      rw [e, Nat.add_assoc]

theorem specMips_getElem_none (px : PixelInfo) (w h : Nat) (n level off j : Nat) (hj : n ≤ j) :
    (specMips px w h level n off)[j]? = none := by
  apply List.getElem?_eq_none
  rw [specMips_length]; exact hj

/-! ### sums of lengths -/

theorem sumLens_foldl (l : List Surface) : ∀ acc : Nat,
    l.foldl (fun a s => wAdd a s.len) acc = l.foldl (fun a s => wAdd a s.len) acc := fun _ => rfl

theorem foldl_specMips (px : PixelInfo) (w h : Nat) : ∀ (n level off acc : Nat),
    acc + texIdeal px w h level n < U64 →
    (specMips px w h level n off).foldl (fun a s => wAdd a s.len) acc
      = acc + texIdeal px w h level n := by
  intro n
  induction n with
  | zero => intro level off acc _; simp [specMips, texIdeal]
  | succ n ih =>
    intro level off acc hlt
    simp only [texIdeal] at hlt
    simp only [specMips, List.foldl_cons, texIdeal]
    rw [wAdd_eq (by omega), ih _ _ _ (by omega)]
    omega

theorem specMips_drop (px : PixelInfo) (w h : Nat) : ∀ (k n level off : Nat), k ≤ n →
    (specMips px w h level n off).drop k =
      specMips px w h (level + k) (n - k) (off + texIdeal px w h level k) := by
  intro k
  induction k with
  | zero => intro n level off _; simp [texIdeal]
  | succ k ih =>
    intro n level off hk
    cases n with
    | zero => omega
    | succ n =>
      simp only [specMips, List.drop_succ_cons]
      rw [ih n (level + 1) _ (by omega)]
      simp only [texIdeal]
      have e1 : level + 1 + k = level + (k + 1) := by omega
      have e2 : n + 1 - (k + 1) = n - k := by omega
      rw [e1, e2, Nat.add_assoc]

/-! ### the texture iterator -/

/-- the invariant of `TextureSurfaceIterator` -/
structure TexIter.Inv (it : TexIter) : Prop where
  wf : it.first.px.WF
  off0 : it.first.offsetIndex = 0
  mips_pos : 1 ≤ it.first.mips
  mips_lt : it.first.mips < 256
  len_lt : it.len < U32
  fits : it.len * texIdeal it.first.px it.first.w it.first.h 0 it.first.mips < U64
  tex : texIdeal it.first.px it.first.w it.first.h 0 it.first.mips < U64
  short : it.first.shortLen = toShortLen (texIdeal it.first.px it.first.w it.first.h 0 it.first.mips)
  cursor : (it.idx < it.len ∧ it.level < it.first.mips) ∨ (it.idx = it.len ∧ it.level = 0)

/-- length of one array element -/
def TexIter.T (it : TexIter) : Nat := texIdeal it.first.px it.first.w it.first.h 0 it.first.mips

/-- the abstraction: index into the flattened surface list -/
def TexIter.abs (it : TexIter) : Nat := it.idx * it.first.mips + it.level

/-- number of surfaces -/
def TexIter.N (it : TexIter) : Nat := it.len * it.first.mips

/-- ideal number of bytes before the cursor -/
def TexIter.elapsed (it : TexIter) : Nat :=
  it.idx * it.T + texIdeal it.first.px it.first.w it.first.h 0 it.level

theorem TexIter.Inv.firstValid {it : TexIter} (v : it.Inv) : it.first.Valid := by
  refine ⟨v.wf, ?_, ?_, v.short⟩
  · rw [v.off0]; have := v.tex; omega
  · rw [v.off0]; simp [U32]

theorem TexIter.Inv.abs_le {it : TexIter} (v : it.Inv) : it.abs ≤ it.N := by
  unfold TexIter.abs TexIter.N
  cases v.cursor with
  | inl h =>
    have : (it.idx + 1) * it.first.mips ≤ it.len * it.first.mips :=
      Nat.mul_le_mul_right _ (by omega)
    rw [Nat.add_mul] at this; omega
  | inr h => rw [h.1, h.2]; omega

theorem TexIter.Inv.abs_lt_iff {it : TexIter} (v : it.Inv) : it.abs < it.N ↔ it.idx < it.len := by
  unfold TexIter.abs TexIter.N
  cases v.cursor with
  | inl h =>
    have : (it.idx + 1) * it.first.mips ≤ it.len * it.first.mips :=
      Nat.mul_le_mul_right _ (by omega)
    rw [Nat.add_mul] at this
    constructor
    · intro _; exact h.1
    · intro _; omega
  | inr h => rw [h.1, h.2]; omega

/-- `current()` reports the surface at the cursor (size, length, level) or nothing at the end;
it never panics. -/
theorem TexIter.Inv.currentP {it : TexIter} (v : it.Inv) :
    it.currentP =
      some (if it.idx < it.len then
        some ⟨mipSize it.first.w it.level, mipSize it.first.h it.level,
              it.first.px.surfIdeal (mipSize it.first.w it.level) (mipSize it.first.h it.level),
              it.level⟩
      else none) := by
  unfold TexIter.currentP
  by_cases h : it.idx < it.len
  · rw [if_pos h, if_pos h]
    have hl : it.level < it.first.mips := by
      cases v.cursor with
      | inl h' => exact h'.2
      | inr h' => omega
    unfold Texture.getP
    rw [v.firstValid.iterMipsP]
    simp only [Option.map_some]
    rw [specMips_getElem_eq _ _ _ _ _ _ _ hl]
    simp
  · rw [if_neg h, if_neg h]

theorem TexIter.Inv.advance {it : TexIter} (v : it.Inv) :
    it.advance.Inv ∧ it.advance.abs = min (it.abs + 1) it.N ∧ it.advance.first = it.first ∧
      it.advance.len = it.len := by
  unfold TexIter.advance
  by_cases h : it.idx < it.len
  · rw [if_pos h]
    have hl : it.level < it.first.mips := by
      cases v.cursor with
      | inl h' => exact h'.2
      | inr h' => omega
    have hm := v.mips_lt
    have hmod : (it.level + 1) % U8 = it.level + 1 := Nat.mod_eq_of_lt (by unfold U8; omega)
    simp only [hmod]
    have hN : (it.idx + 1) * it.first.mips ≤ it.len * it.first.mips :=
      Nat.mul_le_mul_right _ (by omega)
    rw [Nat.add_mul, Nat.one_mul] at hN
    by_cases hn : it.level + 1 < it.first.mips
    · rw [if_pos hn]
      refine ⟨⟨v.wf, v.off0, v.mips_pos, v.mips_lt, v.len_lt, v.fits, v.tex, v.short, ?_⟩, ?_, rfl, rfl⟩
      · exact Or.inl ⟨h, hn⟩
      · show it.idx * it.first.mips + (it.level + 1) = min (it.idx * it.first.mips + it.level + 1) (it.len * it.first.mips)
        rw [Nat.min_def]; split <;> omega
    · rw [if_neg hn]
      have hlen := v.len_lt
      have hmod2 : (it.idx + 1) % U32 = it.idx + 1 := Nat.mod_eq_of_lt (by omega)
      simp only [hmod2]
      refine ⟨⟨v.wf, v.off0, v.mips_pos, v.mips_lt, v.len_lt, v.fits, v.tex, v.short, ?_⟩, ?_, rfl, rfl⟩
      · show (it.idx + 1 < it.len ∧ 0 < it.first.mips) ∨ (it.idx + 1 = it.len ∧ 0 = 0)
        have := v.mips_pos
        by_cases he : it.idx + 1 < it.len
        · exact Or.inl ⟨he, by omega⟩
        · exact Or.inr ⟨by omega, rfl⟩
      · show (it.idx + 1) * it.first.mips + 0 = min (it.idx * it.first.mips + it.level + 1) (it.len * it.first.mips)
        rw [Nat.add_mul, Nat.one_mul, Nat.min_def]; split <;> omega
  · rw [if_neg h]
    refine ⟨v, ?_, rfl, rfl⟩
    have h1 := v.abs_le
    have h2 := v.abs_lt_iff
    rw [Nat.min_def]; split <;> omega

theorem TexIter.Inv.rewind {it : TexIter} (v : it.Inv) :
    it.rewind.Inv ∧ it.rewind.abs = it.abs - 1 ∧ it.rewind.first = it.first ∧
      it.rewind.len = it.len := by
  unfold TexIter.rewind
  by_cases hl : it.level > 0
  · rw [if_pos hl]
    refine ⟨⟨v.wf, v.off0, v.mips_pos, v.mips_lt, v.len_lt, v.fits, v.tex, v.short, ?_⟩, ?_, rfl, rfl⟩
    · cases v.cursor with
      | inl h => exact Or.inl ⟨h.1, by show it.level - 1 < it.first.mips; omega⟩
      | inr h => omega
    · show it.idx * it.first.mips + (it.level - 1) = it.idx * it.first.mips + it.level - 1
      omega
  · rw [if_neg hl]
    by_cases hi : it.idx > 0
    · rw [if_pos hi]
      have hm := v.mips_lt
      have hp := v.mips_pos
      have hmod : (it.first.mips + U8 - 1) % U8 = it.first.mips - 1 := by
        have : it.first.mips + U8 - 1 = (it.first.mips - 1) + U8 := by omega
        rw [this, Nat.add_mod_right]
        exact Nat.mod_eq_of_lt (by unfold U8; omega)
      simp only [hmod]
      have hidx : it.idx ≤ it.len := by
        cases v.cursor with
        | inl h => omega
        | inr h => omega
      refine ⟨⟨v.wf, v.off0, v.mips_pos, v.mips_lt, v.len_lt, v.fits, v.tex, v.short, ?_⟩, ?_, rfl, rfl⟩
      · exact Or.inl ⟨by show it.idx - 1 < it.len; omega, by show it.first.mips - 1 < it.first.mips; omega⟩
      · show (it.idx - 1) * it.first.mips + (it.first.mips - 1) = it.idx * it.first.mips + it.level - 1
        have : it.idx = (it.idx - 1) + 1 := by omega
        rw [this, Nat.add_mul, Nat.one_mul]
        simp only [Nat.add_sub_cancel]
        omega
    · rw [if_neg hi]
      refine ⟨v, ?_, rfl, rfl⟩
      unfold TexIter.abs
      have : it.idx = 0 := by omega
      have : it.level = 0 := by omega
      simp [*]

theorem texElapsedLoop_eq (t : Texture) (v : t.Valid) (h0 : t.offsetIndex = 0) :
    ∀ (n level acc : Nat), level + n ≤ t.mips →
      acc + texIdeal t.px t.w t.h level n < U64 →
      texElapsedLoop t n level acc = some (acc + texIdeal t.px t.w t.h level n) := by
  intro n
  induction n with
  | zero => intro level acc _ _; simp [texElapsedLoop, texIdeal]
  | succ n ih =>
    intro level acc hle hlt
    simp only [texIdeal] at hlt
    unfold texElapsedLoop Texture.getP
    rw [v.iterMipsP]
    simp only [Option.map_some]
    rw [specMips_getElem_eq _ _ _ _ _ _ _ (by omega : level < t.mips)]
    simp only [Nat.zero_add]
    rw [wAdd_eq (by omega), ih _ _ (by omega) (by omega)]
    simp only [texIdeal]; congr 1; omega

theorem TexIter.Inv.idx_le {it : TexIter} (v : it.Inv) : it.idx ≤ it.len := by
  cases v.cursor with
  | inl h => omega
  | inr h => omega

theorem TexIter.Inv.level_le {it : TexIter} (v : it.Inv) : it.level ≤ it.first.mips := by
  cases v.cursor with
  | inl h => omega
  | inr h => omega

theorem texIdeal_prefix_le (px : PixelInfo) (w h level a b : Nat) (hab : a ≤ b) :
    texIdeal px w h level a ≤ texIdeal px w h level b := by
  have : b = a + (b - a) := by omega
  rw [this, texIdeal_split]; omega

/-- ideal elapsed bytes never exceed the total -/
theorem TexIter.Inv.elapsed_le {it : TexIter} (v : it.Inv) : it.elapsed ≤ it.len * it.T := by
  unfold TexIter.elapsed
  cases v.cursor with
  | inl h =>
    have h1 : (it.idx + 1) * it.T ≤ it.len * it.T := Nat.mul_le_mul_right _ (by omega)
    have h2 := texIdeal_prefix_le it.first.px it.first.w it.first.h 0 it.level it.first.mips (by omega)
    rw [Nat.add_mul, Nat.one_mul] at h1
    unfold TexIter.T at *
    omega
  | inr h => rw [h.1, h.2]; simp [texIdeal]

/-- `elapsed_bytes()` is the ideal offset of the cursor; no panic, no wrap. -/
theorem TexIter.Inv.elapsedP {it : TexIter} (v : it.Inv) : it.elapsedP = some it.elapsed := by
  unfold TexIter.elapsedP
  rw [v.firstValid.dataLenP]
  simp only
  have hle := v.elapsed_le
  have hfit := v.fits
  unfold TexIter.elapsed TexIter.T at hle
  have h1 : it.idx * texIdeal it.first.px it.first.w it.first.h 0 it.first.mips ≤
      it.len * texIdeal it.first.px it.first.w it.first.h 0 it.first.mips :=
    Nat.mul_le_mul_right _ v.idx_le
  have hm : it.first.len * it.idx < U64 := by
    unfold Texture.len; rw [Nat.mul_comm]; omega
  rw [wMul_eq hm]
  rw [texElapsedLoop_eq it.first v.firstValid v.off0 _ _ _ (by have := v.level_le; omega)]
  · unfold TexIter.elapsed TexIter.T Texture.len; rw [Nat.mul_comm]
  · unfold Texture.len; rw [Nat.mul_comm]; omega

/-- `skip_mipmaps()` moves to level 0 of the next element (only from a level ≠ 0) and
returns exactly the bytes in between. -/
theorem TexIter.Inv.skipMipmapsP {it : TexIter} (v : it.Inv) :
    ∃ it' n, it.skipMipmapsP = some (it', n) ∧ it'.Inv ∧ it'.first = it.first ∧ it'.len = it.len ∧
      it'.elapsed = it.elapsed + n ∧
      (if it.idx < it.len ∧ it.level ≠ 0 then it'.idx = it.idx + 1 ∧ it'.level = 0
       else it' = it ∧ n = 0) := by
  unfold TexIter.skipMipmapsP
  by_cases h : it.idx < it.len ∧ it.level ≠ 0
  · rw [if_pos h, v.firstValid.iterMipsP]
    have hl : it.level < it.first.mips := by
      cases v.cursor with
      | inl h' => exact h'.2
      | inr h' => omega
    have hlen := v.len_lt
    have hmod2 : (it.idx + 1) % U32 = it.idx + 1 := Nat.mod_eq_of_lt (by omega)
    simp only [hmod2]
    refine ⟨_, _, rfl, ⟨v.wf, v.off0, v.mips_pos, v.mips_lt, v.len_lt, v.fits, v.tex, v.short, ?_⟩,
      rfl, rfl, ?_, ?_⟩
    · show (it.idx + 1 < it.len ∧ 0 < it.first.mips) ∨ (it.idx + 1 = it.len ∧ 0 = 0)
      have := v.mips_pos
      by_cases he : it.idx + 1 < it.len
      · exact Or.inl ⟨he, by omega⟩
      · exact Or.inr ⟨by omega, rfl⟩
    · unfold sumLens
      rw [specMips_drop _ _ _ _ _ _ _ (by omega)]
      have hsplit := texIdeal_split it.first.px it.first.w it.first.h it.level 0 (it.first.mips - it.level)
      have e : it.level + (it.first.mips - it.level) = it.first.mips := by omega
      rw [e] at hsplit
      rw [foldl_specMips]
      · show (it.idx + 1) * it.T + texIdeal it.first.px it.first.w it.first.h 0 0 = _
        unfold TexIter.elapsed TexIter.T
        simp only [texIdeal, Nat.add_zero, Nat.zero_add] at hsplit ⊢
        rw [Nat.add_mul, Nat.one_mul]; omega
      · have := v.tex
        simp only [Nat.zero_add] at hsplit ⊢
        omega
    · rw [if_pos h]; exact ⟨rfl, rfl⟩
  · rw [if_neg h]
    refine ⟨it, 0, rfl, v, rfl, rfl, rfl, ?_⟩
    rw [if_neg h]; exact ⟨rfl, rfl⟩

end Dds
