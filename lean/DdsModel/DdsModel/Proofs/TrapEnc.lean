/-
C15 (encoder loops, part 1): the trapping mirrors of `TrapEnc.lean` return `some` of the write sizes of
`EncLen.lean` for every view that satisfies C20's invariant.
-/
import DdsModel.TrapEnc
import DdsModel.Proofs.EncLen
import DdsModel.Proofs.TrapUnc
import DdsModel.Theorems.C20
namespace Dds.TrapEnc
open Dds Dds.Trap

/-- unfold the Option monad of an encoder mirror and discharge every trap condition by `omega` -/
macro "enc_simp" "[" ls:Lean.Parser.Tactic.simpLemma,* "]" : tactic =>
  `(tactic| simp (disch := omega) only [$ls,*, Dds.TrapEnc.mulU_of_lt, Dds.TrapEnc.addU_of_lt, Dds.TrapEnc.remU_of_ne,
      Dds.TrapEnc.divCeilU_of_ne, Dds.TrapEnc.sliceTo_of_le, Dds.TrapEnc.sliceFrom_of_le, Dds.TrapEnc.sliceRange_of,
      Dds.TrapEnc.idxLen_of_lt, Dds.TrapEnc.chunksT_of_ne, Dds.TrapEnc.copyFromSliceT_of_eq,
      Dds.TrapEnc.splitAtT_of_le, Dds.TrapEnc.allocT_of_le,
      Dds.Trap.subU_of_le, Dds.Trap.div_of_ne, Dds.Trap.dbgP_of, Dds.TrapUnc.dbgP_true, Dds.Trap.bind_some',
      Dds.Trap.pure_some'])

/-! ## what is assumed of a view -/

/-- the views the public API can hand to an encoder: C20's invariant (`ImageView::new`, `new_with`, `cropped`
establish it: `C20.new_with_inv`, `C20.crop_spec`), the colour's bytes per pixel, and two facts about Rust values:
a slice has at most `isize::MAX` bytes and a `usize` is below `2^64`. -/
structure VOK (v : View) (c : Color) : Prop where
  inv : C20.Inv v
  bpp : v.bpp = c.bpp
  len : v.len ≤ I64MAX
  pitch : v.pitch < U64

/-- colours of the library: 1, 3 or 4 channels of 1, 2 or 4 bytes -/
def Color.OK (c : Color) : Prop := c.psize = 1 ∨ c.psize = 2 ∨ c.psize = 4

theorem chanCount_pos (ch : Unc.Channels) : 1 ≤ TrapUnc.chanCount ch ∧ TrapUnc.chanCount ch ≤ 4 := by
  cases ch <;> simp [TrapUnc.chanCount]

theorem Color.bpp_pos {c : Color} (h : c.OK) : 1 ≤ c.bpp ∧ c.bpp ≤ 16 := by
  have := chanCount_pos c.ch
  unfold Color.bpp
  rcases h with h | h | h <;> rw [h] <;> omega

/-! ## arithmetic and list helpers -/

theorem mul_le_of_le_div {a b n : Nat} (h : a ≤ n / b) : a * b ≤ n :=
  Nat.le_trans (Nat.mul_le_mul_right b h) (Nat.div_mul_le_self n b)

theorem divCeil_add_mul (a k b : Nat) (hb : 0 < b) : divCeil (a + k * b) b = divCeil a b + k := by
  rw [divCeil_eq _ _ hb, divCeil_eq _ _ hb]
  have : a + k * b + b - 1 = (a + b - 1) + k * b := by omega
  rw [this, Nat.add_mul_div_right _ _ hb]

theorem divCeil_small {a b : Nat} (h1 : 1 ≤ a) (h2 : a ≤ b) : divCeil a b = 1 := by
  rw [divCeil_eq _ _ (by omega)]
  have : a + b - 1 = (a - 1) + 1 * b := by omega
  rw [this, Nat.add_mul_div_right _ _ (by omega), Nat.div_eq_of_lt (by omega)]

theorem divCeil_zero (b : Nat) : divCeil 0 b = 0 := by simp [divCeil]

theorem map_const_range {α} (n : Nat) (x : α) : ((List.range n).map fun _ => x) = List.replicate n x := by
  induction n with
  | zero => rfl
  | succ n ih => rw [List.range_succ, List.map_append, ih, List.replicate_succ']; rfl

/-- `chunks` does not depend on the fuel once it covers the slice -/
theorem chunkLens_fuel (n : Nat) (hn : 1 ≤ n) : ∀ (f f' len : Nat), len ≤ f → len ≤ f' →
    chunkLens n f len = chunkLens n f' len := by
  intro f
  induction f with
  | zero =>
    intro f' len h _
    have : len = 0 := by omega
    subst this
    cases f' <;> simp [chunkLens]
  | succ f ih =>
    intro f' len h h'
    by_cases h0 : len = 0
    · subst h0; cases f' <;> simp [chunkLens]
    · cases f' with
      | zero => omega
      | succ f' =>
        unfold chunkLens
        rw [if_neg h0, if_neg h0]
        have hm : 1 ≤ min n len := by rw [Nat.min_def]; split <;> omega
        rw [ih f' (len - min n len) (by omega) (by omega)]

/-- `data.chunks(buffer_pixels * bpp)` of `T` whole pixels = the chunks of `T` pixels by `buffer_pixels`, in bytes -/
theorem chunkLens_scale (n k : Nat) (hn : 1 ≤ n) (hk : 1 ≤ k) : ∀ (f T : Nat), T ≤ f →
    chunkLens (n * k) (T * k) (T * k) = (chunkLens n f T).map (· * k) := by
  intro f
  induction f with
  | zero =>
    intro T h
    have : T = 0 := by omega
    subst this; simp [chunkLens]
  | succ f ih =>
    intro T h
    by_cases h0 : T = 0
    · subst h0; simp [chunkLens]
    · have hT1 : 1 ≤ T := by omega
      have hT : 1 ≤ T * k := Nat.mul_le_mul hT1 hk
      obtain ⟨g, hg⟩ : ∃ g, T * k = g + 1 := ⟨T * k - 1, by omega⟩
      have hnk : 1 ≤ n * k := Nat.mul_le_mul hn hk
      conv => lhs; arg 2; rw [hg]
      unfold chunkLens
      rw [if_neg (by omega), if_neg h0, List.map_cons]
      have hmin : min (n * k) (T * k) = min n T * k := by
        rw [Nat.min_def, Nat.min_def]
        by_cases hle : n ≤ T
        · rw [if_pos hle, if_pos (Nat.mul_le_mul_right k hle)]
        · rw [if_neg hle]
          have : ¬ n * k ≤ T * k := by
            intro hc
            exact hle (Nat.le_of_mul_le_mul_right hc (by omega))
          rw [if_neg this]
      have hm : 1 ≤ min n T := by rw [Nat.min_def]; split <;> omega
      have hml : min n T ≤ T := Nat.min_le_right _ _
      rw [hmin]
      have hrest : T * k - min n T * k = (T - min n T) * k := by rw [Nat.sub_mul]
      rw [hrest]
      have hle' : (T - min n T) * k ≤ g := by
        have : (T - min n T) * k + 1 * k ≤ T * k := by
          rw [← Nat.add_mul]; exact Nat.mul_le_mul_right k (by omega)
        omega
      rw [chunkLens_fuel (n * k) hnk g ((T - min n T) * k) _ hle' (Nat.le_refl _),
        ih (T - min n T) (by omega)]

theorem chunkLens_length (n : Nat) (hn : 1 ≤ n) : ∀ (f len : Nat), len ≤ f →
    (chunkLens n f len).length = divCeil len n := by
  intro f
  induction f with
  | zero =>
    intro len h
    have : len = 0 := by omega
    subst this; simp [chunkLens, divCeil]
  | succ f ih =>
    intro len h
    unfold chunkLens
    by_cases h0 : len = 0
    · subst h0; simp [divCeil]
    · rw [if_neg h0, List.length_cons]
      by_cases hle : n ≤ len
      · rw [Nat.min_eq_left hle, ih _ (by omega)]
        have : len = (len - n) + 1 * n := by omega
        conv => rhs; rw [this, divCeil_add_mul _ _ _ (by omega)]
      · have : min n len = len := Nat.min_eq_right (by omega)
        rw [this, ih _ (by omega), Nat.sub_self, divCeil_zero, divCeil_small (by omega) (by omega)]

/-! ## the flushes of the strided path -/

theorem fillRow_all_full (bufPx : Nat) : ∀ (fuel rowPx fill : Nat),
    ∀ x ∈ (fillRow bufPx fuel rowPx fill).1, x = bufPx := by
  intro fuel
  induction fuel with
  | zero => intro rowPx fill x hx; simp [fillRow] at hx
  | succ fuel ih =>
    intro rowPx fill x hx
    unfold fillRow at hx
    by_cases h0 : rowPx = 0
    · rw [if_pos h0] at hx; simp at hx
    · rw [if_neg h0] at hx
      by_cases hf : fill = bufPx
      · rw [if_pos hf] at hx
        simp only [List.mem_cons] at hx
        rcases hx with rfl | hx
        · rfl
        · exact ih _ _ x hx
      · rw [if_neg hf] at hx
        exact ih _ _ x hx

theorem sum_all_eq (l : List Nat) (b : Nat) (h : ∀ x ∈ l, x = b) : l.sum = l.length * b := by
  induction l with
  | nil => simp
  | cons a r ih =>
    rw [List.sum_cons, List.length_cons, ih (fun x hx => h x (List.mem_cons_of_mem _ hx)),
      h a (List.mem_cons_self ..), Nat.add_mul, Nat.one_mul, Nat.add_comm]

/-- number of `process_chunk` calls of the strided path = `ceil((fill + w·h) / buffer_pixels)` -/
theorem chunksRowsAux_length (bufPx w : Nat) (hb : 1 ≤ bufPx) : ∀ (rows fill : Nat), fill ≤ bufPx →
    (chunksRowsAux bufPx w rows fill).length = divCeil (fill + w * rows) bufPx := by
  intro rows
  induction rows with
  | zero =>
    intro fill hf
    unfold chunksRowsAux
    by_cases h : fill > 0
    · rw [if_pos h]; simp only [List.length_cons, List.length_nil, Nat.mul_zero, Nat.add_zero]
      rw [divCeil_small h hf]
    · rw [if_neg h]
      have : fill = 0 := by omega
      subst this; simp [divCeil_zero]
  | succ rows ih =>
    intro fill hf
    unfold chunksRowsAux
    simp only
    obtain ⟨h1, h2⟩ := fillRow_sum bufPx hb (w + 1) w fill (by omega) hf
    rw [sum_all_eq _ bufPx (fillRow_all_full bufPx _ _ _)] at h1
    rw [List.length_append, ih _ h2]
    generalize (fillRow bufPx (w + 1) w fill).1.length = k at h1
    generalize (fillRow bufPx (w + 1) w fill).2 = f' at h1
    have : fill + w * (rows + 1) = (f' + w * rows) + k * bufPx := by rw [Nat.mul_add]; omega
    rw [this, divCeil_add_mul _ _ _ (by omega), Nat.add_comm]

/-- every chunk handed to `process_chunk` has between 1 and `buffer_pixels` pixels (strided path) -/
theorem chunksRowsAux_le (bufPx w : Nat) (hb : 1 ≤ bufPx) : ∀ (rows fill : Nat), fill ≤ bufPx →
    ∀ x ∈ chunksRowsAux bufPx w rows fill, 1 ≤ x ∧ x ≤ bufPx := by
  intro rows
  induction rows with
  | zero =>
    intro fill hf x hx
    unfold chunksRowsAux at hx
    by_cases h : fill > 0
    · rw [if_pos h] at hx; simp at hx; omega
    · rw [if_neg h] at hx; simp at hx
  | succ rows ih =>
    intro fill hf x hx
    unfold chunksRowsAux at hx
    simp only [List.mem_append] at hx
    rcases hx with hx | hx
    · have := fillRow_all_full bufPx _ _ _ x hx; omega
    · exact ih _ (fillRow_sum bufPx hb (w + 1) w fill (by omega) hf).2 x hx

/-! ## `ImageView::is_contiguous`, `ImageView::rows` -/

theorem VOK.bpp_pos {v : View} {c : Color} (hv : VOK v c) : 1 ≤ v.bpp ∧ v.bpp ≤ 16 := ⟨hv.inv.bpp_pos, hv.inv.bpp_le⟩

/-- the last byte of row `y` lies inside the data -/
theorem VOK.row_bound {v : View} {c : Color} (hv : VOK v c) (hne : ¬ (v.w = 0 ∨ v.h = 0)) {y : Nat} (hy : y < v.h) :
    y * v.pitch + v.w * v.bpp ≤ v.len := by
  rw [hv.inv.len_eq hne]
  have : y * v.pitch ≤ (v.h - 1) * v.pitch := Nat.mul_le_mul_right _ (by omega)
  rw [Nat.mul_comm v.pitch]; omega

/-- `row_pitch * height` does not overflow — also for `height = 1` with an arbitrary pitch, and for pitches near
`isize::MAX` with `height = 2` — and the view is contiguous exactly when the pitch is the row length -/
theorem isContiguousT_eq {v : View} {c : Color} (hv : VOK v c) :
    isContiguousT v = some (decide (v.pitch = v.w * v.bpp)) := by
  have hI : I64MAX = 9223372036854775807 := rfl
  have hU : U64 = 18446744073709551616 := rfl
  have hp := hv.pitch
  have hl := hv.len
  by_cases he : v.w = 0 ∨ v.h = 0
  · obtain ⟨h1, h2, h3, h4⟩ := hv.inv.empty he
    unfold isContiguousT
    rw [h2, h3, h4, h1]
    enc_simp [Nat.zero_mul]
  · have hlen := hv.inv.len_eq he
    have hmul : v.pitch * v.h = v.pitch * (v.h - 1) + v.pitch := by
      have : v.h = (v.h - 1) + 1 := by omega
      conv => lhs; rw [this, Nat.mul_add, Nat.mul_one]
    have hlt : v.pitch * v.h < 18446744073709551616 := by
      by_cases h1 : v.h = 1
      · rw [h1, Nat.mul_one]; omega
      · have : v.pitch * 1 ≤ v.pitch * (v.h - 1) := Nat.mul_le_mul_left _ (by omega)
        omega
    unfold isContiguousT
    rw [mulU_of_lt hlt, bind_some', pure_some']
    congr 1
    apply decide_eq_decide.mpr
    constructor <;> intro h <;> omega

/-- `rows()` yields `height` slices of `width * bpp` bytes (none for an empty view); no index arithmetic overflows
and every slice is inside the data -/
theorem rowsT_eq {v : View} {c : Color} (hv : VOK v c) : rowsT v = some (List.replicate v.h (v.w * v.bpp)) := by
  have hI : I64MAX = 9223372036854775807 := rfl
  have hl := hv.len
  have hw := hv.inv.w_lt
  have hb := hv.inv.bpp_le
  have hU : U32 = 4294967296 := rfl
  have hbpr : v.w * v.bpp < 18446744073709551616 := by
    have : v.w * v.bpp ≤ v.w * 16 := Nat.mul_le_mul_left _ hb
    omega
  unfold rowsT
  by_cases he : v.w = 0 ∨ v.h = 0
  · obtain ⟨h1, h2, h3, h4⟩ := hv.inv.empty he
    rw [if_pos he, mulU_of_lt hbpr, bind_some', h2]
    rfl
  · rw [if_neg he, mulU_of_lt hbpr, bind_some']
    rw [mapT_eq_some _ (fun _ => v.w * v.bpp), map_const_range]
    intro y hy
    have hy : y < v.h := List.mem_range.mp hy
    have hb := hv.row_bound he hy
    enc_simp [Nat.add_sub_cancel_left]

/-! ## `for_each_chunk`, strided branch -/

/-- what a `copy_to_buffer` closure must accept: `p` pixels of source into `p` pixels of buffer, `1 ≤ p ≤ buffer_pixels` -/
def CopyOK (copyT : Nat → Nat → Option Unit) (bp bpp epp : Nat) : Prop :=
  ∀ p, 1 ≤ p → p ≤ bp → copyT (p * bpp) (p * epp) = some ()

theorem fillRowT_eq {bp bpp epp : Nat} {copyT : Nat → Nat → Option Unit} (hbp : 1 ≤ bp) (hbpp : 1 ≤ bpp)
    (hbpl : bp < 18446744073709551616) (hbuf : bp * epp < 18446744073709551616) (hc : CopyOK copyT bp bpp epp) :
    ∀ (fuelT fuel rowPx fill : Nat), rowPx < fuelT → rowPx < fuel → fill ≤ bp →
      rowPx * bpp < 18446744073709551616 →
      fillRowT bp (bp * epp) bpp epp copyT fuelT (rowPx * bpp) fill =
        some ((fillRow bp fuel rowPx fill).1.map (· * epp), (fillRow bp fuel rowPx fill).2) := by
  intro fuelT
  induction fuelT with
  | zero => intro fuel rowPx fill h; omega
  | succ fuelT ih =>
    intro fuel rowPx fill hfuT hfu hfill hrow
    obtain ⟨fuel, rfl⟩ : ∃ g, fuel = g + 1 := ⟨fuel - 1, by omega⟩
    unfold fillRowT fillRow
    by_cases h0 : rowPx = 0
    · subst h0; simp
    · have hne : rowPx * bpp ≠ 0 := by
        have h1 : 1 ≤ rowPx := by omega
        have : 1 * 1 ≤ rowPx * bpp := Nat.mul_le_mul h1 hbpp
        omega
      rw [if_neg hne, if_neg h0]
      have hmod : rowPx * bpp % bpp = 0 := Nat.mul_mod_left ..
      have hdiv : rowPx * bpp / bpp = rowPx := Nat.mul_div_cancel _ (by omega)
      by_cases hf : fill = bp
      · -- flush, then copy at the start of the buffer
        subst hf
        simp only [if_true]
        have hm : 1 ≤ min rowPx fill := by rw [Nat.min_def]; split <;> omega
        have hml : min rowPx fill ≤ rowPx := Nat.min_le_left _ _
        have hmb : min rowPx fill ≤ fill := Nat.min_le_right _ _
        generalize hwp : min rowPx fill = wp at hm hml hmb
        have hsrc : wp * bpp ≤ rowPx * bpp := Nat.mul_le_mul_right _ hml
        have hdst : wp * epp ≤ fill * epp := Nat.mul_le_mul_right _ hmb
        have hrest : rowPx * bpp - wp * bpp = (rowPx - wp) * bpp := by rw [Nat.sub_mul]
        have hih := ih fuel (rowPx - wp) wp (by omega) (by omega) hmb (by rw [← hrest]; omega)
        enc_simp [hmod, hdiv, Nat.sub_zero, hwp, Nat.zero_mul, Nat.zero_add, hc wp hm hmb, hrest, hih,
          List.map_cons, List.singleton_append]
      · rw [if_neg hf, if_neg hf]
        simp only [List.nil_append]
        have hm : 1 ≤ min rowPx (bp - fill) := by rw [Nat.min_def]; split <;> omega
        have hml : min rowPx (bp - fill) ≤ rowPx := Nat.min_le_left _ _
        have hmb : min rowPx (bp - fill) ≤ bp - fill := Nat.min_le_right _ _
        generalize hwp : min rowPx (bp - fill) = wp at hm hml hmb
        have hsrc : wp * bpp ≤ rowPx * bpp := Nat.mul_le_mul_right _ hml
        have hdst : (fill + wp) * epp ≤ bp * epp := Nat.mul_le_mul_right _ (by omega)
        have hdst0 : fill * epp ≤ (fill + wp) * epp := Nat.mul_le_mul_right _ (by omega)
        have hsub : (fill + wp) * epp - fill * epp = wp * epp := by rw [Nat.add_mul]; omega
        have hrest : rowPx * bpp - wp * bpp = (rowPx - wp) * bpp := by rw [Nat.sub_mul]
        have hih := ih fuel (rowPx - wp) (fill + wp) (by omega) (by omega) (by omega) (by rw [← hrest]; omega)
        enc_simp [hmod, hdiv, hwp, hsub, hc wp hm (by omega), hrest, hih, if_neg hf]

/-- all rows: the flushes are those of `EncLen.chunksRowsAux` without its final flush -/
theorem fillRowsT_eq {bp bpp epp w : Nat} {copyT : Nat → Nat → Option Unit} (hbp : 1 ≤ bp) (hbpp : 1 ≤ bpp)
    (hbpl : bp < 18446744073709551616) (hbuf : bp * epp < 18446744073709551616) (hrow : w * bpp < 18446744073709551616)
    (hc : CopyOK copyT bp bpp epp) :
    ∀ (rows fill : Nat), fill ≤ bp →
      ∃ F f', fillRowsT bp (bp * epp) bpp epp copyT (List.replicate rows (w * bpp)) fill =
          some (F.map (· * epp), f') ∧
        chunksRowsAux bp w rows fill = F ++ (if f' > 0 then [f'] else []) ∧ f' ≤ bp := by
  intro rows
  induction rows with
  | zero =>
    intro fill hf
    exact ⟨[], fill, by simp [fillRowsT], by simp [chunksRowsAux], hf⟩
  | succ rows ih =>
    intro fill hf
    have h2 := (fillRow_sum bp hbp (w + 1) w fill (by omega) hf).2
    obtain ⟨F, f', e1, e2, e3⟩ := ih (fillRow bp (w + 1) w fill).2 h2
    refine ⟨(fillRow bp (w + 1) w fill).1 ++ F, f', ?_, ?_, e3⟩
    · rw [List.replicate_succ]
      unfold fillRowsT
      -- the fuel `row.len() + 1` of the mirror covers the `w + 1` of `EncLen.fillRow`
      have key := fillRowT_eq hbp hbpp hbpl hbuf hc (w * bpp + 1) (w + 1) w fill (by
        have : w * 1 ≤ w * bpp := Nat.mul_le_mul_left _ hbpp
        omega) (by omega) hf hrow
      rw [key, bind_some', e1, bind_some', pure_some', List.map_append]
    · unfold chunksRowsAux
      simp only
      rw [e2, List.append_assoc]

/-! ## `for_each_chunk`, both branches -/

/-- pixels per `process_chunk` call: `EncLen.chunkLens` for a contiguous view, `EncLen.chunksRowsAux` for a strided one -/
def chunkPx (v : View) (bp : Nat) : List Nat :=
  if v.pitch = v.w * v.bpp then chunkLens bp (v.w * v.h) (v.w * v.h) else chunksRowsAux bp v.w v.h 0

theorem chunkPx_bounds {v : View} {bp : Nat} (hbp : 1 ≤ bp) : ∀ p ∈ chunkPx v bp, 1 ≤ p ∧ p ≤ bp := by
  intro p hp
  unfold chunkPx at hp
  by_cases hc : v.pitch = v.w * v.bpp
  · rw [if_pos hc] at hp
    have := chunkLens_le bp hbp _ _ p hp; omega
  · rw [if_neg hc] at hp
    exact chunksRowsAux_le bp v.w hbp v.h 0 (by omega) p hp

/-- the number of `process_chunk` calls is `ceil(pixels / buffer_pixels)` on both paths — what every caller computes
as `chunk_count` for its progress fraction -/
theorem chunkPx_length {v : View} {bp : Nat} (hbp : 1 ≤ bp) : (chunkPx v bp).length = divCeil (v.w * v.h) bp := by
  unfold chunkPx
  by_cases hc : v.pitch = v.w * v.bpp
  · rw [if_pos hc, chunkLens_length bp hbp _ _ (Nat.le_refl _)]
  · rw [if_neg hc, chunksRowsAux_length bp v.w hbp v.h 0 (by omega), Nat.zero_add]

theorem contiguous_len {v : View} {c : Color} (hv : VOK v c) (hc : v.pitch = v.w * v.bpp) :
    v.len = v.w * v.h * v.bpp := by
  by_cases he : v.w = 0 ∨ v.h = 0
  · obtain ⟨h1, h2, _, h4⟩ := hv.inv.empty he
    rw [h4, h1]; simp
  · rw [hv.inv.len_eq he, hc]
    have : v.h = (v.h - 1) + 1 := by omega
    conv => rhs; rw [this]
    rw [Nat.mul_add, Nat.add_mul, Nat.mul_one, Nat.mul_right_comm]

theorem forEachChunkT_eq {v : View} {c : Color} (hv : VOK v c) {bufLen epp : Nat} {copyT : Nat → Nat → Option Unit}
    (hepp : 1 ≤ epp) (hbuf : epp ≤ bufLen) (hlen : bufLen ≤ 4294967296)
    (hc : CopyOK copyT (bufLen / epp) v.bpp epp) :
    forEachChunkT v bufLen epp copyT = some ((chunkPx v (bufLen / epp)).map (· * epp)) := by
  have hbp : 1 ≤ bufLen / epp := (Nat.one_le_div_iff (by omega)).2 hbuf
  have hmul : bufLen / epp * epp ≤ bufLen := Nat.div_mul_le_self _ _
  have hble : bufLen / epp ≤ bufLen := Nat.div_le_self _ _
  have hb1 := hv.inv.bpp_pos
  have hb16 := hv.inv.bpp_le
  generalize hbpd : bufLen / epp = bp at *
  unfold forEachChunkT
  rw [div_of_ne (by omega), bind_some', hbpd, mulU_of_lt (by omega), bind_some', sliceTo_of_le hmul, bind_some',
    isContiguousT_eq hv, bind_some']
  by_cases hcg : v.pitch = v.w * v.bpp
  · -- contiguous
    have hcs : bp * v.bpp ≤ 4294967296 * 16 := Nat.mul_le_mul (by omega) hb16
    have hcs1 : 1 * 1 ≤ bp * v.bpp := Nat.mul_le_mul hbp hb1
    rw [if_pos (by simpa using hcg), mulU_of_lt (by omega), bind_some', chunksT_of_ne (by omega), bind_some',
      contiguous_len hv hcg, chunkLens_scale bp v.bpp hbp hb1 _ _ (Nat.le_refl _)]
    unfold chunkPx
    rw [if_pos hcg, mapT_eq_some _ (fun chunk => chunk / v.bpp * epp), List.map_map]
    · congr 1
      apply List.map_congr_left
      intro p _
      show p * v.bpp / v.bpp * epp = p * epp
      rw [Nat.mul_div_cancel _ (by omega)]
    · intro chunk hch
      obtain ⟨p, hp, rfl⟩ := List.mem_map.mp hch
      have hpb := chunkLens_le bp hbp _ _ p hp
      have hd : p * v.bpp / v.bpp = p := Nat.mul_div_cancel _ (by omega)
      have hpe : p * epp ≤ bp * epp := Nat.mul_le_mul_right _ hpb.1
      enc_simp [hd, hc p hpb.2 hpb.1]
  · -- strided
    have hw := hv.inv.w_lt
    have hU : U32 = 4294967296 := rfl
    have hrow : v.w * v.bpp < 18446744073709551616 := by
      have : v.w * v.bpp ≤ v.w * 16 := Nat.mul_le_mul_left _ hb16
      omega
    obtain ⟨F, f', e1, e2, e3⟩ := fillRowsT_eq (copyT := copyT) hbp hb1 (by omega) (by omega) hrow hc v.h 0 (by omega)
    rw [if_neg (by simpa using hcg), rowsT_eq hv, bind_some', e1, bind_some']
    unfold chunkPx finishT
    rw [if_neg hcg, e2]
    by_cases hf : f' > 0
    · have : f' * epp ≤ bp * epp := Nat.mul_le_mul_right _ e3
      rw [if_pos hf, if_pos hf]
      enc_simp [List.map_append, List.map_cons, List.map_nil]
    · rw [if_neg hf, if_neg hf, pure_some', List.append_nil]

/-! ## the callers of `for_each_chunk` -/

theorem mapIdxT_eq_map {α β} (f : Nat → α → Option β) (g : α → β) (l : List α)
    (h : ∀ i x, i < l.length → x ∈ l → f i x = some (g x)) : mapIdxT f l = some (l.map g) := by
  unfold mapIdxT
  rw [mapT_eq_some _ (fun p => g p.1)]
  · congr 1
    have : (fun p : α × Nat => g p.1) = g ∘ Prod.fst := rfl
    rw [this, ← List.map_map, List.zipIdx_map_fst]
  · intro p hp
    have hm := List.mem_zipIdx_iff_getElem?.mp hp
    obtain ⟨hi, hx⟩ := List.getElem?_eq_some_iff.mp hm
    exact h p.2 p.1 hi (hx ▸ List.getElem_mem hi)

/-- the reporting idiom is panic-free as long as the running index stays below the announced count -/
theorem progT_of {index count freq : Nat} (hf : freq ≠ 0) (hi : index < count) (hc : count < 18446744073709551616) :
    progT index count freq = some () := by
  unfold progT
  rw [remU_of_ne hf, bind_some']
  by_cases h : index % freq = 0
  · rw [if_pos h]; enc_simp [bind_some']
  · rw [if_neg h]; enc_simp [bind_some']

theorem toLeT_of {prim bytes : Nat} (h : prim = 1 ∨ bytes % prim = 0) : toLeT prim bytes = some () := by
  unfold toLeT
  by_cases h1 : prim = 1
  · rw [if_pos h1]
  · rw [if_neg h1]; exact dbgP_of (by omega)

theorem pixels_lt {v : View} {c : Color} (hv : VOK v c) : v.w * v.h < 18446744073709551616 := by
  have hw := hv.inv.w_lt
  have hh := hv.inv.h_lt
  have hU : U32 = 4294967296 := rfl
  have : v.w * v.h ≤ 4294967295 * 4294967295 := Nat.mul_le_mul (by omega) (by omega)
  omega

/-- `divCeil a b ≤ a` for `b ≥ 1` -/
theorem divCeil_le_self (a b : Nat) (hb : 1 ≤ b) : divCeil a b ≤ a := by
  rw [divCeil_eq _ _ (by omega)]
  by_cases ha : a = 0
  · subst ha; rw [Nat.div_eq_of_lt (by omega)]; omega
  · calc (a + b - 1) / b ≤ (a * b) / b := by
          apply Nat.div_le_div_right
          have : a * 1 ≤ a * b := Nat.mul_le_mul_left _ hb
          have h2 : 1 * b ≤ a * b := Nat.mul_le_mul_right _ (by omega)
          -- a + b - 1 ≤ a * b  ⇐  (a - 1) * (b - 1) ≥ 0
          obtain ⟨a', rfl⟩ : ∃ a', a = a' + 1 := ⟨a - 1, by omega⟩
          obtain ⟨b', rfl⟩ : ∃ b', b = b' + 1 := ⟨b - 1, by omega⟩
          rw [Nat.add_mul, Nat.mul_add]; omega
      _ = a := Nat.mul_div_cancel _ (by omega)

/-- **`copy_directly`** (encoder.rs:257): one write of the whole data for a contiguous view, else the strided
`for_each_chunk` over the `COPY_BUFFER_BYTES` staging buffer -/
theorem copyDirectlyT_eq {v : View} {c : Color} (hv : VOK v c) (hc : c.OK)
    (hbuf : 16 ≤ SrcConsts.COPY_BUFFER_BYTES ∧ SrcConsts.COPY_BUFFER_BYTES ≤ 4294967296) :
    copyDirectlyT v c =
      some (if v.pitch = v.w * v.bpp then [v.w * v.h * v.bpp]
            else chunksRows v.w v.h (SrcConsts.COPY_BUFFER_BYTES / v.bpp) v.bpp) := by
  have hb := c.bpp_pos hc
  have hvb := hv.bpp
  unfold copyDirectlyT
  rw [isContiguousT_eq hv, bind_some']
  by_cases hcg : v.pitch = v.w * v.bpp
  · rw [if_pos (by simpa using hcg), if_pos hcg, pure_some', contiguous_len hv hcg]
  · rw [if_neg (by simpa using hcg), if_neg hcg, ← hvb]
    rw [forEachChunkT_eq hv (by omega) (by omega) hbuf.2 (by
      intro p _ _
      enc_simp [bind_some']), bind_some']
    unfold chunksRows chunkPx
    rw [if_neg hcg]
    rw [mapT_eq_some _ (fun x => x) _ (by
      intro b hbm
      obtain ⟨p, _, rfl⟩ := List.mem_map.mp hbm
      have hps : c.psize ≠ 0 := by rcases hc with h | h | h <;> omega
      have hmod : p * v.bpp % c.psize = 0 := by
        rw [hvb]; unfold Color.bpp
        rw [← Nat.mul_assoc]; exact Nat.mul_mod_left ..
      unfold sliceNeToLeT
      rw [remU_of_ne hps, bind_some', hmod, dbgP_of rfl, bind_some', toLeT_of (Or.inr hmod), bind_some',
        pure_some']), List.map_id']

/-- what the `f(partial, color, encoded)` closures of `uncompressed_untyped` need of the input colour: the precision
of the target (`ColorFormatSet::from_precision` / `ColorFormatSet::U8` + the `assert!` in `Encoder::encode`), and
an SNORM conversion exists only for 8 and 16 bit -/
def UntypedLine.Fits (k : UntypedLine) (c : Color) : Prop :=
  match k with
  | .convert t snorm => c.psize = t.psize ∧ (snorm = true → t.psize = 1 ∨ t.psize = 2)
  | .bgr n => c.psize = 1 ∧ (n = 3 ∨ n = 4)

theorem UntypedLine.bpe_pos {k : UntypedLine} {c : Color} (hc : c.OK) (hk : k.Fits c) : 1 ≤ k.bpe ∧ k.bpe ≤ 16 := by
  cases k with
  | convert t snorm =>
    have : t.OK := by unfold Color.OK; rw [← hk.1]; exact hc
    exact t.bpp_pos this
  | bgr n => have := hk.2; simp only [UntypedLine.bpe]; omega

theorem untypedLineT_eq {k : UntypedLine} {c : Color} (hc : c.OK) (hk : k.Fits c) (p : Nat) :
    untypedLineT k c (p * c.bpp) (p * k.bpe) = some () := by
  cases k with
  | convert t snorm =>
    obtain ⟨h1, h2⟩ := hk
    have e1 : p * c.bpp = p * (c.psize * TrapUnc.chanCount c.ch) := by unfold Color.bpp; rw [Nat.mul_comm c.psize]
    have e2 : p * t.bpp = p * (c.psize * TrapUnc.chanCount t.ch) := by unfold Color.bpp; rw [h1, Nat.mul_comm t.psize]
    have hto : toLeT t.psize (p * t.bpp) = some () := by
      apply toLeT_of; right; unfold Color.bpp; rw [← Nat.mul_assoc]; exact Nat.mul_mod_left ..
    unfold untypedLineT
    simp only [UntypedLine.bpe]
    rw [dbgP_of h1, bind_some', e1, e2, TrapUnc.convertChannelsT_eq _ _ _ _ hc, bind_some', ← e2]
    unfold sliceNeToLeT
    cases snorm with
    | false => simp only [Bool.false_eq_true, if_false, pure_some', hto]
    | true =>
      simp only [if_true]
      rcases h2 rfl with h | h
      · rw [if_neg (by omega), dbgP_of h, bind_some', hto]
      · have hm : p * t.bpp % 2 = 0 := by
          unfold Color.bpp; rw [h, ← Nat.mul_assoc]; exact Nat.mul_mod_left ..
        rw [if_pos h, TrapUnc.fromBytesT_of ⟨by omega, hm⟩, bind_some', pure_some', bind_some', hto]
  | bgr n =>
    obtain ⟨h1, h2⟩ := hk
    have e1 : p * c.bpp = p * (1 * TrapUnc.chanCount c.ch) := by unfold Color.bpp; rw [h1, Nat.mul_one, Nat.one_mul]
    unfold untypedLineT
    simp only [UntypedLine.bpe]
    rw [dbgP_of h1, bind_some', e1]
    rcases h2 with rfl | rfl
    · have e2 : p * 3 = p * (1 * TrapUnc.chanCount .rgb) := rfl
      rw [if_pos rfl, e2, TrapUnc.convertChannelsT_eq _ _ _ _ (Or.inl rfl), bind_some', ← e2,
        TrapUnc.fromBytesT_of ⟨by omega, Nat.mul_mod_left ..⟩, bind_some', pure_some']
    · have e2 : p * 4 = p * (1 * TrapUnc.chanCount .rgba) := rfl
      rw [if_neg (by omega), e2, TrapUnc.convertChannelsT_eq _ _ _ _ (Or.inl rfl), bind_some', ← e2,
        TrapUnc.fromBytesT_of ⟨by omega, Nat.mul_mod_left ..⟩, bind_some', pure_some']

/-- **`uncompressed_untyped`** (uncompressed.rs:157): the chunk sizes of `EncLen.lean`, contiguous or strided -/
theorem uncompressedUntypedT_eq {v : View} {c : Color} (hv : VOK v c) (hc : c.OK) {k : UntypedLine} (hk : k.Fits c)
    (hbuf : 16 ≤ SrcConsts.UNTYPED_BUFFER_BYTES ∧ SrcConsts.UNTYPED_BUFFER_BYTES ≤ 4294967296)
    (hfr : SrcConsts.UNC_REPORT_FREQUENCY ≠ 0) :
    uncompressedUntypedT v c k =
      some (if v.pitch = v.w * v.bpp then chunksContig (v.w * v.h) (SrcConsts.UNTYPED_BUFFER_BYTES / k.bpe) k.bpe
            else chunksRows v.w v.h (SrcConsts.UNTYPED_BUFFER_BYTES / k.bpe) k.bpe) := by
  have hb := k.bpe_pos hc hk
  have hbp : 1 ≤ SrcConsts.UNTYPED_BUFFER_BYTES / k.bpe := (Nat.one_le_div_iff (by omega)).2 (by omega)
  unfold uncompressedUntypedT
  simp only
  rw [div_of_ne (by omega), bind_some', divCeilU_of_ne (by omega), bind_some']
  rw [forEachChunkT_eq hv hb.1 (by omega) hbuf.2 (by
    intro p _ _
    rw [hv.bpp]; exact untypedLineT_eq hc hk p), bind_some']
  have hlen := chunkPx_length (v := v) hbp
  have hcnt : divCeil (v.w * v.h) (SrcConsts.UNTYPED_BUFFER_BYTES / k.bpe) < 18446744073709551616 :=
    Nat.lt_of_le_of_lt (divCeil_le_self _ _ hbp) (pixels_lt hv)
  rw [mapIdxT_eq_map _ (fun x => x) _ (by
    intro i x hi _
    rw [List.length_map, hlen] at hi
    rw [progT_of hfr hi hcnt, bind_some', pure_some']), List.map_id']
  unfold chunkPx chunksContig chunksRows
  by_cases hcg : v.pitch = v.w * v.bpp
  · rw [if_pos hcg, if_pos hcg]
  · rw [if_neg hcg, if_neg hcg]

/-- `convert_to_rgba_f32` accepts `p` whole pixels into `p` pixels of `[f32; 4]` -/
theorem convertToRgbaF32T_eq {c : Color} (hc : c.OK) (p : Nat) : convertToRgbaF32T c (p * c.bpp) p = some () := by
  have hcc := chanCount_pos c.ch
  have e1 : p * c.bpp = p * (c.psize * TrapUnc.chanCount c.ch) := by unfold Color.bpp; rw [Nat.mul_comm c.psize]
  have hne : c.psize * TrapUnc.chanCount c.ch ≠ 0 := by
    have : 1 * 1 ≤ c.psize * TrapUnc.chanCount c.ch :=
      Nat.mul_le_mul (by rcases hc with h | h | h <;> omega) hcc.1
    omega
  have hmod : p * (c.psize * TrapUnc.chanCount c.ch) % (c.psize * TrapUnc.chanCount c.ch) = 0 := Nat.mul_mod_left ..
  have hdiv : p * (c.psize * TrapUnc.chanCount c.ch) / (c.psize * TrapUnc.chanCount c.ch) = p :=
    Nat.mul_div_cancel _ (by omega)
  unfold convertToRgbaF32T
  rw [e1, remU_of_ne hne, bind_some', hmod, dbgP_of rfl, bind_some', div_of_ne hne, bind_some', hdiv,
    dbgP_of rfl, bind_some']
  by_cases h4 : c.psize = 4
  · have e2 : p * 16 = p * (4 * TrapUnc.chanCount .rgba) := rfl
    rw [if_pos h4, h4, e2, TrapUnc.convertChannelsT_eq _ _ _ _ (Or.inr (Or.inr rfl))]
  · rw [if_neg h4]
    unfold convertTToRgbaF32T
    rw [TrapUnc.fromBytesT_of ⟨hne, hmod⟩, bind_some', hdiv, dbgP_of rfl]

/-- `as_rgba_f32` on `p` whole pixels returns `p` pixels, whether or not the input happens to be aligned -/
theorem asRgbaF32T_eq {c : Color} (hc : c.OK) (aligned : Bool) (p : Nat) : asRgbaF32T c aligned (p * c.bpp) p = some p := by
  unfold asRgbaF32T
  by_cases hfast : c.ch = .rgba ∧ c.psize = 4 ∧ aligned = true ∧ p * c.bpp % 16 = 0
  · rw [if_pos hfast]
    have : c.bpp = 16 := by unfold Color.bpp; rw [hfast.1, hfast.2.1]; rfl
    rw [this, Nat.mul_div_cancel _ (by omega)]
  · rw [if_neg hfast, convertToRgbaF32T_eq hc, bind_some', pure_some']

/-- **`uncompressed_universal`** (uncompressed.rs:19) for an encoded pixel of `size` bytes built from a primitive of
`prim` bytes -/
theorem uncompressedUniversalT_eq {v : View} {c : Color} (hv : VOK v c) (hc : c.OK) (aligned : Bool) {size prim : Nat}
    (hs : 1 ≤ size ∧ size ≤ 65536) (hp : prim = 1 ∨ (prim ≠ 0 ∧ size % prim = 0))
    (hbuf : 1 ≤ SrcConsts.UNIVERSAL_BUFFER_PIXELS ∧ SrcConsts.UNIVERSAL_BUFFER_PIXELS ≤ 4294967296)
    (hfr : SrcConsts.UNC_REPORT_FREQUENCY ≠ 0) :
    uncompressedUniversalT v c aligned size prim =
      some (if v.pitch = v.w * v.bpp then chunksContig (v.w * v.h) SrcConsts.UNIVERSAL_BUFFER_PIXELS size
            else chunksRows v.w v.h SrcConsts.UNIVERSAL_BUFFER_PIXELS size) := by
  have hbp : 1 ≤ SrcConsts.UNIVERSAL_BUFFER_PIXELS / 1 := by rw [Nat.div_one]; exact hbuf.1
  unfold uncompressedUniversalT
  simp only
  rw [divCeilU_of_ne (by omega), bind_some']
  rw [forEachChunkT_eq hv (Nat.le_refl 1) hbuf.1 hbuf.2 (by
    intro p _ hpb
    rw [Nat.div_one] at hpb
    dsimp only
    rw [hv.bpp, Nat.mul_one, sliceTo_of_le hpb, bind_some', asRgbaF32T_eq hc, bind_some', dbgP_of rfl]), bind_some']
  have hlen := chunkPx_length (v := v) hbp
  rw [Nat.div_one] at hlen hbp
  have hcnt : divCeil (v.w * v.h) SrcConsts.UNIVERSAL_BUFFER_PIXELS < 18446744073709551616 :=
    Nat.lt_of_le_of_lt (divCeil_le_self _ _ hbp) (pixels_lt hv)
  rw [Nat.div_one]
  rw [mapIdxT_eq_map _ (fun x => x * size) _ (by
    intro i x hi hx
    rw [List.length_map, hlen] at hi
    obtain ⟨q, hq, rfl⟩ := List.mem_map.mp hx
    have hqb := (chunkPx_bounds hbp q hq).2
    have hqs : q * 1 * size ≤ 4294967296 * 65536 := by
      rw [Nat.mul_one]; exact Nat.mul_le_mul (by omega) hs.2
    have hto : toLeT prim (q * 1 * size) = some () := by
      apply toLeT_of
      rcases hp with h | ⟨_, h⟩
      · exact Or.inl h
      · right; exact Nat.mod_eq_zero_of_dvd (Nat.dvd_trans (Nat.dvd_of_mod_eq_zero h) (Nat.dvd_mul_left _ _))
    rw [progT_of hfr hi hcnt, bind_some', mulU_of_lt (by omega), bind_some', hto, bind_some', pure_some']),
    List.map_map]
  unfold chunkPx chunksContig chunksRows
  have hfun : ((fun x => x * size) ∘ fun x => x * 1) = (· * size) := by
    funext x; simp
  by_cases hcg : v.pitch = v.w * v.bpp
  · rw [if_pos hcg, if_pos hcg, hfun]
  · rw [if_neg hcg, if_neg hcg, hfun]

/-! ## `uncompressed_universal_dither` -/

theorem divCeil_mul_right (a b k : Nat) (hb : 1 ≤ b) (hk : 1 ≤ k) : divCeil (a * k) (b * k) = divCeil a b := by
  have hbk : 1 ≤ b * k := Nat.mul_le_mul hb hk
  rw [← chunkLens_length (b * k) hbk _ _ (Nat.le_refl _), chunkLens_scale b k hb hk _ _ (Nat.le_refl _),
    List.length_map, chunkLens_length b hb _ _ (Nat.le_refl _)]

theorem ditherProcessChunkT_eq {size prim p : Nat} (hs : size ≠ 0) (hp : prim = 1 ∨ size % prim = 0)
    (hpl : p ≤ 4294967296) : ditherProcessChunkT size prim p (p * size) p (p + 2) = some () := by
  have hto : toLeT prim (p * size) = some () := by
    apply toLeT_of
    rcases hp with h | h
    · exact Or.inl h
    · right; exact Nat.mod_eq_zero_of_dvd (Nat.dvd_trans (Nat.dvd_of_mod_eq_zero h) (Nat.dvd_mul_left _ _))
  unfold ditherProcessChunkT
  rw [TrapUnc.fromBytesT_of ⟨hs, Nat.mul_mod_left ..⟩, bind_some', Nat.mul_div_cancel _ (by omega)]
  enc_simp [Nat.min_self]
  rw [mapT_eq_some _ (fun _ => ()) _ (by
    intro i hi
    have hi : i < p := List.mem_range.mp hi
    enc_simp [bind_some']), bind_some', hto]

/-- the chunk loop of one row on the chunks `L` (pixels) that remain, `error_offset` pixels into the error lines -/
theorem ditherRowT_eq {c : Color} (hc : c.OK) (aligned : Bool) {size prim bp eb E cnt cp : Nat} (hs : size ≠ 0)
    (hp : prim = 1 ∨ size % prim = 0) (hcpb : cp ≤ bp) (hcpe : cp ≤ eb / size) (hbp : bp ≤ 4294967296)
    (heb : eb < 18446744073709551616) (hE : E < 4611686018427387904) (hcnt : cnt < 18446744073709551616)
    (hfr : SrcConsts.UNC_REPORT_FREQUENCY ≠ 0) :
    ∀ (L : List Nat) (idx eo : Nat), (∀ q ∈ L, 1 ≤ q ∧ q ≤ cp) → 1 ≤ eo → eo + L.sum + 1 ≤ E → idx + L.length ≤ cnt →
      ditherRowT c aligned size prim bp eb E E cnt (L.map (· * c.bpp)) idx eo =
        some (L.map (· * size), idx + L.length) := by
  have hb := c.bpp_pos hc
  intro L
  induction L with
  | nil => intro idx eo _ _ _ _; simp [ditherRowT]
  | cons q L ih =>
    intro idx eo hq heo hsum hidx
    have hq1 := hq q (List.mem_cons_self ..)
    rw [List.sum_cons] at hsum
    rw [List.length_cons] at hidx
    have hih := ih (idx + 1) (eo + q) (fun x hx => hq x (List.mem_cons_of_mem _ hx)) (by omega) (by omega) (by omega)
    have hmod : q * c.bpp % c.bpp = 0 := Nat.mul_mod_left ..
    have hdiv : q * c.bpp / c.bpp = q := Nat.mul_div_cancel _ (by omega)
    have hqs : q * size ≤ eb := mul_le_of_le_div (by omega)
    have e1 : eo + q - eo = q := by omega
    have e2 : eo + q + 1 - (eo - 1) = q + 2 := by omega
    rw [List.map_cons]
    unfold ditherRowT
    rw [progT_of hfr (by omega) hcnt, bind_some']
    enc_simp [hmod, hdiv, asRgbaF32T_eq hc, e1, e2, ditherProcessChunkT_eq hs hp, toLeT_of, hih, List.map_cons]
    simp only [List.length_cons, Option.some.injEq, Prod.mk.injEq, true_and]
    omega

/-- all rows; both error lines have `E` elements, so the `swap` at the start of a row is invisible to the slicing -/
theorem ditherRowsT_eq {c : Color} (hc : c.OK) (aligned : Bool) {size prim bp eb E cnt cp w pad : Nat} (hs : size ≠ 0)
    (hp : prim = 1 ∨ size % prim = 0) (hcp : 1 ≤ cp) (hcpb : cp ≤ bp) (hcpe : cp ≤ eb / size)
    (hbp : bp ≤ 4294967296) (heb : eb < 18446744073709551616) (hE : E < 4611686018427387904)
    (hcnt : cnt < 18446744073709551616) (hfr : SrcConsts.UNC_REPORT_FREQUENCY ≠ 0)
    (hpad : SrcConsts.DITHER_ERROR_PADDING = pad) (hpad1 : 1 ≤ pad) (hEw : w + 2 * pad = E) :
    ∀ (n idx : Nat), idx + n * divCeil w cp ≤ cnt →
      ditherRowsT c aligned size prim bp eb (cp * c.bpp) cnt (w * c.bpp) (List.replicate n (w * c.bpp)) idx E E =
        some (List.replicate n ((chunkLens cp w w).map (· * size))).flatten := by
  have hb := c.bpp_pos hc
  intro n
  induction n with
  | zero => intro idx _; simp [ditherRowsT]
  | succ n ih =>
    intro idx hidx
    have hlen := chunkLens_length cp hcp w w (Nat.le_refl _)
    have hcs : cp * c.bpp ≠ 0 := by
      have : 1 * 1 ≤ cp * c.bpp := Nat.mul_le_mul hcp hb.1
      omega
    rw [Nat.add_mul, Nat.one_mul] at hidx
    rw [List.replicate_succ]
    unfold ditherRowsT
    rw [dbgP_of rfl, bind_some', chunksT_of_ne hcs, bind_some', chunkLens_scale cp c.bpp hcp hb.1 _ _ (Nat.le_refl _),
      hpad, ditherRowT_eq hc aligned hs hp hcpb hcpe hbp heb hE hcnt hfr _ idx pad
        (fun q hq => by have := chunkLens_le cp hcp _ _ q hq; omega) hpad1
        (by rw [chunkLens_sum cp hcp _ _ (Nat.le_refl _)]; omega) (by rw [hlen]; omega),
      bind_some', ih _ (by rw [hlen]; omega), bind_some', pure_some']
    simp only [List.replicate_succ, List.flatten_cons]

/-- **`uncompressed_universal_dither`** (uncompressed.rs:73) for an encoded pixel of `size` bytes, alignment `align`,
built from a primitive of `prim` bytes: every row is cut into chunks of `min(BUFFER_PIXELS, bytes / size)` pixels;
the two error lines are indexed inside their `width + 2·padding` elements — also for `width = 1` and `width = 0` -/
theorem ditherT_eq {v : View} {c : Color} (hv : VOK v c) (hc : c.OK) (aligned : Bool) {size align prim : Nat}
    (hs : 1 ≤ size ∧ size ≤ SrcConsts.DITHER_BUFFER_PIXELS * SrcConsts.DITHER_ENCODED_ELEM_BYTES)
    (ha : align ≤ SrcConsts.DITHER_ENCODED_ELEM_BYTES) (hp : prim = 1 ∨ size % prim = 0)
    (hbuf : 1 ≤ SrcConsts.DITHER_BUFFER_PIXELS ∧ SrcConsts.DITHER_BUFFER_PIXELS ≤ 65536 ∧
      SrcConsts.DITHER_ENCODED_ELEM_BYTES ≤ 65536 ∧ 1 ≤ SrcConsts.DITHER_ERROR_PADDING ∧
      SrcConsts.DITHER_ERROR_PADDING ≤ 65536)
    (hfr : SrcConsts.UNC_REPORT_FREQUENCY ≠ 0) :
    ditherT v c aligned size align prim =
      some (chunksPerRow v.w v.h
        (min SrcConsts.DITHER_BUFFER_PIXELS
          (SrcConsts.DITHER_BUFFER_PIXELS * SrcConsts.DITHER_ENCODED_ELEM_BYTES / size)) size) := by
  obtain ⟨hb1, hb2, he2, hp1, hp2⟩ := hbuf
  have hb := c.bpp_pos hc
  have hw := hv.inv.w_lt
  have hh := hv.inv.h_lt
  have hU : U32 = 4294967296 := rfl
  generalize hBP : SrcConsts.DITHER_BUFFER_PIXELS = BP at *
  generalize hEL : SrcConsts.DITHER_ENCODED_ELEM_BYTES = EL at *
  generalize hPAD : SrcConsts.DITHER_ERROR_PADDING = pad at *
  have hbe : BP * EL ≤ 65536 * 65536 := Nat.mul_le_mul hb2 he2
  have hq : 1 ≤ BP * EL / size := (Nat.one_le_div_iff (by omega)).2 hs.2
  generalize hcpd : min BP (BP * EL / size) = cp
  have hcp1 : 1 ≤ cp := by rw [← hcpd, Nat.min_def]; split <;> omega
  have hcpb : cp ≤ BP := by rw [← hcpd]; exact Nat.min_le_left _ _
  have hcpe : cp ≤ BP * EL / size := by rw [← hcpd]; exact Nat.min_le_right _ _
  have hcs : cp * c.bpp ≤ 65536 * 16 := Nat.mul_le_mul (by omega) hb.2
  have hcs1 : 1 * 1 ≤ cp * c.bpp := Nat.mul_le_mul hcp1 hb.1
  have hrow : v.w * c.bpp ≤ v.w * 16 := Nat.mul_le_mul_left _ hb.2
  have hper : divCeil (v.w * c.bpp) (cp * c.bpp) = divCeil v.w cp := divCeil_mul_right _ _ _ hcp1 hb.1
  have hperle : divCeil v.w cp ≤ v.w := divCeil_le_self _ _ hcp1
  have hcnt : v.h * divCeil v.w cp ≤ 4294967295 * 4294967295 := Nat.mul_le_mul (by omega) (by omega)
  unfold ditherT
  simp only
  simp only [hBP, hEL, hPAD]
  rw [dbgP_of ha, bind_some']
  enc_simp [hcpd, hper, rowsT_eq hv, hv.bpp]
  have e1 : 2 * (v.w + pad * 2) - (v.w + pad * 2) = v.w + pad * 2 := by omega
  rw [e1, ditherRowsT_eq (E := v.w + pad * 2) (w := v.w) (pad := pad) hc aligned (by omega) hp hcp1 hcpb hcpe (by omega) (by omega) (by omega) (by omega) hfr hPAD
    hp1 (by omega) v.h 0 (by rw [Nat.zero_add, Nat.mul_comm]; exact Nat.le_refl _)]
  unfold chunksPerRow
  rw [map_const_range]

end Dds.TrapEnc
