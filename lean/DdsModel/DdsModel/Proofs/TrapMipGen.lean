/-
C16 / C15 (mipmap-generating encoder), part 2: `MipmapCache::generate` and its three strategies return `some` of
`Mip.lean`'s plan, for every sequence of calls through one cache; the alignment copy's bytes; the straight-alpha
reciprocals.
-/
import DdsModel.Proofs.TrapMip
import DdsModel.Proofs.MipPlan
namespace Dds.TrapMip
open Dds Dds.Trap Dds.TrapEnc

/-! ## sizes -/

/-- `sizes` is non-increasing starting from `last` (what the `debug_assert!` of `generate` demands) -/
def Decr : Mip.Sz → List Mip.Sz → Prop
  | _, [] => True
  | last, s :: rest => (s.1 ≤ last.1 ∧ s.2 ≤ last.2) ∧ Decr s rest

theorem decreasingT_ok : ∀ (sizes : List Mip.Sz) (last : Mip.Sz), Decr last sizes → decreasingT last sizes = some ()
  | [], _, _ => rfl
  | s :: rest, last, h => by
    unfold decreasingT
    rw [dbgP_of h.1, bind_some']
    exact decreasingT_ok rest s h.2

theorem Decr.le : ∀ {sizes : List Mip.Sz} {last : Mip.Sz}, Decr last sizes → ∀ s ∈ sizes, s.1 ≤ last.1 ∧ s.2 ≤ last.2
  | [], _, _, s, hs => by cases hs
  | a :: rest, last, h, s, hs => by
    cases List.mem_cons.mp hs with
    | inl e => rw [e]; exact h.1
    | inr e =>
      have := Decr.le h.2 s e
      exact ⟨Nat.le_trans this.1 h.1.1, Nat.le_trans this.2 h.1.2⟩

/-- a size the resizer may be asked for with colour `c` -/
def SzOK (c : Color) (s : Mip.Sz) : Prop := 1 ≤ s.1 ∧ 1 ≤ s.2 ∧ s.1 * s.2 * c.bpp ≤ BMAX

theorem szOK_of_le {c : Color} {w h : Nat} (hb : w * h * c.bpp ≤ BMAX) {s : Mip.Sz} (h1 : 1 ≤ s.1) (h2 : 1 ≤ s.2)
    (hl : s.1 ≤ w ∧ s.2 ≤ h) : SzOK c s :=
  ⟨h1, h2, Nat.le_trans (Nat.mul_le_mul_right _ (Nat.mul_le_mul hl.1 hl.2)) hb⟩

/-! ## the loops -/

theorem mapT_cons_some {α β} {f : α → Option β} {a : α} {l : List α} {x : β} {r : List β}
    (h1 : f a = some x) (h2 : mapT f l = some r) : mapT f (a :: l) = some (x :: r) := by
  simp only [mapT, List.map_cons, h1] at h2 ⊢
  rw [Trap.allSome.eq_3, h2]

theorem rayonLoop_ok {al : Alloc} (ha : AlOK al) {src : AView} (hs : AViewOK src) (sa : Bool) :
    ∀ sizes : List Mip.Sz, (∀ s ∈ sizes, SzOK src.c s) →
      ∃ bufs, mapT (fun s => resizeFreshT al src s.1 s.2 sa) sizes = some bufs ∧ mapT emitBufT bufs = some sizes
  | [], _ => ⟨[], rfl, rfl⟩
  | s :: rest, h => by
    obtain ⟨bufs, e1, e2⟩ := rayonLoop_ok ha hs sa rest (fun x hx => h x (List.mem_cons_of_mem _ hx))
    obtain ⟨o1, o2, o3⟩ := h s (List.mem_cons_self ..)
    obtain ⟨b, f1, f2, f3, f4, _⟩ := resizeFreshT_ok ha hs sa o1 o2 o3
    refine ⟨b :: bufs, mapT_cons_some f1 e1, mapT_cons_some ?_ e2⟩
    rw [emitBufT_ok f2, f3, f4]

theorem seqLoopT_ok {al : Alloc} (ha : AlOK al) {src : AView} (hs : AViewOK src) (sa : Bool) :
    ∀ (sizes : List Mip.Sz) (d : VecBuf), VecOK d → (∀ s ∈ sizes, SzOK src.c s) →
      ∃ d', seqLoopT al src sa d sizes = some (d', Mip.planSource sizes) ∧ VecOK d'
  | [], d, hd, _ => ⟨d, rfl, hd⟩
  | s :: rest, d, hd, h => by
    obtain ⟨o1, o2, o3⟩ := h s (List.mem_cons_self ..)
    obtain ⟨d1, a, f1, f2, f3, f4, f5⟩ := resizeStateT_ok ha hd hs sa o1 o2 o3
    obtain ⟨d2, e1, e2⟩ := seqLoopT_ok ha hs sa rest d1 f2 (fun x hx => h x (List.mem_cons_of_mem _ hx))
    refine ⟨d2, ?_, e2⟩
    unfold seqLoopT
    rw [f1, bind_some']
    dsimp only
    rw [asImageViewT_ok f3, bind_some', e1, bind_some']
    dsimp only
    rw [pure_some', f4, f5]
    rfl

theorem prevLoopT_eq {al : Alloc} (ha : AlOK al) (sa : Bool) :
    ∀ (sizes : List Mip.Sz) (prev : ABuf) (k : Nat), ABufOK prev → (∀ s ∈ sizes, SzOK prev.c s) →
      prevLoopT al sa prev sizes k = some (Mip.planLoop sizes k)
  | [], _, _, _, _ => rfl
  | s :: rest, prev, k, hp, h => by
    obtain ⟨o1, o2, o3⟩ := h s (List.mem_cons_self ..)
    obtain ⟨pv, e1, e2, _, _, e5⟩ := asViewT_ok hp
    rw [← e5] at o3
    obtain ⟨b, f1, f2, f3, f4, f5⟩ := resizeFreshT_ok ha e2 sa o1 o2 o3
    have ih := prevLoopT_eq ha sa rest b (k + 1) f2 (fun x hx => by
      rw [f5, e5]; exact h x (List.mem_cons_of_mem _ hx))
    unfold prevLoopT
    rw [e1, bind_some', f1, bind_some', emitBufT_ok f2, bind_some', ih, bind_some', pure_some', f3, f4]
    rfl

theorem prevTwoLoopT_eq {al : Alloc} (ha : AlOK al) (sa : Bool) :
    ∀ (sizes : List Mip.Sz) (pp p : ABuf) (k : Nat), ABufOK pp → ABufOK p → p.c = pp.c →
      (∀ s ∈ sizes, SzOK pp.c s) → prevTwoLoopT al sa pp p sizes k = some (Mip.planLoop sizes k)
  | [], _, _, _, _, _, _, _ => rfl
  | s :: rest, pp, p, k, hpp, hp, hc, h => by
    obtain ⟨o1, o2, o3⟩ := h s (List.mem_cons_self ..)
    obtain ⟨pv, e1, e2, _, _, e5⟩ := asViewT_ok hpp
    rw [← e5] at o3
    obtain ⟨b, f1, f2, f3, f4, f5⟩ := resizeFreshT_ok ha e2 sa o1 o2 o3
    have ih := prevTwoLoopT_eq ha sa rest p b (k + 1) hp f2 (by rw [f5, e5, hc]) (fun x hx => by
      rw [hc]; exact h x (List.mem_cons_of_mem _ hx))
    unfold prevTwoLoopT
    rw [e1, bind_some', f1, bind_some', emitBufT_ok f2, bind_some', ih, bind_some', pure_some', f3, f4]
    rfl

/-! ## the three strategies and `generate` -/

/-- both buffers of a `MipmapCache` are well-formed -/
structure CacheOK (k : Cache) : Prop where
  aligner : VecOK k.aligner
  resizer : VecOK k.resizer

theorem CacheOK.new : CacheOK Cache.new := ⟨VecOK.empty, VecOK.empty⟩

/-- a generating call the public API admits: a view with C20's invariant and a non-empty size at any address, one of
the 12 colours, pixel bytes at most `BMAX`, a non-empty non-increasing list of non-empty sizes -/
structure CallOK (q : Call) : Prop where
  view : VOK q.v q.c
  col : q.c.OK
  w1 : 1 ≤ q.v.w
  h1 : 1 ≤ q.v.h
  bytes : q.v.w * q.v.h * q.c.bpp ≤ BMAX
  ne : q.sizes ≠ []
  decr : Decr (q.v.w, q.v.h) q.sizes
  pos : ∀ s ∈ q.sizes, 1 ≤ s.1 ∧ 1 ≤ s.2

theorem CallOK.szOK {q : Call} (h : CallOK q) : ∀ s ∈ q.sizes, SzOK q.c s := fun s hs =>
  szOK_of_le h.bytes (h.pos s hs).1 (h.pos s hs).2 (Decr.le h.decr s hs)

theorem genFromSourceT_ok {al : Alloc} (ha : AlOK al) (rayon : Bool) {k : Cache} (hk : CacheOK k) {q : Call}
    (hq : CallOK q) :
    ∃ k', genFromSourceT al rayon k q.addr q.v q.c q.sizes q.sa = some (k', Mip.planSource q.sizes) ∧ CacheOK k' := by
  obtain ⟨ab, src, e1, e2, e3, _, _, e6⟩ := alignT_ok ha hk.aligner q.addr hq.view hq.col hq.w1 hq.h1 hq.bytes
  have hsz : ∀ s ∈ q.sizes, SzOK src.c s := by rw [e6]; exact hq.szOK
  unfold genFromSourceT
  rw [e1, bind_some']
  dsimp only
  cases rayon with
  | true =>
    obtain ⟨bufs, f1, f2⟩ := rayonLoop_ok ha e3 q.sa q.sizes hsz
    rw [if_pos rfl, f1, bind_some', f2, bind_some', pure_some']
    exact ⟨_, rfl, ⟨e2, hk.resizer⟩⟩
  | false =>
    obtain ⟨d', f1, f2⟩ := seqLoopT_ok ha e3 q.sa q.sizes k.resizer hk.resizer hsz
    rw [if_neg (by simp), f1, bind_some']
    dsimp only
    rw [pure_some']
    exact ⟨_, rfl, ⟨e2, f2⟩⟩

theorem genFromPreviousT_ok {al : Alloc} (ha : AlOK al) {k : Cache} (hk : CacheOK k) {q : Call} (hq : CallOK q) :
    ∃ k' pl, genFromPreviousT al k q.addr q.v q.c q.sizes q.sa = some (k', pl) ∧
      Mip.planPrevious q.sizes = some pl ∧ CacheOK k' := by
  obtain ⟨ab, src, e1, e2, e3, _, _, e6⟩ := alignT_ok ha hk.aligner q.addr hq.view hq.col hq.w1 hq.h1 hq.bytes
  have hsz : ∀ s ∈ q.sizes, SzOK src.c s := by rw [e6]; exact hq.szOK
  have hne := hq.ne
  unfold genFromPreviousT
  rw [e1, bind_some']
  dsimp only
  cases hs : q.sizes with
  | nil => exact absurd hs hne
  | cons s0 rest =>
    rw [hs] at hsz
    obtain ⟨o1, o2, o3⟩ := hsz s0 (List.mem_cons_self ..)
    obtain ⟨b, f1, f2, f3, f4, f5⟩ := resizeFreshT_ok ha e3 q.sa o1 o2 o3
    have hl := prevLoopT_eq ha q.sa rest b 1 f2 (fun x hx => by rw [f5]; exact hsz x (List.mem_cons_of_mem _ hx))
    have hi : idx (s0 :: rest) 0 = some s0 := by unfold idx; rfl
    rw [hi, bind_some', f1, bind_some', emitBufT_ok f2, bind_some',
      sliceFrom_of_le (by simp), bind_some', List.drop_one, List.tail_cons, hl, bind_some', pure_some', f3, f4]
    exact ⟨_, _, rfl, rfl, ⟨e2, hk.resizer⟩⟩

theorem genFromPreviousTwoT_ok {al : Alloc} (ha : AlOK al) {k : Cache} (hk : CacheOK k) {q : Call} (hq : CallOK q) :
    ∃ k' pl, genFromPreviousTwoT al k q.addr q.v q.c q.sizes q.sa = some (k', pl) ∧
      Mip.planPreviousTwo q.sizes = some pl ∧ CacheOK k' := by
  obtain ⟨ab, src, e1, e2, e3, _, _, e6⟩ := alignT_ok ha hk.aligner q.addr hq.view hq.col hq.w1 hq.h1 hq.bytes
  have hsz : ∀ s ∈ q.sizes, SzOK src.c s := by rw [e6]; exact hq.szOK
  have hne := hq.ne
  unfold genFromPreviousTwoT
  rw [e1, bind_some']
  dsimp only
  cases hs : q.sizes with
  | nil => exact absurd hs hne
  | cons s0 rest =>
    rw [hs] at hsz
    obtain ⟨o1, o2, o3⟩ := hsz s0 (List.mem_cons_self ..)
    obtain ⟨b, f1, f2, f3, f4, f5⟩ := resizeFreshT_ok ha e3 q.sa o1 o2 o3
    have hi : idx (s0 :: rest) 0 = some s0 := by unfold idx; rfl
    rw [hi, bind_some', f1, bind_some', emitBufT_ok f2, bind_some', f3, f4]
    cases rest with
    | nil =>
      rw [if_pos (show [s0].length = 1 from rfl), pure_some']
      exact ⟨_, _, rfl, rfl, ⟨e2, hk.resizer⟩⟩
    | cons s1 rest2 =>
      obtain ⟨p1, p2, p3⟩ := hsz s1 (List.mem_cons_of_mem _ (List.mem_cons_self ..))
      obtain ⟨b2, g1, g2, g3, g4, g5⟩ := resizeFreshT_ok ha e3 q.sa p1 p2 p3
      have hl := prevTwoLoopT_eq ha q.sa rest2 b b2 1 f2 g2 (by rw [g5, f5]) (fun x hx => by
        rw [f5]; exact hsz x (List.mem_cons_of_mem _ (List.mem_cons_of_mem _ hx)))
      have hi1 : idx (s0 :: s1 :: rest2) 1 = some s1 := by unfold idx; rfl
      rw [if_neg (show ¬ (s0 :: s1 :: rest2).length = 1 by simp), hi1, bind_some', g1, bind_some', emitBufT_ok g2, bind_some',
        sliceFrom_of_le (by simp), bind_some']
      have hd : List.drop 2 (s0 :: s1 :: rest2) = rest2 := rfl
      rw [hd, hl, bind_some', pure_some', g3, g4]
      exact ⟨_, _, rfl, rfl, ⟨e2, hk.resizer⟩⟩

/-- `MipmapCache::generate` does not panic and emits exactly `Mip.plan` -/
theorem generateT_ok {al : Alloc} (ha : AlOK al) (rayon : Bool) {k : Cache} (hk : CacheOK k) {q : Call}
    (hq : CallOK q) :
    ∃ k' pl, generateT al rayon k q = some (k', pl) ∧ Mip.plan q.f (q.v.w, q.v.h) q.sizes = some pl ∧ CacheOK k' := by
  unfold generateT Mip.plan
  rw [decreasingT_ok _ _ hq.decr, bind_some']
  cases Mip.selectStrategy q.f (q.v.w, q.v.h) q.sizes with
  | fromSource =>
    obtain ⟨k', e1, e2⟩ := genFromSourceT_ok ha rayon hk hq
    exact ⟨k', _, e1, rfl, e2⟩
  | fromPrevious => exact genFromPreviousT_ok ha hk hq
  | fromPreviousTwo => exact genFromPreviousTwoT_ok ha hk hq

/-- ... for every SEQUENCE of calls through one cache -/
theorem generateSeqT_ok {al : Alloc} (ha : AlOK al) (rayon : Bool) :
    ∀ (calls : List Call) (k : Cache), CacheOK k → (∀ q ∈ calls, CallOK q) →
      ∃ k' outs, generateSeqT al rayon k calls = some (k', outs) ∧ CacheOK k' ∧
        calls.map (fun q => Mip.plan q.f (q.v.w, q.v.h) q.sizes) = outs.map some
  | [], k, hk, _ => ⟨k, [], rfl, hk, rfl⟩
  | q :: rest, k, hk, h => by
    obtain ⟨k1, pl, e1, e2, e3⟩ := generateT_ok ha rayon hk (h q (List.mem_cons_self ..))
    obtain ⟨k2, outs, f1, f2, f3⟩ := generateSeqT_ok ha rayon rest k1 e3 (fun x hx => h x (List.mem_cons_of_mem _ hx))
    refine ⟨k2, pl :: outs, ?_, f2, ?_⟩
    · unfold generateSeqT
      rw [e1, bind_some']
      dsimp only
      rw [f1, bind_some']
      rfl
    · rw [List.map_cons, List.map_cons, e2, f3]

/-! ## mip chains are admissible size lists -/

theorem mipSize_pos (d k : Nat) : 1 ≤ mipSize d k := by
  unfold mipSize
  generalize d >>> k = b
  split
  · omega
  · split <;> omega

theorem mipSize_succ_le (d k : Nat) : mipSize d (k + 1) ≤ mipSize d k := by
  have h : d >>> (k + 1) ≤ d >>> k := by
    rw [Nat.shiftRight_succ]; exact Nat.div_le_self _ _
  have hp := mipSize_pos d k
  unfold mipSize at hp ⊢
  generalize d >>> (k + 1) = a at h ⊢
  generalize d >>> k = b at h hp ⊢
  by_cases h1 : k + 1 ≥ 31
  · rw [if_pos h1]; exact hp
  · rw [if_neg h1, if_neg (show ¬ k ≥ 31 by omega)]
    split <;> split <;> omega

theorem declared_decr (w h : Nat) : ∀ (n l : Nat), Decr (mipSize w l, mipSize h l) (Mip.declared w h (l + 1) n)
  | 0, _ => trivial
  | n + 1, l => by
    unfold Mip.declared
    rw [List.range'_succ, List.map_cons]
    exact ⟨⟨mipSize_succ_le w l, mipSize_succ_le h l⟩, declared_decr w h n (l + 1)⟩

theorem declared_pos (w h l n : Nat) : ∀ s ∈ Mip.declared w h l n, 1 ≤ s.1 ∧ 1 ≤ s.2 := by
  intro s hs
  unfold Mip.declared at hs
  obtain ⟨k, _, rfl⟩ := List.mem_map.mp hs
  exact ⟨mipSize_pos w k, mipSize_pos h k⟩

/-! ## the bytes the resizer sees do not depend on address, pitch or the buffer's previous contents -/

theorem foldl_copyRow (bpr : Nat) (row : Nat → Nat → Nat) (old : Nat → Nat) :
    ∀ (n : Nat) (i : Nat), i < n * bpr →
      (List.range n).foldl (fun out y => copyRow bpr (row y) y out) old i = row (i / bpr) (i % bpr) := by
  intro n
  induction n with
  | zero => intro i hi; simp at hi
  | succ n ih =>
    intro i hi
    rw [List.range_succ, List.foldl_append]
    simp only [List.foldl_cons, List.foldl_nil]
    unfold copyRow
    rw [Nat.succ_mul] at hi
    have hb : 0 < bpr := by
      rcases Nat.eq_zero_or_pos bpr with h | h
      · rw [h] at hi; simp at hi
      · exact h
    by_cases h1 : n * bpr ≤ i
    · rw [if_pos ⟨h1, hi⟩]
      have hd : i / bpr = n := by
        apply Nat.div_eq_of_lt_le
        · rw [Nat.mul_comm] at h1; rw [Nat.mul_comm]; exact h1
        · rw [Nat.succ_mul]; exact hi
      have hm : i % bpr = i - n * bpr := by
        have := Nat.div_add_mod i bpr
        rw [hd, Nat.mul_comm] at this
        omega
      rw [hd, hm]
    · rw [if_neg (by omega)]
      exact ih i (by omega)

/-- `Aligner::align`'s output bytes: byte `i` (`i < w·h·bpp`) of the aligned view is byte `i % bpr` of row `i / bpr`
of the image (`bpr = w·bpp`) — whatever the address, the pitch, the branch taken, and whatever was in the
aligner's buffer before -/
theorem alignBytes_spec (mem old : Nat → Nat) (addr : Nat) {v : View} {c : Color} (hvo : VOK v c) (hw : 1 ≤ v.w)
    (hh : 1 ≤ v.h) (i : Nat) (hi : i < v.w * v.h * c.bpp) :
    alignBytes mem old addr v c i = mem (addr + (i / (v.w * c.bpp)) * v.pitch + i % (v.w * c.bpp)) := by
  have hne : ¬ (v.w = 0 ∨ v.h = 0) := by omega
  have hbpp := hvo.bpp
  have hsl : v.w * v.h * c.bpp = v.h * (v.w * c.bpp) := by rw [Nat.mul_comm v.w v.h, Nat.mul_assoc]
  unfold alignBytes
  by_cases hcg : v.pitch = v.w * v.bpp
  · have hlen := contiguous_len hvo hcg
    have e : v.pitch * v.h = v.len := by rw [hlen, hcg, Nat.mul_right_comm]
    rw [if_neg (by simpa using e)]
    have hd := Nat.div_add_mod i (v.w * c.bpp)
    have : mem (addr + i) = mem (addr + i / (v.w * c.bpp) * v.pitch + i % (v.w * c.bpp)) := by
      rw [hcg, hbpp, Nat.mul_comm (i / (v.w * c.bpp)), Nat.add_assoc, hd]
    split <;> exact this
  · have hlen := hvo.inv.len_eq hne
    have e : v.pitch * v.h ≠ v.len := by
      intro h
      rw [hlen] at h
      have h2 : v.pitch * v.h = v.pitch * (v.h - 1) + v.pitch := by
        have : v.h = (v.h - 1) + 1 := by omega
        conv => lhs; rw [this, Nat.mul_succ]
      omega
    rw [if_pos e]
    rw [hsl] at hi
    exact foldl_copyRow (v.w * c.bpp) (fun y j => mem (addr + y * v.pitch + j)) old v.h i hi

/-! ## straight alpha: no reciprocal of zero -/

theorem saColourT_eq (p : Mip.Prec) (accC accA : Rat) : saColourT p accC accA = some (Mip.saColour p accC accA) := by
  cases p with
  | u8 =>
    unfold saColourT Mip.saColour
    by_cases h : accA < 1 / 2 / 255
    · simp only [if_pos h]; rfl
    · have : accA ≠ 0 := by
        intro h0; rw [h0] at h; exact h (by decide +kernel)
      simp only [if_neg h]
      unfold recipT
      rw [if_neg this]; rfl
  | u16 =>
    unfold saColourT Mip.saColour
    by_cases h : Mip.Prec.quant .u16 accA = 0
    · simp only [if_pos h]; rfl
    · have : accA ≠ 0 := by
        intro h0; rw [h0] at h; exact h (by decide +kernel)
      simp only [if_neg h]
      unfold recipT
      rw [if_neg this]; rfl
  | f32 =>
    unfold saColourT Mip.saColour
    by_cases h : accA ≤ 0
    · simp only [if_pos h]; rfl
    · have : accA ≠ 0 := by
        intro h0; rw [h0] at h; exact h (by decide +kernel)
      simp only [if_neg h]
      unfold recipT
      rw [if_neg this]; rfl

end Dds.TrapMip
