/-
Lemmas about the BC7 models (`Bc7.lean` implementation-shaped, `Bc7Spec.lean` specification-shaped).
-/
import DdsModel.Bc7
import DdsModel.Bc7Spec
import DdsModel.Proofs.BcTables
namespace Dds.Bc7
open Dds.BcTables Dds.Bc7Spec

theorem rd_lt (b p n : Nat) : rd b p n < 2 ^ n := Nat.mod_lt _ (Nat.two_pow_pos n)
theorem rd_eq_shift (b p n : Nat) : rd b p n = (b >>> p) % 2 ^ n := by
  simp [rd, Nat.shiftRight_eq_div_pow]

/-! ### bit stream reads are positional reads -/

theorem mask8_eq {n : Nat} (h0 : 0 < n) (h : n ≤ 8) : mask8 n = 2 ^ n - 1 := by
  have : n = 1 ∨ n = 2 ∨ n = 3 ∨ n = 4 ∨ n = 5 ∨ n = 6 ∨ n = 7 ∨ n = 8 := by omega
  rcases this with h | h | h | h | h | h | h | h <;> subst h <;> decide

theorem consumeBits_eq (n s : Nat) (h0 : 0 < n) (h : n ≤ 8) : consumeBits n s = (s % 2 ^ n, s >>> n) := by
  unfold consumeBits
  rw [mask8_eq h0 h, Nat.and_two_pow_sub_one_eq_mod]
  have hd : 2 ^ n ∣ U8 := by
    have : U8 = 2 ^ 8 := by decide
    rw [this]; exact Nat.pow_dvd_pow 2 h
  rw [Nat.mod_mod_of_dvd _ hd]

/-- a read of `n` bits from the stream positioned at bit `p` of block `b` -/
theorem consumeBits_at (n b p : Nat) (h0 : 0 < n) (h : n ≤ 8) :
    consumeBits n (b >>> p) = (rd b p n, b >>> (p + n)) := by
  rw [consumeBits_eq n _ h0 h, rd_eq_shift, Nat.shiftRight_add]

theorem consumeBit_at (b p : Nat) : consumeBit (b >>> p) = (rd b p 1, b >>> (p + 1)) := by
  unfold consumeBit
  have h1 : (1 : Nat) = 2 ^ 1 - 1 := by decide
  have hd : 2 ^ 1 ∣ U8 := by decide
  rw [h1, Nat.and_two_pow_sub_one_eq_mod, Nat.mod_mod_of_dvd _ hd, rd_eq_shift, Nat.shiftRight_add]

/-- `k` consecutive `c`-bit fields starting at bit `p` -/
def rdN : Nat → Nat → Nat → Nat → List Nat
  | 0, _, _, _ => []
  | k + 1, c, b, p => rd b p c :: rdN k c b (p + c)

theorem rdN_getD (k c b p i : Nat) (hi : i < k) : (rdN k c b p).getD i 0 = rd b (p + i * c) c := by
  induction k generalizing p i with
  | zero => omega
  | succ k ih =>
    cases i with
    | zero => simp [rdN]
    | succ i =>
      simp only [rdN, List.getD_cons_succ]
      rw [ih (p + c) i (by omega), Nat.succ_mul]
      congr 1; omega

theorem consumeN_at (k c b p : Nat) (h0 : 0 < c) (h : c ≤ 8) :
    consumeN k c (b >>> p) = (rdN k c b p, b >>> (p + k * c)) := by
  induction k generalizing p with
  | zero => simp [consumeN, rdN]
  | succ k ih =>
    simp only [consumeN, rdN]
    rw [consumeBits_at c b p h0 h]
    simp only []
    rw [ih (p + c), Nat.succ_mul]
    have e : p + c + k * c = p + (k * c + c) := by omega
    rw [e]

theorem consumeBitsEach_at (k b p : Nat) :
    consumeBitsEach k (b >>> p) = (rdN k 1 b p, b >>> (p + k)) := by
  induction k generalizing p with
  | zero => simp [consumeBitsEach, rdN]
  | succ k ih =>
    simp only [consumeBitsEach, rdN]
    rw [consumeBit_at b p]
    simp only []
    rw [ih (p + 1)]
    have e : p + 1 + k = p + (k + 1) := by omega
    rw [e]

/-! ### endpoint widening, p-bits, weights, interpolation -/

/-- `promote` replicates the top bits: equal to the spec's `expand` for every width and value -/
theorem promote_eq_replicate :
    ∀ bits, bits < 8 → 4 ≤ bits → ∀ v, v < 2 ^ bits → promote v bits = expand bits v := by decide +kernel

theorem expand8 (v : Nat) (h : v < 256) : expand 8 v = v := by
  simp only [expand, Nat.reduceSub, Nat.reduceMul, Nat.reducePow]; omega

theorem withP_eq : ∀ v, v < 128 → ∀ p, p < 2 → withP v p = v * 2 + p := by decide +kernel

theorem expand_lt : ∀ bits, bits < 9 → 4 ≤ bits → ∀ v, v < 2 ^ bits → expand bits v < 256 := by decide +kernel

/-- the code's weights are the spec's weights times 4, for every index width and index -/
theorem weights_x4 :
    (∀ i, i < 4 → WEIGHTS_2.getD i 0 = 4 * specW2.getD i 0 ∧ specW2.getD i 0 ≤ 64) ∧
    (∀ i, i < 8 → WEIGHTS_3.getD i 0 = 4 * specW3.getD i 0 ∧ specW3.getD i 0 ≤ 64) ∧
    (∀ i, i < 16 → WEIGHTS_4.getD i 0 = 4 * specW4.getD i 0 ∧ specW4.getD i 0 ≤ 64) := by decide

/-- `((256-4w)*e0 + 4w*e1 + 128) >> 8` in `u16`, truncated to `u8`, is `((64-w)*e0 + w*e1 + 32) >> 6` -/
theorem lerp_eq_interp (e0 e1 w : Nat) (h0 : e0 < 256) (h1 : e1 < 256) (hw : w ≤ 64) :
    lerp e0 e1 (4 * w) = interp e0 e1 w := by
  have : w = 0 ∨ w = 1 ∨ w = 2 ∨ w = 3 ∨ w = 4 ∨ w = 5 ∨ w = 6 ∨ w = 7 ∨ w = 8 ∨ w = 9 ∨ w = 10 ∨ w = 11 ∨ w = 12 ∨ w = 13 ∨ w = 14 ∨ w = 15 ∨ w = 16 ∨ w = 17 ∨ w = 18 ∨ w = 19 ∨ w = 20 ∨ w = 21 ∨ w = 22 ∨ w = 23 ∨ w = 24 ∨ w = 25 ∨ w = 26 ∨ w = 27 ∨ w = 28 ∨ w = 29 ∨ w = 30 ∨ w = 31 ∨ w = 32 ∨ w = 33 ∨ w = 34 ∨ w = 35 ∨ w = 36 ∨ w = 37 ∨ w = 38 ∨ w = 39 ∨ w = 40 ∨ w = 41 ∨ w = 42 ∨ w = 43 ∨ w = 44 ∨ w = 45 ∨ w = 46 ∨ w = 47 ∨ w = 48 ∨ w = 49 ∨ w = 50 ∨ w = 51 ∨ w = 52 ∨ w = 53 ∨ w = 54 ∨ w = 55 ∨ w = 56 ∨ w = 57 ∨ w = 58 ∨ w = 59 ∨ w = 60 ∨ w = 61 ∨ w = 62 ∨ w = 63 ∨ w = 64 := by omega
  rcases this with h | h | h | h | h | h | h | h | h | h | h | h | h | h | h | h | h | h | h | h | h | h | h | h | h | h | h | h | h | h | h | h | h | h | h | h | h | h | h | h | h | h | h | h | h | h | h | h | h | h | h | h | h | h | h | h | h | h | h | h | h | h | h | h | h <;> subst h <;> simp only [lerp, interp, U16, U8, Nat.shiftRight_eq_div_pow, Nat.reducePow, Nat.reduceMul, Nat.reduceAdd, Nat.reduceSub, Nat.reduceMod] <;> simp (disch := omega) only [Nat.mod_eq_of_lt] <;> omega

theorem interp_lt (e0 e1 w : Nat) (h0 : e0 < 256) (h1 : e1 < 256) (hw : w ≤ 64) : interp e0 e1 w < 256 := by
  have : w = 0 ∨ w = 1 ∨ w = 2 ∨ w = 3 ∨ w = 4 ∨ w = 5 ∨ w = 6 ∨ w = 7 ∨ w = 8 ∨ w = 9 ∨ w = 10 ∨ w = 11 ∨ w = 12 ∨ w = 13 ∨ w = 14 ∨ w = 15 ∨ w = 16 ∨ w = 17 ∨ w = 18 ∨ w = 19 ∨ w = 20 ∨ w = 21 ∨ w = 22 ∨ w = 23 ∨ w = 24 ∨ w = 25 ∨ w = 26 ∨ w = 27 ∨ w = 28 ∨ w = 29 ∨ w = 30 ∨ w = 31 ∨ w = 32 ∨ w = 33 ∨ w = 34 ∨ w = 35 ∨ w = 36 ∨ w = 37 ∨ w = 38 ∨ w = 39 ∨ w = 40 ∨ w = 41 ∨ w = 42 ∨ w = 43 ∨ w = 44 ∨ w = 45 ∨ w = 46 ∨ w = 47 ∨ w = 48 ∨ w = 49 ∨ w = 50 ∨ w = 51 ∨ w = 52 ∨ w = 53 ∨ w = 54 ∨ w = 55 ∨ w = 56 ∨ w = 57 ∨ w = 58 ∨ w = 59 ∨ w = 60 ∨ w = 61 ∨ w = 62 ∨ w = 63 ∨ w = 64 := by omega
  rcases this with h | h | h | h | h | h | h | h | h | h | h | h | h | h | h | h | h | h | h | h | h | h | h | h | h | h | h | h | h | h | h | h | h | h | h | h | h | h | h | h | h | h | h | h | h | h | h | h | h | h | h | h | h | h | h | h | h | h | h | h | h | h | h | h | h <;> subst h <;> simp only [interp, Nat.reduceSub] <;> omega

/-! ### mode selection -/

theorem tz_small : ∀ x, x < 256 → trailingZeros8 x = modeOf x := by decide +kernel

theorem modeOf_mod (b : Nat) : modeOf b = modeOf (b % 256) := by
  have h : ∀ m, m < 8 → (b % 256) % 2 ^ (m + 1) = b % 2 ^ (m + 1) := by
    intro m hm
    have : 2 ^ (m + 1) ∣ 256 := by
      have : (256 : Nat) = 2 ^ 8 := by decide
      rw [this]; exact Nat.pow_dvd_pow 2 (by omega)
    exact Nat.mod_mod_of_dvd _ this
  simp only [modeOf, List.range, List.range.loop, List.find?, h 0 (by omega), h 1 (by omega), h 2 (by omega),
    h 3 (by omega), h 4 (by omega), h 5 (by omega), h 6 (by omega), h 7 (by omega)]

theorem mode_by_trailing_zeros (b : Nat) : (extractMode b).1 = modeOf b := by
  rw [modeOf_mod]
  exact tz_small _ (Nat.mod_lt _ (by decide))

theorem mode8_zero (b : Nat) (h : b % 256 = 0) : decodeBlock b = List.replicate 16 [0, 0, 0, 0] := by
  have : (extractMode b).1 = 8 := by
    simp only [extractMode, U8, h]; decide
  simp [decodeBlock, this]

end Dds.Bc7
