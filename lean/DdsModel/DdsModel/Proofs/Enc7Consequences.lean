/-
C13 / BC7 encoder: the distance bounds and palette facts that instantiate T3 for `closest_rgb / rgba / alpha`, and the
consequences T4: content that IS a palette entry is reproduced exactly by writer ∘ closest (mode 6), and opacity of
written blocks.
-/
import DdsModel.Proofs.Enc7Closest
set_option linter.unusedSimpArgs false
namespace Dds.Enc7
open Dds Dds.BcTables

/-! ### distances -/

theorem sqDiff_le (a b : Nat) (ha : a ≤ 255) (hb : b ≤ 255) : sqDiff a b ≤ 65025 := by
  unfold sqDiff
  rcases Nat.le_total a b with h | h
  · have e : a - b = 0 := by omega
    have : (b - a) * (b - a) ≤ 255 * 255 := Nat.mul_le_mul (by omega) (by omega)
    rw [e]; omega
  · have e : b - a = 0 := by omega
    have : (a - b) * (a - b) ≤ 255 * 255 := Nat.mul_le_mul (by omega) (by omega)
    rw [e]; omega

theorem sqDiff_self (a : Nat) : sqDiff a a = 0 := by simp [sqDiff]

theorem sqDiff_eq_zero (a b : Nat) (h : sqDiff a b = 0) : a = b := by
  unfold sqDiff at h
  have h1 : (a - b) * (a - b) = 0 := by omega
  have h2 : (b - a) * (b - a) = 0 := by omega
  have h1' : a - b = 0 := by rcases Nat.mul_eq_zero.mp h1 with h | h <;> exact h
  have h2' : b - a = 0 := by rcases Nat.mul_eq_zero.mp h2 with h | h <;> exact h
  omega

theorem interpolate_lt (W e0 e1 k : Nat) : interpolate W e0 e1 k < 256 := by
  unfold interpolate; exact Nat.mod_lt _ (by decide)

theorem interpolate_zero (W e0 e1 : Nat) (hW : W = 2 ∨ W = 3 ∨ W = 4) (h0 : e0 < 256) : interpolate W e0 e1 0 = e0 := by
  rcases hW with h | h | h <;> subst h <;>
    simp only [interpolate, weight, WEIGHTS_2, WEIGHTS_3, WEIGHTS_4, List.getD_cons_zero, Nat.reduceEqDiff, if_true,
      if_false, U16, U8, Nat.zero_mul, Nat.zero_mod, Nat.add_zero, Nat.shiftRight_eq_div_pow] <;> omega

theorem interpolate_max (W e0 e1 : Nat) (hW : W = 2 ∨ W = 3 ∨ W = 4) (h1 : e1 < 256) :
    interpolate W e0 e1 (2 ^ W - 1) = e1 := by
  rcases hW with h | h | h <;> subst h <;>
    simp only [interpolate, weight, WEIGHTS_2, WEIGHTS_3, WEIGHTS_4, Nat.reduceEqDiff, if_true, Nat.reducePow,
      Nat.reduceSub, List.getD_cons_succ, List.getD_cons_zero,
      if_false, U16, U8, Nat.zero_mul, Nat.zero_mod, Nat.zero_add, Nat.shiftRight_eq_div_pow, Nat.reduceAdd,
      Nat.reduceMod] <;> omega

/-! ### the palette list of `closest_*` = the interpolation table -/

theorem palette_length {α : Type} (I : Nat) (interp : α → α → Nat → α) (e0 e1 : α) (hI : I = 2 ∨ I = 3 ∨ I = 4) :
    (palette I interp e0 e1).length = 2 ^ I := by
  rcases hI with h | h | h <;> subst h <;> simp [palette]

/-- entry `j`: the end entries are the endpoints themselves, the inner ones `interp e0 e1 j` -/
theorem palette_getD {α : Type} (I : Nat) (interp : α → α → Nat → α) (e0 e1 d : α) (j : Nat)
    (hI : I = 2 ∨ I = 3 ∨ I = 4) (hj : j < 2 ^ I) :
    (palette I interp e0 e1).getD j d = if j = 0 then e0 else if j = 2 ^ I - 1 then e1 else interp e0 e1 j := by
  rcases hI with h | h | h <;> subst h
  · have : j = 0 ∨ j = 1 ∨ j = 2 ∨ j = 3 := by omega
    rcases this with h | h | h | h <;> subst h <;> rfl
  · have : j = 0 ∨ j = 1 ∨ j = 2 ∨ j = 3 ∨ j = 4 ∨ j = 5 ∨ j = 6 ∨ j = 7 := by omega
    rcases this with h | h | h | h | h | h | h | h <;> subst h <;> rfl
  · have : j = 0 ∨ j = 1 ∨ j = 2 ∨ j = 3 ∨ j = 4 ∨ j = 5 ∨ j = 6 ∨ j = 7 ∨ j = 8 ∨ j = 9 ∨ j = 10 ∨ j = 11 ∨
        j = 12 ∨ j = 13 ∨ j = 14 ∨ j = 15 := by omega
    rcases this with h | h | h | h | h | h | h | h | h | h | h | h | h | h | h | h <;> subst h <;> rfl

/-- for byte endpoints given as 4-lists the palette IS the table `j ↦ interpolate_rgba(e0, e1, j)` -/
theorem paletteRgba_getD (I : Nat) (a0 a1 a2 a3 b0 b1 b2 b3 j : Nat) (hI : I = 2 ∨ I = 3 ∨ I = 4) (hj : j < 2 ^ I)
    (ha : a0 < 256 ∧ a1 < 256 ∧ a2 < 256 ∧ a3 < 256) (hb : b0 < 256 ∧ b1 < 256 ∧ b2 < 256 ∧ b3 < 256) :
    (palette I (interpolateRgba I) [a0, a1, a2, a3] [b0, b1, b2, b3]).getD j [] =
      interpolateRgba I [a0, a1, a2, a3] [b0, b1, b2, b3] j := by
  rw [palette_getD I _ _ _ _ j hI hj]
  by_cases h0 : j = 0
  · subst h0
    simp only [if_true, interpolateRgba, px4e, interpolate_zero I _ _ hI ha.1, interpolate_zero I _ _ hI ha.2.1,
      interpolate_zero I _ _ hI ha.2.2.1, interpolate_zero I _ _ hI ha.2.2.2]
  · by_cases h1 : j = 2 ^ I - 1
    · subst h1
      simp only [h0, if_false, if_true, interpolateRgba, px4e, interpolate_max I _ _ hI hb.1,
        interpolate_max I _ _ hI hb.2.1, interpolate_max I _ _ hI hb.2.2.1, interpolate_max I _ _ hI hb.2.2.2]
    · simp only [h0, h1, if_false]

theorem paletteRgb_getD (I : Nat) (a0 a1 a2 b0 b1 b2 j : Nat) (hI : I = 2 ∨ I = 3 ∨ I = 4) (hj : j < 2 ^ I)
    (ha : a0 < 256 ∧ a1 < 256 ∧ a2 < 256) (hb : b0 < 256 ∧ b1 < 256 ∧ b2 < 256) :
    (palette I (interpolateRgb I) [a0, a1, a2] [b0, b1, b2]).getD j [] =
      interpolateRgb I [a0, a1, a2] [b0, b1, b2] j := by
  rw [palette_getD I _ _ _ _ j hI hj]
  by_cases h0 : j = 0
  · subst h0
    simp only [if_true, interpolateRgb, px3e, interpolate_zero I _ _ hI ha.1, interpolate_zero I _ _ hI ha.2.1,
      interpolate_zero I _ _ hI ha.2.2]
  · by_cases h1 : j = 2 ^ I - 1
    · subst h1
      simp only [h0, if_false, if_true, interpolateRgb, px3e, interpolate_max I _ _ hI hb.1,
        interpolate_max I _ _ hI hb.2.1, interpolate_max I _ _ hI hb.2.2]
    · simp only [h0, h1, if_false]

theorem paletteAlpha_getD (I a b j : Nat) (hI : I = 2 ∨ I = 3 ∨ I = 4) (hj : j < 2 ^ I) (ha : a < 256) (hb : b < 256) :
    (palette I (interpolateAlpha I) a b).getD j 0 = interpolateAlpha I a b j := by
  rw [palette_getD I _ _ _ _ j hI hj]
  by_cases h0 : j = 0
  · subst h0; simp only [if_true, interpolateAlpha, interpolate_zero I _ _ hI ha]
  · by_cases h1 : j = 2 ^ I - 1
    · subst h1; simp only [h0, if_false, if_true, interpolateAlpha, interpolate_max I _ _ hI hb]
    · simp only [h0, h1, if_false]

/-- every entry of the palette list has byte channels -/
theorem palette_mem {α : Type} (I : Nat) (interp : α → α → Nat → α) (e0 e1 : α) (P : α → Prop)
    (h0 : P e0) (h1 : P e1) (hi : ∀ k, P (interp e0 e1 k)) : ∀ c ∈ palette I interp e0 e1, P c := by
  intro c hc
  simp only [palette, List.mem_append, List.mem_singleton, List.mem_map] at hc
  rcases hc with (h | ⟨k, _, rfl⟩) | h
  · rw [h]; exact h0
  · exact hi _
  · rw [h]; exact h1

def Byte4 (c : List Nat) : Prop := ∀ k, k < 4 → px c k ≤ 255
def Byte3 (c : List Nat) : Prop := ∀ k, k < 3 → px c k ≤ 255

theorem distSqRgba_le (p c : List Nat) (hp : Byte4 p) (hc : Byte4 c) : distSqRgba p c ≤ 260100 := by
  unfold distSqRgba
  have := sqDiff_le _ _ (hp 0 (by decide)) (hc 0 (by decide))
  have := sqDiff_le _ _ (hp 1 (by decide)) (hc 1 (by decide))
  have := sqDiff_le _ _ (hp 2 (by decide)) (hc 2 (by decide))
  have := sqDiff_le _ _ (hp 3 (by decide)) (hc 3 (by decide))
  omega

theorem distSqRgb_le (p c : List Nat) (hp : Byte3 p) (hc : Byte3 c) : distSqRgb p c ≤ 195075 := by
  unfold distSqRgb
  have := sqDiff_le _ _ (hp 0 (by decide)) (hc 0 (by decide))
  have := sqDiff_le _ _ (hp 1 (by decide)) (hc 1 (by decide))
  have := sqDiff_le _ _ (hp 2 (by decide)) (hc 2 (by decide))
  omega

theorem byte4_interp (W : Nat) (e0 e1 : List Nat) (k : Nat) : Byte4 (interpolateRgba W e0 e1 k) := by
  intro c hc
  have : c = 0 ∨ c = 1 ∨ c = 2 ∨ c = 3 := by omega
  rcases this with h | h | h | h <;> subst h <;> simp only [interpolateRgba, px4e] <;>
    exact Nat.le_of_lt_succ (interpolate_lt _ _ _ _)

theorem byte3_interp (W : Nat) (e0 e1 : List Nat) (k : Nat) : Byte3 (interpolateRgb W e0 e1 k) := by
  intro c hc
  have : c = 0 ∨ c = 1 ∨ c = 2 := by omega
  rcases this with h | h | h <;> subst h <;> simp only [interpolateRgb, px3e] <;>
    exact Nat.le_of_lt_succ (interpolate_lt _ _ _ _)

/-! ### T3 instances -/

theorem closestRgba_argmin (I : Nat) (e0 e1 : List Nat) (pixels : List (List Nat)) (hI : I = 2 ∨ I = 3 ∨ I = 4)
    (h0 : Byte4 e0) (h1 : Byte4 e1) (hp : ∀ p ∈ pixels, Byte4 p) (hn : pixels.length ≤ 16) :
    ArgminSpec I distSqRgba (palette I (interpolateRgba I) e0 e1) pixels [] 260100 (closestRgba I e0 e1 pixels) :=
  closest_argmin I distSqRgba (palette I (interpolateRgba I) e0 e1) pixels [] 260100 hI
    (palette_length I _ e0 e1 hI) hn
    (fun p hpm c hc => distSqRgba_le p c (hp p hpm)
      (palette_mem I (interpolateRgba I) e0 e1 Byte4 h0 h1 (fun k => byte4_interp I e0 e1 k) c hc))
    (by decide)

theorem closestRgb_argmin (I : Nat) (e0 e1 : List Nat) (pixels : List (List Nat)) (hI : I = 2 ∨ I = 3 ∨ I = 4)
    (h0 : Byte3 e0) (h1 : Byte3 e1) (hp : ∀ p ∈ pixels, Byte3 p) (hn : pixels.length ≤ 16) :
    ArgminSpec I distSqRgb (palette I (interpolateRgb I) e0 e1) pixels [] 195075 (closestRgb I e0 e1 pixels) :=
  closest_argmin I distSqRgb (palette I (interpolateRgb I) e0 e1) pixels [] 195075 hI
    (palette_length I _ e0 e1 hI) hn
    (fun p hpm c hc => distSqRgb_le p c (hp p hpm)
      (palette_mem I (interpolateRgb I) e0 e1 Byte3 h0 h1 (fun k => byte3_interp I e0 e1 k) c hc))
    (by decide)

theorem closestAlpha_argmin (I : Nat) (e0 e1 : Nat) (pixels : List Nat) (hI : I = 2 ∨ I = 3 ∨ I = 4)
    (h0 : e0 ≤ 255) (h1 : e1 ≤ 255) (hp : ∀ p ∈ pixels, p ≤ 255) (hn : pixels.length ≤ 16) :
    ArgminSpec I sqDiff (palette I (interpolateAlpha I) e0 e1) pixels 0 65025 (closestAlpha I e0 e1 pixels) :=
  closest_argmin I sqDiff (palette I (interpolateAlpha I) e0 e1) pixels 0 65025 hI
    (palette_length I _ e0 e1 hI) hn
    (fun p hpm c hc => sqDiff_le p c (hp p hpm)
      (palette_mem I (interpolateAlpha I) e0 e1 (· ≤ 255) h0 h1
        (fun k => Nat.le_of_lt_succ (interpolate_lt _ _ _ _)) c hc))
    (by decide)

/-! ### T4: representable content is reproduced exactly by writer ∘ closest (mode 6) -/

theorem distSqRgba_self (p : List Nat) : distSqRgba p p = 0 := by simp [distSqRgba, sqDiff_self]

theorem eq_of_distSqRgba_zero (a0 a1 a2 a3 b0 b1 b2 b3 : Nat) (h : distSqRgba [a0, a1, a2, a3] [b0, b1, b2, b3] = 0) :
    [a0, a1, a2, a3] = [b0, b1, b2, b3] := by
  simp only [distSqRgba, px4e] at h
  have h0 := sqDiff_eq_zero a0 b0 (by omega)
  have h1 := sqDiff_eq_zero a1 b1 (by omega)
  have h2 := sqDiff_eq_zero a2 b2 (by omega)
  have h3 := sqDiff_eq_zero a3 b3 (by omega)
  subst h0 h1 h2 h3; rfl

theorem pPromoteCh7_lt (v p : Nat) (hv : v < 2 ^ 7) (hp : p < 2) : pPromoteCh 7 v p < 256 := by
  rw [pPromoteCh7, Bc7.withP_eq v hv p hp]; omega

/-- every pixel that IS an entry of the mode-6 palette of `(e0, p0), (e1, p1)` comes back exactly -/
theorem mode6_exact (e0 e1 : List Nat) (p0 p1 : Nat) (pixels : List (List Nat)) (hlen : pixels.length = 16)
    (he0 : ∀ c, c < 4 → px e0 c < 2 ^ 7) (he1 : ∀ c, c < 4 → px e1 c < 2 ^ 7) (hp0 : p0 < 2) (hp1 : p1 < 2)
    (hpx : ∀ p ∈ pixels, ∃ k, k < 16 ∧ p = interpolateRgba 4 (pPromoteRgba 7 e0 p0) (pPromoteRgba 7 e1 p1) k) :
    Bc7.decodeBlock (mode6 [e0, e1] [p0, p1]
      (closestRgba 4 (pPromoteRgba 7 e0 p0) (pPromoteRgba 7 e1 p1) pixels).1) = pixels := by
  have hb0 : Byte4 (pPromoteRgba 7 e0 p0) := by
    intro c hc
    have : c = 0 ∨ c = 1 ∨ c = 2 ∨ c = 3 := by omega
    rcases this with h | h | h | h <;> subst h <;> simp only [pPromoteRgba, px4e] <;>
      exact Nat.le_of_lt_succ (pPromoteCh7_lt _ _ (he0 _ (by decide)) hp0)
  have hb1 : Byte4 (pPromoteRgba 7 e1 p1) := by
    intro c hc
    have : c = 0 ∨ c = 1 ∨ c = 2 ∨ c = 3 := by omega
    rcases this with h | h | h | h <;> subst h <;> simp only [pPromoteRgba, px4e] <;>
      exact Nat.le_of_lt_succ (pPromoteCh7_lt _ _ (he1 _ (by decide)) hp1)
  have hpb : ∀ p ∈ pixels, Byte4 p := by
    intro p hp
    obtain ⟨k, _, rfl⟩ := hpx p hp
    exact byte4_interp 4 _ _ k
  obtain ⟨hper, _, _, hlt⟩ := closestRgba_argmin 4 _ _ pixels (by decide) hb0 hb1 hpb (by omega)
  have hE : ∀ e, e < 2 → ∀ c, c < 4 → px (ep [e0, e1] e) c < 2 ^ 7 := by
    apply lt2_cases
    · exact he0
    · exact he1
  have hP : ∀ k, k < 2 → px [p0, p1] k < 2 := by
    apply lt2_cases
    · exact hp0
    · exact hp1
  rw [mode6_roundtrip [e0, e1] [p0, p1] _ hE hP (by simpa using hlt)]
  apply List.ext_getElem
  · simp [hlen]
  · intro i h1 h2
    have hi : i < pixels.length := h2
    obtain ⟨hk, hmin, _⟩ := hper i hi
    have hmem : pixels.getD i [] ∈ pixels := List.mem_of_getElem? (getElem?_of_lt pixels i [] hi)
    obtain ⟨k, hk16, hpk⟩ := hpx _ hmem
    have hgi : pixels[i] = pixels.getD i [] := by
      simp [List.getD_eq_getElem?_getD, List.getElem?_eq_getElem hi]
    simp only [List.getElem_map, List.getElem_range, ep, px, List.getD_cons_zero, List.getD_cons_succ]
    rw [hgi]
    -- the palette table
    have hbyte : ∀ (e : List Nat) (p : Nat), (∀ c, c < 4 → px e c < 2 ^ 7) → p < 2 →
        pPromoteCh 7 (px e 0) p < 256 ∧ pPromoteCh 7 (px e 1) p < 256 ∧ pPromoteCh 7 (px e 2) p < 256 ∧
          pPromoteCh 7 (px e 3) p < 256 :=
      fun e p he hp => ⟨pPromoteCh7_lt _ _ (he 0 (by decide)) hp, pPromoteCh7_lt _ _ (he 1 (by decide)) hp,
        pPromoteCh7_lt _ _ (he 2 (by decide)) hp, pPromoteCh7_lt _ _ (he 3 (by decide)) hp⟩
    have hpal : ∀ j, j < 2 ^ 4 → (palette 4 (interpolateRgba 4) (pPromoteRgba 7 e0 p0) (pPromoteRgba 7 e1 p1)).getD j [] =
        interpolateRgba 4 (pPromoteRgba 7 e0 p0) (pPromoteRgba 7 e1 p1) j :=
      fun j hj => paletteRgba_getD 4 _ _ _ _ _ _ _ _ j (by decide) hj (hbyte e0 p0 he0 hp0) (hbyte e1 p1 he1 hp1)
    have hm := hmin k hk16
    rw [hpal _ hk, hpal k hk16, ← hpk, distSqRgba_self] at hm
    have hz : distSqRgba (pixels.getD i []) (interpolateRgba 4 (pPromoteRgba 7 e0 p0) (pPromoteRgba 7 e1 p1)
        (get 4 (closestRgba 4 (pPromoteRgba 7 e0 p0) (pPromoteRgba 7 e1 p1) pixels).1 i)) = 0 := by omega
    generalize get 4 (closestRgba 4 (pPromoteRgba 7 e0 p0) (pPromoteRgba 7 e1 p1) pixels).1 i = kk at hz ⊢
    rw [hpk] at hz ⊢
    exact (eq_of_distSqRgba_zero _ _ _ _ _ _ _ _ hz).symm

/-! ### T4: opacity of written blocks -/

theorem interpolate_255 (W k : Nat) (hW : W = 2 ∨ W = 3 ∨ W = 4) (hk : k < 2 ^ W) : interpolate W 255 255 k = 255 := by
  rcases hW with h | h | h <;> subst h
  · have : ∀ k, k < 2 ^ 2 → interpolate 2 255 255 k = 255 := by decide
    exact this k hk
  · have : ∀ k, k < 2 ^ 3 → interpolate 3 255 255 k = 255 := by decide
    exact this k hk
  · have : ∀ k, k < 2 ^ 4 → interpolate 4 255 255 k = 255 := by decide
    exact this k hk

/-- alpha of pixel `i` of a decoded block -/
def alphaAt (block : List (List Nat)) (i : Nat) : Nat := px (block.getD i []) 3

theorem getD_map_range16 (f : Nat → List Nat) (i : Nat) (hi : i < 16) : ((List.range 16).map f).getD i [] = f i := by
  simp [List.getD_eq_getElem?_getD, hi]

/-- the alpha endpoints the writer receives decode to 255 -/
def AlphaOnes (f : Fields) : Prop :=
  f.mode ≤ 3 ∨
  (f.mode = 4 ∧ f.rotation = 0 ∧ px f.alpha 0 = 63 ∧ px f.alpha 1 = 63) ∨
  (f.mode = 5 ∧ f.rotation = 0 ∧ px f.alpha 0 = 255 ∧ px f.alpha 1 = 255) ∨
  (f.mode = 6 ∧ px (ep f.endpoints 0) 3 = 127 ∧ px (ep f.endpoints 1) 3 = 127 ∧ px f.pBits 0 = 1 ∧ px f.pBits 1 = 1) ∨
  (f.mode = 7 ∧ ∀ e, e < 4 → px (ep f.endpoints e) 3 = 31 ∧ px f.pBits e = 1)

instance (f : Fields) : Decidable (AlphaOnes f) := by unfold AlphaOnes; exact inferInstance

theorem writer_opaque (f : Fields) (h : f.WF) (ha : AlphaOnes f) (i : Nat) (hi : i < 16) :
    alphaAt (Bc7.decodeBlock (write f)) i = 255 := by
  rw [writer_roundtrip f h, alphaAt, getD_map_range16 _ i hi]
  obtain ⟨mode, part, rot, im, E, A, P, x, x2⟩ := f
  obtain ⟨hm, hpart, hrot, him, hE, hA, hP, hx, hx2⟩ := h
  simp only at hm hpart hrot him hE hA hP hx hx2
  simp only [AlphaOnes] at ha
  have e63 : promoteCh 6 63 = 255 := by decide
  have e255 : promoteCh 8 255 = 255 := by decide
  have e127 : pPromoteCh 7 127 1 = 255 := by decide
  have e31 : pPromoteCh 5 31 1 = 255 := by decide
  rcases ha with h03 | ⟨h4, hr, a0, a1⟩ | ⟨h5, hr, a0, a1⟩ | ⟨h6, a0, a1, p0, p1⟩ | ⟨h7, hall⟩
  · have hm' : mode = 0 ∨ mode = 1 ∨ mode = 2 ∨ mode = 3 := by omega
    rcases hm' with h | h | h | h <;> subst h <;>
      simp only [intended, Nat.reduceEqDiff, if_true, if_false, interpolateRgb, List.cons_append, List.nil_append, px4e]
  · subst h4 hr
    simp only [modeShape, Nat.reduceEqDiff, if_true, if_false, Nat.reduceMul] at hx hx2
    have him' : im = 0 ∨ im = 1 := by omega
    rcases him' with h | h <;> subst h <;>
      simp only [intended, Nat.reduceEqDiff, if_true, if_false, interpolateRgb, List.cons_append, List.nil_append,
        rotApply, px4e, interpolateAlpha, a0, a1, e63, Nat.zero_ne_one]
    · exact interpolate_255 3 _ (by decide) (get_lt 3 x2 i (by decide))
    · exact interpolate_255 2 _ (by decide) (get_lt 2 x i (by decide))
  · subst h5 hr
    simp only [intended, Nat.reduceEqDiff, if_true, if_false, interpolateRgb, List.cons_append, List.nil_append,
      rotApply, px4e, interpolateAlpha, a0, a1, e255]
    exact interpolate_255 2 _ (by decide) (get_lt 2 x2 i (by decide))
  · subst h6
    simp only [intended, subsetOf, Nat.reduceEqDiff, if_true, if_false, interpolateRgba, pPromoteRgba, px4e,
      Nat.mul_zero, Nat.zero_add, a0, a1, p0, p1, e127, or_self]
    exact interpolate_255 4 _ (by decide) (get_lt 4 x i (by decide))
  · subst h7
    have hs := subset2_le part i (by simpa [modeShape] using hpart) hi
    simp only [intended, subsetOf, Nat.reduceEqDiff, if_true, if_false, interpolateRgba, pPromoteRgba, px4e, or_true,
      or_false, false_or]
    generalize subset2Index (implP2 part) i = s at hs ⊢
    have hs' : s = 0 ∨ s = 1 := by omega
    rcases hs' with h | h <;> subst h <;>
      simp only [Nat.reduceMul, Nat.reduceAdd, Nat.mul_zero, Nat.zero_add, (hall 0 (by decide)).1, (hall 1 (by decide)).1,
        (hall 2 (by decide)).1, (hall 3 (by decide)).1, (hall 0 (by decide)).2, (hall 1 (by decide)).2,
        (hall 2 (by decide)).2, (hall 3 (by decide)).2, e31] <;>
      exact interpolate_255 2 _ (by decide) (get_lt 2 x i (by decide))

end Dds.Enc7
