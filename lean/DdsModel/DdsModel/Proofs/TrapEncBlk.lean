/-
C15 (encoder loops, part 2): the mirrors of `TrapEncBlk.lean` (row-group loop, sub-sampled, bi-planar, block
formats) return `some` of the write sizes of `EncLen.lean` for every view that satisfies C20's invariant.
-/
import DdsModel.TrapEncBlk
import DdsModel.Proofs.TrapEnc
namespace Dds.TrapEnc
open Dds Dds.Trap

/-! ## `for_each_f32_rgba_rows` -/

theorem fillGroupT_eq {c : Color} (hc : c.OK) {w bh : Nat} (hbuf : w * bh < 18446744073709551616) (hbhl : bh ≤ 65536) :
    ∀ (n i m : Nat), i + n ≤ bh → n ≤ m →
      fillGroupT c w (w * bh) i n (List.replicate m (w * c.bpp)) = some (List.replicate (m - n) (w * c.bpp)) := by
  intro n
  induction n with
  | zero => intro i m _ _; simp [fillGroupT]
  | succ n ih =>
    intro i m hi hm
    obtain ⟨m, rfl⟩ : ∃ m', m = m' + 1 := ⟨m - 1, by omega⟩
    rw [List.replicate_succ]
    unfold fillGroupT
    have h1 : i * w ≤ bh * w := Nat.mul_le_mul_right _ (by omega)
    have h2 : (i + 1) * w ≤ bh * w := Nat.mul_le_mul_right _ (by omega)
    have h3 : (i + 1) * w - i * w = w := by rw [Nat.add_mul]; omega
    have h4 : i * w ≤ (i + 1) * w := Nat.mul_le_mul_right _ (by omega)
    rw [Nat.mul_comm bh w] at h1 h2
    have e : m + 1 - (n + 1) = m - n := by omega
    enc_simp [h3, convertToRgbaF32T_eq hc, ih (i + 1) m (by omega) (by omega), e]

theorem fullGroupsT_eq {c : Color} (hc : c.OK) {w bh : Nat} (hbuf : w * bh < 18446744073709551616) (hbhl : bh ≤ 65536) :
    ∀ (g m : Nat), g * bh ≤ m →
      fullGroupsT c w bh (w * bh) g (List.replicate m (w * c.bpp)) =
        some (List.replicate (m - g * bh) (w * c.bpp)) := by
  intro g
  induction g with
  | zero => intro m _; simp [fullGroupsT]
  | succ g ih =>
    intro m hm
    rw [Nat.add_mul, Nat.one_mul] at hm
    unfold fullGroupsT
    rw [fillGroupT_eq hc hbuf hbhl bh 0 m (by omega) (by omega), bind_some', ih (m - bh) (by omega)]
    congr 2
    rw [Nat.add_mul, Nat.one_mul]; omega

/-- **`for_each_f32_rgba_rows`**: the closure is called `ceil(h / bh)` times with a buffer of `w · bh` pixels; the
row iterator is exhausted exactly (`expect("Image has too few rows")`, `debug_assert!(rows.next().is_none())`), the
slices `[i·w .. (i+1)·w]` and the `copy_within` targets are inside the buffer — also for `w = 0`, `h < bh` -/
theorem forEachRowsT_eq {v : View} {c : Color} (hv : VOK v c) (hc : c.OK) {bh : Nat} (hbh : 1 ≤ bh ∧ bh ≤ 65536) :
    forEachRowsT v c bh = some (v.w * bh, rowGroups v.h bh) := by
  have hw := hv.inv.w_lt
  have hU : U32 = 4294967296 := rfl
  have hbuf : v.w * bh ≤ 4294967295 * 65536 := Nat.mul_le_mul (by omega) hbh.2
  have hfull : v.h / bh * bh ≤ v.h := Nat.div_mul_le_self _ _
  have hrest : v.h - v.h / bh * bh = v.h % bh := by
    have := Nat.div_add_mod v.h bh
    rw [Nat.mul_comm] at this; omega
  have hlt : v.h % bh < bh := Nat.mod_lt _ (by omega)
  unfold forEachRowsT rowGroups
  rw [dbgP_of (by omega), bind_some', mulU_of_lt (by omega), bind_some', allocT_of_le (by omega), bind_some',
    rowsT_eq hv, bind_some', div_of_ne (by omega), bind_some', hv.bpp, fullGroupsT_eq hc (by omega) hbh.2 _ _ hfull,
    bind_some', hrest, remU_of_ne (by omega), bind_some']
  by_cases hr : v.h % bh > 0
  · rw [if_pos hr, if_pos hr, fillGroupT_eq hc (by omega) hbh.2 _ 0 _ (by omega) (Nat.le_refl _), bind_some',
      Nat.sub_self, List.replicate_zero, dbgP_of rfl, bind_some']
    rw [mapT_eq_some _ (fun _ => ()) _ (by
      intro i hi
      obtain ⟨h1, h2⟩ := List.mem_range'_1.mp hi
      have hb1 : v.w * 1 ≤ v.w * bh := Nat.mul_le_mul_left _ hbh.1
      have hb2 : (i + 1) * v.w ≤ bh * v.w := Nat.mul_le_mul_right _ (by omega)
      rw [Nat.add_mul, Nat.one_mul, Nat.mul_comm bh] at hb2
      enc_simp [bind_some']), bind_some', pure_some']
  · rw [if_neg hr, if_neg hr, pure_some', Nat.add_zero]

/-! ## sub-sampled formats -/

theorem processSubsampleT_eq {bw p : Nat} (hbw : 1 ≤ bw) (hp : p < 4294967296) :
    processSubsampleT bw p (divCeil p bw) = some () := by
  have hfull : p / bw * bw ≤ p := Nat.div_mul_le_self _ _
  have hrest : p - p / bw * bw = p % bw := by
    have := Nat.div_add_mod p bw
    rw [Nat.mul_comm] at this; omega
  have hlt : p % bw < bw := Nat.mod_lt _ (by omega)
  have hfb : TrapUnc.fromBytesT (p / bw * bw * 16) (bw * 16) = some (p / bw) := by
    have e : p / bw * bw * 16 = p / bw * (bw * 16) := Nat.mul_assoc ..
    rw [e, TrapUnc.fromBytesT_of ⟨by omega, Nat.mul_mod_left ..⟩, Nat.mul_div_cancel _ (by omega)]
  unfold processSubsampleT
  rw [div_of_ne (by omega), bind_some', mulU_of_lt (by omega), bind_some', subU_of_le hfull, bind_some',
    sliceTo_of_le hfull, bind_some', hfb, bind_some', hrest]
  by_cases hr : p % bw > 0
  · have hdc : divCeil p bw = p / bw + 1 := by unfold divCeil; rw [if_pos hr]
    rw [if_pos hr, hdc]
    enc_simp [hrest]
  · rw [if_neg hr, pure_some']

/-- the chunk loop of one row on the chunks `L` (in pixels, each at most `cp`) -/
theorem subsampleRowT_eq {c : Color} (hc : c.OK) (aligned : Bool) {bw blockBytes prim cnt cp : Nat} (hbw : 1 ≤ bw)
    (hbb : blockBytes ≤ 65536) (hp : prim = 1 ∨ blockBytes % prim = 0)
    (hcpb : cp ≤ SrcConsts.SUBSAMPLE_BUFFER_PIXELS) (hcpe : divCeil cp bw ≤ SrcConsts.SUBSAMPLE_ENCODED_BLOCKS)
    (hcpl : cp < 4294967296)
    (hcnt : cnt < 18446744073709551616) (hfr : SrcConsts.SUBSAMPLE_REPORT_FREQUENCY ≠ 0) :
    ∀ (L : List Nat) (idx : Nat), (∀ q ∈ L, 1 ≤ q ∧ q ≤ cp) → idx + L.length ≤ cnt →
      subsampleRowT c aligned bw blockBytes prim cnt (L.map (· * c.bpp)) idx =
        some (L.map (fun q => divCeil q bw * blockBytes), idx + L.length) := by
  have hb := c.bpp_pos hc
  intro L
  induction L with
  | nil => intro idx _ _; simp [subsampleRowT]
  | cons q L ih =>
    intro idx hq hidx
    have hq1 := hq q (List.mem_cons_self ..)
    rw [List.length_cons] at hidx
    have hih := ih (idx + 1) (fun x hx => hq x (List.mem_cons_of_mem _ hx)) (by omega)
    have hdiv : q * c.bpp / c.bpp = q := Nat.mul_div_cancel _ (by omega)
    -- `ceil(q / bw) ≤ ceil(cp / bw)`: the encoded buffer holds the blocks of a full chunk
    have hmono : divCeil q bw ≤ divCeil cp bw := by
      rw [divCeil_eq _ _ (by omega), divCeil_eq _ _ (by omega)]
      exact Nat.div_le_div_right (by omega)
    have hdl : divCeil q bw ≤ q := divCeil_le_self _ _ hbw
    have hbytes : divCeil q bw * blockBytes ≤ 4294967296 * 65536 := Nat.mul_le_mul (by omega) hbb
    have hto : toLeT prim (divCeil q bw * blockBytes) = some () := by
      apply toLeT_of
      rcases hp with h | h
      · exact Or.inl h
      · right; exact Nat.mod_eq_zero_of_dvd (Nat.dvd_trans (Nat.dvd_of_mod_eq_zero h) (Nat.dvd_mul_left _ _))
    rw [List.map_cons]
    unfold subsampleRowT
    rw [progT_of hfr (by omega) hcnt, bind_some']
    enc_simp [hdiv, asRgbaF32T_eq hc, processSubsampleT_eq hbw, hto, hih, List.map_cons]
    simp only [List.length_cons, Option.some.injEq, Prod.mk.injEq, true_and]
    omega

theorem subsampleRowsT_eq {c : Color} (hc : c.OK) (aligned : Bool) {bw blockBytes prim cnt cp w : Nat} (hbw : 1 ≤ bw)
    (hbb : blockBytes ≤ 65536) (hp : prim = 1 ∨ blockBytes % prim = 0) (hcp : 1 ≤ cp)
    (hcpb : cp ≤ SrcConsts.SUBSAMPLE_BUFFER_PIXELS) (hcpe : divCeil cp bw ≤ SrcConsts.SUBSAMPLE_ENCODED_BLOCKS)
    (hcpl : cp < 4294967296)
    (hcnt : cnt < 18446744073709551616) (hfr : SrcConsts.SUBSAMPLE_REPORT_FREQUENCY ≠ 0) :
    ∀ (n idx : Nat), idx + n * divCeil w cp ≤ cnt →
      subsampleRowsT c aligned bw blockBytes prim (cp * c.bpp) cnt (w * c.bpp) (List.replicate n (w * c.bpp)) idx =
        some (List.replicate n ((chunkLens cp w w).map fun q => divCeil q bw * blockBytes)).flatten := by
  have hb := c.bpp_pos hc
  intro n
  induction n with
  | zero => intro idx _; simp [subsampleRowsT]
  | succ n ih =>
    intro idx hidx
    have hlen := chunkLens_length cp hcp w w (Nat.le_refl _)
    have hcs : cp * c.bpp ≠ 0 := by
      have : 1 * 1 ≤ cp * c.bpp := Nat.mul_le_mul hcp hb.1
      omega
    rw [Nat.add_mul, Nat.one_mul] at hidx
    rw [List.replicate_succ]
    unfold subsampleRowsT
    rw [dbgP_of rfl, bind_some', chunksT_of_ne hcs, bind_some', chunkLens_scale cp c.bpp hcp hb.1 _ _ (Nat.le_refl _),
      subsampleRowT_eq hc aligned hbw hbb hp hcpb hcpe hcpl hcnt hfr _ idx
        (fun q hq => by have := chunkLens_le cp hcp _ _ q hq; omega) (by rw [hlen]; omega),
      bind_some', ih _ (by rw [hlen]; omega), bind_some', pure_some']
    simp only [List.replicate_succ, List.flatten_cons]

/-- **`uncompressed_universal_subsample`** (sub_sampled.rs:30) for blocks of `bw` pixels encoded in `blockBytes` bytes:
every row is cut into chunks of `BUFFER_PIXELS / bw * bw` pixels, a chunk of `p` pixels writes `ceil(p / bw)` blocks;
the partial last block of a row (also for `width < bw`, `width = 1`) stays inside `data`, `last_block` and `out` -/
theorem subsampleT_eq {v : View} {c : Color} (hv : VOK v c) (hc : c.OK) (aligned : Bool) {bw blockBytes prim : Nat}
    (hbw : 2 ≤ bw ∧ bw ≤ SrcConsts.SUBSAMPLE_BUFFER_PIXELS) (hbb : blockBytes ≤ 65536)
    (hp : prim = 1 ∨ blockBytes % prim = 0)
    (hbuf : SrcConsts.SUBSAMPLE_BUFFER_PIXELS ≤ 65536 ∧
      SrcConsts.SUBSAMPLE_BUFFER_PIXELS / 2 ≤ SrcConsts.SUBSAMPLE_ENCODED_BLOCKS)
    (hfr : SrcConsts.SUBSAMPLE_REPORT_FREQUENCY ≠ 0) :
    subsampleT v c aligned bw blockBytes prim =
      some (chunksSubsample v.w v.h (SrcConsts.SUBSAMPLE_BUFFER_PIXELS / bw * bw) bw blockBytes) := by
  have hb := c.bpp_pos hc
  have hw := hv.inv.w_lt
  have hh := hv.inv.h_lt
  have hU : U32 = 4294967296 := rfl
  generalize hBP : SrcConsts.SUBSAMPLE_BUFFER_PIXELS = BP at *
  have hq1 : 1 ≤ BP / bw := (Nat.one_le_div_iff (by omega)).2 hbw.2
  have hcple : BP / bw * bw ≤ BP := Nat.div_mul_le_self _ _
  generalize hcpd : BP / bw * bw = cp at *
  have hcp1 : 1 ≤ cp := by
    rw [← hcpd]
    have : 1 * 1 ≤ BP / bw * bw := Nat.mul_le_mul hq1 (by omega)
    omega
  have hcpm : cp % bw = 0 := by rw [← hcpd]; exact Nat.mul_mod_left ..
  have hcpe : divCeil cp bw ≤ SrcConsts.SUBSAMPLE_ENCODED_BLOCKS := by
    have h1 : divCeil cp bw = BP / bw := by
      unfold divCeil
      rw [hcpm, if_neg (by omega), ← hcpd, Nat.mul_div_cancel _ (by omega)]
    have h2 : BP / bw ≤ BP / 2 := Nat.div_le_div_left hbw.1 (by omega)
    omega
  have hcs : cp * c.bpp ≤ 65536 * 16 := Nat.mul_le_mul (by omega) hb.2
  have hcs1 : 1 * 1 ≤ cp * c.bpp := Nat.mul_le_mul hcp1 hb.1
  have hrow : v.w * c.bpp ≤ v.w * 16 := Nat.mul_le_mul_left _ hb.2
  have hper : divCeil (v.w * c.bpp) (cp * c.bpp) = divCeil v.w cp := divCeil_mul_right _ _ _ hcp1 hb.1
  have hperle : divCeil v.w cp ≤ v.w := divCeil_le_self _ _ hcp1
  have hcnt : v.h * divCeil v.w cp ≤ 4294967295 * 4294967295 := Nat.mul_le_mul (by omega) (by omega)
  unfold subsampleT
  simp only [hBP]
  enc_simp [hcpd, hper, rowsT_eq hv, hv.bpp]
  rw [subsampleRowsT_eq (w := v.w) hc aligned (by omega) hbb hp hcp1 (by rw [hBP]; omega) hcpe (by omega)
    (by omega) hfr v.h 0 (by rw [Nat.zero_add, Nat.mul_comm]; exact Nat.le_refl _)]
  unfold chunksSubsample
  rw [map_const_range]

/-! ## bi-planar formats -/

theorem biPlanarGroupT_eq {w : Nat} (hw : w < 4294967296) : biPlanarGroupT w (w * 2) (w * 2) = some () := by
  unfold biPlanarGroupT
  rw [div_of_ne (by omega), bind_some']
  rw [mapT_eq_some _ (fun _ => [[(), ()], [(), ()]]) _ (by
    intro mx hmx
    have hmx : mx < w / 2 := List.mem_range.mp hmx
    apply mapT_eq_some _ (fun _ => [(), ()])
    intro y hy
    have hy : y < 2 := List.mem_range.mp hy
    apply mapT_eq_some _ (fun _ => ())
    intro x hx
    have hx : x < 2 := List.mem_range.mp hx
    have hyw : y * w ≤ 1 * w := Nat.mul_le_mul_right _ (by omega)
    enc_simp [bind_some']), bind_some', pure_some']

/-- `plane2_len · size_of::<P2>()` cannot exceed `isize::MAX` for a view that exists: `w · h ≤ data.len()` -/
theorem pixels_le_len {v : View} {c : Color} (hv : VOK v c) : v.w * v.h ≤ v.len := by
  by_cases he : v.w = 0 ∨ v.h = 0
  · rcases he with h | h <;> rw [h] <;> simp
  · rw [hv.inv.len_eq he]
    have h1 : v.w * 1 ≤ v.w * v.bpp := Nat.mul_le_mul_left _ hv.inv.bpp_pos
    have h2 : v.w * v.bpp * (v.h - 1) ≤ v.pitch * (v.h - 1) := Nat.mul_le_mul_right _ hv.inv.pitch_ge
    have h3 : v.w * (v.h - 1) ≤ v.w * v.bpp * (v.h - 1) := Nat.mul_le_mul_right _ (by omega)
    have h4 : v.w * v.h = v.w * (v.h - 1) + v.w := by
      have : v.h = (v.h - 1) + 1 := by omega
      conv => lhs; rw [this, Nat.mul_add, Nat.mul_one]
    omega

/-- **`bi_planar_universal`** (bi_planar.rs:16): odd sizes are refused before anything is written; otherwise one write
of plane 1 per row pair and one of plane 2.  The progress divisor `report_frequency` is never zero (also for the
empty image), `Vec::with_capacity(plane2_len)` stays below `isize::MAX`, the 2×2 cell indices stay inside the f32
buffer and `plane1_buffer`, and `plane2` has exactly `plane2_len` elements at the end. -/
theorem biPlanarT_eq {v : View} {c : Color} (hv : VOK v c) (hc : c.OK) {s1 prim1 s2 prim2 : Nat}
    (hs1 : s1 ≤ 4096) (hs2 : s2 ≤ 4) (hp1 : prim1 = 1 ∨ s1 % prim1 = 0) (hp2 : prim2 = 1 ∨ s2 % prim2 = 0)
    (hfr : SrcConsts.BIPLANAR_REPORT_PIXELS ≠ 0) :
    biPlanarT v c s1 prim1 s2 prim2 =
      some (if v.w % 2 ≠ 0 ∨ v.h % 2 ≠ 0 then none else some (writesBiPlanar v.w v.h s1 s2)) := by
  have hw := hv.inv.w_lt
  have hh := hv.inv.h_lt
  have hU : U32 = 4294967296 := rfl
  have hI : I64MAX = 9223372036854775807 := rfl
  unfold biPlanarT
  rw [remU_of_ne (by omega), bind_some', remU_of_ne (by omega), bind_some']
  by_cases hodd : v.w % 2 ≠ 0 ∨ v.h % 2 ≠ 0
  · rw [if_pos hodd, if_pos hodd, pure_some']
  · rw [if_neg hodd, if_neg hodd]
    have hp1s : v.w * 2 * s1 ≤ 8589934590 * 4096 := Nat.mul_le_mul (by omega) hs1
    have hhalf : v.w / 2 * (v.h / 2) ≤ 2147483647 * 2147483647 := Nat.mul_le_mul (by omega) (by omega)
    -- `(w/2)·(h/2)·4 ≤ w·h ≤ data.len() ≤ isize::MAX`
    have hquad : v.w / 2 * (v.h / 2) * 4 ≤ v.w * v.h := by
      have e : v.w / 2 * (v.h / 2) * 4 = (2 * (v.w / 2)) * (2 * (v.h / 2)) := by
        rw [Nat.mul_mul_mul_comm 2, Nat.mul_comm (2 * 2)]
      rw [e]
      exact Nat.mul_le_mul (Nat.mul_div_le _ _) (Nat.mul_div_le _ _)
    have hp2s : v.w / 2 * (v.h / 2) * s2 ≤ v.w / 2 * (v.h / 2) * 4 := Nat.mul_le_mul_left _ hs2
    have hlen := pixels_le_len hv
    have hvl := hv.len
    have hcalls : rowGroups v.h 2 = v.h / 2 := by unfold rowGroups; rw [if_neg (by omega)]; omega
    have hgc : divCeil v.h 2 = v.h / 2 := by unfold divCeil; rw [if_neg (by omega)]
    have hpush : v.h / 2 * (v.w / 2) = v.w / 2 * (v.h / 2) := Nat.mul_comm ..
    have hto1 : toLeT prim1 (v.w * 2 * s1) = some () := by
      apply toLeT_of
      rcases hp1 with h | h
      · exact Or.inl h
      · right; exact Nat.mod_eq_zero_of_dvd (Nat.dvd_trans (Nat.dvd_of_mod_eq_zero h) (Nat.dvd_mul_left _ _))
    have hto2 : toLeT prim2 (v.w / 2 * (v.h / 2) * s2) = some () := by
      apply toLeT_of
      rcases hp2 with h | h
      · exact Or.inl h
      · right; exact Nat.mod_eq_zero_of_dvd (Nat.dvd_trans (Nat.dvd_of_mod_eq_zero h) (Nat.dvd_mul_left _ _))
    have hmax : max (v.w * 2) 1 ≠ 0 := by omega
    enc_simp [forEachRowsT_eq hv hc (bh := 2) (by omega), hcalls, hgc]
    have hfreq : divCeil SrcConsts.BIPLANAR_REPORT_PIXELS (max (v.w * 2) 1) ≠ 0 := by
      have := (divCeil_spec SrcConsts.BIPLANAR_REPORT_PIXELS (max (v.w * 2) 1) (by omega)).1
      intro h0
      rw [h0, Nat.zero_mul] at this
      omega
    rw [mapT_eq_some _ (fun _ => v.w * 2 * s1) _ (by
      intro g hg
      have hg : g < v.h / 2 := List.mem_range.mp hg
      enc_simp [progT_of hfreq hg, biPlanarGroupT_eq, hto1]), bind_some']
    enc_simp [hpush, hto2]
    unfold writesBiPlanar
    rw [hcalls]

/-! ## block-compressed formats -/

/-- the 4×4 reads stay inside the slice when it holds three pitches and four more pixels -/
theorem get4x4T_of {dataLen pitch : Nat} (h : 3 * pitch + 4 ≤ dataLen) (hl : dataLen < 18446744073709551616) :
    get4x4T dataLen pitch = some () := by
  unfold get4x4T
  rw [mapT_eq_some _ (fun _ => [(), (), (), ()]) _ (by
    intro i hi
    have hi : i < 4 := List.mem_range.mp hi
    apply mapT_eq_some _ (fun _ => ())
    intro j hj
    have hj : j < 4 := List.mem_range.mp hj
    have hip : i * pitch ≤ 3 * pitch := Nat.mul_le_mul_right _ (by omega)
    enc_simp [bind_some']), bind_some', pure_some']

/-- what `block_universal` needs of `encode_block(data, row_pitch, ..)`: it reads at most a `bw × bh` block at the start
of the slice, rows `row_pitch` apart -/
def EncBlockOK (encT : Nat → Nat → Option Unit) (bw bh : Nat) : Prop :=
  ∀ dataLen pitch, (bh - 1) * pitch + bw ≤ dataLen → dataLen < 18446744073709551616 → encT dataLen pitch = some ()

theorem get4x4T_ok : EncBlockOK get4x4T 4 4 := fun _ _ h hl => get4x4T_of h hl

theorem fullBlocksT_eq {encT : Nat → Nat → Option Unit} {w bw bh encLen cnt freq : Nat} (hok : EncBlockOK encT bw bh)
    (hbw : 1 ≤ bw) (hbh : 1 ≤ bh) (hbuf : w * bh < 18446744073709551616) (hfr : freq ≠ 0)
    (hcnt : cnt < 18446744073709551616) :
    ∀ (n bi idx : Nat), (bi + n) * bw ≤ w → bi + n ≤ encLen → idx + n ≤ cnt →
      fullBlocksT encT w (w * bh) encLen bw cnt freq bi n idx = some (idx + n) := by
  intro n
  induction n with
  | zero => intro bi idx _ _ _; simp [fullBlocksT]
  | succ n ih =>
    intro bi idx hb he hi
    have h1 : (bi + 1) * bw ≤ (bi + (n + 1)) * bw := Nat.mul_le_mul_right _ (by omega)
    rw [Nat.add_mul, Nat.one_mul] at h1
    have h2 : w * 1 ≤ w * bh := Nat.mul_le_mul_left _ hbh
    have h3 : w * bh = (bh - 1) * w + w := by
      have : bh = (bh - 1) + 1 := by omega
      conv => lhs; rw [this, Nat.mul_add, Nat.mul_one, Nat.mul_comm]
    unfold fullBlocksT reportBlockT
    rw [mulU_of_lt (by omega), bind_some', sliceFrom_of_le (by omega), bind_some', idxLen_of_lt (by omega), bind_some',
      hok _ _ (by omega) (by omega), bind_some', progT_of hfr (by omega) hcnt, bind_some', pure_some', bind_some',
      ih (bi + 1) (idx + 1) (by rw [Nat.add_assoc, Nat.add_comm 1 n]; exact hb) (by omega) (by omega)]
    congr 1; omega

/-- one row group: `ceil(w / bw)` blocks are encoded and reported, one write of `ceil(w / bw) · bytes` -/
theorem blockGroupT_eq {encT : Nat → Nat → Option Unit} {w bw bh bb cnt freq idx : Nat} (hok : EncBlockOK encT bw bh)
    (hbw : 1 ≤ bw ∧ bw ≤ 256) (hbh : 1 ≤ bh ∧ bh ≤ 256) (hw : w < 4294967296) (hbb : bb ≤ 65536) (hfr : freq ≠ 0)
    (hcnt : cnt < 18446744073709551616) (hidx : idx + divCeil w bw ≤ cnt) :
    blockGroupT encT w (w * bh) (divCeil w bw) bw bh (bw * bh) bb cnt freq idx =
      some (divCeil w bw * bb, idx + divCeil w bw) := by
  have hbuf : w * bh ≤ 4294967295 * 256 := Nat.mul_le_mul (by omega) hbh.2
  have hfull : w / bw * bw ≤ w := Nat.div_mul_le_self _ _
  have hrest : w - w / bw * bw = w % bw := by
    have := Nat.div_add_mod w bw
    rw [Nat.mul_comm] at this; omega
  have hlt : w % bw < bw := Nat.mod_lt _ (by omega)
  have hdl : divCeil w bw ≤ w := divCeil_le_self _ _ hbw.1
  have hbytes : divCeil w bw * bb ≤ 4294967295 * 65536 := Nat.mul_le_mul (by omega) hbb
  have hdq : w / bw ≤ w := Nat.div_le_self _ _
  unfold blockGroupT
  rw [div_of_ne (by omega), bind_some']
  by_cases hr : w % bw ≠ 0
  · have hdc : divCeil w bw = w / bw + 1 := by unfold divCeil; rw [if_pos (by omega)]
    rw [hdc] at hidx hbytes ⊢
    rw [fullBlocksT_eq hok hbw.1 hbh.1 (by omega) hfr hcnt _ 0 idx (by rw [Nat.zero_add]; exact hfull) (by omega)
      (by omega), bind_some', remU_of_ne (by omega), bind_some', if_pos hr]
    rw [bind_some', mulU_of_lt (by omega), bind_some', subU_of_le hfull, bind_some', hrest]
    rw [mapT_eq_some _ (fun _ => ()) _ (by
      intro i hi
      have hi : i < bh := List.mem_range.mp hi
      have h1 : i * bw ≤ (i + 1) * bw := Nat.mul_le_mul_right _ (by omega)
      have h2 : (i + 1) * bw ≤ bh * bw := Nat.mul_le_mul_right _ (by omega)
      have h3 : (i + 1) * bw - i * bw = bw := by rw [Nat.add_mul]; omega
      have h4 : bw * bh ≤ 256 * 256 := Nat.mul_le_mul hbw.2 hbh.2
      have h5 : (i + 1) * w ≤ bh * w := Nat.mul_le_mul_right _ (by omega)
      rw [Nat.add_mul, Nat.one_mul, Nat.mul_comm bh w] at h5
      rw [Nat.mul_comm bh bw] at h2
      enc_simp [h3]), bind_some']
    unfold reportBlockT
    have h6 : bw * bh = (bh - 1) * bw + bw := by
      have : bh = (bh - 1) + 1 := by omega
      conv => lhs; rw [this, Nat.mul_add, Nat.mul_one, Nat.mul_comm]
    have h7 : bw * bh ≤ 256 * 256 := Nat.mul_le_mul hbw.2 hbh.2
    rw [idxLen_of_lt (by omega), bind_some', hok _ _ (by omega) (by omega), bind_some',
      progT_of hfr (by omega) hcnt, bind_some', pure_some', bind_some', mulU_of_lt (by omega), bind_some', pure_some']
    congr 2
  · have hdc : divCeil w bw = w / bw := by unfold divCeil; rw [if_neg (by omega)]
    rw [hdc] at hidx hbytes ⊢
    rw [fullBlocksT_eq hok hbw.1 hbh.1 (by omega) hfr hcnt _ 0 idx (by rw [Nat.zero_add]; exact hfull) (by omega)
      (by omega), bind_some', remU_of_ne (by omega), bind_some', if_neg hr, pure_some', bind_some',
      mulU_of_lt (by omega), bind_some', pure_some']

theorem blockGroupsT_eq {encT : Nat → Nat → Option Unit} {w bw bh bb cnt freq : Nat} (hok : EncBlockOK encT bw bh)
    (hbw : 1 ≤ bw ∧ bw ≤ 256) (hbh : 1 ≤ bh ∧ bh ≤ 256) (hw : w < 4294967296) (hbb : bb ≤ 65536) (hfr : freq ≠ 0)
    (hcnt : cnt < 18446744073709551616) :
    ∀ (n idx : Nat), idx + n * divCeil w bw ≤ cnt →
      blockGroupsT encT w (w * bh) (divCeil w bw) bw bh (bw * bh) bb cnt freq n idx =
        some (List.replicate n (divCeil w bw * bb)) := by
  intro n
  induction n with
  | zero => intro idx _; simp [blockGroupsT]
  | succ n ih =>
    intro idx hidx
    rw [Nat.add_mul, Nat.one_mul] at hidx
    unfold blockGroupsT
    rw [blockGroupT_eq hok hbw hbh hw hbb hfr hcnt (by omega), bind_some', ih _ (by omega), bind_some', pure_some',
      List.replicate_succ]

/-- **`block_universal`** (bc.rs:26) for `bw × bh` blocks of `bb` bytes: one write of `ceil(w / bw)` blocks per group
of `bh` rows; full blocks read `&rows[bi·bw ..]` with pitch `w`, the partial block a `bw × bh` copy whose rows are
sliced out of the buffer at `bi·bw + i·w` (`width % bw` pixels) — for every `w`, `h`, including `w < bw`, `h < bh` -/
theorem blockUniversalT_eq {encT : Nat → Nat → Option Unit} {v : View} {c : Color} (hv : VOK v c) (hc : c.OK)
    {bw bh bb freq : Nat} (hok : EncBlockOK encT bw bh) (hbw : 1 ≤ bw ∧ bw ≤ 256) (hbh : 1 ≤ bh ∧ bh ≤ 256)
    (hbb : bb ≤ 65536) (hfr : freq ≠ 0) :
    blockUniversalT encT v c bw bh (bw * bh) bb freq = some (writesBlock v.w v.h bw bh bb) := by
  have hw := hv.inv.w_lt
  have hh := hv.inv.h_lt
  have hU : U32 = 4294967296 := rfl
  have h1 : bw * bh ≤ 256 * 256 := Nat.mul_le_mul hbw.2 hbh.2
  have hdl : divCeil v.w bw ≤ v.w := divCeil_le_self _ _ hbw.1
  have hdh : divCeil v.h bh ≤ v.h := divCeil_le_self _ _ hbh.1
  have hbytes : divCeil v.w bw * bb ≤ 4294967295 * 65536 := Nat.mul_le_mul (by omega) hbb
  have hcnt : divCeil v.w bw * divCeil v.h bh ≤ 4294967295 * 4294967295 := Nat.mul_le_mul (by omega) (by omega)
  unfold blockUniversalT
  enc_simp [forEachRowsT_eq hv hc (bh := bh) (by omega)]
  rw [blockGroupsT_eq hok hbw hbh (by omega) hbb hfr (by omega) _ 0 (by
    rw [Nat.zero_add, rowGroups_eq, Nat.mul_comm]; exact Nat.le_refl _)]
  unfold writesBlock
  rw [map_const_range]

theorem bcReportFrequency_ne (hf : SrcConsts.BC_REPORT_FREQUENCY_FAST ≠ 0 ∧ SrcConsts.BC_REPORT_FREQUENCY_NORMAL ≠ 0 ∧
    SrcConsts.BC_REPORT_FREQUENCY_HIGH ≠ 0 ∧ SrcConsts.BC_REPORT_FREQUENCY_UNREASONABLE ≠ 0) (q : Nat) :
    bcReportFrequency q ≠ 0 := by
  unfold bcReportFrequency
  split
  · exact hf.1
  · split
    · exact hf.2.1
    · split
      · exact hf.2.2.1
      · exact hf.2.2.2

end Dds.TrapEnc
