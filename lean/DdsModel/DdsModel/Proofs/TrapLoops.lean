/- Proofs for `TrapLoops.lean` (C01): vocabulary lemmas, `ImageViewMut` row access, `UntypedLineBuffer`,
`process_pixels`, the two pixel loops, `read_exact_image` / `for_each_slice`. -/
import DdsModel.TrapLoops
import DdsModel.Proofs.TrapUnc
import DdsModel.Proofs.StreamPaths
namespace Dds.TrapLoops
open Dds Dds.Trap

/-! ### events -/

/-- every write of the list satisfies `R` -/
def Wr (R : Sl → Prop) (evs : List Ev) : Prop := ∀ s, Ev.wr s ∈ evs → R s

theorem ios_append (a b : List Ev) : ios (a ++ b) = ios a ++ ios b := by
  induction a with
  | nil => rfl
  | cons x t ih => cases x <;> simp [ios, ih]

theorem Wr.nil (R : Sl → Prop) : Wr R [] := by intro s h; cases h
theorem Wr.append {R : Sl → Prop} {a b : List Ev} (ha : Wr R a) (hb : Wr R b) : Wr R (a ++ b) := by
  intro s h
  rcases List.mem_append.mp h with h | h
  · exact ha s h
  · exact hb s h
theorem Wr.mono {R S : Sl → Prop} {a : List Ev} (h : Wr R a) (hi : ∀ s, R s → S s) : Wr S a :=
  fun s hs => hi s (h s hs)
theorem Wr.io (R : Sl → Prop) (o : Stream.Op) : Wr R [Ev.io o] := by
  intro s h; simp at h
theorem Wr.one {R : Sl → Prop} {s : Sl} (h : R s) : Wr R [Ev.wr s] := by
  intro t ht; simp at ht; subst ht; exact h

theorem mem_outWrites {evs : List Ev} {s : Sl} : s ∈ outWrites evs ↔ Ev.wr s ∈ evs ∧ s.buf = .out := by
  induction evs with
  | nil => simp [outWrites]
  | cons x t ih =>
    cases x with
    | io o => simp [outWrites, ih]
    | wr u =>
      simp only [outWrites]
      by_cases hu : u.buf = .out
      · rw [if_pos hu]; simp only [List.mem_cons, ih, Ev.wr.injEq]
        constructor
        · rintro (rfl | ⟨h1, h2⟩)
          · exact ⟨Or.inl rfl, hu⟩
          · exact ⟨Or.inr h1, h2⟩
        · rintro ⟨rfl | h1, h2⟩
          · exact Or.inl rfl
          · exact Or.inr ⟨h1, h2⟩
      · rw [if_neg hu]; simp only [List.mem_cons, ih, Ev.wr.injEq]
        constructor
        · rintro ⟨h1, h2⟩; exact ⟨Or.inr h1, h2⟩
        · rintro ⟨rfl | h1, h2⟩
          · exact absurd h2 hu
          · exact ⟨h1, h2⟩

/-! ### `forT` -/

theorem forT_nil {α} (body : α → Option (List Ev)) : forT body [] = some [] := rfl

theorem forT_cons {α} (body : α → Option (List Ev)) (x : α) (l : List α) {e r : List Ev}
    (hx : body x = some e) (hl : forT body l = some r) : forT body (x :: l) = some (e ++ r) := by
  unfold forT at hl ⊢
  unfold mapT at hl ⊢
  simp only [List.map_cons, hx, allSome]
  cases h : allSome (List.map body l) with
  | none => rw [h] at hl; cases hl
  | some rr => rw [h] at hl; simp only [Option.some.injEq] at hl; subst hl; simp

/-- a loop of independent iterations: if every iteration returns and its events satisfy an append-closed `Q`, so does
the loop -/
theorem forT_ind {α} (body : α → Option (List Ev)) (Q : List Ev → Prop) (hnil : Q [])
    (happ : ∀ a b, Q a → Q b → Q (a ++ b)) :
    ∀ l : List α, (∀ x ∈ l, ∃ e, body x = some e ∧ Q e) → ∃ evs, forT body l = some evs ∧ Q evs
  | [], _ => ⟨[], rfl, hnil⟩
  | x :: l, h => by
    obtain ⟨e, he, qe⟩ := h x (List.mem_cons_self ..)
    obtain ⟨r, hr, qr⟩ := forT_ind body Q hnil happ l (fun y hy => h y (List.mem_cons_of_mem _ hy))
    exact ⟨e ++ r, forT_cons body x l he hr, happ _ _ qe qr⟩

/-- the usual `Q`: no reader / allocator operation, every write satisfies `R` -/
def Quiet (R : Sl → Prop) (evs : List Ev) : Prop := ios evs = [] ∧ Wr R evs

theorem Quiet.nil (R : Sl → Prop) : Quiet R [] := ⟨rfl, Wr.nil R⟩
theorem Quiet.append {R : Sl → Prop} {a b : List Ev} (ha : Quiet R a) (hb : Quiet R b) : Quiet R (a ++ b) :=
  ⟨by rw [ios_append, ha.1, hb.1]; rfl, ha.2.append hb.2⟩
theorem Quiet.mono {R S : Sl → Prop} {a : List Ev} (h : Quiet R a) (hi : ∀ s, R s → S s) : Quiet S a :=
  ⟨h.1, h.2.mono hi⟩
theorem Quiet.one {R : Sl → Prop} {s : Sl} (h : R s) : Quiet R [Ev.wr s] := ⟨rfl, Wr.one h⟩

theorem forT_quiet {α} (body : α → Option (List Ev)) (R : Sl → Prop) (l : List α)
    (h : ∀ x ∈ l, ∃ e, body x = some e ∧ Quiet R e) : ∃ evs, forT body l = some evs ∧ Quiet R evs :=
  forT_ind body (Quiet R) (Quiet.nil R) (fun _ _ => Quiet.append) l h

theorem forT_none {α} (body : α → Option (List Ev)) (l : List α) (x : α) (hx : x ∈ l) (hn : body x = none) :
    forT body l = none := by
  have : mapT body l = none := by
    unfold mapT
    induction l with
    | nil => cases hx
    | cons y t ih =>
      simp only [List.map_cons]
      rcases List.mem_cons.mp hx with rfl | h
      · rw [hn]; rfl
      · cases hy : body y with
        | none => rfl
        | some e => simp only [allSome, ih h]
  unfold forT; rw [this]

/-- where a write may go: into the conversion buffer, or inside the slice `d` -/
def WrOK (d : Sl) (s : Sl) : Prop :=
  s.buf = .tmp ∨ (s.buf = d.buf ∧ d.off ≤ s.off ∧ s.off + s.len ≤ d.off + d.len)

theorem WrOK.self (d : Sl) : WrOK d d := Or.inr ⟨rfl, Nat.le_refl _, Nat.le_refl _⟩

theorem WrOK.sub {d d' s : Sl} (h : WrOK d' s) (hb : d'.buf = d.buf) (h1 : d.off ≤ d'.off)
    (h2 : d'.off + d'.len ≤ d.off + d.len) : WrOK d s := by
  rcases h with h | ⟨a, b, c⟩
  · exact Or.inl h
  · exact Or.inr ⟨a.trans hb, by omega, by omega⟩

theorem WrOK.tmp {d s : Sl} (h : WrOK d s) (hd : d.buf = .tmp) (x : Sl) : WrOK x s := by
  rcases h with h | ⟨a, _, _⟩
  · exact Or.inl h
  · exact Or.inl (a.trans hd)

/-! ### colour, view access -/

theorem chanCount_le (c : Unc.Channels) : 1 ≤ TrapUnc.chanCount c ∧ TrapUnc.chanCount c ≤ 4 := by
  cases c <;> simp [TrapUnc.chanCount]

theorem Color.bpp_bounds (c : Color) (hp : c.psz = 1 ∨ c.psz = 2 ∨ c.psz = 4) : 1 ≤ c.bpp ∧ c.bpp ≤ 16 := by
  have := chanCount_le c.ch
  unfold Color.bpp
  rcases hp with h | h | h <;> rw [h] <;> omega

theorem Color.bppT_eq (c : Color) (hp : c.psz = 1 ∨ c.psz = 2 ∨ c.psz = 4) : c.bppT = some c.bpp := by
  unfold Color.bppT
  exact ck_of_lt (by have := c.bpp_bounds hp; omega)

namespace Img
variable {i : Img}

theorem Ok.bpp (ok : i.Ok) : 1 ≤ i.color.bpp ∧ i.color.bpp ≤ 16 := i.color.bpp_bounds ok.psz

theorem Ok.bpr_lt (ok : i.Ok) : 1 ≤ i.w * i.color.bpp ∧ i.w * i.color.bpp < 2 ^ 36 := by
  have hb := ok.bpp
  have h1 : i.w * i.color.bpp ≤ i.w * 16 := Nat.mul_le_mul_left _ hb.2
  have h2 : i.w * 1 ≤ i.w * i.color.bpp := Nat.mul_le_mul_left _ hb.1
  have := ok.w_lt; have := ok.w_pos
  unfold U32B at *
  omega

theorem Ok.bytesPerRowT (ok : i.Ok) : i.bytesPerRowT = some (i.w * i.color.bpp) := by
  unfold Img.bytesPerRowT
  rw [Color.bppT_eq _ ok.psz, bind_some']
  exact ckU_of_lt (by have := ok.bpr_lt; unfold USIZE; omega)

/-- row `y` starts inside the data -/
theorem Ok.row_le (ok : i.Ok) {y : Nat} (hy : y < i.h) :
    y * i.pitch + i.w * i.color.bpp ≤ i.len ∧ y * i.pitch ≤ i.pitch * (i.h - 1) := by
  have h1 : y * i.pitch ≤ (i.h - 1) * i.pitch := Nat.mul_le_mul_right _ (by omega)
  rw [Nat.mul_comm (i.h - 1)] at h1
  rw [ok.len_eq]; omega

theorem Ok.len_lt (ok : i.Ok) : i.len < USIZE := by
  have := ok.len_le; unfold I64MAX at this; unfold USIZE; omega

theorem Ok.getRowT (ok : i.Ok) {y : Nat} (hy : y < i.h) :
    i.getRowT y = some ⟨.out, y * i.pitch, i.w * i.color.bpp⟩ := by
  have h := ok.row_le hy
  have hl := ok.len_lt
  unfold Img.getRowT
  rw [ckU_of_lt (by omega), bind_some', ok.bytesPerRowT, bind_some', ckU_of_lt (by omega), bind_some']
  rw [Sl.range_of (by simp only [Img.data]; omega)]
  simp only [Img.data, Nat.zero_add, Nat.add_sub_cancel_left]

theorem Ok.getRowRangeT (ok : i.Ok) {y k : Nat} (hk : 0 < k) (hy : y + k ≤ i.h) :
    i.getRowRangeT y k = some ⟨.out, y * i.pitch, (k - 1) * i.pitch + i.w * i.color.bpp⟩ := by
  have h := ok.row_le (y := y + (k - 1)) (by omega)
  rw [Nat.add_mul] at h
  have hl := ok.len_lt
  unfold Img.getRowRangeT
  rw [dbgP_of hk, bind_some', ckU_of_lt (by omega), bind_some', subU_of_le (by omega), bind_some',
    ckU_of_lt (by omega), bind_some', ckU_of_lt (by omega), bind_some', ok.bytesPerRowT, bind_some',
    ckU_of_lt (by omega), bind_some']
  rw [Sl.range_of (by simp only [Img.data]; omega)]
  simp only [Img.data, Nat.zero_add, Option.some.injEq, Sl.mk.injEq, true_and]
  omega

theorem Ok.pitch_mul_h (ok : i.Ok) : i.pitch * i.h < USIZE := by
  have hl := ok.len_le
  have hb := ok.bpr_lt
  have hp := ok.pitch_lt
  have e : i.pitch * i.h = i.pitch * (i.h - 1) + i.pitch := by
    have : i.h = (i.h - 1) + 1 := by have := ok.h_pos; omega
    rw [this, Nat.mul_add, Nat.mul_one]; simp
  rw [e]
  by_cases h1 : i.h = 1
  · rw [h1]; simp; exact hp
  · have h2 : i.pitch * 1 ≤ i.pitch * (i.h - 1) := Nat.mul_le_mul_left _ (by have := ok.h_pos; omega)
    have := ok.len_eq
    unfold I64MAX at hl; unfold USIZE; omega

theorem Ok.isContiguousT (ok : i.Ok) : i.isContiguousT = some (i.pitch * i.h == i.len) := by
  unfold Img.isContiguousT
  rw [ckU_of_lt ok.pitch_mul_h, bind_some', pure_some']

theorem Ok.pitch_pos (ok : i.Ok) : 1 ≤ i.pitch := by have := ok.bpr_lt; have := ok.pitch_ge; omega

theorem Ok.rowsMutCount (ok : i.Ok) : i.rowsMutCount = i.h := by
  have hp := ok.pitch_pos
  have hb := ok.bpr_lt
  have hg := ok.pitch_ge
  unfold Img.rowsMutCount
  rw [Nat.max_eq_left hp, ok.len_eq]
  have e : i.pitch * (i.h - 1) + i.w * i.color.bpp + i.pitch - 1 =
      (i.w * i.color.bpp + i.pitch - 1) + i.pitch * (i.h - 1) := by omega
  rw [e, Nat.add_mul_div_left _ _ (by omega : 0 < i.pitch)]
  have : (i.w * i.color.bpp + i.pitch - 1) / i.pitch = 1 := by
    apply Nat.div_eq_of_lt_le <;> omega
  rw [this]; have := ok.h_pos; omega

theorem Ok.rowsMutItemT (ok : i.Ok) {k : Nat} (hk : k < i.h) :
    i.rowsMutItemT (i.w * i.color.bpp) k = some ⟨.out, k * i.pitch, i.w * i.color.bpp⟩ := by
  have hp := ok.pitch_pos
  have h := ok.row_le hk
  unfold Img.rowsMutItemT
  simp only [Nat.max_eq_left hp]
  rw [Sl.upto_of]
  simp only [Nat.le_min]
  exact ⟨ok.pitch_ge, by omega⟩

end Img

/-- the row `y` of a view: where writes of a decode may go -/
def InRows (base pitch rows rowBytes : Nat) (s : Sl) : Prop :=
  s.buf = .out → ∃ y, y < rows ∧ base + y * pitch ≤ s.off ∧ s.off + s.len ≤ base + y * pitch + rowBytes

theorem InRows.of_WrOK {base pitch rows rowBytes y : Nat} {d s : Sl} (h : WrOK d s) (hy : y < rows)
    (hd : d.off = base + y * pitch) (hl : d.len ≤ rowBytes) : InRows base pitch rows rowBytes s := by
  intro hb
  rcases h with h | ⟨_, b, c⟩
  · rw [h] at hb; cases hb
  · exact ⟨y, hy, by omega, by omega⟩

/-! ### `UntypedLineBuffer` -/

/-- state of the line buffer: capacity `cap` lines, `avail` lines still in the buffer, `onDisk` lines not yet read -/
structure LBInv (b : LB) (cap avail onDisk : Nat) : Prop where
  bpl_pos : 0 < b.bpl
  cap_pos : 0 < cap
  bufLen : b.bufLen = cap * b.bpl
  lt : cap * b.bpl < USIZE
  disk : b.linesOnDisk = onDisk
  st : (avail = 0 ∧ b.bufFilled ≤ b.cur) ∨ (0 < avail ∧ b.cur + avail * b.bpl = b.bufFilled ∧ b.bufFilled ≤ b.bufLen)

theorem clampLines_bounds {q height : Nat} (hh : 0 < height) : 0 < clampLines q height ∧ clampLines q height ≤ height := by
  unfold clampLines
  by_cases h1 : q < 1
  · rw [if_pos h1]; omega
  · rw [if_neg h1]
    by_cases h2 : height < q
    · rw [if_pos h2]; omega
    · rw [if_neg h2]; omega

/-- the capacity is the one of C06's trace model -/
theorem clampLines_stream (bpl height : Nat) :
    clampLines (SrcConsts.TARGET_BUFFER_SIZE / bpl) height = Stream.linesInBuffer bpl height := rfl

/-- `clamp(1, height) * bytes_per_line` is at most 64 KiB or one line -/
theorem clampLines_mul_le (bpl height : Nat) :
    clampLines (SrcConsts.TARGET_BUFFER_SIZE / bpl) height * bpl ≤ max SrcConsts.TARGET_BUFFER_SIZE bpl := by
  have := Stream.lineBufLen_le bpl height
  exact this

theorem LB.newT_spec {bpl height : Nat} (hb : 0 < bpl) (hbl : bpl < USIZE) (hh : 0 < height) :
    ∃ lb, LB.newT bpl height = some (lb, [Ev.io (.alloc (Stream.lineBufLen bpl height))]) ∧ lb.bpl = bpl ∧
      LBInv lb (Stream.linesInBuffer bpl height) 0 height := by
  have hle := clampLines_mul_le bpl height
  have hlt : clampLines (SrcConsts.TARGET_BUFFER_SIZE / bpl) height * bpl < USIZE := by
    have : SrcConsts.TARGET_BUFFER_SIZE < USIZE := by decide
    rcases Nat.le_total SrcConsts.TARGET_BUFFER_SIZE bpl with h | h
    · rw [Nat.max_eq_right h] at hle; omega
    · rw [Nat.max_eq_left h] at hle; omega
  refine ⟨⟨Stream.lineBufLen bpl height, 0, bpl, height, Stream.lineBufLen bpl height⟩, ?_, rfl, ?_⟩
  · unfold LB.newT
    rw [div_of_ne (by omega), bind_some', dbgP_of (by omega), bind_some', ckU_of_lt hlt, bind_some', pure_some']
    rfl
  · have hc := clampLines_bounds (q := SrcConsts.TARGET_BUFFER_SIZE / bpl) hh
    exact ⟨hb, hc.1, rfl, hlt, rfl, Or.inl ⟨rfl, Nat.zero_le _⟩⟩

theorem LB.lineT_spec {b : LB} {cap avail onDisk : Nat} (inv : LBInv b cap avail onDisk) (ha : 0 < avail)
    (evs : List Ev) :
    ∃ b', b.lineT evs = some (some ⟨.line, b.cur, b.bpl⟩, b', evs) ∧ b'.bpl = b.bpl ∧
      LBInv b' cap (avail - 1) onDisk := by
  obtain ⟨h1, h2, h3, h4, h5, h6⟩ := inv
  rcases h6 with ⟨h, _⟩ | ⟨_, h6, h7⟩
  · omega
  have e : avail * b.bpl = (avail - 1) * b.bpl + b.bpl := by
    have : avail = (avail - 1) + 1 := by omega
    rw [this, Nat.add_mul, Nat.one_mul]; simp
  refine ⟨{ b with cur := b.cur + b.bpl }, ?_, rfl, ⟨h1, h2, h3, h4, h5, ?_⟩⟩
  · unfold LB.lineT
    rw [ckU_of_lt (by omega), bind_some', Sl.range_of (by simp only; omega), bind_some', pure_some']
    simp only [Nat.zero_add, Nat.add_sub_cancel_left]
  · show (avail - 1 = 0 ∧ b.bufFilled ≤ b.cur + b.bpl) ∨
      (0 < avail - 1 ∧ b.cur + b.bpl + (avail - 1) * b.bpl = b.bufFilled ∧ b.bufFilled ≤ b.bufLen)
    by_cases h0 : avail - 1 = 0
    · left; rw [h0] at e; omega
    · right; omega

/-- `next_line`: the three cases -/
theorem LB.nextLineT_done {b : LB} {cap : Nat} (inv : LBInv b cap 0 0) : b.nextLineT = some (none, b, []) := by
  obtain ⟨_, _, _, _, h5, h6⟩ := inv
  have : b.bufFilled ≤ b.cur := by rcases h6 with ⟨_, h⟩ | ⟨h, _⟩ <;> omega
  unfold LB.nextLineT
  rw [if_pos this, if_pos h5]

theorem LB.nextLineT_avail {b : LB} {cap avail onDisk : Nat} (inv : LBInv b cap avail onDisk) (ha : 0 < avail) :
    ∃ b' line, b.nextLineT = some (some line, b', []) ∧ line.buf = .line ∧ line.len = b.bpl ∧ b'.bpl = b.bpl ∧
      LBInv b' cap (avail - 1) onDisk := by
  have hlt : ¬ b.cur ≥ b.bufFilled := by
    obtain ⟨h1, _, _, _, _, h6⟩ := inv
    rcases h6 with ⟨h, _⟩ | ⟨_, h6, _⟩
    · omega
    · have : 1 * b.bpl ≤ avail * b.bpl := Nat.mul_le_mul_right _ ha
      omega
  obtain ⟨b', h, hb, hi⟩ := LB.lineT_spec inv ha []
  refine ⟨b', ⟨.line, b.cur, b.bpl⟩, ?_, rfl, rfl, hb, hi⟩
  unfold LB.nextLineT
  rw [if_neg hlt]; exact h

theorem LB.nextLineT_refill {b : LB} {cap onDisk : Nat} (inv : LBInv b cap 0 onDisk) (hd : 0 < onDisk) :
    ∃ b' line, b.nextLineT = some (some line, b', [Ev.io (.read (min cap onDisk * b.bpl))]) ∧ line.buf = .line ∧
      line.len = b.bpl ∧ b'.bpl = b.bpl ∧ LBInv b' cap (min cap onDisk - 1) (onDisk - min cap onDisk) := by
  obtain ⟨h1, h2, h3, h4, h5, h6⟩ := inv
  have hge : b.cur ≥ b.bufFilled := by rcases h6 with ⟨_, h⟩ | ⟨h, _⟩ <;> omega
  have hq : b.bufLen / b.bpl = cap := by rw [h3]; exact Nat.mul_div_cancel _ h1
  have hm : min cap onDisk * b.bpl ≤ cap * b.bpl := Nat.mul_le_mul_right _ (Nat.min_le_left _ _)
  have hmp : 0 < min cap onDisk := by rw [Nat.lt_min]; exact ⟨h2, hd⟩
  let b1 : LB := { b with linesOnDisk := onDisk - min cap onDisk, bufFilled := min cap onDisk * b.bpl, cur := 0 }
  have inv1 : LBInv b1 cap (min cap onDisk) (onDisk - min cap onDisk) :=
    ⟨h1, h2, h3, h4, rfl, Or.inr ⟨hmp, by show 0 + min cap onDisk * b.bpl = min cap onDisk * b.bpl; omega,
      by show min cap onDisk * b.bpl ≤ b.bufLen; omega⟩⟩
  obtain ⟨b', h, hb, hi⟩ := LB.lineT_spec inv1 hmp [Ev.io (.read (min cap onDisk * b.bpl))]
  refine ⟨b', ⟨.line, 0, b.bpl⟩, ?_, rfl, rfl, hb, hi⟩
  unfold LB.nextLineT
  rw [if_pos hge, if_neg (by omega), div_of_ne (by omega), bind_some', hq, h5]
  simp only []
  rw [subU_of_le (Nat.min_le_right _ _), bind_some', ckU_of_lt (by omega), bind_some', Sl.upto_of (by simp only; omega),
    bind_some']
  exact h

/-- C06's refill trace with an explicit capacity -/
def refillsFrom (cap bpl onDisk : Nat) : List Stream.Op :=
  List.replicate (onDisk / cap) (.read (cap * bpl)) ++ (if onDisk % cap = 0 then [] else [.read (onDisk % cap * bpl)])

theorem refillsFrom_zero (cap bpl : Nat) : refillsFrom cap bpl 0 = [] := by
  unfold refillsFrom; simp

theorem refillsFrom_step {cap bpl onDisk : Nat} (hc : 0 < cap) (hd : 0 < onDisk) :
    refillsFrom cap bpl onDisk = .read (min cap onDisk * bpl) :: refillsFrom cap bpl (onDisk - min cap onDisk) := by
  unfold refillsFrom
  by_cases h : cap ≤ onDisk
  · rw [Nat.min_eq_left h]
    have e1 : onDisk / cap = (onDisk - cap) / cap + 1 := by
      have : onDisk = (onDisk - cap) + cap := by omega
      conv => lhs; rw [this]
      exact Nat.add_div_right _ hc
    have e2 : onDisk % cap = (onDisk - cap) % cap := by
      have : onDisk = (onDisk - cap) + cap := by omega
      conv => lhs; rw [this]
      exact Nat.add_mod_right _ _
    rw [e1, e2, List.replicate_succ]; rfl
  · have hlt : onDisk < cap := by omega
    rw [Nat.min_eq_right (by omega), Nat.div_eq_of_lt hlt, Nat.mod_eq_of_lt hlt, Nat.sub_self]
    simp [show onDisk ≠ 0 by omega]

theorem refillsFrom_stream {bpl lines : Nat} (hb : 0 < bpl) :
    refillsFrom (Stream.linesInBuffer bpl lines) bpl lines = Stream.refills bpl lines := by
  unfold refillsFrom Stream.refills
  simp only [Stream.lineBufLen_div hb]

/-- **the `while let Some(line) = next_line()` loop**: with a body that maintains `Inv` and returns on every line,
the loop returns within `avail + onDisk + 1` calls of `next_line`, and its reader trace is C06's refill list -/
theorem whileLines_spec {σ : Type} (body : σ → Sl → Option (σ × List Ev)) (cap bpl H : Nat) (Inv : Nat → σ → Prop)
    (R : Sl → Prop)
    (hbody : ∀ k st line, k < H → Inv k st → line.buf = .line → line.len = bpl →
      ∃ st' e, body st line = some (st', e) ∧ Inv (k + 1) st' ∧ Quiet R e) :
    ∀ (fuel : Nat) (lb : LB) (avail onDisk : Nat) (st : σ) (k : Nat), LBInv lb cap avail onDisk → lb.bpl = bpl →
      avail + onDisk < fuel → k + avail + onDisk = H → Inv k st →
      ∃ evs, whileLinesT body fuel lb st = some evs ∧ ios evs = refillsFrom cap bpl onDisk ∧ Wr R evs := by
  intro fuel
  induction fuel with
  | zero => intro lb avail onDisk st k _ _ h; omega
  | succ fuel ih =>
    intro lb avail onDisk st k inv hbpl hf hk hinv
    unfold whileLinesT
    by_cases ha : 0 < avail
    · obtain ⟨b', line, h1, h2, h3, h4, h5⟩ := LB.nextLineT_avail inv ha
      obtain ⟨st', e, hb1, hb2, hb3⟩ := hbody k st line (by omega) hinv h2 (h3.trans hbpl)
      obtain ⟨e3, hr1, hr2, hr3⟩ := ih b' (avail - 1) onDisk st' (k + 1) h5 (h4.trans hbpl) (by omega) (by omega) hb2
      refine ⟨[] ++ e ++ e3, ?_, ?_, ?_⟩
      · rw [h1]; simp only [hb1, hr1]
      · rw [ios_append, ios_append, hb3.1, hr2]; rfl
      · exact ((Wr.nil R).append hb3.2).append hr3
    · have ha0 : avail = 0 := by omega
      subst ha0
      by_cases hd : 0 < onDisk
      · obtain ⟨b', line, h1, h2, h3, h4, h5⟩ := LB.nextLineT_refill inv hd
        obtain ⟨st', e, hb1, hb2, hb3⟩ := hbody k st line (by omega) hinv h2 (h3.trans hbpl)
        have hmin : 0 < min cap onDisk := by rw [Nat.lt_min]; exact ⟨inv.cap_pos, hd⟩
        have hmle : min cap onDisk ≤ onDisk := Nat.min_le_right _ _
        obtain ⟨e3, hr1, hr2, hr3⟩ := ih b' (min cap onDisk - 1) (onDisk - min cap onDisk) st' (k + 1) h5
          (h4.trans hbpl) (by omega) (by omega) hb2
        refine ⟨[Ev.io (.read (min cap onDisk * lb.bpl))] ++ e ++ e3, ?_, ?_, ?_⟩
        · rw [h1]; simp only [hb1, hr1]
        · rw [ios_append, ios_append, hb3.1, hr2, refillsFrom_step inv.cap_pos hd, hbpl]; rfl
        · exact ((Wr.io R _).append hb3.2).append hr3
      · have hd0 : onDisk = 0 := by omega
        subst hd0
        rw [LB.nextLineT_done inv]
        exact ⟨[], rfl, by rw [refillsFrom_zero]; rfl, Wr.nil R⟩

end Dds.TrapLoops
