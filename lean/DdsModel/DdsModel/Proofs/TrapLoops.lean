/- Proofs for `TrapLoops.lean` (C01): vocabulary lemmas, `ImageViewMut` row access, `UntypedLineBuffer`,
`process_pixels`, the two pixel loops, `read_exact_image` / `for_each_slice`. -/
import DdsModel.TrapLoops
import DdsModel.Proofs.TrapUnc
import DdsModel.Proofs.StreamPaths
import DdsModel.Proofs.Addr
namespace Dds.TrapLoops
open Dds Dds.Trap

/-! ### events -/

/-- every write of the list satisfies `R` -/
def Wr (R : Sl → Prop) (evs : List Ev) : Prop := ∀ s, Ev.wr s ∈ evs → R s

theorem ios_append (a b : List Ev) : ios (a ++ b) = ios a ++ ios b := by
  induction a with
  | nil => rfl
  | cons x t ih => cases x <;> simp [ios, ih]

theorem Wr.nil (R : Sl → Prop) : Wr R [] := by intro s h; cases h
theorem Wr.append {R : Sl → Prop} {a b : List Ev} (ha : Wr R a) (hb : Wr R b) : Wr R (a ++ b) := by
  intro s h
  rcases List.mem_append.mp h with h | h
  · exact ha s h
  · exact hb s h
theorem Wr.mono {R S : Sl → Prop} {a : List Ev} (h : Wr R a) (hi : ∀ s, R s → S s) : Wr S a :=
  fun s hs => hi s (h s hs)
theorem Wr.io (R : Sl → Prop) (o : Stream.Op) : Wr R [Ev.io o] := by
  intro s h; simp at h
theorem Wr.one {R : Sl → Prop} {s : Sl} (h : R s) : Wr R [Ev.wr s] := by
  intro t ht; simp at ht; subst ht; exact h

theorem mem_outWrites {evs : List Ev} {s : Sl} : s ∈ outWrites evs ↔ Ev.wr s ∈ evs ∧ s.buf = .out := by
  induction evs with
  | nil => simp [outWrites]
  | cons x t ih =>
    cases x with
    | io o => simp [outWrites, ih]
    | wr u =>
      simp only [outWrites]
      by_cases hu : u.buf = .out
      · rw [if_pos hu]; simp only [List.mem_cons, ih, Ev.wr.injEq]
        constructor
        · rintro (rfl | ⟨h1, h2⟩)
          · exact ⟨Or.inl rfl, hu⟩
          · exact ⟨Or.inr h1, h2⟩
        · rintro ⟨rfl | h1, h2⟩
          · exact Or.inl rfl
          · exact Or.inr ⟨h1, h2⟩
      · rw [if_neg hu]; simp only [List.mem_cons, ih, Ev.wr.injEq]
        constructor
        · rintro ⟨h1, h2⟩; exact ⟨Or.inr h1, h2⟩
        · rintro ⟨rfl | h1, h2⟩
          · exact absurd h2 hu
          · exact ⟨h1, h2⟩

/-! ### `forT` -/

theorem forT_nil {α} (body : α → Option (List Ev)) : forT body [] = some [] := rfl

theorem forT_cons {α} (body : α → Option (List Ev)) (x : α) (l : List α) {e r : List Ev}
    (hx : body x = some e) (hl : forT body l = some r) : forT body (x :: l) = some (e ++ r) := by
  unfold forT at hl ⊢
  unfold mapT at hl ⊢
  simp only [List.map_cons, hx, allSome]
  cases h : allSome (List.map body l) with
  | none => rw [h] at hl; cases hl
  | some rr => rw [h] at hl; simp only [Option.some.injEq] at hl; subst hl; simp

/-- a loop of independent iterations: if every iteration returns and its events satisfy an append-closed `Q`, so does
the loop -/
theorem forT_ind {α} (body : α → Option (List Ev)) (Q : List Ev → Prop) (hnil : Q [])
    (happ : ∀ a b, Q a → Q b → Q (a ++ b)) :
    ∀ l : List α, (∀ x ∈ l, ∃ e, body x = some e ∧ Q e) → ∃ evs, forT body l = some evs ∧ Q evs
  | [], _ => ⟨[], rfl, hnil⟩
  | x :: l, h => by
    obtain ⟨e, he, qe⟩ := h x (List.mem_cons_self ..)
    obtain ⟨r, hr, qr⟩ := forT_ind body Q hnil happ l (fun y hy => h y (List.mem_cons_of_mem _ hy))
    exact ⟨e ++ r, forT_cons body x l he hr, happ _ _ qe qr⟩

/-- the usual `Q`: no reader / allocator operation, every write satisfies `R` -/
def Quiet (R : Sl → Prop) (evs : List Ev) : Prop := ios evs = [] ∧ Wr R evs

theorem Quiet.nil (R : Sl → Prop) : Quiet R [] := ⟨rfl, Wr.nil R⟩
theorem Quiet.append {R : Sl → Prop} {a b : List Ev} (ha : Quiet R a) (hb : Quiet R b) : Quiet R (a ++ b) :=
  ⟨by rw [ios_append, ha.1, hb.1]; rfl, ha.2.append hb.2⟩
theorem Quiet.mono {R S : Sl → Prop} {a : List Ev} (h : Quiet R a) (hi : ∀ s, R s → S s) : Quiet S a :=
  ⟨h.1, h.2.mono hi⟩
theorem Quiet.one {R : Sl → Prop} {s : Sl} (h : R s) : Quiet R [Ev.wr s] := ⟨rfl, Wr.one h⟩

theorem forT_quiet {α} (body : α → Option (List Ev)) (R : Sl → Prop) (l : List α)
    (h : ∀ x ∈ l, ∃ e, body x = some e ∧ Quiet R e) : ∃ evs, forT body l = some evs ∧ Quiet R evs :=
  forT_ind body (Quiet R) (Quiet.nil R) (fun _ _ => Quiet.append) l h

theorem forT_none {α} (body : α → Option (List Ev)) (l : List α) (x : α) (hx : x ∈ l) (hn : body x = none) :
    forT body l = none := by
  have : mapT body l = none := by
    unfold mapT
    induction l with
    | nil => cases hx
    | cons y t ih =>
      simp only [List.map_cons]
      rcases List.mem_cons.mp hx with rfl | h
      · rw [hn]; rfl
      · cases hy : body y with
        | none => rfl
        | some e => simp only [allSome, ih h]
  unfold forT; rw [this]

/-- where a write may go: into the conversion buffer, or inside the slice `d` -/
def WrOK (d : Sl) (s : Sl) : Prop :=
  s.buf = .tmp ∨ (s.buf = d.buf ∧ d.off ≤ s.off ∧ s.off + s.len ≤ d.off + d.len)

theorem WrOK.self (d : Sl) : WrOK d d := Or.inr ⟨rfl, Nat.le_refl _, Nat.le_refl _⟩

theorem WrOK.sub {d d' s : Sl} (h : WrOK d' s) (hb : d'.buf = d.buf) (h1 : d.off ≤ d'.off)
    (h2 : d'.off + d'.len ≤ d.off + d.len) : WrOK d s := by
  rcases h with h | ⟨a, b, c⟩
  · exact Or.inl h
  · exact Or.inr ⟨a.trans hb, by omega, by omega⟩

theorem WrOK.tmp {d s : Sl} (h : WrOK d s) (hd : d.buf = .tmp) (x : Sl) : WrOK x s := by
  rcases h with h | ⟨a, _, _⟩
  · exact Or.inl h
  · exact Or.inl (a.trans hd)

/-! ### colour, view access -/

theorem chanCount_le (c : Unc.Channels) : 1 ≤ TrapUnc.chanCount c ∧ TrapUnc.chanCount c ≤ 4 := by
  cases c <;> simp [TrapUnc.chanCount]

theorem Color.bpp_bounds (c : Color) (hp : c.psz = 1 ∨ c.psz = 2 ∨ c.psz = 4) : 1 ≤ c.bpp ∧ c.bpp ≤ 16 := by
  have := chanCount_le c.ch
  unfold Color.bpp
  rcases hp with h | h | h <;> rw [h] <;> omega

theorem Color.bppT_eq (c : Color) (hp : c.psz = 1 ∨ c.psz = 2 ∨ c.psz = 4) : c.bppT = some c.bpp := by
  unfold Color.bppT
  exact ck_of_lt (by have := c.bpp_bounds hp; omega)

namespace Img
variable {i : Img}

theorem Ok.bpp (ok : i.Ok) : 1 ≤ i.color.bpp ∧ i.color.bpp ≤ 16 := i.color.bpp_bounds ok.psz

theorem Ok.bpr_lt (ok : i.Ok) : 1 ≤ i.w * i.color.bpp ∧ i.w * i.color.bpp < 2 ^ 36 := by
  have hb := ok.bpp
  have h1 : i.w * i.color.bpp ≤ i.w * 16 := Nat.mul_le_mul_left _ hb.2
  have h2 : i.w * 1 ≤ i.w * i.color.bpp := Nat.mul_le_mul_left _ hb.1
  have := ok.w_lt; have := ok.w_pos
  unfold U32B at *
  omega

theorem Ok.bytesPerRowT (ok : i.Ok) : i.bytesPerRowT = some (i.w * i.color.bpp) := by
  unfold Img.bytesPerRowT
  rw [Color.bppT_eq _ ok.psz, bind_some']
  exact ckU_of_lt (by have := ok.bpr_lt; unfold USIZE; omega)

/-- row `y` starts inside the data -/
theorem Ok.row_le (ok : i.Ok) {y : Nat} (hy : y < i.h) :
    y * i.pitch + i.w * i.color.bpp ≤ i.len ∧ y * i.pitch ≤ i.pitch * (i.h - 1) := by
  have h1 : y * i.pitch ≤ (i.h - 1) * i.pitch := Nat.mul_le_mul_right _ (by omega)
  rw [Nat.mul_comm (i.h - 1)] at h1
  rw [ok.len_eq]; omega

theorem Ok.len_lt (ok : i.Ok) : i.len < USIZE := by
  have := ok.len_le; unfold I64MAX at this; unfold USIZE; omega

theorem Ok.getRowT (ok : i.Ok) {y : Nat} (hy : y < i.h) :
    i.getRowT y = some ⟨.out, y * i.pitch, i.w * i.color.bpp⟩ := by
  have h := ok.row_le hy
  have hl := ok.len_lt
  unfold Img.getRowT
  rw [ckU_of_lt (by omega), bind_some', ok.bytesPerRowT, bind_some', ckU_of_lt (by omega), bind_some']
  rw [Sl.range_of (by simp only [Img.data]; omega)]
  simp only [Img.data, Nat.zero_add, Nat.add_sub_cancel_left]

theorem Ok.getRowRangeT (ok : i.Ok) {y k : Nat} (hk : 0 < k) (hy : y + k ≤ i.h) :
    i.getRowRangeT y k = some ⟨.out, y * i.pitch, (k - 1) * i.pitch + i.w * i.color.bpp⟩ := by
  have h := ok.row_le (y := y + (k - 1)) (by omega)
  rw [Nat.add_mul] at h
  have hl := ok.len_lt
  unfold Img.getRowRangeT
  rw [dbgP_of hk, bind_some', ckU_of_lt (by omega), bind_some', subU_of_le (by omega), bind_some',
    ckU_of_lt (by omega), bind_some', ckU_of_lt (by omega), bind_some', ok.bytesPerRowT, bind_some',
    ckU_of_lt (by omega), bind_some']
  rw [Sl.range_of (by simp only [Img.data]; omega)]
  simp only [Img.data, Nat.zero_add, Option.some.injEq, Sl.mk.injEq, true_and]
  omega

theorem Ok.pitch_mul_h (ok : i.Ok) : i.pitch * i.h < USIZE := by
  have hl := ok.len_le
  have hb := ok.bpr_lt
  have hp := ok.pitch_lt
  have e : i.pitch * i.h = i.pitch * (i.h - 1) + i.pitch := by
    have : i.h = (i.h - 1) + 1 := by have := ok.h_pos; omega
    rw [this, Nat.mul_add, Nat.mul_one]; simp
  rw [e]
  by_cases h1 : i.h = 1
  · rw [h1]; simp; exact hp
  · have h2 : i.pitch * 1 ≤ i.pitch * (i.h - 1) := Nat.mul_le_mul_left _ (by have := ok.h_pos; omega)
    have := ok.len_eq
    unfold I64MAX at hl; unfold USIZE; omega

theorem Ok.isContiguousT (ok : i.Ok) : i.isContiguousT = some (i.pitch * i.h == i.len) := by
  unfold Img.isContiguousT
  rw [ckU_of_lt ok.pitch_mul_h, bind_some', pure_some']

theorem Ok.pitch_pos (ok : i.Ok) : 1 ≤ i.pitch := by have := ok.bpr_lt; have := ok.pitch_ge; omega

theorem Ok.rowsMutCount (ok : i.Ok) : i.rowsMutCount = i.h := by
  have hp := ok.pitch_pos
  have hb := ok.bpr_lt
  have hg := ok.pitch_ge
  unfold Img.rowsMutCount
  rw [Nat.max_eq_left hp, ok.len_eq]
  have e : i.pitch * (i.h - 1) + i.w * i.color.bpp + i.pitch - 1 =
      (i.w * i.color.bpp + i.pitch - 1) + i.pitch * (i.h - 1) := by omega
  rw [e, Nat.add_mul_div_left _ _ (by omega : 0 < i.pitch)]
  have : (i.w * i.color.bpp + i.pitch - 1) / i.pitch = 1 := by
    apply Nat.div_eq_of_lt_le <;> omega
  rw [this]; have := ok.h_pos; omega

theorem Ok.rowsMutItemT (ok : i.Ok) {k : Nat} (hk : k < i.h) :
    i.rowsMutItemT (i.w * i.color.bpp) k = some ⟨.out, k * i.pitch, i.w * i.color.bpp⟩ := by
  have hp := ok.pitch_pos
  have h := ok.row_le hk
  unfold Img.rowsMutItemT
  simp only [Nat.max_eq_left hp]
  rw [Sl.upto_of]
  simp only [Nat.le_min]
  exact ⟨ok.pitch_ge, by omega⟩

end Img

/-- the row `y` of a view: where writes of a decode may go -/
def InRows (base pitch rows rowBytes : Nat) (s : Sl) : Prop :=
  s.buf = .out → ∃ y, y < rows ∧ base + y * pitch ≤ s.off ∧ s.off + s.len ≤ base + y * pitch + rowBytes

theorem InRows.of_WrOK {base pitch rows rowBytes y : Nat} {d s : Sl} (h : WrOK d s) (hy : y < rows)
    (hd : d.off = base + y * pitch) (hl : d.len ≤ rowBytes) : InRows base pitch rows rowBytes s := by
  intro hb
  rcases h with h | ⟨_, b, c⟩
  · rw [h] at hb; cases hb
  · exact ⟨y, hy, by omega, by omega⟩

/-! ### `UntypedLineBuffer` -/

/-- state of the line buffer: capacity `cap` lines, `avail` lines still in the buffer, `onDisk` lines not yet read -/
structure LBInv (b : LB) (cap avail onDisk : Nat) : Prop where
  bpl_pos : 0 < b.bpl
  cap_pos : 0 < cap
  bufLen : b.bufLen = cap * b.bpl
  lt : cap * b.bpl < USIZE
  disk : b.linesOnDisk = onDisk
  st : (avail = 0 ∧ b.bufFilled ≤ b.cur) ∨ (0 < avail ∧ b.cur + avail * b.bpl = b.bufFilled ∧ b.bufFilled ≤ b.bufLen)

theorem clampLines_bounds {q height : Nat} (hh : 0 < height) : 0 < clampLines q height ∧ clampLines q height ≤ height := by
  unfold clampLines
  by_cases h1 : q < 1
  · rw [if_pos h1]; omega
  · rw [if_neg h1]
    by_cases h2 : height < q
    · rw [if_pos h2]; omega
    · rw [if_neg h2]; omega

/-- the capacity is the one of C06's trace model -/
theorem clampLines_stream (bpl height : Nat) :
    clampLines (SrcConsts.TARGET_BUFFER_SIZE / bpl) height = Stream.linesInBuffer bpl height := rfl

/-- `clamp(1, height) * bytes_per_line` is at most 64 KiB or one line -/
theorem clampLines_mul_le (bpl height : Nat) :
    clampLines (SrcConsts.TARGET_BUFFER_SIZE / bpl) height * bpl ≤ max SrcConsts.TARGET_BUFFER_SIZE bpl := by
  have := Stream.lineBufLen_le bpl height
  exact this

theorem LB.newT_spec {bpl height : Nat} (hb : 0 < bpl) (hbl : bpl < USIZE) (hh : 0 < height) :
    ∃ lb, LB.newT bpl height = some (lb, [Ev.io (.alloc (Stream.lineBufLen bpl height))]) ∧ lb.bpl = bpl ∧
      LBInv lb (Stream.linesInBuffer bpl height) 0 height := by
  have hle := clampLines_mul_le bpl height
  have hlt : clampLines (SrcConsts.TARGET_BUFFER_SIZE / bpl) height * bpl < USIZE := by
    have : SrcConsts.TARGET_BUFFER_SIZE < USIZE := by decide
    rcases Nat.le_total SrcConsts.TARGET_BUFFER_SIZE bpl with h | h
    · rw [Nat.max_eq_right h] at hle; omega
    · rw [Nat.max_eq_left h] at hle; omega
  refine ⟨⟨Stream.lineBufLen bpl height, 0, bpl, height, Stream.lineBufLen bpl height⟩, ?_, rfl, ?_⟩
  · unfold LB.newT
    rw [div_of_ne (by omega), bind_some', dbgP_of (by omega), bind_some', ckU_of_lt hlt, bind_some', pure_some']
    rfl
  · have hc := clampLines_bounds (q := SrcConsts.TARGET_BUFFER_SIZE / bpl) hh
    exact ⟨hb, hc.1, rfl, hlt, rfl, Or.inl ⟨rfl, Nat.zero_le _⟩⟩

theorem LB.lineT_spec {b : LB} {cap avail onDisk : Nat} (inv : LBInv b cap avail onDisk) (ha : 0 < avail)
    (evs : List Ev) :
    ∃ b', b.lineT evs = some (some ⟨.line, b.cur, b.bpl⟩, b', evs) ∧ b'.bpl = b.bpl ∧
      LBInv b' cap (avail - 1) onDisk := by
  obtain ⟨h1, h2, h3, h4, h5, h6⟩ := inv
  rcases h6 with ⟨h, _⟩ | ⟨_, h6, h7⟩
  · omega
  have e : avail * b.bpl = (avail - 1) * b.bpl + b.bpl := by
    have : avail = (avail - 1) + 1 := by omega
    rw [this, Nat.add_mul, Nat.one_mul]; simp
  refine ⟨{ b with cur := b.cur + b.bpl }, ?_, rfl, ⟨h1, h2, h3, h4, h5, ?_⟩⟩
  · unfold LB.lineT
    rw [ckU_of_lt (by omega), bind_some', Sl.range_of (by simp only; omega), bind_some', pure_some']
    simp only [Nat.zero_add, Nat.add_sub_cancel_left]
  · show (avail - 1 = 0 ∧ b.bufFilled ≤ b.cur + b.bpl) ∨
      (0 < avail - 1 ∧ b.cur + b.bpl + (avail - 1) * b.bpl = b.bufFilled ∧ b.bufFilled ≤ b.bufLen)
    by_cases h0 : avail - 1 = 0
    · left; rw [h0] at e; omega
    · right; omega

/-- `next_line`: the three cases -/
theorem LB.nextLineT_done {b : LB} {cap : Nat} (inv : LBInv b cap 0 0) : b.nextLineT = some (none, b, []) := by
  obtain ⟨_, _, _, _, h5, h6⟩ := inv
  have : b.bufFilled ≤ b.cur := by rcases h6 with ⟨_, h⟩ | ⟨h, _⟩ <;> omega
  unfold LB.nextLineT
  rw [if_pos this, if_pos h5]

theorem LB.nextLineT_avail {b : LB} {cap avail onDisk : Nat} (inv : LBInv b cap avail onDisk) (ha : 0 < avail) :
    ∃ b' line, b.nextLineT = some (some line, b', []) ∧ line.buf = .line ∧ line.len = b.bpl ∧ b'.bpl = b.bpl ∧
      LBInv b' cap (avail - 1) onDisk := by
  have hlt : ¬ b.cur ≥ b.bufFilled := by
    obtain ⟨h1, _, _, _, _, h6⟩ := inv
    rcases h6 with ⟨h, _⟩ | ⟨_, h6, _⟩
    · omega
    · have : 1 * b.bpl ≤ avail * b.bpl := Nat.mul_le_mul_right _ ha
      omega
  obtain ⟨b', h, hb, hi⟩ := LB.lineT_spec inv ha []
  refine ⟨b', ⟨.line, b.cur, b.bpl⟩, ?_, rfl, rfl, hb, hi⟩
  unfold LB.nextLineT
  rw [if_neg hlt]; exact h

theorem LB.nextLineT_refill {b : LB} {cap onDisk : Nat} (inv : LBInv b cap 0 onDisk) (hd : 0 < onDisk) :
    ∃ b' line, b.nextLineT = some (some line, b', [Ev.io (.read (min cap onDisk * b.bpl))]) ∧ line.buf = .line ∧
      line.len = b.bpl ∧ b'.bpl = b.bpl ∧ LBInv b' cap (min cap onDisk - 1) (onDisk - min cap onDisk) := by
  obtain ⟨h1, h2, h3, h4, h5, h6⟩ := inv
  have hge : b.cur ≥ b.bufFilled := by rcases h6 with ⟨_, h⟩ | ⟨h, _⟩ <;> omega
  have hq : b.bufLen / b.bpl = cap := by rw [h3]; exact Nat.mul_div_cancel _ h1
  have hm : min cap onDisk * b.bpl ≤ cap * b.bpl := Nat.mul_le_mul_right _ (Nat.min_le_left _ _)
  have hmp : 0 < min cap onDisk := by rw [Nat.lt_min]; exact ⟨h2, hd⟩
  let b1 : LB := { b with linesOnDisk := onDisk - min cap onDisk, bufFilled := min cap onDisk * b.bpl, cur := 0 }
  have inv1 : LBInv b1 cap (min cap onDisk) (onDisk - min cap onDisk) :=
    ⟨h1, h2, h3, h4, rfl, Or.inr ⟨hmp, by show 0 + min cap onDisk * b.bpl = min cap onDisk * b.bpl; omega,
      by show min cap onDisk * b.bpl ≤ b.bufLen; omega⟩⟩
  obtain ⟨b', h, hb, hi⟩ := LB.lineT_spec inv1 hmp [Ev.io (.read (min cap onDisk * b.bpl))]
  refine ⟨b', ⟨.line, 0, b.bpl⟩, ?_, rfl, rfl, hb, hi⟩
  unfold LB.nextLineT
  rw [if_pos hge, if_neg (by omega), div_of_ne (by omega), bind_some', hq, h5]
  simp only []
  rw [subU_of_le (Nat.min_le_right _ _), bind_some', ckU_of_lt (by omega), bind_some', Sl.upto_of (by simp only; omega),
    bind_some']
  exact h

/-- C06's refill trace with an explicit capacity -/
def refillsFrom (cap bpl onDisk : Nat) : List Stream.Op :=
  List.replicate (onDisk / cap) (.read (cap * bpl)) ++ (if onDisk % cap = 0 then [] else [.read (onDisk % cap * bpl)])

theorem refillsFrom_zero (cap bpl : Nat) : refillsFrom cap bpl 0 = [] := by
  unfold refillsFrom; simp

theorem refillsFrom_step {cap bpl onDisk : Nat} (hc : 0 < cap) (hd : 0 < onDisk) :
    refillsFrom cap bpl onDisk = .read (min cap onDisk * bpl) :: refillsFrom cap bpl (onDisk - min cap onDisk) := by
  unfold refillsFrom
  by_cases h : cap ≤ onDisk
  · rw [Nat.min_eq_left h]
    have e1 : onDisk / cap = (onDisk - cap) / cap + 1 := by
      have : onDisk = (onDisk - cap) + cap := by omega
      conv => lhs; rw [this]
      exact Nat.add_div_right _ hc
    have e2 : onDisk % cap = (onDisk - cap) % cap := by
      have : onDisk = (onDisk - cap) + cap := by omega
      conv => lhs; rw [this]
      exact Nat.add_mod_right _ _
    rw [e1, e2, List.replicate_succ]; rfl
  · have hlt : onDisk < cap := by omega
    rw [Nat.min_eq_right (by omega), Nat.div_eq_of_lt hlt, Nat.mod_eq_of_lt hlt, Nat.sub_self]
    simp [show onDisk ≠ 0 by omega]

theorem refillsFrom_stream {bpl lines : Nat} (hb : 0 < bpl) :
    refillsFrom (Stream.linesInBuffer bpl lines) bpl lines = Stream.refills bpl lines := by
  unfold refillsFrom Stream.refills
  simp only [Stream.lineBufLen_div hb]

/-- **the `while let Some(line) = next_line()` loop**: with a body that maintains `Inv` and returns on every line,
the loop returns within `avail + onDisk + 1` calls of `next_line`, and its reader trace is C06's refill list -/
theorem whileLines_spec {σ : Type} (body : σ → Sl → Option (σ × List Ev)) (cap bpl H : Nat) (Inv : Nat → σ → Prop)
    (R : Sl → Prop)
    (hbody : ∀ k st line, k < H → Inv k st → line.buf = .line → line.len = bpl →
      ∃ st' e, body st line = some (st', e) ∧ Inv (k + 1) st' ∧ Quiet R e) :
    ∀ (fuel : Nat) (lb : LB) (avail onDisk : Nat) (st : σ) (k : Nat), LBInv lb cap avail onDisk → lb.bpl = bpl →
      avail + onDisk < fuel → k + avail + onDisk = H → Inv k st →
      ∃ evs, whileLinesT body fuel lb st = some evs ∧ ios evs = refillsFrom cap bpl onDisk ∧ Wr R evs := by
  intro fuel
  induction fuel with
  | zero => intro lb avail onDisk st k _ _ h; omega
  | succ fuel ih =>
    intro lb avail onDisk st k inv hbpl hf hk hinv
    unfold whileLinesT
    by_cases ha : 0 < avail
    · obtain ⟨b', line, h1, h2, h3, h4, h5⟩ := LB.nextLineT_avail inv ha
      obtain ⟨st', e, hb1, hb2, hb3⟩ := hbody k st line (by omega) hinv h2 (h3.trans hbpl)
      obtain ⟨e3, hr1, hr2, hr3⟩ := ih b' (avail - 1) onDisk st' (k + 1) h5 (h4.trans hbpl) (by omega) (by omega) hb2
      refine ⟨[] ++ e ++ e3, ?_, ?_, ?_⟩
      · rw [h1]; simp only [hb1, hr1]
      · rw [ios_append, ios_append, hb3.1, hr2]; rfl
      · exact ((Wr.nil R).append hb3.2).append hr3
    · have ha0 : avail = 0 := by omega
      subst ha0
      by_cases hd : 0 < onDisk
      · obtain ⟨b', line, h1, h2, h3, h4, h5⟩ := LB.nextLineT_refill inv hd
        obtain ⟨st', e, hb1, hb2, hb3⟩ := hbody k st line (by omega) hinv h2 (h3.trans hbpl)
        have hmin : 0 < min cap onDisk := by rw [Nat.lt_min]; exact ⟨inv.cap_pos, hd⟩
        have hmle : min cap onDisk ≤ onDisk := Nat.min_le_right _ _
        obtain ⟨e3, hr1, hr2, hr3⟩ := ih b' (min cap onDisk - 1) (onDisk - min cap onDisk) st' (k + 1) h5
          (h4.trans hbpl) (by omega) (by omega) hb2
        refine ⟨[Ev.io (.read (min cap onDisk * lb.bpl))] ++ e ++ e3, ?_, ?_, ?_⟩
        · rw [h1]; simp only [hb1, hr1]
        · rw [ios_append, ios_append, hb3.1, hr2, refillsFrom_step inv.cap_pos hd, hbpl]; rfl
        · exact ((Wr.io R _).append hb3.2).append hr3
      · have hd0 : onDisk = 0 := by omega
        subst hd0
        rw [LB.nextLineT_done inv]
        exact ⟨[], rfl, by rw [refillsFrom_zero]; rfl, Wr.nil R⟩

/-! ### pixel functions, `convert_channels_for`, `process_pixels` -/

theorem PxFn.runT_spec {f : PxFn} {encSize decSize n : Nat} (hf : f.Fits encSize decSize) (hn : n < 2 ^ 40)
    {enc dec : Sl} (he : enc.len = n * encSize) (hd : dec.len = n * decSize) :
    ∃ evs, f.runT enc dec = some evs ∧ Quiet (WrOK dec) evs := by
  cases f with
  | helper a b =>
    obtain ⟨ha, hb, c, _, h1, h2⟩ := hf
    have e1 : enc.len = (n * c) * a := by rw [he, h1, Nat.mul_assoc]
    have e2 : dec.len = (n * c) * b := by rw [hd, h2, Nat.mul_assoc]
    refine ⟨[Ev.wr ⟨dec.buf, dec.off, n * c * b⟩], ?_, Quiet.one (Or.inr ⟨rfl, Nat.le_refl _, by simp only; omega⟩)⟩
    simp only [PxFn.runT]
    rw [e1, e2, TrapUnc.processPixelsT_eq a b (n * c) ha hb, bind_some', pure_some']
  | copy =>
    have hf : encSize = decSize := hf
    refine ⟨[Ev.wr dec], ?_, Quiet.one (WrOK.self dec)⟩
    simp only [PxFn.runT]
    rw [dbgP_of (by rw [he, hd, hf]), bind_some', dbgP_of (by rw [he, hd, hf]), bind_some', pure_some']
  | unroll a b =>
    obtain ⟨ha, hb, c, hc, h1, h2⟩ := hf
    subst ha
    have e1 : enc.len = (n * c) * 2 := by rw [he, h1, Nat.mul_assoc]
    have e2 : dec.len = (n * c) * b := by rw [hd, h2, Nat.mul_assoc]
    have hlt : n * c < 2 ^ 60 := by
      have : n * c ≤ n * 16 := Nat.mul_le_mul_left _ hc
      simp only [Nat.reducePow] at hn ⊢; omega
    refine ⟨[Ev.wr dec], ?_, Quiet.one (WrOK.self dec)⟩
    simp only [PxFn.runT]
    rw [e1, e2, TrapUnc.processPixelsUnrollT_eq b (n * c) hb hlt, bind_some', pure_some']

theorem convertChannelsForT_spec {native : Color} {target : Unc.Channels} (hp : native.psz = 1 ∨ native.psz = 2 ∨ native.psz = 4)
    {n : Nat} {src dst : Sl} (hs : src.len = n * native.bpp) (hd : dst.len = n * (Color.mk target native.psz).bpp) :
    convertChannelsForT native target src dst = some [Ev.wr dst] := by
  unfold convertChannelsForT
  have e1 : src.len = n * (native.psz * TrapUnc.chanCount native.ch) := by rw [hs, Color.bpp, Nat.mul_comm native.psz]
  have e2 : dst.len = n * (native.psz * TrapUnc.chanCount target) := by rw [hd, Color.bpp, Nat.mul_comm native.psz]
  rw [e1, e2, TrapUnc.convertChannelsT_eq native.ch target native.psz n hp, bind_some', pure_some']

theorem tmpBuffer_len : tmpBuffer.len = BUFFER_BYTES := by decide

theorem stepStart_facts {n p cs : Nat} (hp : 0 < p) (h : cs ∈ Addr.stepStarts n p) :
    cs < n ∧ cs ≤ min (cs + p) n ∧ min (cs + p) n - cs ≤ p ∧ min (cs + p) n ≤ n := by
  obtain ⟨k, hk, rfl⟩ := (Addr.mem_stepStarts hp).1 h
  rw [Nat.min_def]; split <;> omega

/-- **`ChannelConversionBuffer::process_pixels`** on a row of `n` pixels -/
theorem convPixelsT_spec {native : Color} {target : Unc.Channels} {f : PxFn} {encSize n : Nat}
    (hp : native.psz = 1 ∨ native.psz = 2 ∨ native.psz = 4) (hf : f.Fits encSize native.bpp) (hE : encSize < 256)
    (hn0 : 0 < n) (hn : n < U32B) {enc out : Sl} (he : enc.len = n * encSize)
    (ho : out.len = n * (Color.mk target native.psz).bpp) :
    ∃ evs, convPixelsT native target f enc out = some evs ∧ Quiet (WrOK out) evs := by
  unfold convPixelsT
  by_cases hc : native.ch = target
  · rw [if_pos hc]
    have : (Color.mk target native.psz) = native := by cases native; simp only at hc; subst hc; rfl
    rw [this] at ho
    exact PxFn.runT_spec hf (by unfold U32B at hn; simp only [Nat.reducePow]; omega) he ho
  · rw [if_neg hc]
    generalize hO : (Color.mk target native.psz).bpp = O at ho
    have hOb : 1 ≤ O ∧ O ≤ 16 := hO ▸ Color.bpp_bounds ⟨target, native.psz⟩ hp
    have hNb := Color.bpp_bounds native hp
    generalize hN : native.bpp = N at hNb hf
    have hP : 0 < BUFFER_BYTES / N := by
      have : N ≤ BUFFER_BYTES := by have : (16 : Nat) ≤ BUFFER_BYTES := by decide
                                    omega
      exact Nat.div_pos this (by omega)
    have hPN : BUFFER_BYTES / N * N ≤ BUFFER_BYTES := Nat.div_mul_le_self _ _
    have hPle : BUFFER_BYTES / N ≤ BUFFER_BYTES := Nat.div_le_self _ _
    have hq1 : out.len / O = n := by rw [ho]; exact Nat.mul_div_cancel _ (by omega)
    have hq2 : enc.len / n = encSize := by rw [he]; exact Nat.mul_div_cancel_left _ hn0
    have hm : O % TrapUnc.chanCount target = 0 := by rw [← hO]; exact Nat.mul_mod_right _ _
    have hcnt := chanCount_le target
    rw [Color.bppT_eq ⟨target, native.psz⟩ hp, bind_some', hO, div_of_ne (by omega), bind_some', hq1, div_of_ne (by omega), bind_some', hq2,
      modT_of_ne (by omega), bind_some', dbgP_of hm, bind_some', Color.bppT_eq native hp, bind_some', hN,
      div_of_ne (by omega), bind_some', dbgP_of (by omega), bind_some']
    apply forT_quiet
    intro cs hcs
    obtain ⟨h1, h2, h3, h4⟩ := stepStart_facts hP hcs
    generalize hce : min (cs + BUFFER_BYTES / N) n = ce at h2 h3 h4
    have hUS : (2 : Nat) ^ 40 < USIZE := by decide
    unfold U32B at hn
    -- products
    have p1 : cs * encSize ≤ ce * encSize := Nat.mul_le_mul_right _ h2
    have p2 : ce * encSize ≤ n * encSize := Nat.mul_le_mul_right _ h4
    have p3 : n * encSize ≤ n * 256 := Nat.mul_le_mul_left _ (by omega)
    have p4 : cs * O ≤ ce * O := Nat.mul_le_mul_right _ h2
    have p5 : ce * O ≤ n * O := Nat.mul_le_mul_right _ h4
    have p6 : n * O ≤ n * 16 := Nat.mul_le_mul_left _ hOb.2
    have p7 : (ce - cs) * N ≤ BUFFER_BYTES / N * N := Nat.mul_le_mul_right _ h3
    have s1 : ce * encSize - cs * encSize = (ce - cs) * encSize := (Nat.sub_mul _ _ _).symm
    have s2 : ce * O - cs * O = (ce - cs) * O := (Nat.sub_mul _ _ _).symm
    have hB : BUFFER_BYTES < 2 ^ 20 := by decide
    simp only [Nat.reducePow] at hUS hB
    rw [ckU_of_lt (by omega), bind_some']
    simp only []
    rw [hce, subU_of_le h2, bind_some', ckU_of_lt (by omega), bind_some', ckU_of_lt (by omega), bind_some',
      Sl.range_of ⟨p1, by omega⟩, bind_some', ckU_of_lt (by omega), bind_some', ckU_of_lt (by omega), bind_some',
      Sl.range_of ⟨p4, by omega⟩, bind_some', ckU_of_lt (by omega), bind_some',
      Sl.upto_of (by rw [tmpBuffer_len]; omega), bind_some']
    obtain ⟨w1, hw1, q1⟩ := PxFn.runT_spec (f := f) (encSize := encSize) (decSize := N) (n := ce - cs) hf
      (by simp only [Nat.reducePow]; omega)
      (enc := ⟨enc.buf, enc.off + cs * encSize, ce * encSize - cs * encSize⟩)
      (dec := ⟨tmpBuffer.buf, tmpBuffer.off, (ce - cs) * N⟩) s1 rfl
    rw [hw1, bind_some']
    rw [convertChannelsForT_spec hp (n := ce - cs) (by simp only [hN]) (by simp only [hO]; exact s2), bind_some',
      pure_some']
    refine ⟨_, rfl, Quiet.append (q1.mono fun s hs => hs.tmp rfl out) (Quiet.one ?_)⟩
    exact Or.inr ⟨rfl, by simp only; omega, by simp only; omega⟩

/-- a loop of independent iterations with a known reader trace per iteration -/
theorem forT_spec {α} (body : α → Option (List Ev)) (g : α → List Stream.Op) (R : Sl → Prop) :
    ∀ l : List α, (∀ x ∈ l, ∃ e, body x = some e ∧ ios e = g x ∧ Wr R e) →
      ∃ evs, forT body l = some evs ∧ ios evs = l.flatMap g ∧ Wr R evs
  | [], _ => ⟨[], rfl, rfl, Wr.nil R⟩
  | x :: l, h => by
    obtain ⟨e, he, ie, we⟩ := h x (List.mem_cons_self ..)
    obtain ⟨r, hr, ir, wr⟩ := forT_spec body g R l (fun y hy => h y (List.mem_cons_of_mem _ hy))
    exact ⟨e ++ r, forT_cons body x l he hr, by rw [ios_append, ie, ir, List.flatMap_cons], we.append wr⟩

/-! ### the pixel loops -/

/-- how a decoder of `uncompressed.rs` instantiates the two pixel loops: `debug_assert`s of the entry, `PixelSize` -/
structure PixelCfg (img : Img) (native : Color) (encSize decSize : Nat) (f : PxFn) : Prop where
  prec : img.color.psz = native.psz
  dec : native.bpp = decSize
  enc_pos : 0 < encSize
  enc_lt : encSize < 256
  fits : f.Fits encSize decSize

theorem PixelCfg.native_psz {img : Img} {native : Color} {encSize decSize : Nat} {f : PxFn}
    (c : PixelCfg img native encSize decSize f) (ok : img.Ok) : native.psz = 1 ∨ native.psz = 2 ∨ native.psz = 4 :=
  c.prec ▸ ok.psz

/-- one row through `process_pixels`: the writes stay inside the row -/
theorem convPixels_row {img : Img} {native : Color} {encSize decSize : Nat} {f : PxFn} (ok : img.Ok)
    (c : PixelCfg img native encSize decSize f) {line : Sl} (hl : line.len = img.w * encSize) {y : Nat} (hy : y < img.h) :
    ∃ e, convPixelsT native img.color.ch f line ⟨.out, y * img.pitch, img.w * img.color.bpp⟩ = some e ∧
      Quiet (InRows 0 img.pitch img.h (img.w * img.color.bpp)) e := by
  have hcol : (Color.mk img.color.ch native.psz) = img.color := by
    rw [← c.prec]
  obtain ⟨e, he, q⟩ := convPixelsT_spec (native := native) (target := img.color.ch) (f := f) (encSize := encSize)
    (n := img.w) (c.native_psz ok) (c.dec ▸ c.fits) c.enc_lt ok.w_pos ok.w_lt (enc := line)
    (out := ⟨.out, y * img.pitch, img.w * img.color.bpp⟩) hl (by rw [hcol])
  exact ⟨e, he, q.mono fun s hs => InRows.of_WrOK hs hy (by simp) (Nat.le_refl _)⟩

theorem pixelRows_spec {img : Img} {native : Color} {encSize decSize : Nat} {f : PxFn} (ok : img.Ok)
    (c : PixelCfg img native encSize decSize f) (cap : Nat) :
    ∀ (m : Nat) (lb : LB) (avail onDisk k : Nat), avail + onDisk = m → k + m = img.h → LBInv lb cap avail onDisk →
      lb.bpl = img.w * encSize →
      ∃ evs, pixelRowsT img native encSize f (img.w * img.color.bpp) (List.range' k m) lb = some evs ∧
        ios evs = refillsFrom cap (img.w * encSize) onDisk ∧
        Wr (InRows 0 img.pitch img.h (img.w * img.color.bpp)) evs := by
  intro m
  induction m with
  | zero =>
    intro lb avail onDisk k h1 _ _ _
    have : onDisk = 0 := by omega
    subst this
    exact ⟨[], rfl, by rw [refillsFrom_zero]; rfl, Wr.nil _⟩
  | succ m ih =>
    intro lb avail onDisk k h1 h2 inv hbpl
    rw [List.range'_succ]
    unfold pixelRowsT
    rw [ok.rowsMutItemT (by omega : k < img.h), bind_some']
    have hmod : (img.w * encSize) % encSize = 0 := Nat.mul_mod_left _ _
    by_cases ha : 0 < avail
    · obtain ⟨b', line, n1, n2, n3, n4, n5⟩ := LB.nextLineT_avail inv ha
      obtain ⟨e2, he2, q2⟩ := convPixels_row ok c (n3.trans hbpl) (by omega : k < img.h)
      obtain ⟨e3, he3, i3, w3⟩ := ih b' (avail - 1) onDisk (k + 1) (by omega) (by omega) n5 (n4.trans hbpl)
      rw [n1]
      simp only []
      rw [n3.trans hbpl, modT_of_ne (by have := c.enc_pos; omega), bind_some', dbgP_of hmod, bind_some', he2, bind_some',
        he3, bind_some', pure_some']
      exact ⟨_, rfl, by rw [ios_append, ios_append, q2.1, i3]; rfl, ((Wr.nil _).append q2.2).append w3⟩
    · have ha0 : avail = 0 := by omega
      subst ha0
      have hd : 0 < onDisk := by omega
      obtain ⟨b', line, n1, n2, n3, n4, n5⟩ := LB.nextLineT_refill inv hd
      have hmin : 0 < min cap onDisk := by rw [Nat.lt_min]; exact ⟨inv.cap_pos, hd⟩
      have hmle : min cap onDisk ≤ onDisk := Nat.min_le_right _ _
      obtain ⟨e2, he2, q2⟩ := convPixels_row ok c (n3.trans hbpl) (by omega : k < img.h)
      obtain ⟨e3, he3, i3, w3⟩ := ih b' (min cap onDisk - 1) (onDisk - min cap onDisk) (k + 1) (by omega) (by omega) n5
        (n4.trans hbpl)
      rw [n1]
      simp only []
      rw [n3.trans hbpl, modT_of_ne (by have := c.enc_pos; omega), bind_some', dbgP_of hmod, bind_some', he2, bind_some',
        he3, bind_some', pure_some']
      refine ⟨_, rfl, ?_, ((Wr.io _ _).append q2.2).append w3⟩
      rw [ios_append, ios_append, q2.1, i3, refillsFrom_step inv.cap_pos hd, hbpl]; rfl

/-- **`for_each_pixel_untyped`**: no trap; trace = C06's `pixelFull`; every write inside a row of the view -/
theorem pixelFullT_spec {img : Img} {native : Color} {encSize decSize : Nat} {f : PxFn} (ok : img.Ok)
    (c : PixelCfg img native encSize decSize f) :
    ∃ evs, pixelFullT img native encSize decSize f = some evs ∧ ios evs = Stream.pixelFull encSize img.w img.h ∧
      Wr (InRows 0 img.pitch img.h (img.w * img.color.bpp)) evs := by
  have hbl : img.w * encSize < USIZE := by
    have : img.w * encSize ≤ img.w * 256 := Nat.mul_le_mul_left _ (by have := c.enc_lt; omega)
    have := ok.w_lt; unfold U32B at this; unfold USIZE; omega
  have hbp : 0 < img.w * encSize := Nat.mul_pos ok.w_pos c.enc_pos
  obtain ⟨lb, hnew, hbpl, inv⟩ := LB.newT_spec hbp hbl ok.h_pos
  obtain ⟨e1, he1, i1, w1⟩ := pixelRows_spec ok c (Stream.linesInBuffer (img.w * encSize) img.h) img.h lb 0 img.h 0
    (by omega) (by omega) inv hbpl
  unfold pixelFullT
  rw [dbgP_of c.prec, bind_some', Color.bppT_eq _ (c.native_psz ok), bind_some', dbgP_of c.dec, bind_some',
    ckU_of_lt hbl, bind_some', hnew, bind_some']
  simp only []
  rw [ok.bytesPerRowT, bind_some', dbgP_of (by have := ok.pitch_pos; omega), bind_some', ok.rowsMutCount,
    List.range_eq_range', he1, bind_some', pure_some']
  refine ⟨_, rfl, ?_, (Wr.io _ _).append w1⟩
  rw [ios_append, i1, refillsFrom_stream hbp]
  unfold Stream.pixelFull
  rw [Stream.lineBufNew_eq hbp ok.h_pos]; rfl

/-- reader trace of iteration `y` of the rect row loop -/
def rectRowOps (gap rd y : Nat) : List Stream.Op := (if y > 0 then [.skip gap] else []) ++ [.read rd]

theorem rectRowsRest_flatMap (gap rd : Nat) : ∀ k s, 0 < s →
    (List.range' s k).flatMap (rectRowOps gap rd) = Stream.rectRowsRest gap rd k
  | 0, _, _ => rfl
  | k + 1, s, hs => by
    rw [List.range'_succ, List.flatMap_cons, rectRowsRest_flatMap gap rd k (s + 1) (by omega)]
    simp [rectRowOps, hs, Stream.rectRowsRest]

theorem rectRows_flatMap (gap rd : Nat) : ∀ k, (List.range k).flatMap (rectRowOps gap rd) = Stream.rectRows gap rd k
  | 0 => rfl
  | k + 1 => by
    rw [List.range_eq_range', List.range'_succ, List.flatMap_cons, rectRowsRest_flatMap gap rd k 1 (by omega)]
    simp [rectRowOps, Stream.rectRows]

/-- **`for_each_pixel_rect_untyped`**: surface `W × H`, the image is the rect at `(ox, oy)` inside it -/
theorem pixelRectT_spec {img : Img} {native : Color} {encSize decSize : Nat} {f : PxFn} (ok : img.Ok)
    (c : PixelCfg img native encSize decSize f) {W H ox oy : Nat} (hx : ox + img.w ≤ W) (hy : oy + img.h ≤ H)
    (hsurf : W * H * encSize ≤ I64MAX) :
    ∃ evs, pixelRectT img W H ox oy native encSize decSize f = some evs ∧
      ios evs = Stream.pixelRect encSize W H ox oy img.w img.h ∧
      Wr (InRows 0 img.pitch img.h (img.w * img.color.bpp)) evs := by
  have hep := c.enc_pos
  have hwp := ok.w_pos
  have hhp := ok.h_pos
  have hUS : 2 * I64MAX < USIZE := by decide
  -- T = bytes per surface row
  have hT : W * encSize * H ≤ I64MAX := by rw [Nat.mul_right_comm]; exact hsurf
  have hpx : W * H ≤ W * H * encSize := Nat.le_mul_of_pos_right _ hep
  have hT1 : W * encSize * (oy + 1) ≤ W * encSize * H := Nat.mul_le_mul_left _ (by omega)
  have hT2 : (H - oy - img.h + 1) * (W * encSize) ≤ H * (W * encSize) := Nat.mul_le_mul_right _ (by omega)
  rw [Nat.mul_add, Nat.mul_one] at hT1
  rw [Nat.add_mul, Nat.one_mul, Nat.mul_comm H] at hT2
  have hb : ox * encSize ≤ W * encSize := Nat.mul_le_mul_right _ (by omega)
  have ha : (W - ox - img.w) * encSize ≤ W * encSize := Nat.mul_le_mul_right _ (by omega)
  have hr : img.w * encSize ≤ W * encSize := Nat.mul_le_mul_right _ (by omega)
  have hTH : W * encSize * 1 ≤ W * encSize * H := Nat.mul_le_mul_left _ (by omega)
  rw [Nat.mul_one] at hTH
  -- the row loop
  obtain ⟨e1, he1, i1, w1⟩ := forT_spec
    (pixelRectRowT img native encSize f (ox * encSize) ((W - ox - img.w) * encSize) ⟨.row, 0, img.w * encSize⟩)
    (rectRowOps (ox * encSize + (W - ox - img.w) * encSize) (img.w * encSize))
    (InRows 0 img.pitch img.h (img.w * img.color.bpp)) (List.range img.h) (by
      intro y hy'
      have hy' : y < img.h := List.mem_range.mp hy'
      obtain ⟨e2, he2, q2⟩ := convPixels_row ok c (line := ⟨.row, 0, img.w * encSize⟩) rfl hy'
      have hb' := ok.bpp
      unfold pixelRectRowT
      have q1 : img.w * encSize / encSize = img.w := Nat.mul_div_cancel _ hep
      have q2' : img.w * img.color.bpp / img.color.bpp = img.w := Nat.mul_div_cancel _ (by omega)
      by_cases h0 : y > 0
      · rw [if_pos h0, ckU_of_lt (by omega)]
        simp only [bind_some', pure_some']
        rw [ok.getRowT hy', bind_some',
          Color.bppT_eq _ ok.psz, bind_some', div_of_ne (by omega), bind_some', div_of_ne (by omega), bind_some',
          dbgP_of (by simp only [q1, q2']), bind_some', he2, bind_some']
        refine ⟨_, rfl, ?_, ((Wr.io _ _).append (Wr.io _ _)).append q2.2⟩
        rw [ios_append, ios_append, q2.1]; simp [rectRowOps, h0, ios]
      · rw [if_neg h0]
        simp only [bind_some', pure_some']
        rw [ok.getRowT hy', bind_some',
          Color.bppT_eq _ ok.psz, bind_some', div_of_ne (by omega), bind_some', div_of_ne (by omega), bind_some',
          dbgP_of (by simp only [q1, q2']), bind_some', he2, bind_some']
        refine ⟨_, rfl, ?_, ((Wr.nil _).append (Wr.io _ _)).append q2.2⟩
        rw [ios_append, ios_append, q2.1]; simp [rectRowOps, h0, ios])
  unfold pixelRectT
  rw [dbgP_of c.prec, bind_some', Color.bppT_eq _ (c.native_psz ok), bind_some', dbgP_of c.dec, bind_some',
    ckU_of_lt (by omega), bind_some', dbgP_of ⟨by omega, hsurf⟩, bind_some', ckU_of_lt (by omega), bind_some',
    ckU_of_lt (by omega), bind_some', subU_of_le (by omega), bind_some', subU_of_le (by omega), bind_some',
    ckU_of_lt (by omega), bind_some', ckU_of_lt (by omega), bind_some']
  simp only []
  rw [ckU_of_lt (by omega), bind_some', ckU_of_lt (by omega), bind_some', he1, bind_some', subU_of_le (by omega),
    bind_some', subU_of_le (by omega), bind_some', ckU_of_lt (by omega), bind_some', ckU_of_lt (by omega), bind_some',
    pure_some']
  refine ⟨_, rfl, ?_, (((Wr.io _ _).append (Wr.io _ _)).append w1).append (Wr.io _ _)⟩
  · simp only [ios_append, i1, rectRows_flatMap, ios, Stream.pixelRect, if_pos hsurf, List.nil_append,
      List.cons_append]

/-! ### `read_exact_image`, `for_each_slice`, the COPY decoders -/

theorem Img.Ok.contig {i : Img} (ok : i.Ok) (hc : i.pitch * i.h = i.len) :
    i.pitch = i.w * i.color.bpp ∧ i.len = i.w * i.color.bpp * i.h := by
  have e : i.pitch * i.h = i.pitch * (i.h - 1) + i.pitch := by
    have : i.h = (i.h - 1) + 1 := by have := ok.h_pos; omega
    conv => lhs; rw [this, Nat.mul_add, Nat.mul_one]
  have := ok.len_eq
  have hp : i.pitch = i.w * i.color.bpp := by omega
  exact ⟨hp, by rw [← hc, hp]⟩

/-- where a whole-image decoder writes: inside a row, or — contiguous views only, there is no padding then — all data -/
def CopyWr (i : Img) (s : Sl) : Prop :=
  s.buf = .out → (∃ y, y < i.h ∧ y * i.pitch ≤ s.off ∧ s.off + s.len ≤ y * i.pitch + i.w * i.color.bpp) ∨
    (i.pitch = i.w * i.color.bpp ∧ s.off + s.len ≤ i.len)

theorem flatMap_const {α β} (x : List β) : ∀ l : List α, l.flatMap (fun _ => x) = (List.replicate l.length x).flatten
  | [] => rfl
  | _ :: l => by rw [List.flatMap_cons, flatMap_const x l]; rfl

theorem readExactImageT_spec {img : Img} (ok : img.Ok) :
    ∃ evs, readExactImageT img = some evs ∧
      (ios evs = Stream.copyFull img.color.bpp img.w img.h ∨
        ios evs = List.replicate img.h (.read (img.w * img.color.bpp))) ∧
      Stream.span (ios evs) = img.w * img.h * img.color.bpp ∧ Wr (CopyWr img) evs := by
  unfold readExactImageT
  rw [ok.isContiguousT, bind_some']
  by_cases hc : img.pitch * img.h = img.len
  · have hb : (img.pitch * img.h == img.len) = true := by simp [hc]
    obtain ⟨h1, h2⟩ := ok.contig hc
    rw [hb]
    simp only [if_true, pure_some']
    have e : img.len = img.w * img.h * img.color.bpp := by rw [h2, Nat.mul_right_comm]
    refine ⟨_, rfl, Or.inl (by simp [ios, Stream.copyFull, e]), by simp [ios, Stream.span, e], ?_⟩
    exact (Wr.io _ _).append (Wr.one fun _ => Or.inr ⟨h1, by simp [Img.data]⟩)
  · have hb : (img.pitch * img.h == img.len) = false := by simp [hc]
    rw [hb]
    simp only [Bool.false_eq_true, if_false]
    rw [ok.bytesPerRowT, bind_some', dbgP_of (by have := ok.pitch_pos; omega), bind_some', ok.rowsMutCount]
    obtain ⟨evs, he, hi, hw⟩ := forT_spec
      (fun k => do let row ← img.rowsMutItemT (img.w * img.color.bpp) k; pure [Ev.io (.read row.len), Ev.wr row])
      (fun _ => [.read (img.w * img.color.bpp)]) (CopyWr img) (List.range img.h) (by
        intro k hk
        have hk : k < img.h := List.mem_range.mp hk
        show ∃ e, (do let row ← img.rowsMutItemT (img.w * img.color.bpp) k; pure [Ev.io (.read row.len), Ev.wr row]) = some e ∧ _
        rw [ok.rowsMutItemT hk, bind_some', pure_some']
        refine ⟨_, rfl, rfl, (Wr.io _ _).append (Wr.one fun _ => Or.inl ⟨k, hk, ?_, ?_⟩)⟩ <;> simp)
    refine ⟨evs, he, Or.inr ?_, ?_, hw⟩
    · rw [hi, flatMap_const, List.length_range]; simp
    · rw [hi, flatMap_const, List.length_range]
      simp only [List.flatten_replicate_singleton, Stream.span_replicate_read]
      rw [Nat.mul_comm img.w img.h, Nat.mul_assoc]

theorem SliceFn.runT_spec {g : SliceFn} {c : Color} (hg : g.Fits c) {n : Nat} {s : Sl} (hs : s.len = n * c.bpp) :
    ∃ e, g.runT s = some e ∧ Quiet (WrOK s) e := by
  cases g with
  | nothing => exact ⟨[], rfl, Quiet.nil _⟩
  | le16 =>
    have hg : c.psz = 2 := hg
    have : s.len % 2 = 0 := by rw [hs, Color.bpp, hg, ← Nat.mul_assoc]; exact Nat.mul_mod_left _ _
    simp only [SliceFn.runT]
    rw [dbgP_of this, bind_some', pure_some']
    exact ⟨_, rfl, Quiet.nil _⟩
  | le32 =>
    have hg : c.psz = 4 := hg
    have : s.len % 4 = 0 := by rw [hs, Color.bpp, hg, ← Nat.mul_assoc]; exact Nat.mul_mod_left _ _
    simp only [SliceFn.runT]
    rw [dbgP_of this, bind_some', pure_some']
    exact ⟨_, rfl, Quiet.nil _⟩
  | s8 => exact ⟨[Ev.wr s], rfl, Quiet.one (WrOK.self s)⟩
  | bgraSwap =>
    have hg : c = ⟨.rgba, 1⟩ := hg
    have : s.len = 4 * n := by rw [hs, hg]; simp [Color.bpp, TrapUnc.chanCount, Nat.mul_comm]
    simp only [SliceFn.runT]
    rw [this, TrapUnc.bgraSwapT_eq, bind_some', pure_some']
    exact ⟨_, rfl, Quiet.one (WrOK.self s)⟩

theorem forEachSliceT_spec {img : Img} (ok : img.Ok) {g : SliceFn} (hg : g.Fits img.color) :
    ∃ evs, forEachSliceT img g = some evs ∧ Quiet (CopyWr img) evs := by
  unfold forEachSliceT
  rw [ok.isContiguousT, bind_some']
  by_cases hc : img.pitch * img.h = img.len
  · have hb : (img.pitch * img.h == img.len) = true := by simp [hc]
    obtain ⟨h1, h2⟩ := ok.contig hc
    rw [hb]
    simp only [if_true]
    obtain ⟨e, he, q⟩ := SliceFn.runT_spec hg (n := img.w * img.h) (s := img.data) (by
      rw [Img.data, h2, Nat.mul_right_comm])
    refine ⟨e, he, q.mono fun s hs hb => ?_⟩
    rcases hs with hs | ⟨_, _, c⟩
    · rw [hs] at hb; cases hb
    · exact Or.inr ⟨h1, by simpa [Img.data] using c⟩
  · have hb : (img.pitch * img.h == img.len) = false := by simp [hc]
    rw [hb]
    simp only [Bool.false_eq_true, if_false]
    rw [ok.bytesPerRowT, bind_some', dbgP_of (by have := ok.pitch_pos; omega), bind_some', ok.rowsMutCount]
    apply forT_quiet
    intro k hk
    have hk : k < img.h := List.mem_range.mp hk
    rw [ok.rowsMutItemT hk, bind_some']
    obtain ⟨e, he, q⟩ := SliceFn.runT_spec hg (n := img.w) (s := ⟨.out, k * img.pitch, img.w * img.color.bpp⟩) rfl
    refine ⟨e, he, q.mono fun s hs hb => ?_⟩
    rcases hs with hs | ⟨_, b, c⟩
    · rw [hs] at hb; cases hb
    · exact Or.inl ⟨k, hk, b, c⟩

/-- **the whole-image COPY decoders** (`COPY_U8/U16/U32/S8`, the BGRA swap): `read_exact_image` then `for_each_slice` -/
theorem copyFullT_spec {img : Img} (ok : img.Ok) {g : SliceFn} (hg : g.Fits img.color) :
    ∃ evs, copyFullT img g = some evs ∧
      (ios evs = Stream.copyFull img.color.bpp img.w img.h ∨
        ios evs = List.replicate img.h (.read (img.w * img.color.bpp))) ∧
      Stream.span (ios evs) = img.w * img.h * img.color.bpp ∧ Wr (CopyWr img) evs := by
  obtain ⟨e1, h1, i1, s1, w1⟩ := readExactImageT_spec ok
  obtain ⟨e2, h2, q2⟩ := forEachSliceT_spec ok hg
  unfold copyFullT
  rw [h1, bind_some']
  by_cases hn : g = .nothing
  · rw [if_pos hn, pure_some', bind_some']
    simp only [pure_some']
    exact ⟨_, rfl, by rwa [List.append_nil], by rwa [List.append_nil], w1.append (Wr.nil _)⟩
  · rw [if_neg hn, h2, bind_some']
    simp only [pure_some']
    refine ⟨_, rfl, ?_, ?_, w1.append q2.2⟩
    · rw [ios_append, q2.1, List.append_nil]; exact i1
    · rw [ios_append, q2.1, List.append_nil]; exact s1

end Dds.TrapLoops
