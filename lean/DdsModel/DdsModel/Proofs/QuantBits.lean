/-
C15: the binary32 UNORM quantisers `(x.min(1.0) * MAX + 0.5) as uN` on bit patterns stay at or
below `MAX` for EVERY pattern: NaN goes to 1.0 through `min`, negative values (−∞, −0.0 included)
give a non-positive product, `+ 0.5` is then at most 0.5 and the cast gives 0; a value in
`[0, 1]` gives a product of at most `MAX` (one rounding, bounded by the representable `MAX`),
a sum of at most `MAX + 0.5` and a cast of at most `MAX`.
-/
import DdsModel.Proofs.SharedExpChan
import DdsModel.Proofs.EncQuant
namespace Dds.EncTotal.QuantBits
open Dds.CF32 Dds.EncTotal.SharedExp

/-! ### signs -/

theorem roundPack_zero (sign : Bool) (e : Int) :
    roundPack sign 0 e = if sign then signBit else 0 := by
  simp [roundPack, force_eq, forceI_eq]

/-- the sign is attached to the rounded magnitude -/
theorem roundPack_split (sign : Bool) (m : Nat) (e : Int) :
    roundPack sign m e = (if sign then signBit else 0) + roundPack false m e := by
  cases sign
  · simp
  · unfold roundPack
    simp only [force_eq, forceI_eq]
    by_cases hm : (m == 0) = true
    · simp [hm]
    · simp only [hm, Bool.false_eq_true, if_false, if_true, Nat.zero_add]
      exact (apply_ite (fun t => signBit + t) _ _ _).symm

theorem sat_le (bits : Nat) : (if bits ≥ posInf then posInf else bits) ≤ posInf := by
  split <;> omega

theorem roundPack_le_posInf (m : Nat) (e : Int) : roundPack false m e ≤ posInf := by
  by_cases hm : m = 0
  · subst hm; rw [roundPack_zero]; decide
  · rw [roundPack_pos m e hm]
    dsimp only
    exact sat_le _

/-- a negative non-NaN pattern: `-0.0` … `-∞` -/
def NegR (p : Nat) : Prop := signBit ≤ p ∧ p ≤ signBit + posInf

theorem negR_flags (p : Nat) (h : NegR p) : isNaN p = false ∧ isNeg p = true := by
  obtain ⟨h1, h2⟩ := h
  constructor
  · apply Bool.eq_false_iff.mpr
    rw [Ne, isNaN_iff]
    simp only [signBit, posInf] at h1 h2
    omega
  · unfold isNeg; simpa using h1

theorem toNatSat_neg (p M : Nat) (h : NegR p) : toNatSat p M = 0 := by
  obtain ⟨a1, a2⟩ := negR_flags p h
  unfold toNatSat
  simp [force_eq, a1, a2]

theorem roundPack_true_negR (m : Nat) (e : Int) : NegR (roundPack true m e) := by
  rw [roundPack_split]
  have := roundPack_le_posInf m e
  unfold NegR
  simp only [if_true]
  omega

/-! ### the product -/

/-- a negative (or `-0.0`, `-∞`) operand times a positive finite non-zero constant is negative
(or `-0.0`, `-∞`), never NaN -/
theorem fmul_neg (x kp : Nat) (hx : NegR x) (hk : kp < posInf) (hk0 : isZero kp = false) :
    NegR (fmul x kp) := by
  obtain ⟨a1, a2⟩ := negR_flags x hx
  obtain ⟨b1, b2, b3⟩ := posfin_flags kp hk
  unfold fmul
  simp only [force_eq, a1, a2, b1, b2, b3, hk0, Bool.or_false, Bool.false_eq_true, if_false,
    bne_iff_ne, ne_eq, Bool.true_eq_false, not_false_eq_true, if_true]
  by_cases hi : isInf x = true
  · have hz : isZero x = false := by
      unfold isInf at hi
      unfold isZero
      simp only [Bool.and_eq_true, beq_iff_eq] at hi
      rw [expField_eq] at hi
      simp only [signBit, beq_eq_false_iff_ne, ne_eq]
      omega
    simp only [hi, hz, if_true, Bool.false_eq_true, if_false]
    exact ⟨by decide, by decide⟩
  · simp only [hi, Bool.false_eq_true, if_false]
    exact roundPack_true_negR _ _

theorem fmul_pos (x kp : Nat) (hx : x < posInf) (hk : kp < posInf) :
    fmul x kp = roundPack false (mant x * mant kp) (expo x + expo kp) := by
  obtain ⟨a1, a2, a3⟩ := posfin_flags x hx
  obtain ⟨b1, b2, b3⟩ := posfin_flags kp hk
  unfold fmul
  simp only [force_eq, a1, a2, a3, b1, b2, b3]
  simp

/-- `x ≤ 1.0` times the constant `kp = T·2^23 + F` is rounded to at most `kp` -/
theorem fmul_le_const (x kp T F : Nat) (hx : x ≤ one) (hkp : kp = T * 2 ^ 23 + F) (hF : F < 2 ^ 23)
    (hT1 : 127 ≤ T) (hT2 : T ≤ 148) : fmul x kp ≤ kp := by
  have hTle : T * 2 ^ 23 ≤ 148 * 2 ^ 23 := Nat.mul_le_mul_right _ hT2
  have hk : kp < posInf := by
    have : 148 * 2 ^ 23 + 2 ^ 23 < posInf := by decide
    omega
  have hxinf : x < posInf := Nat.lt_of_le_of_lt hx (by decide)
  rw [fmul_pos x kp hxinf hk]
  -- the fields of the constant
  have hEk : expField kp = T := by
    rw [expField_eq, hkp]
    have h1 : (T * 2 ^ 23 + F) / 8388608 = T := by
      rw [show (2 : Nat) ^ 23 = 8388608 from by decide, Nat.mul_comm,
        Nat.mul_add_div (by decide), Nat.div_eq_of_lt (by simpa using hF)]
      rfl
    rw [h1]; omega
  have hFk : fracField kp = F := by
    rw [fracField_eq, hkp, show (2 : Nat) ^ 23 = 8388608 from by decide, Nat.mul_comm,
      Nat.mul_add_mod]
    exact Nat.mod_eq_of_lt (by simpa using hF)
  obtain ⟨k1, k2⟩ := mant_normal kp (by omega)
  rw [hFk] at k1; rw [hEk] at k2
  by_cases hm0 : mant x = 0
  · rw [hm0, Nat.zero_mul, roundPack_zero]; exact Nat.zero_le _
  have hmk : mant kp ≠ 0 := by omega
  have hm : mant x * mant kp ≠ 0 := Nat.mul_ne_zero hm0 hmk
  -- the operand: `x ≤ 1.0` means `mant x ≤ 2^(−expo x)`
  have hxe : expo x ≤ -23 ∧ mant x ≤ 2 ^ (-expo x).toNat := by
    have hml := mant_lt x
    have hXle : expField x ≤ 127 := by
      rw [expField_eq]; simp only [one] at hx; omega
    by_cases hX : 1 ≤ expField x
    · obtain ⟨m1, m2⟩ := mant_normal x hX
      by_cases h127 : expField x = 127
      · have := pattern_split x hxinf
        rw [h127] at this
        have hf0 : fracField x = 0 := by simp only [one] at hx; omega
        rw [m2, h127, m1, hf0]
        exact ⟨by omega, by decide⟩
      · rw [m2]
        refine ⟨by omega, Nat.le_trans (Nat.le_of_lt hml) (Nat.pow_le_pow_right (by omega) (by omega))⟩
    · obtain ⟨_, m2⟩ := mant_subnormal x (by omega)
      rw [m2]
      exact ⟨by omega, Nat.le_trans (Nat.le_of_lt hml) (by decide)⟩
  have hb := roundPack_le_val _ (expo x + expo kp) hm ((T : Int) - 127) (mant kp) (by omega)
    (by rw [k1]; omega) (by rw [k1]; omega) (by
      have e1 : (expo x + expo kp + 23 - ((T : Int) - 127)).toNat = 0 := by rw [k2]; omega
      have e2 : ((T : Int) - 127 - 23 - (expo x + expo kp)).toNat = (-expo x).toNat := by
        rw [k2]; omega
      rw [e1, e2, Nat.pow_zero, Nat.mul_one, Nat.mul_comm]
      exact Nat.mul_le_mul_left _ hxe.2)
  have e3 : ((T : Int) - 127 + 126).toNat = T - 1 := by omega
  rw [e3] at hb
  have hT1' : (T - 1) * 2 ^ 23 + 2 ^ 23 = T * 2 ^ 23 := by
    have : T = (T - 1) + 1 := by omega
    conv => rhs; rw [this, Nat.add_mul, Nat.one_mul]
  have : (8388608 : Nat) = 2 ^ 23 := by decide
  omega

/-! ### the sum and the cast for a non-positive product -/

theorem toNatSat_small (x M : Nat) (h : x ≤ half) : toNatSat x M = 0 := by
  have hx : x < posInf := Nat.lt_of_le_of_lt h (by decide)
  obtain ⟨a1, a2, a3⟩ := posfin_flags x hx
  have hml := mant_lt x
  have hexp : expo x ≤ -24 := by
    have hXle : expField x ≤ 126 := by
      rw [expField_eq]; simp only [half] at h; omega
    by_cases hX : 1 ≤ expField x
    · rw [(mant_normal x hX).2]; omega
    · rw [(mant_subnormal x (by omega)).2]; omega
  unfold toNatSat
  simp only [force_eq, a1, a2, a3, Bool.false_eq_true, if_false]
  have hneg : ¬ (expo x ≥ 0) := by omega
  simp only [hneg, if_false]
  have hv : mant x >>> (-expo x).toNat = 0 := by
    rw [Nat.shiftRight_eq_div_pow]
    apply Nat.div_eq_of_lt
    exact Nat.lt_of_lt_of_le hml (Nat.pow_le_pow_right (by omega) (by omega))
  rw [hv]
  split <;> omega

/-- a non-positive, non-NaN `p` plus 0.5 is negative, a zero, or at most 0.5 -/
theorem fadd_neg_half (p : Nat) (hp : NegR p) : NegR (fadd p half) ∨ fadd p half ≤ half := by
  obtain ⟨a1, a2⟩ := negR_flags p hp
  obtain ⟨b1, b2, b3, b4, b5⟩ := half_facts
  unfold fadd
  simp only [force_eq, forceI_eq, a1, a2, b1, b2, b3, b4, b5, Bool.false_eq_true, if_false,
    Bool.or_false, Bool.false_and, Bool.and_false, if_true]
  by_cases hi : isInf p = true
  · simp only [hi, if_true]; left; exact hp
  simp only [hi, Bool.false_eq_true, if_false]
  generalize he : min (expo p) (-24) = e
  have hele : e ≤ -24 := by omega
  have hB : 2 ^ 23 <<< (-24 - e).toNat = 2 ^ 23 * 2 ^ (-24 - e).toNat := Nat.shiftLeft_eq _ _
  generalize hA : mant p <<< (expo p - e).toNat = A
  generalize hBd : 2 ^ 23 <<< (-24 - e).toNat = B at *
  by_cases h0 : (-(A : Int) + (B : Int) == 0) = true
  · simp only [h0, if_true]; right; exact Nat.zero_le _
  simp only [h0, Bool.false_eq_true, if_false]
  have hne : -(A : Int) + (B : Int) ≠ 0 := by simpa using h0
  by_cases hneg : -(A : Int) + (B : Int) < 0
  · left
    simp only [hneg, decide_true]
    exact roundPack_true_negR _ _
  · right
    simp only [hneg, decide_false]
    have hm : (-(A : Int) + (B : Int)).natAbs ≠ 0 := by omega
    have hle : (-(A : Int) + (B : Int)).natAbs ≤ B := by omega
    have := roundPack_le_val _ e hm (-1) (2 ^ 23) (by omega) (Nat.le_refl _) (by decide) (by
      have e1 : (e + 23 - -1).toNat = 0 := by omega
      have e2 : ((-1 : Int) - 23 - e).toNat = (-24 - e).toNat := by omega
      rw [e1, e2, Nat.pow_zero, Nat.mul_one, ← hB]
      exact hle)
    have e3 : ((-1 : Int) + 126).toNat * 2 ^ 23 + 2 ^ 23 = half := by decide
    rw [e3] at this
    exact this

/-! ### `x.min(1.0)` -/

theorem fmin_one_cases (x : Nat) (hx : x < 2 ^ 32) :
    fmin x one = one ∨ (fmin x one = x ∧ (NegR x ∨ x ≤ one)) := by
  unfold fmin
  by_cases hn : isNaN x = true
  · left; rw [if_pos hn]
  rw [if_neg hn, if_neg (by decide : ¬ (isNaN one = true))]
  by_cases hl : flt one x = true
  · left; rw [if_pos hl]
  rw [if_neg hl]
  right
  refine ⟨rfl, ?_⟩
  have hn' : isNaN x = false := by simpa using hn
  have hnn : ¬ (x / 8388608 % 256 = 255 ∧ x % 8388608 ≠ 0) := fun h => hn ((isNaN_iff x).mpr h)
  have hk1 : key one = (one : Int) := by decide
  simp only [flt, hn', show isNaN one = false from by decide, Bool.not_false, Bool.true_and,
    decide_eq_true_eq, hk1] at hl
  by_cases hs : x < signBit
  · right
    rw [key_of_lt x hs] at hl
    omega
  · left
    unfold NegR
    simp only [signBit, posInf] at hs ⊢
    omega

/-! ### the quantiser -/

/-- generic form: `kp = T·2^23 + F` is the pattern of `MAX`, `N` the significand of `MAX + 0.5`
in the binade of `MAX`, `n = MAX`; the last hypothesis is the value at `x = 1.0` (which NaN and
everything above 1.0 are mapped to) -/
theorem unorm_le_gen (kp tyMax T F N n x : Nat) (hx : x < 2 ^ 32) (hkp : kp = T * 2 ^ 23 + F)
    (hF : F < 2 ^ 23) (hT1 : 127 ≤ T) (hT2 : T ≤ 148) (hN1 : 2 ^ 23 ≤ N) (hN2 : N < 2 ^ 24)
    (hN : (2 ^ 23 + F) * 2 ^ (T - 126) + 2 ^ 23 ≤ N * 2 ^ (T - 126))
    (hn1 : N >>> (150 - T) ≤ n) (hn2 : 2 ^ (T - 127) ≤ n)
    (hone : toNatSat (fadd (fmul one kp) half) tyMax ≤ n) : unorm kp tyMax x ≤ n := by
  unfold unorm
  rcases fmin_one_cases x hx with h | ⟨h, hneg | hpos⟩
  · rw [h]; exact hone
  · rw [h]
    have hTle : T * 2 ^ 23 ≤ 148 * 2 ^ 23 := Nat.mul_le_mul_right _ hT2
    have hk : kp < posInf := by
      have : 148 * 2 ^ 23 + 2 ^ 23 < posInf := by decide
      omega
    have hk0 : isZero kp = false := by
      unfold isZero
      have h127 : 127 * 2 ^ 23 ≤ T * 2 ^ 23 := Nat.mul_le_mul_right _ hT1
      have : (127 : Nat) * 2 ^ 23 = 1065353216 := by decide
      simp only [signBit, beq_eq_false_iff_ne, ne_eq]
      simp only [posInf] at hk
      omega
    rcases fadd_neg_half _ (fmul_neg x kp hneg hk hk0) with h1 | h1
    · rw [toNatSat_neg _ _ h1]; exact Nat.zero_le _
    · rw [toNatSat_small _ _ h1]; exact Nat.zero_le _
  · rw [h]
    have hp := fmul_le_const x kp T F hpos hkp hF hT1 hT2
    rw [hkp] at hp ⊢
    exact castAddHalf_le tyMax _ T F N n hp hF hT1 hT2 hN1 hN2 hN hn1 hn2

/-! ### the six constants -/

theorem n2_le (x : Nat) (hx : x < 2 ^ 32) : n2 x ≤ 3 :=
  unorm_le_gen k3 255 128 0x400000 0xE00000 3 x hx (by decide) (by decide) (by decide) (by decide)
    (by decide) (by decide) (by decide) (by decide) (by decide) (by decide +kernel)

theorem n4_le (x : Nat) (hx : x < 2 ^ 32) : n4 x ≤ 15 :=
  unorm_le_gen k15 255 130 0x700000 0xF80000 15 x hx (by decide) (by decide) (by decide) (by decide)
    (by decide) (by decide) (by decide) (by decide) (by decide) (by decide +kernel)

theorem n5_le (x : Nat) (hx : x < 2 ^ 32) : n5 x ≤ 31 :=
  unorm_le_gen k31 255 131 0x780000 0xFC0000 31 x hx (by decide) (by decide) (by decide) (by decide)
    (by decide) (by decide) (by decide) (by decide) (by decide) (by decide +kernel)

theorem n6_le (x : Nat) (hx : x < 2 ^ 32) : n6 x ≤ 63 :=
  unorm_le_gen k63 255 132 0x7C0000 0xFE0000 63 x hx (by decide) (by decide) (by decide) (by decide)
    (by decide) (by decide) (by decide) (by decide) (by decide) (by decide +kernel)

theorem n10_le (x : Nat) (hx : x < 2 ^ 32) : n10 x ≤ 1023 :=
  unorm_le_gen k1023 65535 136 0x7FC000 0xFFE000 1023 x hx (by decide) (by decide) (by decide)
    (by decide) (by decide) (by decide) (by decide) (by decide) (by decide) (by decide +kernel)

theorem norm254_le (x : Nat) (hx : x < 2 ^ 32) : unorm k254 255 x ≤ 254 :=
  unorm_le_gen k254 255 134 0x7E0000 0xFE8000 254 x hx (by decide) (by decide) (by decide)
    (by decide) (by decide) (by decide) (by decide) (by decide) (by decide) (by decide +kernel)

theorem n1_le (x : Nat) : n1 x ≤ 1 := by
  unfold n1; split <;> omega

/-- `s8::from_uf32`: the `debug_assert!(x <= 254)` holds, `x + 1` does not overflow `u8` -/
theorem s8_some (x : Nat) (hx : x < 2 ^ 32) : ∃ v, s8 x = some v ∧ v < 2 ^ 8 := by
  have h := norm254_le x hx
  unfold s8 snormFromNorm
  rw [if_pos (by omega)]
  exact ⟨_, rfl, Nat.mod_lt _ (by omega)⟩

/-! ### the packed formats -/

theorem shl_eq (bits v s w : Nat) (hv : v < 2 ^ w) (hw : s + w ≤ bits) : shl bits v s = v <<< s := by
  unfold shl
  apply Nat.mod_eq_of_lt
  exact lt_pow_mono _ (s + w) bits (shiftLeft_lt_pow v s w hv) hw

theorem pack_fields_lt (l : List (Nat × Nat)) (h : ∀ f ∈ l, f.1 < 2 ^ f.2) (n : Nat)
    (hn : widthSum l = n) : pack l < 2 ^ n := hn ▸ pack_lt l h

theorem encode_b5g6r5 (r g b a : Nat) (hr : r < 2 ^ 32) (hg : g < 2 ^ 32) (hb : b < 2 ^ 32) :
    encode "B5G6R5_UNORM" r g b a = some (pack [(n5 b, 5), (n6 g, 6), (n5 r, 5)]) ∧
    pack [(n5 b, 5), (n6 g, 6), (n5 r, 5)] < 2 ^ 16 := by
  have h1 := n5_le b hb; have h2 := n6_le g hg; have h3 := n5_le r hr
  constructor
  · show some (n5 b ||| shl 16 (n6 g) 5 ||| shl 16 (n5 r) 11) = _
    rw [shl_eq 16 (n6 g) 5 6 (by omega) (by omega), shl_eq 16 (n5 r) 11 5 (by omega) (by omega)]
    simp only [pack, Nat.shiftLeft_or_distrib, ← Nat.shiftLeft_add, Nat.zero_shiftLeft, Nat.or_zero,
      Nat.or_assoc]
  · apply pack_fields_lt _ _ 16 rfl
    simp only [List.mem_cons, List.not_mem_nil, or_false]
    intro f hf
    rcases hf with rfl | rfl | rfl <;> dsimp only <;> omega

theorem encode_b5g5r5a1 (r g b a : Nat) (hr : r < 2 ^ 32) (hg : g < 2 ^ 32) (hb : b < 2 ^ 32) :
    encode "B5G5R5A1_UNORM" r g b a = some (pack [(n5 b, 5), (n5 g, 5), (n5 r, 5), (n1 a, 1)]) ∧
    pack [(n5 b, 5), (n5 g, 5), (n5 r, 5), (n1 a, 1)] < 2 ^ 16 := by
  have h1 := n5_le b hb; have h2 := n5_le g hg; have h3 := n5_le r hr; have h4 := n1_le a
  constructor
  · show some (n5 b ||| shl 16 (n5 g) 5 ||| shl 16 (n5 r) 10 ||| shl 16 (n1 a) 15) = _
    rw [shl_eq 16 (n5 g) 5 5 (by omega) (by omega), shl_eq 16 (n5 r) 10 5 (by omega) (by omega),
      shl_eq 16 (n1 a) 15 1 (by omega) (by omega)]
    simp only [pack, Nat.shiftLeft_or_distrib, ← Nat.shiftLeft_add, Nat.zero_shiftLeft, Nat.or_zero,
      Nat.or_assoc]
  · apply pack_fields_lt _ _ 16 rfl
    simp only [List.mem_cons, List.not_mem_nil, or_false]
    intro f hf
    rcases hf with rfl | rfl | rfl | rfl <;> dsimp only <;> omega

theorem encode_b4g4r4a4 (r g b a : Nat) (hr : r < 2 ^ 32) (hg : g < 2 ^ 32) (hb : b < 2 ^ 32)
    (ha : a < 2 ^ 32) :
    encode "B4G4R4A4_UNORM" r g b a = some (pack [(n4 b, 4), (n4 g, 4), (n4 r, 4), (n4 a, 4)]) ∧
    pack [(n4 b, 4), (n4 g, 4), (n4 r, 4), (n4 a, 4)] < 2 ^ 16 ∧
    encode "A4B4G4R4_UNORM" r g b a = some (pack [(n4 a, 4), (n4 b, 4), (n4 g, 4), (n4 r, 4)]) ∧
    pack [(n4 a, 4), (n4 b, 4), (n4 g, 4), (n4 r, 4)] < 2 ^ 16 := by
  have h1 := n4_le b hb; have h2 := n4_le g hg; have h3 := n4_le r hr; have h4 := n4_le a ha
  refine ⟨?_, ?_, ?_, ?_⟩
  · show some (n4 b ||| shl 16 (n4 g) 4 ||| shl 16 (n4 r) 8 ||| shl 16 (n4 a) 12) = _
    rw [shl_eq 16 (n4 g) 4 4 (by omega) (by omega), shl_eq 16 (n4 r) 8 4 (by omega) (by omega),
      shl_eq 16 (n4 a) 12 4 (by omega) (by omega)]
    simp only [pack, Nat.shiftLeft_or_distrib, ← Nat.shiftLeft_add, Nat.zero_shiftLeft, Nat.or_zero,
      Nat.or_assoc]
  · apply pack_fields_lt _ _ 16 rfl
    simp only [List.mem_cons, List.not_mem_nil, or_false]
    intro f hf
    rcases hf with rfl | rfl | rfl | rfl <;> dsimp only <;> omega
  · show some (n4 a ||| shl 16 (n4 b) 4 ||| shl 16 (n4 g) 8 ||| shl 16 (n4 r) 12) = _
    rw [shl_eq 16 (n4 b) 4 4 (by omega) (by omega), shl_eq 16 (n4 g) 8 4 (by omega) (by omega),
      shl_eq 16 (n4 r) 12 4 (by omega) (by omega)]
    simp only [pack, Nat.shiftLeft_or_distrib, ← Nat.shiftLeft_add, Nat.zero_shiftLeft, Nat.or_zero,
      Nat.or_assoc]
  · apply pack_fields_lt _ _ 16 rfl
    simp only [List.mem_cons, List.not_mem_nil, or_false]
    intro f hf
    rcases hf with rfl | rfl | rfl | rfl <;> dsimp only <;> omega

theorem encode_r10g10b10a2 (r g b a : Nat) (hr : r < 2 ^ 32) (hg : g < 2 ^ 32) (hb : b < 2 ^ 32)
    (ha : a < 2 ^ 32) :
    encode "R10G10B10A2_UNORM" r g b a =
      some (pack [(n10 r, 10), (n10 g, 10), (n10 b, 10), (n2 a, 2)]) ∧
    pack [(n10 r, 10), (n10 g, 10), (n10 b, 10), (n2 a, 2)] < 2 ^ 32 := by
  have h1 := n10_le r hr; have h2 := n10_le g hg; have h3 := n10_le b hb; have h4 := n2_le a ha
  constructor
  · show some (shl 32 (n2 a) 30 ||| shl 32 (n10 b) 20 ||| shl 32 (n10 g) 10 ||| n10 r) = _
    rw [shl_eq 32 (n2 a) 30 2 (by omega) (by omega), shl_eq 32 (n10 b) 20 10 (by omega) (by omega),
      shl_eq 32 (n10 g) 10 10 (by omega) (by omega)]
    simp only [pack, Nat.shiftLeft_or_distrib, ← Nat.shiftLeft_add, Nat.zero_shiftLeft, Nat.or_zero]
    congr 1
    generalize n2 a <<< 30 = A
    generalize n10 b <<< 20 = B
    generalize n10 g <<< 10 = G
    generalize n10 r = R
    show A ||| B ||| G ||| R = R ||| (G ||| (B ||| A))
    rw [Nat.or_comm (A ||| B ||| G) R, Nat.or_comm (A ||| B) G, Nat.or_comm A B]
  · apply pack_fields_lt _ _ 32 rfl
    simp only [List.mem_cons, List.not_mem_nil, or_false]
    intro f hf
    rcases hf with rfl | rfl | rfl | rfl <;> dsimp only <;> omega

theorem encode_rgba8_snorm (r g b a : Nat) (hr : r < 2 ^ 32) (hg : g < 2 ^ 32) (hb : b < 2 ^ 32)
    (ha : a < 2 ^ 32) :
    ∃ r' g' b' a', s8 r = some r' ∧ s8 g = some g' ∧ s8 b = some b' ∧ s8 a = some a' ∧
      encode "R8G8B8A8_SNORM" r g b a = some (pack [(r', 8), (g', 8), (b', 8), (a', 8)]) ∧
      pack [(r', 8), (g', 8), (b', 8), (a', 8)] < 2 ^ 32 := by
  obtain ⟨r', e1, h1⟩ := s8_some r hr
  obtain ⟨g', e2, h2⟩ := s8_some g hg
  obtain ⟨b', e3, h3⟩ := s8_some b hb
  obtain ⟨a', e4, h4⟩ := s8_some a ha
  refine ⟨r', g', b', a', e1, e2, e3, e4, ?_, ?_⟩
  · show (match s8 r, s8 g, s8 b, s8 a with
      | some r, some g, some b, some a => some (r ||| (g <<< 8) ||| (b <<< 16) ||| (a <<< 24))
      | _, _, _, _ => none) = _
    rw [e1, e2, e3, e4]
    simp only [pack, Nat.shiftLeft_or_distrib, ← Nat.shiftLeft_add, Nat.zero_shiftLeft, Nat.or_zero,
      Nat.or_assoc]
  · apply pack_fields_lt _ _ 32 rfl
    simp only [List.mem_cons, List.not_mem_nil, or_false]
    intro f hf
    rcases hf with rfl | rfl | rfl | rfl <;> dsimp only <;> omega

end Dds.EncTotal.QuantBits
