/- every 16-bit value survives nearest-binary32: the 16 slices joined -/
import DdsModel.Proofs.QuantFinA1
import DdsModel.Proofs.QuantFinA2
import DdsModel.Proofs.QuantFinA3
import DdsModel.Proofs.QuantFinA4
namespace Dds.Quant
theorem holdsF32U16_all (v : Nat) (hv : v < 65536) : holdsF32U16 v = true := by
  by_cases h0 : v < 4096
  · exact allRange_sound _ 6 0 4096 holdsF32U16_s0 v (by omega) (by omega)
  by_cases h1 : v < 8192
  · exact allRange_sound _ 6 4096 4096 holdsF32U16_s1 v (by omega) (by omega)
  by_cases h2 : v < 12288
  · exact allRange_sound _ 6 8192 4096 holdsF32U16_s2 v (by omega) (by omega)
  by_cases h3 : v < 16384
  · exact allRange_sound _ 6 12288 4096 holdsF32U16_s3 v (by omega) (by omega)
  by_cases h4 : v < 20480
  · exact allRange_sound _ 6 16384 4096 holdsF32U16_s4 v (by omega) (by omega)
  by_cases h5 : v < 24576
  · exact allRange_sound _ 6 20480 4096 holdsF32U16_s5 v (by omega) (by omega)
  by_cases h6 : v < 28672
  · exact allRange_sound _ 6 24576 4096 holdsF32U16_s6 v (by omega) (by omega)
  by_cases h7 : v < 32768
  · exact allRange_sound _ 6 28672 4096 holdsF32U16_s7 v (by omega) (by omega)
  by_cases h8 : v < 36864
  · exact allRange_sound _ 6 32768 4096 holdsF32U16_s8 v (by omega) (by omega)
  by_cases h9 : v < 40960
  · exact allRange_sound _ 6 36864 4096 holdsF32U16_s9 v (by omega) (by omega)
  by_cases h10 : v < 45056
  · exact allRange_sound _ 6 40960 4096 holdsF32U16_s10 v (by omega) (by omega)
  by_cases h11 : v < 49152
  · exact allRange_sound _ 6 45056 4096 holdsF32U16_s11 v (by omega) (by omega)
  by_cases h12 : v < 53248
  · exact allRange_sound _ 6 49152 4096 holdsF32U16_s12 v (by omega) (by omega)
  by_cases h13 : v < 57344
  · exact allRange_sound _ 6 53248 4096 holdsF32U16_s13 v (by omega) (by omega)
  by_cases h14 : v < 61440
  · exact allRange_sound _ 6 57344 4096 holdsF32U16_s14 v (by omega) (by omega)
  by_cases h15 : v < 65536
  · exact allRange_sound _ 6 61440 4096 holdsF32U16_s15 v (by omega) (by omega)
  omega
end Dds.Quant
