/-
C13, BC7 single colours: the mode-5 bit-field layout of `Enc13.bc7Single` (`compress_single_color` +
`Compressed::mode5` + `BitStream::write_u64`, src/encode/bc7.rs) read back by the BC7 decoder.

`bc7Single r g b a` is shown to be the SUM of its ten fields at the positions 5, 8, 15, …, 97 (the fields are
disjoint, so every `|` of `write_u64` is a `+`), every field is read back positionally (`Bc7Spec.rd`), and the
whole block decodes — through `Bc7.decodeBlock = Bc7Spec.decodeBlock` (C03x) — to 16 × (r, g, b, a),
for ALL 2³² colours.
-/
import DdsModel.Enc13
import DdsModel.Proofs.Bc7Glue
import DdsModel.Proofs.BcFinite
namespace Dds.Enc13
open Dds Dds.Bc Dds.BcTables Dds.Bc7Spec

/-! ### `write_u64` on disjoint fields is addition -/

theorem or_shl_eq_add (x v k : Nat) (h : x < 2 ^ k) : x ||| v <<< k = x + v * 2 ^ k := by
  rw [Nat.or_comm, ← Nat.shiftLeft_add_eq_or_of_lt h, Nat.shiftLeft_eq, Nat.add_comm]

theorem compressP1_constant1 : compressP1 constant1 = (0x2AAAAAAB, false) := by decide

/-- the ten fields of the mode-5 block at their bit positions -/
def bc7SingleSum (r0 r1 g0 g1 b0 b1 a : Nat) : Nat :=
  32 + r0 * 2 ^ 8 + r1 * 2 ^ 15 + g0 * 2 ^ 22 + g1 * 2 ^ 29 + b0 * 2 ^ 36 + b1 * 2 ^ 43 + a * 2 ^ 50 + a * 2 ^ 58 +
    0x2AAAAAAB * 2 ^ 66 + 0x2AAAAAAB * 2 ^ 97

theorem optimize_lt (c : Nat) (hc : c ≤ 255) : (optimize c).1 < 128 ∧ (optimize c).2 < 128 := by
  unfold optimize w8
  simp only [Nat.shiftRight_eq_div_pow]
  constructor
  · omega
  · split <;> omega

/-- `BitStream` writes of `Compressed::mode5` = the sum of the fields (needs only that every field fits) -/
theorem bc7Single_eq_sum (r g b a : Nat) (hr : r ≤ 255) (hg : g ≤ 255) (hb : b ≤ 255) (ha : a ≤ 255) :
    bc7Single r g b a =
      bc7SingleSum (optimize r).1 (optimize r).2 (optimize g).1 (optimize g).2 (optimize b).1 (optimize b).2 a := by
  obtain ⟨hr0, hr1⟩ := optimize_lt r hr
  obtain ⟨hg0, hg1⟩ := optimize_lt g hg
  obtain ⟨hb0, hb1⟩ := optimize_lt b hb
  unfold bc7Single bc7SingleSum
  simp only [compressP1_constant1, Bool.false_eq_true, if_false, Nat.zero_or, Nat.shiftLeft_zero, Nat.zero_add,
    Nat.zero_shiftLeft, Nat.or_zero]
  generalize (optimize r).1 = r0 at hr0 ⊢
  generalize (optimize r).2 = r1 at hr1 ⊢
  generalize (optimize g).1 = g0 at hg0 ⊢
  generalize (optimize g).2 = g1 at hg1 ⊢
  generalize (optimize b).1 = b0 at hb0 ⊢
  generalize (optimize b).2 = b1 at hb1 ⊢
  have e0 : (1 : Nat) <<< 5 = 32 := by decide
  rw [e0]
  rw [or_shl_eq_add _ r0 8 (by omega)]
  rw [or_shl_eq_add _ r1 15 (by omega)]
  rw [or_shl_eq_add _ g0 22 (by omega)]
  rw [or_shl_eq_add _ g1 29 (by omega)]
  rw [or_shl_eq_add _ b0 36 (by omega)]
  rw [or_shl_eq_add _ b1 43 (by omega)]
  rw [or_shl_eq_add _ a 50 (by omega)]
  rw [or_shl_eq_add _ a 58 (by omega)]
  rw [or_shl_eq_add _ _ 66 (by omega)]
  rw [or_shl_eq_add _ _ 97 (by omega)]


/-! ### positional reads of a sum of fields -/

/-- a field `f < 2^n` standing at bit `pos` above `L < 2^pos` is what `rd` returns -/
theorem rd_field (B L f rest pos n : Nat) (hB : B = L + 2 ^ pos * (f + 2 ^ n * rest)) (hL : L < 2 ^ pos)
    (hf : f < 2 ^ n) : rd B pos n = f := by
  subst hB
  unfold rd
  rw [Nat.add_mul_div_left _ _ (Nat.two_pow_pos pos), Nat.div_eq_of_lt hL, Nat.zero_add,
    Nat.add_mul_mod_self_left, Nat.mod_eq_of_lt hf]

/-- reads above a low part only see the high part -/
theorem rd_high (L H k q n : Nat) (hL : L < 2 ^ k) : rd (L + 2 ^ k * H) (k + q) n = rd H q n := by
  unfold rd
  rw [Nat.pow_add, ← Nat.div_div_eq_div_mul, Nat.add_mul_div_left _ _ (Nat.two_pow_pos k), Nat.div_eq_of_lt hL,
    Nat.zero_add]

/-- the two index words of `compress_single_color` as one constant: `compress_p1(constant(1))` twice -/
def IDX : Nat := 0x2AAAAAAB + 2 ^ 31 * 0x2AAAAAAB

section fields
variable (r0 r1 g0 g1 b0 b1 a : Nat)

theorem sum_split : bc7SingleSum r0 r1 g0 g1 b0 b1 a =
    (32 + r0 * 2 ^ 8 + r1 * 2 ^ 15 + g0 * 2 ^ 22 + g1 * 2 ^ 29 + b0 * 2 ^ 36 + b1 * 2 ^ 43 + a * 2 ^ 50 + a * 2 ^ 58) +
      2 ^ 66 * IDX := by
  unfold bc7SingleSum IDX; omega

variable (h1 : r0 < 128) (h2 : r1 < 128) (h3 : g0 < 128) (h4 : g1 < 128) (h5 : b0 < 128) (h6 : b1 < 128)
  (h7 : a < 256)
include h1 h2 h3 h4 h5 h6 h7

theorem sum_low_lt :
    32 + r0 * 2 ^ 8 + r1 * 2 ^ 15 + g0 * 2 ^ 22 + g1 * 2 ^ 29 + b0 * 2 ^ 36 + b1 * 2 ^ 43 + a * 2 ^ 50 + a * 2 ^ 58 <
      2 ^ 66 := by omega

omit h1 h2 h3 h4 h5 h6 h7 in
/-- mode bits: the low byte is `0b00100000` -/
theorem sum_mode : modeOf (bc7SingleSum r0 r1 g0 g1 b0 b1 a) = 5 := by
  rw [Bc7.modeOf_mod]
  have : bc7SingleSum r0 r1 g0 g1 b0 b1 a % 256 = 32 := by unfold bc7SingleSum; omega
  rw [this]; decide

/-- every header field of the mode-5 block, read positionally -/
theorem sum_fields :
    rd (bc7SingleSum r0 r1 g0 g1 b0 b1 a) 6 2 = 0 ∧
    rd (bc7SingleSum r0 r1 g0 g1 b0 b1 a) 8 7 = r0 ∧ rd (bc7SingleSum r0 r1 g0 g1 b0 b1 a) 15 7 = r1 ∧
    rd (bc7SingleSum r0 r1 g0 g1 b0 b1 a) 22 7 = g0 ∧ rd (bc7SingleSum r0 r1 g0 g1 b0 b1 a) 29 7 = g1 ∧
    rd (bc7SingleSum r0 r1 g0 g1 b0 b1 a) 36 7 = b0 ∧ rd (bc7SingleSum r0 r1 g0 g1 b0 b1 a) 43 7 = b1 ∧
    rd (bc7SingleSum r0 r1 g0 g1 b0 b1 a) 50 8 = a ∧ rd (bc7SingleSum r0 r1 g0 g1 b0 b1 a) 58 8 = a := by
  refine ⟨?_, ?_, ?_, ?_, ?_, ?_, ?_, ?_, ?_⟩
  · exact rd_field _ 32 0 (r0 + r1 * 2 ^ 7 + g0 * 2 ^ 14 + g1 * 2 ^ 21 + b0 * 2 ^ 28 + b1 * 2 ^ 35 + a * 2 ^ 42 + a * 2 ^ 50 +
      0x2AAAAAAB * 2 ^ 58 + 0x2AAAAAAB * 2 ^ 89) 6 2 (by unfold bc7SingleSum; omega) (by omega) (by omega)
  · exact rd_field _ 32 r0 (r1 + g0 * 2 ^ 7 + g1 * 2 ^ 14 + b0 * 2 ^ 21 + b1 * 2 ^ 28 + a * 2 ^ 35 + a * 2 ^ 43 +
      0x2AAAAAAB * 2 ^ 51 + 0x2AAAAAAB * 2 ^ 82) 8 7 (by unfold bc7SingleSum; omega) (by omega) (by omega)
  · exact rd_field _ (32 + r0 * 2 ^ 8) r1 (g0 + g1 * 2 ^ 7 + b0 * 2 ^ 14 + b1 * 2 ^ 21 + a * 2 ^ 28 + a * 2 ^ 36 +
      0x2AAAAAAB * 2 ^ 44 + 0x2AAAAAAB * 2 ^ 75) 15 7 (by unfold bc7SingleSum; omega) (by omega) (by omega)
  · exact rd_field _ (32 + r0 * 2 ^ 8 + r1 * 2 ^ 15) g0 (g1 + b0 * 2 ^ 7 + b1 * 2 ^ 14 + a * 2 ^ 21 + a * 2 ^ 29 +
      0x2AAAAAAB * 2 ^ 37 + 0x2AAAAAAB * 2 ^ 68) 22 7 (by unfold bc7SingleSum; omega) (by omega) (by omega)
  · exact rd_field _ (32 + r0 * 2 ^ 8 + r1 * 2 ^ 15 + g0 * 2 ^ 22) g1 (b0 + b1 * 2 ^ 7 + a * 2 ^ 14 + a * 2 ^ 22 +
      0x2AAAAAAB * 2 ^ 30 + 0x2AAAAAAB * 2 ^ 61) 29 7 (by unfold bc7SingleSum; omega) (by omega) (by omega)
  · exact rd_field _ (32 + r0 * 2 ^ 8 + r1 * 2 ^ 15 + g0 * 2 ^ 22 + g1 * 2 ^ 29) b0 (b1 + a * 2 ^ 7 + a * 2 ^ 15 +
      0x2AAAAAAB * 2 ^ 23 + 0x2AAAAAAB * 2 ^ 54) 36 7 (by unfold bc7SingleSum; omega) (by omega) (by omega)
  · exact rd_field _ (32 + r0 * 2 ^ 8 + r1 * 2 ^ 15 + g0 * 2 ^ 22 + g1 * 2 ^ 29 + b0 * 2 ^ 36) b1 (a + a * 2 ^ 8 +
      0x2AAAAAAB * 2 ^ 16 + 0x2AAAAAAB * 2 ^ 47) 43 7 (by unfold bc7SingleSum; omega) (by omega) (by omega)
  · exact rd_field _ (32 + r0 * 2 ^ 8 + r1 * 2 ^ 15 + g0 * 2 ^ 22 + g1 * 2 ^ 29 + b0 * 2 ^ 36 + b1 * 2 ^ 43) a (a +
      0x2AAAAAAB * 2 ^ 8 + 0x2AAAAAAB * 2 ^ 39) 50 8 (by unfold bc7SingleSum; omega) (by omega) (by omega)
  · exact rd_field _ (32 + r0 * 2 ^ 8 + r1 * 2 ^ 15 + g0 * 2 ^ 22 + g1 * 2 ^ 29 + b0 * 2 ^ 36 + b1 * 2 ^ 43 + a * 2 ^ 50) a
      (0x2AAAAAAB + 0x2AAAAAAB * 2 ^ 31) 58 8 (by unfold bc7SingleSum; omega) (by omega) (by omega)

/-- every index field (bit 66 and above) is a read of the constant `IDX` -/
theorem sum_index (q n : Nat) : rd (bc7SingleSum r0 r1 g0 g1 b0 b1 a) (66 + q) n = rd IDX q n := by
  rw [sum_split]
  exact rd_high _ _ 66 q n (sum_low_lt r0 r1 g0 g1 b0 b1 a h1 h2 h3 h4 h5 h6 h7)

end fields

/-! ### the decoder on a mode-5 block whose index fields are those of `compress_single_color` -/

open Dds.Bc7 in
/-- both 2-bit index lists read back as `constant(1)` at every pixel (the anchor's implicit top bit is 0) -/
theorem index_const (B part i : Nat) (hi : i < 16) (hidx : ∀ q n, rd B (66 + q) n = rd IDX q n) :
    index1 5 r5 B part i = 1 ∧ index2 5 r5 B i = 1 := by
  constructor
  · obtain ⟨ha, _⟩ := anchors1 r5.subsets part i (by decide) (by decide) hi
    unfold index1
    rw [ha, isAnchor1 r5.subsets part i (by decide) (by decide)]
    have e : idxStart 5 r5 + i * r5.idxBits - (if 0 < i then 1 else 0) = 66 + (i * 2 - (if 0 < i then 1 else 0)) := by
      show 66 + i * 2 - _ = _
      split <;> omega
    rw [e, hidx]
    have : ∀ i, i < 16 → rd IDX (i * 2 - (if 0 < i then 1 else 0))
        (if decide (i = 0) = true then r5.idxBits - 1 else r5.idxBits) = 1 := by decide
    exact this i hi
  · unfold index2
    by_cases h0 : i = 0
    · rw [if_pos h0]
      show rd B (66 + 31) 1 = 1
      rw [hidx]; decide
    · rw [if_neg h0]
      have e : idx2Start 5 r5 + i * r5.idx2Bits - 1 = 66 + (30 + i * 2) := by
        show 97 + i * 2 - 1 = _
        omega
      rw [e, hidx]
      have : ∀ i, i < 16 → i ≠ 0 → rd IDX (30 + i * 2) r5.idx2Bits = 1 := by decide
      exact this i hi h0

open Dds.Bc7 in
/-- endpoints of a mode-5 block: 7-bit colour fields widened by replication, 8-bit alpha fields as they are -/
theorem endpoint5 (B e c : Nat) :
    endpoint 5 r5 B e c = if c = 3 then rd B (50 + e * 8) 8 else expand 7 (rd B (8 + (c * 2 + e) * 7) 7) := by
  by_cases hc : c = 3
  · subst hc
    simp only [endpoint, r5, colorStart, alphaStart, pStart, Nat.reduceAdd, Nat.reduceMul, Nat.reduceEqDiff,
      true_and, if_true, if_false, expand8_rd]
  · simp only [endpoint, r5, colorStart, alphaStart, pStart, Nat.reduceAdd, Nat.reduceMul, Nat.reduceEqDiff, hc,
      false_and, if_false]

theorem replicate16 {α : Type} (x : α) : List.replicate 16 x = (List.range 16).map fun _ => x := rfl

open Dds.Bc7 in
/-- the specification decoder on the sum of fields -/
theorem spec_decode_sum (r0 r1 g0 g1 b0 b1 a : Nat) (h1 : r0 < 128) (h2 : r1 < 128) (h3 : g0 < 128) (h4 : g1 < 128)
    (h5 : b0 < 128) (h6 : b1 < 128) (h7 : a < 256) :
    Bc7Spec.decodeBlock (bc7SingleSum r0 r1 g0 g1 b0 b1 a) =
      List.replicate 16 [interp (expand 7 r0) (expand 7 r1) 21, interp (expand 7 g0) (expand 7 g1) 21,
        interp (expand 7 b0) (expand 7 b1) 21, interp a a 21] := by
  rw [spec_decodeBlock_mode _ 5 r5 (sum_mode r0 r1 g0 g1 b0 b1 a) rfl, replicate16]
  unfold decodeMode
  apply map_range16_congr
  intro i hi
  obtain ⟨f0, f1, f2, f3, f4, f5, f6, f7, f8⟩ := sum_fields r0 r1 g0 g1 b0 b1 a h1 h2 h3 h4 h5 h6 h7
  obtain ⟨i1, i2⟩ := index_const (bc7SingleSum r0 r1 g0 g1 b0 b1 a) (rd (bc7SingleSum r0 r1 g0 g1 b0 b1 a) 6 r5.partBits)
    i hi (sum_index r0 r1 g0 g1 b0 b1 a h1 h2 h3 h4 h5 h6 h7)
  have e1 : specSubset r5.subsets (rd (bc7SingleSum r0 r1 g0 g1 b0 b1 a) 6 r5.partBits) i = 0 := specSubset1 _ _
  have e3 : rd (bc7SingleSum r0 r1 g0 g1 b0 b1 a) (5 + 1 + r5.partBits) r5.rotBits = 0 := f0
  have e4 : r5.idx2Bits = 2 := rfl
  have e5 : rd (bc7SingleSum r0 r1 g0 g1 b0 b1 a) (5 + 1 + r5.partBits + r5.rotBits) r5.selBits = 0 := rd_zero _ _
  have e6 : (specWeights r5.idxBits).getD 1 0 = 21 := rfl
  have e7 : (specWeights 2).getD 1 0 = 21 := rfl
  simp only [e1, i1, i2, e3, e4, e5, e6, e7, endpoint5, Nat.mul_zero, Nat.zero_add, Nat.reduceEqDiff, if_false, if_true,
    Nat.reduceMul, Nat.reduceAdd, Nat.zero_mul, Nat.add_zero, Nat.one_mul, f1, f2, f3, f4, f5, f6, f7, f8, rotate,
    Nat.zero_ne_one]

/-- channel level at the specification's scale, all 256 values -/
theorem channel_exact_spec : ∀ c, c ≤ 255 → interp (expand 7 (optimize c).1) (expand 7 (optimize c).2) 21 = c := by
  intro c hc
  have h := Bc.allUpTo (fun c => decide (interp (expand 7 (optimize c).1) (expand 7 (optimize c).2) 21 = c)) 255
    (by decide +kernel) c hc
  exact of_decide_eq_true h

theorem alpha_exact_spec (a w : Nat) (hw : w ≤ 64) : interp a a w = a := by
  unfold interp
  have : (64 - w) * a + w * a = 64 * a := by rw [← Nat.add_mul]; congr 1; omega
  omega

/-- `decode (compress_single_color (r, g, b, a)) = 16 × (r, g, b, a)` for ALL 2³² colours -/
theorem bc7Single_decodes (r g b a : Nat) (hr : r ≤ 255) (hg : g ≤ 255) (hb : b ≤ 255) (ha : a ≤ 255) :
    Bc7.decodeBlock (bc7Single r g b a) = List.replicate 16 [r, g, b, a] := by
  obtain ⟨hr0, hr1⟩ := optimize_lt r hr
  obtain ⟨hg0, hg1⟩ := optimize_lt g hg
  obtain ⟨hb0, hb1⟩ := optimize_lt b hb
  rw [bc7Single_eq_sum r g b a hr hg hb ha, Bc7.decodeBlock_eq,
    spec_decode_sum _ _ _ _ _ _ a hr0 hr1 hg0 hg1 hb0 hb1 (by omega),
    channel_exact_spec r hr, channel_exact_spec g hg, channel_exact_spec b hb, alpha_exact_spec a 21 (by decide)]

end Dds.Enc13
