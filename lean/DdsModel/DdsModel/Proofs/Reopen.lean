/-
Helper lemmas for `C10.reopen`: no decoder call changes the layout the decoder was created
for, and the data length a fresh iterator walks is C02's specification total.
-/
import DdsModel.Theorems.C08
import DdsModel.Theorems.C11
namespace Dds.C08
open Dds

theorem readSurface_layout (d : Dec) (w h : Nat) : (d.readSurface w h).1.layout = d.layout := by
  unfold Dec.readSurface
  split
  · rfl
  · rfl
  · split
    · rfl
    · split
      · rfl
      · split <;> rfl

theorem skipMipmaps_layout (d : Dec) : d.skipMipmaps.1.layout = d.layout := by
  unfold Dec.skipMipmaps
  split <;> rfl

theorem cubeLoop_layout (faces fw fh : Nat) : ∀ (l : List (Nat × Nat × Nat)) (d : Dec) (cells : List (Nat × Nat)),
    (d.cubeLoop faces fw fh l cells).1.layout = d.layout := by
  intro l
  induction l with
  | nil => intro d cells; rfl
  | cons f rest ih =>
    intro d cells
    obtain ⟨bit, x, y⟩ := f
    unfold Dec.cubeLoop
    by_cases hf : (!hasFace faces bit) = true
    · rw [if_pos hf]; exact ih d cells
    · rw [if_neg hf]
      split
      · rfl
      · rfl
      · split
        · rfl
        · have h1 := readSurface_layout d fw fh
          cases hrs : d.readSurface fw fh with
          | mk d1 r =>
            rw [hrs] at h1
            have e1 : d1.layout = d.layout := h1
            cases r <;> simp only <;> try exact e1
            have h2 := skipMipmaps_layout d1
            cases hsk : d1.skipMipmaps with
            | mk d2 r2 =>
              rw [hsk] at h2
              have e2 : d2.layout = d1.layout := h2
              cases r2 <;> simp only <;> first | (rw [ih d2 _, e2, e1]) | (rw [e2, e1])

theorem step_layout (d : Dec) (op : DecOp) : (d.step op).1.layout = d.layout := by
  cases op with
  | read w h => simp only [Dec.step]; exact readSurface_layout d w h
  | readRect ox oy w h =>
    simp only [Dec.step]
    split
    · rfl
    · rfl
    · split
      · rfl
      · split
        · rfl
        · split <;> rfl
  | skipSurface =>
    simp only [Dec.step]
    split
    · rfl
    · rfl
    · split <;> rfl
  | skipMipmaps => simp only [Dec.step]; exact skipMipmaps_layout d
  | rewindPrev =>
    simp only [Dec.step]
    split
    · split
      · rfl
      · split <;> rfl
    · rfl
  | rewindStart =>
    simp only [Dec.step]
    split
    · rfl
    · split <;> rfl
  | readCubeMap w h =>
    simp only [Dec.step]
    unfold Dec.readCubeMap
    split
    · simp only
      split
      · rfl
      · split
        · rfl
        · exact cubeLoop_layout _ _ _ _ d []
    · rfl

theorem run_layout (ops : List DecOp) : ∀ d : Dec, (run d ops).1.layout = d.layout := by
  induction ops with
  | nil => intro d; rfl
  | cons op rest ih =>
    intro d
    simp only [run]
    rw [ih, step_layout]

/-- the data length a fresh iterator of an accepted layout walks is C02's ideal total -/
theorem total_new (hd : LayoutHeader) (px : PixelInfo) (hp : px.WF) (hr : C02.HeaderInRange hd)
    (L : DataLayout) (h : layoutOf hd px = some (.ok L)) :
    total (SurfIter.new L) = C02.specTotal L := by
  obtain ⟨_, _, _, _, _, harr⟩ := C02.layoutOf_valid hd px hp hr L h
  cases L with
  | texture t =>
    show 1 * texIdeal t.px t.w t.h 0 t.mips = _
    simp [C02.specTotal]
  | volume v => simp [C02.specTotal, total, SurfIter.new]
  | textureArray a =>
    have hal := harr a rfl
    show (a.arrayLen % U32) * texIdeal a.px a.w a.h 0 a.mips = _
    rw [Nat.mod_eq_of_lt hal]
    simp [C02.specTotal]

end Dds.C08
