/-
C15 (encoder loops, part 3): `SplitView`, `ImageView::cropped`, `encode_parallel` and the dispatch from C19's
encoder table are trap-free (mirrors: `TrapEncSplit.lean`).
-/
import DdsModel.TrapEncSplit
import DdsModel.Proofs.TrapEncBlk
import DdsModel.Proofs.Split
import DdsModel.Theorems.C10
namespace Dds.TrapEnc
open Dds Dds.Trap

/-! ## `get_fragment_height`, `SplitView::new` -/

/-- the `u64` division / multiplication chain of `get_fragment_height` neither divides by zero nor overflows, and
the trapping function agrees with the wrapping model of C14 -/
theorem getFragmentHeightT_eq (w h : Nat) (sup : Option Support) (dith : Dithering) (q : Quality)
    (hwf : ∀ s, sup = some s → s.WF) :
    getFragmentHeightT w h sup dith q = some (getFragmentHeight w h sup dith q) := by
  unfold getFragmentHeightT getFragmentHeight
  by_cases he : w = 0 ∨ h = 0
  · rw [if_pos he, if_pos he]
  rw [if_neg he, if_neg he]
  cases sup with
  | none => rfl
  | some s =>
    simp only
    cases hsh : s.splitHeight with
    | none => rfl
    | some sh =>
      simp only
      obtain ⟨hsh0, _⟩ := hwf s rfl sh hsh
      by_cases hd : ((!s.localDithering) && decide (dith.intersect s.dithering ≠ .none)) = true
      · rw [if_pos hd, if_pos hd]
      rw [if_neg hd, if_neg hd]
      by_cases hp : max (s.fragmentSize.getPreferred q) 1 ≥ w * h
      · rw [if_pos hp, if_pos hp]
      rw [if_neg hp, if_neg hp]
      have hfp := getPreferred_lt s.fragmentSize q
      have hU : U64 = 18446744073709551616 := rfl
      have hle : (max (s.fragmentSize.getPreferred q) 1 / w) / sh * sh
          ≤ max (s.fragmentSize.getPreferred q) 1 :=
        Nat.le_trans (Nat.div_mul_le_self _ _) (Nat.div_le_self _ _)
      have hlt : (max (s.fragmentSize.getPreferred q) 1 / w) / sh * sh < 18446744073709551616 := by omega
      rw [div_of_ne (by omega), bind_some', div_of_ne (by omega), bind_some', mulU_of_lt hlt, bind_some',
        wMul_eq (by rw [hU]; exact hlt)]
      cases tryU32 ((max (s.fragmentSize.getPreferred q) 1 / w) / sh * sh) <;> rfl

theorem SplitView.newT_eq (w h : Nat) (sup : Option Support) (dith : Dithering) (q : Quality)
    (hwf : ∀ s, sup = some s → s.WF) :
    SplitView.newT w h sup dith q = some (SplitView.new w h sup dith q) := by
  unfold SplitView.newT SplitView.new
  rw [getFragmentHeightT_eq w h sup dith q hwf, bind_some']
  cases hg : getFragmentHeight w h sup dith q with
  | none => rfl
  | some fh =>
    simp only
    obtain ⟨s, sh, k, _, _, hsh0, hk, hF, _⟩ := (getFragmentHeight_some hwf hg).facts
    have : fh ≠ 0 := by
      have : 1 * 1 ≤ k * sh := Nat.mul_le_mul hk hsh0
      omega
    rw [divCeilU_of_ne this, bind_some', pure_some']

/-! ## `ImageView::cropped` -/

/-- a non-empty rectangle inside a view: no `usize` operation overflows, the slice is inside the data, and the crop
is again a view the encoders accept (same pitch, same colour) -/
theorem croppedT_eq {v : View} {c : Color} (hv : VOK v c) (ox oy w h : Nat) (hin : ox + w ≤ v.w ∧ oy + h ≤ v.h)
    (hne : ¬ (w = 0 ∨ h = 0)) :
    ∃ f, croppedT v ox oy w h = some f ∧ VOK f c ∧ f.w = w ∧ f.h = h ∧ f.pitch = v.pitch := by
  have hvne : ¬ (v.w = 0 ∨ v.h = 0) := by omega
  have hlen := hv.inv.len_eq hvne
  have hl := hv.len
  have hI : I64MAX = 9223372036854775807 := rfl
  have hU : U32 = 4294967296 := rfl
  have hpg := hv.inv.pitch_ge
  have hvw := hv.inv.w_lt
  have hvh := hv.inv.h_lt
  have hb16 := hv.inv.bpp_le
  have h1 : (oy + (h - 1)) * v.pitch ≤ (v.h - 1) * v.pitch := Nat.mul_le_mul_right _ (by omega)
  have h2 : (ox + w) * v.bpp ≤ v.w * v.bpp := Nat.mul_le_mul_right _ hin.1
  rw [Nat.add_mul] at h1 h2
  have hend : oy * v.pitch + ox * v.bpp + (h - 1) * v.pitch + w * v.bpp ≤ v.len := by
    rw [hlen, Nat.mul_comm v.pitch]; omega
  have hc : v.containsRect ox oy w h = true := by
    unfold View.containsRect; simp [hin.1, hin.2]
  have hsub : oy * v.pitch + ox * v.bpp + (h - 1) * v.pitch + w * v.bpp - (oy * v.pitch + ox * v.bpp) =
      v.pitch * (h - 1) + w * v.bpp := by rw [Nat.mul_comm v.pitch]; omega
  refine ⟨⟨v.base + (oy * v.pitch + ox * v.bpp), v.pitch * (h - 1) + w * v.bpp, w, h, v.bpp, v.pitch⟩, ?_,
    ⟨⟨hv.inv.bpp_pos, hb16, by show w < U32; omega, by show h < U32; omega,
        by show v.pitch * (h - 1) + w * v.bpp < U64; rw [← hsub]; unfold U64; omega,
        fun h' => absurd h' hne, ?_, fun _ => rfl⟩, hv.bpp, ?_, hv.pitch⟩, rfl, rfl, rfl⟩
  · unfold croppedT
    rw [dbgP_of hc, bind_some', if_neg hne]
    enc_simp [hsub]
  · show w * v.bpp ≤ v.pitch
    have : w * v.bpp ≤ (ox + w) * v.bpp := Nat.mul_le_mul_right _ (by omega)
    rw [Nat.add_mul] at this; omega
  · show v.pitch * (h - 1) + w * v.bpp ≤ I64MAX
    rw [← hsub]; omega

/-! ## `SplitView::get` -/

/-- every fragment of a split view: the `u32` product `index * fragment_height` does not overflow,
`debug_assert!(start_y < height)` holds, `end_y - start_y` does not underflow, the crop is inside the image, and the
fragment is a non-empty full-width view with the parent's pitch; beyond `len` the answer is `None`.  The rows are
those of C14's (wrapping) model. -/
theorem SplitView.getT_eq {v : View} {c : Color} (hv : VOK v c) (sup : Option Support) (dith : Dithering) (q : Quality)
    (hwf : ∀ s, sup = some s → s.WF) (i : Nat) :
    let s := SplitView.new v.w v.h sup dith q
    (s.len ≤ i → SplitView.getT s v i = some none) ∧
    (i < s.len → ∃ f, SplitView.getT s v i = some (some f) ∧ VOK f c ∧ f.w = v.w ∧ f.pitch = v.pitch ∧
      ∃ y, s.get i = some (y, f.h) ∧ y + f.h ≤ v.h ∧ (s.fragmentHeight ≠ none → 0 < f.h) ∧
        ∀ fh, s.fragmentHeight = some fh → y = i * fh ∧ f.h ≤ fh) := by
  intro s
  have hh := hv.inv.h_lt
  have hU : U32 = 4294967296 := rfl
  constructor
  · intro hi
    unfold SplitView.getT
    rw [if_pos hi]
  · intro hi
    cases hg : getFragmentHeight v.w v.h sup dith q with
    | none =>
      have hs : s = ⟨v.w, v.h, 1, none⟩ := by
        show SplitView.new v.w v.h sup dith q = _
        unfold SplitView.new; rw [hg]
      rw [hs] at hi ⊢
      have hi0 : i = 0 := by
        have : i < 1 := hi
        omega
      subst hi0
      refine ⟨v, ?_, hv, rfl, rfl, 0, ?_, by omega, fun h => absurd rfl h, fun fh h => by cases h⟩
      · unfold SplitView.getT; simp
      · unfold SplitView.get; simp
    | some fh =>
      have hs : s = ⟨v.w, v.h, divCeil v.h fh, some fh⟩ := by
        show SplitView.new v.w v.h sup dith q = _
        unfold SplitView.new; rw [hg]
      have sp := getFragmentHeight_some hwf hg
      obtain ⟨_, sh, k, _, _, hsh0, hk, hF, _⟩ := sp.facts
      have hfh : 0 < fh := by
        have : 1 * 1 ≤ k * sh := Nat.mul_le_mul hk hsh0
        omega
      rw [hs] at hi ⊢
      have hi' : i < divCeil v.h fh := hi
      have hst := start_lt hfh hi'
      have hmin : min (satAdd32 (i * fh) fh) v.h = min (i * fh + fh) v.h := by
        unfold satAdd32
        by_cases hc : i * fh + fh < U32
        · rw [if_pos hc]
        · rw [if_neg hc]; omega
      have hfrag : 0 < min (i * fh + fh) v.h - i * fh := by omega
      obtain ⟨f, hf, hvf, hfw, hfh', hfp⟩ := croppedT_eq hv 0 (i * fh) v.w (min (i * fh + fh) v.h - i * fh)
        ⟨by omega, by omega⟩ (by have := sp.w_pos; omega)
      refine ⟨f, ?_, hvf, hfw, hfp, i * fh, ?_, by rw [hfh']; omega, fun _ => by rw [hfh']; exact hfrag,
        fun fh' h' => ?_⟩
      · unfold SplitView.getT
        simp only
        rw [if_neg (by omega), mulU32_of_lt (by omega), bind_some', hmin, dbgP_of hst, bind_some',
          subU_of_le (by omega), bind_some', hf, bind_some', pure_some']
      · rw [get_split hh hfh hi' rfl, hfh']
        congr 2
        omega
      · simp only [Option.some.injEq] at h'
        subst h'
        exact ⟨rfl, by rw [hfh']; omega⟩

/-! ## `encode_parallel` -/

theorem sum_map_le_of_bound {α} (l : List α) (g : α → Nat) (b : Nat) (h : ∀ x ∈ l, g x ≤ b) :
    (l.map g).sum ≤ l.length * b := by
  induction l with
  | nil => simp
  | cons a r ih =>
    rw [List.map_cons, List.sum_cons, List.length_cons, Nat.add_mul, Nat.one_mul]
    have := h a (List.mem_cons_self ..)
    have := ih (fun x hx => h x (List.mem_cons_of_mem _ hx))
    omega

/-- the heights of the fragments `0 … n-1` of a split with nominal height `F` add up to at most `h` -/
theorem sum_fragment_heights (F h : Nat) : ∀ n, ((List.range n).map fun i => min F (h - i * F)).sum ≤ h - 0 ∧
    ((List.range n).map fun i => min F (h - i * F)).sum = min (n * F) h := by
  intro n
  induction n with
  | zero => simp
  | succ n ih =>
    rw [List.range_succ, List.map_append, List.sum_append, ih.2]
    simp only [List.map_cons, List.map_nil, List.sum_cons, List.sum_nil, Nat.add_zero]
    rw [Nat.add_mul, Nat.one_mul]
    constructor <;> omega

/-- **`encode_parallel`** for a sequential encoder `bodyT` that is trap-free on every full-width view and writes
the `surface_bytes` of that view (what `encode_loops_trapfree` shows for every family), when the encoded size of a
fragment fits `isize` (`hsurf`): every `split.get(i)` is `Some`, `Vec::with_capacity(bytes)` does not overflow,
`debug_assert_eq!(buffer.len(), bytes)` holds for every fragment, the progress total `height + 1` is never exceeded
by the submitted heights, and the writes are the fragments' surface sizes in index order. -/
theorem encodeParallelT_eq {v : View} {c : Color} (hv : VOK v c) (bodyT : View → Option (List Nat)) (px : PixelInfo)
    (hpx : px.WF) (sup : Option Support) (dith : Dithering) (q : Quality) (hwf : ∀ s, sup = some s → s.WF)
    (hbody : ∀ f, VOK f c → f.w = v.w → ∃ ws, bodyT f = some ws ∧ ws.sum = px.surfIdeal f.w f.h)
    (hsurf : ∀ fh, (SplitView.new v.w v.h sup dith q).fragmentHeight = some fh →
      ∀ k, k ≤ fh → px.surfIdeal v.w k ≤ I64MAX) :
    ∃ ws, encodeParallelT bodyT px v sup dith q = some ws ∧
      ((SplitView.new v.w v.h sup dith q).len = 1 → ws.sum = px.surfIdeal v.w v.h) ∧
      ((SplitView.new v.w v.h sup dith q).len ≠ 1 →
        ∃ hs : List Nat, hs.length = (SplitView.new v.w v.h sup dith q).len ∧
          ws = hs.map (px.surfIdeal v.w) ∧
          ∀ i k, (SplitView.new v.w v.h sup dith q).get i = some k → hs[i]? = some k.2) := by
  have hh := hv.inv.h_lt
  have hU : U32 = 4294967296 := rfl
  have hI : I64MAX = 9223372036854775807 := rfl
  unfold encodeParallelT
  rw [SplitView.newT_eq _ _ _ _ _ hwf, bind_some']
  generalize hs : SplitView.new v.w v.h sup dith q = s at *
  by_cases h1 : s.len = 1
  · obtain ⟨ws, e1, e2⟩ := hbody v hv rfl
    exact ⟨ws, by rw [if_pos h1, e1], fun _ => e2, fun h => absurd h1 h⟩
  · rw [if_neg h1, addU_of_lt (by omega), bind_some']
    -- more than one fragment: a fragment height was chosen
    have hfhs : s.fragmentHeight ≠ none := by
      intro hn
      apply h1
      rw [← hs] at hn ⊢
      unfold SplitView.new at hn ⊢
      cases hg : getFragmentHeight v.w v.h sup dith q with
      | none => rfl
      | some fh => rw [hg] at hn; simp at hn
    obtain ⟨fh, hfh⟩ : ∃ fh, s.fragmentHeight = some fh := by
      cases h : s.fragmentHeight with
      | none => exact absurd h hfhs
      | some fh => exact ⟨fh, rfl⟩
    -- per fragment
    have hfrag : ∀ i, i < s.len → ∃ k, s.get i = some k ∧ k.2 ≤ fh ∧ k.1 = i * fh ∧
        fragmentT bodyT px s v i = some (px.surfIdeal v.w k.2, k.2) := by
      intro i hi
      have hget := (SplitView.getT_eq hv sup dith q hwf i).2 (by rw [hs]; exact hi)
      rw [hs] at hget
      obtain ⟨f, hf, hvf, hfw, _, y, hy, _, _, hyf⟩ := hget
      obtain ⟨hy1, hy2⟩ := hyf fh hfh
      obtain ⟨ws, e1, e2⟩ := hbody f hvf hfw
      have hb := hsurf fh hfh f.h hy2
      have hsb : px.surfaceBytes f.w f.h = some (px.surfIdeal v.w f.h) := by
        rw [surfaceBytes_eq px hpx, hfw, ckSome_lt (by unfold U64; omega)]
      refine ⟨(y, f.h), hy, hy2, hy1, ?_⟩
      unfold fragmentT
      rw [hf, bind_some']
      simp only [hsb, Option.getD_some]
      rw [allocT_of_le (by omega), bind_some', e1, bind_some', dbgP_of (by rw [e2, hfw]), bind_some', pure_some']
    -- the height of fragment `i` as a function of `i`
    have hgetspec : ∀ i, i < s.len → ∃ k, s.get i = some k ∧ k.2 = min fh (v.h - i * fh) := by
      intro i hi
      have hg : ∃ F, getFragmentHeight v.w v.h sup dith q = some F := by
        cases hg : getFragmentHeight v.w v.h sup dith q with
        | none =>
          exfalso; apply hfhs; rw [← hs]; unfold SplitView.new; rw [hg]
        | some F => exact ⟨F, rfl⟩
      obtain ⟨F, hg⟩ := hg
      have hs' : s = ⟨v.w, v.h, divCeil v.h F, some F⟩ := by
        rw [← hs]; unfold SplitView.new; rw [hg]
      have sp := getFragmentHeight_some hwf hg
      obtain ⟨_, sh, k, _, _, hsh0, hk, hF, _⟩ := sp.facts
      have hF0 : 0 < F := by
        have : 1 * 1 ≤ k * sh := Nat.mul_le_mul hk hsh0
        omega
      have hFfh : F = fh := by
        rw [hs'] at hfh
        simpa using hfh
      subst hFfh
      rw [hs'] at hi ⊢
      exact ⟨_, get_split hh hF0 hi rfl, rfl⟩
    let hsL := (List.range s.len).map fun i => min fh (v.h - i * fh)
    have hmap : mapT (fragmentT bodyT px s v) (List.range s.len) =
        some ((List.range s.len).map fun i => (px.surfIdeal v.w (min fh (v.h - i * fh)), min fh (v.h - i * fh))) := by
      apply mapT_eq_some
      intro i hi
      have hi : i < s.len := List.mem_range.mp hi
      obtain ⟨k, hk, _, _, hk3⟩ := hfrag i hi
      obtain ⟨k', hk', hk2'⟩ := hgetspec i hi
      rw [hk] at hk'
      simp only [Option.some.injEq] at hk'
      subst hk'
      rw [hk3, hk2']
    rw [hmap, bind_some']
    have hsum := (sum_fragment_heights fh v.h s.len).2
    have hsub : (List.map (fun x => x.2)
        (List.map (fun i => (px.surfIdeal v.w (min fh (v.h - i * fh)), min fh (v.h - i * fh))) (List.range s.len))).sum ≤
        v.h := by
      rw [List.map_map]
      have : ((fun x : Nat × Nat => x.2) ∘ fun i => (px.surfIdeal v.w (min fh (v.h - i * fh)), min fh (v.h - i * fh))) =
          fun i => min fh (v.h - i * fh) := rfl
      rw [this, hsum]
      exact Nat.min_le_right _ _
    dsimp only
    rw [dbgP_of (show _ ≤ v.h + 1 ∧ v.h + 1 ≠ 0 from ⟨by omega, by omega⟩), bind_some', pure_some']
    refine ⟨_, rfl, fun h => absurd h h1, fun _ => ⟨hsL, by simp [hsL], ?_, ?_⟩⟩
    · simp only [hsL, List.map_map]
      rfl
    · intro i k hk
      by_cases hi : i < s.len
      · obtain ⟨k', hk', hk2'⟩ := hgetspec i hi
        rw [hk] at hk'
        simp only [Option.some.injEq] at hk'
        subst hk'
        simp only [hsL, List.getElem?_map, List.getElem?_range hi, Option.map_some, hk2']
      · have : s.get i = none := by unfold SplitView.get; rw [if_pos (by omega)]
        rw [this] at hk; cases hk

/-! ## fragments of block-compressed formats -/

/-- what `supportCheck` establishes for one support record -/
def SupOK (s : Support) : Prop :=
  s.WF ∧ (s.fragmentSize = .entireImage ∨ ∀ q, max (s.fragmentSize.getPreferred q) 1 ≤ 281474976710656)

theorem supOK_of_check {name : String} {s : Support} (hs : supportOf name = some (some s))
    (h : supportCheck name = true) : SupOK s := by
  unfold supportCheck at h
  rw [hs] at h
  simp only [Bool.and_eq_true, Bool.or_eq_true, beq_iff_eq, List.all_eq_true, decide_eq_true_eq] at h
  obtain ⟨h1, h2⟩ := h
  refine ⟨?_, ?_⟩
  · intro sh hsh
    rw [hsh] at h1
    simp only [decide_eq_true_eq] at h1
    exact ⟨h1.1, by unfold U8; exact h1.2⟩
  · rcases h2 with h2 | h2
    · exact Or.inl h2
    · right
      intro q
      apply h2
      cases q <;> simp

/-- a format whose preferred fragment is the entire image is never split -/
theorem fragmentHeight_none_of_entire {w h : Nat} {s : Support} (dith : Dithering) (q : Quality) (hw : w < U32)
    (hh : h < U32) (he : s.fragmentSize = .entireImage) : getFragmentHeight w h (some s) dith q = none := by
  unfold getFragmentHeight
  by_cases h0 : w = 0 ∨ h = 0
  · rw [if_pos h0]
  rw [if_neg h0]
  simp only
  cases hsh : s.splitHeight with
  | none => rfl
  | some sh =>
    simp only
    by_cases hd : ((!s.localDithering) && decide (dith.intersect s.dithering ≠ .none)) = true
    · rw [if_pos hd]
    rw [if_neg hd]
    have hfp : s.fragmentSize.getPreferred q = U64 - 1 := by rw [he]; rfl
    have hwh : w * h ≤ 4294967295 * 4294967295 := Nat.mul_le_mul (by unfold U32 at hw; omega) (by unfold U32 at hh; omega)
    rw [if_pos (by rw [hfp]; unfold U64; omega)]

/-- the encoded size of a fragment of a 4×4 block format (at most 16 bytes per block) fits `isize`: a fragment has at
most `fragment_pixels ≤ 2^48` pixels, or is a single row group of the split height -/
theorem block_fragment_surface {w h : Nat} {sup : Option Support} {dith : Dithering} {q : Quality} {bb : Nat}
    (hw : w < U32) (hh : h < U32) (hbb : bb ≤ 16) (hok : ∀ s, sup = some s → SupOK s) :
    ∀ fh, (SplitView.new w h sup dith q).fragmentHeight = some fh →
      ∀ k, k ≤ fh → (PixelInfo.block bb 4 4).surfIdeal w k ≤ I64MAX := by
  intro fh hfh k hk
  have hU : U32 = 4294967296 := rfl
  have hI : I64MAX = 9223372036854775807 := rfl
  have hg : getFragmentHeight w h sup dith q = some fh := by
    unfold SplitView.new at hfh
    cases hg : getFragmentHeight w h sup dith q with
    | none => rw [hg] at hfh; simp at hfh
    | some F => rw [hg] at hfh; simpa using hfh
  have sp := getFragmentHeight_some (fun s hs => (hok s hs).1) hg
  obtain ⟨s, sh, hs, hsh, hsh0, _, hlt, hF⟩ := sp.ex
  have hwpos := sp.w_pos
  obtain ⟨hwf, hfrag⟩ := hok s hs
  have hsh8 := (hwf sh hsh).2
  have hU8 : U8 = 256 := rfl
  -- the preferred size is bounded: the entire-image case does not split
  have hfp : max (s.fragmentSize.getPreferred q) 1 ≤ 281474976710656 := by
    rcases hfrag with he | hb
    · rw [hs, fragmentHeight_none_of_entire dith q hw hh he] at hg; cases hg
    · exact hb q
  generalize hfpd : max (s.fragmentSize.getPreferred q) 1 = fp at *
  -- `fh · w ≤ fp` or `fh = sh`
  have hfw : fh * w ≤ fp ∨ fh = sh := by
    by_cases hz : fp / w / sh * sh = 0
    · rw [if_pos hz] at hF; exact Or.inr hF
    · rw [if_neg hz] at hF
      left
      have h1 : fh ≤ fp / w := by rw [hF]; exact Nat.div_mul_le_self _ _
      exact Nat.le_trans (Nat.mul_le_mul_right _ h1) (Nat.div_mul_le_self _ _)
  simp only [PixelInfo.surfIdeal]
  have ha : (w + 4 - 1) / 4 ≤ w := by omega
  have hb : (k + 4 - 1) / 4 ≤ k := by omega
  have hprod : (w + 4 - 1) / 4 * ((k + 4 - 1) / 4) ≤ w * k := Nat.mul_le_mul ha hb
  have hwk : w * k ≤ fh * w := by rw [Nat.mul_comm]; exact Nat.mul_le_mul_right _ hk
  have hall : (w + 4 - 1) / 4 * ((k + 4 - 1) / 4) * bb ≤ w * k * 16 := Nat.mul_le_mul hprod hbb
  rcases hfw with h1 | h1
  · omega
  · have : fh * w ≤ 255 * 4294967295 := by rw [h1]; exact Nat.mul_le_mul (by omega) (by omega)
    omega

/-! ## the constants of the source -/

/-- everything the loop theorems need of the tuning constants `tools/extract_consts.py` reads from the source; checked
by evaluation for the current values (`constsOK`), so a retuned buffer re-proves the theorems — or fails HERE if, say,
a staging buffer no longer holds one pixel -/
def ConstsOK : Prop :=
  (16 ≤ SrcConsts.COPY_BUFFER_BYTES ∧ SrcConsts.COPY_BUFFER_BYTES ≤ 4294967296) ∧
  (16 ≤ SrcConsts.UNTYPED_BUFFER_BYTES ∧ SrcConsts.UNTYPED_BUFFER_BYTES ≤ 4294967296) ∧
  SrcConsts.UNC_REPORT_FREQUENCY ≠ 0 ∧
  (1 ≤ SrcConsts.UNIVERSAL_BUFFER_PIXELS ∧ SrcConsts.UNIVERSAL_BUFFER_PIXELS ≤ 4294967296) ∧
  (1 ≤ SrcConsts.DITHER_BUFFER_PIXELS ∧ SrcConsts.DITHER_BUFFER_PIXELS ≤ 65536 ∧
    SrcConsts.DITHER_ENCODED_ELEM_BYTES ≤ 65536 ∧ 1 ≤ SrcConsts.DITHER_ERROR_PADDING ∧
    SrcConsts.DITHER_ERROR_PADDING ≤ 65536) ∧
  16 ≤ SrcConsts.DITHER_BUFFER_PIXELS * SrcConsts.DITHER_ENCODED_ELEM_BYTES ∧
  8 ≤ SrcConsts.DITHER_ENCODED_ELEM_BYTES ∧
  (SrcConsts.SUBSAMPLE_BUFFER_PIXELS ≤ 65536 ∧
    SrcConsts.SUBSAMPLE_BUFFER_PIXELS / 2 ≤ SrcConsts.SUBSAMPLE_ENCODED_BLOCKS) ∧
  8 ≤ SrcConsts.SUBSAMPLE_BUFFER_PIXELS ∧
  SrcConsts.SUBSAMPLE_REPORT_FREQUENCY ≠ 0 ∧
  SrcConsts.BIPLANAR_REPORT_PIXELS ≠ 0 ∧
  (SrcConsts.BC_REPORT_FREQUENCY_FAST ≠ 0 ∧ SrcConsts.BC_REPORT_FREQUENCY_NORMAL ≠ 0 ∧
    SrcConsts.BC_REPORT_FREQUENCY_HIGH ≠ 0 ∧ SrcConsts.BC_REPORT_FREQUENCY_UNREASONABLE ≠ 0)

theorem constsOK : ConstsOK := by unfold ConstsOK; decide

/-! ## every body of the encoder table -/

/-- what the loops use of a format's layout; `Theorems/C15.lean` checks it for all encodable rows of C19's table -/
def PxOK : PixelInfo → Prop
  | .fixed bpp => 1 ≤ bpp ∧ bpp ≤ 16
  | .block bytes bw bh => bytes ≤ 16 ∧ ((bh = 1 ∧ 2 ≤ bw ∧ bw ≤ 8) ∨ (bw = 4 ∧ bh = 4))
  | .biPlanar p1 p2 sx sy => p1 ≤ 2 ∧ p2 ≤ 4 ∧ sx = 2 ∧ sy = 2

theorem colorOf_ok (c : C19.ColorFormat) : (colorOf c).OK := by
  unfold Color.OK colorOf
  cases c.precision <;> simp [precSize]

/-- the writes of the chunk loops add up to `pixels · encoded bytes per pixel` on both paths (C10's length theorems) -/
theorem chunk_sum {v : View} {bp enc : Nat} (hbp : 1 ≤ bp) :
    (if v.pitch = v.w * v.bpp then chunksContig (v.w * v.h) bp enc else chunksRows v.w v.h bp enc).sum =
      v.w * v.h * enc := by
  by_cases hcg : v.pitch = v.w * v.bpp
  · rw [if_pos hcg, C10.uncompressed_contig_len _ _ _ hbp]
  · rw [if_neg hcg, C10.uncompressed_rows_len _ _ _ _ hbp]

/-- **every loop the table can dispatch to** is trap-free on every view and writes exactly `surface_bytes` — or, for
the bi-planar body on an odd size, refuses before the first write -/
theorem Body.runT_eq {ctor : C19.SetCtor} {px : PixelInfo} {e : C19.Enc} {b : Body} (hm : Body.Matches ctor px e b)
    (hpx : PxOK px) {c : C19.ColorFormat} (hcol : e.colors.contains c = true) {v : View} (hv : VOK v (colorOf c))
    (aligned : Bool) :
    ∃ r, b.runT v (colorOf c) aligned = some r ∧
      (r = none ↔ (∃ p1 p2 sx sy, px = .biPlanar p1 p2 sx sy) ∧ (v.w % 2 ≠ 0 ∨ v.h % 2 ≠ 0)) ∧
      ∀ ws, r = some ws → ws.sum = px.surfIdeal v.w v.h := by
  obtain ⟨k1, k2, k3, k4, k5, k6, k7, k8, k9, k10, k11, k12⟩ := constsOK
  have hc := colorOf_ok c
  have hcb := (colorOf c).bpp_pos hc
  have hvb := hv.bpp
  cases hm with
  | copy bpp c' fl hb =>
    have hcc : c' = c := by simpa [C19.ColorSet.contains] using hcol
    subst hcc
    refine ⟨_, by simp only [Body.runT]; rw [copyDirectlyT_eq hv hc k1]; rfl, by simp, ?_⟩
    intro ws hws
    simp only [Option.some.injEq] at hws
    subst hws
    have hbp : 1 ≤ SrcConsts.COPY_BUFFER_BYTES / v.bpp := (Nat.one_le_div_iff (by omega)).2 (by omega)
    simp only [PixelInfo.surfIdeal]
    rw [← hb, ← hvb]
    by_cases hcg : v.pitch = v.w * v.bpp
    · rw [if_pos hcg]; simp
    · rw [if_neg hcg, C10.uncompressed_rows_len _ _ _ _ hbp]
  | convert bpp p fl t snorm ht hb hs =>
    have hp : p = c.precision := by simpa [C19.ColorSet.contains] using hcol
    have hfit : (UntypedLine.convert t snorm).Fits (colorOf c) := by
      refine ⟨by rw [ht, hp]; rfl, fun h => ?_⟩
      have := hs h
      rw [ht]
      cases p <;> simp_all [precSize]
    have hbpe := (UntypedLine.convert t snorm).bpe_pos hc hfit
    have hbp : 1 ≤ SrcConsts.UNTYPED_BUFFER_BYTES / (UntypedLine.convert t snorm).bpe :=
      (Nat.one_le_div_iff (by omega)).2 (by omega)
    refine ⟨_, by simp only [Body.runT]; rw [uncompressedUntypedT_eq hv hc hfit k2 k3]; rfl, by simp, ?_⟩
    intro ws hws
    simp only [Option.some.injEq] at hws
    subst hws
    rw [chunk_sum hbp]
    simp only [PixelInfo.surfIdeal, UntypedLine.bpe, hb]
  | bgr bpp fl hb =>
    have hp : C19.Precision.u8 = c.precision := by simpa [C19.ColorSet.contains] using hcol
    have hfit : (UntypedLine.bgr bpp).Fits (colorOf c) := ⟨by unfold colorOf; rw [← hp]; rfl, hb⟩
    have hbpe := (UntypedLine.bgr bpp).bpe_pos hc hfit
    have hbp : 1 ≤ SrcConsts.UNTYPED_BUFFER_BYTES / (UntypedLine.bgr bpp).bpe :=
      (Nat.one_le_div_iff (by omega)).2 (by omega)
    refine ⟨_, by simp only [Body.runT]; rw [uncompressedUntypedT_eq hv hc hfit k2 k3]; rfl, by simp, ?_⟩
    intro ws hws
    simp only [Option.some.injEq] at hws
    subst hws
    rw [chunk_sum hbp]
    simp only [PixelInfo.surfIdeal, UntypedLine.bpe]
  | universal bpp prim fl hp =>
    have hpx' : 1 ≤ bpp ∧ bpp ≤ 16 := hpx
    refine ⟨_, by simp only [Body.runT]; rw [uncompressedUniversalT_eq hv hc aligned (by omega) hp k4 k3]; rfl, by simp, ?_⟩
    intro ws hws
    simp only [Option.some.injEq] at hws
    subst hws
    rw [chunk_sum k4.1]
    simp only [PixelInfo.surfIdeal]
  | dither bpp align prim fl ha hp =>
    have hpx' : 1 ≤ bpp ∧ bpp ≤ 16 := hpx
    have hq : 1 ≤ SrcConsts.DITHER_BUFFER_PIXELS * SrcConsts.DITHER_ENCODED_ELEM_BYTES / bpp :=
      (Nat.one_le_div_iff (by omega)).2 (by omega)
    refine ⟨_, by simp only [Body.runT]; rw [ditherT_eq hv hc aligned (by omega) (by omega) hp k5 k3]; rfl, by simp, ?_⟩
    intro ws hws
    simp only [Option.some.injEq] at hws
    subst hws
    rw [C10.dither_len _ _ _ _ (by rw [Nat.min_def]; split <;> omega)]
    simp only [PixelInfo.surfIdeal]
  | subsample bytes bw prim cs fl kind hp =>
    have hpx' : bytes ≤ 16 ∧ ((1 = 1 ∧ 2 ≤ bw ∧ bw ≤ 8) ∨ (bw = 4 ∧ 1 = 4)) := hpx
    have hbw : 2 ≤ bw ∧ bw ≤ 8 := by
      rcases hpx'.2 with h | h
      · exact h.2
      · omega
    have hq1 : 1 ≤ SrcConsts.SUBSAMPLE_BUFFER_PIXELS / bw := (Nat.one_le_div_iff (by omega)).2 (by omega)
    have hcp1 : 1 ≤ SrcConsts.SUBSAMPLE_BUFFER_PIXELS / bw * bw := by
      have : 1 * 1 ≤ SrcConsts.SUBSAMPLE_BUFFER_PIXELS / bw * bw := Nat.mul_le_mul hq1 (by omega)
      omega
    refine ⟨_, by
      simp only [Body.runT]
      rw [subsampleT_eq hv hc aligned ⟨hbw.1, by omega⟩ (by omega) hp k8 k10]; rfl, by simp, ?_⟩
    intro ws hws
    simp only [Option.some.injEq] at hws
    subst hws
    exact C10.subsample_len _ _ _ _ _ (by omega) hcp1 (Nat.mul_mod_left ..)
  | biPlanar p1 p2 prim1 prim2 e h1 h2 =>
    have hpx' : p1 ≤ 2 ∧ p2 ≤ 4 ∧ 2 = 2 ∧ 2 = 2 := hpx
    refine ⟨_, by simp only [Body.runT]; exact biPlanarT_eq hv hc (by omega) hpx'.2.1 h1 h2 k11, ?_, ?_⟩
    · by_cases hodd : v.w % 2 ≠ 0 ∨ v.h % 2 ≠ 0
      · rw [if_pos hodd]; exact ⟨fun _ => ⟨⟨_, _, _, _, rfl⟩, hodd⟩, fun _ => rfl⟩
      · rw [if_neg hodd]; exact ⟨fun h => (by cases h), fun h => absurd h.2 hodd⟩
    · intro ws hws
      by_cases hodd : v.w % 2 ≠ 0 ∨ v.h % 2 ≠ 0
      · rw [if_pos hodd] at hws; cases hws
      · rw [if_neg hodd] at hws
        simp only [Option.some.injEq] at hws
        subst hws
        exact C10.biplanar_len _ _ _ _ (by omega) (by omega)
  | block bytes quality e =>
    have hpx' : bytes ≤ 16 ∧ _ := hpx
    have hfr := bcReportFrequency_ne k12 quality
    have hrun : block4x4T v (colorOf c) bytes quality = some (writesBlock v.w v.h 4 4 bytes) := by
      unfold block4x4T
      exact blockUniversalT_eq (bw := 4) (bh := 4) hv hc get4x4T_ok (by omega) (by omega) (by omega) hfr
    refine ⟨_, by simp only [Body.runT]; rw [hrun]; rfl, by simp, ?_⟩
    intro ws hws
    simp only [Option.some.injEq] at hws
    subst hws
    exact C10.block_len _ _ _ _ _ (by omega) (by omega)

/-! ## the table check -/

theorem pxOK_of_b {px : PixelInfo} (h : pxOKb px = true) : PxOK px := by
  cases px <;> simpa [pxOKb, PxOK] using h

theorem defaultBody_matches {ctor : C19.SetCtor} {px : PixelInfo} {e : C19.Enc} {b : Body}
    (h : defaultBody ctor px e = some b) : Body.Matches ctor px e b := by
  obtain ⟨colors, fl, kind⟩ := e
  cases ctor with
  | plain =>
    cases px with
    | fixed bpp =>
      cases colors with
      | single c =>
        cases kind <;> simp only [defaultBody] at h
        · by_cases hb : (colorOf c).bpp = bpp
          · rw [if_pos hb] at h
            simp only [Option.some.injEq] at h
            subst h
            exact .copy bpp c fl hb
          · rw [if_neg hb] at h; cases h
        all_goals cases h
      | ofPrec p =>
        cases kind <;> simp only [defaultBody] at h
        · cases hf : [Unc.Channels.gray, .rgb, .rgba].find? (fun ch => TrapUnc.chanCount ch * precSize p = bpp) with
          | none => rw [hf] at h; cases h
          | some ch =>
            rw [hf] at h
            simp only [Option.some.injEq] at h
            subst h
            have := List.find?_some hf
            exact .convert bpp p fl ⟨ch, precSize p⟩ false rfl (by simpa [Color.bpp] using this) (fun h => by cases h)
        all_goals cases h
      | all =>
        cases kind <;> simp only [defaultBody] at h
        · simp only [Option.some.injEq] at h
          subst h
          exact .universal bpp 1 fl (Or.inl rfl)
        · simp only [Option.some.injEq] at h
          subst h
          exact .dither bpp 1 1 fl (by omega) (Or.inl rfl)
        all_goals cases h
    | block bytes bw bh =>
      simp only [defaultBody] at h
      by_cases hb : bh = 1
      · rw [if_pos hb] at h
        simp only [Option.some.injEq] at h
        subst h; subst hb
        exact .subsample bytes bw 1 colors fl kind (Or.inl rfl)
      · rw [if_neg hb] at h; cases h
    | biPlanar p1 p2 sx sy => simp only [defaultBody] at h; cases h
  | bc =>
    cases px with
    | block bytes bw bh =>
      simp only [defaultBody] at h
      by_cases hb : bw = 4 ∧ bh = 4
      · rw [if_pos hb] at h
        simp only [Option.some.injEq] at h
        obtain ⟨rfl, rfl⟩ := hb
        subst h
        exact .block bytes 0 _
      · rw [if_neg hb] at h; cases h
    | fixed bpp => simp only [defaultBody] at h; cases h
    | biPlanar p1 p2 sx sy => simp only [defaultBody] at h; cases h
  | biPlanar =>
    cases px with
    | biPlanar p1 p2 sx sy =>
      simp only [defaultBody] at h
      by_cases hb : sx = 2 ∧ sy = 2
      · rw [if_pos hb] at h
        simp only [Option.some.injEq] at h
        obtain ⟨rfl, rfl⟩ := hb
        subst h
        exact .biPlanar p1 p2 1 1 _ (Or.inl rfl) (Or.inl rfl)
      · rw [if_neg hb] at h; cases h
    | fixed bpp => simp only [defaultBody] at h; cases h
    | block bytes bw bh => simp only [defaultBody] at h; cases h

theorem dbgP_none {p : Prop} [Decidable p] (h : ¬ p) : dbgP p = none := by
  unfold dbgP; exact if_neg h

/-- what one evaluation of `dispatchCheck` means -/
theorem dispatch_of_check {f : C19.Format} {c : C19.ColorFormat} {d : C19.Dithering} {s : C19.EncSet}
    (hs : C19.encoderSet f = some s) (h : dispatchCheck f c d = true) :
    PxOK f.row.px ∧ ∃ e, pickEncoderT s c d = some e ∧ e.colors.contains c = true ∧
      ∃ b, Body.Matches s.ctor f.row.px e b := by
  unfold dispatchCheck at h
  rw [hs] at h
  simp only [Bool.and_eq_true] at h
  obtain ⟨h1, h2⟩ := h
  refine ⟨pxOK_of_b h1, ?_⟩
  cases hp : pickEncoderT s c d with
  | none => rw [hp] at h2; cases h2
  | some e =>
    rw [hp] at h2
    simp only [Option.isSome_iff_exists] at h2
    obtain ⟨b, hb⟩ := h2
    refine ⟨e, rfl, ?_, b, defaultBody_matches hb⟩
    -- the `assert!` of `Encoder::encode` passed
    unfold pickEncoderT at hp
    cases hi : s.pick c d with
    | none => rw [hi] at hp; cases hp
    | some i =>
      rw [hi, bind_some'] at hp
      cases he : s.encs[i]? with
      | none => rw [he] at hp; cases hp
      | some e' =>
        rw [he, bind_some'] at hp
        by_cases hc : e'.colors.contains c = true
        · rw [dbgP_of hc, bind_some', pure_some'] at hp
          simp only [Option.some.injEq] at hp
          rw [← hp]; exact hc
        · rw [dbgP_none hc] at hp; cases hp

end Dds.TrapEnc
