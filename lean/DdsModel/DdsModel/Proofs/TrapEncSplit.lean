/-
C15 (encoder loops, part 3): `SplitView`, `ImageView::cropped`, `encode_parallel` and the dispatch from C19's
encoder table are trap-free (mirrors: `TrapEncSplit.lean`).
-/
import DdsModel.TrapEncSplit
import DdsModel.Proofs.TrapEncBlk
import DdsModel.Proofs.Split
import DdsModel.Theorems.C10
namespace Dds.TrapEnc
open Dds Dds.Trap

/-! ## `get_fragment_height`, `SplitView::new` -/

/-- the `u64` division / multiplication chain of `get_fragment_height` neither divides by zero nor overflows, and
the trapping function agrees with the wrapping model of C14 -/
theorem getFragmentHeightT_eq (w h : Nat) (sup : Option Support) (dith : Dithering) (q : Quality)
    (hwf : ∀ s, sup = some s → s.WF) :
    getFragmentHeightT w h sup dith q = some (getFragmentHeight w h sup dith q) := by
  unfold getFragmentHeightT getFragmentHeight
  by_cases he : w = 0 ∨ h = 0
  · rw [if_pos he, if_pos he]
  rw [if_neg he, if_neg he]
  cases sup with
  | none => rfl
  | some s =>
    simp only
    cases hsh : s.splitHeight with
    | none => rfl
    | some sh =>
      simp only
      obtain ⟨hsh0, _⟩ := hwf s rfl sh hsh
      by_cases hd : ((!s.localDithering) && decide (dith.intersect s.dithering ≠ .none)) = true
      · rw [if_pos hd, if_pos hd]
      rw [if_neg hd, if_neg hd]
      by_cases hp : max (s.fragmentSize.getPreferred q) 1 ≥ w * h
      · rw [if_pos hp, if_pos hp]
      rw [if_neg hp, if_neg hp]
      have hfp := getPreferred_lt s.fragmentSize q
      have hU : U64 = 18446744073709551616 := rfl
      have hle : (max (s.fragmentSize.getPreferred q) 1 / w) / sh * sh
          ≤ max (s.fragmentSize.getPreferred q) 1 :=
        Nat.le_trans (Nat.div_mul_le_self _ _) (Nat.div_le_self _ _)
      have hlt : (max (s.fragmentSize.getPreferred q) 1 / w) / sh * sh < 18446744073709551616 := by omega
      rw [div_of_ne (by omega), bind_some', div_of_ne (by omega), bind_some', mulU_of_lt hlt, bind_some',
        wMul_eq (by rw [hU]; exact hlt)]
      cases tryU32 ((max (s.fragmentSize.getPreferred q) 1 / w) / sh * sh) <;> rfl

theorem SplitView.newT_eq (w h : Nat) (sup : Option Support) (dith : Dithering) (q : Quality)
    (hwf : ∀ s, sup = some s → s.WF) :
    SplitView.newT w h sup dith q = some (SplitView.new w h sup dith q) := by
  unfold SplitView.newT SplitView.new
  rw [getFragmentHeightT_eq w h sup dith q hwf, bind_some']
  cases hg : getFragmentHeight w h sup dith q with
  | none => rfl
  | some fh =>
    simp only
    obtain ⟨s, sh, k, _, _, hsh0, hk, hF, _⟩ := (getFragmentHeight_some hwf hg).facts
    have : fh ≠ 0 := by
      have : 1 * 1 ≤ k * sh := Nat.mul_le_mul hk hsh0
      omega
    rw [divCeilU_of_ne this, bind_some', pure_some']

/-! ## `ImageView::cropped` -/

/-- a non-empty rectangle inside a view: no `usize` operation overflows, the slice is inside the data, and the crop
is again a view the encoders accept (same pitch, same colour) -/
theorem croppedT_eq {v : View} {c : Color} (hv : VOK v c) (ox oy w h : Nat) (hin : ox + w ≤ v.w ∧ oy + h ≤ v.h)
    (hne : ¬ (w = 0 ∨ h = 0)) :
    ∃ f, croppedT v ox oy w h = some f ∧ VOK f c ∧ f.w = w ∧ f.h = h ∧ f.pitch = v.pitch := by
  have hvne : ¬ (v.w = 0 ∨ v.h = 0) := by omega
  have hlen := hv.inv.len_eq hvne
  have hl := hv.len
  have hI : I64MAX = 9223372036854775807 := rfl
  have hU : U32 = 4294967296 := rfl
  have hpg := hv.inv.pitch_ge
  have hvw := hv.inv.w_lt
  have hvh := hv.inv.h_lt
  have hb16 := hv.inv.bpp_le
  have h1 : (oy + (h - 1)) * v.pitch ≤ (v.h - 1) * v.pitch := Nat.mul_le_mul_right _ (by omega)
  have h2 : (ox + w) * v.bpp ≤ v.w * v.bpp := Nat.mul_le_mul_right _ hin.1
  rw [Nat.add_mul] at h1 h2
  have hend : oy * v.pitch + ox * v.bpp + (h - 1) * v.pitch + w * v.bpp ≤ v.len := by
    rw [hlen, Nat.mul_comm v.pitch]; omega
  have hc : v.containsRect ox oy w h = true := by
    unfold View.containsRect; simp [hin.1, hin.2]
  have hsub : oy * v.pitch + ox * v.bpp + (h - 1) * v.pitch + w * v.bpp - (oy * v.pitch + ox * v.bpp) =
      v.pitch * (h - 1) + w * v.bpp := by rw [Nat.mul_comm v.pitch]; omega
  refine ⟨⟨v.base + (oy * v.pitch + ox * v.bpp), v.pitch * (h - 1) + w * v.bpp, w, h, v.bpp, v.pitch⟩, ?_,
    ⟨⟨hv.inv.bpp_pos, hb16, by show w < U32; omega, by show h < U32; omega,
        by show v.pitch * (h - 1) + w * v.bpp < U64; rw [← hsub]; unfold U64; omega,
        fun h' => absurd h' hne, ?_, fun _ => rfl⟩, hv.bpp, ?_, hv.pitch⟩, rfl, rfl, rfl⟩
  · unfold croppedT
    rw [dbgP_of hc, bind_some', if_neg hne]
    enc_simp [hsub]
  · show w * v.bpp ≤ v.pitch
    have : w * v.bpp ≤ (ox + w) * v.bpp := Nat.mul_le_mul_right _ (by omega)
    rw [Nat.add_mul] at this; omega
  · show v.pitch * (h - 1) + w * v.bpp ≤ I64MAX
    rw [← hsub]; omega

/-! ## `SplitView::get` -/

/-- every fragment of a split view: the `u32` product `index * fragment_height` does not overflow,
`debug_assert!(start_y < height)` holds, `end_y - start_y` does not underflow, the crop is inside the image, and the
fragment is a non-empty full-width view with the parent's pitch; beyond `len` the answer is `None`.  The rows are
those of C14's (wrapping) model. -/
theorem SplitView.getT_eq {v : View} {c : Color} (hv : VOK v c) (sup : Option Support) (dith : Dithering) (q : Quality)
    (hwf : ∀ s, sup = some s → s.WF) (i : Nat) :
    let s := SplitView.new v.w v.h sup dith q
    (s.len ≤ i → SplitView.getT s v i = some none) ∧
    (i < s.len → ∃ f, SplitView.getT s v i = some (some f) ∧ VOK f c ∧ f.w = v.w ∧ f.pitch = v.pitch ∧
      ∃ y, s.get i = some (y, f.h) ∧ y + f.h ≤ v.h ∧ (s.fragmentHeight ≠ none → 0 < f.h) ∧
        ∀ fh, s.fragmentHeight = some fh → y = i * fh ∧ f.h ≤ fh) := by
  intro s
  have hh := hv.inv.h_lt
  have hU : U32 = 4294967296 := rfl
  constructor
  · intro hi
    unfold SplitView.getT
    rw [if_pos hi]
  · intro hi
    cases hg : getFragmentHeight v.w v.h sup dith q with
    | none =>
      have hs : s = ⟨v.w, v.h, 1, none⟩ := by
        show SplitView.new v.w v.h sup dith q = _
        unfold SplitView.new; rw [hg]
      rw [hs] at hi ⊢
      have hi0 : i = 0 := by
        have : i < 1 := hi
        omega
      subst hi0
      refine ⟨v, ?_, hv, rfl, rfl, 0, ?_, by omega, fun h => absurd rfl h, fun fh h => by cases h⟩
      · unfold SplitView.getT; simp
      · unfold SplitView.get; simp
    | some fh =>
      have hs : s = ⟨v.w, v.h, divCeil v.h fh, some fh⟩ := by
        show SplitView.new v.w v.h sup dith q = _
        unfold SplitView.new; rw [hg]
      have sp := getFragmentHeight_some hwf hg
      obtain ⟨_, sh, k, _, _, hsh0, hk, hF, _⟩ := sp.facts
      have hfh : 0 < fh := by
        have : 1 * 1 ≤ k * sh := Nat.mul_le_mul hk hsh0
        omega
      rw [hs] at hi ⊢
      have hi' : i < divCeil v.h fh := hi
      have hst := start_lt hfh hi'
      have hmin : min (satAdd32 (i * fh) fh) v.h = min (i * fh + fh) v.h := by
        unfold satAdd32
        by_cases hc : i * fh + fh < U32
        · rw [if_pos hc]
        · rw [if_neg hc]; omega
      have hfrag : 0 < min (i * fh + fh) v.h - i * fh := by omega
      obtain ⟨f, hf, hvf, hfw, hfh', hfp⟩ := croppedT_eq hv 0 (i * fh) v.w (min (i * fh + fh) v.h - i * fh)
        ⟨by omega, by omega⟩ (by have := sp.w_pos; omega)
      refine ⟨f, ?_, hvf, hfw, hfp, i * fh, ?_, by rw [hfh']; omega, fun _ => by rw [hfh']; exact hfrag,
        fun fh' h' => ?_⟩
      · unfold SplitView.getT
        simp only
        rw [if_neg (by omega), mulU32_of_lt (by omega), bind_some', hmin, dbgP_of hst, bind_some',
          subU_of_le (by omega), bind_some', hf, bind_some', pure_some']
      · rw [get_split hh hfh hi' rfl, hfh']
        congr 2
        omega
      · simp only [Option.some.injEq] at h'
        subst h'
        exact ⟨rfl, by rw [hfh']; omega⟩

/-! ## `encode_parallel` -/

theorem sum_map_le_of_bound {α} (l : List α) (g : α → Nat) (b : Nat) (h : ∀ x ∈ l, g x ≤ b) :
    (l.map g).sum ≤ l.length * b := by
  induction l with
  | nil => simp
  | cons a r ih =>
    rw [List.map_cons, List.sum_cons, List.length_cons, Nat.add_mul, Nat.one_mul]
    have := h a (List.mem_cons_self ..)
    have := ih (fun x hx => h x (List.mem_cons_of_mem _ hx))
    omega

/-- the heights of the fragments `0 … n-1` of a split with nominal height `F` add up to at most `h` -/
theorem sum_fragment_heights (F h : Nat) : ∀ n, ((List.range n).map fun i => min F (h - i * F)).sum ≤ h - 0 ∧
    ((List.range n).map fun i => min F (h - i * F)).sum = min (n * F) h := by
  intro n
  induction n with
  | zero => simp
  | succ n ih =>
    rw [List.range_succ, List.map_append, List.sum_append, ih.2]
    simp only [List.map_cons, List.map_nil, List.sum_cons, List.sum_nil, Nat.add_zero]
    rw [Nat.add_mul, Nat.one_mul]
    constructor <;> omega

/-- **`encode_parallel`** for a sequential encoder `bodyT` that is trap-free on every full-width view and writes
the `surface_bytes` of that view (what `encode_loops_trapfree` shows for every family), when the encoded size of a
fragment fits `isize` (`hsurf`): every `split.get(i)` is `Some`, `Vec::with_capacity(bytes)` does not overflow,
`debug_assert_eq!(buffer.len(), bytes)` holds for every fragment, the progress total `height + 1` is never exceeded
by the submitted heights, and the writes are the fragments' surface sizes in index order. -/
theorem encodeParallelT_eq {v : View} {c : Color} (hv : VOK v c) (bodyT : View → Option (List Nat)) (px : PixelInfo)
    (hpx : px.WF) (sup : Option Support) (dith : Dithering) (q : Quality) (hwf : ∀ s, sup = some s → s.WF)
    (hbody : ∀ f, VOK f c → f.w = v.w → ∃ ws, bodyT f = some ws ∧ ws.sum = px.surfIdeal f.w f.h)
    (hsurf : ∀ fh, (SplitView.new v.w v.h sup dith q).fragmentHeight = some fh →
      ∀ k, k ≤ fh → px.surfIdeal v.w k ≤ I64MAX) :
    ∃ ws, encodeParallelT bodyT px v sup dith q = some ws ∧
      ((SplitView.new v.w v.h sup dith q).len = 1 → ws.sum = px.surfIdeal v.w v.h) ∧
      ((SplitView.new v.w v.h sup dith q).len ≠ 1 →
        ∃ hs : List Nat, hs.length = (SplitView.new v.w v.h sup dith q).len ∧
          ws = hs.map (px.surfIdeal v.w) ∧
          ∀ i k, (SplitView.new v.w v.h sup dith q).get i = some k → hs[i]? = some k.2) := by
  have hh := hv.inv.h_lt
  have hU : U32 = 4294967296 := rfl
  have hI : I64MAX = 9223372036854775807 := rfl
  unfold encodeParallelT
  rw [SplitView.newT_eq _ _ _ _ _ hwf, bind_some']
  generalize hs : SplitView.new v.w v.h sup dith q = s at *
  by_cases h1 : s.len = 1
  · obtain ⟨ws, e1, e2⟩ := hbody v hv rfl
    exact ⟨ws, by rw [if_pos h1, e1], fun _ => e2, fun h => absurd h1 h⟩
  · rw [if_neg h1, addU_of_lt (by omega), bind_some']
    -- more than one fragment: a fragment height was chosen
    have hfhs : s.fragmentHeight ≠ none := by
      intro hn
      apply h1
      rw [← hs] at hn ⊢
      unfold SplitView.new at hn ⊢
      cases hg : getFragmentHeight v.w v.h sup dith q with
      | none => rfl
      | some fh => rw [hg] at hn; simp at hn
    obtain ⟨fh, hfh⟩ : ∃ fh, s.fragmentHeight = some fh := by
      cases h : s.fragmentHeight with
      | none => exact absurd h hfhs
      | some fh => exact ⟨fh, rfl⟩
    -- per fragment
    have hfrag : ∀ i, i < s.len → ∃ k, s.get i = some k ∧ k.2 ≤ fh ∧ k.1 = i * fh ∧
        fragmentT bodyT px s v i = some (px.surfIdeal v.w k.2, k.2) := by
      intro i hi
      have hget := (SplitView.getT_eq hv sup dith q hwf i).2 (by rw [hs]; exact hi)
      rw [hs] at hget
      obtain ⟨f, hf, hvf, hfw, _, y, hy, _, _, hyf⟩ := hget
      obtain ⟨hy1, hy2⟩ := hyf fh hfh
      obtain ⟨ws, e1, e2⟩ := hbody f hvf hfw
      have hb := hsurf fh hfh f.h hy2
      have hsb : px.surfaceBytes f.w f.h = some (px.surfIdeal v.w f.h) := by
        rw [surfaceBytes_eq px hpx, hfw, ckSome_lt (by unfold U64; omega)]
      refine ⟨(y, f.h), hy, hy2, hy1, ?_⟩
      unfold fragmentT
      rw [hf, bind_some']
      simp only [hsb, Option.getD_some]
      rw [allocT_of_le (by omega), bind_some', e1, bind_some', dbgP_of (by rw [e2, hfw]), bind_some', pure_some']
    -- the height of fragment `i` as a function of `i`
    have hgetspec : ∀ i, i < s.len → ∃ k, s.get i = some k ∧ k.2 = min fh (v.h - i * fh) := by
      intro i hi
      have hg : ∃ F, getFragmentHeight v.w v.h sup dith q = some F := by
        cases hg : getFragmentHeight v.w v.h sup dith q with
        | none =>
          exfalso; apply hfhs; rw [← hs]; unfold SplitView.new; rw [hg]
        | some F => exact ⟨F, rfl⟩
      obtain ⟨F, hg⟩ := hg
      have hs' : s = ⟨v.w, v.h, divCeil v.h F, some F⟩ := by
        rw [← hs]; unfold SplitView.new; rw [hg]
      have sp := getFragmentHeight_some hwf hg
      obtain ⟨_, sh, k, _, _, hsh0, hk, hF, _⟩ := sp.facts
      have hF0 : 0 < F := by
        have : 1 * 1 ≤ k * sh := Nat.mul_le_mul hk hsh0
        omega
      have hFfh : F = fh := by
        rw [hs'] at hfh
        simpa using hfh
      subst hFfh
      rw [hs'] at hi ⊢
      exact ⟨_, get_split hh hF0 hi rfl, rfl⟩
    let hsL := (List.range s.len).map fun i => min fh (v.h - i * fh)
    have hmap : mapT (fragmentT bodyT px s v) (List.range s.len) =
        some ((List.range s.len).map fun i => (px.surfIdeal v.w (min fh (v.h - i * fh)), min fh (v.h - i * fh))) := by
      apply mapT_eq_some
      intro i hi
      have hi : i < s.len := List.mem_range.mp hi
      obtain ⟨k, hk, _, _, hk3⟩ := hfrag i hi
      obtain ⟨k', hk', hk2'⟩ := hgetspec i hi
      rw [hk] at hk'
      simp only [Option.some.injEq] at hk'
      subst hk'
      rw [hk3, hk2']
    rw [hmap, bind_some']
    have hsum := (sum_fragment_heights fh v.h s.len).2
    have hsub : (List.map (fun x => x.2)
        (List.map (fun i => (px.surfIdeal v.w (min fh (v.h - i * fh)), min fh (v.h - i * fh))) (List.range s.len))).sum ≤
        v.h := by
      rw [List.map_map]
      have : ((fun x : Nat × Nat => x.2) ∘ fun i => (px.surfIdeal v.w (min fh (v.h - i * fh)), min fh (v.h - i * fh))) =
          fun i => min fh (v.h - i * fh) := rfl
      rw [this, hsum]
      exact Nat.min_le_right _ _
    dsimp only
    rw [dbgP_of (show _ ≤ v.h + 1 ∧ v.h + 1 ≠ 0 from ⟨by omega, by omega⟩), bind_some', pure_some']
    refine ⟨_, rfl, fun h => absurd h h1, fun _ => ⟨hsL, by simp [hsL], ?_, ?_⟩⟩
    · simp only [hsL, List.map_map]
      rfl
    · intro i k hk
      by_cases hi : i < s.len
      · obtain ⟨k', hk', hk2'⟩ := hgetspec i hi
        rw [hk] at hk'
        simp only [Option.some.injEq] at hk'
        subst hk'
        simp only [hsL, List.getElem?_map, List.getElem?_range hi, Option.map_some, hk2']
      · have : s.get i = none := by unfold SplitView.get; rw [if_pos (by omega)]
        rw [this] at hk; cases hk

end Dds.TrapEnc
