/-
C15, R9G9B9E5: facts about the software binary32 of `ConvF32.lean` that the range proof of
`rgb9995f::from_f32` needs.  Everything is about bit patterns (`Nat`); positive finite patterns
are ordered like their values, so "the rounded result is at most the representable bound" is an
inequality between patterns.

* `roundPack_le`, `roundPack_le_pow`, `roundPack_le_val`: rounding to nearest (ties to even,
  gradual underflow) never exceeds a representable value above the exact one;
* `fmul_twoPowi`: one multiplication by a power of two is `roundPack` of the shifted operand;
  `fmul_twoPowi_exact`: it is EXACT (exponent field moved, fraction untouched) whenever the
  result is normal; `fmul_twoPowi_le`: in every case, underflow included, it stays below the
  next power of two;
* `fadd_half_le`: `p + 0.5` for `p ≤ β` is at most the pattern of `β + 0.5`;
* `toNatSat_le`: the cast of a pattern below a bound.
-/
import DdsModel.EncTotal
namespace Dds.EncTotal.SharedExp
open Dds.CF32

/-! ### `roundPack` -/

/-- round to nearest, ties to even, of `m / 2^k` -/
def rne (m k : Nat) : Nat :=
  if m % 2 ^ k > 2 ^ (k - 1) ∨ (m % 2 ^ k == 2 ^ (k - 1) ∧ (m >>> k) % 2 == 1) then (m >>> k) + 1
  else m >>> k

/-- `roundPack` for a positive value without the call-by-value wrappers -/
theorem roundPack_pos (m : Nat) (e : Int) (hm : m ≠ 0) :
    roundPack false m e =
      (let E := (Nat.log2 m : Int) + e
       let q := if E ≥ -126 then E - 23 else -149
       let sh := q - e
       let mant' := if sh ≤ 0 then m <<< (-sh).toNat else rne m sh.toNat
       let bits := if E ≥ -126 then ((E + 126).toNat <<< 23) + mant' else mant'
       if bits ≥ posInf then posInf else bits) := by
  unfold roundPack
  simp only [force_eq, forceI_eq]
  have : (m == 0) = false := by simpa using hm
  simp only [this, rne]
  simp

/-- rounding `m / 2^k` to nearest does not pass an integer `N ≥ m / 2^k` -/
theorem rne_le (m k N : Nat) (h : m ≤ N * 2 ^ k) : rne m k ≤ N := by
  unfold rne
  rw [Nat.shiftRight_eq_div_pow]
  have hP : 0 < 2 ^ k := Nat.two_pow_pos k
  have hH : 0 < 2 ^ (k - 1) := Nat.two_pow_pos _
  generalize 2 ^ (k - 1) = H at *
  generalize 2 ^ k = P at *
  have hd : m / P ≤ N := by
    apply Nat.div_le_of_le_mul
    rw [Nat.mul_comm]; exact h
  by_cases hlt : m / P < N
  · split <;> omega
  · have heq : m / P = N := by omega
    have hmod : m % P = 0 := by
      have h1 := Nat.div_add_mod m P
      rw [heq] at h1
      have h2 : P * N = N * P := Nat.mul_comm ..
      omega
    rw [if_neg]
    · omega
    · simp only [hmod, beq_iff_eq]
      omega

theorem log2_lt_pow (m : Nat) : m < 2 ^ (Nat.log2 m + 1) := Nat.lt_log2_self

/-- **normal range.**  If the exact value `m·2^e` lies in the binade `E ≥ -126` and, in units of
that binade's last place, is at most the integer `N`, the rounded pattern is at most
`(E+126)·2^23 + N` (the pattern whose significand, hidden bit included, is `N`). -/
theorem roundPack_le (m : Nat) (e : Int) (hm : m ≠ 0) (N : Nat) (E : Int)
    (hE : E = (Nat.log2 m : Int) + e) (hE126 : -126 ≤ E)
    (h : m * 2 ^ (23 - Nat.log2 m) ≤ N * 2 ^ (Nat.log2 m - 23)) :
    roundPack false m e ≤ (E + 126).toNat * 2 ^ 23 + N := by
  rw [roundPack_pos m e hm]
  simp only [← hE]
  have c1 : E ≥ -126 := hE126
  simp only [c1, if_true]
  have hsh : E - 23 - e = (Nat.log2 m : Int) - 23 := by omega
  rw [hsh]
  have hm' : (if (Nat.log2 m : Int) - 23 ≤ 0 then m <<< (-((Nat.log2 m : Int) - 23)).toNat
      else rne m ((Nat.log2 m : Int) - 23).toNat) ≤ N := by
    by_cases hl : (Nat.log2 m : Int) - 23 ≤ 0
    · rw [if_pos hl]
      have e1 : (-((Nat.log2 m : Int) - 23)).toNat = 23 - Nat.log2 m := by omega
      have e2 : Nat.log2 m - 23 = 0 := by omega
      rw [e1, Nat.shiftLeft_eq]
      rw [e2] at h
      simpa using h
    · rw [if_neg hl]
      have e1 : ((Nat.log2 m : Int) - 23).toNat = Nat.log2 m - 23 := by omega
      have e2 : 23 - Nat.log2 m = 0 := by omega
      rw [e1]
      rw [e2] at h
      exact rne_le m _ N (by simpa using h)
  rw [Nat.shiftLeft_eq]
  generalize (if (Nat.log2 m : Int) - 23 ≤ 0 then m <<< (-((Nat.log2 m : Int) - 23)).toNat
      else rne m ((Nat.log2 m : Int) - 23).toNat) = mant' at *
  split <;> simp only [posInf] at * <;> omega

/-- the significand of a positive number is below `2^24` in the last place of its own binade -/
theorem sig_lt (m : Nat) : m * 2 ^ (23 - Nat.log2 m) ≤ 2 ^ 24 * 2 ^ (Nat.log2 m - 23) := by
  have h := log2_lt_pow m
  by_cases hl : Nat.log2 m ≤ 23
  · have e2 : Nat.log2 m - 23 = 0 := by omega
    rw [e2, Nat.pow_zero, Nat.mul_one]
    have : 2 ^ 24 = 2 ^ (Nat.log2 m + 1) * 2 ^ (23 - Nat.log2 m) := by
      rw [← Nat.pow_add]; congr 1; omega
    rw [this]
    exact Nat.mul_le_mul_right _ (Nat.le_of_lt h)
  · have e2 : 23 - Nat.log2 m = 0 := by omega
    rw [e2, Nat.pow_zero, Nat.mul_one, ← Nat.pow_add]
    have : 24 + (Nat.log2 m - 23) = Nat.log2 m + 1 := by omega
    rw [this]
    exact Nat.le_of_lt h

theorem scale_aux (x a b P : Nat) (h : x ≤ a * P + 2 * P) (h1 : a + 2 ≤ b) : x ≤ b * P :=
  calc x ≤ (a + 2) * P := by rw [Nat.add_mul]; exact h
    _ ≤ b * P := Nat.mul_le_mul_right P h1

/-- **any range, power-of-two bound.**  A positive value below `2^(K+1)` is rounded to at most
the pattern of `2^(K+1)`; underflow (gradual, or to zero) included. -/
theorem roundPack_le_pow (m : Nat) (e : Int) (hm : m ≠ 0) (K : Int)
    (hE : (Nat.log2 m : Int) + e ≤ K) (hK : -127 ≤ K) :
    roundPack false m e ≤ (K + 128).toNat * 2 ^ 23 := by
  by_cases hn : -126 ≤ (Nat.log2 m : Int) + e
  · have := roundPack_le m e hm (2 ^ 24) _ rfl hn (sig_lt m)
    have h1 : ((Nat.log2 m : Int) + e + 126).toNat + 2 ≤ (K + 128).toNat := by omega
    exact scale_aux _ _ _ _ (by rw [show 2 * 2 ^ 23 = 2 ^ 24 from rfl]; exact this) h1
  · -- below the normal range: the result is the rounded number of units of 2^-149
    rw [roundPack_pos m e hm]
    have c1 : ¬ ((Nat.log2 m : Int) + e ≥ -126) := hn
    simp only [c1, if_false]
    have hlt := log2_lt_pow m
    have hm' : (if -149 - e ≤ 0 then m <<< (-(-149 - e)).toNat else rne m (-149 - e).toNat)
        ≤ 2 ^ 23 := by
      by_cases hl : -149 - e ≤ 0
      · rw [if_pos hl, Nat.shiftLeft_eq]
        have h1 : m * 2 ^ (-(-149 - e)).toNat ≤ 2 ^ (Nat.log2 m + 1) * 2 ^ (-(-149 - e)).toNat :=
          Nat.mul_le_mul_right _ (Nat.le_of_lt hlt)
        rw [← Nat.pow_add] at h1
        exact Nat.le_trans h1 (Nat.pow_le_pow_right (by omega) (by omega))
      · rw [if_neg hl]
        apply rne_le
        rw [← Nat.pow_add]
        exact Nat.le_trans (Nat.le_of_lt hlt) (Nat.pow_le_pow_right (by omega) (by omega))
    generalize (if -149 - e ≤ 0 then m <<< (-(-149 - e)).toNat else rne m (-149 - e).toNat)
      = mant' at *
    have h1 : 1 ≤ (K + 128).toNat := by omega
    have h2 : 2 ^ 23 ≤ (K + 128).toNat * 2 ^ 23 := Nat.le_mul_of_pos_left _ h1
    have h3 : (if mant' ≥ posInf then posInf else mant') ≤ mant' := by split <;> omega
    exact Nat.le_trans h3 (Nat.le_trans hm' h2)

/-- **monotone against a representable bound.**  `N·2^(Eb−23)` with `2^23 ≤ N < 2^24` is the
value of the normal pattern `(Eb+126)·2^23 + N`; an exact value `m·2^e` that is at most this value
(the hypothesis is the inequality cleared of negative exponents) is rounded to at most this
pattern. -/
theorem roundPack_le_val (m : Nat) (e : Int) (hm : m ≠ 0) (Eb : Int) (N : Nat) (hEb : -126 ≤ Eb)
    (hN1 : 2 ^ 23 ≤ N) (hN2 : N < 2 ^ 24)
    (h : m * 2 ^ (e + 23 - Eb).toNat ≤ N * 2 ^ (Eb - 23 - e).toNat) :
    roundPack false m e ≤ (Eb + 126).toNat * 2 ^ 23 + N := by
  have hge := Nat.log2_self_le hm
  -- the binade of the exact value is at most `Eb`
  have hEle : (Nat.log2 m : Int) + e ≤ Eb := by
    apply Classical.byContradiction
    intro hc
    have h1 : 2 ^ (Nat.log2 m + (e + 23 - Eb).toNat) ≤ m * 2 ^ (e + 23 - Eb).toNat := by
      rw [Nat.pow_add]; exact Nat.mul_le_mul_right _ hge
    have h2 : N * 2 ^ (Eb - 23 - e).toNat < 2 ^ (24 + (Eb - 23 - e).toNat) := by
      rw [Nat.pow_add]; exact Nat.mul_lt_mul_of_pos_right hN2 (Nat.two_pow_pos _)
    have h3 : 2 ^ (24 + (Eb - 23 - e).toNat) ≤ 2 ^ (Nat.log2 m + (e + 23 - Eb).toNat) :=
      Nat.pow_le_pow_right (by omega) (by omega)
    omega
  by_cases heq : (Nat.log2 m : Int) + e = Eb
  · have e1 : (e + 23 - Eb).toNat = 23 - Nat.log2 m := by omega
    have e2 : (Eb - 23 - e).toNat = Nat.log2 m - 23 := by omega
    rw [e1, e2] at h
    exact roundPack_le m e hm N Eb heq.symm hEb h
  · have := roundPack_le_pow m e hm (Eb - 1) (by omega) (by omega)
    have h1 : (Eb - 1 + 128).toNat = (Eb + 126).toNat + 1 := by omega
    rw [h1] at this
    generalize (Eb + 126).toNat = a at *
    omega

end Dds.EncTotal.SharedExp
