/-
C13 / BC7 writer, part 2: the index lists.

* `compress_single_index` removes one bit (`remZ`), the exact inverse of the decoder's zero-bit insertion (`Bc7.insZ`,
  C03x) whenever the removed bit is 0;
* `ensure_msb_zero` with the mask of a subset inverts exactly the indexes of that subset (`v ↦ MAX - v`) and leaves the
  anchor's top bit 0;
* `compress_p1 / p2 / p3` followed by the decoder's `Indexes::new_p1 / p2 / p3` (same fix-up tables) returns the
  NORMALISED list: index `i` is kept or inverted according to the swap flag of the subset of pixel `i`.
-/
import DdsModel.Proofs.Enc7Stream
namespace Dds.Enc7
open Dds Dds.BcTables Dds.Bc7

/-! ### removing a bit -/

/-- `x` without bit `k` -/
def remZ (x k : Nat) : Nat := x % 2 ^ k + 2 ^ k * (x / 2 ^ (k + 1))

theorem remZ_testBit (x k j : Nat) : (remZ x k).testBit j = if j < k then x.testBit j else x.testBit (j + 1) := by
  unfold remZ
  have hlt : x % 2 ^ k < 2 ^ k := Nat.mod_lt _ (Nat.two_pow_pos k)
  rw [Nat.add_comm, Nat.testBit_two_pow_mul_add _ hlt, Nat.testBit_mod_two_pow, Nat.testBit_div_two_pow]
  by_cases h : j < k
  · simp [h]
  · have e : j - k + (k + 1) = j + 1 := by omega
    simp [h, e]

theorem insZ_remZ (x k : Nat) (h : x.testBit k = false) : insZ (remZ x k) k = x := by
  apply Nat.eq_of_testBit_eq; intro j
  rw [insZ_testBit, remZ_testBit, remZ_testBit]
  by_cases h1 : j < k
  · simp [h1]
  · by_cases h2 : j = k
    · subst h2; simp [h]
    · have h3 : ¬ j - 1 < k := by omega
      have e : j - 1 + 1 = j := by omega
      simp [h1, h2, h3, e]

theorem remZ_lt (x k n : Nat) (hx : x < 2 ^ (n + 1)) (hk : k ≤ n) : remZ x k < 2 ^ n := by
  apply Nat.lt_pow_two_of_testBit
  intro j hj
  rw [remZ_testBit]
  have : ¬ j < k := by omega
  simp only [this, if_false]
  exact Nat.testBit_lt_two_pow (Nat.lt_of_lt_of_le hx (Nat.pow_le_pow_right (by decide) (by omega)))

theorem and_two_pow_ne_zero (x k : Nat) : ((x &&& 2 ^ k) != 0) = x.testBit k := by
  cases h : x.testBit k
  · have : x &&& 2 ^ k = 0 := by
      apply Nat.eq_of_testBit_eq; intro j
      rw [Nat.testBit_and, Nat.testBit_two_pow, Nat.zero_testBit]
      by_cases hj : k = j
      · subst hj; simp [h]
      · simp [hj]
    simp [this]
  · have : (x &&& 2 ^ k).testBit k = true := by
      rw [Nat.testBit_and, Nat.testBit_two_pow_self, h]; rfl
    have hne : x &&& 2 ^ k ≠ 0 := by
      intro h0; rw [h0, Nat.zero_testBit] at this; cases this
    simp [hne]

theorem msbMask_eq (I index : Nat) (hI : I = 2 ∨ I = 3 ∨ I = 4) (hi : index < 16) :
    (1 <<< ((I - 1 + index * I) % U8)) % U64 = 2 ^ (index * I + I - 1) := by
  have h1 : (I - 1 + index * I) % U8 = index * I + I - 1 := by
    rcases hI with h | h | h <;> subst h <;> rw [U8_eq] <;> omega
  rw [h1, Nat.one_shiftLeft]
  apply Nat.mod_eq_of_lt
  rw [U64_eq]
  exact Nat.pow_lt_pow_right (by decide) (by rcases hI with h | h | h <;> subst h <;> omega)

/-- `compress_single_index` drops the top bit of entry `index` -/
theorem compressSingleIndex_eq (I x index : Nat) (hI : I = 2 ∨ I = 3 ∨ I = 4) (hi : index < 16) (hx : x < 2 ^ 64) :
    compressSingleIndex I x index = remZ x (index * I + I - 1) := by
  have hk : index * I + I - 1 < 64 := by rcases hI with h | h | h <;> subst h <;> omega
  have hpow : 2 ^ (index * I + I - 1) < 2 ^ 64 := Nat.pow_lt_pow_right (by decide) hk
  have hpos : 0 < 2 ^ (index * I + I - 1) := Nat.two_pow_pos _
  have hxbit : ∀ j, 64 ≤ j → x.testBit j = false := by
    intro j hj
    exact Nat.testBit_lt_two_pow (Nat.lt_of_lt_of_le hx (Nat.pow_le_pow_right (by decide) hj))
  have hbefore : (2 ^ (index * I + I - 1) + U64 - 1) % U64 = 2 ^ (index * I + I - 1) - 1 := by
    rw [U64_eq]
    generalize 2 ^ (index * I + I - 1) = t at *
    omega
  have hc := compl_testBit (index * I + I - 1)
  simp only [U64_eq] at hc
  apply Nat.eq_of_testBit_eq; intro j
  simp only [compressSingleIndex, msbMask_eq I index hI hi]
  rw [hbefore]
  simp only [U64_eq, Nat.and_two_pow_sub_one_eq_mod,
    Nat.testBit_or, Nat.testBit_and, hc, Nat.testBit_shiftLeft, Nat.testBit_shiftRight, Nat.testBit_mod_two_pow,
    remZ_testBit]
  generalize index * I + I - 1 = K at *
  clear hpow hpos hbefore hc hx
  have hx1 := hxbit (1 + j)
  by_cases h1 : j < K
  · bsimp
  · by_cases h4 : 1 + j < 64
    · bsimp
      have e : j + 1 = 1 + j := by omega
      rw [e]
    · have := hxbit (1 + j) (by omega)
      have e : j + 1 = 1 + j := by omega
      bsimp
      rw [e, this]

/-! ### index entries as fields -/

theorem maxIndex_eq (I : Nat) (hI : I = 2 ∨ I = 3 ∨ I = 4) : MAX_INDEX I = 2 ^ I - 1 := by
  rcases hI with h | h | h <;> subst h <;> decide

theorem indexesMask_eq (I : Nat) (hI : I = 2 ∨ I = 3 ∨ I = 4) : INDEXES_MASK I = 2 ^ (16 * I) - 1 := by
  rcases hI with h | h | h <;> subst h <;> decide

/-- `get(i)` is the `I`-bit field at `i * I` -/
theorem get_eq_fld (I x i : Nat) (hI : I = 2 ∨ I = 3 ∨ I = 4) : get I x i = fld x (i * I) I := by
  have hle : 2 ^ I ≤ U8 := by rcases hI with h | h | h <;> subst h <;> decide
  have hlt : x >>> (i * I) % 2 ^ I < U8 := Nat.lt_of_lt_of_le (Nat.mod_lt _ (Nat.two_pow_pos I)) hle
  simp only [get, fld, maxIndex_eq I hI, Nat.and_two_pow_sub_one_eq_mod, Nat.mod_eq_of_lt hlt]

theorem get_lt (I x i : Nat) (hI : I = 2 ∨ I = 3 ∨ I = 4) : get I x i < 2 ^ I := by
  rw [get_eq_fld I x i hI]; exact Nat.mod_lt _ (Nat.two_pow_pos I)

/-- the decoder's `get_index` on an uncompressed word = the encoder's `get` -/
theorem getIndex_eq_get (I x i : Nat) (hI : I = 2 ∨ I = 3 ∨ I = 4) :
    getIndex ⟨x, I, getMask I⟩ i = get I x i := by
  rw [getIndex_eq x I i (by omega), get_eq_fld I x i hI]

/-- top bit of entry `i` -/
theorem msb_get (I x i : Nat) (hI : I = 2 ∨ I = 3 ∨ I = 4) :
    (get I x i).testBit (I - 1) = x.testBit (i * I + I - 1) := by
  rw [get_eq_fld I x i hI, fld_testBit]
  have : I - 1 < I := by omega
  have e : i * I + (I - 1) = i * I + I - 1 := by omega
  simp [this, e]

theorem fld_xor (x m q n : Nat) : fld (x ^^^ m) q n = fld x q n ^^^ fld m q n := by
  apply Nat.eq_of_testBit_eq; intro j
  simp only [fld_testBit, Nat.testBit_xor]
  by_cases hj : j < n <;> simp [hj]

theorem xor_max (I : Nat) (hI : I = 2 ∨ I = 3 ∨ I = 4) : ∀ v, v < 2 ^ I → v ^^^ (2 ^ I - 1) = 2 ^ I - 1 - v := by
  rcases hI with h | h | h <;> subst h <;> decide

theorem inv_msb (I : Nat) (hI : I = 2 ∨ I = 3 ∨ I = 4) :
    ∀ v, v < 2 ^ I → v.testBit (I - 1) = true → (2 ^ I - 1 - v).testBit (I - 1) = false := by
  rcases hI with h | h | h <;> subst h <;> decide

/-- `m` is exactly the union of the `I`-bit groups of the pixels selected by `S` -/
def IsMask (I m : Nat) (S : Nat → Bool) : Prop :=
  m < 2 ^ (16 * I) ∧ ∀ i, i < 16 → fld m (i * I) I = if S i then 2 ^ I - 1 else 0

/-- flipping a subset's mask inverts exactly that subset's indexes -/
theorem get_xor_mask (I x m : Nat) (S : Nat → Bool) (hI : I = 2 ∨ I = 3 ∨ I = 4) (hm : IsMask I m S) (i : Nat)
    (hi : i < 16) : get I (x ^^^ m) i = if S i then 2 ^ I - 1 - get I x i else get I x i := by
  rw [get_eq_fld _ _ _ hI, get_eq_fld _ _ _ hI, fld_xor, hm.2 i hi]
  cases S i
  · simp
  · simp only [if_true]
    exact xor_max I hI _ (Nat.mod_lt _ (Nat.two_pow_pos I))

/-- one `ensure_msb_zero(a, mask)` with the mask of a subset that contains pixel `a` -/
theorem ensure_step (I x a m : Nat) (S : Nat → Bool) (hI : I = 2 ∨ I = 3 ∨ I = 4) (ha : a < 16)
    (hx : x < 2 ^ (16 * I)) (hm : IsMask I m S) (hSa : S a = true) :
    (ensureMsbZero I x a m).1 < 2 ^ (16 * I) ∧
    (ensureMsbZero I x a m).1.testBit (a * I + I - 1) = false ∧
    ∀ i, i < 16 → get I (ensureMsbZero I x a m).1 i =
      if (ensureMsbZero I x a m).2 && S i then 2 ^ I - 1 - get I x i else get I x i := by
  have hsw : (ensureMsbZero I x a m).2 = x.testBit (a * I + I - 1) := by
    simp only [ensureMsbZero, msbMask_eq I a hI ha, and_two_pow_ne_zero]
  have hval : (ensureMsbZero I x a m).1 = if x.testBit (a * I + I - 1) then x ^^^ m else x := by
    simp only [ensureMsbZero, msbMask_eq I a hI ha, and_two_pow_ne_zero]
  rw [hsw, hval]
  cases hb : x.testBit (a * I + I - 1)
  · simp only [Bool.false_eq_true, if_false, Bool.false_and]
    exact ⟨hx, hb, fun _ _ => trivial⟩
  · simp only [if_true, Bool.true_and]
    refine ⟨Nat.xor_lt_two_pow hx hm.1, ?_, fun i hi => get_xor_mask I x m S hI hm i hi⟩
    rw [← msb_get I _ a hI, get_xor_mask I x m S hI hm a ha, hSa]
    simp only [if_true]
    apply inv_msb I hI _ (get_lt I x a hI)
    rw [msb_get I x a hI, hb]

/-- entries equal ⇒ top bits equal -/
theorem testBit_of_get_eq (I x y i : Nat) (hI : I = 2 ∨ I = 3 ∨ I = 4) (h : get I x i = get I y i) :
    x.testBit (i * I + I - 1) = y.testBit (i * I + I - 1) := by
  rw [← msb_get I x i hI, ← msb_get I y i hI, h]

/-! ### decoder ∘ encoder on the index word -/

theorem pow_pred_lt (I : Nat) (hI : I = 2 ∨ I = 3 ∨ I = 4) (x : Nat) (hx : x < 2 ^ (16 * I)) : x < 2 ^ 64 :=
  Nat.lt_of_lt_of_le hx (Nat.pow_le_pow_right (by decide) (by omega))

/-- one subset: `Indexes::new_p1` undoes `compress_single_index(·, 0)` -/
theorem newP1_compress (I x : Nat) (rest : List (Nat × Nat)) (hI : I = 2 ∨ I = 3 ∨ I = 4) (hx : x < 2 ^ (16 * I))
    (h0 : x.testBit (0 * I + I - 1) = false) :
    compressSingleIndex I x 0 < 2 ^ (16 * I - 1) ∧
    newP1 I (fv ((compressSingleIndex I x 0, 16 * I - 1) :: rest)) = (⟨x, I, getMask I⟩, fv rest) := by
  have hx64 := pow_pred_lt I hI x hx
  have e : 16 * I = (16 * I - 1) + 1 := by omega
  have hc : compressSingleIndex I x 0 < 2 ^ (16 * I - 1) := by
    rw [compressSingleIndex_eq I x 0 hI (by decide) hx64]
    exact remZ_lt x _ _ (by rw [← e]; exact hx) (by omega)
  refine ⟨hc, ?_⟩
  simp only [newP1, consumeBits64_fv _ _ rest (by omega : 16 * I - 1 < 64) hc,
    decompressSingleIndex_eq I _ 0 hI (by decide) hc]
  rw [compressSingleIndex_eq I x 0 hI (by decide) hx64, insZ_remZ x _ h0]

/-- two subsets, anchors `0 < f2` -/
theorem newP2_compress (I x f2 : Nat) (rest : List (Nat × Nat)) (hI : I = 2 ∨ I = 3 ∨ I = 4) (hx : x < 2 ^ (16 * I))
    (hf : 0 < f2) (hf' : f2 < 16)
    (h0 : x.testBit (0 * I + I - 1) = false) (h2 : x.testBit (f2 * I + I - 1) = false) :
    compressSingleIndex I (compressSingleIndex I x f2) 0 < 2 ^ (16 * I - 2) ∧
    newP2 I (fv ((compressSingleIndex I (compressSingleIndex I x f2) 0, 16 * I - 2) :: rest)) f2 =
      (⟨x, I, getMask I⟩, fv rest) := by
  have hx64 := pow_pred_lt I hI x hx
  have e1 : 16 * I = (16 * I - 1) + 1 := by omega
  have e2 : 16 * I - 1 = (16 * I - 2) + 1 := by omega
  have k02 : 0 * I + I - 1 < f2 * I + I - 1 := by rcases hI with h | h | h <;> subst h <;> omega
  have k2 : f2 * I + I - 1 ≤ 16 * I - 1 := by rcases hI with h | h | h <;> subst h <;> omega
  have hc2 : remZ x (f2 * I + I - 1) < 2 ^ (16 * I - 1) := remZ_lt x _ _ (by rw [← e1]; exact hx) k2
  have hc264 : remZ x (f2 * I + I - 1) < 2 ^ 64 :=
    Nat.lt_of_lt_of_le hc2 (Nat.pow_le_pow_right (by decide) (by omega))
  have hc0 : remZ (remZ x (f2 * I + I - 1)) (0 * I + I - 1) < 2 ^ (16 * I - 2) :=
    remZ_lt _ _ _ (by rw [← e2]; exact hc2) (by omega)
  have hc0' : remZ (remZ x (f2 * I + I - 1)) (0 * I + I - 1) < 2 ^ (16 * I - 1) :=
    Nat.lt_of_lt_of_le hc0 (Nat.pow_le_pow_right (by decide) (by omega))
  have hb0 : (remZ x (f2 * I + I - 1)).testBit (0 * I + I - 1) = false := by
    rw [remZ_testBit]; simp only [k02, if_true]; exact h0
  rw [compressSingleIndex_eq I x f2 hI hf' hx64, compressSingleIndex_eq I _ 0 hI (by decide) hc264]
  refine ⟨hc0, ?_⟩
  simp only [newP2, consumeBits64_fv _ _ rest (by omega : 16 * I - 2 < 64) hc0,
    decompressSingleIndex_eq I _ 0 hI (by decide) hc0']
  rw [insZ_remZ _ _ hb0, decompressSingleIndex_eq I _ f2 hI hf' hc2, insZ_remZ x _ h2]

/-- three subsets, anchors `0 < f2 < f3` (position order, as stored in `Subset3Map`) -/
theorem newP3_compress (I x f2 f3 : Nat) (rest : List (Nat × Nat)) (hI : I = 2 ∨ I = 3) (hx : x < 2 ^ (16 * I))
    (hf : 0 < f2) (hf23 : f2 < f3) (hf' : f3 < 16)
    (h0 : x.testBit (0 * I + I - 1) = false) (h2 : x.testBit (f2 * I + I - 1) = false)
    (h3 : x.testBit (f3 * I + I - 1) = false) :
    compressSingleIndex I (compressSingleIndex I (compressSingleIndex I x f3) f2) 0 < 2 ^ (16 * I - 3) ∧
    newP3 I (fv ((compressSingleIndex I (compressSingleIndex I (compressSingleIndex I x f3) f2) 0, 16 * I - 3) :: rest))
      f2 f3 = (⟨x, I, getMask I⟩, fv rest) := by
  have hI' : I = 2 ∨ I = 3 ∨ I = 4 := by omega
  have hx64 := pow_pred_lt I hI' x hx
  have e1 : 16 * I = (16 * I - 1) + 1 := by omega
  have e2 : 16 * I - 1 = (16 * I - 2) + 1 := by omega
  have e3 : 16 * I - 2 = (16 * I - 3) + 1 := by omega
  have k02 : 0 * I + I - 1 < f2 * I + I - 1 := by rcases hI with h | h <;> subst h <;> omega
  have k23 : f2 * I + I - 1 < f3 * I + I - 1 := by rcases hI with h | h <;> subst h <;> omega
  have k3 : f3 * I + I - 1 ≤ 16 * I - 1 := by rcases hI with h | h <;> subst h <;> omega
  have hc3 : remZ x (f3 * I + I - 1) < 2 ^ (16 * I - 1) := remZ_lt x _ _ (by rw [← e1]; exact hx) k3
  have hc364 : remZ x (f3 * I + I - 1) < 2 ^ 64 :=
    Nat.lt_of_lt_of_le hc3 (Nat.pow_le_pow_right (by decide) (by omega))
  have hc2 : remZ (remZ x (f3 * I + I - 1)) (f2 * I + I - 1) < 2 ^ (16 * I - 2) :=
    remZ_lt _ _ _ (by rw [← e2]; exact hc3) (by omega)
  have hc2' : remZ (remZ x (f3 * I + I - 1)) (f2 * I + I - 1) < 2 ^ (16 * I - 1) :=
    Nat.lt_of_lt_of_le hc2 (Nat.pow_le_pow_right (by decide) (by omega))
  have hc264 : remZ (remZ x (f3 * I + I - 1)) (f2 * I + I - 1) < 2 ^ 64 :=
    Nat.lt_of_lt_of_le hc2 (Nat.pow_le_pow_right (by decide) (by omega))
  have hc0 : remZ (remZ (remZ x (f3 * I + I - 1)) (f2 * I + I - 1)) (0 * I + I - 1) < 2 ^ (16 * I - 3) :=
    remZ_lt _ _ _ (by rw [← e3]; exact hc2) (by omega)
  have hc0' : remZ (remZ (remZ x (f3 * I + I - 1)) (f2 * I + I - 1)) (0 * I + I - 1) < 2 ^ (16 * I - 1) :=
    Nat.lt_of_lt_of_le hc0 (Nat.pow_le_pow_right (by decide) (by omega))
  have hb2 : (remZ x (f3 * I + I - 1)).testBit (f2 * I + I - 1) = false := by
    rw [remZ_testBit]; simp only [k23, if_true]; exact h2
  have hb0 : (remZ (remZ x (f3 * I + I - 1)) (f2 * I + I - 1)).testBit (0 * I + I - 1) = false := by
    rw [remZ_testBit]; simp only [k02, if_true]
    rw [remZ_testBit]; simp only [Nat.lt_trans k02 k23, if_true]; exact h0
  rw [compressSingleIndex_eq I x f3 hI' hf' hx64, compressSingleIndex_eq I _ f2 hI' (by omega) hc364,
    compressSingleIndex_eq I _ 0 hI' (by decide) hc264]
  refine ⟨hc0, ?_⟩
  simp only [newP3, consumeBits64_fv _ _ rest (by omega : 16 * I - 3 < 64) hc0,
    decompressSingleIndex_eq I _ 0 hI' (by decide) hc0']
  rw [insZ_remZ _ _ hb0, decompressSingleIndex_eq I _ f2 hI' (by omega) hc2', insZ_remZ _ _ hb2,
    decompressSingleIndex_eq I _ f3 hI' hf' hc3, insZ_remZ x _ h3]

end Dds.Enc7
