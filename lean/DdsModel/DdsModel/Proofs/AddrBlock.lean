/-
Helper lemmas for C05: block family (`general_process_blocks`, 4x4 / 2x1 helpers,
`ChannelConversionBuffer::process_blocks`, the block-line loops).
-/
import DdsModel.Proofs.Addr
namespace Dds.Addr
open Dds

/-- contract of a `ProcessBlocksFn` call on range `r` (block width `bw`): every run stays in the
range, inside one block, and column `c` of row `y` comes from pixel `(wo + c) % bw` of block
`(wo + c) / bw` of the slice, row `y` of the block; every pixel of the range is written. -/
structure ProcSpec (bw : Nat) (r : PRange) (runs : List Run) : Prop where
  sound : ∀ x ∈ runs, x.row + r.rs = x.py ∧ x.py < r.re ∧ x.uy = 0 ∧ 0 < x.n ∧ x.col + x.n ≤ r.width ∧
    x.px + x.n ≤ bw ∧ x.ux * bw + x.px = r.wo + x.col
  cover : ∀ c y, c < r.width → r.rs ≤ y → y < r.re →
    ∃ x ∈ runs, x.row + r.rs = y ∧ x.col ≤ c ∧ c < x.col + x.n

theorem mem_genRows {r : PRange} {pixelX blockW bi pox : Nat} {x : Run} :
    x ∈ genRows r pixelX blockW bi pox ↔
      ∃ y, r.rs ≤ y ∧ y < r.rs + (r.re - r.rs) ∧ x = ⟨y - r.rs, pixelX, blockW, bi, 0, pox, y⟩ := by
  unfold genRows
  simp only [List.mem_map, List.mem_range'_1]
  constructor
  · rintro ⟨y, ⟨h1, h2⟩, rfl⟩; exact ⟨y, h1, h2, rfl⟩
  · rintro ⟨y, h1, h2, rfl⟩; exact ⟨y, ⟨h1, h2⟩, rfl⟩

theorem genLoop_sound (bw : Nat) (r : PRange) (hwo : r.wo < bw) (hw : 0 < r.width) :
    ∀ todo bi pX, (bi = 0 → pX = 0) → (0 < bi → pX + r.wo = bi * bw) →
      (∀ j, j < todo → (bi + j) * bw < r.wo + r.width) →
      ∀ x ∈ genLoop bw r todo bi pX, x.row + r.rs = x.py ∧ x.py < r.re ∧ x.uy = 0 ∧ 0 < x.n ∧
        x.col + x.n ≤ r.width ∧ x.px + x.n ≤ bw ∧ x.ux * bw + x.px = r.wo + x.col := by
  intro todo
  induction todo with
  | zero => intro bi pX _ _ _ x hx; simp [genLoop] at hx
  | succ todo ih =>
    intro bi pX h0 h1 hall x hx
    unfold genLoop at hx
    simp only [List.mem_append] at hx
    have hb0 := hall 0 (by omega)
    simp only [Nat.add_zero] at hb0
    have esucc : (bi + 1) * bw = bi * bw + bw := Nat.succ_mul bi bw
    rcases hx with hx | hx
    · obtain ⟨y, hy1, hy2, rfl⟩ := mem_genRows.1 hx
      by_cases hbi : bi = 0
      · subst hbi
        have := h0 rfl
        subst this
        simp only [if_true, Nat.zero_mul] at *
        refine ⟨by show y - r.rs + r.rs = y; omega, by show y < r.re; omega, by first | rfl | trivial, ?_, ?_, ?_, ?_⟩
        · show 0 < min (min (bw - r.wo) r.width) (r.width + r.wo - 0); omega
        · show 0 + min (min (bw - r.wo) r.width) (r.width + r.wo - 0) ≤ r.width; omega
        · show r.wo + min (min (bw - r.wo) r.width) (r.width + r.wo - 0) ≤ bw; omega
        · show 0 + r.wo = r.wo + 0; omega
      · have hpos : 0 < bi := Nat.pos_of_ne_zero hbi
        have hinv := h1 hpos
        simp only [hbi, if_false] at *
        refine ⟨by show y - r.rs + r.rs = y; omega, by show y < r.re; omega, by first | rfl | trivial, ?_, ?_, ?_, ?_⟩
        · show 0 < min (min (bw - 0) r.width) (r.width + r.wo - bi * bw); omega
        · show pX + min (min (bw - 0) r.width) (r.width + r.wo - bi * bw) ≤ r.width; omega
        · show 0 + min (min (bw - 0) r.width) (r.width + r.wo - bi * bw) ≤ bw; omega
        · show bi * bw + 0 = r.wo + pX; omega
    · cases todo with
      | zero => simp [genLoop] at hx
      | succ t =>
        have hb1 := hall 1 (by omega)
        apply ih (bi + 1) _ (by omega) _ _ x hx
        · intro _
          by_cases hbi : bi = 0
          · subst hbi
            have := h0 rfl
            subst this
            simp only [if_true, Nat.zero_mul, Nat.zero_add] at *
            omega
          · have hinv := h1 (Nat.pos_of_ne_zero hbi)
            have : bw ≤ bi * bw := Nat.le_mul_of_pos_left bw (Nat.pos_of_ne_zero hbi)
            simp only [hbi, if_false]
            omega
        · intro j hj
          have := hall (j + 1) (by omega)
          rwa [show bi + (j + 1) = bi + 1 + j by omega] at this

theorem genLoop_cover (bw : Nat) (r : PRange) (hwo : r.wo < bw) :
    ∀ todo bi pX, (bi = 0 → pX = 0) → (0 < bi → pX + r.wo = bi * bw) →
      (∀ j, j < todo → (bi + j) * bw < r.wo + r.width) → r.wo + r.width ≤ (bi + todo) * bw →
      ∀ c y, pX ≤ c → c < r.width → r.rs ≤ y → y < r.re →
        ∃ x ∈ genLoop bw r todo bi pX, x.row + r.rs = y ∧ x.col ≤ c ∧ c < x.col + x.n := by
  intro todo
  induction todo with
  | zero =>
    intro bi pX h0 h1 _ hend c y hc1 hc2 _ _
    exfalso
    simp only [Nat.add_zero] at hend
    by_cases hbi : bi = 0
    · subst hbi; simp at hend; omega
    · have := h1 (Nat.pos_of_ne_zero hbi); omega
  | succ todo ih =>
    intro bi pX h0 h1 hall hend c y hc1 hc2 hy1 hy2
    have hb0 := hall 0 (by omega)
    simp only [Nat.add_zero] at hb0
    have esucc : (bi + 1) * bw = bi * bw + bw := Nat.succ_mul bi bw
    unfold genLoop
    simp only [List.mem_append]
    -- the block width of this iteration
    by_cases hin : c < pX + min (min (bw - (if bi = 0 then r.wo else 0)) r.width) (r.width + r.wo - bi * bw)
    · refine ⟨⟨y - r.rs, pX, _, bi, 0, _, y⟩, Or.inl (mem_genRows.2 ⟨y, hy1, by omega, rfl⟩), ?_, hc1, hin⟩
      show y - r.rs + r.rs = y
      omega
    · cases todo with
      | zero =>
        exfalso
        rw [show bi + (0 + 1) = bi + 1 by omega] at hend
        by_cases hbi : bi = 0
        · subst hbi
          have := h0 rfl
          subst this
          simp only [if_true, Nat.zero_mul, Nat.zero_add] at *
          omega
        · have hinv := h1 (Nat.pos_of_ne_zero hbi)
          simp only [hbi, if_false] at hin
          omega
      | succ t =>
        have hb1 := hall 1 (by omega)
        obtain ⟨x, hx, hx'⟩ := ih (bi + 1) (pX + min (min (bw - (if bi = 0 then r.wo else 0)) r.width) (r.width + r.wo - bi * bw))
          (by omega)
          (by
            intro _
            by_cases hbi : bi = 0
            · subst hbi
              have := h0 rfl
              subst this
              simp only [if_true, Nat.zero_mul, Nat.zero_add] at *
              omega
            · have hinv := h1 (Nat.pos_of_ne_zero hbi)
              have : bw ≤ bi * bw := Nat.le_mul_of_pos_left bw (Nat.pos_of_ne_zero hbi)
              simp only [hbi, if_false]
              omega)
          (by
            intro j hj
            have := hall (j + 1) (by omega)
            rwa [show bi + (j + 1) = bi + 1 + j by omega] at this)
          (by rwa [show bi + 1 + (t + 1) = bi + (t + 1 + 1) by omega])
          c y (by omega) hc2 hy1 hy2
        exact ⟨x, Or.inr hx, hx'⟩

/-- preconditions under which the callers invoke a `ProcessBlocksFn` -/
structure ProcPre (bw : Nat) (r : PRange) (nb : Nat) : Prop where
  bw_pos : 0 < bw
  wo : r.wo < bw
  width : 0 < r.width
  rows : r.rs < r.re
  nb : nb = divCeil (r.wo + r.width) bw

theorem procGeneral_spec (bw : Nat) (r : PRange) (nb : Nat) (h : ProcPre bw r nb) :
    ProcSpec bw r (procGeneral bw r nb) := by
  obtain ⟨hbw, hwo, hw, hrows, hnb⟩ := h
  have hall : ∀ j, j < nb → (0 + j) * bw < r.wo + r.width := by
    intro j hj
    rw [hnb, lt_divCeil_iff hbw] at hj
    simpa using hj
  have hend : r.wo + r.width ≤ (0 + nb) * bw := by
    rw [hnb, Nat.zero_add]
    exact (divCeil_spec _ bw hbw).1
  unfold procGeneral
  constructor
  · exact genLoop_sound bw r hwo hw nb 0 0 (fun _ => rfl) (fun h => absurd h (by omega)) hall
  · intro c y hc hy1 hy2
    exact genLoop_cover bw r hwo nb 0 0 (fun _ => rfl) (fun h => absurd h (by omega)) hall hend c y
      (Nat.zero_le _) hc hy1 hy2

theorem ProcSpec.nil (bw wo rs re : Nat) : ProcSpec bw ⟨0, wo, rs, re⟩ [] :=
  ⟨fun x hx => by simp at hx, fun c y hc => by simp at hc⟩

theorem Run.shift_zero (x : Run) : Run.shift 0 0 0 0 x = x := by
  cases x; rfl

/-- first (offset) block handled separately, the rest shifted by one block -/
theorem ProcSpec.split {bw width wo rs re ow : Nat} {A B : List Run}
    (how : ow ≤ width) (hfull : 0 < width - ow → wo + ow = bw)
    (hA : ProcSpec bw ⟨ow, wo, rs, re⟩ A) (hB : ProcSpec bw ⟨width - ow, 0, rs, re⟩ B) :
    ProcSpec bw ⟨width, wo, rs, re⟩ (A ++ B.map (Run.shift 0 ow 1 0)) := by
  constructor
  · intro x hx
    simp only [List.mem_append, List.mem_map] at hx
    rcases hx with hx | ⟨x0, hx0, rfl⟩
    · obtain ⟨a1, a2, a3, a4, a5, a6, a7⟩ := hA.sound x hx
      exact ⟨a1, a2, a3, a4, by show x.col + x.n ≤ width; simp only at a5; omega, a6, a7⟩
    · obtain ⟨a1, a2, a3, a4, a5, a6, a7⟩ := hB.sound x0 hx0
      simp only at a1 a2 a5 a7
      have hf := hfull (by omega)
      have e : (x0.ux + 1) * bw = x0.ux * bw + bw := Nat.succ_mul _ _
      unfold Run.shift
      refine ⟨by show x0.row + 0 + rs = x0.py; omega, a2, by show x0.uy + 0 = 0; omega, a4,
        by show x0.col + ow + x0.n ≤ width; omega, a6, ?_⟩
      show (x0.ux + 1) * bw + x0.px = wo + (x0.col + ow)
      omega
  · intro c y hc hy1 hy2
    simp only at hc hy1 hy2
    by_cases h : c < ow
    · obtain ⟨x, hx, h1, h2, h3⟩ := hA.cover c y h hy1 hy2
      exact ⟨x, List.mem_append.2 (Or.inl hx), h1, h2, h3⟩
    · obtain ⟨x, hx, h1, h2, h3⟩ := hB.cover (c - ow) y (by show c - ow < width - ow; omega) hy1 hy2
      refine ⟨Run.shift 0 ow 1 0 x, List.mem_append.2 (Or.inr (List.mem_map.2 ⟨x, hx, rfl⟩)), ?_, ?_, ?_⟩
      · show x.row + 0 + rs = y; simp only at h1; omega
      · show x.col + ow ≤ c; omega
      · show c < x.col + ow + x.n; omega

/-- conversion chunks of a range without width offset -/
theorem ProcSpec.chunks {bw width rs re pref : Nat} (hpref : 0 < pref)
    (hdvd : pref % bw = 0) (f : Nat → List Run)
    (hf : ∀ cs, cs ∈ stepStarts width pref →
      ProcSpec bw ⟨min (cs + pref) width - cs, 0, rs, re⟩ (f cs)) :
    ProcSpec bw ⟨width, 0, rs, re⟩
      ((stepStarts width pref).flatMap fun cs => (f cs).map (Run.shift 0 cs (cs / bw) 0)) := by
  have hmul : ∀ k, (k * pref) / bw * bw = k * pref := by
    intro k
    apply Nat.div_mul_cancel
    exact Nat.dvd_trans (Nat.dvd_of_mod_eq_zero hdvd) (Nat.dvd_mul_left pref k)
  constructor
  · intro x hx
    simp only [List.mem_flatMap, List.mem_map] at hx
    obtain ⟨cs, hcs, x0, hx0, rfl⟩ := hx
    obtain ⟨a1, a2, a3, a4, a5, a6, a7⟩ := (hf cs hcs).sound x0 hx0
    obtain ⟨k, hk, rfl⟩ := (mem_stepStarts hpref).1 hcs
    simp only at a1 a2 a5 a7
    have e : (x0.ux + k * pref / bw) * bw = x0.ux * bw + k * pref := by rw [Nat.add_mul, hmul]
    unfold Run.shift
    refine ⟨by show x0.row + 0 + rs = x0.py; omega, a2, by show x0.uy + 0 = 0; omega, a4,
      by show x0.col + k * pref + x0.n ≤ width; omega, a6, ?_⟩
    show (x0.ux + k * pref / bw) * bw + x0.px = 0 + (x0.col + k * pref)
    omega
  · intro c y hc hy1 hy2
    simp only at hc hy1 hy2
    obtain ⟨h1, h2, h3⟩ := chunk_of hpref hc
    have hmem : c / pref * pref ∈ stepStarts width pref := (mem_stepStarts hpref).2 ⟨c / pref, h1, rfl⟩
    obtain ⟨x, hx, g1, g2, g3⟩ := (hf _ hmem).cover (c - c / pref * pref) y
      (by show c - c / pref * pref < min (c / pref * pref + pref) width - c / pref * pref; omega) hy1 hy2
    refine ⟨Run.shift 0 (c / pref * pref) (c / pref * pref / bw) 0 x, ?_, ?_, ?_, ?_⟩
    · simp only [List.mem_flatMap, List.mem_map]
      exact ⟨_, hmem, x, hx, rfl⟩
    · show x.row + 0 + rs = y; simp only at g1; omega
    · show x.col + c / pref * pref ≤ c; omega
    · show c < x.col + c / pref * pref + x.n; omega

theorem divCeil_add_self (n b : Nat) (hb : 0 < b) : divCeil (n + b) b = divCeil n b + 1 := by
  rw [divCeil_eq _ _ hb, divCeil_eq _ _ hb]
  rw [show n + b + b - 1 = (n + b - 1) + b by omega, Nat.add_div_right _ hb]

theorem divCeil_le_one {n b : Nat} (hb : 0 < b) (hn : 0 < n) (hle : n ≤ b) : divCeil n b = 1 := by
  have h1 : 0 < divCeil n b := divCeil_pos hb hn
  have h2 : ¬ 1 < divCeil n b := by
    rw [lt_divCeil_iff hb]; omega
  omega

theorem fast4_spec (width : Nat) : ProcSpec 4 ⟨width, 0, 0, 4⟩ (fast4 width) := by
  unfold fast4
  constructor
  · intro x hx
    simp only [List.mem_append, List.mem_flatMap, List.mem_map, List.mem_range] at hx
    rcases hx with ⟨bi, hbi, y, hy, rfl⟩ | hx
    · refine ⟨rfl, hy, rfl, by show 0 < 4; omega, ?_, by show 0 + 4 ≤ 4; omega, ?_⟩
      · show bi * 4 + 4 ≤ width; omega
      · show bi * 4 + 0 = 0 + bi * 4; omega
    · by_cases h : width % 4 ≠ 0
      · rw [if_pos h] at hx
        simp only [List.mem_map, List.mem_range] at hx
        obtain ⟨y, hy, rfl⟩ := hx
        refine ⟨rfl, hy, rfl, ?_, ?_, ?_, ?_⟩
        · show 0 < width - width / 4 * 4; omega
        · show width / 4 * 4 + (width - width / 4 * 4) ≤ width; omega
        · show 0 + (width - width / 4 * 4) ≤ 4; omega
        · show width / 4 * 4 + 0 = 0 + width / 4 * 4; omega
      · rw [if_neg h] at hx; simp at hx
  · intro c y hc hy1 hy2
    simp only at hc hy1 hy2
    simp only [List.mem_append, List.mem_flatMap, List.mem_map, List.mem_range]
    by_cases h : c / 4 < width / 4
    · exact ⟨⟨y, c / 4 * 4, 4, c / 4, 0, 0, y⟩, Or.inl ⟨c / 4, h, y, hy2, rfl⟩, rfl,
        by show c / 4 * 4 ≤ c; omega, by show c < c / 4 * 4 + 4; omega⟩
    · have h4 : width % 4 ≠ 0 := by omega
      refine ⟨⟨y, width / 4 * 4, width - width / 4 * 4, width / 4, 0, 0, y⟩, Or.inr ?_, rfl,
        by show width / 4 * 4 ≤ c; omega, by show c < width / 4 * 4 + (width - width / 4 * 4); omega⟩
      rw [if_pos h4]
      simp only [List.mem_map, List.mem_range]
      exact ⟨y, hy2, rfl⟩

theorem proc4_spec (fast : Bool) (r : PRange) (nb : Nat) (h : ProcPre 4 r nb) (hre : r.re ≤ 4) :
    ProcSpec 4 r (proc4 fast r nb) := by
  obtain ⟨_, hwo, hw, hrows, hnb⟩ := h
  obtain ⟨width, wo, rs, re⟩ := r
  simp only at hwo hw hrows hnb hre
  unfold proc4
  simp only
  by_cases h0 : wo = 0
  · subst h0
    simp only [bne_self_eq_false, Bool.false_and, Bool.false_eq_true, if_false, List.nil_append]
    have hid : ∀ l : List Run, l.map (Run.shift 0 0 0 0) = l := by
      intro l; induction l with
      | nil => rfl
      | cons a l ih => simp [Run.shift_zero, ih]
    rw [hid]
    by_cases hf : re - rs = 4 ∧ fast = true
    · rw [if_pos hf]
      have : rs = 0 ∧ re = 4 := by omega
      obtain ⟨rfl, rfl⟩ := this
      exact fast4_spec width
    · rw [if_neg hf]
      exact procGeneral_spec 4 _ nb ⟨by omega, hwo, hw, hrows, hnb⟩
  · have hpw : 0 < min (4 - wo) width := by omega
    have hh : (wo != 0 && min (4 - wo) width != 0) = true := by
      simp only [bne_iff_ne, ne_eq, Bool.and_eq_true]; omega
    simp only [hh, if_true]
    have hA : ProcSpec 4 ⟨min (4 - wo) width, wo, rs, re⟩ (procGeneral 4 ⟨min (4 - wo) width, wo, rs, re⟩ 1) := by
      apply procGeneral_spec
      exact ⟨by omega, hwo, hpw, hrows, (divCeil_le_one (by omega) (by simp only; omega) (by simp only; omega)).symm⟩
    apply ProcSpec.split (by omega) (by omega) hA
    by_cases hz : width - min (4 - wo) width = 0
    · rw [hz]
      have hnb1 : nb = 1 := by
        rw [hnb]; exact divCeil_le_one (by omega) (by omega) (by omega)
      subst hnb1
      have : (if re - rs = 4 ∧ fast = true then fast4 0 else procGeneral 4 ⟨0, 0, rs, re⟩ (1 - 1)) = [] := by
        by_cases hf : re - rs = 4 ∧ fast = true
        · rw [if_pos hf]; rfl
        · rw [if_neg hf]; rfl
      rw [this]
      exact ProcSpec.nil 4 0 rs re
    · have hw' : 0 < width - min (4 - wo) width := Nat.pos_of_ne_zero hz
      have hnb' : nb - 1 = divCeil (0 + (width - min (4 - wo) width)) 4 := by
        rw [hnb, show wo + width = (width - min (4 - wo) width) + 4 by omega, divCeil_add_self _ _ (by omega)]
        simp
      by_cases hf : re - rs = 4 ∧ fast = true
      · rw [if_pos hf]
        have : rs = 0 ∧ re = 4 := by omega
        obtain ⟨rfl, rfl⟩ := this
        exact fast4_spec _
      · rw [if_neg hf]
        exact procGeneral_spec 4 _ _ ⟨by omega, by simp only; omega, hw', hrows, hnb'⟩

theorem proc2_spec (r : PRange) (nb : Nat) (h : ProcPre 2 r nb) (hre : r.re ≤ 1) :
    ProcSpec 2 r (proc2 r nb) := by
  obtain ⟨_, hwo, hw, hrows, hnb⟩ := h
  obtain ⟨width, wo, rs, re⟩ := r
  simp only at hwo hw hrows hnb hre
  have hr : rs = 0 ∧ re = 1 := by omega
  obtain ⟨rfl, rfl⟩ := hr
  have hnb2 : nb = (if (wo + width) % 2 > 0 then (wo + width) / 2 + 1 else (wo + width) / 2) := by
    rw [hnb]; rfl
  unfold proc2
  simp only
  by_cases h1 : wo = 1
  · subst h1
    simp only [beq_self_eq_true, if_true]
    constructor
    · intro x hx
      simp only [List.mem_append, List.mem_singleton, List.mem_map, List.mem_range] at hx
      rcases hx with (rfl | ⟨i, hi, rfl⟩) | hx
      · exact ⟨rfl, by simp, rfl, by simp, by show 0 + 1 ≤ width; omega, by simp, by simp⟩
      · refine ⟨rfl, by simp, rfl, by simp, ?_, by simp, ?_⟩
        · show 1 + 2 * i + 2 ≤ width; split at hnb2 <;> omega
        · show (1 + i) * 2 + 0 = 1 + (1 + 2 * i); omega
      · by_cases hl : (width - 1) % 2 = 1
        · rw [if_pos hl] at hx
          simp only [List.mem_singleton] at hx
          subst hx
          refine ⟨rfl, by simp, rfl, by simp, ?_, by simp, ?_⟩
          · show 1 + (width - 1 - 1) + 1 ≤ width; omega
          · show (1 + (nb - 1 - 1)) * 2 + 0 = 1 + (1 + (width - 1 - 1)); split at hnb2 <;> omega
        · rw [if_neg hl] at hx; simp at hx
    · intro c y hc hy1 hy2
      simp only at hc hy1 hy2
      have hy : y = 0 := by omega
      subst hy
      simp only [List.mem_append, List.mem_singleton, List.mem_map, List.mem_range]
      by_cases hc0 : c = 0
      · exact ⟨_, Or.inl (Or.inl rfl), rfl, by show 0 ≤ c; omega, by show c < 0 + 1; omega⟩
      · by_cases hp : (c - 1) / 2 < min (nb - 1) ((width - 1) / 2)
        · exact ⟨⟨0, 1 + 2 * ((c - 1) / 2), 2, 1 + (c - 1) / 2, 0, 0, 0⟩, Or.inl (Or.inr ⟨_, hp, rfl⟩), rfl,
            by show 1 + 2 * ((c - 1) / 2) ≤ c; omega, by show c < 1 + 2 * ((c - 1) / 2) + 2; omega⟩
        · have hl : (width - 1) % 2 = 1 := by split at hnb2 <;> omega
          refine ⟨⟨0, 1 + (width - 1 - 1), 1, 1 + (nb - 1 - 1), 0, 0, 0⟩, Or.inr ?_, rfl,
            by show 1 + (width - 1 - 1) ≤ c; split at hnb2 <;> omega,
            by show c < 1 + (width - 1 - 1) + 1; omega⟩
          rw [if_pos hl]; simp
  · have h0 : wo = 0 := by omega
    subst h0
    simp only [show ((0 : Nat) == 1) = false from rfl, Bool.false_eq_true, if_false, List.nil_append]
    constructor
    · intro x hx
      simp only [List.mem_append, List.mem_map, List.mem_range] at hx
      rcases hx with ⟨i, hi, rfl⟩ | hx
      · refine ⟨rfl, by simp, rfl, by simp, ?_, by simp, ?_⟩
        · show 0 + 2 * i + 2 ≤ width; omega
        · show (0 + i) * 2 + 0 = 0 + (0 + 2 * i); omega
      · by_cases hl : width % 2 = 1
        · rw [if_pos hl] at hx
          simp only [List.mem_singleton] at hx
          subst hx
          refine ⟨rfl, by simp, rfl, by simp, ?_, by simp, ?_⟩
          · show 0 + (width - 1) + 1 ≤ width; omega
          · show (0 + (nb - 1)) * 2 + 0 = 0 + (0 + (width - 1)); split at hnb2 <;> omega
        · rw [if_neg hl] at hx; simp at hx
    · intro c y hc hy1 hy2
      simp only at hc hy1 hy2
      have hy : y = 0 := by omega
      subst hy
      simp only [List.mem_append, List.mem_map, List.mem_range]
      by_cases hp : c / 2 < min nb (width / 2)
      · exact ⟨⟨0, 0 + 2 * (c / 2), 2, 0 + c / 2, 0, 0, 0⟩, Or.inl ⟨_, hp, rfl⟩, rfl,
          by show 0 + 2 * (c / 2) ≤ c; omega, by show c < 0 + 2 * (c / 2) + 2; omega⟩
      · have hl : width % 2 = 1 := by split at hnb2 <;> omega
        refine ⟨⟨0, 0 + (width - 1), 1, 0 + (nb - 1), 0, 0, 0⟩, Or.inr ?_, rfl,
          by show 0 + (width - 1) ≤ c; split at hnb2 <;> omega, by show c < 0 + (width - 1) + 1; omega⟩
        rw [if_pos hl]; simp

/-- block heights a `ProcessBlocksFn` shape is instantiated with -/
def Proc.bhOk : Proc → Nat → Prop
  | .general _, _ => True
  | .four, bh => bh = 4
  | .two, bh => bh = 1

theorem Proc.run_spec (p : Proc) (bh : Nat) (hok : p.bhOk bh) (fast : Bool) (r : PRange) (nb : Nat)
    (h : ProcPre p.bw r nb) (hre : r.re ≤ bh) : ProcSpec p.bw r (p.run fast r nb) := by
  cases p with
  | general bw => exact procGeneral_spec bw r nb h
  | four =>
    have : bh = 4 := hok
    exact proc4_spec fast r nb h (by omega)
  | two =>
    have : bh = 1 := hok
    exact proc2_spec r nb h (by omega)

theorem Run.shift_shift (a b c d a' b' c' d' : Nat) (x : Run) :
    Run.shift a b c d (Run.shift a' b' c' d' x) = Run.shift (a' + a) (b' + b) (c' + c) (d' + d) x := by
  cases x; simp [Run.shift, Nat.add_assoc]

theorem flatMap_shift (l : List Nat) (f : Nat → List Run) (g : Nat → Nat) (ow : Nat) :
    (l.flatMap fun cs => (f cs).map (Run.shift 0 (ow + cs) (1 + g cs) 0)) =
    (l.flatMap fun cs => (f cs).map (Run.shift 0 cs (g cs) 0)).map (Run.shift 0 ow 1 0) := by
  induction l with
  | nil => rfl
  | cons a l ih =>
    simp only [List.flatMap_cons, List.map_append, List.map_map, ih]
    congr 1
    apply List.map_congr_left
    intro x _
    simp only [Function.comp, Run.shift_shift]
    rw [Nat.add_comm a ow, Nat.add_comm (g a) 1]

theorem roundDown_props {v m : Nat} (hm : 0 < m) (hv : m ≤ v) :
    0 < roundDown v m ∧ roundDown v m % m = 0 ∧ roundDown v m ≤ v := by
  unfold roundDown
  have h1 := Nat.div_add_mod v m
  have h2 := Nat.mod_lt v hm
  have hq : 0 < v / m := Nat.div_pos hv hm
  have e : v - v % m = m * (v / m) := by omega
  rw [e]
  refine ⟨Nat.mul_pos hm hq, Nat.mul_mod_right m _, by omega⟩

theorem convBlocks_spec (p : Proc) (bh : Nat) (hok : p.bhOk bh) (fast conv : Bool) (nbpp : Nat)
    (r : PRange) (nb : Nat) (h : ProcPre p.bw r nb) (hre : r.re ≤ bh)
    (hbuf : conv = true → p.bw ≤ BUFFER_BYTES / (nbpp * (r.re - r.rs))) :
    ProcSpec p.bw r (convBlocks p fast conv nbpp r nb) := by
  unfold convBlocks
  cases conv with
  | false => simp only [Bool.not_false, if_true]; exact Proc.run_spec p bh hok fast r nb h hre
  | true =>
    simp only [Bool.not_true, Bool.false_eq_true, if_false]
    have hb := hbuf rfl
    obtain ⟨hbw, hwo, hw, hrows, hnb⟩ := h
    obtain ⟨hp1, hp2, _⟩ := roundDown_props hbw hb
    obtain ⟨width, wo, rs, re⟩ := r
    simp only at hwo hw hrows hnb hre hp1 hp2 ⊢
    -- specification of one chunk
    have hchunk : ∀ W' cs, cs ∈ stepStarts W' (roundDown (BUFFER_BYTES / (nbpp * (re - rs))) p.bw) →
        ProcSpec p.bw ⟨min (cs + roundDown (BUFFER_BYTES / (nbpp * (re - rs))) p.bw) W' - cs, 0, rs, re⟩
          (p.run true ⟨min (cs + roundDown (BUFFER_BYTES / (nbpp * (re - rs))) p.bw) W' - cs, 0, rs, re⟩
            (divCeil (min (cs + roundDown (BUFFER_BYTES / (nbpp * (re - rs))) p.bw) W' - cs) p.bw)) := by
      intro W' cs hcs
      obtain ⟨k, hk, rfl⟩ := (mem_stepStarts hp1).1 hcs
      apply Proc.run_spec p bh hok true _ _ _ hre
      exact ⟨hbw, hbw, by simp only; omega, hrows, by simp⟩
    by_cases h0 : wo = 0
    · subst h0
      simp only [ne_eq, not_true_eq_false, if_false, List.nil_append, Nat.zero_add]
      exact ProcSpec.chunks hp1 hp2 _ (hchunk width)
    · simp only [ne_eq, h0, not_false_eq_true, if_true]
      rw [flatMap_shift]
      apply ProcSpec.split (by omega) (by omega)
      · apply Proc.run_spec p bh hok true _ _ _ hre
        exact ⟨hbw, hwo, by simp only; omega, hrows,
          (divCeil_le_one hbw (by simp only; omega) (by simp only; omega)).symm⟩
      · exact ProcSpec.chunks hp1 hp2 _ (hchunk _)

/-! ### the block-line loops -/

theorem divCeil_add_mul (n q b : Nat) (hb : 0 < b) : divCeil (n + q * b) b = divCeil n b + q := by
  induction q with
  | zero => simp
  | succ q ih =>
    rw [Nat.succ_mul, ← Nat.add_assoc, divCeil_add_self _ _ hb, ih]; omega

/-- closed form of the accumulator `pixel_row` -/
theorem pixelRow_closed (g : RectGeom) (hbh : 0 < g.bh) (k : Nat) :
    g.pixelRow k + g.oy = min (g.oy + g.h) (max g.oy ((g.skipBefore + k) * g.bh)) := by
  have hS1 : g.skipBefore * g.bh ≤ g.oy := Nat.div_mul_le_self _ _
  have hS2 : g.oy < g.skipBefore * g.bh + g.bh := by
    have h1 := Nat.div_add_mod g.oy g.bh
    have h2 := Nat.mod_lt g.oy hbh
    have : g.skipBefore * g.bh = g.bh * (g.oy / g.bh) := Nat.mul_comm _ _
    omega
  induction k with
  | zero => simp only [RectGeom.pixelRow, Nat.add_zero]; omega
  | succ k ih =>
    have eA : (g.skipBefore + k) * g.bh = g.skipBefore * g.bh + k * g.bh := Nat.add_mul _ _ _
    have eA' : (g.skipBefore + (k + 1)) * g.bh = g.skipBefore * g.bh + k * g.bh + g.bh := by
      rw [← Nat.add_assoc, Nat.succ_mul, eA]
    simp only [RectGeom.pixelRow, RectGeom.rowEnd, RectGeom.rowStart]
    cases k with
    | zero => simp only [Nat.zero_mul, Nat.add_zero] at *; omega
    | succ k' =>
      have : g.bh ≤ (k' + 1) * g.bh := Nat.le_mul_of_pos_left _ (by omega)
      omega

/-- `rows_partition`, the facts used by the assembly -/
theorem rows_facts (g : RectGeom) (hbh : 0 < g.bh) (hh : 0 < g.h) (k : Nat)
    (hk : (g.skipBefore + k) * g.bh < g.oy + g.h) :
    g.rowStart k < g.rowEnd k ∧ g.rowEnd k ≤ g.bh ∧
    (g.skipBefore + k) * g.bh + g.rowStart k = g.oy + g.pixelRow k ∧
    g.pixelRow (k + 1) = g.pixelRow k + (g.rowEnd k - g.rowStart k) ∧ g.pixelRow (k + 1) ≤ g.h := by
  have c0 := pixelRow_closed g hbh k
  have c1 := pixelRow_closed g hbh (k + 1)
  have hS1 : g.skipBefore * g.bh ≤ g.oy := Nat.div_mul_le_self _ _
  have hS2 : g.oy < g.skipBefore * g.bh + g.bh := by
    have h1 := Nat.div_add_mod g.oy g.bh
    have h2 := Nat.mod_lt g.oy hbh
    have : g.skipBefore * g.bh = g.bh * (g.oy / g.bh) := Nat.mul_comm _ _
    omega
  have eA : (g.skipBefore + k) * g.bh = g.skipBefore * g.bh + k * g.bh := Nat.add_mul _ _ _
  have eA' : (g.skipBefore + (k + 1)) * g.bh = g.skipBefore * g.bh + k * g.bh + g.bh := by
    rw [← Nat.add_assoc, Nat.succ_mul, eA]
  refine ⟨?_, ?_, ?_, rfl, ?_⟩
  · simp only [RectGeom.rowEnd, RectGeom.rowStart]
    cases k with
    | zero => simp only [Nat.zero_mul, Nat.add_zero] at *; omega
    | succ k' =>
      have : g.bh ≤ (k' + 1) * g.bh := Nat.le_mul_of_pos_left _ (by omega)
      omega
  · simp only [RectGeom.rowEnd]; omega
  · simp only [RectGeom.rowStart]
    cases k with
    | zero => simp only [Nat.zero_mul, Nat.add_zero] at *; omega
    | succ k' =>
      have : g.bh ≤ (k' + 1) * g.bh := Nat.le_mul_of_pos_left _ (by omega)
      omega
  · omega

theorem pixelRow_end (g : RectGeom) (hbh : 0 < g.bh) (hh : 0 < g.h) : g.pixelRow g.linesToRead = g.h := by
  have c := pixelRow_closed g hbh g.linesToRead
  have hd := (divCeil_spec (g.h + g.oy) g.bh hbh).1
  have hS1 : g.skipBefore * g.bh ≤ g.oy := Nat.div_mul_le_self _ _
  have hle : g.skipBefore ≤ divCeil (g.h + g.oy) g.bh := by
    apply Classical.byContradiction
    intro hn
    have : divCeil (g.h + g.oy) g.bh + 1 ≤ g.skipBefore := by omega
    have := Nat.mul_le_mul_right g.bh this
    rw [Nat.succ_mul] at this
    omega
  have e : g.skipBefore + g.linesToRead = divCeil (g.h + g.oy) g.bh := by
    unfold RectGeom.linesToRead; omega
  rw [e] at c
  omega

/-- hypotheses on a rectangle decode of the block family -/
structure RectOk (p : Proc) (g : RectGeom) (conv : Bool) (nbpp : Nat) : Prop where
  bw : g.bw = p.bw
  bwpos : 0 < g.bw
  bhpos : 0 < g.bh
  bhok : p.bhOk g.bh
  w : 0 < g.w
  h : 0 < g.h
  fit : conv = true → 0 < nbpp ∧ nbpp * g.bh * g.bw ≤ BUFFER_BYTES

theorem buf_fits {nbpp bh bw d : Nat} (hn : 0 < nbpp) (hd : 0 < d) (hdb : d ≤ bh)
    (hfit : nbpp * bh * bw ≤ BUFFER_BYTES) : bw ≤ BUFFER_BYTES / (nbpp * d) := by
  rw [Nat.le_div_iff_mul_le (Nat.mul_pos hn hd)]
  have h1 : nbpp * d ≤ nbpp * bh := Nat.mul_le_mul_left _ hdb
  have h2 : bw * (nbpp * d) ≤ bw * (nbpp * bh) := Nat.mul_le_mul_left _ h1
  have h3 : bw * (nbpp * bh) = nbpp * bh * bw := Nat.mul_comm _ _
  omega

theorem rect_line_spec (p : Proc) (g : RectGeom) (fast conv : Bool) (nbpp : Nat) (ok : RectOk p g conv nbpp)
    (k : Nat) (hk : (g.skipBefore + k) * g.bh < g.oy + g.h) :
    ProcSpec p.bw ⟨g.w, g.widthOffset, g.rowStart k, g.rowEnd k⟩
      (convBlocks p fast conv nbpp ⟨g.w, g.widthOffset, g.rowStart k, g.rowEnd k⟩ (g.brEnd - g.brStart)) := by
  obtain ⟨r1, r2, _, _, _⟩ := rows_facts g ok.bhpos ok.h k hk
  have hbw : 0 < p.bw := by rw [← ok.bw]; exact ok.bwpos
  apply convBlocks_spec p g.bh ok.bhok fast conv nbpp _ _ _ r2
  · intro hc
    obtain ⟨f1, f2⟩ := ok.fit hc
    rw [← ok.bw]
    exact buf_fits f1 (by simp only; omega) (by simp only; omega) f2
  · refine ⟨hbw, ?_, ok.w, r1, ?_⟩
    · show g.ox % g.bw < p.bw
      rw [← ok.bw]; exact Nat.mod_lt _ ok.bwpos
    · show g.brEnd - g.brStart = divCeil (g.ox % g.bw + g.w) p.bw
      unfold RectGeom.brEnd RectGeom.brStart
      rw [← ok.bw]
      have h1 := Nat.div_add_mod g.ox g.bw
      have : g.ox + g.w = (g.ox % g.bw + g.w) + (g.ox / g.bw) * g.bw := by
        rw [Nat.mul_comm]; omega
      rw [this, divCeil_add_mul _ _ _ ok.bwpos]
      omega

theorem rectLoop_sound (p : Proc) (g : RectGeom) (fastAt : Nat → Bool) (conv : Bool) (nbpp : Nat)
    (ok : RectOk p g conv nbpp) :
    ∀ todo k, (∀ j, j < todo → (g.skipBefore + (k + j)) * g.bh < g.oy + g.h) →
      ∀ x ∈ rectLoop p g fastAt conv nbpp todo k (g.pixelRow k),
        (x.row < g.h ∧ x.col + x.n ≤ g.w ∧ x.ux * g.bw + x.px = g.ox + x.col ∧
          x.uy * g.bh + x.py = g.oy + x.row) ∧ (x.px + x.n ≤ g.bw ∧ x.py < g.bh) := by
  intro todo
  induction todo with
  | zero => intro k _ x hx; simp [rectLoop] at hx
  | succ todo ih =>
    intro k hall x hx
    unfold rectLoop at hx
    simp only [List.mem_append, List.mem_map] at hx
    have hk := hall 0 (by omega)
    simp only [Nat.add_zero] at hk
    obtain ⟨r1, r2, r3, r4, r5⟩ := rows_facts g ok.bhpos ok.h k hk
    rcases hx with ⟨x0, hx0, rfl⟩ | hx
    · obtain ⟨a1, a2, a3, a4, a5, a6, a7⟩ := (rect_line_spec p g _ conv nbpp ok k hk).sound x0 hx0
      simp only at a1 a2 a5 a7
      have e1 : (x0.ux + g.brStart) * g.bw = x0.ux * g.bw + g.ox / g.bw * g.bw := Nat.add_mul _ _ _
      have e2 := Nat.div_add_mod g.ox g.bw
      have e3 : g.ox / g.bw * g.bw = g.bw * (g.ox / g.bw) := Nat.mul_comm _ _
      have e4 : g.widthOffset = g.ox % g.bw := rfl
      rw [← ok.bw] at a6 a7
      unfold Run.shift
      refine ⟨⟨by show x0.row + g.pixelRow k < g.h; omega, by show x0.col + 0 + x0.n ≤ g.w; omega, ?_, ?_⟩,
        a6, by show x0.py < g.bh; omega⟩
      · show (x0.ux + g.brStart) * g.bw + x0.px = g.ox + (x0.col + 0); omega
      · show (x0.uy + (g.skipBefore + k)) * g.bh + x0.py = g.oy + (x0.row + g.pixelRow k)
        rw [a3, Nat.zero_add]; omega
    · rw [← r4] at hx
      apply ih (k + 1) _ x hx
      intro j hj
      have := hall (j + 1) (by omega)
      rwa [show k + (j + 1) = k + 1 + j by omega] at this

theorem rectLoop_cover (p : Proc) (g : RectGeom) (fastAt : Nat → Bool) (conv : Bool) (nbpp : Nat)
    (ok : RectOk p g conv nbpp) :
    ∀ todo k, (∀ j, j < todo → (g.skipBefore + (k + j)) * g.bh < g.oy + g.h) →
      ∀ i j, i < g.w → g.pixelRow k ≤ j → j < g.pixelRow (k + todo) →
        ∃ x ∈ rectLoop p g fastAt conv nbpp todo k (g.pixelRow k), x.covers j i = true := by
  intro todo
  induction todo with
  | zero => intro k _ i j _ h1 h2; simp only [Nat.add_zero] at h2; omega
  | succ todo ih =>
    intro k hall i j hi h1 h2
    have hk := hall 0 (by omega)
    simp only [Nat.add_zero] at hk
    obtain ⟨r1, r2, r3, r4, r5⟩ := rows_facts g ok.bhpos ok.h k hk
    unfold rectLoop
    simp only [List.mem_append, List.mem_map]
    by_cases hj : j < g.pixelRow (k + 1)
    · obtain ⟨x0, hx0, c1, c2, c3⟩ := (rect_line_spec p g (fastAt (g.pixelRow k)) conv nbpp ok k hk).cover i
        (g.rowStart k + (j - g.pixelRow k)) hi (by simp only; omega) (by simp only; omega)
      simp only at c1
      refine ⟨_, Or.inl ⟨x0, hx0, rfl⟩, ?_⟩
      rw [covers_iff]
      unfold Run.shift
      exact ⟨by show x0.row + g.pixelRow k = j; omega, by show x0.col + 0 ≤ i; omega,
        by show i < x0.col + 0 + x0.n; omega⟩
    · obtain ⟨x, hx, hc⟩ := ih (k + 1) (by
          intro j' hj'
          have := hall (j' + 1) (by omega)
          rwa [show k + (j' + 1) = k + 1 + j' by omega] at this) i j hi (by omega)
          (by rwa [show k + 1 + todo = k + (todo + 1) by omega])
      rw [← r4]
      exact ⟨x, Or.inr hx, hc⟩

theorem blockRect_spec (p : Proc) (g : RectGeom) (fastAt : Nat → Bool) (conv : Bool) (nbpp : Nat)
    (ok : RectOk p g conv nbpp) :
    CropSound g.bw g.bh g.ox g.oy g.w g.h (blockRect p g fastAt conv nbpp) ∧
    CropCover g.w g.h (blockRect p g fastAt conv nbpp) ∧
    WithinUnit g.bw g.bh (blockRect p g fastAt conv nbpp) := by
  have hall : ∀ j, j < g.linesToRead → (g.skipBefore + (0 + j)) * g.bh < g.oy + g.h := by
    intro j hj
    unfold RectGeom.linesToRead at hj
    have : g.skipBefore + j < divCeil (g.h + g.oy) g.bh := by omega
    rw [lt_divCeil_iff ok.bhpos] at this
    rw [Nat.zero_add]; omega
  have hs := rectLoop_sound p g fastAt conv nbpp ok g.linesToRead 0 hall
  refine ⟨fun x hx => (hs x hx).1, ?_, fun x hx => (hs x hx).2⟩
  intro i j hi hj
  have := rectLoop_cover p g fastAt conv nbpp ok g.linesToRead 0 hall i j hi (Nat.zero_le _)
    (by rw [Nat.zero_add, pixelRow_end g ok.bhpos ok.h]; exact hj)
  exact this

theorem blockFull_spec (p : Proc) (bh : Nat) (fastAt : Nat → Bool) (conv : Bool) (nbpp W H : Nat)
    (hbw : 0 < p.bw) (hbh : 0 < bh) (hok : p.bhOk bh) (hW : 0 < W)
    (hfit : conv = true → 0 < nbpp ∧ nbpp * bh * p.bw ≤ BUFFER_BYTES) :
    CropSound p.bw bh 0 0 W H (blockFull p bh fastAt conv nbpp W H) ∧
    CropCover W H (blockFull p bh fastAt conv nbpp W H) ∧
    WithinUnit p.bw bh (blockFull p bh fastAt conv nbpp W H) := by
  have hline : ∀ b, b * bh < H → ProcSpec p.bw ⟨W, 0, 0, min bh (H - b * bh)⟩
      (convBlocks p (fastAt (b * bh)) conv nbpp ⟨W, 0, 0, min bh (H - b * bh)⟩ (divCeil W p.bw)) := by
    intro b hb
    apply convBlocks_spec p bh hok _ conv nbpp _ _ _ (by simp only; omega)
    · intro hc
      obtain ⟨f1, f2⟩ := hfit hc
      exact buf_fits f1 (by simp only; omega) (by simp only; omega) f2
    · exact ⟨hbw, hbw, hW, by simp only; omega, by simp⟩
  have hmem : ∀ x, x ∈ blockFull p bh fastAt conv nbpp W H ↔
      ∃ b, b * bh < H ∧ ∃ x0 ∈ convBlocks p (fastAt (b * bh)) conv nbpp ⟨W, 0, 0, min bh (H - b * bh)⟩ (divCeil W p.bw),
        x = Run.shift (b * bh) 0 0 b x0 := by
    intro x
    unfold blockFull
    simp only [List.mem_flatMap, List.mem_range, List.mem_map]
    constructor
    · rintro ⟨b, hb, x0, hx0, rfl⟩; exact ⟨b, (lt_divCeil_iff hbh).1 hb, x0, hx0, rfl⟩
    · rintro ⟨b, hb, x0, hx0, rfl⟩; exact ⟨b, (lt_divCeil_iff hbh).2 hb, x0, hx0, rfl⟩
  have hs : ∀ x ∈ blockFull p bh fastAt conv nbpp W H,
      (x.row < H ∧ x.col + x.n ≤ W ∧ x.ux * p.bw + x.px = 0 + x.col ∧ x.uy * bh + x.py = 0 + x.row) ∧
      (x.px + x.n ≤ p.bw ∧ x.py < bh) := by
    intro x hx
    obtain ⟨b, hb, x0, hx0, rfl⟩ := (hmem x).1 hx
    obtain ⟨a1, a2, a3, a4, a5, a6, a7⟩ := (hline b hb).sound x0 hx0
    simp only at a1 a2 a5 a7
    have hm1 : min bh (H - b * bh) ≤ H - b * bh := Nat.min_le_right _ _
    have hm2 : min bh (H - b * bh) ≤ bh := Nat.min_le_left _ _
    unfold Run.shift
    refine ⟨⟨by show x0.row + b * bh < H; omega, by show x0.col + 0 + x0.n ≤ W; omega, ?_, ?_⟩, a6, by show x0.py < bh; omega⟩
    · show (x0.ux + 0) * p.bw + x0.px = 0 + (x0.col + 0); omega
    · show (x0.uy + b) * bh + x0.py = 0 + (x0.row + b * bh); rw [a3, Nat.zero_add]; omega
  refine ⟨fun x hx => (hs x hx).1, ?_, fun x hx => (hs x hx).2⟩
  intro i j hi hj
  have h1 := Nat.div_add_mod j bh
  have h2 := Nat.mod_lt j hbh
  have e : j / bh * bh = bh * (j / bh) := Nat.mul_comm _ _
  have hb : j / bh * bh < H := by omega
  obtain ⟨x0, hx0, c1, c2, c3⟩ := (hline (j / bh) hb).cover i (j % bh) hi (Nat.zero_le _) (by simp only; omega)
  simp only at c1
  refine ⟨_, (hmem _).2 ⟨j / bh, hb, x0, hx0, rfl⟩, ?_⟩
  rw [covers_iff]
  unfold Run.shift
  exact ⟨by show x0.row + j / bh * bh = j; omega, by show x0.col + 0 ≤ i; omega,
    by show i < x0.col + 0 + x0.n; omega⟩

end Dds.Addr
