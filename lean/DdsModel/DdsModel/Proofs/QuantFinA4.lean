/- finite fact (kernel evaluation), slice 4 of 4: 16-bit values through nearest-binary32 -/
import DdsModel.Proofs.QuantFinA0
namespace Dds.Quant
set_option maxRecDepth 100000
theorem holdsF32U16_s12 : allRange holdsF32U16 6 49152 4096 = true := by decide +kernel
theorem holdsF32U16_s13 : allRange holdsF32U16 6 53248 4096 = true := by decide +kernel
theorem holdsF32U16_s14 : allRange holdsF32U16 6 57344 4096 = true := by decide +kernel
theorem holdsF32U16_s15 : allRange holdsF32U16 6 61440 4096 = true := by decide +kernel
end Dds.Quant
