/- finite fact (kernel evaluation), slice 1 of 4: 16-bit values through nearest-binary32 -/
import DdsModel.Proofs.QuantFinA0
namespace Dds.Quant
set_option maxRecDepth 100000
theorem holdsF32U16_s0 : allRange holdsF32U16 6 0 4096 = true := by decide +kernel
theorem holdsF32U16_s1 : allRange holdsF32U16 6 4096 4096 = true := by decide +kernel
theorem holdsF32U16_s2 : allRange holdsF32U16 6 8192 4096 = true := by decide +kernel
theorem holdsF32U16_s3 : allRange holdsF32U16 6 12288 4096 = true := by decide +kernel
end Dds.Quant
