/-
C03x glue, part 4: BC7 modes 4, 5, 6 (one subset): `Bc7.decodeBlock = Bc7Spec.decodeBlock` for every block of
these modes.
-/
import DdsModel.Proofs.Bc7GlueCommon
set_option linter.unusedSimpArgs false
namespace Dds.Bc7
open Dds.BcTables Dds.Bc7Spec

def r4 : ModeRec := ⟨1, 0, 2, 1, 5, 6, 0, 0, 2, 3⟩
def r5 : ModeRec := ⟨1, 0, 2, 0, 7, 8, 0, 0, 2, 2⟩
def r6 : ModeRec := ⟨1, 0, 0, 0, 7, 7, 1, 0, 4, 0⟩

theorem eps6 (b : Nat) : getEndPoints2 6 (b >>> 7) = (epTable 6 r6 b 2, b >>> 65) := by
  simp only [getEndPoints2, Nat.reduceEqDiff, if_false, consumeN_at _ _ b _ (by decide : 0 < 7) (by decide : 7 ≤ 8),
    consumeBit_at, range2, List.map, px_rdN _ _ _ _ _ (by decide : 0 < 2), px_rdN _ _ _ _ _ (by decide : 1 < 2),
    px_cons0, px_cons1, withP_rd _ _ _ _ (by decide : 7 ≤ 7)]
  simp only [epTable, range2, range4, List.map, endpoint, r6, colorStart, alphaStart, pStart,
    Nat.reduceAdd, Nat.reduceMul, Nat.reduceEqDiff, false_and, true_and, if_true, if_false, expand8_rdp]

theorem eps5 (b : Nat) : getEndPoints2 5 (b >>> 8) = (epTable 5 r5 b 2, b >>> 66) := by
  simp only [getEndPoints2, Nat.reduceEqDiff, if_false, if_true,
    consumeN_at _ _ b _ (by decide : 0 < 7) (by decide : 7 ≤ 8),
    consumeN_at _ _ b _ (by decide : 0 < 8) (by decide : 8 ≤ 8),
    range2, List.map, px_rdN _ _ _ _ _ (by decide : 0 < 2), px_rdN _ _ _ _ _ (by decide : 1 < 2),
    promote_rd _ _ _ (by decide : 4 ≤ 7) (by decide : 7 < 8)]
  simp only [epTable, range2, range4, List.map, endpoint, r5, colorStart, alphaStart, pStart,
    Nat.reduceAdd, Nat.reduceMul, Nat.reduceEqDiff, false_and, true_and, if_true, if_false, expand8_rd]

theorem eps4 (b : Nat) : getEndPoints2 4 (b >>> 8) = (epTable 4 r4 b 2, b >>> 50) := by
  simp only [getEndPoints2, Nat.reduceEqDiff, if_false, if_true,
    consumeN_at _ _ b _ (by decide : 0 < 5) (by decide : 5 ≤ 8),
    consumeN_at _ _ b _ (by decide : 0 < 6) (by decide : 6 ≤ 8),
    range2, List.map, px_rdN _ _ _ _ _ (by decide : 0 < 2), px_rdN _ _ _ _ _ (by decide : 1 < 2),
    promote_rd _ _ _ (by decide : 4 ≤ 5) (by decide : 5 < 8), promote_rd _ _ _ (by decide : 4 ≤ 6) (by decide : 6 < 8)]
  simp only [epTable, range2, range4, List.map, endpoint, r4, colorStart, alphaStart, pStart,
    Nat.reduceAdd, Nat.reduceMul, Nat.reduceEqDiff, false_and, true_and, if_true, if_false]

theorem mode6_eq (b : Nat) (h : modeOf b = 6) : Bc7.decodeBlock b = Bc7Spec.decodeBlock b := by
  rw [spec_decodeBlock_mode b 6 r6 h rfl]
  simp only [Bc7.decodeBlock, extractMode_eq, h, Nat.reduceEqDiff, if_false, if_true, Nat.reduceAdd, mode6, eps6,
    decodeMode]
  apply map_range16_congr
  intro i hi
  have hidx : getIndex (newP1 4 (b >>> 65)).1 i = index1 6 r6 b (rd b 7 r6.partBits) i :=
    index_impl1 4 b 65 1 _ i (by omega) hi (by decide) (by decide)
  have hk : index1 6 r6 b (rd b 7 r6.partBits) i < 2 ^ 4 := index1_lt 6 r6 b _ i
  have hm : r6 ∈ modes := by decide
  rw [hidx]
  generalize index1 6 r6 b (rd b 7 r6.partBits) i = k at hk
  have e1 : specSubset r6.subsets (rd b 7 r6.partBits) i = 0 := specSubset1 _ _
  have e2 : specWeights r6.idxBits = specW4 := rfl
  have e3 : rd b (7 + r6.partBits) r6.rotBits = 0 := rd_zero _ _
  have e4 : r6.idx2Bits = 0 := rfl
  simp only [e1, e2, e3, e4, if_true, Nat.mul_zero, Nat.zero_add, interpolateColorsAlpha,
    ep_epTable _ _ _ _ _ (by decide : 0 < 2), ep_epTable _ _ _ _ _ (by decide : 1 < 2), px4,
    lerpW4 _ _ _ (endpoint_lt _ _ _ _ _ hm) (endpoint_lt _ _ _ _ _ hm) hk, rotate4, swapChannels,
    Nat.reduceEqDiff, if_false]

theorem mode5_eq (b : Nat) (h : modeOf b = 5) : Bc7.decodeBlock b = Bc7Spec.decodeBlock b := by
  rw [spec_decodeBlock_mode b 5 r5 h rfl]
  simp only [Bc7.decodeBlock, extractMode_eq, h, Nat.reduceEqDiff, if_false, if_true, Nat.reduceAdd, mode5,
    consumeBits_at 2 b 6 (by decide) (by decide), eps5, decodeMode]
  apply map_range16_congr
  intro i hi
  have hidx : getIndex (newP1 2 (b >>> 66)).1 i = index1 5 r5 b (rd b 6 r5.partBits) i :=
    index_impl1 2 b 66 1 _ i (by omega) hi (by decide) (by decide)
  have hs2 : (newP1 2 (b >>> 66)).2 = b >>> idx2Start 5 r5 := (newP1_index 2 b 66 0 (by omega) (by decide)).2
  have hidx2 : getIndex (newP1 2 (b >>> idx2Start 5 r5)).1 i = index2 5 r5 b i :=
    index_impl_sec 5 r5 b i (by decide) hi
  have hk : index1 5 r5 b (rd b 6 r5.partBits) i < 2 ^ 2 := index1_lt 5 r5 b _ i
  have hk2 : index2 5 r5 b i < 2 ^ 2 := index2_lt 5 r5 b i
  have hm : r5 ∈ modes := by decide
  rw [hs2, hidx, hidx2]
  generalize index1 5 r5 b (rd b 6 r5.partBits) i = k at hk
  generalize index2 5 r5 b i = k2 at hk2
  have e1 : specSubset r5.subsets (rd b 6 r5.partBits) i = 0 := specSubset1 _ _
  have e2 : specWeights r5.idxBits = specW2 := rfl
  have e2' : specWeights 2 = specW2 := rfl
  have e3 : rd b (6 + r5.partBits) r5.rotBits = rd b 6 2 := rfl
  have e4 : r5.idx2Bits = 2 := rfl
  have e5 : rd b (6 + r5.partBits + r5.rotBits) r5.selBits = 0 := rd_zero _ _
  simp only [e1, e2, e2', e3, e4, e5, if_true, Nat.mul_zero, Nat.zero_add, interpolateColorsAlpha,
    ep_epTable _ _ _ _ _ (by decide : 0 < 2), ep_epTable _ _ _ _ _ (by decide : 1 < 2), px4,
    lerpW2 _ _ _ (endpoint_lt _ _ _ _ _ hm) (endpoint_lt _ _ _ _ _ hm) hk,
    lerpW2 _ _ _ (endpoint_lt _ _ _ _ _ hm) (endpoint_lt _ _ _ _ _ hm) hk2, rotate4,
    Nat.reduceEqDiff, if_false]

theorem rot_sel (b : Nat) : rd b 5 3 &&& 3 = rd b 5 2 ∧ ((rd b 5 3 &&& 4 ≠ 0) ↔ rd b 7 1 = 1) := by
  have h1 : rd b 5 2 = rd b 5 3 % 4 := by simp only [rd, Nat.reducePow]; omega
  have h2 : rd b 7 1 = rd b 5 3 / 4 := by simp only [rd, Nat.reducePow]; omega
  have hv := rd_lt b 5 3
  rw [h1, h2]
  generalize rd b 5 3 = v at hv
  have : ∀ v, v < 2 ^ 3 → (v &&& 3 = v % 4 ∧ ((v &&& 4 ≠ 0) ↔ v / 4 = 1)) := by decide
  exact this v hv

theorem mode4_eq (b : Nat) (h : modeOf b = 4) : Bc7.decodeBlock b = Bc7Spec.decodeBlock b := by
  rw [spec_decodeBlock_mode b 4 r4 h rfl]
  simp only [Bc7.decodeBlock, extractMode_eq, h, Nat.reduceEqDiff, if_false, if_true, Nat.reduceAdd, mode4,
    consumeBits_at 3 b 5 (by decide) (by decide), eps4, decodeMode]
  apply map_range16_congr
  intro i hi
  have hidx : getIndex (newP1 2 (b >>> 50)).1 i = index1 4 r4 b (rd b 5 r4.partBits) i :=
    index_impl1 2 b 50 1 _ i (by omega) hi (by decide) (by decide)
  have hs2 : (newP1 2 (b >>> 50)).2 = b >>> idx2Start 4 r4 := (newP1_index 2 b 50 0 (by omega) (by decide)).2
  have hidx2 : getIndex (newP1 3 (b >>> idx2Start 4 r4)).1 i = index2 4 r4 b i :=
    index_impl_sec 4 r4 b i (by decide) hi
  have hk : index1 4 r4 b (rd b 5 r4.partBits) i < 2 ^ 2 := index1_lt 4 r4 b _ i
  have hk2 : index2 4 r4 b i < 2 ^ 3 := index2_lt 4 r4 b i
  have hm : r4 ∈ modes := by decide
  rw [hs2, hidx, hidx2]
  generalize index1 4 r4 b (rd b 5 r4.partBits) i = k at hk
  generalize index2 4 r4 b i = k2 at hk2
  have e1 : specSubset r4.subsets (rd b 5 r4.partBits) i = 0 := specSubset1 _ _
  have e2 : specWeights r4.idxBits = specW2 := rfl
  have e2' : specWeights 3 = specW3 := rfl
  have e3 : rd b (5 + r4.partBits) r4.rotBits = rd b 5 2 := rfl
  have e4 : r4.idx2Bits = 3 := rfl
  have e5 : rd b (5 + r4.partBits + r4.rotBits) r4.selBits = rd b 7 1 := rfl
  obtain ⟨hrot, hsel⟩ := rot_sel b
  by_cases hs : rd b 7 1 = 1
  · have hs' : rd b 5 3 &&& 4 ≠ 0 := hsel.mpr hs
    simp only [e1, e2, e2', e3, e4, e5, hs, hs', hrot, if_true, Nat.mul_zero, Nat.zero_add, interpolateColorsAlpha,
      ep_epTable _ _ _ _ _ (by decide : 0 < 2), ep_epTable _ _ _ _ _ (by decide : 1 < 2), px4,
      lerpW2 _ _ _ (endpoint_lt _ _ _ _ _ hm) (endpoint_lt _ _ _ _ _ hm) hk,
      lerpW3 _ _ _ (endpoint_lt _ _ _ _ _ hm) (endpoint_lt _ _ _ _ _ hm) hk2, rotate4,
      Nat.reduceEqDiff, if_false, ne_eq, not_false_eq_true]
  · have hs' : ¬ (rd b 5 3 &&& 4 ≠ 0) := fun hh => hs (hsel.mp hh)
    simp only [e1, e2, e2', e3, e4, e5, hs, hs', hrot, if_true, Nat.mul_zero, Nat.zero_add, interpolateColorsAlpha,
      ep_epTable _ _ _ _ _ (by decide : 0 < 2), ep_epTable _ _ _ _ _ (by decide : 1 < 2), px4,
      lerpW2 _ _ _ (endpoint_lt _ _ _ _ _ hm) (endpoint_lt _ _ _ _ _ hm) hk,
      lerpW3 _ _ _ (endpoint_lt _ _ _ _ _ hm) (endpoint_lt _ _ _ _ _ hm) hk2, rotate4,
      Nat.reduceEqDiff, if_false]

end Dds.Bc7
