/-
C13 — the closed forms the discrete encoder model (`Enc13.lean`) uses for f32 expressions on 8-bit inputs are the
binary32 evaluations of the Rust expressions (software IEEE-754 binary32 of `F32.lean`: every `+ - *` correctly
rounded, `as u8` truncating), for ALL 256 input values — by kernel evaluation of the whole domain:
  * `n4::from_f32(n8::f32(a))` (BC2 explicit alpha, `bc2_alpha`)                       = `(2a + 17) / 34`;
  * `closest_s8_norm` and the `BC4_EPSILON` guard of `single_color(·, snorm = true)` (bc4.rs) on the value
    `(min + max) * 0.5` of a block whose 16 values are `n8::f32(v)`                      = `snormOfU8 v`, `snormGuard8 v`;
  * the guard holds exactly for `v ∈ {0, 255}`: of the 8-bit inputs only these take the `closest` branch.
-/
import DdsModel.Enc13
import DdsModel.Proofs.BcFinite
namespace Dds.Enc13
open Dds Dds.Bc

/-- `n4::from_f32(n8::f32(a))` in binary32 is `round(a/17)` as the closed form `(2a + 17) / 34`, all 256 alphas -/
theorem n4FromU8_is_f32 : ∀ a, a ≤ 255 → n4FromF32 (n8f32 a) = n4FromU8 a := by
  intro a ha
  have h := allUpTo (fun a => decide (n4FromF32 (n8f32 a) = n4FromU8 a)) 255 (by decide +kernel) a ha
  exact of_decide_eq_true h

/-- `closest_s8_norm` and the guard `(closest.c0_f - value).abs() < BC4_EPSILON`, evaluated in binary32 on the value
`single_color` receives for a block of the constant 8-bit input `v`, are the closed forms — all 256 values -/
theorem snorm8_is_f32 : ∀ v, v ≤ 255 →
    snormClosestF32 (bc4ValueOfU8 v) = snormOfU8 v ∧ snormGuardF32 (bc4ValueOfU8 v) = snormGuard8 v := by
  intro v hv
  have h := allUpTo (fun v => decide (snormClosestF32 (bc4ValueOfU8 v) = snormOfU8 v ∧
    snormGuardF32 (bc4ValueOfU8 v) = snormGuard8 v)) 255 (by decide +kernel) v hv
  exact of_decide_eq_true h

/-- which 8-bit inputs take the `closest` branch: exactly 0 and 255 -/
theorem snormGuard8_iff : ∀ v, v ≤ 255 → (snormGuard8 v = true ↔ v = 0 ∨ v = 255) := by
  intro v hv
  have h := allUpTo (fun v => decide (snormGuard8 v = true ↔ v = 0 ∨ v = 255)) 255 (by decide +kernel) v hv
  exact of_decide_eq_true h

/-- … in binary32: `single_color(value(v), snorm = true)` returns on its `closest` branch iff `v ∈ {0, 255}` -/
theorem snorm_closest_branch_iff (v : Nat) (hv : v ≤ 255) :
    snormGuardF32 (bc4ValueOfU8 v) = true ↔ v = 0 ∨ v = 255 := by
  rw [(snorm8_is_f32 v hv).2]; exact snormGuard8_iff v hv

/-- the predicted SNORM block: `81 81 00…` for 0, `7f 81 00…` for 255, no prediction otherwise -/
theorem bc4sSingle8_spec : ∀ v, v ≤ 255 →
    bc4sSingle8 v = if v = 0 then some [0x81, 0x81, 0, 0, 0, 0, 0, 0] else if v = 255 then some [0x7f, 0x81, 0, 0, 0, 0, 0, 0]
      else none := by
  intro v hv
  have h := allUpTo (fun v => decide (bc4sSingle8 v = if v = 0 then some [0x81, 0x81, 0, 0, 0, 0, 0, 0]
    else if v = 255 then some [0x7f, 0x81, 0, 0, 0, 0, 0, 0] else none)) 255 (by decide +kernel) v hv
  exact of_decide_eq_true h

example : snormGuard8 0 = true ∧ snormGuard8 255 = true ∧ snormGuard8 1 = false ∧ snormGuard8 254 = false ∧
    n4FromU8 8 = 0 ∧ n4FromU8 9 = 1 ∧ n4FromU8 255 = 15 := by decide

end Dds.Enc13
