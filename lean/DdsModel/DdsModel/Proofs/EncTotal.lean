/-
Helper lemmas of C15: the failing-writer interpreter, the event traces, the format table.
-/
import DdsModel.EncTotal
import DdsModel.Theorems.C10
namespace Dds.EncTotal
open Dds

/-! ### `write_all` against a writer that fails after `k` bytes -/

theorem runWrites_none (l : List Nat) : runWrites none l = (.ok, l.sum) := by
  induction l with
  | nil => rfl
  | cons s rest ih => simp [runWrites, ih]

theorem runWrites_ok (l : List Nat) : ∀ k, l.sum ≤ k → runWrites (some k) l = (.ok, l.sum) := by
  induction l with
  | nil => intro k _; rfl
  | cons s rest ih =>
    intro k hk
    simp only [List.sum_cons] at hk
    have h : s ≤ k := by omega
    simp only [runWrites, if_pos h, ih (k - s) (by omega), List.sum_cons]

theorem runWrites_fail (l : List Nat) : ∀ k, k < l.sum → runWrites (some k) l = (.ioError, k) := by
  induction l with
  | nil => intro k hk; simp at hk
  | cons s rest ih =>
    intro k hk
    simp only [List.sum_cons] at hk
    by_cases h : s ≤ k
    · simp only [runWrites, if_pos h, ih (k - s) (by omega)]
      congr 1; omega
    · simp only [runWrites, if_neg h]

/-- the events of the writes are `write` events -/
theorem performed_mem (l : List Nat) : ∀ f e, e ∈ performed f l → ∃ n, e = .write n := by
  induction l with
  | nil => intro f e he; cases f <;> simp [performed] at he
  | cons s rest ih =>
    intro f e he
    cases f with
    | none =>
      simp only [performed, List.mem_cons] at he
      cases he with
      | inl h => exact ⟨s, h⟩
      | inr h => exact ih none e h
    | some k =>
      simp only [performed] at he
      by_cases h : s ≤ k
      · rw [if_pos h] at he
        simp only [List.mem_cons] at he
        cases he with
        | inl h => exact ⟨s, h⟩
        | inr h => exact ih _ e h
      · rw [if_neg h] at he
        simp only [List.mem_cons, List.not_mem_nil, or_false] at he
        exact ⟨s, he⟩

/-- no `check` event among the events of the writes -/
theorem performed_no_check (l : List Nat) (f : Option Nat) :
    (performed f l).all (· ≠ .check) = true := by
  rw [List.all_eq_true]
  intro e he
  obtain ⟨n, hn⟩ := performed_mem l f e he
  subst hn
  simp

theorem checkFirst_of_no_check (t : List Ev) (h : t.all (· ≠ .check) = true) : checkFirst t = true := by
  cases t with
  | nil => rfl
  | cons e rest =>
    cases e with
    | check => simp at h
    | write n =>
      simp only [checkFirst]
      simp only [List.all_cons, Bool.and_eq_true] at h
      exact h.2

theorem sum_zero_all_zero (l : List Nat) (h : l.sum = 0) : ∀ s ∈ l, s = 0 := by
  induction l with
  | nil => intro s hs; cases hs
  | cons a rest ih =>
    intro s hs
    simp only [List.sum_cons] at h
    cases hs with
    | head => omega
    | tail _ hm => exact ih (by omega) s hm

/-! ### the format table -/

/-- what the theorems need of a row: the shapes `PixelInfo::from(Format)` produces, and the
size multiple is 2x2 exactly for the bi-planar family -/
def Row.good (r : Row) : Bool :=
  match r.px with
  | .fixed _ => r.mulW = 1 && r.mulH = 1
  | .block _ bw bh => 1 ≤ bw && bw ≤ 512 && 1 ≤ bh && r.mulW = 1 && r.mulH = 1
  | .biPlanar _ _ sx sy => sx = 2 && sy = 2 && r.mulW = 2 && r.mulH = 2

theorem table_good : table.all Row.good = true := by decide

theorem good_of_mem {r : Row} (h : r ∈ table) : r.good = true :=
  List.all_eq_true.mp table_good r h

/-- the writer loops write exactly the layout length (C10) -/
theorem writes_sum (r : Row) (hg : r.good = true) (lp : Loop) (hl : lp.ok = true) (w h : Nat)
    (hs : r.supportsSize w h = true) : (writes r.px lp w h).sum = r.px.surfIdeal w h := by
  unfold Row.good at hg
  unfold Row.supportsSize at hs
  cases hpx : r.px with
  | fixed bpp =>
    cases lp with
    | copyAll => simp [writes, PixelInfo.surfIdeal]
    | contig n =>
      have : 1 ≤ n := by simpa [Loop.ok] using hl
      simp only [writes, PixelInfo.surfIdeal]
      exact C10.uncompressed_contig_len _ _ _ this
    | rows n =>
      have : 1 ≤ n := by simpa [Loop.ok] using hl
      simp only [writes, PixelInfo.surfIdeal]
      exact C10.uncompressed_rows_len _ _ _ _ this
    | perRow n =>
      have : 1 ≤ n := by simpa [Loop.ok] using hl
      simp only [writes, PixelInfo.surfIdeal]
      exact C10.dither_len _ _ _ _ this
  | block bytes bw bh =>
    rw [hpx] at hg
    simp only [Bool.and_eq_true, decide_eq_true_eq] at hg
    obtain ⟨⟨⟨⟨h1, h2⟩, h3⟩, _⟩, _⟩ := hg
    simp only [writes]
    by_cases hb : bh = 1
    · rw [if_pos hb]
      subst hb
      obtain ⟨c1, c2⟩ := C10.subsample_chunk_ok bw h1 h2
      exact C10.subsample_len _ _ _ _ _ h1 c1 c2
    · rw [if_neg hb]
      exact C10.block_len _ _ _ _ _ h1 h3
  | biPlanar p1 p2 sx sy =>
    rw [hpx] at hg
    simp only [Bool.and_eq_true, decide_eq_true_eq] at hg hs
    obtain ⟨⟨⟨hx, hy⟩, hmw⟩, hmh⟩ := hg
    subst hx; subst hy
    rw [hmw, hmh] at hs
    simp only [writes]
    exact C10.biplanar_len _ _ _ _ hs.1 hs.2

theorem normSize_fst_snd (w h : Nat) :
    normView w h = if w = 0 ∨ h = 0 then (0, 0) else (w, h) := rfl

/-- a write sequence ends `ok` or `ioError` -/
theorem runWrites_res (f : Option Nat) (l : List Nat) :
    (runWrites f l).1 = .ok ∨ (runWrites f l).1 = .ioError := by
  cases f with
  | none => rw [runWrites_none]; exact Or.inl rfl
  | some k =>
    by_cases h : l.sum ≤ k
    · rw [runWrites_ok l k h]; exact Or.inl rfl
    · rw [runWrites_fail l k (by omega)]; exact Or.inr rfl


/-- the encode call's result and byte count are those of its writes, once it is not refused -/
theorem encode_eq_runWrites (r : Row) (hr : r ∈ table) (he : r.encodable = true) (lp : Loop)
    (w h : Nat) (fault : Option Nat)
    (hs : r.supportsSize (normView w h).1 (normView w h).2 = true) :
    (encode r lp w h fault).res = (runWrites fault (writes r.px lp (normView w h).1 (normView w h).2)).1 ∧
    (encode r lp w h fault).bytes = (runWrites fault (writes r.px lp (normView w h).1 (normView w h).2)).2 := by
  have hg := good_of_mem hr
  unfold Row.good at hg
  unfold encode
  simp only [he, Bool.not_true, Bool.false_eq_true, if_false]
  revert hs
  generalize normView w h = s
  obtain ⟨w', h'⟩ := s
  intro hs
  cases hpx : r.px with
  | fixed bpp => exact ⟨rfl, rfl⟩
  | block bytes bw bh => exact ⟨rfl, rfl⟩
  | biPlanar p1 p2 sx sy =>
    rw [hpx] at hg
    simp only [Bool.and_eq_true, decide_eq_true_eq] at hg
    have hc : biPlanarRefuses w' h' = false := by
      unfold Row.supportsSize at hs
      rw [hg.1.2, hg.2] at hs
      unfold biPlanarRefuses
      simp only [Bool.and_eq_true, decide_eq_true_eq] at hs
      simp [hs.1, hs.2]
    simp only [hc, Bool.false_eq_true, if_false]
    exact ⟨trivial, trivial⟩


end Dds.EncTotal
