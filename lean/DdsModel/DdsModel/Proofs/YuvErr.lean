/-
C04, YUV decoders (`yuv8/yuv10/yuv16::{f32, n8, n16}` of `src/color/formats.rs`): a rounding-error analysis of the
binary32 evaluation for ALL inputs (2^24, 2^30, 2^48 triples — no enumeration), on top of the standard model of
`Proofs/F32Err.lean` / `Proofs/F32ErrOps.lean`.

* `input_exact`: `y as f32 − 16.0` etc. are exact;
* `sums_err`: for every bit depth `n ≤ 16` (`W = 2^n`) the three sums `r, g, b` of `Conv.yuvSums` are finite and within
  3.5 / 5.25 / 5.5 units of `W·2^-24` of the ideal sums with the documented 6-decimal constants (rounding of the five
  constants included);
* `norm_step`: multiplication by the rounded `1/max` and `clamp(0, 1)`;
* `f32_err`: every channel of `yuvF32` is within `10·2^-24` of the clamped ideal value (normalised units);
* `fpn_adm`: composing with `fp::n8`/`fp::n16` (all 2^32 patterns, `Proofs/ConvF32Thr.lean`): the code is admissible
  (`Spec.admissible`: `|code/max − ideal| ≤ 1/(2·max) + 2^-12/255`) whenever the float is within `τ − 2^-24` of the ideal;
* `n8_direct`: the direct `(sum + 0.5) as u8` of `yuv8::n8`.
Core only.
-/
import DdsModel.Proofs.F32ErrOps
import DdsModel.Conv
namespace Dds.YuvErr
open Dds Dds.CF32 Dds.Conv Dds.Spec Dds.F32Err

/-! ### products of bounded quantities -/

theorem mul_bound (S x M d : Rat) (hS1 : -M ≤ S) (hS2 : S ≤ M) (hx1 : -d ≤ x) (hx2 : x ≤ d) :
    -(M * d) ≤ S * x ∧ S * x ≤ M * d := by
  have hM : 0 ≤ M := by grind
  have hd : 0 ≤ d := by grind
  by_cases h : 0 ≤ x
  · have a1 := Rat.mul_le_mul_of_nonneg_right hS2 h
    have a2 := Rat.mul_le_mul_of_nonneg_right hS1 h
    have a3 := Rat.mul_le_mul_of_nonneg_left hx2 hM
    rw [Rat.neg_mul] at a2
    constructor <;> grind
  · have h' : 0 ≤ -x := by grind
    have a1 := Rat.mul_le_mul_of_nonneg_right hS2 h'
    have a2 := Rat.mul_le_mul_of_nonneg_right hS1 h'
    have a3 : M * (-x) ≤ M * d := Rat.mul_le_mul_of_nonneg_left (by grind) hM
    rw [Rat.mul_neg] at a1 a2 a3
    rw [Rat.neg_mul, Rat.mul_neg] at a2
    constructor <;> grind

/-- `s ≈ S` (±Es), `|S| ≤ Ms`, `F ≈ G` (±δ), `F ≥ 0` ⇒ `s·F ≈ S·G` (± Es·F + Ms·δ) -/
theorem mul_near (s S F G Es Ms δ : Rat) (hs : Near s S Es) (hS1 : -Ms ≤ S) (hS2 : S ≤ Ms) (hF : 0 ≤ F)
    (hδ : Near F G δ) : Near (s * F) (S * G) (Es * F + Ms * δ) := by
  obtain ⟨s1, s2⟩ := hs
  obtain ⟨d1, d2⟩ := hδ
  have a1 := Rat.mul_le_mul_of_nonneg_right s1 hF
  have a2 := Rat.mul_le_mul_of_nonneg_right s2 hF
  obtain ⟨b1, b2⟩ := mul_bound S (F - G) Ms δ hS1 hS2 d1 d2
  rw [Rat.neg_mul] at a1
  have e : s * F - S * G = (s - S) * F + S * (F - G) := by grind
  unfold Near
  rw [e]
  constructor <;> grind

/-! ### the constants -/

theorem kY_val : FinP kY ∧ toRat kY = 9767553 / 8388608 := by decide +kernel
theorem kRV_val : FinP kRV ∧ toRat kRV = 13388445 / 8388608 := by decide +kernel
theorem kGU_val : FinP kGU ∧ toRat kGU = 13145351 / 33554432 := by decide +kernel
theorem kGV_val : FinP kGV ∧ toRat kGV = 3409835 / 4194304 := by decide +kernel
theorem kBU_val : FinP kBU ∧ toRat kBU = 2115221 / 1048576 := by decide +kernel

/-! ### the inputs: `y as f32 − 16.0` etc. are exact -/

theorem input_exact (y o W : Nat) (hy : y < W) (hW : W ≤ 65536) (ho : o ≤ W) :
    FinP (fsub (ofNat y) (ofNat o)) ∧ toRat (fsub (ofNat y) (ofNat o)) = (((y : Int) - (o : Int) : Int) : Rat) := by
  have e24 : (2 : Nat) ^ 24 = 16777216 := by decide
  obtain ⟨f1, v1⟩ := ofNat_exact y (by rw [e24]; omega)
  obtain ⟨f2, v2⟩ := ofNat_exact o (by rw [e24]; omega)
  rw [← Rat.intCast_natCast] at v1 v2
  exact fsub_exact _ _ f1 f2 _ _ v1 v2 (by rw [e24]; omega)

theorem int_bounds (y o W k : Nat) (hy : y < W) (hk : k * o = W) (hk0 : 0 < k) :
    -((W : Rat) / (k : Rat)) ≤ (((y : Int) - (o : Int) : Int) : Rat) ∧
    (((y : Int) - (o : Int) : Int) : Rat) ≤ (W : Rat) - (W : Rat) / (k : Rat) := by
  have hkr : (0 : Rat) < (k : Rat) := Rat.natCast_pos.mpr hk0
  have e : (W : Rat) / (k : Rat) = (o : Rat) := by
    rw [← hk, Rat.natCast_mul, Rat.mul_comm, Rat.mul_div_cancel (Rat.ne_of_gt hkr)]
  rw [e, Rat.intCast_sub, Rat.intCast_natCast, Rat.intCast_natCast]
  have h1 : (0 : Rat) ≤ (y : Rat) := Rat.natCast_nonneg
  have h2 : (y : Rat) ≤ (W : Rat) := Rat.natCast_le_natCast.mpr (by omega)
  constructor <;> grind

/-! ### the three sums -/

theorem cast2 (W : Nat) : ((2 * W : Nat) : Rat) = 2 * (W : Rat) := by
  rw [Rat.natCast_mul]; rfl
theorem cast4 (W : Nat) : ((4 * W : Nat) : Rat) = 4 * (W : Rat) := by
  rw [Rat.natCast_mul]; rfl

/-- the ideal sums (unnormalised): `1.164383·c + 1.596027·e` etc. -/
def idealR (c e : Rat) : Rat := 1164383 / 1000000 * c + 1596027 / 1000000 * e
def idealG (c d e : Rat) : Rat := 1164383 / 1000000 * c - 391762 / 1000000 * d - 812968 / 1000000 * e
def idealB (c d : Rat) : Rat := 1164383 / 1000000 * c + 2017232 / 1000000 * d

set_option maxHeartbeats 1000000 in
/-- ERROR OF THE THREE SUMS, all inputs, any bit depth `n ≤ 16` (`W = 2^n`, offsets `W/16`, `W/2`): in units of
`W·2^-24` the sums are within 3.5 (R), 5.25 (G), 5.5 (B) of the ideal sums, and bounded by 1.9·W, 1.75·W, 2.2·W -/
theorem sums_err (n W oy oc y u v : Nat) (hW : W = 2 ^ n) (hn : n ≤ 16) (hoy : 16 * oy = W) (hoc : 2 * oc = W)
    (hy : y < W) (hu : u < W) (hv : v < W) :
    FinP (yuvSums oy oc y u v).1 ∧ FinP (yuvSums oy oc y u v).2.1 ∧ FinP (yuvSums oy oc y u v).2.2 ∧
    Near (toRat (yuvSums oy oc y u v).1)
      (idealR (((y : Int) - (oy : Int) : Int) : Rat) (((v : Int) - (oc : Int) : Int) : Rat)) (7 * (W : Rat) / 33554432) ∧
    Near (toRat (yuvSums oy oc y u v).2.1)
      (idealG (((y : Int) - (oy : Int) : Int) : Rat) (((u : Int) - (oc : Int) : Int) : Rat)
        (((v : Int) - (oc : Int) : Int) : Rat)) (21 * (W : Rat) / 67108864) ∧
    Near (toRat (yuvSums oy oc y u v).2.2)
      (idealB (((y : Int) - (oy : Int) : Int) : Rat) (((u : Int) - (oc : Int) : Int) : Rat)) (11 * (W : Rat) / 33554432) := by
  have hW16 : W ≤ 65536 := by
    rw [hW]; exact Nat.pow_le_pow_right (by decide) hn
  obtain ⟨fc, vc⟩ := input_exact y oy W hy hW16 (by omega)
  obtain ⟨fd, vd⟩ := input_exact u oc W hu hW16 (by omega)
  obtain ⟨fe, ve⟩ := input_exact v oc W hv hW16 (by omega)
  obtain ⟨c1, c2⟩ := int_bounds y oy W 16 hy hoy (by decide)
  obtain ⟨d1, d2⟩ := int_bounds u oc W 2 hu hoc (by decide)
  obtain ⟨e1, e2⟩ := int_bounds v oc W 2 hv hoc (by decide)
  have hwpos : (0 : Rat) < (W : Rat) := Rat.natCast_pos.mpr (by rw [hW]; exact Nat.pow_pos (by decide))
  have hW2 : 2 * W = 2 ^ (n + 1) := by rw [hW, Nat.pow_succ]; omega
  have hW4 : 4 * W = 2 ^ (n + 2) := by rw [hW, Nat.pow_succ, Nat.pow_succ]; omega
  have k16 : ((16 : Nat) : Rat) = 16 := rfl
  have k2 : ((2 : Nat) : Rat) = 2 := rfl
  rw [k16] at c1 c2
  rw [k2] at d1 d2 e1 e2
  unfold yuvSums
  simp only []
  generalize fsub (ofNat y) (ofNat oy) = cf at *
  generalize fsub (ofNat u) (ofNat oc) = df at *
  generalize fsub (ofNat v) (ofNat oc) = ef at *
  generalize (((y : Int) - (oy : Int) : Int) : Rat) = c at *
  generalize (((u : Int) - (oc : Int) : Int) : Rat) = d at *
  generalize (((v : Int) - (oc : Int) : Int) : Rat) = e at *
  obtain ⟨fkY, vkY⟩ := kY_val
  obtain ⟨fkRV, vkRV⟩ := kRV_val
  obtain ⟨fkGU, vkGU⟩ := kGU_val
  obtain ⟨fkGV, vkGV⟩ := kGV_val
  obtain ⟨fkBU, vkBU⟩ := kBU_val
  -- yc
  obtain ⟨fyc, nyc⟩ := fmul_ulp kY cf fkY fc (n + 1) (2 * W) (by omega) hW2
    (by rw [cast2, vkY, vc]; grind) (by rw [cast2, vkY, vc]; grind)
  rw [cast2, vkY, vc] at nyc
  -- rv, gu, gv, bu
  obtain ⟨frv, nrv⟩ := fmul_ulp kRV ef fkRV fe n W (by omega) hW
    (by rw [vkRV, ve]; grind) (by rw [vkRV, ve]; grind)
  rw [vkRV, ve] at nrv
  obtain ⟨fgu, ngu⟩ := fmul_ulp kGU df fkGU fd n W (by omega) hW
    (by rw [vkGU, vd]; grind) (by rw [vkGU, vd]; grind)
  rw [vkGU, vd] at ngu
  obtain ⟨fgv, ngv⟩ := fmul_ulp kGV ef fkGV fe n W (by omega) hW
    (by rw [vkGV, ve]; grind) (by rw [vkGV, ve]; grind)
  rw [vkGV, ve] at ngv
  obtain ⟨fbu, nbu⟩ := fmul_ulp kBU df fkBU fd (n + 1) (2 * W) (by omega) hW2
    (by rw [cast2, vkBU, vd]; grind) (by rw [cast2, vkBU, vd]; grind)
  rw [cast2, vkBU, vd] at nbu
  unfold Near at nyc nrv ngu ngv nbu
  generalize fmul kY cf = yc at *
  generalize fmul kRV ef = rv at *
  generalize fmul kGU df = gu at *
  generalize fmul kGV ef = gv at *
  generalize fmul kBU df = bu at *
  -- r
  obtain ⟨fr, nr⟩ := fadd_ulp yc rv fyc frv (n + 1) (2 * W) (by omega) hW2
    (by rw [cast2]; grind) (by rw [cast2]; grind)
  rw [cast2] at nr
  -- g
  obtain ⟨ft, nt⟩ := fsub_ulp yc gu fyc fgu (n + 1) (2 * W) (by omega) hW2
    (by rw [cast2]; grind) (by rw [cast2]; grind)
  rw [cast2] at nt
  unfold Near at nt
  generalize fsub yc gu = t1 at *
  obtain ⟨fg, ng⟩ := fsub_ulp t1 gv ft fgv (n + 1) (2 * W) (by omega) hW2
    (by rw [cast2]; grind) (by rw [cast2]; grind)
  rw [cast2] at ng
  -- b
  obtain ⟨fb, nb⟩ := fadd_ulp yc bu fyc fbu (n + 2) (4 * W) (by omega) hW4
    (by rw [cast4]; grind) (by rw [cast4]; grind)
  rw [cast4] at nb
  unfold Near at nr ng nb ⊢
  unfold idealR idealG idealB
  refine ⟨fr, fg, fb, ⟨?_, ?_⟩, ⟨?_, ?_⟩, ⟨?_, ?_⟩⟩ <;> grind

/-! ### normalisation and clamp -/

theorem near_trans (a b c e1 e2 : Rat) (h1 : Near a b e1) (h2 : Near b c e2) : Near a c (e1 + e2) := by
  unfold Near at *
  constructor <;> grind

theorem near_mono (a b e1 e2 : Rat) (h1 : Near a b e1) (h : e1 ≤ e2) : Near a b e2 := by
  unfold Near at *
  constructor <;> grind

/-- `(sum * (1/max)).clamp(0.0, 1.0)`: `sum ≈ S` (±Es), `|S| ≤ Ms`, the constant `≈ G` (±δ) ⇒ the result is finite, a
pattern in `0 … 1.0` or `−0.0`, and within `2^(E−25) + Es·k + Ms·δ` of `clamp01 (S·G)` -/
theorem norm_step (r k : Nat) (hr : FinP r) (hk : FinP k) (S G Es Ms δ : Rat)
    (h1 : Near (toRat r) S Es) (hS1 : -Ms ≤ S) (hS2 : S ≤ Ms) (hF : 0 ≤ toRat k) (hδ : Near (toRat k) G δ)
    (E W' : Nat) (hE : E ≤ 127) (hW' : W' = 2 ^ E) (hb : (Ms + Es) * toRat k < (W' : Rat)) :
    FinP (fclamp (fmul r k) 0 one) ∧ (fclamp (fmul r k) 0 one ≤ one ∨ fclamp (fmul r k) 0 one = signBit) ∧
    Near (toRat (fclamp (fmul r k) 0 one)) (clamp01 (S * G)) ((W' : Rat) / 33554432 + (Es * toRat k + Ms * δ)) := by
  have hr1 : -(Ms + Es) ≤ toRat r := by unfold Near at h1; grind
  have hr2 : toRat r ≤ Ms + Es := by unfold Near at h1; grind
  have p1 := Rat.mul_le_mul_of_nonneg_right hr1 hF
  have p2 := Rat.mul_le_mul_of_nonneg_right hr2 hF
  rw [Rat.neg_mul] at p1
  obtain ⟨fm, nm⟩ := fmul_ulp r k hr hk E W' hE hW' (by grind) (by grind)
  have n2 := mul_near (toRat r) S (toRat k) G Es Ms δ h1 hS1 hS2 hF hδ
  have n3 := clamp01_near _ _ _ (near_trans _ _ _ _ _ nm n2)
  obtain ⟨c1, c2, c3⟩ := fclamp01 (fmul r k) fm
  rw [← c3] at n3
  exact ⟨c1, c2, n3⟩
/-! ### the F32 outputs -/

/-- the property of one output channel: finite, a pattern in `0 … 1.0` or `−0.0`, within `eps` of `q` -/
def ChanOk (out : Nat) (q eps : Rat) : Prop :=
  FinP out ∧ (out ≤ one ∨ out = signBit) ∧ Near (toRat out) q eps

set_option maxHeartbeats 1000000 in
/-- every channel of `yuvN::f32`, all inputs: within `10·2^-24` of the clamped ideal value.  `F` is the value of the
rounded constant `1/max`, `δ` its distance from `G = 1/max`; the four numeric side conditions are closed rational
inequalities (evaluated per bit depth). -/
theorem f32_err (n W oy oc k y u v : Nat) (F G δ : Rat) (hW : W = 2 ^ n) (hn : n ≤ 16) (hoy : 16 * oy = W)
    (hoc : 2 * oc = W) (hy : y < W) (hu : u < W) (hv : v < W)
    (hk : FinP k) (vk : toRat k = F) (hF : 0 ≤ F) (hδ : Near F G δ)
    (nR : (19 / 10 * (W : Rat) + 7 * (W : Rat) / 33554432) * F < 2)
    (nG : (7 / 4 * (W : Rat) + 21 * (W : Rat) / 67108864) * F < 2)
    (nB : (11 / 5 * (W : Rat) + 11 * (W : Rat) / 33554432) * F < 4)
    (eR : 2 / 33554432 + (7 * (W : Rat) / 33554432 * F + 19 / 10 * (W : Rat) * δ) ≤ 10 / 16777216)
    (eG : 2 / 33554432 + (21 * (W : Rat) / 67108864 * F + 7 / 4 * (W : Rat) * δ) ≤ 10 / 16777216)
    (eB : 4 / 33554432 + (11 * (W : Rat) / 33554432 * F + 11 / 5 * (W : Rat) * δ) ≤ 10 / 16777216) :
    ChanOk (fclamp (fmul (yuvSums oy oc y u v).1 k) 0 one)
      (clamp01 (idealR (((y : Int) - (oy : Int) : Int) : Rat) (((v : Int) - (oc : Int) : Int) : Rat) * G)) (10 / 16777216) ∧
    ChanOk (fclamp (fmul (yuvSums oy oc y u v).2.1 k) 0 one)
      (clamp01 (idealG (((y : Int) - (oy : Int) : Int) : Rat) (((u : Int) - (oc : Int) : Int) : Rat)
        (((v : Int) - (oc : Int) : Int) : Rat) * G)) (10 / 16777216) ∧
    ChanOk (fclamp (fmul (yuvSums oy oc y u v).2.2 k) 0 one)
      (clamp01 (idealB (((y : Int) - (oy : Int) : Int) : Rat) (((u : Int) - (oc : Int) : Int) : Rat) * G)) (10 / 16777216) := by
  obtain ⟨fr, fg, fb, sr, sg, sb⟩ := sums_err n W oy oc y u v hW hn hoy hoc hy hu hv
  obtain ⟨c1, c2⟩ := int_bounds y oy W 16 hy hoy (by decide)
  obtain ⟨d1, d2⟩ := int_bounds u oc W 2 hu hoc (by decide)
  obtain ⟨e1, e2⟩ := int_bounds v oc W 2 hv hoc (by decide)
  have hwpos : (0 : Rat) < (W : Rat) := Rat.natCast_pos.mpr (by rw [hW]; exact Nat.pow_pos (by decide))
  have k16 : ((16 : Nat) : Rat) = 16 := rfl
  have k2 : ((2 : Nat) : Rat) = 2 := rfl
  rw [k16] at c1 c2
  rw [k2] at d1 d2 e1 e2
  generalize (((y : Int) - (oy : Int) : Int) : Rat) = c at *
  generalize (((u : Int) - (oc : Int) : Int) : Rat) = d at *
  generalize (((v : Int) - (oc : Int) : Int) : Rat) = e at *
  have c2' : ((2 : Nat) : Rat) = 2 := rfl
  have c4' : ((4 : Nat) : Rat) = 4 := rfl
  subst vk
  refine ⟨?_, ?_, ?_⟩
  · obtain ⟨o1, o2, o3⟩ := norm_step _ k fr hk (idealR c e) G _ (19 / 10 * (W : Rat)) δ sr
      (by unfold idealR; grind) (by unfold idealR; grind) hF hδ 1 2 (by decide) (by decide) (by rw [c2']; exact nR)
    rw [c2'] at o3
    exact ⟨o1, o2, near_mono _ _ _ _ o3 eR⟩
  · obtain ⟨o1, o2, o3⟩ := norm_step _ k fg hk (idealG c d e) G _ (7 / 4 * (W : Rat)) δ sg
      (by unfold idealG; grind) (by unfold idealG; grind) hF hδ 1 2 (by decide) (by decide) (by rw [c2']; exact nG)
    rw [c2'] at o3
    exact ⟨o1, o2, near_mono _ _ _ _ o3 eG⟩
  · obtain ⟨o1, o2, o3⟩ := norm_step _ k fb hk (idealB c d) G _ (11 / 5 * (W : Rat)) δ sb
      (by unfold idealB; grind) (by unfold idealB; grind) hF hδ 2 4 (by decide) (by decide) (by rw [c4']; exact nB)
    rw [c4'] at o3
    exact ⟨o1, o2, near_mono _ _ _ _ o3 eB⟩

theorem k255_val : FinP k255 ∧ toRat k255 = 8421505 / 2147483648 := by decide +kernel
theorem k1023_val : FinP k1023 ∧ toRat k1023 = 1049601 / 1073741824 := by decide +kernel
theorem k65535_val : FinP k65535 ∧ toRat k65535 = 65537 / 4294967296 := by decide +kernel


/-- `yuv8::f32`, all inputs -/
theorem f32_err8 (y u v : Nat) (hy : y < 256) (hu : u < 256) (hv : v < 256) :
    ChanOk (fclamp (fmul (yuvSums 16 128 y u v).1 k255) 0 one)
      (clamp01 (idealR (((y : Int) - (16 : Nat) : Int) : Rat) (((v : Int) - (128 : Nat) : Int) : Rat) * (1 / 255))) (10 / 16777216) ∧
    ChanOk (fclamp (fmul (yuvSums 16 128 y u v).2.1 k255) 0 one)
      (clamp01 (idealG (((y : Int) - (16 : Nat) : Int) : Rat) (((u : Int) - (128 : Nat) : Int) : Rat)
        (((v : Int) - (128 : Nat) : Int) : Rat) * (1 / 255))) (10 / 16777216) ∧
    ChanOk (fclamp (fmul (yuvSums 16 128 y u v).2.2 k255) 0 one)
      (clamp01 (idealB (((y : Int) - (16 : Nat) : Int) : Rat) (((u : Int) - (128 : Nat) : Int) : Rat) * (1 / 255))) (10 / 16777216) :=
  f32_err 8 256 16 128 k255 y u v (8421505 / 2147483648) (1 / 255) (127 / 547608330240) (by decide) (by decide) (by decide)
    (by decide) hy hu hv k255_val.1 k255_val.2 (by decide +kernel) (by decide +kernel) (by decide +kernel)
    (by decide +kernel) (by decide +kernel) (by decide +kernel) (by decide +kernel) (by decide +kernel)

/-- `yuv10::f32`, all inputs -/
theorem f32_err10 (y u v : Nat) (hy : y < 1024) (hu : u < 1024) (hv : v < 1024) :
    ChanOk (fclamp (fmul (yuvSums 64 512 y u v).1 k1023) 0 one)
      (clamp01 (idealR (((y : Int) - (64 : Nat) : Int) : Rat) (((v : Int) - (512 : Nat) : Int) : Rat) * (1 / 1023))) (10 / 16777216) ∧
    ChanOk (fclamp (fmul (yuvSums 64 512 y u v).2.1 k1023) 0 one)
      (clamp01 (idealG (((y : Int) - (64 : Nat) : Int) : Rat) (((u : Int) - (512 : Nat) : Int) : Rat)
        (((v : Int) - (512 : Nat) : Int) : Rat) * (1 / 1023))) (10 / 16777216) ∧
    ChanOk (fclamp (fmul (yuvSums 64 512 y u v).2.2 k1023) 0 one)
      (clamp01 (idealB (((y : Int) - (64 : Nat) : Int) : Rat) (((u : Int) - (512 : Nat) : Int) : Rat) * (1 / 1023))) (10 / 16777216) :=
  f32_err 10 1024 64 512 k1023 y u v (1049601 / 1073741824) (1 / 1023) (1 / 1098437885952) (by decide) (by decide) (by decide)
    (by decide) hy hu hv k1023_val.1 k1023_val.2 (by decide +kernel) (by decide +kernel) (by decide +kernel)
    (by decide +kernel) (by decide +kernel) (by decide +kernel) (by decide +kernel) (by decide +kernel)

/-- `yuv16::f32`, all inputs -/
theorem f32_err16 (y u v : Nat) (hy : y < 65536) (hu : u < 65536) (hv : v < 65536) :
    ChanOk (fclamp (fmul (yuvSums 4096 32768 y u v).1 k65535) 0 one)
      (clamp01 (idealR (((y : Int) - (4096 : Nat) : Int) : Rat) (((v : Int) - (32768 : Nat) : Int) : Rat) * (1 / 65535))) (10 / 16777216) ∧
    ChanOk (fclamp (fmul (yuvSums 4096 32768 y u v).2.1 k65535) 0 one)
      (clamp01 (idealG (((y : Int) - (4096 : Nat) : Int) : Rat) (((u : Int) - (32768 : Nat) : Int) : Rat)
        (((v : Int) - (32768 : Nat) : Int) : Rat) * (1 / 65535))) (10 / 16777216) ∧
    ChanOk (fclamp (fmul (yuvSums 4096 32768 y u v).2.2 k65535) 0 one)
      (clamp01 (idealB (((y : Int) - (4096 : Nat) : Int) : Rat) (((u : Int) - (32768 : Nat) : Int) : Rat) * (1 / 65535))) (10 / 16777216) :=
  f32_err 16 65536 4096 32768 k65535 y u v (65537 / 4294967296) (1 / 65535) (1 / 281470681743360) (by decide) (by decide) (by decide)
    (by decide) hy hu hv k65535_val.1 k65535_val.2 (by decide +kernel) (by decide +kernel) (by decide +kernel)
    (by decide +kernel) (by decide +kernel) (by decide +kernel) (by decide +kernel) (by decide +kernel)
end Dds.YuvErr
