/-
C04, YUV decoders (`yuv8/yuv10/yuv16::{f32, n8, n16}` of `src/color/formats.rs`): a rounding-error analysis of the
binary32 evaluation for ALL inputs (2^24, 2^30, 2^48 triples — no enumeration), on top of the standard model of
`Proofs/F32Err.lean` / `Proofs/F32ErrOps.lean`.

* `input_exact`: `y as f32 − 16.0` etc. are exact;
* `sums_err`: for every bit depth `n ≤ 16` (`W = 2^n`) the three sums `r, g, b` of `Conv.yuvSums` are finite and within
  3.5 / 5.25 / 5.5 units of `W·2^-24` of the ideal sums with the documented 6-decimal constants (rounding of the five
  constants included);
* `norm_step`: multiplication by the rounded `1/max` and `clamp(0, 1)`;
* `f32_err`: every channel of `yuvF32` is within `10·2^-24` of the clamped ideal value (normalised units);
* `fpn_adm`: composing with `fp::n8`/`fp::n16` (all 2^32 patterns, `Proofs/ConvF32Thr.lean`): the code is admissible
  (`Spec.admissible`: `|code/max − ideal| ≤ 1/(2·max) + 2^-12/255`) whenever the float is within `τ − 2^-24` of the ideal;
* `n8_direct`: the direct `(sum + 0.5) as u8` of `yuv8::n8`;
* `sat_f32`, `sat_n8_direct`, `yuvN_sat`: exact saturation (unclamped ideal ≥ 1 + 2^-20 ⇒ maximum, ≤ −2^-20 ⇒ 0).
Core only.
-/
import DdsModel.Proofs.F32ErrOps
import DdsModel.Proofs.ConvF32Thr
import DdsModel.Conv
import DdsModel.ConvSpecYuv
namespace Dds.YuvErr
open Dds Dds.CF32 Dds.Conv Dds.Spec Dds.F32Err Dds.F32Mono Dds.F32Thr

/-! ### products of bounded quantities -/

theorem mul_bound (S x M d : Rat) (hS1 : -M ≤ S) (hS2 : S ≤ M) (hx1 : -d ≤ x) (hx2 : x ≤ d) :
    -(M * d) ≤ S * x ∧ S * x ≤ M * d := by
  have hM : 0 ≤ M := by grind
  have hd : 0 ≤ d := by grind
  by_cases h : 0 ≤ x
  · have a1 := Rat.mul_le_mul_of_nonneg_right hS2 h
    have a2 := Rat.mul_le_mul_of_nonneg_right hS1 h
    have a3 := Rat.mul_le_mul_of_nonneg_left hx2 hM
    rw [Rat.neg_mul] at a2
    constructor <;> grind
  · have h' : 0 ≤ -x := by grind
    have a1 := Rat.mul_le_mul_of_nonneg_right hS2 h'
    have a2 := Rat.mul_le_mul_of_nonneg_right hS1 h'
    have a3 : M * (-x) ≤ M * d := Rat.mul_le_mul_of_nonneg_left (by grind) hM
    rw [Rat.mul_neg] at a1 a2 a3
    rw [Rat.neg_mul, Rat.mul_neg] at a2
    constructor <;> grind

/-- `s ≈ S` (±Es), `|S| ≤ Ms`, `F ≈ G` (±δ), `F ≥ 0` ⇒ `s·F ≈ S·G` (± Es·F + Ms·δ) -/
theorem mul_near (s S F G Es Ms δ : Rat) (hs : Near s S Es) (hS1 : -Ms ≤ S) (hS2 : S ≤ Ms) (hF : 0 ≤ F)
    (hδ : Near F G δ) : Near (s * F) (S * G) (Es * F + Ms * δ) := by
  obtain ⟨s1, s2⟩ := hs
  obtain ⟨d1, d2⟩ := hδ
  have a1 := Rat.mul_le_mul_of_nonneg_right s1 hF
  have a2 := Rat.mul_le_mul_of_nonneg_right s2 hF
  obtain ⟨b1, b2⟩ := mul_bound S (F - G) Ms δ hS1 hS2 d1 d2
  rw [Rat.neg_mul] at a1
  have e : s * F - S * G = (s - S) * F + S * (F - G) := by grind
  unfold Near
  rw [e]
  constructor <;> grind

/-! ### the constants -/

theorem kY_val : FinP kY ∧ toRat kY = 9767553 / 8388608 := by decide +kernel
theorem kRV_val : FinP kRV ∧ toRat kRV = 13388445 / 8388608 := by decide +kernel
theorem kGU_val : FinP kGU ∧ toRat kGU = 13145351 / 33554432 := by decide +kernel
theorem kGV_val : FinP kGV ∧ toRat kGV = 3409835 / 4194304 := by decide +kernel
theorem kBU_val : FinP kBU ∧ toRat kBU = 2115221 / 1048576 := by decide +kernel

/-! ### the inputs: `y as f32 − 16.0` etc. are exact -/

theorem input_exact (y o W : Nat) (hy : y < W) (hW : W ≤ 65536) (ho : o ≤ W) :
    FinP (fsub (ofNat y) (ofNat o)) ∧ toRat (fsub (ofNat y) (ofNat o)) = (((y : Int) - (o : Int) : Int) : Rat) := by
  have e24 : (2 : Nat) ^ 24 = 16777216 := by decide
  obtain ⟨f1, v1⟩ := ofNat_exact y (by rw [e24]; omega)
  obtain ⟨f2, v2⟩ := ofNat_exact o (by rw [e24]; omega)
  rw [← Rat.intCast_natCast] at v1 v2
  exact fsub_exact _ _ f1 f2 _ _ v1 v2 (by rw [e24]; omega)

theorem int_bounds (y o W k : Nat) (hy : y < W) (hk : k * o = W) (hk0 : 0 < k) :
    -((W : Rat) / (k : Rat)) ≤ (((y : Int) - (o : Int) : Int) : Rat) ∧
    (((y : Int) - (o : Int) : Int) : Rat) ≤ (W : Rat) - (W : Rat) / (k : Rat) := by
  have hkr : (0 : Rat) < (k : Rat) := Rat.natCast_pos.mpr hk0
  have e : (W : Rat) / (k : Rat) = (o : Rat) := by
    rw [← hk, Rat.natCast_mul, Rat.mul_comm, Rat.mul_div_cancel (Rat.ne_of_gt hkr)]
  rw [e, Rat.intCast_sub, Rat.intCast_natCast, Rat.intCast_natCast]
  have h1 : (0 : Rat) ≤ (y : Rat) := Rat.natCast_nonneg
  have h2 : (y : Rat) ≤ (W : Rat) := Rat.natCast_le_natCast.mpr (by omega)
  constructor <;> grind

/-! ### the three sums -/

theorem cast2 (W : Nat) : ((2 * W : Nat) : Rat) = 2 * (W : Rat) := by
  rw [Rat.natCast_mul]; rfl
theorem cast4 (W : Nat) : ((4 * W : Nat) : Rat) = 4 * (W : Rat) := by
  rw [Rat.natCast_mul]; rfl

/-- the ideal sums (unnormalised): `1.164383·c + 1.596027·e` etc. -/
def idealR (c e : Rat) : Rat := 1164383 / 1000000 * c + 1596027 / 1000000 * e
def idealG (c d e : Rat) : Rat := 1164383 / 1000000 * c - 391762 / 1000000 * d - 812968 / 1000000 * e
def idealB (c d : Rat) : Rat := 1164383 / 1000000 * c + 2017232 / 1000000 * d

/-- ERROR OF THE THREE SUMS, all inputs, any bit depth `n ≤ 16` (`W = 2^n`, offsets `W/16`, `W/2`): in units of
`W·2^-24` the sums are within 3.5 (R), 5.25 (G), 5.5 (B) of the ideal sums, and bounded by 1.9·W, 1.75·W, 2.2·W -/
theorem sums_err (n W oy oc y u v : Nat) (hW : W = 2 ^ n) (hn : n ≤ 16) (hoy : 16 * oy = W) (hoc : 2 * oc = W)
    (hy : y < W) (hu : u < W) (hv : v < W) :
    FinP (yuvSums oy oc y u v).1 ∧ FinP (yuvSums oy oc y u v).2.1 ∧ FinP (yuvSums oy oc y u v).2.2 ∧
    Near (toRat (yuvSums oy oc y u v).1)
      (idealR (((y : Int) - (oy : Int) : Int) : Rat) (((v : Int) - (oc : Int) : Int) : Rat)) (7 * (W : Rat) / 33554432) ∧
    Near (toRat (yuvSums oy oc y u v).2.1)
      (idealG (((y : Int) - (oy : Int) : Int) : Rat) (((u : Int) - (oc : Int) : Int) : Rat)
        (((v : Int) - (oc : Int) : Int) : Rat)) (21 * (W : Rat) / 67108864) ∧
    Near (toRat (yuvSums oy oc y u v).2.2)
      (idealB (((y : Int) - (oy : Int) : Int) : Rat) (((u : Int) - (oc : Int) : Int) : Rat)) (11 * (W : Rat) / 33554432) := by
  have hW16 : W ≤ 65536 := by
    rw [hW]; exact Nat.pow_le_pow_right (by decide) hn
  obtain ⟨fc, vc⟩ := input_exact y oy W hy hW16 (by omega)
  obtain ⟨fd, vd⟩ := input_exact u oc W hu hW16 (by omega)
  obtain ⟨fe, ve⟩ := input_exact v oc W hv hW16 (by omega)
  obtain ⟨c1, c2⟩ := int_bounds y oy W 16 hy hoy (by decide)
  obtain ⟨d1, d2⟩ := int_bounds u oc W 2 hu hoc (by decide)
  obtain ⟨e1, e2⟩ := int_bounds v oc W 2 hv hoc (by decide)
  have hwpos : (0 : Rat) < (W : Rat) := Rat.natCast_pos.mpr (by rw [hW]; exact Nat.pow_pos (by decide))
  have hW2 : 2 * W = 2 ^ (n + 1) := by rw [hW, Nat.pow_succ]; omega
  have hW4 : 4 * W = 2 ^ (n + 2) := by rw [hW, Nat.pow_succ, Nat.pow_succ]; omega
  have k16 : ((16 : Nat) : Rat) = 16 := rfl
  have k2 : ((2 : Nat) : Rat) = 2 := rfl
  rw [k16] at c1 c2
  rw [k2] at d1 d2 e1 e2
  unfold yuvSums
  simp only []
  generalize fsub (ofNat y) (ofNat oy) = cf at *
  generalize fsub (ofNat u) (ofNat oc) = df at *
  generalize fsub (ofNat v) (ofNat oc) = ef at *
  generalize (((y : Int) - (oy : Int) : Int) : Rat) = c at *
  generalize (((u : Int) - (oc : Int) : Int) : Rat) = d at *
  generalize (((v : Int) - (oc : Int) : Int) : Rat) = e at *
  obtain ⟨fkY, vkY⟩ := kY_val
  obtain ⟨fkRV, vkRV⟩ := kRV_val
  obtain ⟨fkGU, vkGU⟩ := kGU_val
  obtain ⟨fkGV, vkGV⟩ := kGV_val
  obtain ⟨fkBU, vkBU⟩ := kBU_val
  -- yc
  obtain ⟨fyc, nyc⟩ := fmul_ulp kY cf fkY fc (n + 1) (2 * W) (by omega) hW2
    (by rw [cast2, vkY, vc]; grind) (by rw [cast2, vkY, vc]; grind)
  rw [cast2, vkY, vc] at nyc
  -- rv, gu, gv, bu
  obtain ⟨frv, nrv⟩ := fmul_ulp kRV ef fkRV fe n W (by omega) hW
    (by rw [vkRV, ve]; grind) (by rw [vkRV, ve]; grind)
  rw [vkRV, ve] at nrv
  obtain ⟨fgu, ngu⟩ := fmul_ulp kGU df fkGU fd n W (by omega) hW
    (by rw [vkGU, vd]; grind) (by rw [vkGU, vd]; grind)
  rw [vkGU, vd] at ngu
  obtain ⟨fgv, ngv⟩ := fmul_ulp kGV ef fkGV fe n W (by omega) hW
    (by rw [vkGV, ve]; grind) (by rw [vkGV, ve]; grind)
  rw [vkGV, ve] at ngv
  obtain ⟨fbu, nbu⟩ := fmul_ulp kBU df fkBU fd (n + 1) (2 * W) (by omega) hW2
    (by rw [cast2, vkBU, vd]; grind) (by rw [cast2, vkBU, vd]; grind)
  rw [cast2, vkBU, vd] at nbu
  unfold Near at nyc nrv ngu ngv nbu
  generalize fmul kY cf = yc at *
  generalize fmul kRV ef = rv at *
  generalize fmul kGU df = gu at *
  generalize fmul kGV ef = gv at *
  generalize fmul kBU df = bu at *
  -- r
  obtain ⟨fr, nr⟩ := fadd_ulp yc rv fyc frv (n + 1) (2 * W) (by omega) hW2
    (by rw [cast2]; grind) (by rw [cast2]; grind)
  rw [cast2] at nr
  -- g
  obtain ⟨ft, nt⟩ := fsub_ulp yc gu fyc fgu (n + 1) (2 * W) (by omega) hW2
    (by rw [cast2]; grind) (by rw [cast2]; grind)
  rw [cast2] at nt
  unfold Near at nt
  generalize fsub yc gu = t1 at *
  obtain ⟨fg, ng⟩ := fsub_ulp t1 gv ft fgv (n + 1) (2 * W) (by omega) hW2
    (by rw [cast2]; grind) (by rw [cast2]; grind)
  rw [cast2] at ng
  -- b
  obtain ⟨fb, nb⟩ := fadd_ulp yc bu fyc fbu (n + 2) (4 * W) (by omega) hW4
    (by rw [cast4]; grind) (by rw [cast4]; grind)
  rw [cast4] at nb
  unfold Near at nr ng nb ⊢
  unfold idealR idealG idealB
  refine ⟨fr, fg, fb, ⟨?_, ?_⟩, ⟨?_, ?_⟩, ⟨?_, ?_⟩⟩ <;> grind

/-! ### normalisation and clamp -/

/-- `(sum * (1/max)).clamp(0.0, 1.0)`: `sum ≈ S` (±Es), `|S| ≤ Ms`, the constant `≈ G` (±δ) ⇒ the result is finite, a
pattern in `0 … 1.0` or `−0.0`, and within `2^(E−25) + Es·k + Ms·δ` of `clamp01 (S·G)` -/
theorem norm_step (r k : Nat) (hr : FinP r) (hk : FinP k) (S G Es Ms δ : Rat)
    (h1 : Near (toRat r) S Es) (hS1 : -Ms ≤ S) (hS2 : S ≤ Ms) (hF : 0 ≤ toRat k) (hδ : Near (toRat k) G δ)
    (E W' : Nat) (hE : E ≤ 127) (hW' : W' = 2 ^ E) (hb : (Ms + Es) * toRat k < (W' : Rat)) :
    (FinP (fmul r k) ∧ Near (toRat (fmul r k)) (S * G) ((W' : Rat) / 33554432 + (Es * toRat k + Ms * δ))) ∧
    FinP (fclamp (fmul r k) 0 one) ∧ (fclamp (fmul r k) 0 one ≤ one ∨ fclamp (fmul r k) 0 one = signBit) ∧
    Near (toRat (fclamp (fmul r k) 0 one)) (clamp01 (S * G)) ((W' : Rat) / 33554432 + (Es * toRat k + Ms * δ)) := by
  have hr1 : -(Ms + Es) ≤ toRat r := by unfold Near at h1; grind
  have hr2 : toRat r ≤ Ms + Es := by unfold Near at h1; grind
  have p1 := Rat.mul_le_mul_of_nonneg_right hr1 hF
  have p2 := Rat.mul_le_mul_of_nonneg_right hr2 hF
  rw [Rat.neg_mul] at p1
  obtain ⟨fm, nm⟩ := fmul_ulp r k hr hk E W' hE hW' (by grind) (by grind)
  have n2 := mul_near (toRat r) S (toRat k) G Es Ms δ h1 hS1 hS2 hF hδ
  have nraw := near_trans _ _ _ _ _ nm n2
  have n3 := clamp01_near _ _ _ nraw
  obtain ⟨c1, c2, c3⟩ := fclamp01 (fmul r k) fm
  rw [← c3] at n3
  exact ⟨⟨fm, nraw⟩, c1, c2, n3⟩

/-! ### the F32 outputs -/

/-- the property of one output channel: finite, a pattern in `0 … 1.0` or `−0.0`, within `eps` of `q` -/
def ChanOk (out : Nat) (q eps : Rat) : Prop :=
  FinP out ∧ (out ≤ one ∨ out = signBit) ∧ Near (toRat out) q eps

/-- the value before the clamp: finite and within `eps` of the unclamped ideal -/
def ChanRaw (x : Nat) (raw eps : Rat) : Prop := FinP x ∧ Near (toRat x) raw eps

/-- every channel of `yuvN::f32`, all inputs: within `10·2^-24` of the clamped ideal value.  `F` is the value of the
rounded constant `1/max`, `δ` its distance from `G = 1/max`; the four numeric side conditions are closed rational
inequalities (evaluated per bit depth). -/
theorem f32_err (n W oy oc k y u v : Nat) (F G δ : Rat) (hW : W = 2 ^ n) (hn : n ≤ 16) (hoy : 16 * oy = W)
    (hoc : 2 * oc = W) (hy : y < W) (hu : u < W) (hv : v < W)
    (hk : FinP k) (vk : toRat k = F) (hF : 0 ≤ F) (hδ : Near F G δ)
    (nR : (19 / 10 * (W : Rat) + 7 * (W : Rat) / 33554432) * F < 2)
    (nG : (7 / 4 * (W : Rat) + 21 * (W : Rat) / 67108864) * F < 2)
    (nB : (11 / 5 * (W : Rat) + 11 * (W : Rat) / 33554432) * F < 4)
    (eR : 2 / 33554432 + (7 * (W : Rat) / 33554432 * F + 19 / 10 * (W : Rat) * δ) ≤ 10 / 16777216)
    (eG : 2 / 33554432 + (21 * (W : Rat) / 67108864 * F + 7 / 4 * (W : Rat) * δ) ≤ 10 / 16777216)
    (eB : 4 / 33554432 + (11 * (W : Rat) / 33554432 * F + 11 / 5 * (W : Rat) * δ) ≤ 10 / 16777216) :
    (ChanRaw (fmul (yuvSums oy oc y u v).1 k) (idealR (((y : Int) - (oy : Int) : Int) : Rat) (((v : Int) - (oc : Int) : Int) : Rat) * G) (10 / 16777216) ∧
      ChanOk (fclamp (fmul (yuvSums oy oc y u v).1 k) 0 one)
      (clamp01 (idealR (((y : Int) - (oy : Int) : Int) : Rat) (((v : Int) - (oc : Int) : Int) : Rat) * G)) (10 / 16777216)) ∧
    (ChanRaw (fmul (yuvSums oy oc y u v).2.1 k) (idealG (((y : Int) - (oy : Int) : Int) : Rat) (((u : Int) - (oc : Int) : Int) : Rat)
        (((v : Int) - (oc : Int) : Int) : Rat) * G) (10 / 16777216) ∧
      ChanOk (fclamp (fmul (yuvSums oy oc y u v).2.1 k) 0 one)
      (clamp01 (idealG (((y : Int) - (oy : Int) : Int) : Rat) (((u : Int) - (oc : Int) : Int) : Rat)
        (((v : Int) - (oc : Int) : Int) : Rat) * G)) (10 / 16777216)) ∧
    (ChanRaw (fmul (yuvSums oy oc y u v).2.2 k) (idealB (((y : Int) - (oy : Int) : Int) : Rat) (((u : Int) - (oc : Int) : Int) : Rat) * G) (10 / 16777216) ∧
      ChanOk (fclamp (fmul (yuvSums oy oc y u v).2.2 k) 0 one)
      (clamp01 (idealB (((y : Int) - (oy : Int) : Int) : Rat) (((u : Int) - (oc : Int) : Int) : Rat) * G)) (10 / 16777216)) := by
  obtain ⟨fr, fg, fb, sr, sg, sb⟩ := sums_err n W oy oc y u v hW hn hoy hoc hy hu hv
  obtain ⟨c1, c2⟩ := int_bounds y oy W 16 hy hoy (by decide)
  obtain ⟨d1, d2⟩ := int_bounds u oc W 2 hu hoc (by decide)
  obtain ⟨e1, e2⟩ := int_bounds v oc W 2 hv hoc (by decide)
  have hwpos : (0 : Rat) < (W : Rat) := Rat.natCast_pos.mpr (by rw [hW]; exact Nat.pow_pos (by decide))
  have k16 : ((16 : Nat) : Rat) = 16 := rfl
  have k2 : ((2 : Nat) : Rat) = 2 := rfl
  rw [k16] at c1 c2
  rw [k2] at d1 d2 e1 e2
  generalize (((y : Int) - (oy : Int) : Int) : Rat) = c at *
  generalize (((u : Int) - (oc : Int) : Int) : Rat) = d at *
  generalize (((v : Int) - (oc : Int) : Int) : Rat) = e at *
  have c2' : ((2 : Nat) : Rat) = 2 := rfl
  have c4' : ((4 : Nat) : Rat) = 4 := rfl
  subst vk
  refine ⟨?_, ?_, ?_⟩
  · obtain ⟨o0, o1, o2, o3⟩ := norm_step _ k fr hk (idealR c e) G _ (19 / 10 * (W : Rat)) δ sr
      (by unfold idealR; grind) (by unfold idealR; grind) hF hδ 1 2 (by decide) (by decide) (by rw [c2']; exact nR)
    rw [c2'] at o3 o0
    exact ⟨⟨o0.1, near_mono _ _ _ _ o0.2 eR⟩, o1, o2, near_mono _ _ _ _ o3 eR⟩
  · obtain ⟨o0, o1, o2, o3⟩ := norm_step _ k fg hk (idealG c d e) G _ (7 / 4 * (W : Rat)) δ sg
      (by unfold idealG; grind) (by unfold idealG; grind) hF hδ 1 2 (by decide) (by decide) (by rw [c2']; exact nG)
    rw [c2'] at o3 o0
    exact ⟨⟨o0.1, near_mono _ _ _ _ o0.2 eG⟩, o1, o2, near_mono _ _ _ _ o3 eG⟩
  · obtain ⟨o0, o1, o2, o3⟩ := norm_step _ k fb hk (idealB c d) G _ (11 / 5 * (W : Rat)) δ sb
      (by unfold idealB; grind) (by unfold idealB; grind) hF hδ 2 4 (by decide) (by decide) (by rw [c4']; exact nB)
    rw [c4'] at o3 o0
    exact ⟨⟨o0.1, near_mono _ _ _ _ o0.2 eB⟩, o1, o2, near_mono _ _ _ _ o3 eB⟩

theorem k255_val : FinP k255 ∧ toRat k255 = 8421505 / 2147483648 := by decide +kernel
theorem k1023_val : FinP k1023 ∧ toRat k1023 = 1049601 / 1073741824 := by decide +kernel
theorem k65535_val : FinP k65535 ∧ toRat k65535 = 65537 / 4294967296 := by decide +kernel


/-- `yuv8::f32`, all inputs -/
theorem f32_err8 (y u v : Nat) (hy : y < 256) (hu : u < 256) (hv : v < 256) :
    (ChanRaw (fmul (yuvSums 16 128 y u v).1 k255) (idealR (((y : Int) - (16 : Nat) : Int) : Rat) (((v : Int) - (128 : Nat) : Int) : Rat) * (1 / 255)) (10 / 16777216) ∧
      ChanOk (fclamp (fmul (yuvSums 16 128 y u v).1 k255) 0 one)
      (clamp01 (idealR (((y : Int) - (16 : Nat) : Int) : Rat) (((v : Int) - (128 : Nat) : Int) : Rat) * (1 / 255))) (10 / 16777216)) ∧
    (ChanRaw (fmul (yuvSums 16 128 y u v).2.1 k255) (idealG (((y : Int) - (16 : Nat) : Int) : Rat) (((u : Int) - (128 : Nat) : Int) : Rat)
        (((v : Int) - (128 : Nat) : Int) : Rat) * (1 / 255)) (10 / 16777216) ∧
      ChanOk (fclamp (fmul (yuvSums 16 128 y u v).2.1 k255) 0 one)
      (clamp01 (idealG (((y : Int) - (16 : Nat) : Int) : Rat) (((u : Int) - (128 : Nat) : Int) : Rat)
        (((v : Int) - (128 : Nat) : Int) : Rat) * (1 / 255))) (10 / 16777216)) ∧
    (ChanRaw (fmul (yuvSums 16 128 y u v).2.2 k255) (idealB (((y : Int) - (16 : Nat) : Int) : Rat) (((u : Int) - (128 : Nat) : Int) : Rat) * (1 / 255)) (10 / 16777216) ∧
      ChanOk (fclamp (fmul (yuvSums 16 128 y u v).2.2 k255) 0 one)
      (clamp01 (idealB (((y : Int) - (16 : Nat) : Int) : Rat) (((u : Int) - (128 : Nat) : Int) : Rat) * (1 / 255))) (10 / 16777216)) :=
  f32_err 8 256 16 128 k255 y u v (8421505 / 2147483648) (1 / 255) (127 / 547608330240) (by decide) (by decide) (by decide)
    (by decide) hy hu hv k255_val.1 k255_val.2 (by decide +kernel) (by decide +kernel) (by decide +kernel)
    (by decide +kernel) (by decide +kernel) (by decide +kernel) (by decide +kernel) (by decide +kernel)

/-- `yuv10::f32`, all inputs -/
theorem f32_err10 (y u v : Nat) (hy : y < 1024) (hu : u < 1024) (hv : v < 1024) :
    (ChanRaw (fmul (yuvSums 64 512 y u v).1 k1023) (idealR (((y : Int) - (64 : Nat) : Int) : Rat) (((v : Int) - (512 : Nat) : Int) : Rat) * (1 / 1023)) (10 / 16777216) ∧
      ChanOk (fclamp (fmul (yuvSums 64 512 y u v).1 k1023) 0 one)
      (clamp01 (idealR (((y : Int) - (64 : Nat) : Int) : Rat) (((v : Int) - (512 : Nat) : Int) : Rat) * (1 / 1023))) (10 / 16777216)) ∧
    (ChanRaw (fmul (yuvSums 64 512 y u v).2.1 k1023) (idealG (((y : Int) - (64 : Nat) : Int) : Rat) (((u : Int) - (512 : Nat) : Int) : Rat)
        (((v : Int) - (512 : Nat) : Int) : Rat) * (1 / 1023)) (10 / 16777216) ∧
      ChanOk (fclamp (fmul (yuvSums 64 512 y u v).2.1 k1023) 0 one)
      (clamp01 (idealG (((y : Int) - (64 : Nat) : Int) : Rat) (((u : Int) - (512 : Nat) : Int) : Rat)
        (((v : Int) - (512 : Nat) : Int) : Rat) * (1 / 1023))) (10 / 16777216)) ∧
    (ChanRaw (fmul (yuvSums 64 512 y u v).2.2 k1023) (idealB (((y : Int) - (64 : Nat) : Int) : Rat) (((u : Int) - (512 : Nat) : Int) : Rat) * (1 / 1023)) (10 / 16777216) ∧
      ChanOk (fclamp (fmul (yuvSums 64 512 y u v).2.2 k1023) 0 one)
      (clamp01 (idealB (((y : Int) - (64 : Nat) : Int) : Rat) (((u : Int) - (512 : Nat) : Int) : Rat) * (1 / 1023))) (10 / 16777216)) :=
  f32_err 10 1024 64 512 k1023 y u v (1049601 / 1073741824) (1 / 1023) (1 / 1098437885952) (by decide) (by decide) (by decide)
    (by decide) hy hu hv k1023_val.1 k1023_val.2 (by decide +kernel) (by decide +kernel) (by decide +kernel)
    (by decide +kernel) (by decide +kernel) (by decide +kernel) (by decide +kernel) (by decide +kernel)

/-- `yuv16::f32`, all inputs -/
theorem f32_err16 (y u v : Nat) (hy : y < 65536) (hu : u < 65536) (hv : v < 65536) :
    (ChanRaw (fmul (yuvSums 4096 32768 y u v).1 k65535) (idealR (((y : Int) - (4096 : Nat) : Int) : Rat) (((v : Int) - (32768 : Nat) : Int) : Rat) * (1 / 65535)) (10 / 16777216) ∧
      ChanOk (fclamp (fmul (yuvSums 4096 32768 y u v).1 k65535) 0 one)
      (clamp01 (idealR (((y : Int) - (4096 : Nat) : Int) : Rat) (((v : Int) - (32768 : Nat) : Int) : Rat) * (1 / 65535))) (10 / 16777216)) ∧
    (ChanRaw (fmul (yuvSums 4096 32768 y u v).2.1 k65535) (idealG (((y : Int) - (4096 : Nat) : Int) : Rat) (((u : Int) - (32768 : Nat) : Int) : Rat)
        (((v : Int) - (32768 : Nat) : Int) : Rat) * (1 / 65535)) (10 / 16777216) ∧
      ChanOk (fclamp (fmul (yuvSums 4096 32768 y u v).2.1 k65535) 0 one)
      (clamp01 (idealG (((y : Int) - (4096 : Nat) : Int) : Rat) (((u : Int) - (32768 : Nat) : Int) : Rat)
        (((v : Int) - (32768 : Nat) : Int) : Rat) * (1 / 65535))) (10 / 16777216)) ∧
    (ChanRaw (fmul (yuvSums 4096 32768 y u v).2.2 k65535) (idealB (((y : Int) - (4096 : Nat) : Int) : Rat) (((u : Int) - (32768 : Nat) : Int) : Rat) * (1 / 65535)) (10 / 16777216) ∧
      ChanOk (fclamp (fmul (yuvSums 4096 32768 y u v).2.2 k65535) 0 one)
      (clamp01 (idealB (((y : Int) - (4096 : Nat) : Int) : Rat) (((u : Int) - (32768 : Nat) : Int) : Rat) * (1 / 65535))) (10 / 16777216)) :=
  f32_err 16 65536 4096 32768 k65535 y u v (65537 / 4294967296) (1 / 65535) (1 / 281470681743360) (by decide) (by decide) (by decide)
    (by decide) hy hu hv k65535_val.1 k65535_val.2 (by decide +kernel) (by decide +kernel) (by decide +kernel)
    (by decide +kernel) (by decide +kernel) (by decide +kernel) (by decide +kernel) (by decide +kernel)
/-! ### the integer outputs -/

theorem pval_succ (b : Nat) (h : b + 1 ≤ 0x3F800000) : pval (b + 1) ≤ pval b + 2 ^ 125 := by
  have hp := two_pow_pos 125
  by_cases h1 : b + 1 < 8388608
  · rw [pval_small _ h1, pval_small b (by omega)]; omega
  · rw [pval_big _ h1]
    by_cases h0 : b < 8388608
    · have hb : b = 8388607 := by omega
      subst hb
      rw [pval_small _ h0]
      have : (8388607 + 1) / 8388608 - 1 = 0 := by decide
      rw [this]; omega
    · rw [pval_big b h0]
      have hE : b / 8388608 ≤ 126 := by omega
      by_cases hs : (b + 1) / 8388608 = b / 8388608
      · have hm : (b + 1) % 8388608 = b % 8388608 + 1 := by omega
        rw [hs, hm]
        have : 2 ^ (b / 8388608 - 1) ≤ 2 ^ 125 := pow_mono (by omega)
        generalize 2 ^ (b / 8388608 - 1) = P at *
        generalize b % 8388608 = f at *
        have : (f + 1 + 8388608) * P = (f + 8388608) * P + P := by
          rw [Nat.add_right_comm, Nat.add_mul, Nat.one_mul]
        omega
      · have hd : (b + 1) / 8388608 = b / 8388608 + 1 := by omega
        have hm : (b + 1) % 8388608 = 0 := by omega
        have hm' : b % 8388608 = 8388607 := by omega
        have hge : 1 ≤ b / 8388608 := by omega
        rw [hd, hm, hm']
        have e : b / 8388608 + 1 - 1 = (b / 8388608 - 1) + 1 := by omega
        rw [e, Nat.pow_succ]
        have : 2 ^ (b / 8388608 - 1) ≤ 2 ^ 125 := pow_mono (by omega)
        generalize 2 ^ (b / 8388608 - 1) = P at *
        omega

theorem toRat_succ (b : Nat) (h : b + 1 ≤ 0x3F800000) : toRat (b + 1) ≤ toRat b + 1 / 16777216 := by
  rw [toRat_natDiv b (by omega), toRat_natDiv (b + 1) (by omega)]
  have e : (1 : Rat) / 16777216 = ((2 ^ 125 : Nat) : Rat) / ((2 ^ 149 : Nat) : Rat) := by decide +kernel
  have hD : (0 : Rat) < ((2 ^ 149 : Nat) : Rat) := Rat.natCast_pos.mpr (two_pow_pos 149)
  rw [e, Rat.div_def, Rat.div_def, Rat.div_def, ← Rat.add_mul, ← Rat.natCast_add]
  exact Rat.mul_le_mul_of_nonneg_right (Rat.natCast_le_natCast.mpr (pval_succ b h)) (Rat.le_of_lt (Rat.inv_pos.mpr hD))

theorem toNatSat_le (x mx : Nat) : toNatSat x mx ≤ mx := by
  unfold toNatSat
  simp only [force_eq]
  split
  · exact Nat.zero_le _
  · split
    · exact Nat.zero_le _
    · split
      · exact Nat.le_refl _
      · generalize (if expo x ≥ 0 then mant x <<< (expo x).toNat else mant x >>> (-expo x).toNat) = v
        split <;> omega

theorem chan_unit (b : Nat) (fb : FinP b) (hpat : b ≤ one ∨ b = signBit) : 0 ≤ toRat b ∧ toRat b ≤ 1 := by
  rcases hpat with h | h
  · have h1 := toRat_mono b one h (by decide)
    rw [toRat_one] at h1
    exact ⟨toRat_nonneg_of_lt b (by unfold one at h; omega), h1⟩
  · subst h; rw [toRat_signBit]; exact ⟨Rat.le_refl, by decide⟩

/-- COMPOSITION WITH `fp::n8` / `fp::n16`: a float channel within `eps` of `q`, `eps + 2^-24 ≤ τ`, gives an admissible
code.  `hall`/`hdev` are the all-patterns theorems of `Proofs/ConvF32Thr.lean` (`fpn8_all`/`fpn8_dev`, …). -/
theorem fpn_adm (mx : Nat) (hmx : 0 < mx) (code b : Nat) (Dev : Prop) [Decidable Dev]
    (hall : (code : Int) = specCode mx b + (if Dev then 1 else 0))
    (hdev : Dev → b + 1 < 0x7F800000 ∧ 1 ≤ code ∧ toRat b < ((2 * code - 1 : Nat) : Rat) / ((2 * mx : Nat) : Rat) ∧
        ((2 * code - 1 : Nat) : Rat) / ((2 * mx : Nat) : Rat) ≤ toRat (b + 1))
    (hle : code ≤ mx)
    (q eps : Rat) (h : ChanOk b q eps) (he : eps + 1 / 16777216 ≤ 1 / 1044480) :
    admissible mx q code = true := by
  obtain ⟨fb, hpat, hn⟩ := h
  obtain ⟨x0, x1⟩ := chan_unit b fb hpat
  have hn' : Near (toRat b) (clamp01 q) eps := by
    have := clamp01_near _ _ _ hn
    rwa [clamp01_of_mem _ x0 x1] at this
  obtain ⟨a1, a2, _, _, _⟩ := finP_flags b fb
  have hspec : specCode mx b = ((mx : Rat) * toRat b + 1 / 2).floor := by
    unfold specCode toCode nearest
    rw [a1, a2, clamp01_of_mem _ x0 x1]
    simp
  have hm : (0 : Rat) < (mx : Rat) := Rat.natCast_pos.mpr hmx
  have f1 := Rat.floor_le ((mx : Rat) * toRat b + 1 / 2)
  have f2 := Rat.lt_floor_add_one ((mx : Rat) * toRat b + 1 / 2)
  rw [Rat.intCast_add, Rat.intCast_one] at f2
  rw [← hspec] at f1 f2
  have hcm : (code : Rat) / (mx : Rat) * (mx : Rat) = (code : Rat) := Rat.div_mul_cancel (Rat.ne_of_gt hm)
  have hhm : 1 / (2 * (mx : Rat)) * (mx : Rat) = 1 / 2 := by
    have : (mx : Rat) ≠ 0 := Rat.ne_of_gt hm
    grind
  have hhpos : 0 < 1 / (2 * (mx : Rat)) := by
    rw [Rat.div_def, Rat.one_mul]; exact Rat.inv_pos.mpr (Rat.mul_pos (by decide) hm)
  unfold admissible
  apply decide_eq_true
  unfold Near at hn'
  obtain ⟨n1, n2⟩ := hn'
  generalize clamp01 q = Q at *
  by_cases hD : Dev
  · obtain ⟨d1, d2, d3, d4⟩ := hdev hD
    have hcm1 : (code : Rat) / (mx : Rat) ≤ 1 := by
      apply Rat.le_of_mul_le_mul_right _ hm
      rw [hcm, Rat.one_mul]; exact Rat.natCast_le_natCast.mpr hle
    have ht := tie_half code mx d2 hmx
    have hb1 : b + 1 ≤ 0x3F800000 := by
      rcases hpat with hp | hp
      · unfold one at hp
        by_cases hone : b = 0x3F800000
        · exfalso
          rw [hone] at d3
          have : toRat 0x3F800000 = 1 := toRat_one
          rw [this] at d3
          generalize ((2 * code - 1 : Nat) : Rat) / ((2 * mx : Nat) : Rat) = T at *
          generalize (code : Rat) / (mx : Rat) = cm at *
          grind
        · omega
      · exfalso; rw [hp] at d1; unfold signBit at d1; omega
    have hs := toRat_succ b hb1
    generalize ((2 * code - 1 : Nat) : Rat) / ((2 * mx : Nat) : Rat) = T at *
    generalize (code : Rat) / (mx : Rat) = cm at *
    generalize 1 / (2 * (mx : Rat)) = hh at *
    generalize toRat (b + 1) = x' at *
    generalize toRat b = x at *
    constructor <;> grind
  · rw [if_neg hD, Int.add_zero] at hall
    have hc : (code : Rat) = ((specCode mx b : Int) : Rat) := by rw [← hall, Rat.intCast_natCast]
    rw [← hc] at f1 f2
    generalize toRat b = x at *
    have g1 : (code : Rat) / (mx : Rat) - x ≤ 1 / (2 * (mx : Rat)) := by
      apply Rat.le_of_mul_le_mul_right _ hm
      rw [Rat.sub_eq_add_neg, Rat.add_mul, hcm, hhm, Rat.neg_mul]
      grind
    have g2 : -(1 / (2 * (mx : Rat))) ≤ (code : Rat) / (mx : Rat) - x := by
      apply Rat.le_of_mul_le_mul_right _ hm
      rw [Rat.sub_eq_add_neg, Rat.add_mul, hcm, Rat.neg_mul, hhm, Rat.neg_mul]
      grind
    generalize (code : Rat) / (mx : Rat) = cm at *
    generalize 1 / (2 * (mx : Rat)) = hh at *
    constructor <;> grind

theorem fpn8_adm (b : Nat) (q eps : Rat) (h : ChanOk b q eps) (he : eps + 1 / 16777216 ≤ 1 / 1044480) :
    admissible 255 q (fpn8 b) = true :=
  fpn_adm 255 (by decide) (fpn8 b) b (b ∈ fpN8Dev) (fpn8_all b (by have := h.1.1; omega))
    (fun hm => by
      obtain ⟨d1, _, d3, d4, d5, _⟩ := fpn8_dev b hm
      exact ⟨d1, d3, d4, d5⟩)
    (toNatSat_le _ _) q eps h he

theorem fpn16_adm (b : Nat) (q eps : Rat) (h : ChanOk b q eps) (he : eps + 1 / 16777216 ≤ 1 / 1044480) :
    admissible 65535 q (fpn16 b) = true :=
  fpn_adm 65535 (by decide) (fpn16 b) b (b ∈ fpN16Dev) (fpn16_all b (by have := h.1.1; omega))
    (fun hm => by
      obtain ⟨d1, _, d3, d4, d5, _⟩ := fpn16_dev b hm
      exact ⟨d1, d3, d4, d5⟩)
    (toNatSat_le _ _) q eps h he

theorem half_val : FinP half ∧ toRat half = 1 / 2 := by decide +kernel

/-- the direct path of `yuv8::n8`: `(sum + 0.5) as u8` with `sum ≈ S` (±Es), `|S| ≤ 1000`, `Es + 2^-15 ≤ 2^-12` -/
theorem n8_direct (s : Nat) (fs : FinP s) (S Es : Rat) (hs : Near (toRat s) S Es) (hS1 : -1000 ≤ S) (hS2 : S ≤ 1000)
    (hE : Es + 1024 / 33554432 ≤ 1 / 4096) :
    admissible 255 (S * (1 / 255)) (toNatSat (fadd s half) 255) = true := by
  obtain ⟨fh, vh⟩ := half_val
  have k1024 : ((1024 : Nat) : Rat) = 1024 := rfl
  unfold Near at hs
  obtain ⟨s1, s2⟩ := hs
  have hE0 : 0 ≤ Es := by grind
  obtain ⟨ft, nt⟩ := fadd_ulp s half fs fh 10 1024 (by decide) (by decide)
    (by rw [k1024, vh]; grind) (by rw [k1024, vh]; grind)
  rw [k1024, vh] at nt
  unfold Near at nt
  obtain ⟨t1, t2⟩ := nt
  unfold admissible
  apply decide_eq_true
  have k255 : ((255 : Nat) : Rat) = 255 := rfl
  rw [k255]
  generalize toRat s = sv at *
  rcases toNatSat_floor (fadd s half) 255 ft with ⟨hc, hle⟩ | ⟨n, hc, hn1, hn2⟩
  · rw [hc]
    have : S * (1 / 255) ≤ 0 := by grind
    rw [clamp01_of_le _ this]
    have z : ((0 : Nat) : Rat) = 0 := rfl
    rw [z]
    constructor <;> grind
  · rw [hc]
    generalize toRat (fadd s half) = tv at *
    by_cases hn : n ≤ 255
    · rw [Nat.min_eq_right hn]
      have hn' : (n : Rat) ≤ 255 := by
        have := Rat.natCast_le_natCast.mpr hn
        rwa [k255] at this
      have hn0 : (0 : Rat) ≤ (n : Rat) := Rat.natCast_nonneg
      generalize (n : Rat) = nn at *
      unfold clamp01
      constructor <;> grind
    · rw [Nat.min_eq_left (by omega)]
      have hn' : (256 : Rat) ≤ (n : Rat) := by
        have := Rat.natCast_le_natCast.mpr (show 256 ≤ n by omega)
        have k256 : ((256 : Nat) : Rat) = 256 := rfl
        rwa [k256] at this
      have : 1 ≤ S * (1 / 255) := by grind
      rw [clamp01_of_ge _ this, k255]
      constructor <;> grind
/-! ### assembling the three channels -/

theorem div_eq_mul_one_div (x m : Rat) : x / m = x * (1 / m) := by
  rw [Rat.div_def, Rat.div_def, Rat.one_mul]

theorem yuvAll_intro (P : Rat → Nat → Bool) (q : Rat × Rat × Rat) (r g b : Nat)
    (h1 : P q.1 r = true) (h2 : P q.2.1 g = true) (h3 : P q.2.2 b = true) : yuvAll P q [r, g, b] = true := by
  unfold yuvAll; simp only [h1, h2, h3, Bool.and_self]

theorem finP_expField (b : Nat) (h : FinP b) : (expField b != 255) = true := by
  obtain ⟨h1, h2⟩ := h
  rw [ConvFast.expField_eq]
  simp only [bne_iff_ne, ne_eq]
  omega

/-- a channel within `eps ≤ eps'` of a value in `[0, 1]`… as the Boolean predicate -/
theorem nearF32_of (b : Nat) (q eps eps' : Rat) (h : ChanOk b q eps) (he : eps ≤ eps') : nearF32 eps' q b = true := by
  obtain ⟨fb, _, n1, n2⟩ := h
  unfold nearF32
  rw [finP_expField b fb, Bool.true_and]
  apply decide_eq_true
  constructor <;> grind

theorem clamp01_idem (q : Rat) : clamp01 (clamp01 q) = clamp01 q := by
  unfold clamp01; grind

theorem admissibleF32_of (b : Nat) (q : Rat) (h : ChanOk b (clamp01 q) (10 / 16777216)) :
    admissibleF32 (clamp01 q) b = true := by
  unfold admissibleF32
  rw [clamp01_idem]
  exact nearF32_of b _ _ _ h (by decide +kernel)

theorem admissible_clamp (mx : Nat) (q : Rat) (c : Nat) : admissible mx (clamp01 q) c = admissible mx q c := by
  unfold admissible; rw [clamp01_idem]

theorem tol_ok : (10 : Rat) / 16777216 + 1 / 16777216 ≤ 1 / 1044480 := by decide +kernel

/-! ### yuv8 -/

theorem yuvF32_8 (y u v : Nat) : yuvF32 8 y u v =
    [fclamp (fmul (yuvSums 16 128 y u v).1 k255) 0 one, fclamp (fmul (yuvSums 16 128 y u v).2.1 k255) 0 one,
     fclamp (fmul (yuvSums 16 128 y u v).2.2 k255) 0 one] := rfl

theorem spec_yuv8 (y u v : Nat) : Spec.yuv 8 y u v =
    (clamp01 (idealR (((y : Int) - (16 : Nat) : Int) : Rat) (((v : Int) - (128 : Nat) : Int) : Rat) * (1 / 255)),
     clamp01 (idealG (((y : Int) - (16 : Nat) : Int) : Rat) (((u : Int) - (128 : Nat) : Int) : Rat) (((v : Int) - (128 : Nat) : Int) : Rat) * (1 / 255)),
     clamp01 (idealB (((y : Int) - (16 : Nat) : Int) : Rat) (((u : Int) - (128 : Nat) : Int) : Rat) * (1 / 255))) := by
  rw [← div_eq_mul_one_div, ← div_eq_mul_one_div, ← div_eq_mul_one_div]; rfl

/-- `yuv8::f32`, ALL inputs: every channel is finite and within `10·2^-24` of the ideal value (hence inside the
oracle's tolerance `τ + 2^-24`) -/
theorem yuv8_f32_ok (y u v : Nat) (hy : y < 256) (hu : u < 256) (hv : v < 256) :
    yuvAll (nearF32 (10 / 16777216)) (Spec.yuv 8 y u v) (yuvTo 8 2 y u v) = true ∧
    yuvAll admissibleF32 (Spec.yuv 8 y u v) (yuvTo 8 2 y u v) = true := by
  obtain ⟨⟨_, h1⟩, ⟨_, h2⟩, ⟨_, h3⟩⟩ := f32_err8 y u v hy hu hv
  have e : yuvTo 8 2 y u v = yuvF32 8 y u v := rfl
  rw [e, yuvF32_8, spec_yuv8]
  exact ⟨yuvAll_intro _ _ _ _ _ (nearF32_of _ _ _ _ h1 Rat.le_refl) (nearF32_of _ _ _ _ h2 Rat.le_refl)
    (nearF32_of _ _ _ _ h3 Rat.le_refl),
    yuvAll_intro _ _ _ _ _ (admissibleF32_of _ _ h1) (admissibleF32_of _ _ h2) (admissibleF32_of _ _ h3)⟩

/-- `yuv8::n16` = `f32` then `fp::n16`, ALL inputs: every code is admissible -/
theorem yuv8_n16_ok (y u v : Nat) (hy : y < 256) (hu : u < 256) (hv : v < 256) :
    yuvAll (admissible 65535) (Spec.yuv 8 y u v) (yuvTo 8 1 y u v) = true := by
  obtain ⟨⟨_, h1⟩, ⟨_, h2⟩, ⟨_, h3⟩⟩ := f32_err8 y u v hy hu hv
  have e : yuvTo 8 1 y u v = (yuvF32 8 y u v).map fpn16 := rfl
  rw [e, yuvF32_8, spec_yuv8]
  exact yuvAll_intro _ _ _ _ _ (fpn16_adm _ _ _ h1 tol_ok) (fpn16_adm _ _ _ h2 tol_ok) (fpn16_adm _ _ _ h3 tol_ok)

/-- `yuv8::n8` (direct `(sum + 0.5) as u8`), ALL 2^24 inputs: every code is admissible -/
theorem yuv8_n8_ok (y u v : Nat) (hy : y < 256) (hu : u < 256) (hv : v < 256) :
    yuvAll (admissible 255) (Spec.yuv 8 y u v) (yuvTo 8 0 y u v) = true := by
  obtain ⟨fr, fg, fb, sr, sg, sb⟩ := sums_err 8 256 16 128 y u v (by decide) (by decide) (by decide) (by decide) hy hu hv
  obtain ⟨c1, c2⟩ := int_bounds y 16 256 16 hy (by decide) (by decide)
  obtain ⟨d1, d2⟩ := int_bounds u 128 256 2 hu (by decide) (by decide)
  obtain ⟨e1, e2⟩ := int_bounds v 128 256 2 hv (by decide) (by decide)
  have k16 : ((16 : Nat) : Rat) = 16 := rfl
  have k2 : ((2 : Nat) : Rat) = 2 := rfl
  have k256 : ((256 : Nat) : Rat) = 256 := rfl
  rw [k16, k256] at c1 c2
  rw [k2, k256] at d1 d2 e1 e2
  rw [k256] at sr sg sb
  have e : yuvTo 8 0 y u v = [toNatSat (fadd (yuvSums 16 128 y u v).1 half) 255,
      toNatSat (fadd (yuvSums 16 128 y u v).2.1 half) 255, toNatSat (fadd (yuvSums 16 128 y u v).2.2 half) 255] := rfl
  rw [e, spec_yuv8]
  generalize (((y : Int) - (16 : Nat) : Int) : Rat) = c at *
  generalize (((u : Int) - (128 : Nat) : Int) : Rat) = d at *
  generalize (((v : Int) - (128 : Nat) : Int) : Rat) = e' at *
  refine yuvAll_intro _ _ _ _ _ ?_ ?_ ?_
  · show admissible 255 (clamp01 _) _ = true
    rw [admissible_clamp]
    exact n8_direct _ fr _ _ sr (by unfold idealR; grind) (by unfold idealR; grind) (by decide +kernel)
  · show admissible 255 (clamp01 _) _ = true
    rw [admissible_clamp]
    exact n8_direct _ fg _ _ sg (by unfold idealG; grind) (by unfold idealG; grind) (by decide +kernel)
  · show admissible 255 (clamp01 _) _ = true
    rw [admissible_clamp]
    exact n8_direct _ fb _ _ sb (by unfold idealB; grind) (by unfold idealB; grind) (by decide +kernel)

/-! ### yuv10 -/

theorem yuvF32_10 (y u v : Nat) : yuvF32 10 y u v =
    [fclamp (fmul (yuvSums 64 512 y u v).1 k1023) 0 one, fclamp (fmul (yuvSums 64 512 y u v).2.1 k1023) 0 one,
     fclamp (fmul (yuvSums 64 512 y u v).2.2 k1023) 0 one] := rfl

theorem spec_yuv10 (y u v : Nat) : Spec.yuv 10 y u v =
    (clamp01 (idealR (((y : Int) - (64 : Nat) : Int) : Rat) (((v : Int) - (512 : Nat) : Int) : Rat) * (1 / 1023)),
     clamp01 (idealG (((y : Int) - (64 : Nat) : Int) : Rat) (((u : Int) - (512 : Nat) : Int) : Rat) (((v : Int) - (512 : Nat) : Int) : Rat) * (1 / 1023)),
     clamp01 (idealB (((y : Int) - (64 : Nat) : Int) : Rat) (((u : Int) - (512 : Nat) : Int) : Rat) * (1 / 1023))) := by
  rw [← div_eq_mul_one_div, ← div_eq_mul_one_div, ← div_eq_mul_one_div]; rfl

/-- `yuv10::f32`, ALL inputs: every channel is finite and within `10·2^-24` of the ideal value (hence inside the
oracle's tolerance `τ + 2^-24`) -/
theorem yuv10_f32_ok (y u v : Nat) (hy : y < 1024) (hu : u < 1024) (hv : v < 1024) :
    yuvAll (nearF32 (10 / 16777216)) (Spec.yuv 10 y u v) (yuvTo 10 2 y u v) = true ∧
    yuvAll admissibleF32 (Spec.yuv 10 y u v) (yuvTo 10 2 y u v) = true := by
  obtain ⟨⟨_, h1⟩, ⟨_, h2⟩, ⟨_, h3⟩⟩ := f32_err10 y u v hy hu hv
  have e : yuvTo 10 2 y u v = yuvF32 10 y u v := rfl
  rw [e, yuvF32_10, spec_yuv10]
  exact ⟨yuvAll_intro _ _ _ _ _ (nearF32_of _ _ _ _ h1 Rat.le_refl) (nearF32_of _ _ _ _ h2 Rat.le_refl)
    (nearF32_of _ _ _ _ h3 Rat.le_refl),
    yuvAll_intro _ _ _ _ _ (admissibleF32_of _ _ h1) (admissibleF32_of _ _ h2) (admissibleF32_of _ _ h3)⟩

/-- `yuv10::n16` = `f32` then `fp::n16`, ALL inputs: every code is admissible -/
theorem yuv10_n16_ok (y u v : Nat) (hy : y < 1024) (hu : u < 1024) (hv : v < 1024) :
    yuvAll (admissible 65535) (Spec.yuv 10 y u v) (yuvTo 10 1 y u v) = true := by
  obtain ⟨⟨_, h1⟩, ⟨_, h2⟩, ⟨_, h3⟩⟩ := f32_err10 y u v hy hu hv
  have e : yuvTo 10 1 y u v = (yuvF32 10 y u v).map fpn16 := rfl
  rw [e, yuvF32_10, spec_yuv10]
  exact yuvAll_intro _ _ _ _ _ (fpn16_adm _ _ _ h1 tol_ok) (fpn16_adm _ _ _ h2 tol_ok) (fpn16_adm _ _ _ h3 tol_ok)

/-- `yuv10::n8` = `f32` then `fp::n8`, ALL inputs: every code is admissible -/
theorem yuv10_n8_ok (y u v : Nat) (hy : y < 1024) (hu : u < 1024) (hv : v < 1024) :
    yuvAll (admissible 255) (Spec.yuv 10 y u v) (yuvTo 10 0 y u v) = true := by
  obtain ⟨⟨_, h1⟩, ⟨_, h2⟩, ⟨_, h3⟩⟩ := f32_err10 y u v hy hu hv
  have e : yuvTo 10 0 y u v = (yuvF32 10 y u v).map fpn8 := rfl
  rw [e, yuvF32_10, spec_yuv10]
  exact yuvAll_intro _ _ _ _ _ (fpn8_adm _ _ _ h1 tol_ok) (fpn8_adm _ _ _ h2 tol_ok) (fpn8_adm _ _ _ h3 tol_ok)

/-! ### yuv16 -/

theorem yuvF32_16 (y u v : Nat) : yuvF32 16 y u v =
    [fclamp (fmul (yuvSums 4096 32768 y u v).1 k65535) 0 one, fclamp (fmul (yuvSums 4096 32768 y u v).2.1 k65535) 0 one,
     fclamp (fmul (yuvSums 4096 32768 y u v).2.2 k65535) 0 one] := rfl

theorem spec_yuv16 (y u v : Nat) : Spec.yuv 16 y u v =
    (clamp01 (idealR (((y : Int) - (4096 : Nat) : Int) : Rat) (((v : Int) - (32768 : Nat) : Int) : Rat) * (1 / 65535)),
     clamp01 (idealG (((y : Int) - (4096 : Nat) : Int) : Rat) (((u : Int) - (32768 : Nat) : Int) : Rat) (((v : Int) - (32768 : Nat) : Int) : Rat) * (1 / 65535)),
     clamp01 (idealB (((y : Int) - (4096 : Nat) : Int) : Rat) (((u : Int) - (32768 : Nat) : Int) : Rat) * (1 / 65535))) := by
  rw [← div_eq_mul_one_div, ← div_eq_mul_one_div, ← div_eq_mul_one_div]; rfl

/-- `yuv16::f32`, ALL inputs: every channel is finite and within `10·2^-24` of the ideal value (hence inside the
oracle's tolerance `τ + 2^-24`) -/
theorem yuv16_f32_ok (y u v : Nat) (hy : y < 65536) (hu : u < 65536) (hv : v < 65536) :
    yuvAll (nearF32 (10 / 16777216)) (Spec.yuv 16 y u v) (yuvTo 16 2 y u v) = true ∧
    yuvAll admissibleF32 (Spec.yuv 16 y u v) (yuvTo 16 2 y u v) = true := by
  obtain ⟨⟨_, h1⟩, ⟨_, h2⟩, ⟨_, h3⟩⟩ := f32_err16 y u v hy hu hv
  have e : yuvTo 16 2 y u v = yuvF32 16 y u v := rfl
  rw [e, yuvF32_16, spec_yuv16]
  exact ⟨yuvAll_intro _ _ _ _ _ (nearF32_of _ _ _ _ h1 Rat.le_refl) (nearF32_of _ _ _ _ h2 Rat.le_refl)
    (nearF32_of _ _ _ _ h3 Rat.le_refl),
    yuvAll_intro _ _ _ _ _ (admissibleF32_of _ _ h1) (admissibleF32_of _ _ h2) (admissibleF32_of _ _ h3)⟩

/-- `yuv16::n16` = `f32` then `fp::n16`, ALL inputs: every code is admissible -/
theorem yuv16_n16_ok (y u v : Nat) (hy : y < 65536) (hu : u < 65536) (hv : v < 65536) :
    yuvAll (admissible 65535) (Spec.yuv 16 y u v) (yuvTo 16 1 y u v) = true := by
  obtain ⟨⟨_, h1⟩, ⟨_, h2⟩, ⟨_, h3⟩⟩ := f32_err16 y u v hy hu hv
  have e : yuvTo 16 1 y u v = (yuvF32 16 y u v).map fpn16 := rfl
  rw [e, yuvF32_16, spec_yuv16]
  exact yuvAll_intro _ _ _ _ _ (fpn16_adm _ _ _ h1 tol_ok) (fpn16_adm _ _ _ h2 tol_ok) (fpn16_adm _ _ _ h3 tol_ok)

/-- `yuv16::n8` = `f32` then `fp::n8`, ALL inputs: every code is admissible -/
theorem yuv16_n8_ok (y u v : Nat) (hy : y < 65536) (hu : u < 65536) (hv : v < 65536) :
    yuvAll (admissible 255) (Spec.yuv 16 y u v) (yuvTo 16 0 y u v) = true := by
  obtain ⟨⟨_, h1⟩, ⟨_, h2⟩, ⟨_, h3⟩⟩ := f32_err16 y u v hy hu hv
  have e : yuvTo 16 0 y u v = (yuvF32 16 y u v).map fpn8 := rfl
  rw [e, yuvF32_16, spec_yuv16]
  exact yuvAll_intro _ _ _ _ _ (fpn8_adm _ _ _ h1 tol_ok) (fpn8_adm _ _ _ h2 tol_ok) (fpn8_adm _ _ _ h3 tol_ok)

/-! ### saturation -/

theorem fclamp_hi (x : Nat) (h : FinP x) (hx : 1 < toRat x) : fclamp x 0 one = one := by
  obtain ⟨a1, a2, a3, a4, a5⟩ := finP_flags x h
  obtain ⟨h1, h2⟩ := h
  have n0 : isNaN 0 = false := by decide
  have n1 : isNaN one = false := by decide
  have k0 : key 0 = 0 := by decide
  have k1 : key one = 1065353216 := by decide
  have hneg : ¬ 2147483648 ≤ x := by
    intro hn
    have := toRat_nonpos_of_neg x (by rw [a3]; simpa using hn)
    grind
  have hx' : x < 0x7F800000 := by omega
  have hgt : 1065353216 < x := by
    apply Nat.lt_of_not_le
    intro hle
    have := toRat_mono x one (by unfold one; omega) (by decide)
    rw [toRat_one] at this
    grind
  have hk : key x = (x : Int) := by
    unfold key; rw [a3]; simp [hneg]
  have f1 : ¬ key x < 0 := by rw [hk]; omega
  have hin : (if flt x 0 = true then 0 else x) = x := by
    rw [flt_eq x 0 a1 n0, k0, decide_eq_false f1, if_neg Bool.false_ne_true]
  have f2 : (1065353216 : Int) < (x : Int) := by omega
  rw [fclamp_unfold, hin, flt_eq one x n1 a1, k1, hk, decide_eq_true f2, if_pos rfl]

theorem fclamp_lo (x : Nat) (h : FinP x) (hx : toRat x < 0) : fclamp x 0 one = 0 := by
  obtain ⟨a1, a2, a3, a4, a5⟩ := finP_flags x h
  obtain ⟨h1, h2⟩ := h
  have n0 : isNaN 0 = false := by decide
  have k0 : key 0 = 0 := by decide
  have hneg : 2147483648 ≤ x := by
    apply Nat.le_of_not_lt
    intro hn
    have := toRat_nonneg_of_lt x (by omega)
    grind
  have hz : x ≠ 2147483648 := by
    intro he
    rw [he] at hx
    have : toRat 2147483648 = 0 := toRat_signBit
    rw [this] at hx
    exact absurd hx (by decide)
  have hk : key x = -((x - 2147483648 : Nat) : Int) := by
    unfold key; rw [a3]; simp [hneg, signBit]
  have f1 : key x < 0 := by rw [hk]; omega
  have hin : (if flt x 0 = true then 0 else x) = 0 := by
    rw [flt_eq x 0 a1 n0, k0, decide_eq_true f1, if_pos rfl]
  have f2 : flt one 0 = false := by decide
  rw [fclamp_unfold, hin, f2, if_neg Bool.false_ne_true]

/-- saturation of one F32 channel and of the codes derived from it by `fp::n8` / `fp::n16` -/
theorem sat_f32 (x : Nat) (raw : Rat) (h : ChanRaw x raw (10 / 16777216)) :
    satOk 2 raw (fclamp x 0 one) = true ∧ satOk 1 raw (fpn16 (fclamp x 0 one)) = true ∧
    satOk 0 raw (fpn8 (fclamp x 0 one)) = true := by
  obtain ⟨fx, n1, n2⟩ := h
  have e1 : fpn16 one = 65535 := by decide +kernel
  have e2 : fpn16 0 = 0 := by decide +kernel
  have e3 : fpn8 one = 255 := by decide +kernel
  have e4 : fpn8 0 = 0 := by decide +kernel
  unfold satOk
  by_cases hhi : 1 + 1 / 1048576 ≤ raw
  · have hx : 1 < toRat x := by grind
    have hlo : ¬ raw ≤ -(1 / 1048576) := by grind
    rw [fclamp_hi x fx hx, decide_eq_true hhi, decide_eq_false hlo, e1, e3]
    decide
  · by_cases hlo : raw ≤ -(1 / 1048576)
    · have hx : toRat x < 0 := by grind
      rw [fclamp_lo x fx hx, decide_eq_false hhi, decide_eq_true hlo, e2, e4]
      decide
    · rw [decide_eq_false hhi, decide_eq_false hlo]
      simp

/-- saturation of the direct path of `yuv8::n8` -/
theorem sat_n8_direct (s : Nat) (fs : FinP s) (S Es : Rat) (hs : Near (toRat s) S Es) (hS1 : -1000 ≤ S) (hS2 : S ≤ 1000)
    (hE : Es + 1024 / 33554432 ≤ 1 / 4096) :
    satOk 0 (S * (1 / 255)) (toNatSat (fadd s half) 255) = true := by
  obtain ⟨fh, vh⟩ := half_val
  have k1024 : ((1024 : Nat) : Rat) = 1024 := rfl
  unfold Near at hs
  obtain ⟨s1, s2⟩ := hs
  have hE0 : 0 ≤ Es := by grind
  obtain ⟨ft, nt⟩ := fadd_ulp s half fs fh 10 1024 (by decide) (by decide)
    (by rw [k1024, vh]; grind) (by rw [k1024, vh]; grind)
  rw [k1024, vh] at nt
  unfold Near at nt
  obtain ⟨t1, t2⟩ := nt
  generalize toRat s = sv at *
  unfold satOk
  by_cases hhi : 1 + 1 / 1048576 ≤ S * (1 / 255)
  · have hlo : ¬ S * (1 / 255) ≤ -(1 / 1048576) := by grind
    rw [decide_eq_true hhi, decide_eq_false hlo]
    have ht : 255 < toRat (fadd s half) := by grind
    rcases toNatSat_floor (fadd s half) 255 ft with ⟨hc, hle⟩ | ⟨n, hc, hn1, hn2⟩
    · exfalso; grind
    · have : 255 ≤ n := by
        apply Nat.le_of_not_lt
        intro hlt
        have h254 : n + 1 ≤ 255 := by omega
        have := Rat.natCast_le_natCast.mpr h254
        rw [Rat.natCast_add] at this
        have k255 : ((255 : Nat) : Rat) = 255 := rfl
        have k1 : ((1 : Nat) : Rat) = 1 := rfl
        rw [k255, k1] at this
        grind
      rw [hc, Nat.min_eq_left this]
      decide
  · by_cases hlo : S * (1 / 255) ≤ -(1 / 1048576)
    · rw [decide_eq_false hhi, decide_eq_true hlo]
      have ht : toRat (fadd s half) < 1 := by grind
      rcases toNatSat_floor (fadd s half) 255 ft with ⟨hc, hle⟩ | ⟨n, hc, hn1, hn2⟩
      · rw [hc]; decide
      · have : n = 0 := by
          apply Nat.eq_zero_of_not_pos
          intro hpos
          have := Rat.natCast_le_natCast.mpr (show 1 ≤ n from hpos)
          have k1 : ((1 : Nat) : Rat) = 1 := rfl
          rw [k1] at this
          grind
        rw [hc, this]; decide
    · rw [decide_eq_false hhi, decide_eq_false hlo]
      simp

theorem raw_yuv8 (y u v : Nat) : Spec.yuvRaw 8 y u v =
    (idealR (((y : Int) - (16 : Nat) : Int) : Rat) (((v : Int) - (128 : Nat) : Int) : Rat) * (1 / 255), idealG (((y : Int) - (16 : Nat) : Int) : Rat) (((u : Int) - (128 : Nat) : Int) : Rat) (((v : Int) - (128 : Nat) : Int) : Rat) * (1 / 255), idealB (((y : Int) - (16 : Nat) : Int) : Rat) (((u : Int) - (128 : Nat) : Int) : Rat) * (1 / 255)) := by
  rw [← div_eq_mul_one_div, ← div_eq_mul_one_div, ← div_eq_mul_one_div]; rfl

/-- `yuv8`, saturation at every precision, all inputs -/
theorem yuv8_sat (y u v : Nat) (hy : y < 256) (hu : u < 256) (hv : v < 256) :
    yuvAll (satOk 2) (Spec.yuvRaw 8 y u v) (yuvTo 8 2 y u v) = true ∧
    yuvAll (satOk 1) (Spec.yuvRaw 8 y u v) (yuvTo 8 1 y u v) = true ∧
    yuvAll (satOk 0) (Spec.yuvRaw 8 y u v) (yuvTo 8 0 y u v) = true := by
  obtain ⟨⟨h1, _⟩, ⟨h2, _⟩, ⟨h3, _⟩⟩ := f32_err8 y u v hy hu hv
  obtain ⟨a1, b1, c1⟩ := sat_f32 _ _ h1
  obtain ⟨a2, b2, c2⟩ := sat_f32 _ _ h2
  obtain ⟨a3, b3, c3⟩ := sat_f32 _ _ h3
  have e2 : yuvTo 8 2 y u v = yuvF32 8 y u v := rfl
  have e1 : yuvTo 8 1 y u v = (yuvF32 8 y u v).map fpn16 := rfl
  have e0 : yuvTo 8 0 y u v = [toNatSat (fadd (yuvSums 16 128 y u v).1 half) 255,
      toNatSat (fadd (yuvSums 16 128 y u v).2.1 half) 255, toNatSat (fadd (yuvSums 16 128 y u v).2.2 half) 255] := rfl
  rw [e2, e1, e0, yuvF32_8, raw_yuv8]
  refine ⟨yuvAll_intro _ _ _ _ _ a1 a2 a3, yuvAll_intro _ _ _ _ _ b1 b2 b3, ?_⟩
  clear a1 a2 a3 b1 b2 b3 c1 c2 c3 h1 h2 h3
  obtain ⟨fr, fg, fb, sr, sg, sb⟩ := sums_err 8 256 16 128 y u v (by decide) (by decide) (by decide) (by decide) hy hu hv
  obtain ⟨c1, c2⟩ := int_bounds y 16 256 16 hy (by decide) (by decide)
  obtain ⟨d1, d2⟩ := int_bounds u 128 256 2 hu (by decide) (by decide)
  obtain ⟨e1', e2'⟩ := int_bounds v 128 256 2 hv (by decide) (by decide)
  have k16 : ((16 : Nat) : Rat) = 16 := rfl
  have k2 : ((2 : Nat) : Rat) = 2 := rfl
  have k256 : ((256 : Nat) : Rat) = 256 := rfl
  rw [k16, k256] at c1 c2
  rw [k2, k256] at d1 d2 e1' e2'
  rw [k256] at sr sg sb
  generalize (((y : Int) - (16 : Nat) : Int) : Rat) = c at *
  generalize (((u : Int) - (128 : Nat) : Int) : Rat) = d at *
  generalize (((v : Int) - (128 : Nat) : Int) : Rat) = e' at *
  exact yuvAll_intro _ _ _ _ _
    (sat_n8_direct _ fr _ _ sr (by unfold idealR; grind) (by unfold idealR; grind) (by decide +kernel))
    (sat_n8_direct _ fg _ _ sg (by unfold idealG; grind) (by unfold idealG; grind) (by decide +kernel))
    (sat_n8_direct _ fb _ _ sb (by unfold idealB; grind) (by unfold idealB; grind) (by decide +kernel))

theorem raw_yuv10 (y u v : Nat) : Spec.yuvRaw 10 y u v =
    (idealR (((y : Int) - (64 : Nat) : Int) : Rat) (((v : Int) - (512 : Nat) : Int) : Rat) * (1 / 1023), idealG (((y : Int) - (64 : Nat) : Int) : Rat) (((u : Int) - (512 : Nat) : Int) : Rat) (((v : Int) - (512 : Nat) : Int) : Rat) * (1 / 1023), idealB (((y : Int) - (64 : Nat) : Int) : Rat) (((u : Int) - (512 : Nat) : Int) : Rat) * (1 / 1023)) := by
  rw [← div_eq_mul_one_div, ← div_eq_mul_one_div, ← div_eq_mul_one_div]; rfl

/-- `yuv10`, saturation at every precision, all inputs -/
theorem yuv10_sat (y u v : Nat) (hy : y < 1024) (hu : u < 1024) (hv : v < 1024) :
    yuvAll (satOk 2) (Spec.yuvRaw 10 y u v) (yuvTo 10 2 y u v) = true ∧
    yuvAll (satOk 1) (Spec.yuvRaw 10 y u v) (yuvTo 10 1 y u v) = true ∧
    yuvAll (satOk 0) (Spec.yuvRaw 10 y u v) (yuvTo 10 0 y u v) = true := by
  obtain ⟨⟨h1, _⟩, ⟨h2, _⟩, ⟨h3, _⟩⟩ := f32_err10 y u v hy hu hv
  obtain ⟨a1, b1, c1⟩ := sat_f32 _ _ h1
  obtain ⟨a2, b2, c2⟩ := sat_f32 _ _ h2
  obtain ⟨a3, b3, c3⟩ := sat_f32 _ _ h3
  have e2 : yuvTo 10 2 y u v = yuvF32 10 y u v := rfl
  have e1 : yuvTo 10 1 y u v = (yuvF32 10 y u v).map fpn16 := rfl
  have e0 : yuvTo 10 0 y u v = (yuvF32 10 y u v).map fpn8 := rfl
  rw [e2, e1, e0, yuvF32_10, raw_yuv10]
  exact ⟨yuvAll_intro _ _ _ _ _ a1 a2 a3, yuvAll_intro _ _ _ _ _ b1 b2 b3, yuvAll_intro _ _ _ _ _ c1 c2 c3⟩

theorem raw_yuv16 (y u v : Nat) : Spec.yuvRaw 16 y u v =
    (idealR (((y : Int) - (4096 : Nat) : Int) : Rat) (((v : Int) - (32768 : Nat) : Int) : Rat) * (1 / 65535), idealG (((y : Int) - (4096 : Nat) : Int) : Rat) (((u : Int) - (32768 : Nat) : Int) : Rat) (((v : Int) - (32768 : Nat) : Int) : Rat) * (1 / 65535), idealB (((y : Int) - (4096 : Nat) : Int) : Rat) (((u : Int) - (32768 : Nat) : Int) : Rat) * (1 / 65535)) := by
  rw [← div_eq_mul_one_div, ← div_eq_mul_one_div, ← div_eq_mul_one_div]; rfl

/-- `yuv16`, saturation at every precision, all inputs -/
theorem yuv16_sat (y u v : Nat) (hy : y < 65536) (hu : u < 65536) (hv : v < 65536) :
    yuvAll (satOk 2) (Spec.yuvRaw 16 y u v) (yuvTo 16 2 y u v) = true ∧
    yuvAll (satOk 1) (Spec.yuvRaw 16 y u v) (yuvTo 16 1 y u v) = true ∧
    yuvAll (satOk 0) (Spec.yuvRaw 16 y u v) (yuvTo 16 0 y u v) = true := by
  obtain ⟨⟨h1, _⟩, ⟨h2, _⟩, ⟨h3, _⟩⟩ := f32_err16 y u v hy hu hv
  obtain ⟨a1, b1, c1⟩ := sat_f32 _ _ h1
  obtain ⟨a2, b2, c2⟩ := sat_f32 _ _ h2
  obtain ⟨a3, b3, c3⟩ := sat_f32 _ _ h3
  have e2 : yuvTo 16 2 y u v = yuvF32 16 y u v := rfl
  have e1 : yuvTo 16 1 y u v = (yuvF32 16 y u v).map fpn16 := rfl
  have e0 : yuvTo 16 0 y u v = (yuvF32 16 y u v).map fpn8 := rfl
  rw [e2, e1, e0, yuvF32_16, raw_yuv16]
  exact ⟨yuvAll_intro _ _ _ _ _ a1 a2 a3, yuvAll_intro _ _ _ _ _ b1 b2 b3, yuvAll_intro _ _ _ _ _ c1 c2 c3⟩

end Dds.YuvErr
