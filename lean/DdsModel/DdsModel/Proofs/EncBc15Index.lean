/-
C13, BC1–BC5 encoder core: the index lists (bc1.rs / bc4.rs `IndexList`).  Sixteen `set` calls on an empty list give the
base-`2^I` number whose digits are the values, no assertion fires, and `get` / the decoder's digit extraction return them.
-/
import DdsModel.EncBc15
namespace Dds.Enc15
open Dds

/-- `Σ_{j<n} v j · 2^(I·j)` -/
def packed (I : Nat) (v : Nat → Nat) : Nat → Nat
  | 0 => 0
  | n + 1 => packed I v n + v n * 2 ^ (I * n)

theorem packed_lt (I : Nat) (v : Nat → Nat) (hv : ∀ j, v j < 2 ^ I) : ∀ n, packed I v n < 2 ^ (I * n)
  | 0 => by simp [packed]
  | n + 1 => by
    have ih := packed_lt I v hv n
    have h1 : 2 ^ (I * (n + 1)) = 2 ^ (I * n) * 2 ^ I := by rw [Nat.mul_succ, Nat.pow_add]
    have h2 : v n * 2 ^ (I * n) ≤ (2 ^ I - 1) * 2 ^ (I * n) := Nat.mul_le_mul_right _ (by have := hv n; omega)
    have h3 : (2 ^ I - 1) * 2 ^ (I * n) = 2 ^ (I * n) * 2 ^ I - 2 ^ (I * n) := by
      rw [Nat.sub_mul, Nat.one_mul, Nat.mul_comm]
    have hpos : 2 ^ (I * n) ≤ 2 ^ (I * n) * 2 ^ I := Nat.le_mul_of_pos_right _ (Nat.two_pow_pos I)
    show packed I v n + v n * 2 ^ (I * n) < _
    rw [h1]; omega

/-- adding a multiple of `2^k` does not change the `I`-bit digit at position `i` when `i·I + I ≤ k` -/
theorem digit_add (I d c k i : Nat) (h : i * I + I ≤ k) :
    (d + c * 2 ^ k) / 2 ^ (i * I) % 2 ^ I = d / 2 ^ (i * I) % 2 ^ I := by
  have hk : 2 ^ k = 2 ^ (i * I) * (2 ^ I * 2 ^ (k - (i * I + I))) := by
    rw [← Nat.pow_add, ← Nat.pow_add]; congr 1; omega
  have e : d + c * 2 ^ k = d + 2 ^ (i * I) * (c * 2 ^ (k - (i * I + I)) * 2 ^ I) := by
    rw [hk]
    generalize 2 ^ (i * I) = A; generalize 2 ^ I = B; generalize 2 ^ (k - (i * I + I)) = C
    congr 1
    ac_rfl
  rw [e, Nat.add_mul_div_left _ _ (Nat.two_pow_pos _), Nat.add_mul_mod_self_right]

theorem idxGet_eq (I d i : Nat) (hI : I ≤ 8) : idxGet I d i = d / 2 ^ (i * I) % 2 ^ I := by
  unfold idxGet
  rw [Nat.and_two_pow_sub_one_eq_mod, Nat.shiftRight_eq_div_pow]
  have h1 : d / 2 ^ (i * I) % 2 ^ I < 2 ^ I := Nat.mod_lt _ (Nat.two_pow_pos I)
  have h2 : 2 ^ I ≤ 2 ^ 8 := Nat.pow_le_pow_right (by decide) hI
  exact Nat.mod_eq_of_lt (by show _ < 256; omega)

theorem idxGet_packed (I : Nat) (hI : I ≤ 8) (v : Nat → Nat) (hv : ∀ j, v j < 2 ^ I) :
    ∀ n i, i < n → idxGet I (packed I v n) i = v i
  | 0, i, h => by omega
  | n + 1, i, h => by
    rw [idxGet_eq I _ i hI]
    show (packed I v n + v n * 2 ^ (I * n)) / 2 ^ (i * I) % 2 ^ I = v i
    by_cases hi : i = n
    · subst hi
      rw [Nat.mul_comm I i, Nat.add_mul_div_right _ _ (Nat.two_pow_pos _)]
      have := packed_lt I v hv i
      rw [Nat.mul_comm I i] at this
      rw [Nat.div_eq_of_lt this, Nat.zero_add]
      exact Nat.mod_eq_of_lt (hv i)
    · have hlt : i < n := by omega
      have hle : i * I + I ≤ I * n := by
        have : (i + 1) * I ≤ n * I := Nat.mul_le_mul_right I (by omega)
        rw [Nat.add_mul, Nat.one_mul, Nat.mul_comm n I] at this; exact this
      rw [digit_add I _ _ _ i hle, ← idxGet_eq I _ i hI]
      exact idxGet_packed I hI v hv n i hlt

theorem idxGet_of_lt (I d i : Nat) (hI : I ≤ 8) (h : d < 2 ^ (I * i)) : idxGet I d i = 0 := by
  rw [idxGet_eq I d i hI, Nat.mul_comm i I, Nat.div_eq_of_lt h, Nat.zero_mod]

theorem or_shl (x v k : Nat) (h : x < 2 ^ k) : x ||| v <<< k = x + v * 2 ^ k := by
  rw [Nat.or_comm, ← Nat.shiftLeft_add_eq_or_of_lt h, Nat.shiftLeft_eq, Nat.add_comm]

/-- one `set` on a list holding `n` entries: no assertion fires and the value becomes digit `n` -/
theorem idxSet_packed (I W : Nat) (hI : I ≤ 8) (hW : 2 ^ (I * 16) ≤ W) (v : Nat → Nat) (hv : ∀ j, v j < 2 ^ I) (n : Nat)
    (hn : n < 16) : idxSet I W (packed I v n) n (v n) = some (packed I v (n + 1)) := by
  have hp := packed_lt I v hv n
  unfold idxSet
  rw [if_pos ⟨hn, hv n, idxGet_of_lt I _ n hI hp⟩]
  congr 1
  unfold idxSetRaw
  have h1 : v n <<< (n * I) < W := by
    rw [Nat.shiftLeft_eq]
    have : v n * 2 ^ (n * I) < 2 ^ I * 2 ^ (n * I) := Nat.mul_lt_mul_of_pos_right (hv n) (Nat.two_pow_pos _)
    rw [← Nat.pow_add] at this
    have h2 : 2 ^ (I + n * I) ≤ 2 ^ (I * 16) := Nat.pow_le_pow_right (by decide) (by
      have : (n + 1) * I ≤ 16 * I := Nat.mul_le_mul_right I (by omega)
      rw [Nat.add_mul, Nat.one_mul, Nat.mul_comm 16 I] at this; omega)
    omega
  rw [Nat.mod_eq_of_lt h1, Nat.mul_comm n I, or_shl _ _ _ hp]
  rfl

/-- the fold of `idxFill` over the first `n` positions -/
theorem idxFill_prefix (I W : Nat) (hI : I ≤ 8) (hW : 2 ^ (I * 16) ≤ W) (v : Nat → Nat) (hv : ∀ j, v j < 2 ^ I)
    (f : Nat → Option Nat) (hf : ∀ i, i < 16 → f i = some (v i)) : ∀ n, n ≤ 16 →
    (List.range n).foldl (fun acc i => acc.bind fun d => (f i).bind fun x => idxSet I W d i x) (some 0) =
      some (packed I v n)
  | 0, _ => rfl
  | n + 1, h => by
    rw [List.range_succ, List.foldl_append, idxFill_prefix I W hI hW v hv f hf n (by omega)]
    simp only [List.foldl_cons, List.foldl_nil, Option.bind_some, hf n (by omega)]
    exact idxSet_packed I W hI hW v hv n (by omega)

/-- sixteen `set`s: the list is `packed I v 16`, below `2^(16·I)`, and `get i` returns `v i` -/
theorem idxFill_spec (I W : Nat) (hI : I ≤ 8) (hW : 2 ^ (I * 16) ≤ W) (v : Nat → Nat) (hv : ∀ j, v j < 2 ^ I)
    (f : Nat → Option Nat) (hf : ∀ i, i < 16 → f i = some (v i)) :
    idxFill I W f = some (packed I v 16) ∧ packed I v 16 < 2 ^ (I * 16) ∧
      ∀ i, i < 16 → idxGet I (packed I v 16) i = v i :=
  ⟨idxFill_prefix I W hI hW v hv f hf 16 (Nat.le_refl _), packed_lt I v hv 16,
    fun i hi => idxGet_packed I hI v hv 16 i hi⟩

/-- an assertion of `set` fires (value out of range) or the selector fails ⇒ `idxFill` is `none`;
conversely `some` means every value was in range -/
theorem idxFill_some (I W : Nat) (f : Nat → Option Nat) (d : Nat) (h : idxFill I W f = some d) :
    ∀ i, i < 16 → ∃ x, f i = some x ∧ x < 2 ^ I := by
  unfold idxFill at h
  have key : ∀ n (acc : Option Nat),
      (List.range' n (16 - n)).foldl (fun acc i => acc.bind fun d => (f i).bind fun x => idxSet I W d i x) acc = some d →
      n ≤ 16 → ∀ i, n ≤ i → i < 16 → ∃ x, f i = some x ∧ x < 2 ^ I := by
    intro n
    induction hk : 16 - n generalizing n with
    | zero => intro acc _ hn i h1 h2; omega
    | succ k ih =>
      intro acc hfold hn i h1 h2
      rw [List.range'_succ, List.foldl_cons] at hfold
      by_cases hin : i = n
      · subst hin
        cases acc with
        | none =>
          exfalso
          have : ∀ l : List Nat, l.foldl (fun acc i => acc.bind fun d => (f i).bind fun x => idxSet I W d i x) none = none := by
            intro l; induction l with
            | nil => rfl
            | cons a l ih2 => simpa using ih2
          simp only [Option.bind_none] at hfold
          rw [this] at hfold; cases hfold
        | some d0 =>
          cases hfi : f i with
          | none =>
            exfalso
            have : ∀ l : List Nat, l.foldl (fun acc i => acc.bind fun d => (f i).bind fun x => idxSet I W d i x) none = none := by
              intro l; induction l with
              | nil => rfl
              | cons a l ih2 => simpa using ih2
            simp only [Option.bind_some, hfi, Option.bind_none] at hfold
            rw [this] at hfold; cases hfold
          | some x =>
            refine ⟨x, rfl, ?_⟩
            simp only [Option.bind_some, hfi] at hfold
            by_cases hx : x < 2 ^ I
            · exact hx
            · exfalso
              have : idxSet I W d0 i x = none := by unfold idxSet; rw [if_neg (fun h => hx h.2.1)]
              rw [this] at hfold
              have hn : ∀ l : List Nat, l.foldl (fun acc i => acc.bind fun d => (f i).bind fun x => idxSet I W d i x) none = none := by
                intro l; induction l with
                | nil => rfl
                | cons a l ih2 => simpa using ih2
              rw [hn] at hfold; cases hfold
      · have hk' : 16 - (n + 1) = k := by omega
        exact ih (n + 1) hk' _ hfold (by omega) i (by omega) h2
  have := key 0 (some 0) (by rw [← List.range_eq_range']; exact h) (by omega)
  intro i hi; exact this i (by omega) hi

/-- the decoder-side digit: `idx / 4^p % 4`, `idx / 8^p % 8` -/
theorem idxGet2_spec (d p : Nat) : idxGet 2 d p = d / 4 ^ p % 4 := by
  rw [idxGet_eq 2 d p (by decide), Nat.mul_comm p 2, Nat.pow_mul]
theorem idxGet3_spec (d p : Nat) : idxGet 3 d p = d / 8 ^ p % 8 := by
  rw [idxGet_eq 3 d p (by decide), Nat.mul_comm p 3, Nat.pow_mul]

/-- `new_all(value)`: every entry is `value` -/
theorem MASK3_eq : MASK3 = packed 3 (fun _ => 1) 16 := by decide

theorem newAll_spec (value : Nat) (h : value < 8) :
    newAll value = some (packed 3 (fun _ => value) 16) := by
  unfold newAll
  rw [if_pos h, MASK3_eq]
  have e : ∀ n, value * packed 3 (fun _ => 1) n = packed 3 (fun _ => value) n := by
    intro n; induction n with
    | zero => rfl
    | succ n ih => show value * (packed 3 (fun _ => 1) n + 1 * 2 ^ (3 * n)) = _; rw [Nat.mul_add, ih, Nat.one_mul]; rfl
  rw [e]
  have := packed_lt 3 (fun _ => value) (fun _ => h) 16
  congr 1
  exact Nat.mod_eq_of_lt (Nat.lt_of_lt_of_le this (by decide))

end Dds.Enc15
