/-
C13 / BC7 writer, T1 assembled: for every mode and every well-formed argument tuple of `Compressed::modeN`, the proved
decoder on the written block returns the encoder's intended palette entries.
-/
import DdsModel.Proofs.Enc7Modes02
set_option linter.unusedSimpArgs false
namespace Dds.Enc7
open Dds Dds.BcTables

theorem writer_roundtrip (f : Fields) (h : f.WF) :
    Bc7.decodeBlock (write f) = (List.range 16).map (intended f) := by
  obtain ⟨mode, part, rot, im, E, A, P, x, x2⟩ := f
  obtain ⟨hm, hpart, hrot, him, hE, hA, hP, hx, hx2⟩ := h
  simp only at hm hpart hrot him hE hA hP hx hx2
  have hm' : mode = 0 ∨ mode = 1 ∨ mode = 2 ∨ mode = 3 ∨ mode = 4 ∨ mode = 5 ∨ mode = 6 ∨ mode = 7 := by omega
  rcases hm' with h | h | h | h | h | h | h | h <;> subst h <;>
    simp only [modeShape, Nat.reduceEqDiff, if_true, if_false, Nat.reduceMul, or_self, or_false, false_or, or_true,
      true_or] at hpart hE hA hP hx hx2 <;>
    simp only [write, intended, subsetOf, Nat.reduceEqDiff, if_true, if_false, or_self, or_false, false_or, or_true,
      true_or]
  · exact mode0_roundtrip part E P x hpart hE hP hx
  · exact mode1_roundtrip part E P x hpart hE hP hx
  · exact mode2_roundtrip part E x hpart hE hx
  · exact mode3_roundtrip part E P x hpart hE hP hx
  · exact mode4_roundtrip rot im E x A x2 hrot him hE hA hx hx2
  · exact mode5_roundtrip rot E x A x2 hrot hE hA hx hx2
  · exact mode6_roundtrip E P x hE hP hx
  · exact mode7_roundtrip part E P x hpart hE hP hx

/-- whatever is written, the stream state stays a `u128` -/
theorem writeAll_lt (fs : List (Nat × Nat)) : finish (writeAll fs) < 2 ^ 128 := by
  unfold finish writeAll
  have : ∀ (fs : List (Nat × Nat)) (st : Nat × Nat), st.1 < 2 ^ 128 →
      (fs.foldl (fun st f => writeU64 st f.1 f.2) st).1 < 2 ^ 128 := by
    intro fs
    induction fs with
    | nil => intro st h; exact h
    | cons f fs ih =>
      intro st h
      rw [List.foldl_cons]
      apply ih
      simp only [writeU64]
      exact Nat.or_lt_two_pow h (by rw [U128_eq]; exact Nat.mod_lt _ (Nat.two_pow_pos 128))
  exact this fs (0, 0) (by decide)

theorem write_lt (f : Fields) : write f < 2 ^ 128 := by
  unfold write
  repeat' split
  all_goals first
    | exact writeAll_lt _
    | decide

end Dds.Enc7
