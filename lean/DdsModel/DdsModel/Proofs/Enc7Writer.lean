/-
C13 / BC7 writer, T1 assembled: for every mode and every well-formed argument tuple of `Compressed::modeN`, the proved
decoder on the written block returns the encoder's intended palette entries.
-/
import DdsModel.Proofs.Enc7Modes02
set_option linter.unusedSimpArgs false
namespace Dds.Enc7
open Dds Dds.BcTables

theorem writer_roundtrip (f : Fields) (h : f.WF) :
    Bc7.decodeBlock (write f) = (List.range 16).map (intended f) := by
  obtain ⟨mode, part, rot, im, E, A, P, x, x2⟩ := f
  obtain ⟨hm, hpart, hrot, him, hE, hA, hP, hx, hx2⟩ := h
  simp only at hm hpart hrot him hE hA hP hx hx2
  have hm' : mode = 0 ∨ mode = 1 ∨ mode = 2 ∨ mode = 3 ∨ mode = 4 ∨ mode = 5 ∨ mode = 6 ∨ mode = 7 := by omega
  rcases hm' with h | h | h | h | h | h | h | h <;> subst h <;>
    simp only [modeShape, Nat.reduceEqDiff, if_true, if_false, Nat.reduceMul, or_self, or_false, false_or, or_true,
      true_or] at hpart hE hA hP hx hx2 <;>
    simp only [write, intended, subsetOf, Nat.reduceEqDiff, if_true, if_false, or_self, or_false, false_or, or_true,
      true_or]
  · exact mode0_roundtrip part E P x hpart hE hP hx
  · exact mode1_roundtrip part E P x hpart hE hP hx
  · exact mode2_roundtrip part E x hpart hE hx
  · exact mode3_roundtrip part E P x hpart hE hP hx
  · exact mode4_roundtrip rot im E x A x2 hrot him hE hA hx hx2
  · exact mode5_roundtrip rot E x A x2 hrot hE hA hx hx2
  · exact mode6_roundtrip E P x hE hP hx
  · exact mode7_roundtrip part E P x hpart hE hP hx

end Dds.Enc7
