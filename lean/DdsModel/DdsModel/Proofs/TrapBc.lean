/-
C01 (codec bodies, BC1–BC5): the trapping mirror `TrapBc.blockT` returns `some` of the wrapping model
`Bc.decodeBlock` for every block.
-/
import DdsModel.TrapBc
import DdsModel.Proofs.BcPixels
namespace Dds.TrapBc
open Dds.Trap Dds.Bc

/-! ### scalars -/

theorem n4n8T_eq (x : Nat) (h : x ≤ 15) : n4n8T x = some (n4n8 x) := by
  trap_simp [n4n8T, n4n8, w8]
theorem n5n8T_eq (x : Nat) (h : x ≤ 31) : n5n8T x = some (n5n8 x) := by
  trap_simp [n5n8T, n5n8, w8, w16]
theorem n6n8T_eq (x : Nat) (h : x ≤ 63) : n6n8T x = some (n6n8 x) := by
  trap_simp [n6n8T, n6n8, w8, w16]
theorem n8n16T_eq (x : Nat) (h : x < 256) : n8n16T x = some (n8n16 x) := by
  trap_simp [n8n16T, n8n16, w16]

theorem s8norm_le (x : Nat) : s8norm x ≤ 254 := by unfold s8norm w8; omega

theorem s8n8T_eq (x : Nat) : s8n8T x = some (s8n8 x) := by
  have := s8norm_le x
  trap_simp [s8n8T, s8n8, w8, w16]
theorem s8n16T_eq (x : Nat) : s8n16T x = some (s8n16 x) := by
  have := s8norm_le x
  trap_simp [s8n16T, s8n16, w16, w32]

theorem widenT_eq (pr : Prec) (v : Nat) (h : v < 256) : widenT pr v = some (widen pr v) := by
  cases pr
  · rfl
  · exact n8n16T_eq v h
  · rfl

/-! ### `B5G6R5` -/

theorem fromU16_le (u : Nat) :
    (B565.fromU16 u).r5 ≤ 31 ∧ (B565.fromU16 u).g6 ≤ 63 ∧ (B565.fromU16 u).b5 ≤ 31 := by
  simp only [B565.fromU16, and31, and63]; omega

theorem toN8T_eq (c : B565) (hr : c.r5 ≤ 31) (hg : c.g6 ≤ 63) (hb : c.b5 ≤ 31) : toN8T c = some c.toN8 := by
  have e1 : c.r5 % 256 = c.r5 := Nat.mod_eq_of_lt (by omega)
  have e2 : c.g6 % 256 = c.g6 := Nat.mod_eq_of_lt (by omega)
  have e3 : c.b5 % 256 = c.b5 := Nat.mod_eq_of_lt (by omega)
  simp only [toN8T, e1, e2, e3, n5n8T_eq _ hr, n6n8T_eq _ hg, n5n8T_eq _ hb, bind_some', pure_some', B565.toN8]

theorem third5T_eq (s c : Nat) (hs : s ≤ 31) (hc : c ≤ 31) : third5T s c = some (third5 s c) := by
  trap_simp [third5T, third5, w8, w16]
theorem third6T_eq (s c : Nat) (hs : s ≤ 63) (hc : c ≤ 63) : third6T s c = some (third6 s c) := by
  trap_simp [third6T, third6, w8, w16, w32]
theorem mid5T_eq (s c : Nat) (hs : s ≤ 31) (hc : c ≤ 31) : mid5T s c = some (mid5 s c) := by
  trap_simp [mid5T, mid5, w8, w16]
theorem mid6T_eq (s c : Nat) (hs : s ≤ 63) (hc : c ≤ 63) : mid6T s c = some (mid6 s c) := by
  trap_simp [mid6T, mid6, w8, w16, w32]

/-- 5:6:5 field ranges -/
def B565.Ok (c : B565) : Prop := c.r5 ≤ 31 ∧ c.g6 ≤ 63 ∧ c.b5 ≤ 31

theorem oneThirdT_eq (s c : B565) (hs : B565.Ok s) (hc : B565.Ok c) : oneThirdT s c = some (s.oneThird c) := by
  simp only [oneThirdT, third5T_eq _ _ hs.1 hc.1, third6T_eq _ _ hs.2.1 hc.2.1, third5T_eq _ _ hs.2.2 hc.2.2,
    bind_some', pure_some', B565.oneThird]
theorem midT_eq (s c : B565) (hs : B565.Ok s) (hc : B565.Ok c) : midT s c = some (s.mid c) := by
  simp only [midT, mid5T_eq _ _ hs.1 hc.1, mid6T_eq _ _ hs.2.1 hc.2.1, mid5T_eq _ _ hs.2.2 hc.2.2,
    bind_some', pure_some', B565.mid]

/-! ### BC1 -/

theorem idx_lut4 {α : Type} (c0 c1 c2 c3 : α) (k : Nat) (hk : k < 4) :
    idx [c0, c1, c2, c3] k = some (lut4 c0 c1 c2 c3 k) := by
  unfold idx
  rcases lt4_cases hk with h | h | h | h <;> subst h <;> rfl

theorem lutLoopT_eq (c0 c1 c2 c3 : Rgba) (indexes : Nat) :
    lutLoopT [c0, c1, c2, c3] indexes =
      some ((List.range 16).map fun p => lut4 c0 c1 c2 c3 ((indexes >>> (p * 2)) &&& 3)) := by
  unfold lutLoopT
  apply mapT_eq_some
  intro p hp
  have hp : p < 16 := List.mem_range.mp hp
  have hk : (indexes >>> (p * 2)) &&& 3 < 4 := by rw [and3]; omega
  rw [shr_of_lt (by omega), bind_some', idx_lut4 _ _ _ _ _ hk]

theorem bc1T_eq (blk : Nat → Nat) : bc1T blk = some ((List.range 16).map (bc1Px blk)) := by
  have h0 := fromU16_le (le16 blk 0)
  have h1 := fromU16_le (le16 blk 2)
  unfold bc1T
  simp only [toN8T_eq _ h0.1 h0.2.1 h0.2.2, toN8T_eq _ h1.1 h1.2.1 h1.2.2, bind_some']
  by_cases hc : le16 blk 0 > le16 blk 2
  · simp only [if_pos hc, oneThirdT_eq _ _ h0 h1, oneThirdT_eq _ _ h1 h0, bind_some', pure_some', lutLoopT_eq]
    congr 1; apply List.map_congr_left; intro p _
    simp only [bc1Px, if_pos hc]
  · simp only [if_neg hc, midT_eq _ _ h0 h1, bind_some', pure_some', lutLoopT_eq]
    congr 1; apply List.map_congr_left; intro p _
    simp only [bc1Px, if_neg hc]

theorem bc1NoDefaultT_eq (blk : Nat → Nat) :
    bc1NoDefaultT blk = some ((List.range 16).map (bc1NoDefaultPx blk)) := by
  have h0 := fromU16_le (le16 blk 0)
  have h1 := fromU16_le (le16 blk 2)
  unfold bc1NoDefaultT
  simp only [toN8T_eq _ h0.1 h0.2.1 h0.2.2, toN8T_eq _ h1.1 h1.2.1 h1.2.2, bind_some',
    oneThirdT_eq _ _ h0 h1, oneThirdT_eq _ _ h1 h0, lutLoopT_eq]
  congr 1

/-! ### BC4 -/

/-- the trapping operations agree with the wrapping ones on the documented input ranges -/
def OpsOk (T : Bc4OpsT) (ops : Bc4Ops) (m6 m4 : Nat) : Prop :=
  (∀ b, b < 256 → T.fromByte b = some (ops.fromByte b)) ∧
  (∀ i, i ≤ m6 → T.interp6 i = some (ops.interp6 i)) ∧
  (∀ i, i ≤ m4 → T.interp4 i = some (ops.interp4 i))

theorem bc4uOps_ok (pr : Prec) : OpsOk (bc4uOpsT pr) (bc4uOps pr) 1785 1275 := by
  cases pr
  · refine ⟨fun b _ => rfl, fun i hi => ?_, fun i hi => ?_⟩ <;>
      trap_simp [bc4uOpsT, bc4uOps, mulAddShrT, w8, w32]
  · refine ⟨fun b hb => n8n16T_eq b hb, fun i hi => ?_, fun i hi => ?_⟩ <;>
      trap_simp [bc4uOpsT, bc4uOps, mulAddShrT, w16, w32]
  · refine ⟨fun b _ => rfl, fun i hi => ?_, fun i hi => ?_⟩ <;>
      trap_simp [bc4uOpsT, bc4uOps, divF32T]

theorem bc4sOps_ok (pr : Prec) : OpsOk (bc4sOpsT pr) (bc4sOps pr) 1778 1270 := by
  cases pr
  · refine ⟨fun b _ => s8n8T_eq b, fun i hi => ?_, fun i hi => ?_⟩ <;>
      trap_simp [bc4sOpsT, bc4sOps, mulAddDivT, w8, w32, Nat.reduceDiv]
  · refine ⟨fun b _ => s8n16T_eq b, fun i hi => ?_, fun i hi => ?_⟩ <;>
      trap_simp [bc4sOpsT, bc4sOps, mulAddDivT, w16, w32, Nat.reduceDiv]
  · refine ⟨fun b _ => rfl, fun i hi => ?_, fun i hi => ?_⟩ <;>
      trap_simp [bc4sOpsT, bc4sOps, divF32T]

theorem bc4LutT_eq (T : Bc4OpsT) (ops : Bc4Ops) (M : Nat) (hM : M ≤ 255) (hok : OpsOk T ops (7 * M) (5 * M))
    (v0 v1 a b : Nat) (h0 : v0 < 256) (h1 : v1 < 256) (ha : a ≤ M) (hb : b ≤ M) (six : Bool) :
    bc4LutT T ops.zero ops.one v0 v1 a b six =
      some ((List.range 8).map (bc4Lut ops (ops.fromByte v0) (ops.fromByte v1) a b six)) := by
  have e : List.range 8 = [0, 1, 2, 3, 4, 5, 6, 7] := by decide
  obtain ⟨hf, h6, h4⟩ := hok
  unfold bc4LutT
  rw [hf v0 h0, hf v1 h1, e]
  cases six
  · trap_simp [sum1T, sum2T, sum3T, h4, bc4Lut, w16, List.map, Bool.false_eq_true, if_false]
  · trap_simp [sum1T, sum2T, sum3T, h6, bc4Lut, w16, List.map, if_true]

theorem idx_range8 {α : Type} (f : Nat → α) (k : Nat) (hk : k < 8) : idx ((List.range 8).map f) k = some (f k) := by
  unfold idx
  rcases lt8_cases hk with h | h | h | h | h | h | h | h <;> subst h <;> rfl

theorem bc4LoopT_eq (f : Nat → Nat) (blk : Nat → Nat) :
    bc4LoopT ((List.range 8).map f) blk = some ((List.range 16).map fun p => f (bc4Index blk p)) := by
  unfold bc4LoopT
  apply mapT_eq_some
  intro p hp
  have hp : p < 16 := List.mem_range.mp hp
  have hk : (le24 blk (2 + 3 * (p / 8)) >>> (p % 8 * 3)) &&& 7 < 8 := by rw [and7]; omega
  dsimp only
  rw [shr_of_lt (by omega), bind_some', dbgP_of (by omega), bind_some', idx_range8 _ _ hk]
  rfl

theorem bc4uT_eq (pr : Prec) (blk : Nat → Nat) (hb : ∀ i, blk i < 256) :
    bc4uT pr blk = some ((List.range 16).map (bc4uPx (bc4uOps pr) blk)) := by
  have h0 := hb 0; have h1 := hb 1
  unfold bc4uT
  dsimp only
  rw [bc4LutT_eq _ _ 255 (by omega) (bc4uOps_ok pr) _ _ _ _ h0 h1 (by omega) (by omega), bind_some', bc4LoopT_eq]
  rfl

theorem bc4sT_eq (pr : Prec) (blk : Nat → Nat) (hb : ∀ i, blk i < 256) :
    bc4sT pr blk = some ((List.range 16).map (bc4sPx (bc4sOps pr) blk)) := by
  have h0 := hb 0; have h1 := hb 1
  unfold bc4sT
  dsimp only
  rw [bc4LutT_eq _ _ 254 (by omega) (bc4sOps_ok pr) _ _ _ _ h0 h1 (s8norm_le _) (s8norm_le _), bind_some',
    bc4LoopT_eq]
  rfl

/-! ### BC2, BC3, straight alpha -/

theorem idx_map_range {α : Type} (f : Nat → α) (n k : Nat) (hk : k < n) :
    idx ((List.range n).map f) k = some (f k) := by
  unfold idx
  simp [List.getElem?_map, List.getElem?_range hk]

theorem lut4_map {α β : Type} (g : α → β) (c0 c1 c2 c3 : α) (k : Nat) :
    lut4 (g c0) (g c1) (g c2) (g c3) k = g (lut4 c0 c1 c2 c3 k) := by
  unfold lut4; split <;> rfl

theorem bc2AlphaRowT_eq (blk : Nat → Nat) (hb : ∀ i, blk i < 256) (i : Nat) (hi : i < 4) :
    bc2AlphaRowT blk i = some [n4n8 (blk (i * 2) &&& 0xF), n4n8 (blk (i * 2) >>> 4),
      n4n8 (blk (i * 2 + 1) &&& 0xF), n4n8 (blk (i * 2 + 1) >>> 4)] := by
  have h1 := hb (i * 2); have h2 := hb (i * 2 + 1)
  have a1 : blk (i * 2) &&& 0xF ≤ 15 := by rw [and15]; omega
  have a2 : blk (i * 2 + 1) &&& 0xF ≤ 15 := by rw [and15]; omega
  have a3 : blk (i * 2) >>> 4 ≤ 15 := by omega
  have a4 : blk (i * 2 + 1) >>> 4 ≤ 15 := by omega
  unfold bc2AlphaRowT
  rw [idxF_of_lt (by omega), bind_some', idxF_of_lt (by omega), bind_some', shr_of_lt (by omega), bind_some',
    shr_of_lt (by omega), bind_some', n4n8T_eq _ a1, bind_some', n4n8T_eq _ a3, bind_some', n4n8T_eq _ a2, bind_some',
    n4n8T_eq _ a4, bind_some']
  rw [mapT_eq_some _ (fun ja : Nat × Nat => ja.2)]
  · rfl
  · intro ja hja
    have : ja.1 < 4 := by
      simp only [List.mem_cons, List.not_mem_nil, or_false] at hja
      rcases hja with h | h | h | h <;> subst h <;> (show _ < 4; omega)
    rw [dbgP_of (by omega), bind_some', pure_some']

theorem bc2T_eq (blk : Nat → Nat) (hb : ∀ i, blk i < 256) : bc2T blk = some ((List.range 16).map (bc2Px blk)) := by
  unfold bc2T
  rw [bc1NoDefaultT_eq, bind_some', mapT_eq_some _ _ _ (fun i hi => bc2AlphaRowT_eq blk hb i (List.mem_range.mp hi)),
    bind_some']
  apply mapT_eq_some
  intro p hp
  have hp : p < 16 := List.mem_range.mp hp
  rw [idx_map_range _ _ _ hp, bind_some', idx_map_range _ _ _ (by omega : p / 4 < 4), bind_some',
    idx_lut4 _ _ _ _ _ (by omega : p % 4 < 4), bind_some', pure_some', lut4_map]
  rfl

theorem bc3T_eq (blk : Nat → Nat) (hb : ∀ i, blk i < 256) : bc3T blk = some ((List.range 16).map (bc3Px blk)) := by
  unfold bc3T
  rw [bc1NoDefaultT_eq, bind_some', bc4uT_eq _ _ hb, bind_some']
  apply mapT_eq_some
  intro p hp
  have hp : p < 16 := List.mem_range.mp hp
  have e : p / 4 * 4 + p % 4 = p := by omega
  dsimp only
  rw [e, idx_map_range _ _ _ hp, bind_some', idx_map_range _ _ _ hp, bind_some', pure_some']
  rfl

theorem straightT_eq (c a : Nat) (hc : c < 256) : straightT c a = some (straight c a) := by
  unfold straightT straight
  dsimp only
  have hne : (if a = 0 then 255 else a) ≠ 0 := by split <;> omega
  rw [ck_of_lt (by omega), bind_some', div_of_ne hne, bind_some', pure_some']
  simp only [w8, w16, Nat.mod_eq_of_lt (by omega : c * 255 < 65536)]

theorem toStraightT_eq (c : Rgba) (hc : RgbaLt c) : toStraightT c = some (toStraight c) := by
  unfold toStraightT
  rw [straightT_eq _ _ hc.1, bind_some', straightT_eq _ _ hc.2.1, bind_some', straightT_eq _ _ hc.2.2.1, bind_some',
    pure_some']
  rfl

/-! ### the decoders -/

theorem widenAllT_eq (pr : Prec) (pxs : List (List Nat)) (h : ∀ l ∈ pxs, ∀ v ∈ l, v < 256) :
    widenAllT pr pxs = some (pxs.map (List.map (widen pr))) := by
  unfold widenAllT
  apply mapT_eq_some
  intro l hl
  apply mapT_eq_some
  intro v hv
  exact widenT_eq pr v (h l hl v hv)

theorem wrap8 (pr : Prec) (g : Nat → List Nat) (hg : ∀ p, ∀ v ∈ g p, v < 256) :
    widenAllT pr ((List.range 16).map g) = some ((List.range 16).map fun p => (g p).map (widen pr)) := by
  rw [widenAllT_eq, List.map_map]
  · rfl
  · intro l hl v hv
    obtain ⟨p, _, rfl⟩ := List.mem_map.mp hl
    exact hg p v hv

theorem l4_lt (c : Rgba) (hc : RgbaLt c) : ∀ v ∈ l4 c, v < 256 := by
  intro v hv
  simp only [l4, List.mem_cons, List.not_mem_nil, or_false] at hv
  rcases hv with h | h | h | h <;> subst h
  · exact hc.1
  · exact hc.2.1
  · exact hc.2.2.1
  · exact hc.2.2.2

theorem bc2Px_lt (blk : Nat → Nat) (p : Nat) : RgbaLt (bc2Px blk p) :=
  have h := bc1NoDefaultPx_lt (upper blk) p
  ⟨h.1, h.2.1, h.2.2.1, bc2Alpha_lt blk p⟩
theorem bc3Px_lt (blk : Nat → Nat) (hb : ∀ i, blk i < 256) (p : Nat) : RgbaLt (bc3Px blk p) :=
  have h := bc1NoDefaultPx_lt (upper blk) p
  ⟨h.1, h.2.1, h.2.2.1, bc4u8_lt blk hb p⟩
theorem toStraight_lt (c : Rgba) (hc : RgbaLt c) : RgbaLt (toStraight c) :=
  ⟨straight_lt _ _, straight_lt _ _, straight_lt _ _, hc.2.2.2⟩

theorem list3_lt {a b c : Nat} (ha : a < 256) (hb : b < 256) (hc : c < 256) : ∀ v ∈ [a, b, c], v < 256 := by
  intro v hv
  simp only [List.mem_cons, List.not_mem_nil, or_false] at hv
  rcases hv with h | h | h <;> subst h <;> assumption

theorem mapT_toStraight (g : Nat → Rgba) (hg : ∀ p, RgbaLt (g p)) :
    mapT toStraightT ((List.range 16).map g) = some ((List.range 16).map fun p => toStraight (g p)) := by
  rw [mapT_eq_some _ toStraight, List.map_map]
  · rfl
  · intro c hc
    obtain ⟨p, _, rfl⟩ := List.mem_map.mp hc
    exact toStraightT_eq _ (hg p)

/-- **BC1–BC5 bodies**: the trapping mirror of every decoder of `bc.rs` (13 decoders × 3 precisions) returns
the 16 pixels of the wrapping model, for every block -/
theorem blockT_eq (f : Fmt) (pr : Prec) (blk : Nat → Nat) (hb : ∀ i, blk i < 256) :
    blockT f pr blk = some (decodeBlock f pr blk) := by
  have hu := upper_lt blk hb
  cases f
  case bc1 =>
    simp only [blockT, bc1T_eq, bind_some', List.map_map]
    rw [show (l4 ∘ bc1Px blk) = (fun p => l4 (bc1Px blk p)) from rfl, wrap8 pr _ (fun p => l4_lt _ (bc1Px_lt blk p))]
    rfl
  case bc2 =>
    simp only [blockT, bc2T_eq blk hb, bind_some', List.map_map]
    rw [show (l4 ∘ bc2Px blk) = (fun p => l4 (bc2Px blk p)) from rfl, wrap8 pr _ (fun p => l4_lt _ (bc2Px_lt blk p))]
    rfl
  case bc2rgb =>
    simp only [blockT, bc1NoDefaultT_eq, bind_some', List.map_map]
    rw [show (rgbOf ∘ bc1NoDefaultPx (upper blk)) = (fun p => rgbOf (bc1NoDefaultPx (upper blk) p)) from rfl,
      wrap8 pr _ (fun p => by
        have h := bc1NoDefaultPx_lt (upper blk) p
        exact list3_lt h.1 h.2.1 h.2.2.1)]
    rfl
  case bc2p =>
    simp only [blockT, bc2T_eq blk hb, bind_some', mapT_toStraight _ (bc2Px_lt blk), List.map_map]
    rw [show (l4 ∘ fun p => toStraight (bc2Px blk p)) = (fun p => l4 (toStraight (bc2Px blk p))) from rfl,
      wrap8 pr _ (fun p => l4_lt _ (toStraight_lt _ (bc2Px_lt blk p)))]
    rfl
  case bc3 =>
    simp only [blockT, bc3T_eq blk hb, bind_some', List.map_map]
    rw [show (l4 ∘ bc3Px blk) = (fun p => l4 (bc3Px blk p)) from rfl, wrap8 pr _ (fun p => l4_lt _ (bc3Px_lt blk hb p))]
    rfl
  case bc3rgb =>
    simp only [blockT, bc1NoDefaultT_eq, bind_some', List.map_map]
    rw [show (rgbOf ∘ bc1NoDefaultPx (upper blk)) = (fun p => rgbOf (bc1NoDefaultPx (upper blk) p)) from rfl,
      wrap8 pr _ (fun p => by
        have h := bc1NoDefaultPx_lt (upper blk) p
        exact list3_lt h.1 h.2.1 h.2.2.1)]
    rfl
  case bc3p =>
    simp only [blockT, bc3T_eq blk hb, bind_some', mapT_toStraight _ (bc3Px_lt blk hb), List.map_map]
    rw [show (l4 ∘ fun p => toStraight (bc3Px blk p)) = (fun p => l4 (toStraight (bc3Px blk p))) from rfl,
      wrap8 pr _ (fun p => l4_lt _ (toStraight_lt _ (bc3Px_lt blk hb p)))]
    rfl
  case rxgb =>
    simp only [blockT, bc3T_eq blk hb, bind_some', List.map_map]
    rw [show ((fun c : Rgba => [c.2.2.2, c.2.1, c.2.2.1]) ∘ bc3Px blk) =
        (fun p => [(bc3Px blk p).2.2.2, (bc3Px blk p).2.1, (bc3Px blk p).2.2.1]) from rfl,
      wrap8 pr _ (fun p => by
        have h := bc3Px_lt blk hb p
        exact list3_lt h.2.2.2 h.2.1 h.2.2.1)]
    rfl
  case bc3n =>
    simp only [blockT, bc3T_eq blk hb, bind_some', List.map_map]
    rw [show ((fun c : Rgba => [c.2.2.2, c.2.1, calcB c.2.2.2 c.2.1]) ∘ bc3Px blk) =
        (fun p => [(bc3Px blk p).2.2.2, (bc3Px blk p).2.1, calcB (bc3Px blk p).2.2.2 (bc3Px blk p).2.1]) from rfl,
      wrap8 pr _ (fun p => by
        have h := bc3Px_lt blk hb p
        exact list3_lt h.2.2.2 h.2.1 (calcB_lt _ _))]
    rfl
  case bc4u =>
    simp only [blockT, bc4uT_eq pr blk hb, bind_some', pure_some', List.map_map]
    rfl
  case bc4s =>
    simp only [blockT, bc4sT_eq pr blk hb, bind_some', pure_some', List.map_map]
    rfl
  case bc5u =>
    simp only [blockT, bc4uT_eq pr blk hb, bc4uT_eq pr _ hu, bind_some', pure_some', List.zip_map', List.map_map]
    rfl
  case bc5s =>
    simp only [blockT, bc4sT_eq pr blk hb, bc4sT_eq pr _ hu, bind_some', pure_some', List.zip_map', List.map_map]
    rfl

end Dds.TrapBc
