/-
C13 / BC7 writer, part 3: `compress_p1 / p2 / p3` against the decoder's `Indexes::new_p1 / p2 / p3`, for the code's
partition tables (all 64 + 64 partitions; table facts by complete evaluation): the decoder gets the NORMALISED list
back, in which every index of subset `s` is inverted exactly when the writer reports `swap_s`.
-/
import DdsModel.Proofs.Enc7Index
namespace Dds.Enc7
open Dds Dds.BcTables Dds.Bc7

/-! ### masks, checked by evaluation -/

def maskOK (I m : Nat) (S : Nat → Bool) : Bool :=
  decide (m < 2 ^ (16 * I)) && (List.range 16).all fun i => fld m (i * I) I == (if S i then 2 ^ I - 1 else 0)

theorem maskOK_sound (I m : Nat) (S : Nat → Bool) (h : maskOK I m S = true) : IsMask I m S := by
  simp only [maskOK, Bool.and_eq_true, decide_eq_true_eq, List.all_eq_true, List.mem_range, beq_iff_eq] at h
  exact ⟨h.1, h.2⟩

theorem allMask (I : Nat) (hI : I = 2 ∨ I = 3 ∨ I = 4) : IsMask I (INDEXES_MASK I) (fun _ => true) := by
  apply maskOK_sound
  rcases hI with h | h | h <;> subst h <;> decide +kernel

/-- the facts about `PARTITION_SET_2[part]` the two-subset writer relies on -/
def tbl2OK (part : Nat) : Bool :=
  let map := implP2 part
  decide (0 < map.2) && decide (map.2 < 16) && subset2Index map 0 == 0 && subset2Index map map.2 == 1 &&
  ((List.range 16).all fun i => decide (subset2Index map i ≤ 1)) &&
  maskOK 2 (bitsRepeat2 map.1) (fun i => subset2Index map i == 1) &&
  maskOK 2 (bitsRepeat2 map.1 ^^^ INDEXES_MASK 2) (fun i => subset2Index map i == 0) &&
  maskOK 3 (bitsRepeat3 map.1) (fun i => subset2Index map i == 1) &&
  maskOK 3 (bitsRepeat3 map.1 ^^^ INDEXES_MASK 3) (fun i => subset2Index map i == 0)

theorem tbl2_all : ∀ part, part < 64 → tbl2OK part = true := by decide +kernel

/-- the subset-ordered anchors of `compress_p3` -/
def s1Index (map : Nat × Nat × Nat) : Nat := if subset3Index map map.2.1 = 2 then map.2.2 else map.2.1
def s2Index (map : Nat × Nat × Nat) : Nat := if subset3Index map map.2.1 = 2 then map.2.1 else map.2.2

/-- the facts about `PARTITION_SET_3[part]` the three-subset writer relies on -/
def tbl3OK (part : Nat) : Bool :=
  let map := implP3 part
  decide (0 < map.2.1) && decide (map.2.1 < map.2.2) && decide (map.2.2 < 16) &&
  subset3Index map 0 == 0 && subset3Index map (s1Index map) == 1 && subset3Index map (s2Index map) == 2 &&
  ((List.range 16).all fun i => decide (subset3Index map i ≤ 2)) &&
  maskOK 2 (getMask3 2 map 0) (fun i => subset3Index map i == 0) &&
  maskOK 2 (getMask3 2 map 1) (fun i => subset3Index map i == 1) &&
  maskOK 2 (getMask3 2 map 2) (fun i => subset3Index map i == 2) &&
  maskOK 3 (getMask3 3 map 0) (fun i => subset3Index map i == 0) &&
  maskOK 3 (getMask3 3 map 1) (fun i => subset3Index map i == 1) &&
  maskOK 3 (getMask3 3 map 2) (fun i => subset3Index map i == 2)

theorem tbl3_all : ∀ part, part < 64 → tbl3OK part = true := by decide +kernel

/-! ### one subset -/

/-- the list `compress_p1` compresses: `indexes` after `ensure_msb_zero(0, INDEXES_MASK)` -/
def norm1 (I x : Nat) : Nat := (ensureMsbZero I x 0 (INDEXES_MASK I)).1

theorem compressP1_spec (I x : Nat) (rest : List (Nat × Nat)) (hI : I = 2 ∨ I = 3 ∨ I = 4) (hx : x < 2 ^ (16 * I)) :
    (compressP1 I x).1.1 < 2 ^ (16 * I - 1) ∧ (compressP1 I x).1.2 = 16 * I - 1 ∧
    newP1 I (fv ((compressP1 I x).1 :: rest)) = (⟨norm1 I x, I, getMask I⟩, fv rest) ∧
    ∀ i, i < 16 → get I (norm1 I x) i = if (compressP1 I x).2 then 2 ^ I - 1 - get I x i else get I x i := by
  obtain ⟨h1, h2, h3⟩ := ensure_step I x 0 (INDEXES_MASK I) (fun _ => true) hI (by decide) hx (allMask I hI) rfl
  obtain ⟨hc, hn⟩ := newP1_compress I (norm1 I x) rest hI h1 h2
  refine ⟨hc, rfl, hn, ?_⟩
  intro i hi
  have := h3 i hi
  simp only [Bool.and_true] at this
  exact this

/-! ### two subsets -/

def mask2 (I : Nat) (map : Nat × Nat) : Nat := if I = 2 then bitsRepeat2 map.1 else bitsRepeat3 map.1

def norm2 (I x : Nat) (map : Nat × Nat) : Nat :=
  (ensureMsbZero I (ensureMsbZero I x 0 (mask2 I map ^^^ INDEXES_MASK I)).1 map.2 (mask2 I map)).1

theorem compressP2_spec (I x part : Nat) (rest : List (Nat × Nat)) (hI : I = 2 ∨ I = 3) (hx : x < 2 ^ (16 * I))
    (hp : part < 64) :
    (compressP2 I x (implP2 part)).1.1 < 2 ^ (16 * I - 2) ∧ (compressP2 I x (implP2 part)).1.2 = 16 * I - 2 ∧
    newP2 I (fv ((compressP2 I x (implP2 part)).1 :: rest)) (implP2 part).2 =
      (⟨norm2 I x (implP2 part), I, getMask I⟩, fv rest) ∧
    ∀ i, i < 16 → get I (norm2 I x (implP2 part)) i =
      if (if subset2Index (implP2 part) i = 0 then (compressP2 I x (implP2 part)).2.1
          else (compressP2 I x (implP2 part)).2.2)
      then 2 ^ I - 1 - get I x i else get I x i := by
  have hI' : I = 2 ∨ I = 3 ∨ I = 4 := by omega
  have ht := tbl2_all part hp
  simp only [tbl2OK, Bool.and_eq_true, decide_eq_true_eq, beq_iff_eq, List.all_eq_true, List.mem_range] at ht
  obtain ⟨⟨⟨⟨⟨⟨⟨⟨hf0, hf16⟩, hs0⟩, hsf⟩, _hle⟩, m21⟩, m20⟩, m31⟩, m30⟩ := ht
  generalize hmap : implP2 part = map at *
  have hM1 : IsMask I (mask2 I map) (fun i => subset2Index map i == 1) := by
    rcases hI with h | h <;> subst h
    · exact maskOK_sound _ _ _ m21
    · exact maskOK_sound _ _ _ m31
  have hM0 : IsMask I (mask2 I map ^^^ INDEXES_MASK I) (fun i => subset2Index map i == 0) := by
    rcases hI with h | h <;> subst h
    · exact maskOK_sound _ _ _ m20
    · exact maskOK_sound _ _ _ m30
  obtain ⟨a1, a2, a3⟩ := ensure_step I x 0 _ _ hI' (by decide) hx hM0 (by simp [hs0])
  obtain ⟨b1, b2, b3⟩ := ensure_step I _ map.2 _ _ hI' hf16 a1 hM1 (by simp [hsf])
  have hbit0 : (norm2 I x map).testBit (0 * I + I - 1) = false := by
    have h := b3 0 (by decide)
    simp only [hs0, show ((0 : Nat) == 1) = false from rfl, Bool.and_false, Bool.false_eq_true, if_false] at h
    rw [show norm2 I x map = (ensureMsbZero I (ensureMsbZero I x 0 (mask2 I map ^^^ INDEXES_MASK I)).1 map.2
      (mask2 I map)).1 from rfl, testBit_of_get_eq I _ _ 0 hI' h]
    exact a2
  obtain ⟨hc, hn⟩ := newP2_compress I (norm2 I x map) map.2 rest hI' b1 hf0 hf16 hbit0 b2
  have hmaskdef : (if I = 2 then bitsRepeat2 map.1 else bitsRepeat3 map.1) = mask2 I map := rfl
  refine ⟨hc, rfl, hn, ?_⟩
  intro i hi
  have h1 := a3 i hi
  have h2 := b3 i hi
  show get I (ensureMsbZero I (ensureMsbZero I x 0 (mask2 I map ^^^ INDEXES_MASK I)).1 map.2 (mask2 I map)).1 i = _
  rw [h2, h1]
  simp only [compressP2, hmaskdef]
  by_cases hs : subset2Index map i = 0
  · simp [hs]
  · have : subset2Index map i = 1 := by have := _hle i hi; omega
    simp [this]

/-! ### three subsets -/

def norm3 (I x : Nat) (map : Nat × Nat × Nat) : Nat :=
  (ensureMsbZero I (ensureMsbZero I (ensureMsbZero I x 0 (getMask3 I map 0)).1 (s1Index map) (getMask3 I map 1)).1
    (s2Index map) (getMask3 I map 2)).1

theorem compressP3_spec (I x part : Nat) (rest : List (Nat × Nat)) (hI : I = 2 ∨ I = 3) (hx : x < 2 ^ (16 * I))
    (hp : part < 64) :
    (compressP3 I x (implP3 part)).1.1 < 2 ^ (16 * I - 3) ∧ (compressP3 I x (implP3 part)).1.2 = 16 * I - 3 ∧
    newP3 I (fv ((compressP3 I x (implP3 part)).1 :: rest)) (implP3 part).2.1 (implP3 part).2.2 =
      (⟨norm3 I x (implP3 part), I, getMask I⟩, fv rest) ∧
    ∀ i, i < 16 → get I (norm3 I x (implP3 part)) i =
      if (if subset3Index (implP3 part) i = 0 then (compressP3 I x (implP3 part)).2.1
          else if subset3Index (implP3 part) i = 1 then (compressP3 I x (implP3 part)).2.2.1
          else (compressP3 I x (implP3 part)).2.2.2)
      then 2 ^ I - 1 - get I x i else get I x i := by
  have hI' : I = 2 ∨ I = 3 ∨ I = 4 := by omega
  have ht := tbl3_all part hp
  simp only [tbl3OK, Bool.and_eq_true, decide_eq_true_eq, beq_iff_eq, List.all_eq_true, List.mem_range] at ht
  obtain ⟨⟨⟨⟨⟨⟨⟨⟨⟨⟨⟨⟨hf0, hf23⟩, hf16⟩, hs0⟩, hs1⟩, hs2⟩, hle⟩, m20⟩, m21⟩, m22⟩, m30⟩, m31⟩, m32⟩ := ht
  generalize hmap : implP3 part = map at *
  have hM0 : IsMask I (getMask3 I map 0) (fun i => subset3Index map i == 0) := by
    rcases hI with h | h <;> subst h
    · exact maskOK_sound _ _ _ m20
    · exact maskOK_sound _ _ _ m30
  have hM1 : IsMask I (getMask3 I map 1) (fun i => subset3Index map i == 1) := by
    rcases hI with h | h <;> subst h
    · exact maskOK_sound _ _ _ m21
    · exact maskOK_sound _ _ _ m31
  have hM2 : IsMask I (getMask3 I map 2) (fun i => subset3Index map i == 2) := by
    rcases hI with h | h <;> subst h
    · exact maskOK_sound _ _ _ m22
    · exact maskOK_sound _ _ _ m32
  have hs1lt : s1Index map < 16 := by unfold s1Index; split <;> omega
  have hs2lt : s2Index map < 16 := by unfold s2Index; split <;> omega
  obtain ⟨a1, a2, a3⟩ := ensure_step I x 0 _ _ hI' (by decide) hx hM0 (by simp [hs0])
  obtain ⟨b1, b2, b3⟩ := ensure_step I _ (s1Index map) _ _ hI' hs1lt a1 hM1 (by simp [hs1])
  obtain ⟨c1, c2, c3⟩ := ensure_step I _ (s2Index map) _ _ hI' hs2lt b1 hM2 (by simp [hs2])
  -- top bits of the three anchors in the final word
  have hbit0 : (norm3 I x map).testBit (0 * I + I - 1) = false := by
    have hb := b3 0 (by decide)
    have hc := c3 0 (by decide)
    simp only [hs0, show ((0 : Nat) == 1) = false from rfl, show ((0 : Nat) == 2) = false from rfl, Bool.and_false,
      Bool.false_eq_true, if_false] at hb hc
    show (ensureMsbZero I _ (s2Index map) (getMask3 I map 2)).1.testBit _ = false
    rw [testBit_of_get_eq I _ _ 0 hI' hc, testBit_of_get_eq I _ _ 0 hI' hb]
    exact a2
  have hbit1 : (norm3 I x map).testBit (s1Index map * I + I - 1) = false := by
    have hc := c3 (s1Index map) hs1lt
    simp only [hs1, show ((1 : Nat) == 2) = false from rfl, Bool.and_false, Bool.false_eq_true, if_false] at hc
    show (ensureMsbZero I _ (s2Index map) (getMask3 I map 2)).1.testBit _ = false
    rw [testBit_of_get_eq I _ _ _ hI' hc]
    exact b2
  have hbit2 : (norm3 I x map).testBit (s2Index map * I + I - 1) = false := c2
  have hbf2 : (norm3 I x map).testBit (map.2.1 * I + I - 1) = false := by
    by_cases h : subset3Index map map.2.1 = 2
    · have : s2Index map = map.2.1 := by simp [s2Index, h]
      rw [← this]; exact hbit2
    · have : s1Index map = map.2.1 := by simp [s1Index, h]
      rw [← this]; exact hbit1
  have hbf3 : (norm3 I x map).testBit (map.2.2 * I + I - 1) = false := by
    by_cases h : subset3Index map map.2.1 = 2
    · have : s1Index map = map.2.2 := by simp [s1Index, h]
      rw [← this]; exact hbit1
    · have : s2Index map = map.2.2 := by simp [s2Index, h]
      rw [← this]; exact hbit2
  obtain ⟨hc, hn⟩ := newP3_compress I (norm3 I x map) map.2.1 map.2.2 rest hI c1 hf0 hf23 hf16 hbit0 hbf2 hbf3
  have e1 : (if subset3Index map map.2.1 = 2 then map.2.2 else map.2.1) = s1Index map := rfl
  have e2 : (if subset3Index map map.2.1 = 2 then map.2.1 else map.2.2) = s2Index map := rfl
  refine ⟨hc, rfl, hn, ?_⟩
  intro i hi
  have h1 := a3 i hi
  have h2 := b3 i hi
  have h3 := c3 i hi
  show get I (ensureMsbZero I _ (s2Index map) (getMask3 I map 2)).1 i = _
  rw [h3, h2, h1]
  simp only [compressP3, e1, e2]
  have := hle i hi
  by_cases hs : subset3Index map i = 0
  · simp [hs]
  · by_cases hs' : subset3Index map i = 1
    · simp [hs']
    · have : subset3Index map i = 2 := by omega
      simp [this]

end Dds.Enc7
