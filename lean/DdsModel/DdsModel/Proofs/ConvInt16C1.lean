/- 65 536-point complete evaluation of `s16n16`, half 1 (chunks of 8 192 points; own file so that lake
checks the halves in parallel). -/
import DdsModel.Proofs.ConvInt
namespace Dds.ConvProofs
open Dds Dds.Conv Dds.Spec Dds.ConvRange
set_option maxRecDepth 100000
theorem s16n16_c10 : allRange (okInt s16n16 65535 (snorm 16) tieZero) 8 32768 8192 = true := by decide +kernel
theorem s16n16_c11 : allRange (okInt s16n16 65535 (snorm 16) tieZero) 8 40960 8192 = true := by decide +kernel
theorem s16n16_c12 : allRange (okInt s16n16 65535 (snorm 16) tieZero) 8 49152 8192 = true := by decide +kernel
theorem s16n16_c13 : allRange (okInt s16n16 65535 (snorm 16) tieZero) 8 57344 8192 = true := by decide +kernel
theorem s16n16_half1 : ∀ x, 32768 ≤ x → x < 65536 → okInt s16n16 65535 (snorm 16) tieZero x = true := by
  intro x h1 h2
  by_cases a : x < 40960
  · exact allRange_sound _ 8 32768 8192 s16n16_c10 x h1 (by omega)
  · by_cases b : x < 49152
    · exact allRange_sound _ 8 40960 8192 s16n16_c11 x (by omega) (by omega)
    · by_cases c : x < 57344
      · exact allRange_sound _ 8 49152 8192 s16n16_c12 x (by omega) (by omega)
      · exact allRange_sound _ 8 57344 8192 s16n16_c13 x (by omega) (by omega)
end Dds.ConvProofs
