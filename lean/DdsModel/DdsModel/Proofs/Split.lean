/-
Helper lemmas for `Theorems/C14.lean` (model: `Split.lean`).
-/
import DdsModel.Split
namespace Dds

/-! ### `get_fragment_height` -/

/-- everything `get_fragment_height` guarantees about a returned fragment height -/
structure FragHeightSpec (w h : Nat) (sup : Option Support) (dith : Dithering) (q : Quality)
    (F : Nat) : Prop where
  w_pos : 0 < w
  h_pos : 0 < h
  ex : ∃ s sh, sup = some s ∧ s.splitHeight = some sh ∧ 0 < sh ∧
    (s.localDithering = true ∨ dith.intersect s.dithering = .none) ∧
    max (s.fragmentSize.getPreferred q) 1 < w * h ∧
    F = (if (max (s.fragmentSize.getPreferred q) 1 / w) / sh * sh = 0 then sh
         else (max (s.fragmentSize.getPreferred q) 1 / w) / sh * sh)

theorem getPreferred_lt (s : FragSize) (q : Quality) : s.getPreferred q < U64 := by
  unfold FragSize.getPreferred
  cases s with
  | entireImage => simp [U64]
  | fragment f h u =>
    simp only
    have : 2 ^ (min (match q with
      | .fast => f | .normal => ((f + h) / 2) % U8 | .high => h | .unreasonable => u) 63) ≤ 2 ^ 63 :=
      Nat.pow_le_pow_right (by omega) (Nat.min_le_right _ _)
    have h63 : 2 ^ 63 < U64 := by simp [U64]
    exact Nat.lt_of_le_of_lt this h63

theorem getFragmentHeight_some {w h : Nat} {sup : Option Support} {dith : Dithering} {q : Quality}
    {F : Nat} (hwf : ∀ s, sup = some s → s.WF)
    (hF : getFragmentHeight w h sup dith q = some F) : FragHeightSpec w h sup dith q F := by
  unfold getFragmentHeight at hF
  by_cases he : w = 0 ∨ h = 0
  · rw [if_pos he] at hF; simp at hF
  rw [if_neg he] at hF
  cases sup with
  | none => simp at hF
  | some s =>
    simp only at hF
    cases hsh : s.splitHeight with
    | none => rw [hsh] at hF; simp at hF
    | some sh =>
      rw [hsh] at hF
      simp only at hF
      obtain ⟨hsh0, _⟩ := hwf s rfl sh hsh
      by_cases hd : ((!s.localDithering) && decide (dith.intersect s.dithering ≠ .none)) = true
      · rw [if_pos hd] at hF; simp at hF
      rw [if_neg hd] at hF
      by_cases hp : max (s.fragmentSize.getPreferred q) 1 ≥ w * h
      · rw [if_pos hp] at hF; simp at hF
      rw [if_neg hp] at hF
      have hfp := getPreferred_lt s.fragmentSize q
      have hle : (max (s.fragmentSize.getPreferred q) 1 / w) / sh * sh
          ≤ max (s.fragmentSize.getPreferred q) 1 :=
        Nat.le_trans (Nat.div_mul_le_self _ _) (Nat.div_le_self _ _)
      have hU : (1 : Nat) < U64 := by simp [U64]
      have hlt : (max (s.fragmentSize.getPreferred q) 1 / w) / sh * sh < U64 := by omega
      rw [wMul_eq hlt] at hF
      unfold tryU32 at hF
      by_cases h32 : (max (s.fragmentSize.getPreferred q) 1 / w) / sh * sh < U32
      · rw [if_pos h32] at hF
        simp only [Option.some.injEq] at hF
        refine ⟨by omega, by omega, s, sh, rfl, hsh, hsh0, ?_, by omega, hF.symm⟩
        cases hl : s.localDithering with
        | true => exact Or.inl rfl
        | false =>
          right
          rw [hl] at hd
          simpa using hd
      · rw [if_neg h32] at hF; simp at hF

/-- a returned fragment height is a positive multiple of the split height, below `2^32`
when the height is, and never reaches the image height unless it is the split height itself -/
theorem FragHeightSpec.facts {w h : Nat} {sup : Option Support} {dith : Dithering} {q : Quality}
    {F : Nat} (sp : FragHeightSpec w h sup dith q F) :
    ∃ s sh k, sup = some s ∧ s.splitHeight = some sh ∧ 0 < sh ∧ 0 < k ∧ F = k * sh ∧
      (F < h ∨ F = sh) := by
  obtain ⟨s, sh, hs, hsh, hsh0, _, hp, hF⟩ := sp.ex
  refine ⟨s, sh, ?_⟩
  by_cases hz : (max (s.fragmentSize.getPreferred q) 1 / w) / sh * sh = 0
  · rw [if_pos hz] at hF
    exact ⟨1, hs, hsh, hsh0, by omega, by omega, Or.inr hF⟩
  · rw [if_neg hz] at hF
    refine ⟨(max (s.fragmentSize.getPreferred q) 1 / w) / sh, hs, hsh, hsh0, ?_, hF, Or.inl ?_⟩
    · cases hk : (max (s.fragmentSize.getPreferred q) 1 / w) / sh with
      | zero => rw [hk] at hz; simp at hz
      | succ n => omega
    · have h1 : F ≤ max (s.fragmentSize.getPreferred q) 1 / w := by
        rw [hF]; exact Nat.div_mul_le_self _ _
      have h2 : max (s.fragmentSize.getPreferred q) 1 / w < h := by
        apply Nat.div_lt_of_lt_mul
        exact hp
      omega

/-! ### `SplitView::get` -/

theorem divCeil_pos {a b : Nat} (ha : 0 < a) (hb : 0 < b) : 0 < divCeil a b := by
  have := (divCeil_spec a b hb).1
  cases h : divCeil a b with
  | zero => rw [h] at this; omega
  | succ n => omega

/-- index below `⌈h/F⌉` ⇒ the fragment starts inside the image -/
theorem start_lt {h F i : Nat} (hF : 0 < F) (hi : i < divCeil h F) : i * F < h := by
  have h2 := (divCeil_spec h F hF).2
  by_cases h0 : h = 0
  · subst h0
    unfold divCeil at hi
    simp at hi
  · simp only [h0, if_false, Nat.add_zero] at h2
    have : i ≤ divCeil h F - 1 := by omega
    have := Nat.mul_le_mul_right F this
    omega

theorem get_split {w h len F i : Nat} (hh : h < U32) (hF : 0 < F)
    (hi : i < len) (hlen : len = divCeil h F) :
    (SplitView.mk w h len (some F)).get i = some (i * F, min F (h - i * F)) := by
  subst hlen
  have hs := start_lt hF hi
  unfold SplitView.get
  simp only
  rw [if_neg (by omega)]
  have h1 : wMul32 i F = i * F := by
    unfold wMul32; exact Nat.mod_eq_of_lt (by omega)
  rw [h1]
  have h2 : min (satAdd32 (i * F) F) h = min (i * F + F) h := by
    unfold satAdd32
    by_cases hc : i * F + F < U32
    · rw [if_pos hc]
    · rw [if_neg hc]; omega
  rw [h2]
  have h3 : wSub32 (min (i * F + F) h) (i * F) = min (i * F + F) h - i * F := by
    unfold wSub32
    have hb : i * F < U32 := by omega
    rw [Nat.mod_eq_of_lt hb]
    have : min (i * F + F) h + U32 - i * F = (min (i * F + F) h - i * F) + U32 := by omega
    rw [this, Nat.add_mod_right]
    exact Nat.mod_eq_of_lt (by omega)
  rw [h3]
  congr 2
  omega

/-! ### rows covered -/

/-- the rows of a fragment -/
def rowsOf : Option (Nat × Nat) → List Nat
  | some (o, k) => List.range' o k
  | none => []

theorem cover_prefix (F h n : Nat) :
    (List.range n).flatMap (fun i => List.range' (i * F) (min F (h - i * F))) =
      List.range (min (n * F) h) := by
  induction n with
  | zero => simp
  | succ n ih =>
    rw [List.range_succ, List.flatMap_append, ih]
    simp only [List.flatMap_cons, List.flatMap_nil, List.append_nil]
    rw [Nat.succ_mul]
    by_cases hc : n * F ≤ h
    · have e1 : min (n * F) h = n * F := by omega
      rw [e1, List.range_eq_range', List.range_eq_range']
      have := @List.range'_append 0 (n * F) (min F (h - n * F)) 1
      simp only [Nat.one_mul, Nat.zero_add] at this
      rw [this]
      congr 1
      omega
    · have e1 : min (n * F) h = h := by omega
      have e2 : min F (h - n * F) = 0 := by omega
      have e3 : min (n * F + F) h = h := by omega
      rw [e1, e2, e3]
      simp

/-! ### assembling -/

theorem foldl_set_getElem? {α : Type} (r : Nat → α) (order : List Nat) (init : List (Option α))
    (j : Nat) :
    (order.foldl (fun slots i => slots.set i (some (r i))) init)[j]? =
      if j ∈ order ∧ j < init.length then some (some (r j)) else init[j]? := by
  induction order generalizing init with
  | nil => simp
  | cons i t ih =>
    rw [List.foldl_cons, ih, List.length_set, List.getElem?_set]
    by_cases hj : j < init.length
    · by_cases hij : i = j
      · subst hij
        simp [hj]
      · have : ¬ j = i := fun h => hij h.symm
        simp [hj, hij, this]
    · have : init[j]? = none := by simp; omega
      simp [hj]
      intro h1
      omega

theorem collectSlots_eq {α : Type} (n : Nat) (r : Nat → α) (order : List Nat)
    (hcov : ∀ j, j < n → j ∈ order) :
    collectSlots n r order = (List.range n).map (fun j => some (r j)) := by
  apply List.ext_getElem?
  intro j
  unfold collectSlots
  rw [foldl_set_getElem?]
  simp only [List.length_replicate, List.getElem?_replicate, List.getElem?_map]
  by_cases hj : j < n
  · rw [List.getElem?_range hj]
    simp [hj, hcov j hj]
  · have : (List.range n)[j]? = none := by simp; omega
    simp [hj]

theorem allSome_map_some {α : Type} (l : List α) : allSome (l.map some) = some l := by
  induction l with
  | nil => rfl
  | cons a t ih => simp [allSome, ih]

/-! ### chunks -/

theorem chunks_nil {ρ : Type} (k : Nat) : chunks k ([] : List ρ) = [] := by
  rw [chunks]; simp

theorem chunks_zero {ρ : Type} (l : List ρ) : chunks 0 l = [] := by
  rw [chunks]; simp

theorem chunks_cons {ρ : Type} {k : Nat} {l : List ρ} (hk : 0 < k) (hl : l ≠ []) :
    chunks k l = l.take k :: chunks k (l.drop k) := by
  rw [chunks]
  have : ¬ (k = 0 ∨ l = []) := by
    intro h; cases h with
    | inl h => omega
    | inr h => exact hl h
  rw [dif_neg this]

theorem chunks_append {ρ : Type} {sh : Nat} (hsh : 0 < sh) (m : Nat) (a b : List ρ)
    (ha : a.length = m * sh) : chunks sh (a ++ b) = chunks sh a ++ chunks sh b := by
  induction m generalizing a with
  | zero =>
    have : a = [] := by
      apply List.eq_nil_of_length_eq_zero; omega
    subst this
    simp [chunks_nil]
  | succ m ih =>
    rw [Nat.succ_mul] at ha
    have hne : a ≠ [] := by
      intro h; subst h; simp at ha; omega
    have hne2 : a ++ b ≠ [] := by
      intro h; exact hne (List.append_eq_nil_iff.mp h).1
    rw [chunks_cons hsh hne2, chunks_cons hsh hne]
    have hle : sh ≤ a.length := by omega
    rw [List.take_append_of_le_length hle, List.drop_append_of_le_length hle]
    rw [ih (a.drop sh) (by rw [List.length_drop]; omega)]
    rfl

theorem chunks_flatMap {ρ : Type} {sh k : Nat} (hsh : 0 < sh) (hk : 0 < k) (img : List ρ) :
    (chunks (k * sh) img).flatMap (chunks sh) = chunks sh img := by
  have hF : 0 < k * sh := Nat.mul_pos hk hsh
  generalize hn : img.length = n
  induction n using Nat.strongRecOn generalizing img with
  | _ n ih =>
    by_cases hne : img = []
    · subst hne; simp [chunks_nil]
    · rw [chunks_cons hF hne, List.flatMap_cons]
      have hlen : 0 < img.length := by
        cases img with
        | nil => exact absurd rfl hne
        | cons => simp
      rw [ih (img.drop (k * sh)).length (by rw [List.length_drop]; omega) _ rfl]
      by_cases hle : k * sh ≤ img.length
      · rw [← chunks_append hsh k (img.take (k * sh)) (img.drop (k * sh))
          (by rw [List.length_take]; omega)]
        rw [List.take_append_drop]
      · rw [List.drop_eq_nil_of_le (by omega), List.take_of_length_le (by omega)]
        simp [chunks_nil]

theorem chunks_flatten {ρ : Type} {sh : Nat} (hsh : 0 < sh) (img : List ρ) :
    (chunks sh img).flatMap (fun g => g) = img := by
  generalize hn : img.length = n
  induction n using Nat.strongRecOn generalizing img with
  | _ n ih =>
    by_cases hne : img = []
    · subst hne; simp [chunks_nil]
    · have hlen : 0 < img.length := by
        cases img with
        | nil => exact absurd rfl hne
        | cons => simp
      rw [chunks_cons hsh hne, List.flatMap_cons]
      rw [ih (img.drop sh).length (by rw [List.length_drop]; omega) _ rfl]
      exact List.take_append_drop sh img

theorem divCeil_step {n F : Nat} (hF : 0 < F) (hn : 0 < n) :
    divCeil n F = divCeil (n - F) F + 1 := by
  rw [divCeil_eq _ _ hF, divCeil_eq _ _ hF]
  by_cases hle : F ≤ n
  · have : n + F - 1 = (n - F + F - 1) + F := by omega
    rw [this, Nat.add_div_right _ hF]
  · have e1 : n - F = 0 := by omega
    rw [e1]
    have : (0 + F - 1) / F = 0 := Nat.div_eq_of_lt (by omega)
    rw [this]
    have : (n + F - 1) / F = 1 := by
      have : n + F - 1 = (n - 1) + F := by omega
      rw [this, Nat.add_div_right _ hF]
      have : (n - 1) / F = 0 := Nat.div_eq_of_lt (by omega)
      omega
    omega

theorem chunks_eq_map {ρ : Type} {F : Nat} (hF : 0 < F) (img : List ρ) :
    chunks F img =
      (List.range (divCeil img.length F)).map (fun i => (img.drop (i * F)).take F) := by
  generalize hn : img.length = n
  induction n using Nat.strongRecOn generalizing img with
  | _ n ih =>
    by_cases hne : img = []
    · subst hne
      simp at hn
      subst hn
      simp [chunks_nil, divCeil]
    · have hlen : 0 < img.length := by
        cases img with
        | nil => exact absurd rfl hne
        | cons => simp
      rw [chunks_cons hF hne]
      rw [ih (img.drop F).length (by rw [List.length_drop]; omega) _ rfl]
      rw [List.length_drop, ← hn, divCeil_step hF hlen, List.range_succ_eq_map]
      simp only [List.map_cons, List.map_map, Nat.zero_mul, List.drop_zero]
      congr 1
      apply List.map_congr_left
      intro i _
      simp only [Function.comp, List.drop_drop, Nat.succ_mul]
      rw [Nat.add_comm]

end Dds
