/-
BC3n `calc_b` = specification `z8`: rows `r = 224 … 255` (all 256 values of `g` each), by kernel evaluation
of the checker of `Proofs/Bc3nCalc.lean` (GENERATED: the eight files `Bc3nRows0…7` differ only in the range).
-/
import DdsModel.Proofs.Bc3nCalc
namespace Dds.Bc3n
set_option maxRecDepth 100000

theorem chunk224 : rowsChk 224 8 = true := by decide +kernel
theorem chunk232 : rowsChk 232 8 = true := by decide +kernel
theorem chunk240 : rowsChk 240 8 = true := by decide +kernel
theorem chunk248 : rowsChk 248 8 = true := by decide +kernel

theorem rows7 (r g : Nat) (h1 : 224 ≤ r) (h2 : r < 256) (hg : g < 256) : Bc.calcB r g = BcSpec.z8 r g := by
  by_cases a : r < 232
  · exact of_rows 224 8 chunk224 r g (by omega) (by omega) (by omega) hg
  · by_cases b : r < 240
    · exact of_rows 232 8 chunk232 r g (by omega) (by omega) (by omega) hg
    · by_cases c : r < 248
      · exact of_rows 240 8 chunk240 r g (by omega) (by omega) (by omega) hg
      · exact of_rows 248 8 chunk248 r g (by omega) (by omega) (by omega) hg

end Dds.Bc3n
