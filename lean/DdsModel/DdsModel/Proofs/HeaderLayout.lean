/- No-panic facts about the layout computations used by the header repair (uses C02). -/
import DdsModel.Proofs.Header
import DdsModel.Theorems.C02
namespace Dds

theorem fromHeader_px' {hd : LayoutHeader} {px : PixelInfo} {i : SurfaceLayoutInfo}
    (h : SurfaceLayoutInfo.fromHeader hd px = .ok i) : i.px = px := by
  unfold SurfaceLayoutInfo.fromHeader at h
  split at h
  · cases h
  · split at h
    · cases h
    · split at h
      · cases h
      · cases h; rfl

theorem createArray_ne_none (i : SurfaceLayoutInfo) (hp : i.px.WF) (kind : ArrayKind) (n : Nat) :
    i.createArray kind n ≠ none := by
  unfold SurfaceLayoutInfo.createArray
  cases hc : i.create with
  | error e => simp
  | ok t =>
    simp only
    unfold SurfaceLayoutInfo.create at hc
    obtain ⟨v, _⟩ := Texture.create_ok hp hc
    unfold TextureArray.new
    rw [v.dataLenP]
    simp only
    split <;> simp

theorem liftArr_ne_none {r : Option (Except LayoutErr TextureArray)} (h : r ≠ none) : liftArr r ≠ none := by
  unfold liftArr
  cases r with
  | none => exact absurd rfl h
  | some x => simp

/-- `DataLayout::from_header_with` does not panic for a well-formed pixel info -/
theorem layoutOf_ne_none (hd : LayoutHeader) (px : PixelInfo) (hp : px.WF) : layoutOf hd px ≠ none := by
  unfold layoutOf
  split
  · split
    · split
      · simp
      · split
        · simp
        · rename_i info hi
          have hpx := fromHeader_px' hi
          split
          · simp
          · exact liftArr_ne_none (createArray_ne_none info (hpx ▸ hp) _ _)
    · split
      · simp
      · split
        · simp
        · rename_i info0 hi
          have hpx := fromHeader_px' hi
          simp only
          split
          · simp
          · apply liftArr_ne_none
            apply createArray_ne_none
            split
            · exact hpx ▸ hp
            · exact hpx ▸ hp
  · split
    · split
      · simp
      · split
        · simp
        · rename_i info hi
          have hpx := fromHeader_px' hi
          exact liftArr_ne_none (createArray_ne_none info (hpx ▸ hp) _ _)
    · split
      · simp
      · split
        · simp
        · simp

theorem Header.toLayoutHeader_inRange {h : Header} (hwf : h.WF) : C02.HeaderInRange h.toLayoutHeader := by
  cases h with
  | dx9 x =>
    obtain ⟨a, b, c, _⟩ := hwf
    refine ⟨a, b, ?_, ?_⟩
    · intro v hv
      simp only [Header.toLayoutHeader] at hv
      rw [hv] at c; exact c
    · intro c' dim n hk; cases hk
  | dx10 x =>
    obtain ⟨a, b, c, _, _, _, _, harr, _⟩ := hwf
    refine ⟨a, b, ?_, ?_⟩
    · intro v hv
      simp only [Header.toLayoutHeader] at hv
      rw [hv] at c; exact c
    · intro c' dim n hk
      simp only [Header.toLayoutHeader, HeaderKind.dx10.injEq] at hk
      rw [← hk.2.2]; exact harr

/-- The layout computations behind `Header.layoutLen` / the `test` closure of
`fix_based_on_file_len` do not panic for a well-formed header and pixel info: `layoutOf`
returns, and the `data_len()` of a returned layout is defined (no `unwrap` on `None`). -/
theorem Header.layoutLen_no_panic {h : Header} (hwf : h.WF) {px : PixelInfo} (hp : px.WF) :
    layoutOf h.toLayoutHeader px ≠ none ∧
    ∀ L, layoutOf h.toLayoutHeader px = some (.ok L) → ∃ n, L.dataLenP = some n ∧ n < U64 := by
  refine ⟨layoutOf_ne_none _ _ hp, fun L hL => ?_⟩
  obtain ⟨hv, _⟩ := C02.layoutOf_valid _ _ hp (Header.toLayoutHeader_inRange hwf) L hL
  obtain ⟨_, h2, h3⟩ := C02.flatten_eq_spec L hv
  exact ⟨_, h2, h3⟩

end Dds
