/-
The 16-bit conversions of `formats.rs` that evaluate in `f32` — `n16::f32`, `s16::uf32`, `fp16::{f32,n8,n16}` —
on the kernel-friendly operations of `Proofs/ConvFast.lean`, each proved equal to the model function of
`Conv.lean` for ALL arguments, and their rational specifications as explicit fractions.
-/
import DdsModel.Proofs.ConvFastSpec
import DdsModel.Conv
namespace Dds.ConvFast
open Dds Dds.CF32 Dds.Spec Dds.Conv
open Dds.F32.Raw (lz lz_eq nadd nsub nmul ndiv nmod npow nshl cond_ble cond_blt cond_beq ble_dec blt_dec beq_dec cond_dec)

/-! ### constants -/

theorem consts : ofNat 73 = 0x42920000 ∧ ofNat 255 = 0x437F0000 ∧ ofNat 65535 = 0x477FFF00 ∧
    ofNat (2 ^ 10) = 0x44800000 ∧ half = 0x3F000000 ∧ kDenorm16 = 0x3B7FFF00 ∧ c0_n16 = 0x37800000 ∧
    c1_n16 = 0x2F800080 ∧ k1_s16 = 0x346071F9 ∧ twoPowi (-((14 + 10 : Nat) : Int)) = 0x33800000 := by decide +kernel

/-! ### `n16::f32` -/

def n16R (x : Nat) : Nat :=
  lz (ofNatR x) fun t => addR (mulR t 0x37800000) (mulR t 0x2F800080)

theorem n16R_eq (x : Nat) : n16R x = n16f32 x := by
  unfold n16R n16f32
  rw [lz_eq, addR_eq, mulR_eq, mulR_eq, ofNatR_eq]
  rfl

theorem unorm16_eq (v : Nat) : unorm 16 v = mkRat v 65535 := by
  unfold unorm
  rw [mkRat_eq_natDiv]

/-! ### `s16::uf32` -/

def s16normR (x : Nat) : Nat := Nat.sub (Nat.mod (Nat.add x 32768) 65536) 1

theorem s16normR_eq (x : Nat) : s16normR x = s16norm x := rfl

def s16R (x : Nat) : Nat :=
  mulR (mulR (ofNatR (s16normR x)) 0x42920000) 0x346071F9

theorem s16R_eq (x : Nat) : s16R x = s16f32 x := by
  unfold s16R s16f32 mulK
  rw [mulR_eq, mulR_eq, ofNatR_eq, s16normR_eq, consts.1]
  rfl

theorem div_add_one_half (a : Int) (m : Nat) (hm : m ≠ 0) :
    ((a : Rat) / (((m : Nat) : Int) : Rat) + 1) / 2 = mkRat (a + m) (2 * m) := by
  have e0 : (((m : Nat) : Int) : Rat) = ((m : Nat) : Rat) := rfl
  have e1 : (1 : Rat) = mkRat 1 1 := by decide +kernel
  have e2 : (2 : Rat)⁻¹ = mkRat 1 2 := by decide +kernel
  rw [e0, ← Rat.mkRat_eq_div, Rat.div_def, e2, e1, Rat.mkRat_add_mkRat _ _ hm (by decide), Rat.mkRat_mul_mkRat]
  congr 1
  · simp
  · omega

theorem snorm16_eq (v : Nat) (hv : v < 65536) : snorm 16 v = mkRat (s16norm v) 65534 := by
  unfold snorm
  have hm : (((2 ^ (16 - 1) : Nat) : Int) - 1) = ((32767 : Nat) : Int) := by decide
  simp only [hm]
  rw [div_add_one_half _ 32767 (by decide)]
  congr 1
  unfold signed s16norm w16
  have : (2 : Nat) ^ (16 - 1) = 32768 := by decide
  rw [this]
  have : (2 : Nat) ^ 16 = 65536 := by decide
  rw [this]
  split <;> omega

/-! ### `fp16::f32`, `fp16::n8`, `fp16::n16` -/

def hExp (x : Nat) : Nat := Nat.mod (Nat.div x 1024) 32
def hMant (x : Nat) : Nat := Nat.mod x 1024
def hNeg (x : Nat) : Bool := Nat.beq (Nat.mod (Nat.div x 32768) 2) 1

theorem hExp_eq (x : Nat) : (x >>> 10) % 32 = hExp x := by
  unfold hExp; rw [Nat.shiftRight_eq_div_pow]; rfl
theorem hMant_eq (x : Nat) : x % 2 ^ 10 = hMant x := rfl
theorem hNeg_eq (x : Nat) : (true && (x >>> (10 + 5)) % 2 == 1) = hNeg x := by
  unfold hNeg; rw [Nat.shiftRight_eq_div_pow, Bool.true_and, beq_dec]
  show _ = decide (x / 32768 % 2 = 1)
  cases h : decide (x / 32768 % 2 = 1) <;> simp_all

/-- `smallNormal 10 exp mant` -/
def normR (exp mant : Nat) : Nat :=
  mulR (addR (ofNatR mant) 0x44800000) (Nat.shiftLeft (Nat.add exp 102) 23)

theorem normR_eq (exp mant : Nat) : normR exp mant = smallNormal 10 exp mant := by
  unfold normR smallNormal twoPowi
  rw [mulR_eq, addR_eq, ofNatR_eq, consts.2.2.2.1, nadd, nshl]
  have : ((exp : Int) - ((15 + 10 : Nat) : Int) + 127).toNat = exp + 102 := by omega
  rw [this]

/-- magnitude of `fp16::f32` -/
def hF32 (exp mant : Nat) : Nat :=
  cond (Nat.beq exp 0) (mulR (ofNatR mant) 0x33800000)
    (cond (Nat.beq exp 31) (cond (Nat.beq mant 0) 0x7F800000 0x7FC00000) (normR exp mant))

theorem hF32_eq (exp mant : Nat) : hF32 exp mant =
    (if (exp == 0) = true then fmul (ofNat mant) (twoPowi (-((14 + 10 : Nat) : Int)))
      else if (exp != 31) = true then smallNormal 10 exp mant
      else if (mant == 0) = true then posInf else nan) := by
  unfold hF32
  rw [cond_beq, cond_beq, cond_beq, mulR_eq, ofNatR_eq, normR_eq, consts.2.2.2.2.2.2.2.2.2]
  simp only [beq_iff_eq, bne_iff_ne, ne_eq, ite_not]
  rfl

theorem smallF32_eq (x : Nat) :
    smallF32 10 true x = if hNeg x = true then neg (hF32 (hExp x) (hMant x)) else hF32 (hExp x) (hMant x) := by
  rw [hF32_eq, ← hExp_eq, ← hMant_eq, ← hNeg_eq]
  rfl

/-- `fp16::n8` of a non-negative half -/
def hN8 (exp mant : Nat) : Nat :=
  cond (Nat.beq exp 31) (cond (Nat.beq mant 0) 255 0)
    (toNatSatR (addR (mulR (normR exp mant) 0x437F0000) 0x3F000000) 255)

theorem hN8_eq (exp mant : Nat) : hN8 exp mant =
    (if (exp != 31) = true then toNatSat (fadd (fmul (smallNormal 10 exp mant) (ofNat 255)) half) 255
      else if (mant == 0) = true then 255 else 0) := by
  unfold hN8
  rw [cond_beq, cond_beq, toNatSatR_eq, addR_eq, mulR_eq, normR_eq, consts.2.1, consts.2.2.2.2.1]
  simp only [beq_iff_eq, bne_iff_ne, ne_eq, ite_not]

theorem smallN8_eq (x : Nat) : smallN8 10 true x = if hNeg x = true then 0 else hN8 (hExp x) (hMant x) := by
  rw [hN8_eq, ← hExp_eq, ← hMant_eq, ← hNeg_eq]
  rfl

/-- `fp16::n16` of a non-negative half -/
def hN16 (exp mant : Nat) : Nat :=
  cond (Nat.beq exp 0) (toNatSatR (addR (mulR (ofNatR mant) 0x3B7FFF00) 0x3F000000) 65535)
    (cond (Nat.beq exp 31) (cond (Nat.beq mant 0) 65535 0)
      (toNatSatR (addR (mulR (normR exp mant) 0x477FFF00) 0x3F000000) 65535))

theorem hN16_eq (exp mant : Nat) : hN16 exp mant =
    (if (exp == 0) = true then
        (if ((10 : Nat) == 10) = true then toNatSat (fadd (fmul (ofNat mant) kDenorm16) half) 65535
          else if ((10 : Nat) == 6) = true then fp11DenormN16 mant else fp10DenormN16 mant)
      else if (exp != 31) = true then
        toNatSat (fadd (fmul (smallNormal 10 exp mant) (ofNat 65535)) half) 65535
      else if (mant == 0) = true then 65535 else 0) := by
  unfold hN16
  rw [cond_beq, cond_beq, cond_beq, toNatSatR_eq, toNatSatR_eq, addR_eq, addR_eq, mulR_eq, mulR_eq, normR_eq, ofNatR_eq,
    consts.2.2.1, consts.2.2.2.2.1, consts.2.2.2.2.2.1]
  simp only [beq_iff_eq, bne_iff_ne, ne_eq, ite_not, if_true]

theorem smallN16_eq (x : Nat) : smallN16 10 true x = if hNeg x = true then 0 else hN16 (hExp x) (hMant x) := by
  rw [hN16_eq, ← hExp_eq, ← hMant_eq, ← hNeg_eq]
  rfl

/-! the value of a half as a fraction -/

/-- numerator of the magnitude (`exp < 31`) -/
def hMagN (exp mant : Nat) : Nat :=
  cond (Nat.beq exp 0) mant
    (cond (Nat.ble 25 exp) (Nat.mul (Nat.add 1024 mant) (Nat.pow 2 (Nat.sub exp 25))) (Nat.add 1024 mant))
/-- denominator of the magnitude -/
def hMagD (exp : Nat) : Nat :=
  cond (Nat.beq exp 0) 16777216 (cond (Nat.ble 25 exp) 1 (Nat.pow 2 (Nat.sub 25 exp)))

theorem hMagD_ne (exp : Nat) : hMagD exp ≠ 0 := by
  unfold hMagD
  rw [cond_beq, cond_ble, npow, nsub]
  have : 0 < 2 ^ (25 - exp) := Nat.pow_pos (by decide)
  split
  · decide
  · split <;> omega

theorem pow2_eq : CF32.pow2 = F32.pow2 := rfl

theorem smallFloat_eq (x : Nat) : smallFloat 10 true x =
    if hExp x = 31 then none else
      some (if hNeg x = true then -(mkRat (hMagN (hExp x) (hMant x)) (hMagD (hExp x)))
        else mkRat (hMagN (hExp x) (hMant x)) (hMagD (hExp x))) := by
  unfold smallFloat
  simp only [hExp_eq, hMant_eq, hNeg_eq, beq_iff_eq]
  have : (if hExp x = 0 then ((hMant x : Nat) : Rat) * CF32.pow2 (-((14 + 10 : Nat) : Int))
      else ((2 ^ 10 + hMant x : Nat) : Rat) * CF32.pow2 ((hExp x : Int) - ((15 + 10 : Nat) : Int))) =
      mkRat (hMagN (hExp x) (hMant x)) (hMagD (hExp x)) := by
    unfold hMagN hMagD
    rw [cond_beq, cond_beq, cond_ble, cond_ble, pow2_eq]
    generalize hExp x = e
    generalize hMant x = m
    by_cases h0 : e = 0
    · rw [if_pos h0, if_pos h0, if_pos h0, F32.Fast.natCast_mul_pow2]
      rfl
    · rw [if_neg h0, if_neg h0, if_neg h0, F32.Fast.natCast_mul_pow2]
      by_cases h1 : 25 ≤ e
      · have : (0 : Int) ≤ (e : Int) - ((15 + 10 : Nat) : Int) := by omega
        rw [if_pos this, if_pos h1, if_pos h1]
        have : ((e : Int) - ((15 + 10 : Nat) : Int)).toNat = e - 25 := by omega
        rw [this]
        rfl
      · have : ¬ (0 : Int) ≤ (e : Int) - ((15 + 10 : Nat) : Int) := by omega
        rw [if_neg this, if_neg h1, if_neg h1]
        have : (-((e : Int) - ((15 + 10 : Nat) : Int))).toNat = 25 - e := by omega
        rw [this]
        rfl
  rw [this]

end Dds.ConvFast
