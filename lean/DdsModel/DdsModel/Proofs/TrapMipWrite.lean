/-
C15 / C11 (mipmap-generating encoder), part 3: the trapping mirror of `write_surface_impl` returns `some` of
`Enc.write` (C11's model) for every encoder state satisfying C11's invariant.
-/
import DdsModel.Proofs.TrapMipGen
import DdsModel.Theorems.C11
namespace Dds.TrapMip
open Dds Dds.Trap Dds.TrapEnc

/-- what `Encoder::new` establishes between the layout and its iterator (`SurfaceIterator::new(layout)`) and no
call changes: a texture iterator walks a non-volume layout with the layout's level count, a volume iterator a volume -/
def Linked (e : Enc) : Prop :=
  match e.iter with
  | .tex t => e.layout.isVolume = false ∧ e.layout.mips = t.first.mips
  | .vol _ => e.layout.isVolume = true

theorem pow25_succ_le' (l : Nat) : (2 / 5 : Rat) ^ (l + 1) ≤ (2 / 5 : Rat) ^ l := by
  rw [Rat.pow_succ]
  have : (0 : Rat) < (2 / 5 : Rat) ^ l := Rat.pow_pos (by grind)
  grind

theorem levelRangeT_ok (n level : Nat) (hl : level ≤ 255) : ∃ r, levelRangeT n level = some r := by
  unfold levelRangeT
  by_cases h : n = 0
  · rw [if_pos h]; exact ⟨_, rfl⟩
  · rw [if_neg h, ckI32_of_range (by omega), bind_some']
    have := pow25_succ_le' level
    have hle : (1 : Rat) - (2 / 5 : Rat) ^ level ≤ 1 - (2 / 5 : Rat) ^ (level + 1) := by grind
    dsimp only
    rw [dbgP_of hle, bind_some']
    exact ⟨_, rfl⟩

theorem levelCounterT_ok (n : Nat) : ∀ (m level : Nat), level + m ≤ 255 → levelCounterT n m level = some ()
  | 0, _, _ => rfl
  | m + 1, level, h => by
    unfold levelCounterT
    rw [ck_of_lt (by omega), bind_some']
    obtain ⟨r, hr⟩ := levelRangeT_ok n (level + 1) (by omega)
    rw [hr, bind_some']
    exact levelCounterT_ok n m (level + 1) (by omega)

/-- the image of a `write_surface` call as the public API can build it -/
structure ImgOK (im : Img) : Prop where
  view : VOK im.v im.c
  col : im.c.OK
  bytes : im.v.w * im.v.h * im.c.bpp ≤ BMAX

theorem normSizeE_view {v : View} {c : Color} (hv : VOK v c) : normSizeE v.w v.h = (v.w, v.h) := by
  unfold normSizeE
  by_cases he : v.w = 0 ∨ v.h = 0
  · obtain ⟨h1, h2, _, _⟩ := hv.inv.empty he
    rw [if_pos he, h1, h2]
  · rw [if_neg he]

theorem write_of_cur (e : Enc) (w h : Nat) (pre : Bool) {r : Option SurfInfo} {it : SurfIter}
    (hc : e.iter.currentP = some r) (hadv : e.iter.advanceP = some it) :
    e.write w h pre =
      match r with
      | none => (e, .tooManySurfaces)
      | some s =>
        if (s.w, s.h) ≠ normSizeE w h then (e, .unexpectedSurfaceSize)
        else if pre then (e, .cancelled)
        else if !e.sizeOk s.w s.h then (e, .invalidSize)
        else if e.toGen s > 0 then
          ({ e with iter := it, written := e.written + s.len } : Enc).genLoop 255
        else ({ e with iter := it, written := e.written + s.len }, .ok) := by
  unfold Enc.write
  simp only [hc]
  cases r with
  | none => rfl
  | some s => simp only [hadv]

theorem writeSurfaceT_ok {al : Alloc} (ha : AlOK al) (rayon : Bool) (e : Enc) (hI : C08.IterInv e.iter)
    (hL : Linked e) {k : Cache} (hk : CacheOK k) {im : Img} (him : ImgOK im) (pre : Bool) :
    ∃ k', writeSurfaceT al rayon e k im pre =
        some ((e.write im.v.w im.v.h pre).1, (e.write im.v.w im.v.h pre).2, k') ∧ CacheOK k' := by
  obtain ⟨it', hadv, _⟩ := C08.advance_refines e.iter hI
  have hadv0 := hadv
  have hns := normSizeE_view him.view
  unfold writeSurfaceT writeSurfaceWithT
  cases hit : e.iter with
  | vol t =>
    rw [hit] at hI hadv
    unfold Linked at hL
    rw [hit] at hL
    simp only at hL
    have hcur : (SurfIter.vol t).currentP = _ := VolIter.Inv.currentP hI
    rw [hcur, bind_some']
    by_cases hl : t.level < t.volume.mips
    · simp only [if_pos hl]
      have hcur1 : e.iter.currentP = some (some ⟨mipSize t.volume.w t.level, mipSize t.volume.h t.level, t.volume.sliceLen t.level, t.level⟩) := by
        rw [hit, hcur, if_pos hl]
      have hw := write_of_cur e im.v.w im.v.h pre hcur1 hadv0
      dsimp only at hw
      by_cases hsz : (mipSize t.volume.w t.level, mipSize t.volume.h t.level) ≠ normSizeE im.v.w im.v.h
      · rw [if_pos hsz, pure_some', hw]
        simp only [if_pos hsz]
        exact ⟨k, rfl, hk⟩
      · rw [if_neg hsz]
        have htg : toGenT e ⟨mipSize t.volume.w t.level, mipSize t.volume.h t.level,
            t.volume.sliceLen t.level, t.level⟩ = some 0 := by
          unfold toGenT; rw [hL]; simp
        have htg' : e.toGen ⟨mipSize t.volume.w t.level, mipSize t.volume.h t.level,
            t.volume.sliceLen t.level, t.level⟩ = 0 := by
          unfold Enc.toGen; rw [hL]; simp
        rw [htg, bind_some']
        obtain ⟨r, hr⟩ := levelRangeT_ok 0 0 (by omega)
        rw [hr, bind_some', hw]
        simp only [if_neg hsz]
        cases pre with
        | true => simp only [if_true]; exact ⟨k, rfl, hk⟩
        | false =>
          simp only [Bool.false_eq_true, if_false]
          by_cases hok : (!e.sizeOk (mipSize t.volume.w t.level) (mipSize t.volume.h t.level)) = true
          · simp only [if_pos hok]; exact ⟨k, rfl, hk⟩
          · simp only [if_neg hok]
            rw [hadv, bind_some']
            simp only [htg', Nat.lt_irrefl, if_false]
            rw [pure_some']
            exact ⟨k, rfl, hk⟩
    · simp only [if_neg hl]
      have hcur1 : e.iter.currentP = some none := by rw [hit, hcur, if_neg hl]
      have hw := write_of_cur e im.v.w im.v.h pre hcur1 hadv0
      dsimp only at hw
      rw [pure_some', hw]
      exact ⟨k, rfl, hk⟩
  | tex t =>
    rw [hit] at hI hadv
    unfold Linked at hL
    rw [hit] at hL
    simp only at hL
    have hI' : t.Inv := hI
    have hcur : (SurfIter.tex t).currentP = _ := TexIter.Inv.currentP hI'
    rw [hcur, bind_some']
    by_cases hl : t.idx < t.len
    · simp only [if_pos hl]
      have hlm : t.level < t.first.mips := by
        cases hI'.cursor with
        | inl h' => exact h'.2
        | inr h' => omega
      have hm := hI'.mips_lt
      have hcur1 : e.iter.currentP = some (some ⟨mipSize t.first.w t.level, mipSize t.first.h t.level,
          t.first.px.surfIdeal (mipSize t.first.w t.level) (mipSize t.first.h t.level), t.level⟩) := by
        rw [hit, hcur, if_pos hl]
      have hw := write_of_cur e im.v.w im.v.h pre hcur1 hadv0
      dsimp only at hw
      by_cases hsz : (mipSize t.first.w t.level, mipSize t.first.h t.level) ≠ normSizeE im.v.w im.v.h
      · rw [if_pos hsz, pure_some', hw]
        simp only [if_pos hsz]
        exact ⟨k, rfl, hk⟩
      · rw [if_neg hsz]
        have hsz' : (mipSize t.first.w t.level, mipSize t.first.h t.level) = (im.v.w, im.v.h) := by
          rw [← hns]; exact Classical.not_not.mp hsz
        have hvw : im.v.w = mipSize t.first.w t.level := (Prod.mk.inj hsz').1.symm
        have hvh : im.v.h = mipSize t.first.h t.level := (Prod.mk.inj hsz').2.symm
        obtain ⟨s, hs⟩ : ∃ s : SurfInfo, (⟨mipSize t.first.w t.level, mipSize t.first.h t.level,
          t.first.px.surfIdeal (mipSize t.first.w t.level) (mipSize t.first.h t.level), t.level⟩ : SurfInfo) = s :=
          ⟨_, rfl⟩
        simp only [hs] at hw ⊢
        have hsl : s.level = t.level := by rw [← hs]
        have hsw : s.w = mipSize t.first.w t.level := by rw [← hs]
        have hsh : s.h = mipSize t.first.h t.level := by rw [← hs]
        -- `mipmaps_to_generate`
        have htg : toGenT e s = some (e.toGen s) := by
          unfold toGenT Enc.toGen
          by_cases hg : (e.generate && !e.layout.isVolume) = true
          · rw [if_pos hg, if_pos hg, hsl, ck_of_lt (by omega), bind_some', pure_some',
              Nat.mod_eq_of_lt (by unfold U8; omega)]
          · rw [if_neg hg, if_neg hg, pure_some']
        rw [htg, bind_some']
        obtain ⟨r, hr⟩ := levelRangeT_ok (e.toGen s) 0 (by omega)
        rw [hr, bind_some', hw]
        simp only [if_neg hsz]
        cases pre with
        | true => simp only [if_true]; exact ⟨k, rfl, hk⟩
        | false =>
          simp only [Bool.false_eq_true, if_false]
          by_cases hok : (!e.sizeOk (mipSize t.first.w t.level) (mipSize t.first.h t.level)) = true
          · simp only [if_pos hok]; exact ⟨k, rfl, hk⟩
          · simp only [if_neg hok]
            rw [hadv, bind_some']
            by_cases hn : e.toGen s > 0
            · simp only [if_pos hn]
              rw [allocT_of_le (by omega), bind_some']
              -- the look-ahead gathers the levels after the current one: never empty here
              have hgen : (e.generate && !e.layout.isVolume) = true := by
                unfold Enc.toGen at hn
                by_cases hg : (e.generate && !e.layout.isVolume) = true
                · exact hg
                · rw [if_neg hg] at hn; omega
              have hn' : t.level + 1 < t.first.mips := by
                unfold Enc.toGen at hn
                rw [if_pos hgen, hsl, Nat.mod_eq_of_lt (by unfold U8; omega), hL.2] at hn
                omega
              have hadv' : it' = .tex t.advance := by
                have : (SurfIter.tex t).advanceP = some (.tex t.advance) := rfl
                rw [this] at hadv; exact (Option.some.inj hadv).symm
              have hmod : (t.level + 1) % U8 = t.level + 1 := Nat.mod_eq_of_lt (by unfold U8; omega)
              have hta : t.advance = { t with level := t.level + 1 } := by
                unfold TexIter.advance
                rw [if_pos hl]; simp only [hmod]; rw [if_pos hn']
              obtain ⟨vadv, _, _, _⟩ := hI'.advance
              have hg := Mip.gather_tex 255 t.advance vadv (by rw [hta]; exact hl) (by rw [hta]; show 1 ≤ t.level + 1; omega)
                (by rw [hta]; show t.first.mips ≤ 255 + (t.level + 1); omega)
              rw [hta] at hg
              simp only at hg
              rw [hadv', hta, hg, bind_some']
              have hcnt : t.first.mips - (t.level + 1) = (t.first.mips - (t.level + 2)) + 1 := by omega
              have hq : CallOK ⟨im.addr, im.v, im.c,
                  Mip.declared t.first.w t.first.h (t.level + 1) (t.first.mips - (t.level + 1)), im.f, im.sa⟩ := by
                refine ⟨him.view, him.col, ?_, ?_, him.bytes, ?_, ?_, declared_pos _ _ _ _⟩
                · show 1 ≤ im.v.w; rw [hvw]; exact mipSize_pos _ _
                · show 1 ≤ im.v.h; rw [hvh]; exact mipSize_pos _ _
                · show Mip.declared _ _ _ _ ≠ []
                  unfold Mip.declared
                  rw [hcnt, List.range'_succ]; simp
                · show Decr (im.v.w, im.v.h) _
                  rw [hvw, hvh]; exact declared_decr _ _ _ _
              obtain ⟨k', pl, g1, _, g3⟩ := generateT_ok ha rayon hk hq
              rw [g1, bind_some']
              simp only []
              have hlen : (Mip.declared t.first.w t.first.h (t.level + 1) (t.first.mips - (t.level + 1))).length ≤ 254 := by
                unfold Mip.declared
                rw [List.length_map, List.length_range']; omega
              rw [levelCounterT_ok _ _ 0 (by omega), bind_some', pure_some']
              exact ⟨k', rfl, g3⟩
            · simp only [if_neg hn]
              rw [pure_some']
              exact ⟨k, rfl, hk⟩
    · simp only [if_neg hl]
      have hcur1 : e.iter.currentP = some none := by rw [hit, hcur, if_neg hl]
      have hw := write_of_cur e im.v.w im.v.h pre hcur1 hadv0
      dsimp only at hw
      rw [pure_some', hw]
      exact ⟨k, rfl, hk⟩

/-! ### `Linked` is kept by every call

The only way a call changes `iter` is `SurfaceIterator::advance`, which keeps the variant and, for a texture iterator,
the texture (`first`); no call assigns `layout`. -/

/-- `it'` walks what `it` walks: same variant, and a texture iterator has the same texture -/
def SameWalk : SurfIter → SurfIter → Prop
  | .tex t, .tex t' => t'.first = t.first
  | .vol _, .vol _ => True
  | _, _ => False

theorem SameWalk.refl (it : SurfIter) : SameWalk it it := by
  cases it <;> simp [SameWalk]

theorem SameWalk.trans {a b c : SurfIter} (h1 : SameWalk a b) (h2 : SameWalk b c) : SameWalk a c := by
  cases a <;> cases b <;> cases c <;> simp [SameWalk] at h1 h2 ⊢
  rw [h2, h1]

theorem TexIter.advance_first (t : TexIter) : t.advance.first = t.first := by
  unfold TexIter.advance
  by_cases h : t.idx < t.len
  · rw [if_pos h]
    dsimp only
    by_cases h2 : (t.level + 1) % U8 < t.first.mips
    · rw [if_pos h2]
    · rw [if_neg h2]
  · rw [if_neg h]

theorem advanceP_sameWalk {it it' : SurfIter} (h : it.advanceP = some it') : SameWalk it it' := by
  cases it with
  | tex t =>
    have : (SurfIter.tex t).advanceP = some (.tex t.advance) := rfl
    rw [this] at h
    rw [← Option.some.inj h]
    exact TexIter.advance_first t
  | vol t =>
    have : (SurfIter.vol t).advanceP = t.advanceP.map .vol := rfl
    rw [this] at h
    cases ht : t.advanceP with
    | none => rw [ht] at h; simp at h
    | some t' =>
      rw [ht] at h
      simp only [Option.map_some, Option.some.injEq] at h
      rw [← h]
      trivial

theorem linked_of_sameWalk {e e' : Enc} (hL : Linked e) (hl : e'.layout = e.layout)
    (hw : SameWalk e.iter e'.iter) : Linked e' := by
  unfold Linked at hL ⊢
  rw [hl]
  cases h : e.iter <;> cases h' : e'.iter <;> rw [h, h'] at hw <;> rw [h] at hL <;> simp [SameWalk] at hw hL ⊢
  · rw [hw]; exact hL
  · exact hL

/-- the generation loop only advances the iterator and never assigns `layout` -/
theorem genLoop_walk : ∀ (fuel : Nat) (e : Enc),
    (e.genLoop fuel).1.layout = e.layout ∧ SameWalk e.iter (e.genLoop fuel).1.iter := by
  intro fuel
  induction fuel with
  | zero => intro e; exact ⟨rfl, SameWalk.refl _⟩
  | succ fuel ih =>
    intro e
    unfold Enc.genLoop
    cases hc : e.iter.currentP with
    | none => exact ⟨rfl, SameWalk.refl _⟩
    | some r =>
      cases r with
      | none => exact ⟨rfl, SameWalk.refl _⟩
      | some s =>
        simp only
        by_cases h0 : s.level = 0
        · rw [if_pos h0]; exact ⟨rfl, SameWalk.refl _⟩
        · rw [if_neg h0]
          by_cases hs : (!e.sizeOk s.w s.h) = true
          · rw [if_pos hs]; exact ⟨rfl, SameWalk.refl _⟩
          · rw [if_neg hs]
            cases ha : e.iter.advanceP with
            | none => exact ⟨rfl, SameWalk.refl _⟩
            | some it' =>
              simp only
              obtain ⟨h1, h2⟩ := ih { e with iter := it', written := e.written + s.len }
              exact ⟨h1, SameWalk.trans (advanceP_sameWalk ha) h2⟩

theorem write_walk (e : Enc) (w h : Nat) (c : Bool) :
    (e.write w h c).1.layout = e.layout ∧ SameWalk e.iter (e.write w h c).1.iter := by
  unfold Enc.write
  cases hc : e.iter.currentP with
  | none => exact ⟨rfl, SameWalk.refl _⟩
  | some r =>
    cases r with
    | none => exact ⟨rfl, SameWalk.refl _⟩
    | some s =>
      simp only
      by_cases h1 : (s.w, s.h) ≠ normSizeE w h
      · rw [if_pos h1]; exact ⟨rfl, SameWalk.refl _⟩
      · rw [if_neg h1]
        by_cases h2 : c = true
        · rw [if_pos h2]; exact ⟨rfl, SameWalk.refl _⟩
        · rw [if_neg h2]
          by_cases h3 : (!e.sizeOk s.w s.h) = true
          · rw [if_pos h3]; exact ⟨rfl, SameWalk.refl _⟩
          · rw [if_neg h3]
            cases ha : e.iter.advanceP with
            | none => exact ⟨rfl, SameWalk.refl _⟩
            | some it' =>
              simp only
              by_cases h4 : e.toGen s > 0
              · rw [if_pos h4]
                obtain ⟨g1, g2⟩ := genLoop_walk 255 { e with iter := it', written := e.written + s.len }
                exact ⟨g1, SameWalk.trans (advanceP_sameWalk ha) g2⟩
              · rw [if_neg h4]; exact ⟨rfl, advanceP_sameWalk ha⟩

/-- every call kind of `Enc.step` — write (accepted, rejected, failed while generating), cancelled write, the
`mipmaps.generate` option, `finish` — keeps `Linked`; no other hypothesis on the state is needed -/
theorem linked_step (e : Enc) (hL : Linked e) (op : EncOp) : Linked (e.step op).1 := by
  cases op with
  | setGenerate b => exact hL
  | finish => exact hL
  | write w h => exact linked_of_sameWalk hL (write_walk e w h false).1 (write_walk e w h false).2
  | writeCancelled w h => exact linked_of_sameWalk hL (write_walk e w h true).1 (write_walk e w h true).2

/-- `Linked` holds after any sequence of calls (induction over the list; no depth bound) -/
theorem linked_history (ops : List EncOp) : ∀ (e : Enc), Linked e → Linked (C11.run e ops).1 := by
  induction ops with
  | nil => intro e hL; exact hL
  | cons op rest ih =>
    intro e hL
    simp only [C11.run]
    exact ih _ (linked_step e hL op)

/-- `SurfaceIterator::new` of a layout `DataLayout::from_header_with` accepted satisfies C08's iterator invariant (the
`hfresh` part of `C08.new_inv`, which does not need the decoder's `i64::MAX` bound; same proof as
`Reader.new_iterInv` of Proofs/C01.lean, repeated here so that C15 does not import the reader) -/
theorem fresh_iterInv (hd : LayoutHeader) (px : PixelInfo) (hp : px.WF) (hr : C02.HeaderInRange hd)
    (hm : 1 ≤ hd.mipmapCount) (L : DataLayout) (h : layoutOf hd px = some (.ok L)) :
    C08.IterInv (SurfIter.new L) := by
  obtain ⟨hv, _, hmips, hml, hvol, harr⟩ := C02.layoutOf_valid hd px hp hr L h
  cases L with
  | texture t =>
    obtain ⟨tv, h0⟩ := hv
    have hf := tv.fits
    rw [h0] at hf
    exact ⟨tv.wf, h0, by show 1 ≤ t.mips; rw [show t.mips = hd.mipmapCount from hmips]; exact hm,
      by show t.mips < 256; rw [show t.mips = hd.mipmapCount from hmips]; exact hml,
      by simp [U32], by simpa using hf, tv.len_lt, tv.short,
      Or.inl ⟨by show 0 < 1; omega, by show 0 < t.mips; rw [show t.mips = hd.mipmapCount from hmips]; omega⟩⟩
  | volume v =>
    obtain ⟨hdep, hdpos⟩ := hvol v rfl
    exact ⟨hv, by show 1 ≤ v.mips; rw [show v.mips = hd.mipmapCount from hmips]; exact hm,
      by show v.mips < 256; rw [show v.mips = hd.mipmapCount from hmips]; exact hml,
      hr.d _ hdep, hdpos,
      Or.inl ⟨by show 0 < v.mips; rw [show v.mips = hd.mipmapCount from hmips]; omega,
        mipSize_pos _ _⟩⟩
  | textureArray a =>
    have hal := harr a rfl
    have hmod : a.arrayLen % U32 = a.arrayLen := Nat.mod_eq_of_lt hal
    show TexIter.Inv ⟨a.first, a.arrayLen % U32, 0, 0⟩
    rw [hmod]
    refine ⟨hv.wf, rfl, by show 1 ≤ a.mips; rw [show a.mips = hd.mipmapCount from hmips]; exact hm,
      by show a.mips < 256; rw [show a.mips = hd.mipmapCount from hmips]; exact hml,
      hal, hv.fits, hv.tex, hv.short, ?_⟩
    by_cases h0 : a.arrayLen = 0
    · exact Or.inr ⟨by show 0 = a.arrayLen; omega, rfl⟩
    · exact Or.inl ⟨by show 0 < a.arrayLen; omega,
        by show 0 < a.mips; rw [show a.mips = hd.mipmapCount from hmips]; omega⟩

end Dds.TrapMip
