/-
C15 / C11 (mipmap-generating encoder), part 3: the trapping mirror of `write_surface_impl` returns `some` of
`Enc.write` (C11's model) for every encoder state satisfying C11's invariant.
-/
import DdsModel.Proofs.TrapMipGen
import DdsModel.Theorems.C11
namespace Dds.TrapMip
open Dds Dds.Trap Dds.TrapEnc

/-- what `Encoder::new` establishes between the layout and its iterator (`SurfaceIterator::new(layout)`) and no
call changes: a texture iterator walks a non-volume layout with the layout's level count, a volume iterator a volume -/
def Linked (e : Enc) : Prop :=
  match e.iter with
  | .tex t => e.layout.isVolume = false ∧ e.layout.mips = t.first.mips
  | .vol _ => e.layout.isVolume = true

theorem pow25_succ_le' (l : Nat) : (2 / 5 : Rat) ^ (l + 1) ≤ (2 / 5 : Rat) ^ l := by
  rw [Rat.pow_succ]
  have : (0 : Rat) < (2 / 5 : Rat) ^ l := Rat.pow_pos (by grind)
  grind

theorem levelRangeT_ok (n level : Nat) (hl : level ≤ 255) : ∃ r, levelRangeT n level = some r := by
  unfold levelRangeT
  by_cases h : n = 0
  · rw [if_pos h]; exact ⟨_, rfl⟩
  · rw [if_neg h, ckI32_of_range (by omega), bind_some']
    have := pow25_succ_le' level
    have hle : (1 : Rat) - (2 / 5 : Rat) ^ level ≤ 1 - (2 / 5 : Rat) ^ (level + 1) := by grind
    dsimp only
    rw [dbgP_of hle, bind_some']
    exact ⟨_, rfl⟩

theorem levelCounterT_ok (n : Nat) : ∀ (m level : Nat), level + m ≤ 255 → levelCounterT n m level = some ()
  | 0, _, _ => rfl
  | m + 1, level, h => by
    unfold levelCounterT
    rw [ck_of_lt (by omega), bind_some']
    obtain ⟨r, hr⟩ := levelRangeT_ok n (level + 1) (by omega)
    rw [hr, bind_some']
    exact levelCounterT_ok n m (level + 1) (by omega)

/-- the image of a `write_surface` call as the public API can build it -/
structure ImgOK (im : Img) : Prop where
  view : VOK im.v im.c
  col : im.c.OK
  bytes : im.v.w * im.v.h * im.c.bpp ≤ BMAX

theorem normSizeE_view {v : View} {c : Color} (hv : VOK v c) : normSizeE v.w v.h = (v.w, v.h) := by
  unfold normSizeE
  by_cases he : v.w = 0 ∨ v.h = 0
  · obtain ⟨h1, h2, _, _⟩ := hv.inv.empty he
    rw [if_pos he, h1, h2]
  · rw [if_neg he]

theorem write_of_cur (e : Enc) (w h : Nat) (pre : Bool) {r : Option SurfInfo} {it : SurfIter}
    (hc : e.iter.currentP = some r) (hadv : e.iter.advanceP = some it) :
    e.write w h pre =
      match r with
      | none => (e, .tooManySurfaces)
      | some s =>
        if (s.w, s.h) ≠ normSizeE w h then (e, .unexpectedSurfaceSize)
        else if pre then (e, .cancelled)
        else if !e.sizeOk s.w s.h then (e, .invalidSize)
        else if e.toGen s > 0 then
          ({ e with iter := it, written := e.written + s.len } : Enc).genLoop 255
        else ({ e with iter := it, written := e.written + s.len }, .ok) := by
  unfold Enc.write
  simp only [hc]
  cases r with
  | none => rfl
  | some s => simp only [hadv]

theorem writeSurfaceT_ok {al : Alloc} (ha : AlOK al) (rayon : Bool) (e : Enc) (hI : C08.IterInv e.iter)
    (hL : Linked e) {k : Cache} (hk : CacheOK k) {im : Img} (him : ImgOK im) (pre : Bool) :
    ∃ k', writeSurfaceT al rayon e k im pre =
        some ((e.write im.v.w im.v.h pre).1, (e.write im.v.w im.v.h pre).2, k') ∧ CacheOK k' := by
  obtain ⟨it', hadv, _⟩ := C08.advance_refines e.iter hI
  have hadv0 := hadv
  have hns := normSizeE_view him.view
  unfold writeSurfaceT writeSurfaceWithT
  cases hit : e.iter with
  | vol t =>
    rw [hit] at hI hadv
    unfold Linked at hL
    rw [hit] at hL
    simp only at hL
    have hcur : (SurfIter.vol t).currentP = _ := VolIter.Inv.currentP hI
    rw [hcur, bind_some']
    by_cases hl : t.level < t.volume.mips
    · simp only [if_pos hl]
      have hcur1 : e.iter.currentP = some (some ⟨mipSize t.volume.w t.level, mipSize t.volume.h t.level, t.volume.sliceLen t.level, t.level⟩) := by
        rw [hit, hcur, if_pos hl]
      have hw := write_of_cur e im.v.w im.v.h pre hcur1 hadv0
      dsimp only at hw
      by_cases hsz : (mipSize t.volume.w t.level, mipSize t.volume.h t.level) ≠ normSizeE im.v.w im.v.h
      · rw [if_pos hsz, pure_some', hw]
        simp only [if_pos hsz]
        exact ⟨k, rfl, hk⟩
      · rw [if_neg hsz]
        have htg : toGenT e ⟨mipSize t.volume.w t.level, mipSize t.volume.h t.level,
            t.volume.sliceLen t.level, t.level⟩ = some 0 := by
          unfold toGenT; rw [hL]; simp
        have htg' : e.toGen ⟨mipSize t.volume.w t.level, mipSize t.volume.h t.level,
            t.volume.sliceLen t.level, t.level⟩ = 0 := by
          unfold Enc.toGen; rw [hL]; simp
        rw [htg, bind_some']
        obtain ⟨r, hr⟩ := levelRangeT_ok 0 0 (by omega)
        rw [hr, bind_some', hw]
        simp only [if_neg hsz]
        cases pre with
        | true => simp only [if_true]; exact ⟨k, rfl, hk⟩
        | false =>
          simp only [Bool.false_eq_true, if_false]
          by_cases hok : (!e.sizeOk (mipSize t.volume.w t.level) (mipSize t.volume.h t.level)) = true
          · simp only [if_pos hok]; exact ⟨k, rfl, hk⟩
          · simp only [if_neg hok]
            rw [hadv, bind_some']
            simp only [htg', Nat.lt_irrefl, if_false]
            rw [pure_some']
            exact ⟨k, rfl, hk⟩
    · simp only [if_neg hl]
      have hcur1 : e.iter.currentP = some none := by rw [hit, hcur, if_neg hl]
      have hw := write_of_cur e im.v.w im.v.h pre hcur1 hadv0
      dsimp only at hw
      rw [pure_some', hw]
      exact ⟨k, rfl, hk⟩
  | tex t =>
    rw [hit] at hI hadv
    unfold Linked at hL
    rw [hit] at hL
    simp only at hL
    have hI' : t.Inv := hI
    have hcur : (SurfIter.tex t).currentP = _ := TexIter.Inv.currentP hI'
    rw [hcur, bind_some']
    by_cases hl : t.idx < t.len
    · simp only [if_pos hl]
      have hlm : t.level < t.first.mips := by
        cases hI'.cursor with
        | inl h' => exact h'.2
        | inr h' => omega
      have hm := hI'.mips_lt
      have hcur1 : e.iter.currentP = some (some ⟨mipSize t.first.w t.level, mipSize t.first.h t.level,
          t.first.px.surfIdeal (mipSize t.first.w t.level) (mipSize t.first.h t.level), t.level⟩) := by
        rw [hit, hcur, if_pos hl]
      have hw := write_of_cur e im.v.w im.v.h pre hcur1 hadv0
      dsimp only at hw
      by_cases hsz : (mipSize t.first.w t.level, mipSize t.first.h t.level) ≠ normSizeE im.v.w im.v.h
      · rw [if_pos hsz, pure_some', hw]
        simp only [if_pos hsz]
        exact ⟨k, rfl, hk⟩
      · rw [if_neg hsz]
        have hsz' : (mipSize t.first.w t.level, mipSize t.first.h t.level) = (im.v.w, im.v.h) := by
          rw [← hns]; exact Classical.not_not.mp hsz
        have hvw : im.v.w = mipSize t.first.w t.level := (Prod.mk.inj hsz').1.symm
        have hvh : im.v.h = mipSize t.first.h t.level := (Prod.mk.inj hsz').2.symm
        obtain ⟨s, hs⟩ : ∃ s : SurfInfo, (⟨mipSize t.first.w t.level, mipSize t.first.h t.level,
          t.first.px.surfIdeal (mipSize t.first.w t.level) (mipSize t.first.h t.level), t.level⟩ : SurfInfo) = s :=
          ⟨_, rfl⟩
        simp only [hs] at hw ⊢
        have hsl : s.level = t.level := by rw [← hs]
        have hsw : s.w = mipSize t.first.w t.level := by rw [← hs]
        have hsh : s.h = mipSize t.first.h t.level := by rw [← hs]
        -- `mipmaps_to_generate`
        have htg : toGenT e s = some (e.toGen s) := by
          unfold toGenT Enc.toGen
          by_cases hg : (e.generate && !e.layout.isVolume) = true
          · rw [if_pos hg, if_pos hg, hsl, ck_of_lt (by omega), bind_some', pure_some',
              Nat.mod_eq_of_lt (by unfold U8; omega)]
          · rw [if_neg hg, if_neg hg, pure_some']
        rw [htg, bind_some']
        obtain ⟨r, hr⟩ := levelRangeT_ok (e.toGen s) 0 (by omega)
        rw [hr, bind_some', hw]
        simp only [if_neg hsz]
        cases pre with
        | true => simp only [if_true]; exact ⟨k, rfl, hk⟩
        | false =>
          simp only [Bool.false_eq_true, if_false]
          by_cases hok : (!e.sizeOk (mipSize t.first.w t.level) (mipSize t.first.h t.level)) = true
          · simp only [if_pos hok]; exact ⟨k, rfl, hk⟩
          · simp only [if_neg hok]
            rw [hadv, bind_some']
            by_cases hn : e.toGen s > 0
            · simp only [if_pos hn]
              rw [allocT_of_le (by omega), bind_some']
              -- the look-ahead gathers the levels after the current one: never empty here
              have hgen : (e.generate && !e.layout.isVolume) = true := by
                unfold Enc.toGen at hn
                by_cases hg : (e.generate && !e.layout.isVolume) = true
                · exact hg
                · rw [if_neg hg] at hn; omega
              have hn' : t.level + 1 < t.first.mips := by
                unfold Enc.toGen at hn
                rw [if_pos hgen, hsl, Nat.mod_eq_of_lt (by unfold U8; omega), hL.2] at hn
                omega
              have hadv' : it' = .tex t.advance := by
                have : (SurfIter.tex t).advanceP = some (.tex t.advance) := rfl
                rw [this] at hadv; exact (Option.some.inj hadv).symm
              have hmod : (t.level + 1) % U8 = t.level + 1 := Nat.mod_eq_of_lt (by unfold U8; omega)
              have hta : t.advance = { t with level := t.level + 1 } := by
                unfold TexIter.advance
                rw [if_pos hl]; simp only [hmod]; rw [if_pos hn']
              obtain ⟨vadv, _, _, _⟩ := hI'.advance
              have hg := Mip.gather_tex 255 t.advance vadv (by rw [hta]; exact hl) (by rw [hta]; show 1 ≤ t.level + 1; omega)
                (by rw [hta]; show t.first.mips ≤ 255 + (t.level + 1); omega)
              rw [hta] at hg
              simp only at hg
              rw [hadv', hta, hg, bind_some']
              have hcnt : t.first.mips - (t.level + 1) = (t.first.mips - (t.level + 2)) + 1 := by omega
              have hq : CallOK ⟨im.addr, im.v, im.c,
                  Mip.declared t.first.w t.first.h (t.level + 1) (t.first.mips - (t.level + 1)), im.f, im.sa⟩ := by
                refine ⟨him.view, him.col, ?_, ?_, him.bytes, ?_, ?_, declared_pos _ _ _ _⟩
                · show 1 ≤ im.v.w; rw [hvw]; exact mipSize_pos _ _
                · show 1 ≤ im.v.h; rw [hvh]; exact mipSize_pos _ _
                · show Mip.declared _ _ _ _ ≠ []
                  unfold Mip.declared
                  rw [hcnt, List.range'_succ]; simp
                · show Decr (im.v.w, im.v.h) _
                  rw [hvw, hvh]; exact declared_decr _ _ _ _
              obtain ⟨k', pl, g1, _, g3⟩ := generateT_ok ha rayon hk hq
              rw [g1, bind_some']
              simp only []
              have hlen : (Mip.declared t.first.w t.first.h (t.level + 1) (t.first.mips - (t.level + 1))).length ≤ 254 := by
                unfold Mip.declared
                rw [List.length_map, List.length_range']; omega
              rw [levelCounterT_ok _ _ 0 (by omega), bind_some', pure_some']
              exact ⟨k', rfl, g3⟩
            · simp only [if_neg hn]
              rw [pure_some']
              exact ⟨k, rfl, hk⟩
    · simp only [if_neg hl]
      have hcur1 : e.iter.currentP = some none := by rw [hit, hcur, if_neg hl]
      have hw := write_of_cur e im.v.w im.v.h pre hcur1 hadv0
      dsimp only at hw
      rw [pure_some', hw]
      exact ⟨k, rfl, hk⟩

end Dds.TrapMip
