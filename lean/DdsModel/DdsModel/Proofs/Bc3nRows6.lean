/-
BC3n `calc_b` = specification `z8`: rows `r = 192 … 223` (all 256 values of `g` each), by kernel evaluation
of the checker of `Proofs/Bc3nCalc.lean` (GENERATED: the eight files `Bc3nRows0…7` differ only in the range).
-/
import DdsModel.Proofs.Bc3nCalc
namespace Dds.Bc3n
set_option maxRecDepth 100000

theorem chunk192 : rowsChk 192 8 = true := by decide +kernel
theorem chunk200 : rowsChk 200 8 = true := by decide +kernel
theorem chunk208 : rowsChk 208 8 = true := by decide +kernel
theorem chunk216 : rowsChk 216 8 = true := by decide +kernel

theorem rows6 (r g : Nat) (h1 : 192 ≤ r) (h2 : r < 224) (hg : g < 256) : Bc.calcB r g = BcSpec.z8 r g := by
  by_cases a : r < 200
  · exact of_rows 192 8 chunk192 r g (by omega) (by omega) (by omega) hg
  · by_cases b : r < 208
    · exact of_rows 200 8 chunk200 r g (by omega) (by omega) (by omega) hg
    · by_cases c : r < 216
      · exact of_rows 208 8 chunk208 r g (by omega) (by omega) (by omega) hg
      · exact of_rows 216 8 chunk216 r g (by omega) (by omega) (by omega) hg

end Dds.Bc3n
