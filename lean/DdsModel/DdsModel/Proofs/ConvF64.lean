/-
C15, `s16::from_uf32`: facts about the software binary64 of `ConvF64.lean`.

* `roundPack_exact`: **no rounding happens** when the exact value `a·2^t·2^e` has a significand
  `a < 2^53` and lies in the normal range — the result is the pattern `pat E M` whose fields are
  read back by `pat_fields`;
* `roundPack_le`, `roundPack_le_pow`, `roundPack_le_val`: in every case rounding to nearest (ties to
  even, gradual underflow) never exceeds a representable value above the exact one
  (the binary64 copies of the lemmas of `SharedExpRound.lean`);
* flags of positive finite / negative non-NaN patterns, `toNatSat` of small and negative patterns.

Everything is about bit patterns (`Nat`).
-/
import DdsModel.ConvF64
import DdsModel.Proofs.SharedExpOps
namespace Dds.CF64
open Dds.CF32 (force forceI force_eq forceI_eq)
open Dds.EncTotal.SharedExp (rne rne_le log2_lt_pow log2_eq scale_aux)

/-! ### fields -/

theorem p52 : (2 : Nat) ^ 52 = 4503599627370496 := by decide
theorem p53 : (2 : Nat) ^ 53 = 9007199254740992 := by decide

theorem shr52 (b : Nat) : b >>> 52 = b / 4503599627370496 := Nat.shiftRight_eq_div_pow b 52

theorem expField_eq (b : Nat) : expField b = b / 4503599627370496 % 2048 := by
  unfold expField; rw [shr52]

theorem fracField_eq (b : Nat) : fracField b = b % 4503599627370496 := rfl

/-- a pattern below `+∞` is neither NaN nor infinite nor negative -/
theorem posfin_flags (p : Nat) (h : p < posInf) :
    isNaN p = false ∧ isInf p = false ∧ isNeg p = false := by
  have he : expField p ≠ 2047 := by rw [expField_eq]; simp only [posInf] at h; omega
  refine ⟨?_, ?_, ?_⟩
  · unfold isNaN; simp [he]
  · unfold isInf; simp [he]
  · unfold isNeg signBit; simp only [posInf] at h; simp; omega

theorem mant_lt (p : Nat) : mant p < 2 ^ 53 := by
  unfold mant
  have : fracField p < 4503599627370496 := by rw [fracField_eq]; omega
  rw [p53]
  split <;> omega

theorem mant_normal (p : Nat) (h : 1 ≤ expField p) :
    mant p = fracField p + 4503599627370496 ∧ expo p = (expField p : Int) - 1075 := by
  have h0 : (expField p == 0) = false := by simp; omega
  unfold mant expo
  simp [h0]

theorem mant_subnormal (p : Nat) (h : expField p = 0) :
    mant p = fracField p ∧ expo p = -1074 := by
  unfold mant expo
  simp [h]

/-- the pattern with biased exponent `E + 1023` and significand (hidden bit included) `M`:
the value `M · 2^(E − 52)` -/
def pat (E : Int) (M : Nat) : Nat := (E + 1022).toNat * 2 ^ 52 + M

theorem pat_fields (E : Int) (M : Nat) (hE1 : -1022 ≤ E) (hE2 : E ≤ 1023) (hM1 : 2 ^ 52 ≤ M)
    (hM2 : M < 2 ^ 53) :
    pat E M < posInf ∧ mant (pat E M) = M ∧ expo (pat E M) = E - 52 := by
  unfold pat
  generalize hk : (E + 1022).toNat = k
  have hk2 : k ≤ 2045 := by omega
  have hkE : (k : Int) = E + 1022 := by omega
  rw [p52] at hM1 ⊢; rw [p53] at hM2
  have hkl : k * 4503599627370496 ≤ 2045 * 4503599627370496 := Nat.mul_le_mul_right _ hk2
  have hlt : k * 4503599627370496 + M < posInf := by simp only [posInf]; omega
  have hEf : expField (k * 4503599627370496 + M) = k + 1 := by
    rw [expField_eq]
    have : (k * 4503599627370496 + M) / 4503599627370496 = k + 1 := by
      rw [Nat.div_eq_iff (by decide)]; omega
    rw [this]; omega
  have hFf : fracField (k * 4503599627370496 + M) = M - 4503599627370496 := by
    rw [fracField_eq]
    have : k * 4503599627370496 + M = (M - 4503599627370496) + 4503599627370496 * (k + 1) := by
      omega
    rw [this, Nat.add_mul_mod_self_left]
    exact Nat.mod_eq_of_lt (by omega)
  obtain ⟨m1, m2⟩ := mant_normal _ (show 1 ≤ expField (k * 4503599627370496 + M) by omega)
  refine ⟨hlt, ?_, ?_⟩
  · rw [m1, hFf]; omega
  · rw [m2, hEf]; omega

/-! ### `roundPack` -/

theorem roundPack_zero (sign : Bool) (e : Int) :
    roundPack sign 0 e = if sign then signBit else 0 := by
  simp [roundPack, force_eq, forceI_eq]

/-- `roundPack` for a positive value without the call-by-value wrappers -/
theorem roundPack_pos (m : Nat) (e : Int) (hm : m ≠ 0) :
    roundPack false m e =
      (let E := (Nat.log2 m : Int) + e
       let q := if E ≥ -1022 then E - 52 else -1074
       let sh := q - e
       let mant' := if sh ≤ 0 then m <<< (-sh).toNat else rne m sh.toNat
       let bits := if E ≥ -1022 then ((E + 1022).toNat <<< 52) + mant' else mant'
       if bits ≥ posInf then posInf else bits) := by
  unfold roundPack
  simp only [force_eq, forceI_eq]
  have : (m == 0) = false := by simpa using hm
  simp only [this, rne]
  simp

/-- the sign is attached to the rounded magnitude -/
theorem roundPack_split (sign : Bool) (m : Nat) (e : Int) :
    roundPack sign m e = (if sign then signBit else 0) + roundPack false m e := by
  cases sign
  · simp
  · unfold roundPack
    simp only [force_eq, forceI_eq]
    by_cases hm : (m == 0) = true
    · simp [hm]
    · simp only [hm, Bool.false_eq_true, if_false, if_true, Nat.zero_add]
      exact (apply_ite (fun t => signBit + t) _ _ _).symm

theorem sat_le (bits : Nat) : (if bits ≥ posInf then posInf else bits) ≤ posInf := by
  split <;> omega

theorem roundPack_le_posInf (m : Nat) (e : Int) : roundPack false m e ≤ posInf := by
  by_cases hm : m = 0
  · subst hm; rw [roundPack_zero]; decide
  · rw [roundPack_pos m e hm]
    dsimp only
    exact sat_le _

theorem log2_mul_pow (a t : Nat) (ha : a ≠ 0) : Nat.log2 (a * 2 ^ t) = Nat.log2 a + t := by
  apply log2_eq
  · rw [Nat.pow_add]; exact Nat.mul_le_mul_right _ (Nat.log2_self_le ha)
  · rw [show Nat.log2 a + t + 1 = (Nat.log2 a + 1) + t by omega, Nat.pow_add]
    exact Nat.mul_lt_mul_of_pos_right (log2_lt_pow a) (Nat.two_pow_pos t)

/-- rounding a multiple of `2^k` to units of `2^k` changes nothing -/
theorem rne_exact (a k : Nat) : rne (a * 2 ^ k) k = a := by
  unfold rne
  rw [Nat.shiftRight_eq_div_pow, Nat.mul_div_cancel _ (Nat.two_pow_pos k), Nat.mul_mod_left]
  have h2 : 0 ≠ 2 ^ (k - 1) := by have := Nat.two_pow_pos (k - 1); omega
  simp [h2]

/-- **exactness.**  A value `a·2^t·2^e` whose significand `a` has at most 53 bits and whose binade
`E = ⌊log2 a⌋ + t + e` is in the normal range is represented exactly: the result is the pattern
with exponent `E` and the significand `a` shifted to 53 bits; nothing is rounded off. -/
theorem roundPack_exact (a t : Nat) (e : Int) (ha : a ≠ 0) (ha53 : a < 2 ^ 53)
    (hlo : -1022 ≤ (Nat.log2 a : Int) + t + e) (hhi : (Nat.log2 a : Int) + t + e ≤ 1023) :
    roundPack false (a * 2 ^ t) e =
      pat ((Nat.log2 a : Int) + t + e) (a * 2 ^ (52 - Nat.log2 a)) ∧
    2 ^ 52 ≤ a * 2 ^ (52 - Nat.log2 a) ∧ a * 2 ^ (52 - Nat.log2 a) < 2 ^ 53 := by
  have hL : Nat.log2 a ≤ 52 := by
    have := (Nat.log2_lt ha).mpr ha53
    omega
  have hM1 : 2 ^ 52 ≤ a * 2 ^ (52 - Nat.log2 a) := by
    have h1 : 2 ^ Nat.log2 a * 2 ^ (52 - Nat.log2 a) ≤ a * 2 ^ (52 - Nat.log2 a) :=
      Nat.mul_le_mul_right _ (Nat.log2_self_le ha)
    rw [← Nat.pow_add, show Nat.log2 a + (52 - Nat.log2 a) = 52 by omega] at h1
    exact h1
  have hM2 : a * 2 ^ (52 - Nat.log2 a) < 2 ^ 53 := by
    have h1 : a * 2 ^ (52 - Nat.log2 a) < 2 ^ (Nat.log2 a + 1) * 2 ^ (52 - Nat.log2 a) :=
      Nat.mul_lt_mul_of_pos_right (log2_lt_pow a) (Nat.two_pow_pos _)
    rw [← Nat.pow_add, show Nat.log2 a + 1 + (52 - Nat.log2 a) = 53 by omega] at h1
    exact h1
  refine ⟨?_, hM1, hM2⟩
  have hm : a * 2 ^ t ≠ 0 := by
    have : 0 < a * 2 ^ t := Nat.mul_pos (by omega) (Nat.two_pow_pos t)
    omega
  rw [roundPack_pos _ e hm, log2_mul_pow a t ha]
  have hEe : ((Nat.log2 a + t : Nat) : Int) + e = (Nat.log2 a : Int) + t + e := by omega
  rw [hEe]
  generalize hE : (Nat.log2 a : Int) + t + e = E at *
  have c1 : E ≥ -1022 := hlo
  simp only [c1, if_true]
  have hsh : E - 52 - e = (Nat.log2 a : Int) + t - 52 := by omega
  rw [hsh]
  have hmant : (if (Nat.log2 a : Int) + t - 52 ≤ 0
      then (a * 2 ^ t) <<< (-((Nat.log2 a : Int) + t - 52)).toNat
      else rne (a * 2 ^ t) ((Nat.log2 a : Int) + t - 52).toNat) = a * 2 ^ (52 - Nat.log2 a) := by
    by_cases hl : (Nat.log2 a : Int) + t - 52 ≤ 0
    · rw [if_pos hl, Nat.shiftLeft_eq, Nat.mul_assoc, ← Nat.pow_add]
      congr 2; omega
    · rw [if_neg hl]
      generalize hk : ((Nat.log2 a : Int) + t - 52).toNat = k
      have ht : t = (52 - Nat.log2 a) + k := by omega
      rw [ht, Nat.pow_add, ← Nat.mul_assoc]
      exact rne_exact _ _
  rw [hmant, Nat.shiftLeft_eq]
  unfold pat
  generalize hk : (E + 1022).toNat = k
  have hk2 : k ≤ 2045 := by omega
  have hkl : k * 2 ^ 52 ≤ 2045 * 2 ^ 52 := Nat.mul_le_mul_right _ hk2
  rw [if_neg]
  have : 2045 * 2 ^ 52 + 2 ^ 53 = posInf := by decide
  omega

/-- **normal range.**  If the exact value `m·2^e` lies in the binade `E ≥ -1022` and, in units of
that binade's last place, is at most the integer `N`, the rounded pattern is at most `pat E N`. -/
theorem roundPack_le (m : Nat) (e : Int) (hm : m ≠ 0) (N : Nat) (E : Int)
    (hE : E = (Nat.log2 m : Int) + e) (hE1022 : -1022 ≤ E)
    (h : m * 2 ^ (52 - Nat.log2 m) ≤ N * 2 ^ (Nat.log2 m - 52)) :
    roundPack false m e ≤ pat E N := by
  rw [roundPack_pos m e hm]
  simp only [← hE]
  have c1 : E ≥ -1022 := hE1022
  simp only [c1, if_true]
  have hsh : E - 52 - e = (Nat.log2 m : Int) - 52 := by omega
  rw [hsh]
  have hm' : (if (Nat.log2 m : Int) - 52 ≤ 0 then m <<< (-((Nat.log2 m : Int) - 52)).toNat
      else rne m ((Nat.log2 m : Int) - 52).toNat) ≤ N := by
    by_cases hl : (Nat.log2 m : Int) - 52 ≤ 0
    · rw [if_pos hl]
      have e1 : (-((Nat.log2 m : Int) - 52)).toNat = 52 - Nat.log2 m := by omega
      have e2 : Nat.log2 m - 52 = 0 := by omega
      rw [e1, Nat.shiftLeft_eq]
      rw [e2] at h
      simpa using h
    · rw [if_neg hl]
      have e1 : ((Nat.log2 m : Int) - 52).toNat = Nat.log2 m - 52 := by omega
      have e2 : 52 - Nat.log2 m = 0 := by omega
      rw [e1]
      rw [e2] at h
      exact rne_le m _ N (by simpa using h)
  rw [Nat.shiftLeft_eq]
  unfold pat
  generalize (if (Nat.log2 m : Int) - 52 ≤ 0 then m <<< (-((Nat.log2 m : Int) - 52)).toNat
      else rne m ((Nat.log2 m : Int) - 52).toNat) = mant' at *
  generalize (E + 1022).toNat * 2 ^ 52 = K
  split <;> omega

/-- the significand of a positive number is below `2^53` in the last place of its own binade -/
theorem sig_lt (m : Nat) : m * 2 ^ (52 - Nat.log2 m) ≤ 2 ^ 53 * 2 ^ (Nat.log2 m - 52) := by
  have h := log2_lt_pow m
  by_cases hl : Nat.log2 m ≤ 52
  · have e2 : Nat.log2 m - 52 = 0 := by omega
    rw [e2, Nat.pow_zero, Nat.mul_one]
    have : 2 ^ 53 = 2 ^ (Nat.log2 m + 1) * 2 ^ (52 - Nat.log2 m) := by
      rw [← Nat.pow_add]; congr 1; omega
    rw [this]
    exact Nat.mul_le_mul_right _ (Nat.le_of_lt h)
  · have e2 : 52 - Nat.log2 m = 0 := by omega
    rw [e2, Nat.pow_zero, Nat.mul_one, ← Nat.pow_add]
    have : 53 + (Nat.log2 m - 52) = Nat.log2 m + 1 := by omega
    rw [this]
    exact Nat.le_of_lt h

/-- **any range, power-of-two bound.**  A positive value below `2^(K+1)` is rounded to at most
the pattern of `2^(K+1)`; underflow (gradual, or to zero) included. -/
theorem roundPack_le_pow (m : Nat) (e : Int) (hm : m ≠ 0) (K : Int)
    (hE : (Nat.log2 m : Int) + e ≤ K) (hK : -1023 ≤ K) :
    roundPack false m e ≤ (K + 1024).toNat * 2 ^ 52 := by
  by_cases hn : -1022 ≤ (Nat.log2 m : Int) + e
  · have := roundPack_le m e hm (2 ^ 53) _ rfl hn (sig_lt m)
    unfold pat at this
    have h1 : ((Nat.log2 m : Int) + e + 1022).toNat + 2 ≤ (K + 1024).toNat := by omega
    exact scale_aux _ _ _ _ (by rw [show 2 * 2 ^ 52 = 2 ^ 53 from rfl]; exact this) h1
  · -- below the normal range: the result is the rounded number of units of 2^-1074
    rw [roundPack_pos m e hm]
    have c1 : ¬ ((Nat.log2 m : Int) + e ≥ -1022) := hn
    simp only [c1, if_false]
    have hlt := log2_lt_pow m
    have hm' : (if -1074 - e ≤ 0 then m <<< (-(-1074 - e)).toNat else rne m (-1074 - e).toNat)
        ≤ 2 ^ 52 := by
      by_cases hl : -1074 - e ≤ 0
      · rw [if_pos hl, Nat.shiftLeft_eq]
        have h1 : m * 2 ^ (-(-1074 - e)).toNat ≤
            2 ^ (Nat.log2 m + 1) * 2 ^ (-(-1074 - e)).toNat :=
          Nat.mul_le_mul_right _ (Nat.le_of_lt hlt)
        rw [← Nat.pow_add] at h1
        exact Nat.le_trans h1 (Nat.pow_le_pow_right (by omega) (by omega))
      · rw [if_neg hl]
        apply rne_le
        rw [← Nat.pow_add]
        exact Nat.le_trans (Nat.le_of_lt hlt) (Nat.pow_le_pow_right (by omega) (by omega))
    generalize (if -1074 - e ≤ 0 then m <<< (-(-1074 - e)).toNat else rne m (-1074 - e).toNat)
      = mant' at *
    have h1 : 1 ≤ (K + 1024).toNat := by omega
    have h2 : 2 ^ 52 ≤ (K + 1024).toNat * 2 ^ 52 := Nat.le_mul_of_pos_left _ h1
    have h3 : (if mant' ≥ posInf then posInf else mant') ≤ mant' := by split <;> omega
    exact Nat.le_trans h3 (Nat.le_trans hm' h2)

/-- **monotone against a representable bound.**  `pat Eb N` with `2^52 ≤ N < 2^53` is the pattern
of `N·2^(Eb−52)`; an exact value `m·2^e` that is at most this value (the hypothesis is the
inequality cleared of negative exponents) is rounded to at most this pattern. -/
theorem roundPack_le_val (m : Nat) (e : Int) (hm : m ≠ 0) (Eb : Int) (N : Nat) (hEb : -1022 ≤ Eb)
    (hN1 : 2 ^ 52 ≤ N) (hN2 : N < 2 ^ 53)
    (h : m * 2 ^ (e + 52 - Eb).toNat ≤ N * 2 ^ (Eb - 52 - e).toNat) :
    roundPack false m e ≤ pat Eb N := by
  have hge := Nat.log2_self_le hm
  -- the binade of the exact value is at most `Eb`
  have hEle : (Nat.log2 m : Int) + e ≤ Eb := by
    apply Classical.byContradiction
    intro hc
    have h1 : 2 ^ (Nat.log2 m + (e + 52 - Eb).toNat) ≤ m * 2 ^ (e + 52 - Eb).toNat := by
      rw [Nat.pow_add]; exact Nat.mul_le_mul_right _ hge
    have h2 : N * 2 ^ (Eb - 52 - e).toNat < 2 ^ (53 + (Eb - 52 - e).toNat) := by
      rw [Nat.pow_add]; exact Nat.mul_lt_mul_of_pos_right hN2 (Nat.two_pow_pos _)
    have h3 : 2 ^ (53 + (Eb - 52 - e).toNat) ≤ 2 ^ (Nat.log2 m + (e + 52 - Eb).toNat) :=
      Nat.pow_le_pow_right (by omega) (by omega)
    omega
  by_cases heq : (Nat.log2 m : Int) + e = Eb
  · have e1 : (e + 52 - Eb).toNat = 52 - Nat.log2 m := by omega
    have e2 : (Eb - 52 - e).toNat = Nat.log2 m - 52 := by omega
    rw [e1, e2] at h
    exact roundPack_le m e hm N Eb heq.symm hEb h
  · have := roundPack_le_pow m e hm (Eb - 1) (by omega) (by omega)
    have h1 : (Eb - 1 + 1024).toNat = (Eb + 1022).toNat + 1 := by omega
    rw [h1] at this
    unfold pat
    generalize (Eb + 1022).toNat = a at *
    rw [Nat.add_mul, Nat.one_mul] at this
    generalize a * 2 ^ 52 = A at *
    omega

/-! ### signs -/

/-- a negative non-NaN pattern: `-0.0` … `-∞` -/
def NegR (p : Nat) : Prop := signBit ≤ p ∧ p ≤ signBit + posInf

theorem isNaN_iff (x : Nat) :
    isNaN x = true ↔ (x / 4503599627370496 % 2048 = 2047 ∧ x % 4503599627370496 ≠ 0) := by
  unfold isNaN; rw [expField_eq, fracField_eq]; simp

theorem negR_flags (p : Nat) (h : NegR p) : isNaN p = false ∧ isNeg p = true := by
  obtain ⟨h1, h2⟩ := h
  constructor
  · apply Bool.eq_false_iff.mpr
    rw [Ne, isNaN_iff]
    simp only [signBit, posInf] at h1 h2
    omega
  · unfold isNeg; simpa using h1

theorem toNatSat_neg (p M : Nat) (h : NegR p) : toNatSat p M = 0 := by
  obtain ⟨a1, a2⟩ := negR_flags p h
  unfold toNatSat
  simp [force_eq, a1, a2]

theorem roundPack_true_negR (m : Nat) (e : Int) : NegR (roundPack true m e) := by
  rw [roundPack_split]
  have := roundPack_le_posInf m e
  unfold NegR
  simp only [if_true]
  omega

/-! ### the constants `65534.0` and `0.5` -/

theorem k65534_facts : k65534 < posInf ∧ mant k65534 = 65534 * 2 ^ 37 ∧ expo k65534 = -37 ∧
    isZero k65534 = false := by decide

theorem half_facts : isNaN half = false ∧ isInf half = false ∧ isNeg half = false ∧
    mant half = 2 ^ 52 ∧ expo half = -53 := by decide

/-! ### the product -/

theorem fmul_pos (x kp : Nat) (hx : x < posInf) (hk : kp < posInf) :
    fmul x kp = roundPack false (mant x * mant kp) (expo x + expo kp) := by
  obtain ⟨a1, a2, a3⟩ := posfin_flags x hx
  obtain ⟨b1, b2, b3⟩ := posfin_flags kp hk
  unfold fmul
  simp only [force_eq, a1, a2, a3, b1, b2, b3]
  simp

/-- a negative (or `-0.0`, `-∞`) operand times a positive finite non-zero constant is negative
(or `-0.0`, `-∞`), never NaN -/
theorem fmul_neg (x kp : Nat) (hx : NegR x) (hk : kp < posInf) (hk0 : isZero kp = false) :
    NegR (fmul x kp) := by
  obtain ⟨a1, a2⟩ := negR_flags x hx
  obtain ⟨b1, b2, b3⟩ := posfin_flags kp hk
  unfold fmul
  simp only [force_eq, a1, a2, b1, b2, b3, hk0, Bool.or_false, Bool.false_eq_true, if_false,
    bne_iff_ne, ne_eq, Bool.true_eq_false, not_false_eq_true, if_true]
  by_cases hi : isInf x = true
  · have hz : isZero x = false := by
      unfold isInf at hi
      unfold isZero
      simp only [Bool.and_eq_true, beq_iff_eq] at hi
      rw [expField_eq] at hi
      simp only [signBit, beq_eq_false_iff_ne, ne_eq]
      omega
    simp only [hi, hz, if_true, Bool.false_eq_true, if_false]
    exact ⟨by decide, by decide⟩
  · simp only [hi, Bool.false_eq_true, if_false]
    exact roundPack_true_negR _ _

/-! ### `p + 0.5` -/

/-- `p + 0.5` for a non-negative finite `p`: the operands are aligned at the smaller exponent,
added exactly, and the sum is rounded once -/
theorem fadd_half (p : Nat) (hp : p < posInf) :
    fadd p half = roundPack false
      (mant p <<< (expo p - min (expo p) (-53)).toNat +
        2 ^ 52 <<< (-53 - min (expo p) (-53)).toNat) (min (expo p) (-53)) := by
  obtain ⟨a1, a2, a3⟩ := posfin_flags p hp
  obtain ⟨b1, b2, b3, b4, b5⟩ := half_facts
  unfold fadd
  simp only [force_eq, forceI_eq, a1, a2, a3, b1, b2, b3, b4, b5]
  have hB : 0 < 2 ^ 52 <<< (-53 - min (expo p) (-53)).toNat := by
    rw [Nat.shiftLeft_eq]; exact Nat.mul_pos (Nat.two_pow_pos _) (Nat.two_pow_pos _)
  generalize 2 ^ 52 <<< (-53 - min (expo p) (-53)).toNat = B at *
  generalize mant p <<< (expo p - min (expo p) (-53)).toNat = A at *
  have h0 : (((A : Int) + (B : Int)) == 0) = false := by simp; omega
  have h1 : decide (((A : Int) + (B : Int)) < 0) = false := by simp; omega
  have h2 : ((A : Int) + (B : Int)).natAbs = A + B := by omega
  simp [h0, h1, h2]

/-- a non-positive, non-NaN `p` plus 0.5 is negative, a zero, or at most 0.5 -/
theorem fadd_neg_half (p : Nat) (hp : NegR p) : NegR (fadd p half) ∨ fadd p half ≤ half := by
  obtain ⟨a1, a2⟩ := negR_flags p hp
  obtain ⟨b1, b2, b3, b4, b5⟩ := half_facts
  unfold fadd
  simp only [force_eq, forceI_eq, a1, a2, b1, b2, b3, b4, b5, Bool.false_eq_true, if_false,
    Bool.or_false, Bool.false_and, Bool.and_false, if_true]
  by_cases hi : isInf p = true
  · simp only [hi, if_true]; left; exact hp
  simp only [hi, Bool.false_eq_true, if_false]
  generalize he : min (expo p) (-53) = e
  have hele : e ≤ -53 := by omega
  have hB : 2 ^ 52 <<< (-53 - e).toNat = 2 ^ 52 * 2 ^ (-53 - e).toNat := Nat.shiftLeft_eq _ _
  generalize hA : mant p <<< (expo p - e).toNat = A
  generalize hBd : 2 ^ 52 <<< (-53 - e).toNat = B at *
  by_cases h0 : (-(A : Int) + (B : Int) == 0) = true
  · simp only [h0, if_true]; right; exact Nat.zero_le _
  simp only [h0, Bool.false_eq_true, if_false]
  have hne : -(A : Int) + (B : Int) ≠ 0 := by simpa using h0
  by_cases hneg : -(A : Int) + (B : Int) < 0
  · left
    simp only [hneg, decide_true]
    exact roundPack_true_negR _ _
  · right
    simp only [hneg, decide_false]
    have hm : (-(A : Int) + (B : Int)).natAbs ≠ 0 := by omega
    have hle : (-(A : Int) + (B : Int)).natAbs ≤ B := by omega
    have := roundPack_le_val _ e hm (-1) (2 ^ 52) (by omega) (Nat.le_refl _) (by decide) (by
      have e1 : (e + 52 - -1).toNat = 0 := by omega
      have e2 : ((-1 : Int) - 52 - e).toNat = (-53 - e).toNat := by omega
      rw [e1, e2, Nat.pow_zero, Nat.mul_one, ← hB]
      exact hle)
    have e3 : pat (-1) (2 ^ 52) = half := by decide
    rw [e3] at this
    exact this

/-! ### the cast -/

/-- a non-negative pattern below `1.0` is cast to 0 -/
theorem toNatSat_lt_one (x M : Nat) (h : x < one) : toNatSat x M = 0 := by
  have hx : x < posInf := Nat.lt_trans h (by decide)
  obtain ⟨a1, a2, a3⟩ := posfin_flags x hx
  have hml := mant_lt x
  have hexp : expo x ≤ -53 := by
    have hXle : expField x ≤ 1022 := by
      rw [expField_eq]; simp only [one] at h; omega
    by_cases hX : 1 ≤ expField x
    · rw [(mant_normal x hX).2]; omega
    · rw [(mant_subnormal x (by omega)).2]; omega
  unfold toNatSat
  simp only [force_eq, a1, a2, a3, Bool.false_eq_true, if_false]
  have hneg : ¬ (expo x ≥ 0) := by omega
  simp only [hneg, if_false]
  have hv : mant x >>> (-expo x).toNat = 0 := by
    rw [Nat.shiftRight_eq_div_pow]
    apply Nat.div_eq_of_lt
    exact Nat.lt_of_lt_of_le hml (Nat.pow_le_pow_right (by omega) (by omega))
  rw [hv]
  split <;> omega

/-- the cast of a normal pattern below `2^52` is the integer part of its value -/
theorem toNatSat_pat (E : Int) (M max : Nat) (hE1 : -1022 ≤ E) (hE2 : E < 52) (hM1 : 2 ^ 52 ≤ M)
    (hM2 : M < 2 ^ 53) (hmax : M / 2 ^ (52 - E).toNat ≤ max) :
    toNatSat (pat E M) max = M / 2 ^ (52 - E).toNat := by
  obtain ⟨f1, f2, f3⟩ := pat_fields E M hE1 (by omega) hM1 hM2
  obtain ⟨a1, a2, a3⟩ := posfin_flags _ f1
  unfold toNatSat
  simp only [force_eq, a1, a2, a3, Bool.false_eq_true, if_false, f2, f3]
  have hneg : ¬ (E - 52 ≥ 0) := by omega
  simp only [hneg, if_false]
  have e1 : (-(E - 52)).toNat = (52 - E).toNat := by omega
  rw [e1, Nat.shiftRight_eq_div_pow]
  rw [if_neg (by omega)]

end Dds.CF64
