/- Helper lemmas for C12 (core only). Property theorems are in `Theorems/C12.lean`. -/
import DdsModel.Quant
namespace Dds.Quant

/-! ### finite ranges by binary splitting (kernel recursion depth stays logarithmic) -/

def allRange (p : Nat → Bool) : Nat → Nat → Nat → Bool
  | 0, lo, n => (List.range' lo n).all p
  | d + 1, lo, n => allRange p d lo (n / 2) && allRange p d (lo + n / 2) (n - n / 2)

theorem allRange_sound (p : Nat → Bool) : ∀ d lo n, allRange p d lo n = true →
    ∀ x, lo ≤ x → x < lo + n → p x = true := by
  intro d
  induction d with
  | zero =>
    intro lo n h x h1 h2
    simp only [allRange, List.all_eq_true] at h
    exact h x (by rw [List.mem_range'_1]; omega)
  | succ d ih =>
    intro lo n h x h1 h2
    simp only [allRange, Bool.and_eq_true] at h
    by_cases hx : x < lo + n / 2
    · exact ih lo (n / 2) h.1 x h1 hx
    · exact ih (lo + n / 2) (n - n / 2) h.2 x (by omega) (by omega)

/-! ### floor of a ratio of naturals -/

theorem floor_eq_of_nat {y : Rat} {k : Nat} (h1 : (k : Rat) ≤ y) (h2 : y < (k : Rat) + 1) :
    y.floor = (k : Int) := by
  have a : (k : Int) ≤ y.floor := Rat.le_floor_iff.mpr (by rw [Rat.intCast_natCast]; exact h1)
  have b : y.floor < (k : Int) + 1 :=
    Rat.floor_lt_iff.mpr (by rw [Rat.intCast_add, Rat.intCast_natCast]; exact h2)
  omega

theorem le_div_of_mul_le {a b c : Rat} (hc : 0 < c) (h : a * c ≤ b) : a ≤ b / c :=
  Rat.not_lt.mp (fun h' => absurd ((Rat.div_lt_iff hc).mp h') (Rat.not_lt.mpr h))

theorem floor_div_nat (n d : Nat) (hd : 0 < d) :
    ((n : Rat) / (d : Rat)).floor = ((n / d : Nat) : Int) := by
  have hdr : (0 : Rat) < (d : Rat) := Rat.natCast_pos.mpr hd
  apply floor_eq_of_nat
  · have h : (n / d) * d ≤ n := Nat.div_mul_le_self n d
    have h' : (((n / d) * d : Nat) : Rat) ≤ (n : Rat) := Rat.natCast_le_natCast.mpr h
    rw [Rat.natCast_mul] at h'
    exact le_div_of_mul_le hdr h'
  · have h : n < (n / d + 1) * d := by
      have := Nat.lt_div_mul_add (a := n) hd
      rw [Nat.add_mul]; omega
    have h' : (n : Rat) < (((n / d + 1) * d : Nat) : Rat) := Rat.natCast_lt_natCast.mpr h
    rw [Rat.natCast_mul, Rat.natCast_add] at h'
    rw [Rat.div_lt_iff hdr]
    simpa using h'

/-! ### the quantiser on ratios is integer arithmetic -/

theorem clamp01_of_mem {x : Rat} (h0 : 0 ≤ x) (h1 : x ≤ 1) : clamp01 x = x := by
  unfold clamp01
  rw [if_neg (Rat.not_lt.mpr h0), if_neg (Rat.not_lt.mpr h1)]

theorem clamp01_mem (x : Rat) : 0 ≤ clamp01 x ∧ clamp01 x ≤ 1 := by
  unfold clamp01
  by_cases h : x < 0
  · rw [if_pos h]; exact ⟨Rat.le_refl, by decide⟩
  · rw [if_neg h]
    by_cases h' : 1 < x
    · rw [if_pos h']; exact ⟨by decide, Rat.le_refl⟩
    · rw [if_neg h']; exact ⟨Rat.not_lt.mp h, Rat.not_lt.mp h'⟩

theorem ratio_mem {a b : Nat} (hb : 0 < b) (hab : a ≤ b) :
    0 ≤ (a : Rat) / (b : Rat) ∧ (a : Rat) / (b : Rat) ≤ 1 := by
  have hbr : (0 : Rat) < (b : Rat) := Rat.natCast_pos.mpr hb
  have har : (0 : Rat) ≤ (a : Rat) := Rat.natCast_nonneg
  have habr : (a : Rat) ≤ (b : Rat) := Rat.natCast_le_natCast.mpr hab
  constructor
  · exact le_div_of_mul_le hbr (by simpa using har)
  · apply Rat.not_lt.mp
    intro h
    have := (Rat.lt_div_iff hbr).mp h
    grind

/-- `qL L (a/b)` is `⌊(2aL + b) / 2b⌋` -/
theorem qL_ratio (L a b : Nat) (hb : 0 < b) (hab : a ≤ b) :
    qL L ((a : Rat) / (b : Rat)) = qRatio L a b := by
  have hbr : (b : Rat) ≠ 0 := by
    intro h; have := Rat.natCast_eq_zero_iff.mp h; omega
  obtain ⟨h0, h1⟩ := ratio_mem hb hab
  unfold qL roundHalfUp qRatio
  rw [clamp01_of_mem h0 h1]
  have e : (a : Rat) / (b : Rat) * (L : Rat) + 1 / 2 = ((2 * a * L + b : Nat) : Rat) / ((2 * b : Nat) : Rat) := by
    simp only [Rat.natCast_add, Rat.natCast_mul]
    have : ((2 : Nat) : Rat) = 2 := rfl
    rw [this]
    grind
  rw [e, floor_div_nat _ _ (by omega)]
  rfl

/-! ### round trip -/

theorem div_eq_of_bounds {m n k : Nat} (lo : k * n ≤ m) (hi : m < k * n + n) : m / n = k := by
  have hn : 0 < n := by
    rcases Nat.eq_zero_or_pos n with h | h
    · subst h; omega
    · exact h
  apply Nat.div_eq_of_lt_le lo
  rw [Nat.add_mul]; omega

theorem qRatio_le (N L v : Nat) (hN : 0 < N) (hv : v ≤ N) : qRatio L v N ≤ L := by
  unfold qRatio
  apply Nat.le_of_lt_succ
  apply Nat.div_lt_of_lt_mul
  -- 2 v L + N < 2 N (L+1)
  have h : v * L ≤ N * L := Nat.mul_le_mul_right L hv
  have e1 : 2 * v * L = 2 * (v * L) := Nat.mul_assoc 2 v L
  have e2 : 2 * N * (L + 1) = 2 * (N * L) + 2 * N := by
    rw [Nat.mul_add, Nat.mul_one, Nat.mul_assoc]
  rw [e1, e2]; omega

theorem qRatio_roundtrip (N L v : Nat) (hN : 0 < N) (hNL : N ≤ L) (hv : v ≤ N) :
    qRatio N (qRatio L v N) L = v := by
  have hL : 0 < L := by omega
  unfold qRatio
  generalize hu : (2 * v * L + N) / (2 * N) = u
  have h1 : u * (2 * N) ≤ 2 * v * L + N := by rw [← hu]; exact Nat.div_mul_le_self _ _
  have h2 : 2 * v * L + N < u * (2 * N) + 2 * N := by
    rw [← hu]; exact Nat.lt_div_mul_add (by omega)
  have e1 : 2 * v * L = 2 * (v * L) := Nat.mul_assoc 2 v L
  have e2 : u * (2 * N) = 2 * (u * N) := by rw [Nat.mul_left_comm]
  have e3 : 2 * u * N = 2 * (u * N) := Nat.mul_assoc 2 u N
  have e4 : v * (2 * L) = 2 * (v * L) := by rw [Nat.mul_left_comm]
  rw [e1, e2] at h1 h2
  apply div_eq_of_bounds
  · rw [e3, e4]
    omega
  · rw [e3, e4]
    by_cases hNL' : N < L
    · omega
    · have hEq : N = L := by omega
      subst hEq
      -- 2 (u N) ≤ 2 (v N) + N < 2 (u N) + 2 N  ⇒  u = v
      have : u = v := by
        rcases Nat.lt_trichotomy u v with h | h | h
        · have : (u + 1) * N ≤ v * N := Nat.mul_le_mul_right N h
          rw [Nat.add_mul] at this; omega
        · exact h
        · have : (v + 1) * N ≤ u * N := Nat.mul_le_mul_right N h
          rw [Nat.add_mul] at this; omega
      subst this; omega

/-- general level-count round trip: N+1 levels stored in L+1 ≥ N+1 levels come back -/
theorem qL_roundtrip (N L v : Nat) (hN : 0 < N) (hNL : N ≤ L) (hv : v ≤ N) :
    qL N (deqL L (qL L (deqL N v))) = v := by
  unfold deqL
  rw [qL_ratio L v N hN hv, qL_ratio N _ L (by omega) (qRatio_le N L v hN hv)]
  exact qRatio_roundtrip N L v hN hNL hv

/-! ### half step -/

theorem roundHalfUp_bounds (y : Rat) (hy : 0 ≤ y) :
    ((roundHalfUp y : Nat) : Rat) ≤ y + 1/2 ∧ y + 1/2 < ((roundHalfUp y : Nat) : Rat) + 1 := by
  unfold roundHalfUp
  have hpos : (0 : Int) ≤ (y + 1/2).floor := by
    apply Rat.le_floor_iff.mpr
    have : ((0 : Int) : Rat) = 0 := rfl
    rw [this]; grind
  have hcast : (((y + 1/2).floor.toNat : Nat) : Rat) = (((y + 1/2).floor : Int) : Rat) := by
    rw [← Rat.intCast_natCast, Int.toNat_of_nonneg hpos]
  rw [hcast]
  constructor
  · exact Rat.floor_le _
  · have := Rat.lt_floor_add_one (y + 1/2)
    rw [Rat.intCast_add] at this
    exact this

theorem qL_half_step (L : Nat) (hL : 0 < L) (x : Rat) :
    deqL L (qL L x) - clamp01 x ≤ 1 / (2 * (L : Rat)) ∧
    -(1 / (2 * (L : Rat))) ≤ deqL L (qL L x) - clamp01 x := by
  obtain ⟨c0, c1⟩ := clamp01_mem x
  have hLr : (0 : Rat) < (L : Rat) := Rat.natCast_pos.mpr hL
  have hLne : (L : Rat) ≠ 0 := by grind
  have hy : 0 ≤ clamp01 x * (L : Rat) := Rat.mul_nonneg c0 (Rat.le_of_lt hLr)
  obtain ⟨b1, b2⟩ := roundHalfUp_bounds _ hy
  unfold deqL qL
  generalize ((roundHalfUp (clamp01 x * (L : Rat)) : Nat) : Rat) = u at b1 b2
  generalize clamp01 x = c at *
  have hi : 0 < (L : Rat)⁻¹ := Rat.inv_pos.mpr hLr
  have hmul : (L : Rat) * (L : Rat)⁻¹ = 1 := Rat.mul_inv_cancel _ hLne
  generalize (L : Rat) = l at *
  rw [Rat.div_def, Rat.div_def]
  have e : (2 * l)⁻¹ = (1/2) * l⁻¹ := by
    rw [Rat.inv_mul_rev]; grind
  rw [e]
  generalize l⁻¹ = i at *
  have m1 := Rat.mul_le_mul_of_nonneg_right b1 (Rat.le_of_lt hi)
  have m2 := Rat.mul_lt_mul_of_pos_right b2 hi
  have e2 : (c * l + 1 / 2) * i = c + (1/2) * i := by
    have : c * l * i = c * (l * i) := Rat.mul_assoc c l i
    rw [Rat.add_mul, this, hmul, Rat.mul_one]
  have e3 : (u + 1) * i = u * i + i := by rw [Rat.add_mul, Rat.one_mul]
  rw [e2] at m1 m2
  rw [e3] at m2
  constructor <;> grind

/-! ### SNORM -/

theorem qL_le (L : Nat) (x : Rat) : qL L x ≤ L := by
  obtain ⟨c0, c1⟩ := clamp01_mem x
  have hLr : (0 : Rat) ≤ (L : Rat) := Rat.natCast_nonneg
  have hy : 0 ≤ clamp01 x * (L : Rat) := Rat.mul_nonneg c0 hLr
  obtain ⟨b1, _⟩ := roundHalfUp_bounds _ hy
  unfold qL
  generalize roundHalfUp (clamp01 x * (L : Rat)) = u at b1
  have h : clamp01 x * (L : Rat) ≤ (L : Rat) := by
    have := Rat.mul_le_mul_of_nonneg_right c1 hLr
    rw [Rat.one_mul] at this; exact this
  have h2 : (u : Rat) < ((L + 1 : Nat) : Rat) := by
    rw [Rat.natCast_add]; have : ((1 : Nat) : Rat) = 1 := rfl
    rw [this]; grind
  have := Rat.natCast_lt_natCast.mp h2
  omega

theorem two_pow_pred (m : Nat) (hm : 1 ≤ m) : 2 ^ m = 2 * 2 ^ (m - 1) := by
  obtain ⟨k, rfl⟩ : ∃ k, m = k + 1 := ⟨m - 1, by omega⟩
  rw [Nat.pow_succ, Nat.add_sub_cancel, Nat.mul_comm]

theorem snormNorm_ofNorm (m t : Nat) (hm : 1 ≤ m) (ht : t ≤ snormLevels m) :
    snormNorm m (snormOfNorm m t) = t := by
  unfold snormNorm snormOfNorm snormLevels at *
  rw [two_pow_pred m hm] at *
  generalize 2 ^ (m - 1) = H at *
  have hH : 0 < H ∨ H = 0 := by omega
  by_cases h : t + 1 < H
  · rw [Nat.mod_eq_of_lt (by omega : t + 1 + H < 2 * H)]
    have : t + 1 + H + H = t + 1 + 2 * H := by omega
    rw [this, Nat.add_mod_right, Nat.mod_eq_of_lt (by omega)]; omega
  · by_cases hz : H = 0
    · subst hz; omega
    · have e : (t + 1 + H) % (2 * H) = t + 1 - H := by
        rw [Nat.mod_eq_sub_mod (by omega), Nat.mod_eq_of_lt (by omega)]; omega
      rw [e]
      have : t + 1 - H + H = t + 1 := by omega
      rw [this, Nat.mod_eq_of_lt (by omega)]; omega

theorem snormOfNorm_ne_min (m t : Nat) (hm : 2 ≤ m) (ht : t ≤ snormLevels m) :
    snormOfNorm m t ≠ 2 ^ (m - 1) := by
  unfold snormOfNorm snormLevels at *
  rw [two_pow_pred m (by omega)] at *
  have hH2 : 2 ≤ 2 ^ (m - 1) := by
    have : 2 ^ 1 ≤ 2 ^ (m - 1) := Nat.pow_le_pow_right (by omega) (by omega)
    simpa using this
  generalize 2 ^ (m - 1) = H at *
  by_cases h : t + 1 < H
  · rw [Nat.mod_eq_of_lt (by omega : t + 1 + H < 2 * H)]; omega
  · have e : (t + 1 + H) % (2 * H) = t + 1 - H := by
      rw [Nat.mod_eq_sub_mod (by omega), Nat.mod_eq_of_lt (by omega)]; omega
    rw [e]; omega

theorem snormNorm_min (m : Nat) (hm : 2 ≤ m) :
    snormNorm m (2 ^ (m - 1)) = 0 ∧ snormNorm m (2 ^ (m - 1) + 1) = 0 := by
  unfold snormNorm
  rw [two_pow_pred m (by omega)]
  have hH2 : 2 ≤ 2 ^ (m - 1) := by
    have : 2 ^ 1 ≤ 2 ^ (m - 1) := Nat.pow_le_pow_right (by omega) (by omega)
    simpa using this
  generalize 2 ^ (m - 1) = H at *
  constructor
  · have : H + H = 2 * H := by omega
    rw [this, Nat.mod_self]
  · have : H + 1 + H = 1 + 2 * H := by omega
    rw [this, Nat.add_mod_right, Nat.mod_eq_of_lt (by omega)]

end Dds.Quant
