/-
BC3n: `Bc.calcB r g = BcSpec.z8 r g` for all 65 536 pairs — the float computation of `calc_b`
(`bc3n_u8_rgb`, src/decode/bc.rs), modelled operation by operation with correctly rounded binary32
arithmetic, yields the nearest 8-bit value of `255·(½·√(1 − x² − y²) + ½)` (ties up; `D` is never a perfect
square, so there are none).  Kernel-checked: see `Proofs/Bc3nCalc.lean` for the checker and its soundness.
-/
import DdsModel.Proofs.Bc3nRows0
import DdsModel.Proofs.Bc3nRows1
import DdsModel.Proofs.Bc3nRows2
import DdsModel.Proofs.Bc3nRows3
import DdsModel.Proofs.Bc3nRows4
import DdsModel.Proofs.Bc3nRows5
import DdsModel.Proofs.Bc3nRows6
import DdsModel.Proofs.Bc3nRows7
namespace Dds.Bc3n

theorem calcB_eq_z8 (r g : Nat) (hr : r < 256) (hg : g < 256) : Bc.calcB r g = BcSpec.z8 r g := by
  by_cases h0 : r < 32
  · exact rows0 r g (by omega) (by omega) hg
  by_cases h1 : r < 64
  · exact rows1 r g (by omega) (by omega) hg
  by_cases h2 : r < 96
  · exact rows2 r g (by omega) (by omega) hg
  by_cases h3 : r < 128
  · exact rows3 r g (by omega) (by omega) hg
  by_cases h4 : r < 160
  · exact rows4 r g (by omega) (by omega) hg
  by_cases h5 : r < 192
  · exact rows5 r g (by omega) (by omega) hg
  by_cases h6 : r < 224
  · exact rows6 r g (by omega) (by omega) hg
  exact rows7 r g (by omega) (by omega) hg

end Dds.Bc3n
