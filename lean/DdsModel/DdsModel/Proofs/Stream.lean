/- Helper lemmas about the interpreter of `Stream.lean` (C06, C07). Path lemmas are in
`Proofs/StreamPaths.lean`, property theorems in `Theorems/C06.lean`, `Theorems/C07.lean`. -/
import DdsModel.Stream
namespace Dds.Stream
open Dds

/-! ### `read_exact` does not depend on the short-read pattern -/

theorem readExact_eq (e : Env) : ∀ (pat : List Nat) (pos n : Nat),
    readExact e pat pos n = readSpec e pos n := by
  intro pat
  induction pat with
  | nil => intro pos n; rfl
  | cons c pat ih =>
    intro pos n
    unfold readExact
    by_cases hn : n = 0
    · simp only [hn, if_true]; unfold readSpec; simp
    · rw [if_neg hn]
      by_cases hc : c = 0
      · rw [if_pos hc]; exact ih pos n
      · rw [if_neg hc]
        by_cases hl : e.lim ≤ pos
        · rw [if_pos hl]; unfold readSpec
          rw [if_neg hn, if_neg (by omega), if_neg (by omega)]
        · rw [if_neg hl, ih]
          generalize hk : mn (mn c n) (e.lim - pos) = k
          have hk1 : 1 ≤ k ∧ k ≤ n ∧ k ≤ e.lim - pos ∧ (k = n ∨ k = c ∨ k = e.lim - pos) := by
            subst hk; unfold mn; split <;> split <;> omega
          unfold readSpec
          by_cases hkn : n - k = 0
          · have : k = n := by omega
            subst this
            rw [if_pos hkn, if_neg hn, if_pos (by omega)]
          · rw [if_neg hkn, if_neg hn]
            by_cases hfit : pos + n ≤ e.lim
            · rw [if_pos (by omega), if_pos hfit]; congr 1; omega
            · rw [if_neg (by omega), if_neg hfit]
              congr 1
              by_cases h1 : pos + k < e.lim
              · rw [if_pos h1, if_pos (by omega)]
              · rw [if_neg h1, if_pos (by omega)]; omega

/-! ### the interpreter does not depend on the short-read patterns -/

theorem interp_pats (e : Env) : ∀ (ops : List Op) (ps qs : List (List Nat)) (st : St),
    interp e ps ops st = interp e qs ops st := by
  intro ops
  induction ops with
  | nil => intro ps qs st; simp [interp]
  | cons o ops ih =>
    intro ps qs st
    cases o with
    | panic => simp [interp]
    | alloc n =>
      simp only [interp]
      split
      · rfl
      · split
        · exact ih ps qs _
        · rfl
    | skip n =>
      simp only [interp]
      split
      · exact ih ps qs _
      · rfl
    | read n =>
      simp only [interp, readExact_eq]
      split
      · exact ih _ _ _
      · rfl

/-! ### basic facts about `skipExact` and `readSpec` -/

theorem lim_le_len (e : Env) : e.lim ≤ e.len := by
  unfold Env.lim; simp only
  cases e.fault <;> cases e.eofOnce <;> simp only <;> (repeat' split) <;> omega

theorem lim_le_fault {e : Env} {f : Nat} (h : e.fault = some f) : e.lim ≤ f := by
  unfold Env.lim; rw [h]; simp only
  cases e.eofOnce <;> simp only <;> (repeat' split) <;> omega

/-- `io_skip_exact` for a positive count that fits `i64` -/
theorem skipExact_pos {e : Env} {pos n : Nat} (h0 : n ≠ 0) (hn : n ≤ I64MAX) :
    skipExact e pos n =
      if seekFails e (pos + n) = true then (false, pos)
      else if seekLand e pos (pos + n) = satAdd64 pos n then (true, seekLand e pos (pos + n))
      else (false, seekLand e pos (pos + n)) := by
  have hnU : n < U64 := by unfold I64MAX at hn; unfold U64; omega
  unfold skipExact
  simp only [Nat.mod_eq_of_lt hnU]
  rw [if_neg h0, if_neg (by omega)]

theorem skipExact_zero (e : Env) (pos : Nat) : skipExact e pos 0 = (true, pos) := by
  unfold skipExact; simp

theorem satAdd64_eq {a b : Nat} (h : a + b < U64) : satAdd64 a b = a + b := by
  unfold satAdd64; rw [if_pos h]

/-- a skip inside the readable part of the stream succeeds and moves by `n` -/
theorem skipExact_ok {e : Env} {pos n : Nat} (hn : n ≤ I64MAX) (hfit : pos + n ≤ e.lim)
    (hlen : e.len < U64) : skipExact e pos n = (true, pos + n) := by
  have hl := lim_le_len e
  by_cases h0 : n = 0
  · subst h0; exact skipExact_zero e pos
  · rw [skipExact_pos h0 hn]
    have hsf : seekFails e (pos + n) = false := by
      unfold seekFails
      cases hf : e.fault with
      | none => rfl
      | some f => have := lim_le_fault hf; simp only [decide_eq_false_iff_not]; omega
    have hland : seekLand e pos (pos + n) = pos + n := by
      unfold seekLand; rw [if_neg (by omega)]
    rw [hsf, hland, satAdd64_eq (by omega)]
    simp

theorem readSpec_ok {e : Env} {pos n : Nat} (hfit : pos + n ≤ e.lim) :
    readSpec e pos n = (true, pos + n) := by
  unfold readSpec
  by_cases h0 : n = 0
  · simp [h0]
  · rw [if_neg h0, if_pos hfit]

theorem readSpec_true {e : Env} {pos n : Nat} (h : (readSpec e pos n).1 = true) :
    (readSpec e pos n).2 = pos + n ∧ (n = 0 ∨ pos + n ≤ e.lim) := by
  unfold readSpec at h ⊢
  by_cases h0 : n = 0
  · simp [h0]
  · rw [if_neg h0] at h ⊢
    by_cases hf : pos + n ≤ e.lim
    · rw [if_pos hf]; exact ⟨rfl, Or.inr hf⟩
    · rw [if_neg hf] at h; simp at h

/-- a successful skip moved the reader by exactly `n` -/
theorem skipExact_true {e : Env} {pos n : Nat} (hn : n ≤ I64MAX) (hU : pos + n < U64)
    (h : (skipExact e pos n).1 = true) : (skipExact e pos n).2 = pos + n := by
  by_cases h0 : n = 0
  · subst h0; rw [skipExact_zero]; rfl
  · rw [skipExact_pos h0 hn, satAdd64_eq hU] at h ⊢
    by_cases hs : seekFails e (pos + n) = true
    · rw [if_pos hs] at h; simp at h
    · rw [if_neg hs] at h ⊢
      by_cases ha : seekLand e pos (pos + n) = pos + n
      · rw [if_pos ha]; exact ha
      · rw [if_neg ha] at h; simp at h

/-- a skip over the faulty offset fails -/
theorem skipExact_fault {e : Env} {f pos n : Nat} (hf : e.fault = some f) (h0 : n ≠ 0)
    (hn : n ≤ I64MAX) (h : f < pos + n) : (skipExact e pos n).1 = false := by
  rw [skipExact_pos h0 hn]
  have : seekFails e (pos + n) = true := by unfold seekFails; rw [hf]; simp [h]
  rw [if_pos this]

/-- a skip past the end of a stream whose `seek` clamps fails -/
theorem skipExact_eof {e : Env} {pos n : Nat} (hc : e.clampSeek = true) (hn : n ≤ I64MAX)
    (hU : pos + n < U64) (hp : pos ≤ e.len) (h : e.len < pos + n) :
    (skipExact e pos n).1 = false := by
  have h0 : n ≠ 0 := by omega
  rw [skipExact_pos h0 hn, satAdd64_eq hU]
  by_cases hs : seekFails e (pos + n) = true
  · rw [if_pos hs]
  · rw [if_neg hs]
    have hland : seekLand e pos (pos + n) = e.len := by
      unfold seekLand; rw [if_pos ⟨hc, h⟩, if_neg (by omega)]
    rw [hland, if_neg (by omega)]

/-! ### projections of `St.moved` -/

@[simp] theorem moved_pos (st : St) (p : Nat) (ev : Nat → Ev) : (st.moved p ev).pos = p := rfl
@[simp] theorem moved_budget (st : St) (p : Nat) (ev : Nat → Ev) : (st.moved p ev).budget = st.budget := rfl
@[simp] theorem moved_calls (st : St) (p : Nat) (ev : Nat → Ev) : (st.moved p ev).calls = st.calls := rfl
theorem moved_same (st : St) (ev : Nat → Ev) : st.moved st.pos ev = st := by
  unfold St.moved; simp

/-! ### structure of traces -/

def noPanic : List Op → Prop
  | [] => True
  | .panic :: _ => False
  | _ :: t => noPanic t

theorem ioOnly_noPanic : ∀ {ops : List Op}, ioOnly ops → noPanic ops
  | [], _ => trivial
  | .skip _ :: t, h => ioOnly_noPanic (ops := t) h
  | .read _ :: t, h => ioOnly_noPanic (ops := t) h
  | .alloc _ :: _, h => h.elim
  | .panic :: _, h => h.elim

theorem allocFirst_noPanic : ∀ {ops : List Op}, allocFirst ops → noPanic ops
  | [], _ => trivial
  | .alloc _ :: t, h => allocFirst_noPanic (ops := t) h
  | .skip n :: t, h => ioOnly_noPanic (ops := .skip n :: t) h
  | .read n :: t, h => ioOnly_noPanic (ops := .read n :: t) h
  | .panic :: _, h => h.elim

theorem ioOnly_allocFirst : ∀ {ops : List Op}, ioOnly ops → allocFirst ops
  | [], _ => trivial
  | .skip _ :: _, h => h
  | .read _ :: _, h => h
  | .alloc _ :: _, h => h.elim
  | .panic :: _, h => h.elim

theorem ioOnly_need : ∀ {ops : List Op}, ioOnly ops → need ops = 0
  | [], _ => rfl
  | .skip _ :: t, h => ioOnly_need (ops := t) h
  | .read _ :: t, h => ioOnly_need (ops := t) h
  | .alloc _ :: _, h => h.elim
  | .panic :: _, h => h.elim

theorem ioOnly_append : ∀ {a b : List Op}, ioOnly a → ioOnly b → ioOnly (a ++ b)
  | [], _, _, hb => hb
  | .skip _ :: t, _, ha, hb => ioOnly_append (a := t) ha hb
  | .read _ :: t, _, ha, hb => ioOnly_append (a := t) ha hb
  | .alloc _ :: _, _, ha, _ => ha.elim
  | .panic :: _, _, ha, _ => ha.elim

theorem span_append : ∀ (a b : List Op), span (a ++ b) = span a + span b
  | [], b => by simp [span]
  | .skip n :: t, b => by simp only [List.cons_append, span, span_append t b]; omega
  | .read n :: t, b => by simp only [List.cons_append, span, span_append t b]; omega
  | .alloc n :: t, b => by simp only [List.cons_append, span, span_append t b]
  | .panic :: t, b => by simp only [List.cons_append, span, span_append t b]

theorem need_append : ∀ (a b : List Op), need (a ++ b) = need a + need b
  | [], b => by simp [need]
  | .skip n :: t, b => by simp only [List.cons_append, need, need_append t b]
  | .read n :: t, b => by simp only [List.cons_append, need, need_append t b]
  | .alloc n :: t, b => by simp only [List.cons_append, need, need_append t b]; omega
  | .panic :: t, b => by simp only [List.cons_append, need, need_append t b]

/-! ### single steps -/

theorem interp_skip (e : Env) (ps : List (List Nat)) (n : Nat) (ops : List Op) (st : St) :
    interp e ps (.skip n :: ops) st =
      if (skipExact e st.pos n).1 = true then interp e ps ops (st.moved (skipExact e st.pos n).2 .seek)
      else (.ioError, st.moved (skipExact e st.pos n).2 .seek) := by
  simp only [interp]

theorem interp_read (e : Env) (ps : List (List Nat)) (n : Nat) (ops : List Op) (st : St) :
    interp e ps (.read n :: ops) st =
      if (readSpec e st.pos n).1 = true then interp e ps.tail ops (st.moved (readSpec e st.pos n).2 .read)
      else (.ioError, st.moved (readSpec e st.pos n).2 .read) := by
  simp only [interp, readExact_eq]

theorem interp_alloc (e : Env) (hok : ∀ n, e.allocOk n = true) (ps : List (List Nat)) (n : Nat)
    (ops : List Op) (st : St) (h : n ≤ st.budget) :
    interp e ps (.alloc n :: ops) st =
      interp e ps ops { st with budget := st.budget - n % U64, calls := n % U64 :: st.calls } := by
  have hmod : n % U64 ≤ n := Nat.mod_le _ _
  simp only [interp]
  rw [if_neg (by omega), hok, if_pos rfl]

/-! ### the interpreter on a trace whose allocations fit -/

/-- Either everything succeeded and the reader moved by exactly `span ops`, or the result is an
I/O error. In particular there is no success with a different position and no other error. -/
theorem interp_ok_or_io (e : Env) (hok : ∀ n, e.allocOk n = true) :
    ∀ (ops : List Op) (ps : List (List Nat)) (st : St), noPanic ops → need ops ≤ st.budget →
      span ops ≤ I64MAX → st.pos + span ops < U64 →
      (interp e ps ops st).1 = .ioError ∨
      ((interp e ps ops st).1 = .ok ∧ (interp e ps ops st).2.pos = st.pos + span ops) := by
  intro ops
  induction ops with
  | nil => intro ps st _ _ _ _; right; simp [interp, span]
  | cons o ops ih =>
    intro ps st hnp hneed hspan hU
    cases o with
    | panic => exact hnp.elim
    | alloc n =>
      have hneed' : n + need ops ≤ st.budget := by simpa [need] using hneed
      have hmod : n % U64 ≤ n := Nat.mod_le _ _
      rw [interp_alloc e hok ps n ops st (by omega)]
      have := ih ps { st with budget := st.budget - n % U64, calls := n % U64 :: st.calls } hnp
        (by show need ops ≤ st.budget - n % U64; omega) (by simpa [span] using hspan)
        (by simpa [span] using hU)
      simpa [span] using this
    | skip n =>
      have hneed' : need ops ≤ st.budget := by simpa [need] using hneed
      simp only [span] at hspan hU ⊢
      rw [interp_skip]
      by_cases hr : (skipExact e st.pos n).1 = true
      · have hp := skipExact_true (by omega) (by omega) hr
        rw [if_pos hr, hp]
        have := ih ps (st.moved (st.pos + n) .seek) hnp hneed' (by omega) (by rw [moved_pos]; omega)
        rw [moved_pos] at this
        rcases this with h | h
        · left; exact h
        · right; exact ⟨h.1, by rw [h.2]; omega⟩
      · rw [if_neg hr]; left; rfl
    | read n =>
      have hneed' : need ops ≤ st.budget := by simpa [need] using hneed
      simp only [span] at hspan hU ⊢
      rw [interp_read]
      by_cases hr : (readSpec e st.pos n).1 = true
      · have hp := (readSpec_true hr).1
        rw [if_pos hr, hp]
        have := ih ps.tail (st.moved (st.pos + n) .read) hnp hneed' (by omega) (by rw [moved_pos]; omega)
        rw [moved_pos] at this
        rcases this with h | h
        · left; exact h
        · right; exact ⟨h.1, by rw [h.2]; omega⟩
      · rw [if_neg hr]; left; rfl

/-- on a stream that is long enough and fault-free nothing fails -/
theorem interp_ok (e : Env) (hok : ∀ n, e.allocOk n = true) (hlen : e.len < U64) :
    ∀ (ops : List Op) (ps : List (List Nat)) (st : St), noPanic ops → need ops ≤ st.budget →
      span ops ≤ I64MAX → st.pos + span ops ≤ e.lim →
      (interp e ps ops st).1 = .ok ∧ (interp e ps ops st).2.pos = st.pos + span ops := by
  intro ops
  induction ops with
  | nil => intro ps st _ _ _ _; simp [interp, span]
  | cons o ops ih =>
    intro ps st hnp hneed hspan hfit
    cases o with
    | panic => exact hnp.elim
    | alloc n =>
      have hneed' : n + need ops ≤ st.budget := by simpa [need] using hneed
      have hmod : n % U64 ≤ n := Nat.mod_le _ _
      rw [interp_alloc e hok ps n ops st (by omega)]
      have := ih ps { st with budget := st.budget - n % U64, calls := n % U64 :: st.calls } hnp
        (by show need ops ≤ st.budget - n % U64; omega) (by simpa [span] using hspan)
        (by simpa [span] using hfit)
      simpa [span] using this
    | skip n =>
      have hneed' : need ops ≤ st.budget := by simpa [need] using hneed
      simp only [span] at hspan hfit ⊢
      rw [interp_skip, skipExact_ok (by omega) (by omega) hlen]
      simp only [if_true]
      have := ih ps (st.moved (st.pos + n) .seek) hnp hneed' (by omega) (by rw [moved_pos]; omega)
      rw [moved_pos] at this
      exact ⟨this.1, by rw [this.2]; omega⟩
    | read n =>
      have hneed' : need ops ≤ st.budget := by simpa [need] using hneed
      simp only [span] at hspan hfit ⊢
      rw [interp_read, readSpec_ok (by omega)]
      simp only [if_true]
      have := ih ps.tail (st.moved (st.pos + n) .read) hnp hneed' (by omega) (by rw [moved_pos]; omega)
      rw [moved_pos] at this
      exact ⟨this.1, by rw [this.2]; omega⟩

/-- a hard error inside the bytes the decode has to pass over is returned as an I/O error -/
theorem interp_fault (e : Env) (hok : ∀ n, e.allocOk n = true) {f : Nat} (hf : e.fault = some f) :
    ∀ (ops : List Op) (ps : List (List Nat)) (st : St), noPanic ops → need ops ≤ st.budget →
      span ops ≤ I64MAX → st.pos + span ops < U64 → st.pos ≤ f → f < st.pos + span ops →
      (interp e ps ops st).1 = .ioError := by
  intro ops
  induction ops with
  | nil => intro ps st _ _ _ _ h1 h2; simp only [span] at h2; omega
  | cons o ops ih =>
    intro ps st hnp hneed hspan hU h1 h2
    cases o with
    | panic => exact hnp.elim
    | alloc n =>
      have hneed' : n + need ops ≤ st.budget := by simpa [need] using hneed
      have hmod : n % U64 ≤ n := Nat.mod_le _ _
      rw [interp_alloc e hok ps n ops st (by omega)]
      exact ih ps { st with budget := st.budget - n % U64, calls := n % U64 :: st.calls } hnp
        (by show need ops ≤ st.budget - n % U64; omega) (by simpa [span] using hspan)
        (by simpa [span] using hU) h1 (by simpa [span] using h2)
    | skip n =>
      have hneed' : need ops ≤ st.budget := by simpa [need] using hneed
      simp only [span] at hspan hU h2
      rw [interp_skip]
      by_cases hr : (skipExact e st.pos n).1 = true
      · have hp := skipExact_true (by omega) (by omega) hr
        rw [if_pos hr, hp]
        have hle : st.pos + n ≤ f := by
          by_cases h0 : n = 0
          · omega
          · apply Nat.le_of_not_lt; intro hlt
            have := skipExact_fault hf h0 (by omega) hlt
            rw [this] at hr; cases hr
        exact ih ps (st.moved (st.pos + n) .seek) hnp hneed' (by omega) (by rw [moved_pos]; omega)
          (by rw [moved_pos]; exact hle) (by rw [moved_pos]; omega)
      · rw [if_neg hr]
    | read n =>
      have hneed' : need ops ≤ st.budget := by simpa [need] using hneed
      simp only [span] at hspan hU h2
      rw [interp_read]
      by_cases hr : (readSpec e st.pos n).1 = true
      · have hp := readSpec_true hr
        have hlf := lim_le_fault hf
        rw [if_pos hr, hp.1]
        exact ih ps.tail (st.moved (st.pos + n) .read) hnp hneed' (by omega) (by rw [moved_pos]; omega)
          (by rw [moved_pos]; omega) (by rw [moved_pos]; omega)
      · rw [if_neg hr]

/-- the end of a stream whose `seek` clamps, inside the bytes the decode has to pass over, is
returned as an I/O error -/
theorem interp_eof_clamp (e : Env) (hok : ∀ n, e.allocOk n = true) (hc : e.clampSeek = true) :
    ∀ (ops : List Op) (ps : List (List Nat)) (st : St), noPanic ops → need ops ≤ st.budget →
      span ops ≤ I64MAX → st.pos + span ops < U64 → st.pos ≤ e.len → e.len < st.pos + span ops →
      (interp e ps ops st).1 = .ioError := by
  intro ops
  induction ops with
  | nil => intro ps st _ _ _ _ h1 h2; simp only [span] at h2; omega
  | cons o ops ih =>
    intro ps st hnp hneed hspan hU h1 h2
    cases o with
    | panic => exact hnp.elim
    | alloc n =>
      have hneed' : n + need ops ≤ st.budget := by simpa [need] using hneed
      have hmod : n % U64 ≤ n := Nat.mod_le _ _
      rw [interp_alloc e hok ps n ops st (by omega)]
      exact ih ps { st with budget := st.budget - n % U64, calls := n % U64 :: st.calls } hnp
        (by show need ops ≤ st.budget - n % U64; omega) (by simpa [span] using hspan)
        (by simpa [span] using hU) h1 (by simpa [span] using h2)
    | skip n =>
      have hneed' : need ops ≤ st.budget := by simpa [need] using hneed
      simp only [span] at hspan hU h2
      rw [interp_skip]
      by_cases hr : (skipExact e st.pos n).1 = true
      · have hp := skipExact_true (by omega) (by omega) hr
        rw [if_pos hr, hp]
        have hle : st.pos + n ≤ e.len := by
          apply Nat.le_of_not_lt; intro hlt
          have := skipExact_eof hc (by omega) (by omega) h1 hlt
          rw [this] at hr; cases hr
        exact ih ps (st.moved (st.pos + n) .seek) hnp hneed' (by omega) (by rw [moved_pos]; omega)
          (by rw [moved_pos]; exact hle) (by rw [moved_pos]; omega)
      · rw [if_neg hr]
    | read n =>
      have hneed' : need ops ≤ st.budget := by simpa [need] using hneed
      simp only [span] at hspan hU h2
      rw [interp_read]
      by_cases hr : (readSpec e st.pos n).1 = true
      · have hp := readSpec_true hr
        have hll := lim_le_len e
        rw [if_pos hr, hp.1]
        exact ih ps.tail (st.moved (st.pos + n) .read) hnp hneed' (by omega) (by rw [moved_pos]; omega)
          (by rw [moved_pos]; omega) (by rw [moved_pos]; omega)
      · rw [if_neg hr]

/-! ### errors other than I/O errors -/

theorem interp_ioOnly (e : Env) : ∀ (ops : List Op) (ps : List (List Nat)) (st : St), ioOnly ops →
    (interp e ps ops st).1 = .ok ∨ (interp e ps ops st).1 = .ioError := by
  intro ops
  induction ops with
  | nil => intro ps st _; left; simp [interp]
  | cons o ops ih =>
    intro ps st h
    cases o with
    | panic => exact h.elim
    | alloc n => exact h.elim
    | skip n =>
      simp only [interp]
      cases (skipExact e st.pos n).1 with
      | false => right; simp
      | true => simp only [if_true]; exact ih ps _ h
    | read n =>
      simp only [interp]
      cases (readExact e (ps.headD []) st.pos n).1 with
      | false => right; simp
      | true => simp only [if_true]; exact ih _ _ h

/-- if every allocation precedes the first reader operation, a result other than `ok` / `ioError`
(i.e. `memLimit`) leaves the reader untouched: same position, no reader call logged -/
theorem interp_allocFirst (e : Env) : ∀ (ops : List Op) (ps : List (List Nat)) (st : St),
    allocFirst ops →
    (interp e ps ops st).1 = .ok ∨ (interp e ps ops st).1 = .ioError ∨
    ((interp e ps ops st).1 = .memLimit ∧ (interp e ps ops st).2.pos = st.pos ∧
      (interp e ps ops st).2.log = st.log) := by
  intro ops
  induction ops with
  | nil => intro ps st _; left; simp [interp]
  | cons o ops ih =>
    intro ps st h
    cases o with
    | panic => exact h.elim
    | alloc n =>
      simp only [interp]
      split
      · right; right; exact ⟨rfl, rfl, rfl⟩
      · split
        · have := ih ps { st with budget := st.budget - n % U64, calls := n % U64 :: st.calls } h
          exact this
        · right; right; exact ⟨rfl, rfl, rfl⟩
    | skip n =>
      rcases interp_ioOnly e _ ps st h with h' | h'
      · left; exact h'
      · right; left; exact h'
    | read n =>
      rcases interp_ioOnly e _ ps st h with h' | h'
      · left; exact h'
      · right; left; exact h'

/-! ### the budget (C07) -/

def total : List Nat → Nat
  | [] => 0
  | a :: t => a + total t

/-- what has been handed to the allocator plus what is left of the budget is constant -/
theorem interp_budget (e : Env) : ∀ (ops : List Op) (ps : List (List Nat)) (st : St),
    total (interp e ps ops st).2.calls + (interp e ps ops st).2.budget = total st.calls + st.budget := by
  intro ops
  induction ops with
  | nil => intro ps st; simp [interp]
  | cons o ops ih =>
    intro ps st
    cases o with
    | panic => simp [interp]
    | alloc n =>
      simp only [interp]
      split
      · rfl
      · rename_i hb
        split
        · rw [ih]; simp only [total]; omega
        · simp only [total]; omega
    | skip n =>
      simp only [interp]
      split
      · rw [ih]; simp
      · simp
    | read n =>
      simp only [interp]
      split
      · rw [ih]; simp
      · simp

/-- a request above the remaining budget is refused before the allocator is called -/
theorem interp_over_budget (e : Env) (ps : List (List Nat)) (n : Nat) (ops : List Op) (st : St)
    (h : st.budget < n % U64) : interp e ps (.alloc n :: ops) st = (.memLimit, st) := by
  simp only [interp]; rw [if_pos h]

/-- with the allocations first, `memLimit` is returned exactly when the budget is below the need -/
theorem interp_mem_iff (e : Env) (hok : ∀ n, e.allocOk n = true) :
    ∀ (ops : List Op) (ps : List (List Nat)) (st : St), allocFirst ops → need ops < U64 →
      ((interp e ps ops st).1 = .memLimit ↔ st.budget < need ops) := by
  intro ops
  induction ops with
  | nil => intro ps st _ _; simp [interp, need]
  | cons o ops ih =>
    intro ps st h hU
    cases o with
    | panic => exact h.elim
    | alloc n =>
      simp only [need] at hU ⊢
      have hmod : n % U64 = n := Nat.mod_eq_of_lt (by omega)
      simp only [interp, hmod]
      by_cases hb : st.budget < n
      · rw [if_pos hb]; simp; omega
      · rw [if_neg hb, hok, if_pos rfl]
        rw [ih ps _ h (by omega)]
        show st.budget - n < need ops ↔ _
        omega
    | skip n =>
      have hn : need (.skip n :: ops) = 0 := ioOnly_need (ops := .skip n :: ops) h
      rw [hn]
      rcases interp_ioOnly e _ ps st h with h' | h' <;> rw [h'] <;> simp
    | read n =>
      have hn : need (.read n :: ops) = 0 := ioOnly_need (ops := .read n :: ops) h
      rw [hn]
      rcases interp_ioOnly e _ ps st h with h' | h' <;> rw [h'] <;> simp

end Dds.Stream
