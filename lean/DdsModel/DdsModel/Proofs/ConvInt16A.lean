/- 65 536-point complete evaluation (own file so that lake checks the three in parallel). -/
import DdsModel.Proofs.ConvInt
namespace Dds.ConvProofs
open Dds Dds.Conv Dds.Spec Dds.ConvRange
set_option maxRecDepth 100000
theorem n16n8_ok : ∀ x, x < 65536 → okInt n16n8 255 (unorm 16) never x = true :=
  forall_lt_of_allRange _ 11 65536 (by decide +kernel)
end Dds.ConvProofs
