/- Lemmas about the tables (rows translated from the source, see HeaderTables.lean / SrcTables.lean), the constructors
and the DX9 <-> DX10 conversions. Everything that is `decide` over a table is re-checked for the current rows. -/
import DdsModel.HeaderTables
import DdsModel.Proofs.Header
namespace Dds

/-! ### constructors -/

theorem lookup_mem {α β : Type} [BEq α] [LawfulBEq α] {l : List (α × β)} {c : α} {d : β}
    (h : l.lookup c = some d) : (c, d) ∈ l := by
  induction l with
  | nil => cases h
  | cons p l ih =>
    obtain ⟨k, v⟩ := p
    unfold List.lookup at h
    by_cases hk : c == k
    · simp only [hk] at h
      cases h
      have : c = k := by simpa using hk
      subst this
      exact List.mem_cons_self ..
    · simp only [hk] at h
      exact List.mem_cons_of_mem _ (ih h)

/-- every code `TryFrom<Format> for DxgiFormat` returns is an accepted code (complete evaluation of the rows) -/
theorem formatToDxgi_valid_table : ∀ p ∈ SrcTables.formatToDxgi, dxgiValid p.2 = true := by decide

theorem Format.toDxgi_valid {f : Format} {d : Nat} (h : f.toDxgi = some d) : dxgiValid d = true :=
  formatToDxgi_valid_table _ (lookup_mem h)

/-- formats without a DXGI code have a DX9 pixel format, and it is well-formed -/
def Format.dx9Ok (f : Format) : Bool :=
  match f.toDxgi with
  | some _ => true
  | none =>
    match f.toDx9PixelFormat with
    | some p => decide p.WF
    | none => false

theorem Format.dx9Ok_all : ∀ f ∈ Format.all, f.dx9Ok = true := by decide

theorem Format.mem_all (f : Format) : f ∈ Format.all := by cases f <;> decide

theorem Header.new_WF (k : CtorKind) (w h d : Nat) (f : Format) (hw : w < U32) (hh : h < U32)
    (hd : d < U32) : ∃ h0, Header.new k w h d f = some h0 ∧ h0.WF := by
  unfold Header.new
  cases hx : f.toDxgi with
  | some dxgi =>
    refine ⟨_, rfl, ?_⟩
    have hv := Format.toDxgi_valid hx
    cases k
    · exact ⟨hw, hh, trivial, Nat.le_refl 1, (by show 1 < U32; decide), hv, (by show 0 < U32; decide),
        (by show 1 < U32; decide), fun h => by cases h⟩
    · exact ⟨hw, hh, hd, Nat.le_refl 1, (by show 1 < U32; decide), hv, (by show 0 < U32; decide),
        (by show 1 < U32; decide), fun _ => rfl⟩
    · exact ⟨hw, hh, trivial, Nat.le_refl 1, (by show 1 < U32; decide), hv,
        (by show MISC_TEXTURE_CUBE < U32; decide), (by show 1 < U32; decide), fun h => by cases h⟩
  | none =>
    have := Format.dx9Ok_all f (Format.mem_all f)
    unfold Format.dx9Ok at this
    rw [hx] at this
    simp only at this
    cases hp : f.toDx9PixelFormat with
    | none => rw [hp] at this; cases this
    | some p =>
      rw [hp] at this
      have hpw : p.WF := by simpa using this
      refine ⟨_, rfl, ?_⟩
      cases k
      · exact ⟨hw, hh, trivial, Nat.le_refl 1, (by show 1 < U32; decide), (by show 0 < U32; decide), hpw⟩
      · exact ⟨hw, hh, hd, Nat.le_refl 1, (by show 1 < U32; decide),
          (by show CAPS2_VOLUME < U32; decide), hpw⟩
      · exact ⟨hw, hh, trivial, Nat.le_refl 1, (by show 1 < U32; decide),
          (by show CAPS2_CUBE_MAP ||| CAPS2_ALL_FACES < U32; decide), hpw⟩

theorem Header.applyOp_WF {h h' : Header} (hwf : h.WF) {op : BuilderOp} (hr : op.InRange)
    (ha : h.applyOp op = some h') : h'.WF := by
  cases op with
  | withSize w ht =>
    simp only [Header.applyOp, Option.some.injEq] at ha
    subst ha
    cases h with
    | dx9 x =>
      obtain ⟨_, _, _, a, b, c, d⟩ := hwf
      exact ⟨hr.1, hr.2, trivial, a, b, c, d⟩
    | dx10 x =>
      obtain ⟨_, _, _, a, b, c, d, e, f⟩ := hwf
      exact ⟨hr.1, hr.2, trivial, a, b, c, d, e, f⟩
  | withDimensions w ht dep =>
    simp only [Header.applyOp, Option.some.injEq] at ha
    subst ha
    cases h with
    | dx9 x =>
      obtain ⟨_, _, _, a, b, c, d⟩ := hwf
      exact ⟨hr.1, hr.2.1, hr.2.2, a, b, c, d⟩
    | dx10 x =>
      obtain ⟨_, _, _, a, b, c, d, e, f⟩ := hwf
      exact ⟨hr.1, hr.2.1, hr.2.2, a, b, c, d, e, f⟩
  | withMipmapCount m =>
    simp only [Header.applyOp, Header.withMipmapCount] at ha
    split at ha
    · cases ha
    · cases ha
      exact Header.WF_setMipmapCount hwf (by omega) hr
  | withMipmaps =>
    simp only [Header.applyOp, Header.withMipmaps, Header.withMipmapCount] at ha
    have hb := maxMipCount_bounds h.maxDim
    split at ha
    · cases ha
    · cases ha
      exact Header.WF_setMipmapCount hwf hb.1 (by unfold U32; omega)

theorem Header.applyOps_WF : ∀ (ops : List BuilderOp) {h h' : Header}, h.WF →
    (∀ op ∈ ops, op.InRange) → h.applyOps ops = some h' → h'.WF := by
  intro ops
  induction ops with
  | nil => intro h h' hwf _ ha; cases ha; exact hwf
  | cons op ops ih =>
    intro h h' hwf hr ha
    unfold Header.applyOps at ha
    cases hop : h.applyOp op with
    | none => rw [hop] at ha; cases ha
    | some h1 =>
      rw [hop] at ha
      exact ih (Header.applyOp_WF hwf (hr op (List.mem_cons_self ..)) hop)
        (fun o ho => hr o (List.mem_cons_of_mem _ ho)) ha

/-- the only panic of a builder chain is the documented one: `with_mipmap_count(0)` -/
theorem Header.applyOps_none : ∀ (ops : List BuilderOp) {h : Header},
    h.applyOps ops = none → BuilderOp.withMipmapCount 0 ∈ ops := by
  intro ops
  induction ops with
  | nil => intro h ha; cases ha
  | cons op ops ih =>
    intro h ha
    unfold Header.applyOps at ha
    cases hop : h.applyOp op with
    | some h1 => rw [hop] at ha; exact List.mem_cons_of_mem _ (ih ha)
    | none =>
      cases op with
      | withSize _ _ => cases hop
      | withDimensions _ _ _ => cases hop
      | withMipmapCount m =>
        simp only [Header.applyOp, Header.withMipmapCount] at hop
        split at hop
        · rename_i hm; subst hm; exact List.mem_cons_self ..
        · cases hop
      | withMipmaps =>
        simp only [Header.applyOp, Header.withMipmaps, Header.withMipmapCount] at hop
        have hb := maxMipCount_bounds h.maxDim
        split at hop
        · omega
        · cases hop


/-! ### DX9 <-> DX10: dimensions and mip count -/

theorem Dx10Header.toDx9_shape {x : Dx10Header} {y : Dx9Header} (h : x.toDx9 = some y) :
    y.width = x.width ∧ y.height = x.height ∧ y.depth = x.depth ∧ y.mipmapCount = x.mipmapCount ∧
    x.arraySize = 1 ∧ ¬ (bitSet x.miscFlag MISC_TEXTURE_CUBE = true ∧ x.resourceDimension ≠ .tex2D) ∧
    y.caps2 = (if bitSet x.miscFlag MISC_TEXTURE_CUBE then
        (if x.resourceDimension = .tex3D then CAPS2_VOLUME else 0) ||| (CAPS2_CUBE_MAP ||| CAPS2_ALL_FACES)
      else (if x.resourceDimension = .tex3D then CAPS2_VOLUME else 0)) ∧
    toDx9Format x.dxgiFormat x.alphaMode = some y.pixelFormat := by
  unfold Dx10Header.toDx9 at h
  by_cases ha : x.arraySize ≠ 1
  · rw [if_pos ha] at h; cases h
  · rw [if_neg ha] at h
    by_cases hc : (bitSet x.miscFlag MISC_TEXTURE_CUBE && x.resourceDimension != .tex2D) = true
    · rw [if_pos hc] at h; cases h
    · rw [if_neg hc] at h
      cases hf : toDx9Format x.dxgiFormat x.alphaMode with
      | none => rw [hf] at h; cases h
      | some p =>
        rw [hf] at h
        simp only [Option.map_some, Option.some.injEq] at h
        subst h
        refine ⟨rfl, rfl, rfl, rfl, by omega, ?_, rfl, rfl⟩
        intro ⟨c1, c2⟩
        apply hc
        simp [c1, c2]

theorem Dx9Header.toDx10_shape {y : Dx9Header} {x : Dx10Header} (h : y.toDx10 = some x) :
    x.width = y.width ∧ x.height = y.height ∧ x.depth = y.depth ∧ x.mipmapCount = y.mipmapCount ∧
    x.arraySize = 1 ∧ x.alphaMode = y.alphaMode ∧
    ¬ (bitSet y.caps2 CAPS2_CUBE_MAP = true ∧ hasAllFaces y.caps2 = false) ∧
    x.resourceDimension = (if bitSet y.caps2 CAPS2_VOLUME then .tex3D else .tex2D) ∧
    x.miscFlag = (if bitSet y.caps2 CAPS2_CUBE_MAP then MISC_TEXTURE_CUBE else 0) ∧
    y.pixelFormat.toDxgi? = some x.dxgiFormat := by
  unfold Dx9Header.toDx10 at h
  cases hdx : y.pixelFormat.toDxgi? with
  | none => rw [hdx] at h; cases h
  | some d =>
    rw [hdx] at h
    simp only at h
    by_cases hc : (bitSet y.caps2 CAPS2_CUBE_MAP && !hasAllFaces y.caps2) = true
    · rw [if_pos hc] at h; cases h
    · rw [if_neg hc] at h
      simp only [Option.some.injEq] at h
      subst h
      refine ⟨rfl, rfl, rfl, rfl, rfl, rfl, ?_, rfl, rfl, rfl⟩
      intro ⟨c1, c2⟩
      apply hc
      simp [c1, c2]

/-! ### DX9 <-> DX10: pixel info (finite tables, complete evaluation) -/

def pxOfPf (p : Dx9PixelFormat) : Option PixelInfo :=
  pixelInfoOf (.dx9 { height := 0, width := 0, depth := none, mipmapCount := 1, caps2 := 0, pixelFormat := p })

theorem pixelInfoOf_dx9 (y : Dx9Header) : pixelInfoOf (.dx9 y) = pxOfPf y.pixelFormat := rfl

def allAlpha : List AlphaMode := [.unknown, .straight, .premultiplied, .opaque, .custom]

def toDx9FormatPxOk (c : Nat) (a : AlphaMode) : Bool :=
  match toDx9Format c a with
  | none => true
  | some p => decide (pxOfPf p = dxgiPixelInfo c)

/-- table obligation of `C09.dx_conversion_to_dx9`: for every accepted code and alpha mode the DX9 pixel format that
`to_dx9` picks (`dxgi_to_four_cc` / `dxgi_to_masked` after `to_linear`) has the pixel info of the code — complete
evaluation over the translated rows; a row that breaks it fails the build HERE -/
theorem toDx9Format_px_check :
    ((List.range 256).all fun c => allAlpha.all fun a => toDx9FormatPxOk c a) = true := by
  decide +kernel

theorem toDx9Format_px_table (c : Nat) (hc : c < 256) (a : AlphaMode) (ha : a ∈ allAlpha) :
    toDx9FormatPxOk c a = true := by
  have := toDx9Format_px_check
  rw [List.all_eq_true] at this
  have h1 := this c (List.mem_range.mpr hc)
  rw [List.all_eq_true] at h1
  exact h1 a ha

theorem dxgiValid_lt {c : Nat} (h : dxgiValid c = true) : c < 256 := dxgiValid_lt256 h

theorem toDx9Format_px {c : Nat} {a : AlphaMode} {p : Dx9PixelFormat} (hv : dxgiValid c = true)
    (h : toDx9Format c a = some p) : pxOfPf p = dxgiPixelInfo c := by
  have ha : a ∈ allAlpha := by cases a <;> decide
  have := toDx9Format_px_table c (dxgiValid_lt hv) a ha
  unfold toDx9FormatPxOk at this
  rw [h] at this
  simpa using this

/-- table obligation of `C09.dx_conversion_to_dx10`: every row of `four_cc_to_dxgi` keeps the pixel info (the four CC
read as a format has the bytes-per-pixel / block shape of the DXGI code it converts to) -/
theorem fourCCToDxgi_px_table : ∀ p ∈ fourCCToDxgiTable,
    pxOfPf (.fourCC p.1) = dxgiPixelInfo p.2 := by decide

/-- no row of `KNOWN_PIXEL_FORMATS` is dropped by the conversion of its bit count to `RgbBitCount` -/
theorem knownPixelFormats_complete : knownPixelFormats.length = SrcTables.knownPixelFormats.length := by decide

/-- table obligation of `C09.dx_conversion_to_dx10`: every row of `KNOWN_PIXEL_FORMATS` with a DXGI code keeps the
pixel info (`rgb_bit_count / 8` = bytes per pixel of the code); seeded C09h (an alias row with the wrong bit count)
fails the build HERE -/
theorem knownPixelFormats_px_table : ∀ r ∈ knownPixelFormats, ∀ d, r.2.1 = some d →
    pxOfPf (.mask r.1) = dxgiPixelInfo d := by decide

theorem findSome_mem {α β : Type} {l : List α} {f : α → Option β} {b : β}
    (h : l.findSome? f = some b) : ∃ a ∈ l, f a = some b := by
  induction l with
  | nil => cases h
  | cons a l ih =>
    unfold List.findSome? at h
    cases hf : f a with
    | some b' =>
      rw [hf] at h
      cases h
      exact ⟨a, List.mem_cons_self .., hf⟩
    | none =>
      rw [hf] at h
      obtain ⟨a', ha', hfa'⟩ := ih h
      exact ⟨a', List.mem_cons_of_mem _ ha', hfa'⟩

theorem toDx10_px {p : Dx9PixelFormat} {d : Nat} (h : p.toDxgi? = some d) :
    dxgiPixelInfo d = pxOfPf p := by
  cases p with
  | fourCC c =>
    simp only [Dx9PixelFormat.toDxgi?] at h
    by_cases h2 : c = FOURCC_DXT2
    · rw [if_pos h2] at h; cases h; subst h2; decide
    · rw [if_neg h2] at h
      by_cases h4 : c = FOURCC_DXT4
      · rw [if_pos h4] at h; cases h; subst h4; decide
      · rw [if_neg h4] at h
        exact (fourCCToDxgi_px_table _ (lookup_mem h)).symm
  | mask m =>
    simp only [Dx9PixelFormat.toDxgi?] at h
    obtain ⟨r, hr, hf⟩ := findSome_mem h
    obtain ⟨pm, od, fm⟩ := r
    simp only at hf
    by_cases hm : pm = m
    · rw [if_pos hm] at hf
      subst hm
      exact (knownPixelFormats_px_table _ hr d hf).symm
    · rw [if_neg hm] at hf; cases hf


/-! ### DX9 <-> DX10: layout -/

def LayoutHeader.withKind (hd : LayoutHeader) (k : HeaderKind) : LayoutHeader := { hd with kind := k }

theorem popCount6_63 : popCount6 63 = 6 := by decide

theorem layoutOf_dx9_dx10 (hd : LayoutHeader) (px : PixelInfo) (caps2 : Nat)
    (hfaces : bitSet caps2 CAPS2_CUBE_MAP = true → hasAllFaces caps2 = true) :
    layoutOf (hd.withKind (HeaderKind.dx10 (bitSet caps2 CAPS2_CUBE_MAP)
        (if bitSet caps2 CAPS2_VOLUME then ResDim.tex3D else ResDim.tex2D) 1)) px =
      layoutOf (hd.withKind (HeaderKind.dx9 caps2)) px := by
  unfold layoutOf LayoutHeader.withKind
  simp only
  by_cases hc : caps2 / CAPS2_CUBE_MAP % 2 = 1
  · have hcb : bitSet caps2 CAPS2_CUBE_MAP = true := by simp [bitSet, hc]
    have hf : cubeFacesOfCaps2 caps2 = 63 := by simpa [hasAllFaces] using hfaces hcb
    rw [hcb]
    simp only [if_true, hc]
    by_cases hv : caps2 / CAPS2_VOLUME % 2 = 1
    · have hvb : bitSet caps2 CAPS2_VOLUME = true := by simp [bitSet, hv]
      simp [hvb, hv]
    · have hvb : bitSet caps2 CAPS2_VOLUME = false := by simp [bitSet, hv]
      simp only [hvb, hv, Bool.false_eq_true, if_false, ne_eq, not_true_eq_false, hf, popCount6_63]
      have e : SurfaceLayoutInfo.fromHeader { hd with kind := HeaderKind.dx10 true ResDim.tex2D 1 } px =
          SurfaceLayoutInfo.fromHeader { hd with kind := HeaderKind.dx9 caps2 } px := rfl
      rw [e]
      cases SurfaceLayoutInfo.fromHeader { hd with kind := HeaderKind.dx9 caps2 } px with
      | error e => rfl
      | ok info => simp [ckMul32, U32]
  · have hcb : bitSet caps2 CAPS2_CUBE_MAP = false := by simp [bitSet, hc]
    rw [hcb]
    simp only [Bool.false_eq_true, if_false, hc]
    by_cases hv : caps2 / CAPS2_VOLUME % 2 = 1
    · have hvb : bitSet caps2 CAPS2_VOLUME = true := by simp [bitSet, hv]
      simp only [hvb, if_true, hv]
      rfl
    · have hvb : bitSet caps2 CAPS2_VOLUME = false := by simp [bitSet, hv]
      simp only [hvb, Bool.false_eq_true, if_false, hv]
      have e : SurfaceLayoutInfo.fromHeader { hd with kind := HeaderKind.dx10 false ResDim.tex2D 1 } px =
          SurfaceLayoutInfo.fromHeader { hd with kind := HeaderKind.dx9 caps2 } px := rfl
      rw [e]
      cases SurfaceLayoutInfo.fromHeader { hd with kind := HeaderKind.dx9 caps2 } px with
      | error e => rfl
      | ok info => simp

/-- DX9 -> DX10 keeps the layout (result or error), always -/
theorem Dx9Header.toDx10_layout {y : Dx9Header} {x : Dx10Header} (h : y.toDx10 = some x)
    (px : PixelInfo) :
    layoutOf (Header.dx10 x).toLayoutHeader px = layoutOf (Header.dx9 y).toLayoutHeader px := by
  obtain ⟨e1, e2, e3, e4, e5, _, hf, e6, e7, _⟩ := Dx9Header.toDx10_shape h
  have hcube : bitSet x.miscFlag MISC_TEXTURE_CUBE = bitSet y.caps2 CAPS2_CUBE_MAP := by
    rw [e7]; cases bitSet y.caps2 CAPS2_CUBE_MAP <;> decide
  have := layoutOf_dx9_dx10 ⟨y.width, y.height, y.depth, y.mipmapCount, HeaderKind.dx9 0⟩ px y.caps2
    (fun hc => by
      cases hh : hasAllFaces y.caps2 with
      | true => rfl
      | false => exact absurd ⟨hc, hh⟩ hf)
  simp only [Header.toLayoutHeader, e1, e2, e3, e4, e5, e6, hcube]
  exact this

/-- DX10 -> DX9 keeps the layout for 2D textures, cube maps and volumes; a 1D texture becomes
the 2D texture of the same width x height (its layout differs unless height = 1). -/
theorem Dx10Header.toDx9_layout {x : Dx10Header} {y : Dx9Header} (h : x.toDx9 = some y)
    (px : PixelInfo) :
    layoutOf (Header.dx9 y).toLayoutHeader px =
      layoutOf (Header.dx10 { x with resourceDimension :=
        if x.resourceDimension = .tex1D then .tex2D else x.resourceDimension }).toLayoutHeader px := by
  obtain ⟨e1, e2, e3, e4, e5, hnc, e6, _⟩ := Dx10Header.toDx9_shape h
  simp only [Header.toLayoutHeader, e1, e2, e3, e4, e5, e6]
  cases hcb : bitSet x.miscFlag MISC_TEXTURE_CUBE with
  | true =>
    have hdim : x.resourceDimension = .tex2D := by
      cases hd : x.resourceDimension with
      | tex2D => rfl
      | tex1D => exact absurd ⟨hcb, by rw [hd]; decide⟩ hnc
      | tex3D => exact absurd ⟨hcb, by rw [hd]; decide⟩ hnc
    simp only [hdim, if_true]
    have := layoutOf_dx9_dx10 ⟨x.width, x.height, x.depth, x.mipmapCount, HeaderKind.dx9 0⟩ px (0 ||| (CAPS2_CUBE_MAP ||| CAPS2_ALL_FACES))
      (fun _ => by decide)
    exact this.symm
  | false =>
    simp only [Bool.false_eq_true, if_false]
    cases hd : x.resourceDimension with
    | tex3D =>
      have := layoutOf_dx9_dx10 ⟨x.width, x.height, x.depth, x.mipmapCount, HeaderKind.dx9 0⟩ px CAPS2_VOLUME (fun hc => by cases hc)
      exact this.symm
    | tex2D =>
      have := layoutOf_dx9_dx10 ⟨x.width, x.height, x.depth, x.mipmapCount, HeaderKind.dx9 0⟩ px 0 (fun hc => by cases hc)
      exact this.symm
    | tex1D =>
      have := layoutOf_dx9_dx10 ⟨x.width, x.height, x.depth, x.mipmapCount, HeaderKind.dx9 0⟩ px 0 (fun hc => by cases hc)
      exact this.symm

end Dds
