/-
C13, opacity of BC7 blocks — the DISCRETE control flow of the encoder that bears on it (src/encode/bc7.rs,
src/encode/bc.rs `BC7_UNORM`).  Every f32 result (endpoint fit, `Quantization::pick_best`, `channel_round/floor/ceil`,
the error estimates of `get_best`/`get_best_2`, the errors compared by `pick_best_of_directly`) is a PARAMETER of the
definitions below, never computed: the theorems hold for whatever the float code returns.

The definitions (`bc7ModesTried`, `possiblePBits`, `pickBestStates`, `pickBestOfDirectly`, `pSwap`, `singleAlpha`, …) live
in the model file `Enc13.lean` and are evaluated by the driver on every run: `Enc13.bc7Rule` turns them into a constraint
on the header fields of the emitted block (mode, rotation, p-bits, alpha endpoint fields), which the tie compares with the
fields read back from what `dds::encode` emitted (notes/C13.md, "Tie").  They are also backed by the oracle clause
`opaque-lost` and the self-tests M6, M11–M22 (notes/C13.md).

What is and is not discrete, for a fully opaque, not single-coloured block (the single-coloured one is
`compress_single_color`, proved exact in `Proofs/Bc7Single.lean`):
  * which modes are tried: discrete (`bc7ModesTried`) — never mode 7 at any quality preset;
  * modes 0–3: no alpha is stored, every decoder shows 255 (`Bc7Spec.noalpha_endpoint`);
  * modes 6 (and 7): the p-bit candidates are forced to `[[true, true]]` — discrete (`possiblePBits`,
    `pickBestStates`); the 7-bit (5-bit) alpha endpoint VALUES come from `Quantization::pick_best` on the fitted
    f32 line — float-dependent, NOT proved to be all ones;
  * modes 4, 5 with `Rotation::None`: `single_alpha() = Some(255)`; `round = Alpha::<A>::round(255.0 * (1/255))` is
    float (`channel_round`); the guard `round.promote().a == a` is discrete: if it holds both endpoints are
    `round` and they promote to exactly `a` (`singleAlpha_exact`); the else-branch (floor, ceil, `closest_alpha`)
    is float-dependent;
  * modes 4, 5 with a rotation ≠ None: the constant alpha 255 travels in a COLOUR channel through the float
    endpoint search — float-dependent.  (For an opaque block `RotationSelect::pick_best` even skips `Rotation::None`
    when no rotation is forced, because `r.channel() = 3` is then a constant channel.)
-/
import DdsModel.Enc13
import DdsModel.Proofs.Bc7Opaque
import DdsModel.Proofs.BcFinite
namespace Dds.Enc13
open Dds Dds.Bc

/-! ### which modes are tried (`compress_bc7_block`, bc7.rs lines 95–136; presets: bc.rs lines 480–491, 526) -/

/-- opaque block (`min.a = 255`, hence `max.a = 255`): whenever the options allow at least one of the modes 0–6,
mode 7 is not tried and some mode is; in particular at every quality preset the tried modes are exactly the allowed
modes among 0–6 -/
theorem opaque_modes :
    (∀ allowed, allowed ≤ 255 → allowed &&& 127 ≠ 0 →
      bc7ModesTried 255 255 allowed 0 = allowed &&& 127 ∧ bc7ModesTried 255 255 allowed 0 &&& MODE 7 = 0) ∧
    (∀ q, bc7ModesTried 255 255 (bc7Allowed q) 0 = bc7Allowed q &&& 127 ∧ bc7Allowed q &&& 127 ≠ 0) := by
  constructor
  · intro allowed h
    have := allUpTo (fun allowed => decide (allowed &&& 127 ≠ 0 →
      bc7ModesTried 255 255 allowed 0 = allowed &&& 127 ∧ bc7ModesTried 255 255 allowed 0 &&& MODE 7 = 0)) 255
      (by decide +kernel) allowed h
    exact of_decide_eq_true this
  · intro q; cases q <;> decide

/-- a block that mixes opaque and non-opaque pixels (`min.a < 255 = max.a`) is never tried in mode 6 at the quality
presets (mode 6 shares the index between colour and alpha, so opaque pixels could lose opacity) -/
theorem mixed_no_mode6 : ∀ minA, minA < 255 → ∀ q, bc7ModesTried minA 255 (bc7Allowed q) 0 &&& MODE 6 = 0 := by
  intro minA h q
  have := allUpTo (fun minA => decide (minA < 255 →
    ∀ q ∈ [Quality.fast, .normal, .high, .unreasonable], bc7ModesTried minA 255 (bc7Allowed q) 0 &&& MODE 6 = 0)) 255
    (by decide +kernel) minA (by omega)
  exact of_decide_eq_true this h q (by cases q <;> decide)

/-! ### p-bits of `compress_rgba` (modes 6 and 7): bc7.rs lines 629–631, 757–808, 1574–1580, 1602–1609 -/

/-- the state chosen is one of the states offered -/
theorem pickBestOfDirectly_mem {S : Type} (poss : List S) (err : S → Nat) (s : S)
    (h : pickBestOfDirectly poss err = some s) : s ∈ poss := by
  cases poss with
  | nil => simp [pickBestOfDirectly] at h
  | cons p rest =>
    simp only [pickBestOfDirectly, Option.some.injEq] at h
    subst h
    have key : ∀ (l : List S) (init : Nat × S), (l.foldl (fun (best : Nat × S) p =>
        if err p < best.1 then (err p, p) else best) init).2 = init.2 ∨
        (l.foldl (fun (best : Nat × S) p => if err p < best.1 then (err p, p) else best) init).2 ∈ l := by
      intro l
      induction l with
      | nil => intro init; exact Or.inl rfl
      | cons a l ih =>
        intro init
        rw [List.foldl_cons]
        by_cases hlt : err a < init.1
        · rw [if_pos hlt]
          rcases ih (err a, a) with h | h
          · exact Or.inr (by rw [h]; exact List.mem_cons_self)
          · exact Or.inr (List.mem_cons_of_mem _ h)
        · rw [if_neg hlt]
          rcases ih init with h | h
          · exact Or.inl h
          · exact Or.inr (List.mem_cons_of_mem _ h)
    rcases key rest (err p, p) with h | h
    · rw [h]; exact List.mem_cons_self
    · exact List.mem_cons_of_mem _ h

/-- Fully opaque subset: whatever `max_p_bit_combinations`, the estimates and the errors are, the p-bits chosen by
`compress_rgba` are (1, 1), and they stay (1, 1) under the endpoint swap of `Compressed::mode6` / `mode7`. -/
theorem opaque_pbits (maxComb : Nat) (best1 : List (Bool × Bool) → Bool × Bool)
    (best2 : List (Bool × Bool) → List (Bool × Bool)) (err : Bool × Bool → Nat) (swap : Bool) :
    pickBestStates (possiblePBits true) ALL_UNIQUE maxComb best1 best2 = [(true, true)] ∧
    (pickBestOfDirectly (pickBestStates (possiblePBits true) ALL_UNIQUE maxComb best1 best2) err).map (pSwap · swap) =
      some (true, true) := by
  have h : pickBestStates (possiblePBits true) ALL_UNIQUE maxComb best1 best2 = [(true, true)] := by
    simp [pickBestStates, possiblePBits]
  refine ⟨h, ?_⟩
  rw [h]
  cases swap <;> rfl

/-! ### constant alpha in modes 4 and 5 (`compress_color_separate_alpha_with_rotation`, bc7.rs lines 534–545) -/

/-- exact branch: both stored endpoints promote to exactly `a`, so every interpolation weight gives back `a` -/
theorem singleAlpha_exact (A a round floor ceil : Nat) (h : (singleAlpha A a round floor ceil).2 = true) (w : Nat)
    (hw : w ≤ 64) :
    promoteAlpha A (singleAlpha A a round floor ceil).1.1 = a ∧ promoteAlpha A (singleAlpha A a round floor ceil).1.2 = a ∧
    Bc7Spec.interp (promoteAlpha A (singleAlpha A a round floor ceil).1.1)
      (promoteAlpha A (singleAlpha A a round floor ceil).1.2) w = a := by
  unfold singleAlpha at h ⊢
  by_cases hg : promoteAlpha A round = a
  · simp only [hg, if_true]
    refine ⟨trivial, trivial, ?_⟩
    unfold Bc7Spec.interp
    have : (64 - w) * a + w * a = 64 * a := by rw [← Nat.add_mul]; congr 1; omega
    omega
  · simp [hg] at h

/-- for `a = 255` the guard allows exactly the all-ones endpoint: 63 in mode 4 (6 bits), 255 in mode 5 (8 bits) -/
theorem singleAlpha_opaque_guard :
    (∀ round, round < 64 → (promoteAlpha 6 round = 255 ↔ round = 63)) ∧
    (∀ round, round < 256 → (promoteAlpha 8 round = 255 ↔ round = 255)) := by
  constructor
  · decide
  · intro round _; simp [promoteAlpha]

end Dds.Enc13
