/-
Finite-domain lemmas of C03 (BC1–BC5): every multiply-add rounding constant of the decoders is compared
with the exact rational specification on its whole domain by kernel evaluation (`decide +kernel`).
Domains are the interpolation numerators (≤ 1786 points each), not endpoint pairs.
-/
import DdsModel.BcSpec
namespace Dds.Bc
open Dds.BcSpec (rnd quant)

/-- binary-splitting check of `p` on `lo .. lo+n-1` (keeps the kernel's recursion depth logarithmic) -/
def allRange (p : Nat → Bool) : Nat → Nat → Nat → Bool
  | 0, lo, n => (List.range' lo n).all p
  | d + 1, lo, n =>
    if n ≤ 32 then (List.range' lo n).all p
    else allRange p d lo (n / 2) && allRange p d (lo + n / 2) (n - n / 2)

theorem allRange_sound (p : Nat → Bool) :
    ∀ d lo n, allRange p d lo n = true → ∀ x, lo ≤ x → x < lo + n → p x = true := by
  intro d
  induction d with
  | zero =>
    intro lo n h x h1 h2
    simp only [allRange, List.all_eq_true] at h
    exact h x (by rw [List.mem_range'_1]; omega)
  | succ d ih =>
    intro lo n h x h1 h2
    unfold allRange at h
    by_cases hn : n ≤ 32
    · rw [if_pos hn] at h
      simp only [List.all_eq_true] at h
      exact h x (by rw [List.mem_range'_1]; omega)
    · rw [if_neg hn] at h
      simp only [Bool.and_eq_true] at h
      by_cases hx : x < lo + n / 2
      · exact ih lo (n / 2) h.1 x h1 hx
      · exact ih (lo + n / 2) (n - n / 2) h.2 x (by omega) (by omega)

/-- `p` holds on `0..n` once the checker says so -/
theorem allUpTo (p : Nat → Bool) (n : Nat) (h : allRange p 20 0 (n + 1) = true) :
    ∀ x, x ≤ n → p x = true := fun x hx => allRange_sound p 20 0 (n + 1) h x (Nat.zero_le _) (by omega)

/-- `n/d` as a rational -/
def frac (n d : Nat) : Rat := (n : Rat) / (d : Rat)

theorem interp_eq (w0 w1 e0 e1 m : Nat) :
    BcSpec.interp w0 w1 e0 e1 m = frac (w0 * e0 + w1 * e1) ((w0 + w1) * m) := rfl

/-! ### 5- and 6-bit colour channels (8 bit) -/

theorem n5n8_fin : ∀ n, n ≤ 31 → (n5n8 n == rnd (255 * frac n 31)) = true :=
  allUpTo _ 31 (by decide +kernel)
theorem n6n8_fin : ∀ n, n ≤ 63 → (n6n8 n == rnd (255 * frac n 63)) = true :=
  allUpTo _ 63 (by decide +kernel)
theorem third5_fin : ∀ n, n ≤ 93 →
    (w8 (w16 (w16 (n * 351) + 61) >>> 7) == rnd (255 * frac n 93)) = true :=
  allUpTo _ 93 (by decide +kernel)
theorem third6_fin : ∀ n, n ≤ 189 →
    (w8 (w32 (w32 (n * 2763) + 1039) >>> 11) == rnd (255 * frac n 189)) = true :=
  allUpTo _ 189 (by decide +kernel)
theorem mid5_fin : ∀ n, n ≤ 62 →
    (w8 (w16 (w16 (n * 1053) + 125) >>> 8) == rnd (255 * frac n 62)) = true :=
  allUpTo _ 62 (by decide +kernel)
theorem mid6_fin : ∀ n, n ≤ 126 →
    (w8 (w32 (w32 (n * 4145) + 1019) >>> 11) == rnd (255 * frac n 126)) = true :=
  allUpTo _ 126 (by decide +kernel)
theorem n4n8_fin : ∀ n, n ≤ 15 → (n4n8 n == rnd (255 * frac n 15)) = true :=
  allUpTo _ 15 (by decide +kernel)

/-! ### widening of an 8-bit value -/

theorem widen_fin (pr : Prec) : ∀ v, v ≤ 255 → (widen pr v == BcSpec.widen pr v) = true := by
  cases pr
  · exact allUpTo _ 255 (by decide +kernel)
  · exact allUpTo _ 255 (by decide +kernel)
  · exact allUpTo _ 255 (by decide +kernel)

/-! ### BC4 UNORM -/

theorem u_byte_fin (pr : Prec) : ∀ n, n ≤ 255 →
    ((bc4uOps pr).fromByte n == quant pr (frac n 255)) = true := by
  cases pr
  · exact allUpTo _ 255 (by decide +kernel)
  · exact allUpTo _ 255 (by decide +kernel)
  · exact allUpTo _ 255 (by decide +kernel)
theorem u6_fin (pr : Prec) : ∀ n, n ≤ 1785 →
    ((bc4uOps pr).interp6 n == quant pr (frac n 1785)) = true := by
  cases pr
  · exact allUpTo _ 1785 (by decide +kernel)
  · exact allUpTo _ 1785 (by decide +kernel)
  · exact allUpTo _ 1785 (by decide +kernel)
theorem u4_fin (pr : Prec) : ∀ n, n ≤ 1275 →
    ((bc4uOps pr).interp4 n == quant pr (frac n 1275)) = true := by
  cases pr
  · exact allUpTo _ 1275 (by decide +kernel)
  · exact allUpTo _ 1275 (by decide +kernel)
  · exact allUpTo _ 1275 (by decide +kernel)

/-! ### BC4 SNORM -/

theorem s_norm_fin : ∀ n, n ≤ 255 → (s8norm n == BcSpec.snormU n && decide (s8norm n ≤ 254)) = true :=
  allUpTo _ 255 (by decide +kernel)
theorem s_byte_fin (pr : Prec) : ∀ n, n ≤ 255 →
    ((bc4sOps pr).fromByte n == quant pr (frac (BcSpec.snormU n) 254)) = true := by
  cases pr
  · exact allUpTo _ 255 (by decide +kernel)
  · exact allUpTo _ 255 (by decide +kernel)
  · exact allUpTo _ 255 (by decide +kernel)
theorem s6_fin (pr : Prec) : ∀ n, n ≤ 1778 →
    ((bc4sOps pr).interp6 n == quant pr (frac n 1778)) = true := by
  cases pr
  · exact allUpTo _ 1778 (by decide +kernel)
  · exact allUpTo _ 1778 (by decide +kernel)
  · exact allUpTo _ 1778 (by decide +kernel)
theorem s4_fin (pr : Prec) : ∀ n, n ≤ 1270 →
    ((bc4sOps pr).interp4 n == quant pr (frac n 1270)) = true := by
  cases pr
  · exact allUpTo _ 1270 (by decide +kernel)
  · exact allUpTo _ 1270 (by decide +kernel)
  · exact allUpTo _ 1270 (by decide +kernel)

/-- the `Norm` constants are the quantised 0, 1/2, 1 -/
theorem consts_fin (pr : Prec) :
    (bc4uOps pr).zero = quant pr 0 ∧ (bc4uOps pr).one = quant pr 1 ∧
    (bc4sOps pr).zero = quant pr 0 ∧ (bc4sOps pr).one = quant pr 1 ∧
    (bc4sOps pr).half = quant pr (1 / 2) := by
  cases pr <;> decide +kernel

end Dds.Bc
