/-
Helper lemmas for the struct-level builder methods of `Dx9Header` / `Dx10Header`
(`Header.applyStructOps`, C09).  No property statements here.
-/
import DdsModel.HeaderTables
namespace Dds

/-- `WF` without the one cross-field clause a struct-level chain can break (3D texture ⇒ array size 1) -/
def Header.WF0 : Header → Prop
  | .dx9 h => (Header.dx9 h).WF
  | .dx10 h => h.width < U32 ∧ h.height < U32 ∧ optLt h.depth U32 ∧ 1 ≤ h.mipmapCount ∧
      h.mipmapCount < U32 ∧ dxgiValid h.dxgiFormat = true ∧ h.miscFlag < U32 ∧ h.arraySize < U32

/-- the cross-field clause -/
def Header.ArrayOk : Header → Prop
  | .dx9 _ => True
  | .dx10 h => h.resourceDimension = .tex3D → h.arraySize = 1

instance (h : Header) : Decidable h.ArrayOk := by
  cases h <;> unfold Header.ArrayOk <;> exact inferInstance

theorem Header.WF_iff (h : Header) : h.WF ↔ h.WF0 ∧ h.ArrayOk := by
  cases h with
  | dx9 x => simp [Header.WF0, Header.ArrayOk]
  | dx10 x =>
    simp only [Header.WF, Header.WF0, Header.ArrayOk]
    constructor
    · rintro ⟨a, b, c, d, e, f, g, h, i⟩; exact ⟨⟨a, b, c, d, e, f, g, h⟩, i⟩
    · rintro ⟨⟨a, b, c, d, e, f, g, h⟩, i⟩; exact ⟨a, b, c, d, e, f, g, h, i⟩

theorem cubeFacesCaps_lt (caps2 f : Nat) :
    ((caps2 &&& (CAPS2_KNOWN - CAPS2_ALL_FACES)) ||| CAPS2_CUBE_MAP ||| ((f % 64) <<< 10)) < U32 := by
  have h1 : caps2 &&& (CAPS2_KNOWN - CAPS2_ALL_FACES) < 2 ^ 32 :=
    Nat.lt_of_le_of_lt Nat.and_le_right (by decide)
  have h2 : CAPS2_CUBE_MAP < 2 ^ 32 := by decide
  have h3 : (f % 64) <<< 10 < 2 ^ 32 := by
    rw [Nat.shiftLeft_eq]
    have : f % 64 < 64 := Nat.mod_lt _ (by decide)
    omega
  show _ < 2 ^ 32
  exact Nat.or_lt_two_pow (Nat.or_lt_two_pow h1 h2) h3

theorem Header.applyStructOp_WF0 {h h' : Header} {op : StructOp} (hwf : h.WF0) (hr : op.InRange)
    (ha : h.applyStructOp op = some h') : h'.WF0 := by
  cases h with
  | dx9 x =>
    obtain ⟨a, b, c, d, e, f, g⟩ := hwf
    cases op <;> simp only [Header.applyStructOp, Dx9Header.applyStructOp, Option.map_some, Option.map_none,
      Option.some.injEq, reduceCtorEq] at ha <;> subst ha <;> simp only [StructOp.InRange] at hr
    · exact ⟨hr.1, hr.2, trivial, d, e, f, g⟩
    · exact ⟨hr.1, hr.2.1, hr.2.2, d, e, f, g⟩
    · exact ⟨a, b, c, hr.1, hr.2, f, g⟩
    · exact ⟨a, b, c, d, e, cubeFacesCaps_lt _ _, g⟩
    · exact ⟨a, b, c, d, e, f, hr⟩
  | dx10 x =>
    obtain ⟨a, b, c, d, e, f, g, i⟩ := hwf
    cases op <;> simp only [Header.applyStructOp, Dx10Header.applyStructOp, Option.map_some, Option.map_none,
      Option.some.injEq, reduceCtorEq] at ha <;> subst ha <;> simp only [StructOp.InRange] at hr
    · exact ⟨hr.1, hr.2, trivial, d, e, f, g, i⟩
    · exact ⟨hr.1, hr.2.1, hr.2.2, d, e, f, g, i⟩
    · exact ⟨a, b, c, hr.1, hr.2, f, g, i⟩
    · exact ⟨a, b, c, d, e, hr, g, i⟩
    · exact ⟨a, b, c, d, e, f, g, i⟩
    · exact ⟨a, b, c, d, e, f, hr, i⟩
    · exact ⟨a, b, c, d, e, f, g, hr⟩
    · exact ⟨a, b, c, d, e, f, g, i⟩

theorem Header.applyStructOps_WF0 : ∀ (ops : List StructOp) {h h' : Header}, h.WF0 →
    (∀ op ∈ ops, op.InRange) → h.applyStructOps ops = some h' → h'.WF0 := by
  intro ops
  induction ops with
  | nil => intro h h' hwf _ ha; cases ha; exact hwf
  | cons op ops ih =>
    intro h h' hwf hr ha
    unfold Header.applyStructOps at ha
    cases hop : h.applyStructOp op with
    | none => rw [hop] at ha; cases ha
    | some h1 =>
      rw [hop] at ha
      exact ih (Header.applyStructOp_WF0 hwf (hr op (List.mem_cons_self ..)) hop)
        (fun o ho => hr o (List.mem_cons_of_mem _ ho)) ha

/-- the struct-level constructors build well-formed headers -/
theorem Dx9Header.new_WF (k : CtorKind) (w h d : Nat) (p : Dx9PixelFormat) (hw : w < U32) (hh : h < U32)
    (hd : d < U32) (hp : p.WF) : (Header.dx9 (Dx9Header.new k w h d p)).WF := by
  cases k
  · exact ⟨hw, hh, trivial, Nat.le_refl 1, (by show 1 < U32; decide), (by show 0 < U32; decide), hp⟩
  · exact ⟨hw, hh, hd, Nat.le_refl 1, (by show 1 < U32; decide), (by show CAPS2_VOLUME < U32; decide), hp⟩
  · exact ⟨hw, hh, trivial, Nat.le_refl 1, (by show 1 < U32; decide),
      (by show CAPS2_CUBE_MAP ||| CAPS2_ALL_FACES < U32; decide), hp⟩

theorem Dx10Header.new_WF (k : CtorKind) (w h d c : Nat) (hw : w < U32) (hh : h < U32)
    (hd : d < U32) (hv : dxgiValid c = true) : (Header.dx10 (Dx10Header.new k w h d c)).WF := by
  cases k
  · exact ⟨hw, hh, trivial, Nat.le_refl 1, (by show 1 < U32; decide), hv, (by show 0 < U32; decide),
      (by show 1 < U32; decide), fun h => by cases h⟩
  · exact ⟨hw, hh, hd, Nat.le_refl 1, (by show 1 < U32; decide), hv, (by show 0 < U32; decide),
      (by show 1 < U32; decide), fun _ => rfl⟩
  · exact ⟨hw, hh, trivial, Nat.le_refl 1, (by show 1 < U32; decide), hv,
      (by show MISC_TEXTURE_CUBE < U32; decide), (by show 1 < U32; decide), fun h => by cases h⟩

end Dds
