/-
C15, R9G9B9E5: one channel of `rgb9995f::from_f32` — `(c * two_powi(24 - exp) + 0.5) as u32`
for a clamped channel `c` and the shared exponent `exp` read from the bits of the largest
channel — and the clamp / maximum that precede it.
-/
import DdsModel.Proofs.SharedExpOps
namespace Dds.EncTotal.SharedExp
open Dds.CF32

/-! ### `(p + 0.5) as u32` below a bound -/

/-- `p ≤ β = T·2^23 + F` (a pattern in the binade of exponent field `T`); `N` is the significand
of `β + 0.5` in the same binade (`hN`), `n` bounds its integer part (`hn1`) -/
theorem castAddHalf_le (M p T F N n : Nat) (hp : p ≤ T * 2 ^ 23 + F) (hF : F < 2 ^ 23)
    (hT1 : 127 ≤ T) (hT2 : T ≤ 148) (hN1 : 2 ^ 23 ≤ N) (hN2 : N < 2 ^ 24)
    (hN : (2 ^ 23 + F) * 2 ^ (T - 126) + 2 ^ 23 ≤ N * 2 ^ (T - 126))
    (hn1 : N >>> (150 - T) ≤ n) (hn2 : 2 ^ (T - 127) ≤ n) :
    toNatSat (fadd p half) M ≤ n := by
  have hTle : T * 2 ^ 23 ≤ 148 * 2 ^ 23 := Nat.mul_le_mul_right _ hT2
  have hpinf : p < posInf := by
    have : 148 * 2 ^ 23 + 2 ^ 23 < posInf := by decide
    omega
  have hEp : expField p ≤ T := by
    have h1 : p < (T + 1) * 2 ^ 23 := by rw [Nat.add_mul]; omega
    rw [expField_eq]
    have : p / 8388608 < T + 1 := Nat.div_lt_of_lt_mul (by rw [Nat.mul_comm]; exact h1)
    have := Nat.mod_le (p / 8388608) 256
    omega
  -- the sum
  have hs : fadd p half ≤ (T - 127 + 126) * 2 ^ 23 + N := by
    apply fadd_half_le p (T - 127) N hpinf hN1 hN2
    intro hY
    have e1 : T - 127 + 1 = T - 126 := by omega
    rw [e1]
    refine Nat.le_trans (Nat.add_le_add_right ?_ _) hN
    obtain ⟨m1, _⟩ := mant_normal p (by omega)
    have hsplit := pattern_split p hpinf
    by_cases hYT : expField p = T
    · rw [hYT] at hsplit ⊢
      apply Nat.mul_le_mul_right
      rw [m1]
      have : (8388608 : Nat) = 2 ^ 23 := by simp
      omega
    · have h1 : 2 ^ (expField p - 126) ≤ 2 ^ (T - 127) :=
        Nat.pow_le_pow_right (by omega) (by omega)
      have h2 : mant p * 2 ^ (expField p - 126) ≤ 2 ^ 24 * 2 ^ (T - 127) :=
        Nat.mul_le_mul (Nat.le_of_lt (mant_lt p)) h1
      have h3 : 2 ^ 24 * 2 ^ (T - 127) = 2 ^ 23 * 2 ^ (T - 126) := by
        rw [← Nat.pow_add, ← Nat.pow_add, show 24 + (T - 127) = 23 + (T - 126) by omega]
      rw [h3] at h2
      exact Nat.le_trans h2 (Nat.mul_le_mul_right _ (by omega))
  have e2 : T - 127 + 126 = T - 1 := by omega
  rw [e2] at hs
  have hT1' : (T - 1) * 2 ^ 23 + 2 ^ 23 = T * 2 ^ 23 := by
    have : T = (T - 1) + 1 := by omega
    conv => rhs; rw [this, Nat.add_mul, Nat.one_mul]
  generalize hsdef : fadd p half = s at *
  have hsinf : s < posInf := by
    have : 148 * 2 ^ 23 + 2 ^ 24 < posInf := by decide
    omega
  have hsplit := pattern_split s hsinf
  have hEs : expField s ≤ T := by
    have h1 : s < (T + 1) * 2 ^ 23 := by rw [Nat.add_mul]; omega
    rw [expField_eq]
    have : s / 8388608 < T + 1 := Nat.div_lt_of_lt_mul (by rw [Nat.mul_comm]; exact h1)
    have := Nat.mod_le (s / 8388608) 256
    omega
  apply toNatSat_le s T n _ hsinf hEs hT1 (by omega) _ hn2
  intro hY
  obtain ⟨m1, _⟩ := mant_normal s (by omega)
  have hm : mant s ≤ N := by
    rw [m1]
    rw [hY] at hsplit
    have : (8388608 : Nat) = 2 ^ 23 := by simp
    omega
  rw [Nat.shiftRight_eq_div_pow] at hn1 ⊢
  exact Nat.le_trans (Nat.div_le_div_right hm) hn1

/-! ### one channel -/

theorem mant_ne_zero (c : Nat) (h1 : 1 ≤ c) (h2 : c < posInf) : mant c ≠ 0 := by
  by_cases hX : 1 ≤ expField c
  · rw [(mant_normal c hX).1]; omega
  · rw [(mant_subnormal c (by omega)).1]
    have := pattern_split c h2
    have : expField c = 0 := by omega
    omega

theorem c65408_lt : c65408 < posInf := by decide

/-- a zero channel (either sign) has mantissa 0 at every scale -/
theorem mantOf_zero (c : Nat) (n : Int) (hc : c = 0 ∨ c = signBit) (h1 : -126 ≤ n) (h2 : n ≤ 127) :
    mantOf c (twoPowi n) = 0 := by
  unfold mantOf
  rw [fmul_zero c n hc h1 h2]
  rcases hc with rfl | rfl <;> decide +kernel

/-- **first pass.**  A channel whose exponent field is at most `exp + 111` (the field of the
maximum, from which `exp` was computed) has `c · 2^(24−exp) < 512`, the rounded product is at most
`512.0`, the rounded sum at most `512.5`, the cast at most 512. -/
theorem mantOf_le_first (c exp : Nat) (hc1 : 1 ≤ c) (hc2 : c ≤ c65408) (he : exp ≤ 31)
    (hX : expField c ≤ exp + 111) : mantOf c (twoPowi (24 - exp)) ≤ 512 := by
  have hc : c < posInf := Nat.lt_of_le_of_lt hc2 c65408_lt
  have hp := fmul_twoPowi_le c (24 - exp) 8 hc (mant_ne_zero c hc1 hc) (by omega) (by omega)
    (by omega) (by omega)
  rw [show ((8 : Int) + 128).toNat = 136 from rfl] at hp
  unfold mantOf
  exact castAddHalf_le _ _ 136 0 (2 ^ 23 + 2 ^ 13) 512 hp (by decide) (by decide) (by decide)
    (by decide) (by decide) (by decide) (by decide) (by decide)

/-- **second pass** (`exp` is the incremented exponent): `c · 2^(24−exp) < 256`, mantissa ≤ 256 -/
theorem mantOf_le_second (c exp : Nat) (hc1 : 1 ≤ c) (hc2 : c ≤ c65408) (he : exp ≤ 32)
    (hX : expField c ≤ exp + 110) : mantOf c (twoPowi (24 - exp)) ≤ 256 := by
  have hc : c < posInf := Nat.lt_of_le_of_lt hc2 c65408_lt
  have hp := fmul_twoPowi_le c (24 - exp) 7 hc (mant_ne_zero c hc1 hc) (by omega) (by omega)
    (by omega) (by omega)
  rw [show ((7 : Int) + 128).toNat = 135 from rfl] at hp
  unfold mantOf
  exact castAddHalf_le _ _ 135 0 (2 ^ 23 + 2 ^ 14) 256 hp (by decide) (by decide) (by decide)
    (by decide) (by decide) (by decide) (by decide) (by decide)

/-- **top exponent.**  With `exp = 31` the clamp to `65408 = 511·2^7` gives `c · 2^-7 ≤ 511`
(exactly: the product is exact in the top binade), the sum is at most `511.5`, the cast at most
511: the first pass cannot produce 512 there, so `exp` never becomes 32. -/
theorem mantOf_le_top (c : Nat) (hc1 : 1 ≤ c) (hc2 : c ≤ c65408) :
    mantOf c (twoPowi (24 - (31 : Nat))) ≤ 511 := by
  have hc : c < posInf := Nat.lt_of_le_of_lt hc2 c65408_lt
  have hn : ((24 : Int) - (31 : Nat)) = -7 := rfl
  rw [hn]
  have hXle : expField c ≤ 142 := by
    rw [expField_eq]; simp only [c65408] at hc2; omega
  have hp : fmul c (twoPowi (-7)) ≤ 135 * 2 ^ 23 + 0x7F8000 := by
    by_cases hX : expField c = 142
    · rw [fmul_twoPowi_exact c (-7) hc (by omega) (by omega) (by omega) (by omega) (by omega), hX]
      rw [show (((142 : Nat) : Int) + -7).toNat = 135 from rfl]
      have := pattern_split c hc
      rw [hX] at this
      simp only [c65408] at hc2
      omega
    · have := fmul_twoPowi_le c (-7) 7 hc (mant_ne_zero c hc1 hc) (by omega) (by omega)
        (by omega) (by omega)
      rw [show ((7 : Int) + 128).toNat = 135 from rfl] at this
      omega
  unfold mantOf
  exact castAddHalf_le _ _ 135 0x7F8000 0xFFC000 511 hp (by decide) (by decide) (by decide)
    (by decide) (by decide) (by decide) (by decide) (by decide)

/-! ### the clamp and the maximum -/

/-- what `clamp_0_max(·, 65408.0)` returns: `-0.0`, or a non-negative pattern up to 65408.0 -/
def Clamped (c : Nat) : Prop := c = signBit ∨ c ≤ c65408

theorem isNaN_iff (x : Nat) : isNaN x = true ↔ (x / 8388608 % 256 = 255 ∧ x % 8388608 ≠ 0) := by
  unfold isNaN; rw [expField_eq, fracField_eq]; simp

theorem isNaN_of_le (x : Nat) (h : x ≤ posInf) : isNaN x = false := by
  apply Bool.eq_false_iff.mpr
  rw [Ne, isNaN_iff]
  simp only [posInf] at h
  omega

theorem key_of_lt (x : Nat) (h : x < signBit) : key x = x := by
  unfold key isNeg
  simp only [signBit] at h ⊢
  simp; omega

theorem key_signBit : key signBit = 0 := by decide

theorem key_of_ge (x : Nat) (h : signBit ≤ x) : key x = -((x - signBit : Nat) : Int) := by
  unfold key isNeg
  simp [h]

/-- `value.max(0.0)` of ANY pattern: `-0.0` (only from `-0.0`, if `max` returns that operand), or
a non-negative non-NaN pattern -/
theorem fmax0_spec (tie : Bool) (x : Nat) : fmax tie x 0 = signBit ∨ fmax tie x 0 ≤ posInf := by
  unfold fmax
  by_cases hn : isNaN x = true
  · rw [if_pos hn]; right; exact Nat.zero_le _
  · rw [if_neg hn, if_neg (by decide : ¬ (isNaN 0 = true))]
    have hn' : isNaN x = false := by simpa using hn
    have hk0 : key 0 = 0 := by decide
    have hnan0 : isNaN 0 = false := by decide
    by_cases h1 : flt x 0 = true
    · rw [if_pos h1]; right; exact Nat.zero_le _
    · rw [if_neg h1]
      by_cases h2 : flt 0 x = true
      · rw [if_pos h2]
        right
        simp only [flt, hn', hnan0, hk0, Bool.not_false, Bool.true_and, decide_eq_true_eq] at h2
        by_cases hs : x < signBit
        · apply Classical.byContradiction
          intro hc
          have : ¬ (x / 8388608 % 256 = 255 ∧ x % 8388608 ≠ 0) := fun h => hn ((isNaN_iff x).mpr h)
          simp only [signBit, posInf] at hs hc
          omega
        · rw [key_of_ge x (by omega)] at h2
          omega
      · rw [if_neg h2]
        simp only [flt, hn', hnan0, hk0, Bool.not_false, Bool.true_and, decide_eq_true_eq] at h1 h2
        have hk : key x = 0 := by omega
        have hx : x = 0 ∨ x = signBit := by
          by_cases hs : x < signBit
          · rw [key_of_lt x hs] at hk; left; omega
          · rw [key_of_ge x (by omega)] at hk; right; omega
        cases tie
        · right; exact Nat.zero_le _
        · rcases hx with h | h
          · right; simp [h]
          · left; simp [h]

theorem clamp_spec (tie : Bool) (x : Nat) : Clamped (clamp0Max tie x) := by
  unfold clamp0Max
  have hC : isNaN c65408 = false := by decide
  have hkC : key c65408 = (c65408 : Int) := by decide
  rcases fmax0_spec tie x with h | h
  · rw [h]
    left
    decide
  · generalize fmax tie x 0 = y at h
    have hy := isNaN_of_le y h
    have hky : key y = y := key_of_lt y (by simp only [posInf, signBit] at *; omega)
    unfold fmin
    simp only [hy, hC, Bool.false_eq_true, if_false, flt, Bool.not_false, Bool.true_and, hky, hkC,
      decide_eq_true_eq]
    by_cases hlt : (c65408 : Int) < (y : Int)
    · rw [if_pos hlt]; right; exact Nat.le_refl _
    · rw [if_neg hlt]; right; omega

/-- magnitude bits -/
def mag (c : Nat) : Nat := c % signBit

theorem clamped_facts (c : Nat) (h : Clamped c) :
    isNaN c = false ∧ key c = (mag c : Int) ∧ mag c ≤ c65408 ∧ (mag c = 0 ∨ c = mag c) := by
  rcases h with h | h
  · subst h; decide
  · have h2 : c < signBit := by simp only [c65408, signBit] at *; omega
    have hm : mag c = c := by unfold mag; exact Nat.mod_eq_of_lt h2
    refine ⟨isNaN_of_le c (by simp only [c65408, posInf] at *; omega), ?_, ?_, ?_⟩
    · rw [hm]; exact key_of_lt c h2
    · rw [hm]; exact h
    · right; exact hm.symm

/-- `f32::max` of two clamped values is one of them and is at least both (in magnitude = value) -/
theorem fmax_clamped (tie : Bool) (a b : Nat) (ha : Clamped a) (hb : Clamped b) :
    Clamped (fmax tie a b) ∧ mag a ≤ mag (fmax tie a b) ∧ mag b ≤ mag (fmax tie a b) := by
  obtain ⟨a1, a2, _, _⟩ := clamped_facts a ha
  obtain ⟨b1, b2, _, _⟩ := clamped_facts b hb
  unfold fmax
  simp only [a1, b1, Bool.false_eq_true, if_false, flt, Bool.not_false, Bool.true_and, a2, b2,
    decide_eq_true_eq]
  by_cases h1 : (mag a : Int) < (mag b : Int)
  · rw [if_pos h1]; exact ⟨hb, by omega, Nat.le_refl _⟩
  · rw [if_neg h1]
    by_cases h2 : (mag b : Int) < (mag a : Int)
    · rw [if_pos h2]; exact ⟨ha, Nat.le_refl _, by omega⟩
    · rw [if_neg h2]
      cases tie
      · simp only [Bool.false_eq_true, if_false]
        exact ⟨hb, by omega, Nat.le_refl _⟩
      · simp only [if_true]
        exact ⟨ha, Nat.le_refl _, by omega⟩

end Dds.EncTotal.SharedExp
