/-
Helper lemmas for C05: bi-planar family, assembled for every sub-sampling `(ssx, ssy)` with
`ssx, ssy ≥ 1`:
  * `planarHelper_spec'`   `process_bi_planar_helper::<SSX, ..>` for every `SSX` and offset `< SSX`
  * `convPlanar_spec`      `ChannelConversionBuffer::process_bi_planar` (offset chunk + aligned chunks)
  * `mem_planarFull`, `mem_planarRect`   the `while let Some(uv_line)` / `for y_offset` loops with the
                           running row counter `y` (exact membership characterisation)
  * `planarFull_sound/_cover`, `planarRect_sound/_cover`   crop predicates
  * `lastWritePl_crop`, `lastWritePl_outside`
-/
import DdsModel.Proofs.AddrBlock
namespace Dds.Addr
open Dds

/-! ### one row: `process_bi_planar_helper` -/

/-- contract of one `process_bi_planar` call on a row of `width` pixels whose first pixel sits at
position `offset` inside its macro pixel: every run stays in the row, reads luma sample `col + t` of
the plane-1 slice for output pixel `col + t`, feeds slots `px .. px+n` of ONE macro pixel
(`px + n ≤ ssx`), and that macro pixel is chroma sample `cx` of the plane-2 slice with
`cx·ssx ≤ offset + col` and `offset + col + n ≤ (cx+1)·ssx`, i.e. `cx = (offset + c) / ssx` for every
pixel `c` of the run; every pixel of the row is written. -/
structure PlRowSpec' (ssx offset width yoff : Nat) (runs : List PlRun) : Prop where
  sound : ∀ r ∈ runs, r.row = 0 ∧ r.ly = 0 ∧ r.cy = 0 ∧ r.yoff = yoff ∧ r.col + r.n ≤ width ∧ r.lx = r.col ∧
    r.px + r.n ≤ ssx ∧ r.cx * ssx ≤ offset + r.col ∧ offset + r.col + r.n ≤ (r.cx + 1) * ssx
  cover : ∀ c, c < width → ∃ r ∈ runs, r.col ≤ c ∧ c < r.col + r.n

/-- the "full macro pixels" and "rest" parts of `process_bi_planar_helper` after the offset part:
`d` output pixels and `dc` chroma samples have been consumed, `width'` pixels remain -/
def plTail (ssx d dc width' yoff : Nat) : List PlRun :=
  ((List.range (width' / ssx)).map fun x => (⟨0, d + x * ssx, ssx, d + x * ssx, 0, dc + x, 0, 0, yoff⟩ : PlRun)) ++
  (if width' - width' / ssx * ssx > 0 then
    [⟨0, d + width' / ssx * ssx, width' - width' / ssx * ssx, d + width' / ssx * ssx, 0, dc + width' / ssx, 0, 0, yoff⟩]
   else [])

theorem planarHelper_eq (ssx offset width yoff : Nat) :
    planarHelper ssx offset width yoff =
      (if offset > 0 then [(⟨0, 0, min (ssx - offset) width, 0, 0, 0, 0, 0, yoff⟩ : PlRun)] else []) ++
      plTail ssx (if offset > 0 then min (ssx - offset) width else 0) (if offset > 0 then 1 else 0)
        (if offset > 0 then width - min (ssx - offset) width else width) yoff := by
  unfold planarHelper plTail
  simp only [List.append_assoc]

theorem plTail_sound (ssx offset d dc width' yoff : Nat) (hs : 0 < ssx)
    (hal : 0 < width' → offset + d = dc * ssx) :
    ∀ r ∈ plTail ssx d dc width' yoff, r.row = 0 ∧ r.ly = 0 ∧ r.cy = 0 ∧ r.yoff = yoff ∧ d ≤ r.col ∧
      r.col + r.n ≤ d + width' ∧ r.lx = r.col ∧ r.px + r.n ≤ ssx ∧ r.cx * ssx ≤ offset + r.col ∧
      offset + r.col + r.n ≤ (r.cx + 1) * ssx := by
  intro r hr
  unfold plTail at hr
  have q1 : width' / ssx * ssx ≤ width' := Nat.div_mul_le_self _ _
  have q2 : width' < width' / ssx * ssx + ssx := Nat.lt_div_mul_add hs
  simp only [List.mem_append, List.mem_map, List.mem_range] at hr
  rcases hr with ⟨x, hx, rfl⟩ | hr
  · have hx' : (x + 1) * ssx ≤ width' / ssx * ssx := Nat.mul_le_mul_right ssx hx
    rw [Nat.succ_mul] at hx'
    have ha := hal (by omega)
    have e1 : (dc + x) * ssx = dc * ssx + x * ssx := Nat.add_mul _ _ _
    have e2 : (dc + x + 1) * ssx = dc * ssx + x * ssx + ssx := by rw [Nat.succ_mul, e1]
    refine ⟨rfl, rfl, rfl, rfl, ?_, ?_, rfl, ?_, ?_, ?_⟩
    · show d ≤ d + x * ssx; omega
    · show d + x * ssx + ssx ≤ d + width'; omega
    · show 0 + ssx ≤ ssx; omega
    · show (dc + x) * ssx ≤ offset + (d + x * ssx); omega
    · show offset + (d + x * ssx) + ssx ≤ (dc + x + 1) * ssx; omega
  · by_cases hl : width' - width' / ssx * ssx > 0
    · rw [if_pos hl] at hr
      simp only [List.mem_singleton] at hr
      subst hr
      have ha := hal (by omega)
      have e1 : (dc + width' / ssx) * ssx = dc * ssx + width' / ssx * ssx := Nat.add_mul _ _ _
      have e2 : (dc + width' / ssx + 1) * ssx = dc * ssx + width' / ssx * ssx + ssx := by rw [Nat.succ_mul, e1]
      refine ⟨rfl, rfl, rfl, rfl, ?_, ?_, rfl, ?_, ?_, ?_⟩
      · show d ≤ d + width' / ssx * ssx; omega
      · show d + width' / ssx * ssx + (width' - width' / ssx * ssx) ≤ d + width'; omega
      · show 0 + (width' - width' / ssx * ssx) ≤ ssx; omega
      · show (dc + width' / ssx) * ssx ≤ offset + (d + width' / ssx * ssx); omega
      · show offset + (d + width' / ssx * ssx) + (width' - width' / ssx * ssx) ≤ (dc + width' / ssx + 1) * ssx
        omega
    · rw [if_neg hl] at hr; simp at hr

theorem plTail_cover (ssx d dc width' yoff : Nat) (hs : 0 < ssx) :
    ∀ c, d ≤ c → c < d + width' → ∃ r ∈ plTail ssx d dc width' yoff, r.col ≤ c ∧ c < r.col + r.n := by
  intro c hc1 hc2
  unfold plTail
  have q1 : width' / ssx * ssx ≤ width' := Nat.div_mul_le_self _ _
  have q2 : width' < width' / ssx * ssx + ssx := Nat.lt_div_mul_add hs
  have c1 : (c - d) / ssx * ssx ≤ c - d := Nat.div_mul_le_self _ _
  have c2 : c - d < (c - d) / ssx * ssx + ssx := Nat.lt_div_mul_add hs
  simp only [List.mem_append, List.mem_map, List.mem_range]
  by_cases hp : (c - d) / ssx < width' / ssx
  · exact ⟨⟨0, d + (c - d) / ssx * ssx, ssx, d + (c - d) / ssx * ssx, 0, dc + (c - d) / ssx, 0, 0, yoff⟩,
      Or.inl ⟨_, hp, rfl⟩, by show d + (c - d) / ssx * ssx ≤ c; omega,
      by show c < d + (c - d) / ssx * ssx + ssx; omega⟩
  · have hge : width' / ssx * ssx ≤ (c - d) / ssx * ssx := Nat.mul_le_mul_right ssx (by omega)
    have hl : width' - width' / ssx * ssx > 0 := by omega
    refine ⟨⟨0, d + width' / ssx * ssx, width' - width' / ssx * ssx, d + width' / ssx * ssx, 0,
      dc + width' / ssx, 0, 0, yoff⟩, Or.inr ?_, ?_, ?_⟩
    · rw [if_pos hl]; simp
    · show d + width' / ssx * ssx ≤ c; omega
    · show c < d + width' / ssx * ssx + (width' - width' / ssx * ssx); omega

/-- `process_bi_planar_helper::<SSX, ..>` for every `SSX ≥ 1` and every offset `< SSX` -/
theorem planarHelper_spec' (ssx offset width yoff : Nat) (hs : 0 < ssx) (ho : offset < ssx) :
    PlRowSpec' ssx offset width yoff (planarHelper ssx offset width yoff) := by
  rw [planarHelper_eq]
  by_cases h0 : offset > 0
  · simp only [h0, if_true]
    have hts := plTail_sound ssx offset (min (ssx - offset) width) 1 (width - min (ssx - offset) width) yoff hs
      (by intro h; omega)
    have htc := plTail_cover ssx (min (ssx - offset) width) 1 (width - min (ssx - offset) width) yoff hs
    constructor
    · intro r hr
      simp only [List.mem_append, List.mem_singleton] at hr
      rcases hr with rfl | hr
      · refine ⟨rfl, rfl, rfl, rfl, ?_, rfl, ?_, ?_, ?_⟩
        · show 0 + min (ssx - offset) width ≤ width; omega
        · show 0 + min (ssx - offset) width ≤ ssx; omega
        · show 0 * ssx ≤ offset + 0; omega
        · show offset + 0 + min (ssx - offset) width ≤ (0 + 1) * ssx; omega
      · obtain ⟨a1, a2, a3, a4, a5, a6, a7, a8, a9, a10⟩ := hts r hr
        exact ⟨a1, a2, a3, a4, by omega, a7, a8, a9, a10⟩
    · intro c hc
      by_cases hc0 : c < min (ssx - offset) width
      · exact ⟨_, List.mem_append.2 (Or.inl (List.mem_singleton.2 rfl)), Nat.zero_le _,
          by show c < 0 + min (ssx - offset) width; omega⟩
      · obtain ⟨r, hr, b1, b2⟩ := htc c (by omega) (by omega)
        exact ⟨r, List.mem_append.2 (Or.inr hr), b1, b2⟩
  · have h00 : offset = 0 := by omega
    subst h00
    simp only [Nat.lt_irrefl, if_false, List.nil_append, gt_iff_lt]
    have hts := plTail_sound ssx 0 0 0 width yoff hs (by intro _; omega)
    have htc := plTail_cover ssx 0 0 width yoff hs
    constructor
    · intro r hr
      obtain ⟨a1, a2, a3, a4, a5, a6, a7, a8, a9, a10⟩ := hts r hr
      exact ⟨a1, a2, a3, a4, by omega, a7, a8, a9, a10⟩
    · intro c hc
      exact htc c (Nat.zero_le _) (by omega)

/-! ### one row: `ChannelConversionBuffer::process_bi_planar` -/

/-- the aligned chunks of `process_bi_planar` (after the offset chunk: `d` pixels and `dcx` chroma
samples consumed) -/
def plChunks (ssx d dcx width' pref yoff : Nat) : List PlRun :=
  (stepStarts width' pref).flatMap fun cs =>
    (planarHelper ssx 0 (min (cs + pref) width' - cs) yoff).map
      (PlRun.shift 0 (d + cs) (d + cs) 0 (dcx + cs / ssx) 0)

theorem plChunks_sound (ssx offset d dcx width' pref yoff : Nat) (hs : 0 < ssx) (hp : 0 < pref)
    (hdvd : pref % ssx = 0) (hal : 0 < width' → offset + d = dcx * ssx) :
    ∀ r ∈ plChunks ssx d dcx width' pref yoff, r.row = 0 ∧ r.ly = 0 ∧ r.cy = 0 ∧ r.yoff = yoff ∧ d ≤ r.col ∧
      r.col + r.n ≤ d + width' ∧ r.lx = r.col ∧ r.px + r.n ≤ ssx ∧ r.cx * ssx ≤ offset + r.col ∧
      offset + r.col + r.n ≤ (r.cx + 1) * ssx := by
  intro r hr
  unfold plChunks at hr
  simp only [List.mem_flatMap, List.mem_map] at hr
  obtain ⟨cs, hcs, r0, hr0, rfl⟩ := hr
  obtain ⟨k, hk, rfl⟩ := (mem_stepStarts hp).1 hcs
  have hmul : (k * pref) / ssx * ssx = k * pref :=
    Nat.div_mul_cancel (Nat.dvd_trans (Nat.dvd_of_mod_eq_zero hdvd) (Nat.dvd_mul_left pref k))
  obtain ⟨a1, a2, a3, a4, a5, a6, a7, a8, a9⟩ :=
    (planarHelper_spec' ssx 0 (min (k * pref + pref) width' - k * pref) yoff hs hs).sound r0 hr0
  have ha := hal (by omega)
  have e1 : (r0.cx + (dcx + k * pref / ssx)) * ssx = r0.cx * ssx + (dcx * ssx + k * pref) := by
    rw [Nat.add_mul, Nat.add_mul, hmul]
  have e2 : (r0.cx + (dcx + k * pref / ssx) + 1) * ssx = r0.cx * ssx + (dcx * ssx + k * pref) + ssx := by
    rw [Nat.succ_mul, e1]
  have e3 : (r0.cx + 1) * ssx = r0.cx * ssx + ssx := Nat.succ_mul _ _
  unfold PlRun.shift
  refine ⟨?_, ?_, ?_, a4, ?_, ?_, ?_, a7, ?_, ?_⟩
  · show r0.row + 0 = 0; omega
  · show r0.ly + 0 = 0; omega
  · show r0.cy + 0 = 0; omega
  · show d ≤ r0.col + (d + k * pref); omega
  · show r0.col + (d + k * pref) + r0.n ≤ d + width'; omega
  · show r0.lx + (d + k * pref) = r0.col + (d + k * pref); omega
  · show (r0.cx + (dcx + k * pref / ssx)) * ssx ≤ offset + (r0.col + (d + k * pref)); omega
  · show offset + (r0.col + (d + k * pref)) + r0.n ≤ (r0.cx + (dcx + k * pref / ssx) + 1) * ssx; omega

theorem plChunks_cover (ssx d dcx width' pref yoff : Nat) (hs : 0 < ssx) (hp : 0 < pref) :
    ∀ c, d ≤ c → c < d + width' → ∃ r ∈ plChunks ssx d dcx width' pref yoff, r.col ≤ c ∧ c < r.col + r.n := by
  intro c hc1 hc2
  have hx : c - d < width' := by omega
  obtain ⟨h1, h2, h3⟩ := chunk_of hp hx
  have hmem : (c - d) / pref * pref ∈ stepStarts width' pref := (mem_stepStarts hp).2 ⟨_, h1, rfl⟩
  obtain ⟨r0, hr0, g1, g2⟩ :=
    (planarHelper_spec' ssx 0 (min ((c - d) / pref * pref + pref) width' - (c - d) / pref * pref) yoff hs hs).cover
      (c - d - (c - d) / pref * pref) (by omega)
  refine ⟨PlRun.shift 0 (d + (c - d) / pref * pref) (d + (c - d) / pref * pref) 0
    (dcx + (c - d) / pref * pref / ssx) 0 r0, ?_, ?_, ?_⟩
  · unfold plChunks
    simp only [List.mem_flatMap, List.mem_map]
    exact ⟨_, hmem, r0, hr0, rfl⟩
  · show r0.col + (d + (c - d) / pref * pref) ≤ c; omega
  · show c < r0.col + (d + (c - d) / pref * pref) + r0.n; omega

theorem convPlanar_eq_true (nbpp ssx offset width yoff : Nat) :
    convPlanar true nbpp ssx offset width yoff =
      (if offset ≠ 0 then planarHelper ssx offset (min (ssx - offset) width) yoff else []) ++
      plChunks ssx (if offset ≠ 0 then min (ssx - offset) width else 0) (if offset ≠ 0 then 1 else 0)
        (if offset ≠ 0 then width - min (ssx - offset) width else width)
        (roundDown (BUFFER_BYTES / nbpp) ssx) yoff := by
  unfold convPlanar plChunks
  simp only [Bool.not_true, Bool.false_eq_true, if_false]

/-- `ChannelConversionBuffer::process_bi_planar`, with or without conversion.  With conversion the
buffer must hold one macro pixel (`ssx ≤ 3072 / native_bpp`), else `step_by(0)` panics. -/
theorem convPlanar_spec (conv : Bool) (nbpp ssx offset width yoff : Nat) (hs : 0 < ssx) (ho : offset < ssx)
    (hbuf : conv = true → ssx ≤ BUFFER_BYTES / nbpp) :
    PlRowSpec' ssx offset width yoff (convPlanar conv nbpp ssx offset width yoff) := by
  cases conv with
  | false =>
    have : convPlanar false nbpp ssx offset width yoff = planarHelper ssx offset width yoff := by
      unfold convPlanar; simp
    rw [this]; exact planarHelper_spec' ssx offset width yoff hs ho
  | true =>
    rw [convPlanar_eq_true]
    obtain ⟨hp1, hp2, _⟩ := roundDown_props hs (hbuf rfl)
    by_cases h0 : offset = 0
    · subst h0
      simp only [ne_eq, not_true_eq_false, if_false, List.nil_append]
      have hcs := plChunks_sound ssx 0 0 0 width _ yoff hs hp1 hp2 (by intro _; omega)
      have hcc := plChunks_cover ssx 0 0 width _ yoff hs hp1
      constructor
      · intro r hr
        obtain ⟨a1, a2, a3, a4, a5, a6, a7, a8, a9, a10⟩ := hcs r hr
        exact ⟨a1, a2, a3, a4, by omega, a7, a8, a9, a10⟩
      · intro c hc
        exact hcc c (Nat.zero_le _) (by omega)
    · simp only [ne_eq, h0, not_false_eq_true, if_true]
      have hpre := planarHelper_spec' ssx offset (min (ssx - offset) width) yoff hs ho
      have hcs := plChunks_sound ssx offset (min (ssx - offset) width) 1 (width - min (ssx - offset) width) _ yoff
        hs hp1 hp2 (by intro h; omega)
      have hcc := plChunks_cover ssx (min (ssx - offset) width) 1 (width - min (ssx - offset) width) _ yoff hs hp1
      constructor
      · intro r hr
        rcases List.mem_append.1 hr with hr | hr
        · obtain ⟨a1, a2, a3, a4, a5, a6, a7, a8, a9⟩ := hpre.sound r hr
          exact ⟨a1, a2, a3, a4, by omega, a6, a7, a8, a9⟩
        · obtain ⟨a1, a2, a3, a4, a5, a6, a7, a8, a9, a10⟩ := hcs r hr
          exact ⟨a1, a2, a3, a4, by omega, a7, a8, a9, a10⟩
      · intro c hc
        by_cases hc0 : c < min (ssx - offset) width
        · obtain ⟨r, hr, b1, b2⟩ := hpre.cover c hc0
          exact ⟨r, List.mem_append.2 (Or.inl hr), b1, b2⟩
        · obtain ⟨r, hr, b1, b2⟩ := hcc c (by omega) (by omega)
          exact ⟨r, List.mem_append.2 (Or.inr hr), b1, b2⟩

/-! ### the line loops with the running row counter `y` -/

theorem planarFullInner_succ (conv : Bool) (nbpp ssx W H c todo yoff y : Nat) :
    planarFullInner conv nbpp ssx W H c (todo + 1) yoff y =
      if y ≥ H then ([], y)
      else ((convPlanar conv nbpp ssx 0 W yoff).map (PlRun.shift y 0 0 y 0 c) ++
              (planarFullInner conv nbpp ssx W H c todo (yoff + 1) (y + 1)).1,
            (planarFullInner conv nbpp ssx W H c todo (yoff + 1) (y + 1)).2) := by
  rfl

/-- the rows one chroma line `c` of the full decode produces, starting at row counter `y` -/
theorem planarFullInner_spec (conv : Bool) (nbpp ssx W H c : Nat) :
    ∀ todo yoff y,
      (planarFullInner conv nbpp ssx W H c todo yoff y).2 = y + min todo (H - y) ∧
      ∀ r, r ∈ (planarFullInner conv nbpp ssx W H c todo yoff y).1 ↔
        ∃ t, t < todo ∧ y + t < H ∧
          r ∈ (convPlanar conv nbpp ssx 0 W (yoff + t)).map (PlRun.shift (y + t) 0 0 (y + t) 0 c) := by
  intro todo
  induction todo with
  | zero =>
    intro yoff y
    refine ⟨by show y = y + min 0 (H - y); omega, ?_⟩
    intro r
    show r ∈ ([] : List PlRun) ↔ _
    constructor
    · intro h; cases h
    · rintro ⟨t, ht, _⟩; omega
  | succ todo ih =>
    intro yoff y
    rw [planarFullInner_succ]
    obtain ⟨ih1, ih2⟩ := ih (yoff + 1) (y + 1)
    by_cases hy : y ≥ H
    · rw [if_pos hy]
      refine ⟨by show y = y + min (todo + 1) (H - y); omega, ?_⟩
      intro r
      show r ∈ ([] : List PlRun) ↔ _
      constructor
      · intro h; cases h
      · rintro ⟨t, _, ht, _⟩; omega
    · rw [if_neg hy]
      refine ⟨by show (planarFullInner conv nbpp ssx W H c todo (yoff + 1) (y + 1)).2 = _; rw [ih1]; omega, ?_⟩
      intro r
      show r ∈ _ ++ _ ↔ _
      rw [List.mem_append, ih2 r]
      constructor
      · rintro (h | ⟨t, ht1, ht2, h⟩)
        · exact ⟨0, by omega, by omega, h⟩
        · refine ⟨t + 1, by omega, by omega, ?_⟩
          rw [show yoff + (t + 1) = yoff + 1 + t by omega, show y + (t + 1) = y + 1 + t by omega]
          exact h
      · rintro ⟨t, ht1, ht2, h⟩
        cases t with
        | zero => exact Or.inl h
        | succ t =>
          refine Or.inr ⟨t, by omega, by omega, ?_⟩
          rw [show yoff + (t + 1) = yoff + 1 + t by omega, show y + (t + 1) = y + 1 + t by omega] at h
          exact h
theorem planarFullLoop_succ (conv : Bool) (nbpp ssx ssy W H todo c y : Nat) :
    planarFullLoop conv nbpp ssx ssy W H (todo + 1) c y =
      (planarFullInner conv nbpp ssx W H c ssy 0 y).1 ++
        planarFullLoop conv nbpp ssx ssy W H todo (c + 1) (planarFullInner conv nbpp ssx W H c ssy 0 y).2 := by
  rfl

/-- the `while let Some(uv_line)` loop of `for_each_bi_planar`.  Invariant of the running counter:
`y = c·ssy` at the start of chroma line `c`, or the surface is exhausted. -/
theorem planarFullLoop_spec (conv : Bool) (nbpp ssx ssy W H : Nat) :
    ∀ todo c y, (y = c * ssy ∨ (H ≤ y ∧ H ≤ c * ssy)) →
      ∀ r, r ∈ planarFullLoop conv nbpp ssx ssy W H todo c y ↔
        ∃ k t, k < todo ∧ t < ssy ∧ (c + k) * ssy + t < H ∧
          r ∈ (convPlanar conv nbpp ssx 0 W t).map
            (PlRun.shift ((c + k) * ssy + t) 0 0 ((c + k) * ssy + t) 0 (c + k)) := by
  intro todo
  induction todo with
  | zero =>
    intro c y _ r
    show r ∈ ([] : List PlRun) ↔ _
    constructor
    · intro h; cases h
    · rintro ⟨k, t, hk, _⟩; omega
  | succ todo ih =>
    intro c y hinv r
    rw [planarFullLoop_succ, List.mem_append]
    obtain ⟨i1, i2⟩ := planarFullInner_spec conv nbpp ssx W H c ssy 0 y
    have esucc : (c + 1) * ssy = c * ssy + ssy := Nat.succ_mul _ _
    have hinv' : (planarFullInner conv nbpp ssx W H c ssy 0 y).2 = (c + 1) * ssy ∨
        (H ≤ (planarFullInner conv nbpp ssx W H c ssy 0 y).2 ∧ H ≤ (c + 1) * ssy) := by
      rw [i1]; omega
    rw [i2 r, ih (c + 1) _ hinv' r]
    constructor
    · rintro (⟨t, ht1, ht2, h⟩ | ⟨k, t, hk, ht1, ht2, h⟩)
      · have hy : y = c * ssy := by omega
        subst hy
        rw [Nat.zero_add] at h
        exact ⟨0, t, by omega, ht1, ht2, h⟩
      · refine ⟨k + 1, t, by omega, ht1, ?_, ?_⟩
        · rw [show c + (k + 1) = c + 1 + k by omega]; exact ht2
        · rw [show c + (k + 1) = c + 1 + k by omega]; exact h
    · rintro ⟨k, t, hk, ht1, ht2, h⟩
      cases k with
      | zero =>
        have hy : y = c * ssy := by
          have : (c + 0) * ssy = c * ssy := rfl
          omega
        subst hy
        refine Or.inl ⟨t, ht1, ht2, ?_⟩
        rw [Nat.zero_add]; exact h
      | succ k =>
        refine Or.inr ⟨k, t, by omega, ht1, ?_, ?_⟩
        · rw [show c + (k + 1) = c + 1 + k by omega] at ht2; exact ht2
        · rw [show c + (k + 1) = c + 1 + k by omega] at h; exact h

/-- **`for_each_bi_planar`, exact membership**: the runs of the full decode are exactly the runs of
`process_bi_planar(offset = 0, width = W, y = j % ssy)` for every row `j < H`, written to output row
`j` from luma line `j` and chroma line `j / ssy`. -/
theorem mem_planarFull (conv : Bool) (nbpp ssx ssy W H : Nat) (hsy : 0 < ssy) (r : PlRun) :
    r ∈ planarFull conv nbpp ssx ssy W H ↔
      ∃ j, j < H ∧ r ∈ (convPlanar conv nbpp ssx 0 W (j % ssy)).map (PlRun.shift j 0 0 j 0 (j / ssy)) := by
  unfold planarFull
  rw [planarFullLoop_spec conv nbpp ssx ssy W H _ 0 0 (Or.inl (Nat.zero_mul _).symm) r]
  constructor
  · rintro ⟨k, t, hk, ht1, ht2, h⟩
    rw [Nat.zero_add] at ht2 h
    have e1 : (k * ssy + t) / ssy = k := Nat.div_eq_of_lt_le (by omega) (by rw [Nat.succ_mul]; omega)
    have e2 : (k * ssy + t) % ssy = t := by
      have := Nat.div_add_mod (k * ssy + t) ssy
      rw [e1, Nat.mul_comm] at this; omega
    refine ⟨k * ssy + t, ht2, ?_⟩
    rw [e1, e2]; exact h
  · rintro ⟨j, hj, h⟩
    have d1 := Nat.div_add_mod j ssy
    have d2 := Nat.mod_lt j hsy
    have e : j / ssy * ssy + j % ssy = j := by rw [Nat.mul_comm]; exact d1
    refine ⟨j / ssy, j % ssy, ?_, d2, ?_, ?_⟩
    · rw [lt_divCeil_iff hsy]; omega
    · rw [Nat.zero_add, e]; exact hj
    · rw [Nat.zero_add, e]; exact h
theorem planarRectInner_succ (conv : Bool) (nbpp : Nat) (g : PlGeom) (k todo yoff y : Nat) :
    planarRectInner conv nbpp g k (todo + 1) yoff y =
      if y < g.oy then planarRectInner conv nbpp g k todo (yoff + 1) (y + 1)
      else if y ≥ g.oy + g.h then ([], y)
      else ((convPlanar conv nbpp g.ssx (g.ox % g.ssx) g.w yoff).map
              (PlRun.shift (y - g.oy) 0 g.ox (g.oy + (y - g.oy)) (g.ox / g.ssx) (g.uvBefore + k)) ++
              (planarRectInner conv nbpp g k todo (yoff + 1) (y + 1)).1,
            (planarRectInner conv nbpp g k todo (yoff + 1) (y + 1)).2) := by
  rfl

/-- the `for y_offset` loop of `for_each_bi_planar_rect`: rows before the rectangle are skipped
(`y += 1; continue`), the loop stops after it (`break`) -/
theorem planarRectInner_spec (conv : Bool) (nbpp : Nat) (g : PlGeom) (k : Nat) :
    ∀ todo yoff y,
      (planarRectInner conv nbpp g k todo yoff y).2 = y + min todo (g.oy + g.h - y) ∧
      ∀ r, r ∈ (planarRectInner conv nbpp g k todo yoff y).1 ↔
        ∃ t, t < todo ∧ g.oy ≤ y + t ∧ y + t < g.oy + g.h ∧
          r ∈ (convPlanar conv nbpp g.ssx (g.ox % g.ssx) g.w (yoff + t)).map
            (PlRun.shift (y + t - g.oy) 0 g.ox (g.oy + (y + t - g.oy)) (g.ox / g.ssx) (g.uvBefore + k)) := by
  intro todo
  induction todo with
  | zero =>
    intro yoff y
    refine ⟨by show y = y + min 0 (g.oy + g.h - y); omega, ?_⟩
    intro r
    show r ∈ ([] : List PlRun) ↔ _
    constructor
    · intro h; cases h
    · rintro ⟨t, ht, _⟩; omega
  | succ todo ih =>
    intro yoff y
    rw [planarRectInner_succ]
    obtain ⟨ih1, ih2⟩ := ih (yoff + 1) (y + 1)
    by_cases hlo : y < g.oy
    · rw [if_pos hlo]
      refine ⟨by rw [ih1]; omega, ?_⟩
      intro r
      rw [ih2 r]
      constructor
      · rintro ⟨t, ht1, ht2, ht3, h⟩
        refine ⟨t + 1, by omega, by omega, by omega, ?_⟩
        rw [show yoff + (t + 1) = yoff + 1 + t by omega, show y + (t + 1) = y + 1 + t by omega]
        exact h
      · rintro ⟨t, ht1, ht2, ht3, h⟩
        cases t with
        | zero => omega
        | succ t =>
          refine ⟨t, by omega, by omega, by omega, ?_⟩
          rw [show yoff + (t + 1) = yoff + 1 + t by omega, show y + (t + 1) = y + 1 + t by omega] at h
          exact h
    · rw [if_neg hlo]
      by_cases hhi : y ≥ g.oy + g.h
      · rw [if_pos hhi]
        refine ⟨by show y = y + min (todo + 1) (g.oy + g.h - y); omega, ?_⟩
        intro r
        show r ∈ ([] : List PlRun) ↔ _
        constructor
        · intro h; cases h
        · rintro ⟨t, _, _, ht, _⟩; omega
      · rw [if_neg hhi]
        refine ⟨by show (planarRectInner conv nbpp g k todo (yoff + 1) (y + 1)).2 = _; rw [ih1]; omega, ?_⟩
        intro r
        show r ∈ _ ++ _ ↔ _
        rw [List.mem_append, ih2 r]
        constructor
        · rintro (h | ⟨t, ht1, ht2, ht3, h⟩)
          · exact ⟨0, by omega, by omega, by omega, h⟩
          · refine ⟨t + 1, by omega, by omega, by omega, ?_⟩
            rw [show yoff + (t + 1) = yoff + 1 + t by omega, show y + (t + 1) = y + 1 + t by omega]
            exact h
        · rintro ⟨t, ht1, ht2, ht3, h⟩
          cases t with
          | zero => exact Or.inl h
          | succ t =>
            refine Or.inr ⟨t, by omega, by omega, by omega, ?_⟩
            rw [show yoff + (t + 1) = yoff + 1 + t by omega, show y + (t + 1) = y + 1 + t by omega] at h
            exact h

theorem planarRectLoop_succ (conv : Bool) (nbpp : Nat) (g : PlGeom) (todo k y : Nat) :
    planarRectLoop conv nbpp g (todo + 1) k y =
      (planarRectInner conv nbpp g k g.ssy 0 y).1 ++
        planarRectLoop conv nbpp g todo (k + 1) (planarRectInner conv nbpp g k g.ssy 0 y).2 := by
  rfl

/-- the `while let Some(uv_line)` loop of `for_each_bi_planar_rect`.  Invariant of the running
counter: `y = (uv_before + k)·ssy` at the start of the `k`-th chroma line read, or the rectangle is
exhausted. -/
theorem planarRectLoop_spec (conv : Bool) (nbpp : Nat) (g : PlGeom) :
    ∀ todo k y, (y = (g.uvBefore + k) * g.ssy ∨ (g.oy + g.h ≤ y ∧ g.oy + g.h ≤ (g.uvBefore + k) * g.ssy)) →
      ∀ r, r ∈ planarRectLoop conv nbpp g todo k y ↔
        ∃ k' t, k' < todo ∧ t < g.ssy ∧ g.oy ≤ (g.uvBefore + (k + k')) * g.ssy + t ∧
          (g.uvBefore + (k + k')) * g.ssy + t < g.oy + g.h ∧
          r ∈ (convPlanar conv nbpp g.ssx (g.ox % g.ssx) g.w t).map
            (PlRun.shift ((g.uvBefore + (k + k')) * g.ssy + t - g.oy) 0 g.ox
              (g.oy + ((g.uvBefore + (k + k')) * g.ssy + t - g.oy)) (g.ox / g.ssx) (g.uvBefore + (k + k'))) := by
  intro todo
  induction todo with
  | zero =>
    intro k y _ r
    show r ∈ ([] : List PlRun) ↔ _
    constructor
    · intro h; cases h
    · rintro ⟨k', t, hk, _⟩; omega
  | succ todo ih =>
    intro k y hinv r
    rw [planarRectLoop_succ, List.mem_append]
    obtain ⟨i1, i2⟩ := planarRectInner_spec conv nbpp g k g.ssy 0 y
    have esucc : (g.uvBefore + (k + 1)) * g.ssy = (g.uvBefore + k) * g.ssy + g.ssy := by
      rw [← Nat.add_assoc, Nat.succ_mul]
    have hinv' : (planarRectInner conv nbpp g k g.ssy 0 y).2 = (g.uvBefore + (k + 1)) * g.ssy ∨
        (g.oy + g.h ≤ (planarRectInner conv nbpp g k g.ssy 0 y).2 ∧ g.oy + g.h ≤ (g.uvBefore + (k + 1)) * g.ssy) := by
      rw [i1]; omega
    rw [i2 r, ih (k + 1) _ hinv' r]
    constructor
    · rintro (⟨t, ht1, ht2, ht3, h⟩ | ⟨k', t, hk, ht1, ht2, ht3, h⟩)
      · have hy : y = (g.uvBefore + k) * g.ssy := by omega
        subst hy
        rw [Nat.zero_add] at h
        exact ⟨0, t, by omega, ht1, ht2, ht3, h⟩
      · refine ⟨k' + 1, t, by omega, ht1, ?_, ?_, ?_⟩
        · rw [show k + (k' + 1) = k + 1 + k' by omega]; exact ht2
        · rw [show k + (k' + 1) = k + 1 + k' by omega]; exact ht3
        · rw [show k + (k' + 1) = k + 1 + k' by omega]; exact h
    · rintro ⟨k', t, hk, ht1, ht2, ht3, h⟩
      cases k' with
      | zero =>
        have e0 : (g.uvBefore + (k + 0)) * g.ssy = (g.uvBefore + k) * g.ssy := rfl
        have hy : y = (g.uvBefore + k) * g.ssy := by omega
        subst hy
        refine Or.inl ⟨t, ht1, ht2, ht3, ?_⟩
        rw [Nat.zero_add]; exact h
      | succ k' =>
        refine Or.inr ⟨k', t, by omega, ht1, ?_, ?_, ?_⟩
        · rw [show k + (k' + 1) = k + 1 + k' by omega] at ht2; exact ht2
        · rw [show k + (k' + 1) = k + 1 + k' by omega] at ht3; exact ht3
        · rw [show k + (k' + 1) = k + 1 + k' by omega] at h; exact h

/-- chroma lines read by `for_each_bi_planar_rect` (no underflow in `uv_after` / `uv_lines`) -/
theorem uvLines_eq (g : PlGeom) (hs : 0 < g.ssy) (hh : 0 < g.h) (hy : g.oy + g.h ≤ g.H) :
    g.uvBefore < divCeil (g.oy + g.h) g.ssy ∧ g.uvBefore + g.uvLines = divCeil (g.oy + g.h) g.ssy := by
  have h1 : g.uvBefore * g.ssy ≤ g.oy := Nat.div_mul_le_self _ _
  have a : g.uvBefore < divCeil (g.oy + g.h) g.ssy := by
    rw [lt_divCeil_iff hs]; omega
  have b : divCeil (g.oy + g.h) g.ssy ≤ divCeil g.H g.ssy := by
    apply Classical.byContradiction
    intro hn
    have : divCeil g.H g.ssy < divCeil (g.oy + g.h) g.ssy := by omega
    rw [lt_divCeil_iff hs] at this
    have := (divCeil_spec g.H g.ssy hs).1
    omega
  refine ⟨a, ?_⟩
  unfold PlGeom.uvLines PlGeom.uvAfter; omega

/-- **`for_each_bi_planar_rect`, exact membership**: the runs of the rectangle decode are exactly the
runs of `process_bi_planar(offset = ox % ssx, width = w, y = (oy+j) % ssy)` for every row `j < h`,
written to output row `j` from luma line `oy + j` (columns from `ox`) and chroma line
`(oy + j) / ssy` (samples from `ox / ssx`). -/
theorem mem_planarRect (conv : Bool) (nbpp : Nat) (g : PlGeom) (hsy : 0 < g.ssy) (hy : g.oy + g.h ≤ g.H)
    (r : PlRun) :
    r ∈ planarRect conv nbpp g ↔
      ∃ j, j < g.h ∧ r ∈ (convPlanar conv nbpp g.ssx (g.ox % g.ssx) g.w ((g.oy + j) % g.ssy)).map
        (PlRun.shift j 0 g.ox (g.oy + j) (g.ox / g.ssx) ((g.oy + j) / g.ssy)) := by
  unfold planarRect
  rw [planarRectLoop_spec conv nbpp g g.uvLines 0 (g.uvBefore * g.ssy) (Or.inl rfl) r]
  constructor
  · rintro ⟨k, t, hk, ht1, ht2, ht3, h⟩
    rw [Nat.zero_add] at ht2 ht3 h
    generalize hY : (g.uvBefore + k) * g.ssy + t = Y at ht2 ht3 h
    have e1 : Y / g.ssy = g.uvBefore + k := Nat.div_eq_of_lt_le (by omega) (by rw [Nat.succ_mul]; omega)
    have e2 : Y % g.ssy = t := by
      have := Nat.div_add_mod Y g.ssy
      rw [e1, Nat.mul_comm] at this; omega
    refine ⟨Y - g.oy, by omega, ?_⟩
    rw [show g.oy + (Y - g.oy) = Y by omega, e1, e2]
    rw [show g.oy + (Y - g.oy) = Y by omega] at h
    exact h
  · rintro ⟨j, hj, h⟩
    have d1 := Nat.div_add_mod (g.oy + j) g.ssy
    have d2 := Nat.mod_lt (g.oy + j) hsy
    have hge : g.uvBefore ≤ (g.oy + j) / g.ssy := Nat.div_le_div_right (Nat.le_add_right _ _)
    obtain ⟨_, u2⟩ := uvLines_eq g hsy (by omega) hy
    have e : (g.uvBefore + (0 + ((g.oy + j) / g.ssy - g.uvBefore))) * g.ssy + (g.oy + j) % g.ssy = g.oy + j := by
      rw [show g.uvBefore + (0 + ((g.oy + j) / g.ssy - g.uvBefore)) = (g.oy + j) / g.ssy by omega, Nat.mul_comm]
      exact d1
    have e' : g.uvBefore + (0 + ((g.oy + j) / g.ssy - g.uvBefore)) = (g.oy + j) / g.ssy := by omega
    refine ⟨(g.oy + j) / g.ssy - g.uvBefore, (g.oy + j) % g.ssy, ?_, d2, ?_, ?_, ?_⟩
    · have : (g.oy + j) / g.ssy < divCeil (g.oy + g.h) g.ssy := by
        rw [lt_divCeil_iff hsy]
        have := Nat.div_mul_le_self (g.oy + j) g.ssy
        omega
      omega
    · rw [e]; omega
    · rw [e]; omega
    · rw [e, e', show g.oy + j - g.oy = j by omega]; exact h
/-! ### crop predicates, bi-planar -/

/-- every run lies inside the `w × h` view, reads the luma samples of the crop at `(ox, oy)`, feeds
one macro pixel, and that macro pixel / chroma line / `y` argument are those of the crop -/
def PlCropSound (ssx ssy ox oy w h : Nat) (runs : List PlRun) : Prop :=
  ∀ r ∈ runs, r.row < h ∧ r.col + r.n ≤ w ∧ r.lx = ox + r.col ∧ r.ly = oy + r.row ∧ r.px + r.n ≤ ssx ∧
    r.cx * ssx ≤ ox + r.col ∧ ox + r.col + r.n ≤ (r.cx + 1) * ssx ∧
    r.cy = (oy + r.row) / ssy ∧ r.yoff = (oy + r.row) % ssy

def PlCropCover (w h : Nat) (runs : List PlRun) : Prop :=
  ∀ i j, i < w → j < h → ∃ r ∈ runs, r.covers j i = true

theorem plCovers_iff (r : PlRun) (row col : Nat) :
    r.covers row col = true ↔ r.row = row ∧ r.col ≤ col ∧ col < r.col + r.n := by
  unfold PlRun.covers
  simp [Bool.and_eq_true, and_assoc]

theorem lastWritePl_eq_some {ssx : Nat} {runs : List PlRun} {row col : Nat} {s : Nat × Nat × Nat × Nat × Nat}
    (hs : ∀ r ∈ runs, r.covers row col = true → r.srcAt ssx col = s)
    (hc : ∃ r ∈ runs, r.covers row col = true) : lastWritePl ssx runs row col = some s := by
  unfold lastWritePl
  obtain ⟨r, hr, hrc⟩ := hc
  have hsome : (runs.reverse.find? (·.covers row col)).isSome := by
    rw [List.find?_isSome]; exact ⟨r, List.mem_reverse.2 hr, hrc⟩
  obtain ⟨r', hr'⟩ := Option.isSome_iff_exists.1 hsome
  rw [hr']
  have hm : r' ∈ runs := List.mem_reverse.1 (List.mem_of_find?_eq_some hr')
  have hc' : r'.covers row col = true := List.find?_some (p := fun (x : PlRun) => x.covers row col) hr'
  show some (PlRun.srcAt ssx r' col) = some s
  rw [hs r' hm hc']

theorem lastWritePl_eq_none {ssx : Nat} {runs : List PlRun} {row col : Nat}
    (h : ∀ r ∈ runs, r.covers row col = false) : lastWritePl ssx runs row col = none := by
  unfold lastWritePl
  have : runs.reverse.find? (·.covers row col) = none := by
    rw [List.find?_eq_none]
    intro x hx
    have := h x (List.mem_reverse.1 hx)
    simp [this]
  rw [this]; rfl

theorem lastWritePl_crop {ssx ssy ox oy w h : Nat} {runs : List PlRun}
    (hs : PlCropSound ssx ssy ox oy w h runs) (hc : PlCropCover w h runs) (i j : Nat) (hi : i < w) (hj : j < h) :
    lastWritePl ssx runs j i = some (ox + i, oy + j, (ox + i) / ssx, (oy + j) / ssy, (oy + j) % ssy) := by
  apply lastWritePl_eq_some
  · intro r hr hcov
    obtain ⟨h1, h2, h3, h4, h5, h6, h7, h8, h9⟩ := hs r hr
    obtain ⟨c1, c2, c3⟩ := (plCovers_iff r j i).1 hcov
    have e0 : (r.px + (i - r.col)) / ssx = 0 := Nat.div_eq_of_lt (by omega)
    have e1 : (ox + i) / ssx = r.cx := Nat.div_eq_of_lt_le (by omega) (by omega)
    unfold PlRun.srcAt
    rw [h3, h4, h8, h9, c1, e0, e1]
    simp only [Prod.mk.injEq, and_true, Nat.add_zero]
    omega
  · exact hc i j hi hj

theorem lastWritePl_outside {ssx ssy ox oy w h : Nat} {runs : List PlRun}
    (hs : PlCropSound ssx ssy ox oy w h runs) (row col : Nat) (ho : ¬ (col < w ∧ row < h)) :
    lastWritePl ssx runs row col = none := by
  apply lastWritePl_eq_none
  intro r hr
  obtain ⟨h1, h2, _⟩ := hs r hr
  cases hcv : r.covers row col with
  | false => rfl
  | true =>
    obtain ⟨c1, c2, c3⟩ := (plCovers_iff r row col).1 hcv
    exfalso; apply ho; omega

/-- bytes of a bi-planar run that lies inside a `w`-pixel row stay inside the addressed part of that row -/
theorem plRun_bytes_in_row (pitch obpp w : Nat) (r : PlRun) (hp : w * obpp ≤ pitch) (hc : r.col + r.n ≤ w) :
    r.row * pitch ≤ r.byteLo pitch obpp ∧ r.byteLo pitch obpp ≤ r.byteHi pitch obpp ∧
    r.byteHi pitch obpp ≤ r.row * pitch + w * obpp ∧ r.byteHi pitch obpp ≤ (r.row + 1) * pitch := by
  unfold PlRun.byteLo PlRun.byteHi
  have h1 : (r.col + r.n) * obpp ≤ w * obpp := Nat.mul_le_mul_right obpp hc
  have h2 : r.col * obpp ≤ (r.col + r.n) * obpp := Nat.mul_le_mul_right obpp (Nat.le_add_right _ _)
  rw [Nat.succ_mul]
  omega

/-- hypotheses of the assembled bi-planar theorems: positive sub-sampling; with conversion the
3072-byte buffer holds at least one macro pixel (else `step_by(0)` panics). -/
structure PlOk (ssx ssy : Nat) (conv : Bool) (nbpp : Nat) : Prop where
  sx : 0 < ssx
  sy : 0 < ssy
  buf : conv = true → ssx ≤ BUFFER_BYTES / nbpp

theorem planarRect_sound (conv : Bool) (nbpp : Nat) (g : PlGeom) (ok : PlOk g.ssx g.ssy conv nbpp)
    (hy : g.oy + g.h ≤ g.H) :
    PlCropSound g.ssx g.ssy g.ox g.oy g.w g.h (planarRect conv nbpp g) := by
  intro r hr
  obtain ⟨j, hj, hr⟩ := (mem_planarRect conv nbpp g ok.sy hy r).1 hr
  obtain ⟨r0, hr0, rfl⟩ := List.mem_map.1 hr
  obtain ⟨a1, a2, a3, a4, a5, a6, a7, a8, a9⟩ :=
    (convPlanar_spec conv nbpp g.ssx (g.ox % g.ssx) g.w ((g.oy + j) % g.ssy) ok.sx (Nat.mod_lt _ ok.sx) ok.buf).sound r0 hr0
  have d1 := Nat.div_add_mod g.ox g.ssx
  have e0 : g.ox / g.ssx * g.ssx = g.ssx * (g.ox / g.ssx) := Nat.mul_comm _ _
  have e1 : (r0.cx + g.ox / g.ssx) * g.ssx = r0.cx * g.ssx + g.ox / g.ssx * g.ssx := Nat.add_mul _ _ _
  have e2 : (r0.cx + g.ox / g.ssx + 1) * g.ssx = r0.cx * g.ssx + g.ox / g.ssx * g.ssx + g.ssx := by
    rw [Nat.succ_mul, e1]
  have e3 : (r0.cx + 1) * g.ssx = r0.cx * g.ssx + g.ssx := Nat.succ_mul _ _
  have erow : r0.row + j = j := by omega
  unfold PlRun.shift
  refine ⟨?_, ?_, ?_, ?_, a7, ?_, ?_, ?_, ?_⟩
  · show r0.row + j < g.h; omega
  · show r0.col + 0 + r0.n ≤ g.w; omega
  · show r0.lx + g.ox = g.ox + (r0.col + 0); omega
  · show r0.ly + (g.oy + j) = g.oy + (r0.row + j); omega
  · show (r0.cx + g.ox / g.ssx) * g.ssx ≤ g.ox + (r0.col + 0); omega
  · show g.ox + (r0.col + 0) + r0.n ≤ (r0.cx + g.ox / g.ssx + 1) * g.ssx; omega
  · show r0.cy + (g.oy + j) / g.ssy = (g.oy + (r0.row + j)) / g.ssy; rw [erow]; omega
  · show r0.yoff = (g.oy + (r0.row + j)) % g.ssy; rw [erow]; exact a4

theorem planarRect_cover (conv : Bool) (nbpp : Nat) (g : PlGeom) (ok : PlOk g.ssx g.ssy conv nbpp)
    (hy : g.oy + g.h ≤ g.H) :
    PlCropCover g.w g.h (planarRect conv nbpp g) := by
  intro i j hi hj
  have hsp := convPlanar_spec conv nbpp g.ssx (g.ox % g.ssx) g.w ((g.oy + j) % g.ssy) ok.sx (Nat.mod_lt _ ok.sx) ok.buf
  obtain ⟨r0, hr0, c1, c2⟩ := hsp.cover i hi
  obtain ⟨a1, _⟩ := hsp.sound r0 hr0
  refine ⟨PlRun.shift j 0 g.ox (g.oy + j) (g.ox / g.ssx) ((g.oy + j) / g.ssy) r0,
    (mem_planarRect conv nbpp g ok.sy hy _).2 ⟨j, hj, List.mem_map.2 ⟨r0, hr0, rfl⟩⟩, ?_⟩
  rw [plCovers_iff]
  exact ⟨by show r0.row + j = j; omega, by show r0.col + 0 ≤ i; omega, by show i < r0.col + 0 + r0.n; omega⟩

theorem planarFull_sound (conv : Bool) (nbpp ssx ssy W H : Nat) (ok : PlOk ssx ssy conv nbpp) :
    PlCropSound ssx ssy 0 0 W H (planarFull conv nbpp ssx ssy W H) := by
  intro r hr
  obtain ⟨j, hj, hr⟩ := (mem_planarFull conv nbpp ssx ssy W H ok.sy r).1 hr
  obtain ⟨r0, hr0, rfl⟩ := List.mem_map.1 hr
  obtain ⟨a1, a2, a3, a4, a5, a6, a7, a8, a9⟩ :=
    (convPlanar_spec conv nbpp ssx 0 W (j % ssy) ok.sx ok.sx ok.buf).sound r0 hr0
  have erow : r0.row + j = j := by omega
  unfold PlRun.shift
  refine ⟨?_, ?_, ?_, ?_, a7, ?_, ?_, ?_, ?_⟩
  · show r0.row + j < H; omega
  · show r0.col + 0 + r0.n ≤ W; omega
  · show r0.lx + 0 = 0 + (r0.col + 0); omega
  · show r0.ly + j = 0 + (r0.row + j); omega
  · show (r0.cx + 0) * ssx ≤ 0 + (r0.col + 0); simp only [Nat.add_zero, Nat.zero_add] at a8 ⊢; exact a8
  · show 0 + (r0.col + 0) + r0.n ≤ (r0.cx + 0 + 1) * ssx; simp only [Nat.add_zero, Nat.zero_add] at a9 ⊢; exact a9
  · show r0.cy + j / ssy = (0 + (r0.row + j)) / ssy; rw [erow, Nat.zero_add]; omega
  · show r0.yoff = (0 + (r0.row + j)) % ssy; rw [erow, Nat.zero_add]; exact a4

theorem planarFull_cover (conv : Bool) (nbpp ssx ssy W H : Nat) (ok : PlOk ssx ssy conv nbpp) :
    PlCropCover W H (planarFull conv nbpp ssx ssy W H) := by
  intro i j hi hj
  have hsp := convPlanar_spec conv nbpp ssx 0 W (j % ssy) ok.sx ok.sx ok.buf
  obtain ⟨r0, hr0, c1, c2⟩ := hsp.cover i hi
  obtain ⟨a1, _⟩ := hsp.sound r0 hr0
  refine ⟨PlRun.shift j 0 0 j 0 (j / ssy) r0,
    (mem_planarFull conv nbpp ssx ssy W H ok.sy _).2 ⟨j, hj, List.mem_map.2 ⟨r0, hr0, rfl⟩⟩, ?_⟩
  rw [plCovers_iff]
  exact ⟨by show r0.row + j = j; omega, by show r0.col + 0 ≤ i; omega, by show i < r0.col + 0 + r0.n; omega⟩

end Dds.Addr
