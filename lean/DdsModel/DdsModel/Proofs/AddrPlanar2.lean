/-
Helper lemmas for C05: bi-planar family, assembled for every sub-sampling `(ssx, ssy)` with
`ssx, ssy ≥ 1`:
  * `planarHelper_spec'`   `process_bi_planar_helper::<SSX, ..>` for every `SSX` and offset `< SSX`
  * `convPlanar_spec`      `ChannelConversionBuffer::process_bi_planar` (offset chunk + aligned chunks)
  * `mem_planarFull`, `mem_planarRect`   the `while let Some(uv_line)` / `for y_offset` loops with the
                           running row counter `y` (exact membership characterisation)
  * `planarFull_sound/_cover`, `planarRect_sound/_cover`   crop predicates
  * `lastWritePl_crop`, `lastWritePl_outside`
-/
import DdsModel.Proofs.AddrBlock
namespace Dds.Addr
open Dds

/-! ### one row: `process_bi_planar_helper` -/

/-- contract of one `process_bi_planar` call on a row of `width` pixels whose first pixel sits at
position `offset` inside its macro pixel: every run stays in the row, reads luma sample `col + t` of
the plane-1 slice for output pixel `col + t`, feeds slots `px .. px+n` of ONE macro pixel
(`px + n ≤ ssx`), and that macro pixel is chroma sample `cx` of the plane-2 slice with
`cx·ssx ≤ offset + col` and `offset + col + n ≤ (cx+1)·ssx`, i.e. `cx = (offset + c) / ssx` for every
pixel `c` of the run; every pixel of the row is written. -/
structure PlRowSpec' (ssx offset width yoff : Nat) (runs : List PlRun) : Prop where
  sound : ∀ r ∈ runs, r.row = 0 ∧ r.ly = 0 ∧ r.cy = 0 ∧ r.yoff = yoff ∧ r.col + r.n ≤ width ∧ r.lx = r.col ∧
    r.px + r.n ≤ ssx ∧ r.cx * ssx ≤ offset + r.col ∧ offset + r.col + r.n ≤ (r.cx + 1) * ssx
  cover : ∀ c, c < width → ∃ r ∈ runs, r.col ≤ c ∧ c < r.col + r.n

/-- the "full macro pixels" and "rest" parts of `process_bi_planar_helper` after the offset part:
`d` output pixels and `dc` chroma samples have been consumed, `width'` pixels remain -/
def plTail (ssx d dc width' yoff : Nat) : List PlRun :=
  ((List.range (width' / ssx)).map fun x => (⟨0, d + x * ssx, ssx, d + x * ssx, 0, dc + x, 0, 0, yoff⟩ : PlRun)) ++
  (if width' - width' / ssx * ssx > 0 then
    [⟨0, d + width' / ssx * ssx, width' - width' / ssx * ssx, d + width' / ssx * ssx, 0, dc + width' / ssx, 0, 0, yoff⟩]
   else [])

theorem planarHelper_eq (ssx offset width yoff : Nat) :
    planarHelper ssx offset width yoff =
      (if offset > 0 then [(⟨0, 0, min (ssx - offset) width, 0, 0, 0, 0, 0, yoff⟩ : PlRun)] else []) ++
      plTail ssx (if offset > 0 then min (ssx - offset) width else 0) (if offset > 0 then 1 else 0)
        (if offset > 0 then width - min (ssx - offset) width else width) yoff := by
  unfold planarHelper plTail
  simp only [List.append_assoc]

theorem plTail_sound (ssx offset d dc width' yoff : Nat) (hs : 0 < ssx)
    (hal : 0 < width' → offset + d = dc * ssx) :
    ∀ r ∈ plTail ssx d dc width' yoff, r.row = 0 ∧ r.ly = 0 ∧ r.cy = 0 ∧ r.yoff = yoff ∧ d ≤ r.col ∧
      r.col + r.n ≤ d + width' ∧ r.lx = r.col ∧ r.px + r.n ≤ ssx ∧ r.cx * ssx ≤ offset + r.col ∧
      offset + r.col + r.n ≤ (r.cx + 1) * ssx := by
  intro r hr
  unfold plTail at hr
  have q1 : width' / ssx * ssx ≤ width' := Nat.div_mul_le_self _ _
  have q2 : width' < width' / ssx * ssx + ssx := Nat.lt_div_mul_add hs
  simp only [List.mem_append, List.mem_map, List.mem_range] at hr
  rcases hr with ⟨x, hx, rfl⟩ | hr
  · have hx' : (x + 1) * ssx ≤ width' / ssx * ssx := Nat.mul_le_mul_right ssx hx
    rw [Nat.succ_mul] at hx'
    have ha := hal (by omega)
    have e1 : (dc + x) * ssx = dc * ssx + x * ssx := Nat.add_mul _ _ _
    have e2 : (dc + x + 1) * ssx = dc * ssx + x * ssx + ssx := by rw [Nat.succ_mul, e1]
    refine ⟨rfl, rfl, rfl, rfl, ?_, ?_, rfl, ?_, ?_, ?_⟩
    · show d ≤ d + x * ssx; omega
    · show d + x * ssx + ssx ≤ d + width'; omega
    · show 0 + ssx ≤ ssx; omega
    · show (dc + x) * ssx ≤ offset + (d + x * ssx); omega
    · show offset + (d + x * ssx) + ssx ≤ (dc + x + 1) * ssx; omega
  · by_cases hl : width' - width' / ssx * ssx > 0
    · rw [if_pos hl] at hr
      simp only [List.mem_singleton] at hr
      subst hr
      have ha := hal (by omega)
      have e1 : (dc + width' / ssx) * ssx = dc * ssx + width' / ssx * ssx := Nat.add_mul _ _ _
      have e2 : (dc + width' / ssx + 1) * ssx = dc * ssx + width' / ssx * ssx + ssx := by rw [Nat.succ_mul, e1]
      refine ⟨rfl, rfl, rfl, rfl, ?_, ?_, rfl, ?_, ?_, ?_⟩
      · show d ≤ d + width' / ssx * ssx; omega
      · show d + width' / ssx * ssx + (width' - width' / ssx * ssx) ≤ d + width'; omega
      · show 0 + (width' - width' / ssx * ssx) ≤ ssx; omega
      · show (dc + width' / ssx) * ssx ≤ offset + (d + width' / ssx * ssx); omega
      · show offset + (d + width' / ssx * ssx) + (width' - width' / ssx * ssx) ≤ (dc + width' / ssx + 1) * ssx
        omega
    · rw [if_neg hl] at hr; simp at hr

theorem plTail_cover (ssx d dc width' yoff : Nat) (hs : 0 < ssx) :
    ∀ c, d ≤ c → c < d + width' → ∃ r ∈ plTail ssx d dc width' yoff, r.col ≤ c ∧ c < r.col + r.n := by
  intro c hc1 hc2
  unfold plTail
  have q1 : width' / ssx * ssx ≤ width' := Nat.div_mul_le_self _ _
  have q2 : width' < width' / ssx * ssx + ssx := Nat.lt_div_mul_add hs
  have c1 : (c - d) / ssx * ssx ≤ c - d := Nat.div_mul_le_self _ _
  have c2 : c - d < (c - d) / ssx * ssx + ssx := Nat.lt_div_mul_add hs
  simp only [List.mem_append, List.mem_map, List.mem_range]
  by_cases hp : (c - d) / ssx < width' / ssx
  · exact ⟨⟨0, d + (c - d) / ssx * ssx, ssx, d + (c - d) / ssx * ssx, 0, dc + (c - d) / ssx, 0, 0, yoff⟩,
      Or.inl ⟨_, hp, rfl⟩, by show d + (c - d) / ssx * ssx ≤ c; omega,
      by show c < d + (c - d) / ssx * ssx + ssx; omega⟩
  · have hge : width' / ssx * ssx ≤ (c - d) / ssx * ssx := Nat.mul_le_mul_right ssx (by omega)
    have hl : width' - width' / ssx * ssx > 0 := by omega
    refine ⟨⟨0, d + width' / ssx * ssx, width' - width' / ssx * ssx, d + width' / ssx * ssx, 0,
      dc + width' / ssx, 0, 0, yoff⟩, Or.inr ?_, ?_, ?_⟩
    · rw [if_pos hl]; simp
    · show d + width' / ssx * ssx ≤ c; omega
    · show c < d + width' / ssx * ssx + (width' - width' / ssx * ssx); omega

/-- `process_bi_planar_helper::<SSX, ..>` for every `SSX ≥ 1` and every offset `< SSX` -/
theorem planarHelper_spec' (ssx offset width yoff : Nat) (hs : 0 < ssx) (ho : offset < ssx) :
    PlRowSpec' ssx offset width yoff (planarHelper ssx offset width yoff) := by
  rw [planarHelper_eq]
  by_cases h0 : offset > 0
  · simp only [h0, if_true]
    have hts := plTail_sound ssx offset (min (ssx - offset) width) 1 (width - min (ssx - offset) width) yoff hs
      (by intro h; omega)
    have htc := plTail_cover ssx (min (ssx - offset) width) 1 (width - min (ssx - offset) width) yoff hs
    constructor
    · intro r hr
      simp only [List.mem_append, List.mem_singleton] at hr
      rcases hr with rfl | hr
      · refine ⟨rfl, rfl, rfl, rfl, ?_, rfl, ?_, ?_, ?_⟩
        · show 0 + min (ssx - offset) width ≤ width; omega
        · show 0 + min (ssx - offset) width ≤ ssx; omega
        · show 0 * ssx ≤ offset + 0; omega
        · show offset + 0 + min (ssx - offset) width ≤ (0 + 1) * ssx; omega
      · obtain ⟨a1, a2, a3, a4, a5, a6, a7, a8, a9, a10⟩ := hts r hr
        exact ⟨a1, a2, a3, a4, by omega, a7, a8, a9, a10⟩
    · intro c hc
      by_cases hc0 : c < min (ssx - offset) width
      · exact ⟨_, List.mem_append.2 (Or.inl (List.mem_singleton.2 rfl)), Nat.zero_le _,
          by show c < 0 + min (ssx - offset) width; omega⟩
      · obtain ⟨r, hr, b1, b2⟩ := htc c (by omega) (by omega)
        exact ⟨r, List.mem_append.2 (Or.inr hr), b1, b2⟩
  · have h00 : offset = 0 := by omega
    subst h00
    simp only [Nat.lt_irrefl, if_false, List.nil_append, gt_iff_lt]
    have hts := plTail_sound ssx 0 0 0 width yoff hs (by intro _; omega)
    have htc := plTail_cover ssx 0 0 width yoff hs
    constructor
    · intro r hr
      obtain ⟨a1, a2, a3, a4, a5, a6, a7, a8, a9, a10⟩ := hts r hr
      exact ⟨a1, a2, a3, a4, by omega, a7, a8, a9, a10⟩
    · intro c hc
      exact htc c (Nat.zero_le _) (by omega)

/-! ### one row: `ChannelConversionBuffer::process_bi_planar` -/

/-- the aligned chunks of `process_bi_planar` (after the offset chunk: `d` pixels and `dcx` chroma
samples consumed) -/
def plChunks (ssx d dcx width' pref yoff : Nat) : List PlRun :=
  (stepStarts width' pref).flatMap fun cs =>
    (planarHelper ssx 0 (min (cs + pref) width' - cs) yoff).map
      (PlRun.shift 0 (d + cs) (d + cs) 0 (dcx + cs / ssx) 0)

theorem plChunks_sound (ssx offset d dcx width' pref yoff : Nat) (hs : 0 < ssx) (hp : 0 < pref)
    (hdvd : pref % ssx = 0) (hal : 0 < width' → offset + d = dcx * ssx) :
    ∀ r ∈ plChunks ssx d dcx width' pref yoff, r.row = 0 ∧ r.ly = 0 ∧ r.cy = 0 ∧ r.yoff = yoff ∧ d ≤ r.col ∧
      r.col + r.n ≤ d + width' ∧ r.lx = r.col ∧ r.px + r.n ≤ ssx ∧ r.cx * ssx ≤ offset + r.col ∧
      offset + r.col + r.n ≤ (r.cx + 1) * ssx := by
  intro r hr
  unfold plChunks at hr
  simp only [List.mem_flatMap, List.mem_map] at hr
  obtain ⟨cs, hcs, r0, hr0, rfl⟩ := hr
  obtain ⟨k, hk, rfl⟩ := (mem_stepStarts hp).1 hcs
  have hmul : (k * pref) / ssx * ssx = k * pref :=
    Nat.div_mul_cancel (Nat.dvd_trans (Nat.dvd_of_mod_eq_zero hdvd) (Nat.dvd_mul_left pref k))
  obtain ⟨a1, a2, a3, a4, a5, a6, a7, a8, a9⟩ :=
    (planarHelper_spec' ssx 0 (min (k * pref + pref) width' - k * pref) yoff hs hs).sound r0 hr0
  have ha := hal (by omega)
  have e1 : (r0.cx + (dcx + k * pref / ssx)) * ssx = r0.cx * ssx + (dcx * ssx + k * pref) := by
    rw [Nat.add_mul, Nat.add_mul, hmul]
  have e2 : (r0.cx + (dcx + k * pref / ssx) + 1) * ssx = r0.cx * ssx + (dcx * ssx + k * pref) + ssx := by
    rw [Nat.succ_mul, e1]
  have e3 : (r0.cx + 1) * ssx = r0.cx * ssx + ssx := Nat.succ_mul _ _
  unfold PlRun.shift
  refine ⟨?_, ?_, ?_, a4, ?_, ?_, ?_, a7, ?_, ?_⟩
  · show r0.row + 0 = 0; omega
  · show r0.ly + 0 = 0; omega
  · show r0.cy + 0 = 0; omega
  · show d ≤ r0.col + (d + k * pref); omega
  · show r0.col + (d + k * pref) + r0.n ≤ d + width'; omega
  · show r0.lx + (d + k * pref) = r0.col + (d + k * pref); omega
  · show (r0.cx + (dcx + k * pref / ssx)) * ssx ≤ offset + (r0.col + (d + k * pref)); omega
  · show offset + (r0.col + (d + k * pref)) + r0.n ≤ (r0.cx + (dcx + k * pref / ssx) + 1) * ssx; omega

theorem plChunks_cover (ssx d dcx width' pref yoff : Nat) (hs : 0 < ssx) (hp : 0 < pref) :
    ∀ c, d ≤ c → c < d + width' → ∃ r ∈ plChunks ssx d dcx width' pref yoff, r.col ≤ c ∧ c < r.col + r.n := by
  intro c hc1 hc2
  have hx : c - d < width' := by omega
  obtain ⟨h1, h2, h3⟩ := chunk_of hp hx
  have hmem : (c - d) / pref * pref ∈ stepStarts width' pref := (mem_stepStarts hp).2 ⟨_, h1, rfl⟩
  obtain ⟨r0, hr0, g1, g2⟩ :=
    (planarHelper_spec' ssx 0 (min ((c - d) / pref * pref + pref) width' - (c - d) / pref * pref) yoff hs hs).cover
      (c - d - (c - d) / pref * pref) (by omega)
  refine ⟨PlRun.shift 0 (d + (c - d) / pref * pref) (d + (c - d) / pref * pref) 0
    (dcx + (c - d) / pref * pref / ssx) 0 r0, ?_, ?_, ?_⟩
  · unfold plChunks
    simp only [List.mem_flatMap, List.mem_map]
    exact ⟨_, hmem, r0, hr0, rfl⟩
  · show r0.col + (d + (c - d) / pref * pref) ≤ c; omega
  · show c < r0.col + (d + (c - d) / pref * pref) + r0.n; omega

theorem convPlanar_eq_true (nbpp ssx offset width yoff : Nat) :
    convPlanar true nbpp ssx offset width yoff =
      (if offset ≠ 0 then planarHelper ssx offset (min (ssx - offset) width) yoff else []) ++
      plChunks ssx (if offset ≠ 0 then min (ssx - offset) width else 0) (if offset ≠ 0 then 1 else 0)
        (if offset ≠ 0 then width - min (ssx - offset) width else width)
        (roundDown (BUFFER_BYTES / nbpp) ssx) yoff := by
  unfold convPlanar plChunks
  simp only [Bool.not_true, Bool.false_eq_true, if_false]

/-- `ChannelConversionBuffer::process_bi_planar`, with or without conversion.  With conversion the
buffer must hold one macro pixel (`ssx ≤ 3072 / native_bpp`), else `step_by(0)` panics. -/
theorem convPlanar_spec (conv : Bool) (nbpp ssx offset width yoff : Nat) (hs : 0 < ssx) (ho : offset < ssx)
    (hbuf : conv = true → ssx ≤ BUFFER_BYTES / nbpp) :
    PlRowSpec' ssx offset width yoff (convPlanar conv nbpp ssx offset width yoff) := by
  cases conv with
  | false =>
    have : convPlanar false nbpp ssx offset width yoff = planarHelper ssx offset width yoff := by
      unfold convPlanar; simp
    rw [this]; exact planarHelper_spec' ssx offset width yoff hs ho
  | true =>
    rw [convPlanar_eq_true]
    obtain ⟨hp1, hp2, _⟩ := roundDown_props hs (hbuf rfl)
    by_cases h0 : offset = 0
    · subst h0
      simp only [ne_eq, not_true_eq_false, if_false, List.nil_append]
      have hcs := plChunks_sound ssx 0 0 0 width _ yoff hs hp1 hp2 (by intro _; omega)
      have hcc := plChunks_cover ssx 0 0 width _ yoff hs hp1
      constructor
      · intro r hr
        obtain ⟨a1, a2, a3, a4, a5, a6, a7, a8, a9, a10⟩ := hcs r hr
        exact ⟨a1, a2, a3, a4, by omega, a7, a8, a9, a10⟩
      · intro c hc
        exact hcc c (Nat.zero_le _) (by omega)
    · simp only [ne_eq, h0, not_false_eq_true, if_true]
      have hpre := planarHelper_spec' ssx offset (min (ssx - offset) width) yoff hs ho
      have hcs := plChunks_sound ssx offset (min (ssx - offset) width) 1 (width - min (ssx - offset) width) _ yoff
        hs hp1 hp2 (by intro h; omega)
      have hcc := plChunks_cover ssx (min (ssx - offset) width) 1 (width - min (ssx - offset) width) _ yoff hs hp1
      constructor
      · intro r hr
        rcases List.mem_append.1 hr with hr | hr
        · obtain ⟨a1, a2, a3, a4, a5, a6, a7, a8, a9⟩ := hpre.sound r hr
          exact ⟨a1, a2, a3, a4, by omega, a6, a7, a8, a9⟩
        · obtain ⟨a1, a2, a3, a4, a5, a6, a7, a8, a9, a10⟩ := hcs r hr
          exact ⟨a1, a2, a3, a4, by omega, a7, a8, a9, a10⟩
      · intro c hc
        by_cases hc0 : c < min (ssx - offset) width
        · obtain ⟨r, hr, b1, b2⟩ := hpre.cover c hc0
          exact ⟨r, List.mem_append.2 (Or.inl hr), b1, b2⟩
        · obtain ⟨r, hr, b1, b2⟩ := hcc c (by omega) (by omega)
          exact ⟨r, List.mem_append.2 (Or.inr hr), b1, b2⟩

end Dds.Addr
