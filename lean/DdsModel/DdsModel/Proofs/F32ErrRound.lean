/-
The rounding-error bounds for the SPECIFICATION function `roundF32 : Rat → Nat` of `ConvF32.lean` (nearest binary32 of
an arbitrary rational): `roundF32_rel` — every `q` with `2^-126 ≤ |q| < 2^127` is rounded to a finite binary32 with
`|toRat (roundF32 q) − q| ≤ 2^-24·|q|`; `roundF32_ulp` — `|q| < 2^E` ⇒ error ≤ `2^(E−25)`.  `roundF32` divides with 34+
quotient bits and a sticky bit and rounds that dyadic once (`roundPack`); `rpU_sticky` (`F32Err.lean`) shows that an odd
significand with ≥ 26 bits is rounded at least one unit short of half a quantum, so the exact `q` (strictly within one
unit, `sticky_facts`) has the same error bound as if it had been rounded directly.  Core only.
-/
import DdsModel.Proofs.F32ErrOps
import DdsModel.Proofs.ConvFastSpec
namespace Dds.F32Err
open Dds Dds.CF32 Dds.ConvFast Dds.F32Mono Dds.F32Thr Dds.Spec

/-! ### `roundF32 : Rat → Nat` (the specification function) obeys the same bounds -/

/-- the quotient with sticky bit used by `roundF32`: at least 34 significant bits, and within one unit of `2·num/d` -/
theorem sticky_facts (n d : Nat) (hd : 0 < d) (hn : 0 < n) :
    2 ^ 34 ≤ 2 * (n * 2 ^ (Nat.log2 d + 34 - Nat.log2 n) / d) +
      (if n * 2 ^ (Nat.log2 d + 34 - Nat.log2 n) % d = 0 then 0 else 1) ∧
    (if n * 2 ^ (Nat.log2 d + 34 - Nat.log2 n) % d = 0 then
      (2 * (n * 2 ^ (Nat.log2 d + 34 - Nat.log2 n) / d) + 0) * d = 2 * (n * 2 ^ (Nat.log2 d + 34 - Nat.log2 n))
     else
      (2 * (n * 2 ^ (Nat.log2 d + 34 - Nat.log2 n) / d) + 1) * d < 2 * (n * 2 ^ (Nat.log2 d + 34 - Nat.log2 n)) + d ∧
      2 * (n * 2 ^ (Nat.log2 d + 34 - Nat.log2 n)) < (2 * (n * 2 ^ (Nat.log2 d + 34 - Nat.log2 n) / d) + 1) * d + d) := by
  have lo := Nat.log2_self_le (Nat.pos_iff_ne_zero.mp hn)
  have hi := @Nat.lt_log2_self d
  generalize hk : Nat.log2 d + 34 - Nat.log2 n = k
  have hnum : d * 2 ^ 33 ≤ n * 2 ^ k := by
    have h1 : 2 ^ (Nat.log2 d + 34) ≤ 2 ^ (Nat.log2 n + k) := pow_mono (by omega)
    have h2 : 2 ^ (Nat.log2 n + k) ≤ n * 2 ^ k := by
      rw [Nat.pow_add]; exact Nat.mul_le_mul_right _ lo
    have h3 : d * 2 ^ 33 ≤ 2 ^ (Nat.log2 d + 1) * 2 ^ 33 := Nat.mul_le_mul_right _ (Nat.le_of_lt hi)
    rw [← Nat.pow_add] at h3
    have e : Nat.log2 d + 1 + 33 = Nat.log2 d + 34 := by omega
    rw [e] at h3
    omega
  have e34 : (2 : Nat) ^ 34 = 2 * 2 ^ 33 := by decide
  rw [e34]
  generalize (2 : Nat) ^ 33 = P at hnum ⊢
  clear lo hi hk e34
  generalize n * 2 ^ k = num at hnum ⊢
  have hq : P ≤ num / d := (Nat.le_div_iff_mul_le hd).mpr (by rw [Nat.mul_comm]; exact hnum)
  have dm := Nat.div_add_mod num d
  have rl := Nat.mod_lt num hd
  generalize num / d = quo at hq dm ⊢
  generalize num % d = rem at dm rl ⊢
  constructor
  · split <;> omega
  · by_cases hr : rem = 0
    · rw [if_pos hr]
      rw [Nat.add_zero, Nat.mul_assoc, Nat.mul_comm quo d]
      omega
    · rw [if_neg hr, Nat.add_mul, Nat.one_mul, Nat.mul_assoc, Nat.mul_comm quo d]
      generalize d * quo = X at *
      omega

theorem quant_le_of_lt (m B T : Nat) (hm : m ≠ 0) (h : m * 2 ^ B < 2 ^ T) (hT : 875 ≤ T) :
    2 ^ quant m B ≤ 2 ^ (T - 24) := by
  have hLB := log2_add_lt hm h
  exact pow_mono (by unfold quant; omega)

/-- normal range: the quantum is `2^-23` of the leading power of two; for an odd significand that power is at most
`m − 1` -/
theorem quant_rel (m B : Nat) (hm : m ≠ 0) (hn : 2 ^ 874 ≤ m * 2 ^ B) :
    2 ^ 23 * 2 ^ quant m B ≤ m * 2 ^ B ∧ (m % 2 = 1 → 2 ≤ m → 2 ^ 23 * 2 ^ quant m B + 2 ^ B ≤ m * 2 ^ B) := by
  have lo := Nat.log2_self_le hm
  have hi := @Nat.lt_log2_self m
  have hL : 874 ≤ Nat.log2 m + B := by
    have : m * 2 ^ B < 2 ^ (Nat.log2 m + 1 + B) := by
      rw [Nat.pow_add (n := B)]; exact (Nat.mul_lt_mul_right (two_pow_pos B)).mpr hi
    have := (Nat.pow_lt_pow_iff_right (by decide : 1 < 2)).mp (Nat.lt_of_le_of_lt hn this)
    omega
  have hq : quant m B = Nat.log2 m + B - 23 := by unfold quant; omega
  have e : 23 + (Nat.log2 m + B - 23) = Nat.log2 m + B := by omega
  rw [hq, ← Nat.pow_add, e, Nat.pow_add]
  clear hn hq e
  refine ⟨Nat.mul_le_mul_right _ lo, ?_⟩
  intro hodd h2
  have hL1 : 1 ≤ Nat.log2 m := (Nat.le_log2 hm).mpr (by omega)
  have hev : 2 ^ Nat.log2 m % 2 = 0 := by
    obtain ⟨j, hj⟩ : ∃ j, Nat.log2 m = j + 1 := ⟨Nat.log2 m - 1, by omega⟩
    rw [hj, Nat.pow_succ]; omega
  have : 2 ^ Nat.log2 m + 1 ≤ m := by omega
  have := Nat.mul_le_mul_right (2 ^ B) this
  rw [Nat.add_mul, Nat.one_mul] at this
  exact this

theorem roundPack_quant_int (s : Bool) (m B : Nat) (hm : m ≠ 0) (hlt : m * 2 ^ B < 2 ^ 1127) :
    FinP (roundPack s m ((B : Int) - 1000)) ∧
    2 * (ival (roundPack s m ((B : Int) - 1000)) * 2 ^ 851) ≤
      2 * ((if s then -(m : Int) else (m : Int)) * 2 ^ B) + ((2 ^ quant m B : Nat) : Int) ∧
    2 * ((if s then -(m : Int) else (m : Int)) * 2 ^ B) ≤
      2 * (ival (roundPack s m ((B : Int) - 1000)) * 2 ^ 851) + ((2 ^ quant m B : Nat) : Int) := by
  obtain ⟨h0, _, h1, h2, _⟩ := rpU_val m B hm hlt
  obtain ⟨f1, f2⟩ := roundPack_fin s m B h0
  refine ⟨f1, ?_⟩
  rw [f2, pow_cast B, pow_cast 851]
  have g1 := Int.ofNat_le.mpr h1
  have g2 := Int.ofNat_le.mpr h2
  simp only [Int.natCast_add, Int.natCast_mul] at g1 g2
  clear h1 h2 hlt f2 f1 h0
  generalize ((2 ^ quant m B : Nat) : Int) = Q at *
  generalize ((2 ^ 851 : Nat) : Int) = P at *
  generalize ((2 ^ B : Nat) : Int) = PB at *
  generalize ((pval (rpU m B) : Nat) : Int) = V at *
  cases s
  · simp only [Bool.false_eq_true, if_false]
    generalize V * P = VP at *
    generalize (m : Int) * PB = X at *
    omega
  · simp only [if_true, Int.neg_mul]
    generalize V * P = VP at *
    generalize (m : Int) * PB = X at *
    omega

theorem roundPack_sticky_int (s : Bool) (m B : Nat) (hodd : m % 2 = 1) (hbig : 2 ^ 25 ≤ m) (hlt : m * 2 ^ B < 2 ^ 1127) :
    2 * (ival (roundPack s m ((B : Int) - 1000)) * 2 ^ 851) + 2 * ((2 ^ B : Nat) : Int) ≤
      2 * ((if s then -(m : Int) else (m : Int)) * 2 ^ B) + ((2 ^ quant m B : Nat) : Int) ∧
    2 * ((if s then -(m : Int) else (m : Int)) * 2 ^ B) + 2 * ((2 ^ B : Nat) : Int) ≤
      2 * (ival (roundPack s m ((B : Int) - 1000)) * 2 ^ 851) + ((2 ^ quant m B : Nat) : Int) := by
  have hm : m ≠ 0 := by omega
  obtain ⟨h0, _, _, _, _⟩ := rpU_val m B hm hlt
  obtain ⟨h1, h2⟩ := rpU_sticky m B hodd hbig hlt
  obtain ⟨f1, f2⟩ := roundPack_fin s m B h0
  rw [f2, pow_cast B, pow_cast 851]
  have g1 := Int.ofNat_le.mpr h1
  have g2 := Int.ofNat_le.mpr h2
  simp only [Int.natCast_add, Int.natCast_mul] at g1 g2
  clear h1 h2 hlt f2 f1 h0 hbig
  generalize ((2 ^ quant m B : Nat) : Int) = Q at *
  generalize ((2 ^ 851 : Nat) : Int) = P at *
  generalize ((2 ^ B : Nat) : Int) = PB at *
  generalize ((pval (rpU m B) : Nat) : Int) = V at *
  have k2 : ((2 : Nat) : Int) = 2 := rfl
  rw [k2] at g1 g2
  cases s
  · simp only [Bool.false_eq_true, if_false]
    generalize V * P = VP at *
    generalize (m : Int) * PB = X at *
    omega
  · simp only [if_true, Int.neg_mul]
    generalize V * P = VP at *
    generalize (m : Int) * PB = X at *
    omega

theorem rat_pos_eq (q : Rat) (hq : 0 < q) :
    0 < q.num.natAbs ∧ 0 < q.den ∧ q = ((q.num.natAbs : Nat) : Rat) / ((q.den : Nat) : Rat) ∧ ¬ q.num < 0 ∧ q.num ≠ 0 := by
  have hn : 0 < q.num := by
    have h1 : 0 ≤ q.num := Rat.num_nonneg.mpr (Rat.le_of_lt hq)
    have h2 : q.num ≠ 0 := fun h => by
      have := Rat.num_eq_zero.mp h
      rw [this] at hq; exact absurd hq (by decide)
    omega
  refine ⟨by omega, q.den_pos, ?_, by omega, by omega⟩
  have e : ((q.num.natAbs : Nat) : Rat) = ((q.num : Int) : Rat) := by
    rw [← Rat.intCast_natCast]; congr 1; omega
  rw [e, ← Rat.mkRat_eq_div, Rat.mkRat_self]

/-- `roundF32 q` for a positive `q` not absurdly small: one `roundPack` of a significand `m ≥ 2^34` that is exact when
even and within one unit of the exact value when odd (the sticky bit) -/
theorem roundF32_pos_core (q : Rat) (hq : 0 < q) (hk : Nat.log2 q.den + 34 - Nat.log2 q.num.natAbs ≤ 999) (K : Nat)
    (hK : K = 1000) :
    ∃ m B : Nat, roundF32 q = roundPack false m ((B : Int) - 1000) ∧ 2 ^ 34 ≤ m ∧ B ≤ 999 ∧
      (m % 2 = 0 → q * ((2 ^ K : Nat) : Rat) = ((m * 2 ^ B : Nat) : Rat)) ∧
      (m % 2 = 1 → ((m * 2 ^ B : Nat) : Rat) < q * ((2 ^ K : Nat) : Rat) + ((2 ^ B : Nat) : Rat) ∧
        q * ((2 ^ K : Nat) : Rat) < ((m * 2 ^ B : Nat) : Rat) + ((2 ^ B : Nat) : Rat)) := by
  obtain ⟨hn, hd, heq, hneg, hne⟩ := rat_pos_eq q hq
  have hu := roundF32_unfold q
  have e1 : ¬ ((q.num == 0) = true) := by intro h'; exact hne (eq_of_beq h')
  rw [if_neg e1, decide_eq_false hneg, Nat.shiftLeft_eq] at hu
  obtain ⟨s1, s2⟩ := sticky_facts q.num.natAbs q.den hd hn
  generalize q.num.natAbs = n at *
  generalize q.den = d at *
  generalize hkk : Nat.log2 d + 34 - Nat.log2 n = k at *
  have hdr : (0 : Rat) < (d : Rat) := Rat.natCast_pos.mpr hd
  -- q · 2^K = (2·num · 2^B) / d
  have hpow : n * 2 ^ K = 2 * (n * 2 ^ k) * 2 ^ (999 - k) := by
    have : K = k + 1 + (999 - k) := by omega
    rw [this, Nat.pow_add, Nat.pow_succ]
    rw [Nat.mul_comm 2 (n * 2 ^ k), Nat.mul_assoc n, ← Nat.mul_assoc]
  have hqK : q * ((2 ^ K : Nat) : Rat) = ((2 * (n * 2 ^ k) * 2 ^ (999 - k) : Nat) : Rat) / (d : Rat) := by
    rw [← hpow, heq, Rat.natCast_mul, Rat.div_def, Rat.div_def, Rat.mul_assoc, Rat.mul_comm (d : Rat)⁻¹, ← Rat.mul_assoc]
  have e3 : (-((k : Nat) : Int) - 1) = (((999 - k : Nat) : Nat) : Int) - 1000 := by omega
  rw [e3] at hu
  generalize n * 2 ^ k = num at *
  by_cases hr : num % d = 0
  · have hb : ((num % d == 0) = true) := by simp [hr]
    rw [if_pos hb] at hu
    rw [if_pos hr] at s1 s2
    refine ⟨_, _, hu, s1, by omega, ?_, ?_⟩
    · intro _
      rw [hqK, ← s2, Nat.mul_right_comm, Rat.natCast_mul _ d, Rat.mul_div_cancel (Rat.ne_of_gt hdr)]
    · intro ho; omega
  · have hb : ¬ ((num % d == 0) = true) := by simp [hr]
    rw [if_neg hb] at hu
    rw [if_neg hr] at s1 s2
    refine ⟨_, _, hu, s1, by omega, ?_, ?_⟩
    · intro he; omega
    · intro _
      obtain ⟨t1, t2⟩ := s2
      have hB := two_pow_pos (999 - k)
      rw [hqK]
      generalize 2 * (num / d) + 1 = m at *
      generalize 2 ^ (999 - k) = PB at *
      constructor
      · -- m·PB < X/d + PB  ⟸  m·PB·d < X + PB·d
        have n1 : m * PB * d < 2 * num * PB + PB * d := by
          have := (Nat.mul_lt_mul_right hB).mpr t1
          rw [Nat.add_mul] at this
          rw [Nat.mul_right_comm, Nat.mul_comm PB d]; exact this
        have r1 := Rat.natCast_lt_natCast.mpr n1
        rw [Rat.natCast_add, Rat.natCast_mul _ d, Rat.natCast_mul PB d] at r1
        apply Rat.lt_of_mul_lt_mul_right _ (Rat.le_of_lt hdr)
        rw [Rat.add_mul, Rat.div_mul_cancel (Rat.ne_of_gt hdr)]
        exact r1
      · have n2 : 2 * num * PB < m * PB * d + PB * d := by
          have := (Nat.mul_lt_mul_right hB).mpr t2
          rw [Nat.add_mul] at this
          rw [Nat.mul_right_comm m PB d, Nat.mul_comm PB d]; exact this
        have r2 := Rat.natCast_lt_natCast.mpr n2
        rw [Rat.natCast_add, Rat.natCast_mul _ d, Rat.natCast_mul PB d] at r2
        apply Rat.lt_of_mul_lt_mul_right _ (Rat.le_of_lt hdr)
        rw [Rat.add_mul, Rat.div_mul_cancel (Rat.ne_of_gt hdr)]
        exact r2

theorem lt_pow_of_odd (m B T : Nat) (hBT : B < T) (hodd : m % 2 = 1) (h : (m - 1) * 2 ^ B < 2 ^ T) : m * 2 ^ B < 2 ^ T := by
  obtain ⟨j, hj⟩ : ∃ j, T = B + 1 + j := ⟨T - B - 1, by omega⟩
  have e : 2 ^ T = 2 * 2 ^ j * 2 ^ B := by
    rw [hj, Nat.pow_add, Nat.pow_add, Nat.mul_comm (2 ^ B), Nat.mul_assoc, Nat.mul_comm (2 ^ B), ← Nat.mul_assoc]
  rw [e] at h ⊢
  have := Nat.lt_of_mul_lt_mul_right h
  exact (Nat.mul_lt_mul_right (two_pow_pos B)).mpr (by omega)

theorem pow874_le (m B : Nat) (hm : 2 ^ 34 ≤ m) (h : 2 ^ 874 < (m + 1) * 2 ^ B) : 2 ^ 874 ≤ m * 2 ^ B := by
  by_cases hB : B ≤ 874
  · have e : 2 ^ 874 = 2 ^ (874 - B) * 2 ^ B := by rw [← Nat.pow_add, Nat.sub_add_cancel hB]
    rw [e] at h ⊢
    have h3 := Nat.lt_of_mul_lt_mul_right h
    exact Nat.mul_le_mul_right _ (Nat.le_of_lt_succ h3)
  · have hB' : 874 ≤ B := by omega
    have h1 : 2 ^ 874 ≤ 2 ^ B := pow_mono (a := 874) (b := B) hB'
    have h2 : 2 ^ B ≤ m * 2 ^ B := Nat.le_mul_of_pos_left _ (by have := two_pow_pos 34; omega)
    exact Nat.le_trans h1 h2

/-- positive `q`: finite result, error at most half the quantum `Qn` of the result's binade; `Qn ≤ 2^(T−24)` for a bound
`q < 2^(T−1000)`, and `2^23·Qn ≤ q·2^1000` in the normal range -/
theorem roundF32_pos_gen (q : Rat) (hq : 0 < q) (hk : Nat.log2 q.den + 34 - Nat.log2 q.num.natAbs ≤ 999) (K : Nat)
    (hK : K = 1000) (T : Nat) (hT : 1000 ≤ T) (hT2 : T ≤ 1127) (hb : q * ((2 ^ K : Nat) : Rat) < ((2 ^ T : Nat) : Rat)) :
    roundF32 q < 0x7F800000 ∧ FinP (roundF32 q) ∧ ∃ Qn : Nat, Near (toRat (roundF32 q)) q ((Qn : Rat) / (2 * ((2 ^ K : Nat) : Rat))) ∧
      Qn ≤ 2 ^ (T - 24) ∧
      (((2 ^ 874 : Nat) : Rat) ≤ q * ((2 ^ K : Nat) : Rat) → ((2 ^ 23 * Qn : Nat) : Rat) ≤ q * ((2 ^ K : Nat) : Rat)) := by
  obtain ⟨m, B, hx, hm34, hB, hev, hod⟩ := roundF32_pos_core q hq hk K hK
  have hm : m ≠ 0 := by have := two_pow_pos 34; omega
  have hm25 : 2 ^ 25 ≤ m := Nat.le_trans (pow_mono (by decide)) hm34
  have hPB : (0 : Rat) < ((2 ^ B : Nat) : Rat) := Rat.natCast_pos.mpr (two_pow_pos B)
  have hPK : (0 : Rat) < ((2 ^ K : Nat) : Rat) := Rat.natCast_pos.mpr (two_pow_pos K)
  -- the significand is below the bound
  have hltT : m * 2 ^ B < 2 ^ T := by
    by_cases hpar : m % 2 = 0
    · rw [← Rat.natCast_lt_natCast, ← hev hpar]; exact hb
    · have ho : m % 2 = 1 := by omega
      obtain ⟨o1, _⟩ := hod ho
      apply lt_pow_of_odd m B T (by omega) ho
      rw [← Rat.natCast_lt_natCast]
      have e : ((m - 1) * 2 ^ B : Nat) = m * 2 ^ B - 2 ^ B := by rw [Nat.sub_mul, Nat.one_mul]
      have hle : 2 ^ B ≤ m * 2 ^ B := Nat.le_mul_of_pos_left _ (by omega)
      have e2 : (((m - 1) * 2 ^ B : Nat) : Rat) + ((2 ^ B : Nat) : Rat) = ((m * 2 ^ B : Nat) : Rat) := by
        rw [← Rat.natCast_add, e, Nat.sub_add_cancel hle]
      generalize (((m - 1) * 2 ^ B : Nat) : Rat) = A at *
      generalize ((m * 2 ^ B : Nat) : Rat) = C at *
      generalize ((2 ^ B : Nat) : Rat) = PB at *
      generalize q * ((2 ^ K : Nat) : Rat) = X at *
      generalize ((2 ^ T : Nat) : Rat) = TT at *
      grind
  have hlt : m * 2 ^ B < 2 ^ 1127 := Nat.lt_of_lt_of_le hltT (pow_mono (a := T) (b := 1127) hT2)
  obtain ⟨f, g1, g2⟩ := roundPack_quant_int false m B hm hlt
  rw [← hx] at f g1 g2
  have hpos : roundF32 q < 0x7F800000 := by
    rw [hx, roundPack_eq_rpU]; exact (rpU_val m B hm hlt).1
  refine ⟨hpos, f, 2 ^ quant m B, ?_, quant_le_of_lt m B T hm hltT (by omega), ?_⟩
  · -- the error
    simp only [Bool.false_eq_true, if_false] at g1 g2
    rw [pow_cast 851, pow_cast B] at g1 g2
    have r1 := Rat.intCast_le_intCast.mpr g1
    have r2 := Rat.intCast_le_intCast.mpr g2
    simp only [Rat.intCast_add, Rat.intCast_mul, Rat.intCast_natCast] at r1 r2
    have e2 : ((2 : Int) : Rat) = 2 := rfl
    rw [e2, ← Rat.natCast_mul m] at r1 r2
    unfold Near
    refine near_of_scaled (toRat (roundF32 q)) q _ (ival (roundF32 q) : Rat) (q * ((2 ^ K : Nat) : Rat))
      ((2 ^ quant m B : Nat) : Rat) ((2 ^ 851 : Nat) : Rat) ((2 ^ 149 : Nat) : Rat) ((2 ^ K : Nat) : Rat)
      (Rat.natCast_pos.mpr (two_pow_pos _)) (Rat.natCast_pos.mpr (two_pow_pos 851)) (p1000_split K hK)
      (toRat_ival _ f) rfl ?_ ?_ ?_
    · have : ((2 ^ K : Nat) : Rat) ≠ 0 := Rat.ne_of_gt hPK
      generalize ((2 ^ K : Nat) : Rat) = P at *
      generalize ((2 ^ quant m B : Nat) : Rat) = Q at *
      grind
    · by_cases hpar : m % 2 = 0
      · rw [hev hpar]; exact r1
      · have ho : m % 2 = 1 := by omega
        obtain ⟨o1, o2⟩ := hod ho
        obtain ⟨t1, t2⟩ := roundPack_sticky_int false m B ho hm25 hlt
        rw [← hx] at t1
        simp only [Bool.false_eq_true, if_false] at t1
        rw [pow_cast 851, pow_cast B] at t1
        have r3 := Rat.intCast_le_intCast.mpr t1
        simp only [Rat.intCast_add, Rat.intCast_mul, Rat.intCast_natCast] at r3
        rw [e2, ← Rat.natCast_mul m] at r3
        generalize ((m * 2 ^ B : Nat) : Rat) = C at *
        generalize ((2 ^ B : Nat) : Rat) = PB at *
        generalize q * ((2 ^ K : Nat) : Rat) = X at *
        generalize (ival (roundF32 q) : Rat) * ((2 ^ 851 : Nat) : Rat) = V at *
        generalize ((2 ^ quant m B : Nat) : Rat) = Q at *
        grind
    · by_cases hpar : m % 2 = 0
      · rw [hev hpar]; exact r2
      · have ho : m % 2 = 1 := by omega
        obtain ⟨o1, o2⟩ := hod ho
        obtain ⟨t1, t2⟩ := roundPack_sticky_int false m B ho hm25 hlt
        rw [← hx] at t2
        simp only [Bool.false_eq_true, if_false] at t2
        rw [pow_cast 851, pow_cast B] at t2
        have r3 := Rat.intCast_le_intCast.mpr t2
        simp only [Rat.intCast_add, Rat.intCast_mul, Rat.intCast_natCast] at r3
        rw [e2, ← Rat.natCast_mul m] at r3
        generalize ((m * 2 ^ B : Nat) : Rat) = C at *
        generalize ((2 ^ B : Nat) : Rat) = PB at *
        generalize q * ((2 ^ K : Nat) : Rat) = X at *
        generalize (ival (roundF32 q) : Rat) * ((2 ^ 851 : Nat) : Rat) = V at *
        generalize ((2 ^ quant m B : Nat) : Rat) = Q at *
        grind
  · -- the normal range
    intro hn
    by_cases hpar : m % 2 = 0
    · have hnn : 2 ^ 874 ≤ m * 2 ^ B := by
        rw [← Rat.natCast_le_natCast, ← hev hpar]; exact hn
      rw [hev hpar]
      exact Rat.natCast_le_natCast.mpr (quant_rel m B hm hnn).1
    · have ho : m % 2 = 1 := by omega
      obtain ⟨o1, o2⟩ := hod ho
      have hnn : 2 ^ 874 ≤ m * 2 ^ B := by
        apply pow874_le m B hm34
        rw [← Rat.natCast_lt_natCast, Nat.add_mul, Nat.one_mul, Rat.natCast_add]
        generalize ((m * 2 ^ B : Nat) : Rat) = C at *
        generalize ((2 ^ B : Nat) : Rat) = PB at *
        generalize q * ((2 ^ K : Nat) : Rat) = X at *
        generalize ((2 ^ 874 : Nat) : Rat) = L at *
        grind
      have := (quant_rel m B hm hnn).2 ho (by have := two_pow_pos 34; omega)
      have r := Rat.natCast_le_natCast.mpr this
      rw [Rat.natCast_add] at r
      generalize ((m * 2 ^ B : Nat) : Rat) = C at *
      generalize ((2 ^ B : Nat) : Rat) = PB at *
      generalize q * ((2 ^ K : Nat) : Rat) = X at *
      generalize ((2 ^ 23 * 2 ^ quant m B : Nat) : Rat) = QQ at *
      grind

theorem k_le (q : Rat) (hq : 0 < q) (c : Nat) (hc : c ≤ 900) (hlo : 1 ≤ q * ((2 ^ c : Nat) : Rat)) :
    Nat.log2 q.den + 34 - Nat.log2 q.num.natAbs ≤ 999 := by
  obtain ⟨hn, hd, heq, _, _⟩ := rat_pos_eq q hq
  generalize q.num.natAbs = n at *
  generalize q.den = d at *
  have hdr : (0 : Rat) < (d : Rat) := Rat.natCast_pos.mpr hd
  have h1 : d ≤ n * 2 ^ c := by
    rw [← Rat.natCast_le_natCast, Rat.natCast_mul]
    have := Rat.mul_le_mul_of_nonneg_right hlo (Rat.le_of_lt hdr)
    rw [Rat.one_mul, heq, Rat.mul_assoc, Rat.mul_comm _ (d : Rat), ← Rat.mul_assoc, Rat.div_mul_cancel (Rat.ne_of_gt hdr)] at this
    exact this
  have hi := @Nat.lt_log2_self n
  have h2 : n * 2 ^ c < 2 ^ (Nat.log2 n + 1 + c) := by
    rw [Nat.pow_add (n := c)]; exact (Nat.mul_lt_mul_right (two_pow_pos c)).mpr hi
  have h3 : Nat.log2 d < Nat.log2 n + 1 + c := (Nat.log2_lt (by omega)).mpr (Nat.lt_of_le_of_lt h1 h2)
  omega

/-- ABSOLUTE FORM for the specification function, positive `q` -/
theorem roundF32_ulp_pos_aux (K : Nat) (hK : K = 1000) (q : Rat) (hq : 0 < q) (hlo : 1 ≤ q * ((2 ^ 200 : Nat) : Rat)) (E W : Nat) (hE : E ≤ 127)
    (hW : W = 2 ^ E) (h2 : q < (W : Rat)) :
    roundF32 q < 0x7F800000 ∧ FinP (roundF32 q) ∧ Near (toRat (roundF32 q)) q ((W : Rat) / 33554432) := by
  have hPK : (0 : Rat) < ((2 ^ K : Nat) : Rat) := Rat.natCast_pos.mpr (two_pow_pos K)
  have hb : q * ((2 ^ K : Nat) : Rat) < ((2 ^ (E + K) : Nat) : Rat) := by
    rw [Nat.pow_add, ← hW, Rat.natCast_mul]
    exact Rat.mul_lt_mul_of_pos_right h2 hPK
  obtain ⟨hp, f, Qn, nr, hQ, _⟩ := roundF32_pos_gen q hq (k_le q hq 200 (by decide) hlo) K hK (E + K) (by omega) (by omega) hb
  refine ⟨hp, f, near_mono _ _ _ _ nr ?_⟩
  have hQ' : (Qn : Rat) ≤ ((2 ^ (E + K - 24) : Nat) : Rat) := Rat.natCast_le_natCast.mpr hQ
  have hQ2 : ((2 ^ (E + K - 24) : Nat) : Rat) * 33554432 = (W : Rat) * ((2 ^ K : Nat) : Rat) * 2 := by
    have n : 2 ^ (E + K - 24) * 33554432 = W * 2 ^ K * 2 := by
      have e25 : 33554432 = 2 ^ 25 := by decide
      rw [e25, ← Nat.pow_add, hW, ← Nat.pow_add, ← Nat.pow_succ]
      congr 1; omega
    have := congrArg (Nat.cast : Nat → Rat) n
    simpa only [Rat.natCast_mul, Rat.natCast_ofNat] using this
  have : ((2 ^ K : Nat) : Rat) ≠ 0 := Rat.ne_of_gt hPK
  generalize ((2 ^ K : Nat) : Rat) = P at *
  generalize ((2 ^ (E + K - 24) : Nat) : Rat) = Q at *
  generalize (Qn : Rat) = qn at *
  generalize (W : Rat) = w at *
  -- qn / (2 P) ≤ w / 2^25  ⟸  qn ≤ Q, Q·2^25 = w·P·2
  apply Rat.le_of_mul_le_mul_right _ (Rat.mul_pos (by decide : (0 : Rat) < 2) hPK)
  have e1 : qn / (2 * P) * (2 * P) = qn := Rat.div_mul_cancel (by grind)
  rw [e1]
  grind

/-- RELATIVE FORM for the specification function, positive `q` in the normal range -/
theorem roundF32_rel_pos_aux (K : Nat) (hK : K = 1000) (q : Rat) (hq : 0 < q) (hlo : 1 ≤ q * ((2 ^ 126 : Nat) : Rat))
    (hhi : q < ((2 ^ 127 : Nat) : Rat)) :
    roundF32 q < 0x7F800000 ∧ FinP (roundF32 q) ∧ Near (toRat (roundF32 q)) q (q / 16777216) := by
  have hPK : (0 : Rat) < ((2 ^ K : Nat) : Rat) := Rat.natCast_pos.mpr (two_pow_pos K)
  have hP874 : (0 : Rat) < ((2 ^ 874 : Nat) : Rat) := Rat.natCast_pos.mpr (two_pow_pos 874)
  have hP74 : (1 : Rat) ≤ ((2 ^ 74 : Nat) : Rat) := by decide +kernel
  have hlo200 : 1 ≤ q * ((2 ^ 200 : Nat) : Rat) := by
    rw [pow_split_cast 200 126 74 rfl, ← Rat.mul_assoc]
    have h0 : (0 : Rat) ≤ q * ((2 ^ 126 : Nat) : Rat) := by grind
    have := Rat.mul_le_mul_of_nonneg_left hP74 h0
    grind
  have hb : q * ((2 ^ K : Nat) : Rat) < ((2 ^ (127 + K) : Nat) : Rat) := by
    rw [Nat.pow_add, Rat.natCast_mul]
    exact Rat.mul_lt_mul_of_pos_right hhi hPK
  obtain ⟨hp, f, Qn, nr, _, hrel⟩ := roundF32_pos_gen q hq (k_le q hq 200 (by decide) hlo200) K hK (127 + K) (by omega) (by omega) hb
  refine ⟨hp, f, near_mono _ _ _ _ nr ?_⟩
  have hn : ((2 ^ 874 : Nat) : Rat) ≤ q * ((2 ^ K : Nat) : Rat) := by
    rw [pow_split_cast K 126 874 (by omega), ← Rat.mul_assoc]
    have := Rat.mul_le_mul_of_nonneg_right hlo (Rat.le_of_lt hP874)
    rwa [Rat.one_mul] at this
  have hr := hrel hn
  rw [Rat.natCast_mul] at hr
  have e23 : ((2 ^ 23 : Nat) : Rat) = 8388608 := by decide +kernel
  rw [e23] at hr
  have : ((2 ^ K : Nat) : Rat) ≠ 0 := Rat.ne_of_gt hPK
  generalize ((2 ^ K : Nat) : Rat) = P at *
  generalize (Qn : Rat) = qn at *
  apply Rat.le_of_mul_le_mul_right _ (Rat.mul_pos (by decide : (0 : Rat) < 2) hPK)
  have e1 : qn / (2 * P) * (2 * P) = qn := Rat.div_mul_cancel (by grind)
  rw [e1]
  grind

/-- ABSOLUTE FORM for the specification function `roundF32 : Rat → Nat`, positive `q ≥ 2^-200` below `2^E`: finite and
`|toRat (roundF32 q) − q| ≤ 2^(E−25)` -/
theorem roundF32_ulp_pos (q : Rat) (hq : 0 < q) (hlo : 1 ≤ q * ((2 ^ 200 : Nat) : Rat)) (E W : Nat) (hE : E ≤ 127)
    (hW : W = 2 ^ E) (h2 : q < (W : Rat)) :
    roundF32 q < 0x7F800000 ∧ FinP (roundF32 q) ∧ Near (toRat (roundF32 q)) q ((W : Rat) / 33554432) :=
  roundF32_ulp_pos_aux 1000 rfl q hq hlo E W hE hW h2

/-- RELATIVE FORM, positive `q` in the normal range `[2^-126, 2^127)`: `|toRat (roundF32 q) − q| ≤ 2^-24·q` -/
theorem roundF32_rel_pos (q : Rat) (hq : 0 < q) (hlo : 1 ≤ q * ((2 ^ 126 : Nat) : Rat))
    (hhi : q < ((2 ^ 127 : Nat) : Rat)) :
    roundF32 q < 0x7F800000 ∧ FinP (roundF32 q) ∧ Near (toRat (roundF32 q)) q (q / 16777216) :=
  roundF32_rel_pos_aux 1000 rfl q hq hlo hhi

theorem finP_neg_of (x : Nat) (hx : x < 0x7F800000) : FinP (signBit + x) ∧ toRat (signBit + x) = -toRat x := by
  obtain ⟨f1, v1⟩ := finP_signBit_add x hx
  obtain ⟨f0, v0⟩ := finP_of_lt x hx
  refine ⟨f1, ?_⟩
  rw [toRat_ival _ f1, toRat_ival _ f0, v1, v0, Rat.intCast_neg, Rat.div_def, Rat.div_def, Rat.neg_mul]

theorem near_neg (a b e : Rat) (h : Near a b e) : Near (-a) (-b) e := by
  unfold Near at *
  constructor <;> grind

theorem roundF32_of_neg (q : Rat) (hq : q < 0) : 0 < -q ∧ roundF32 q = signBit + roundF32 (-q) ∧ q.abs = -q := by
  have hp : 0 < -q := by grind
  obtain ⟨_, _, _, h1, h2⟩ := rat_pos_eq (-q) hp
  have hn : 0 < (-q).num := by omega
  have := roundF32_neg (-q) hn
  rw [Rat.neg_neg] at this
  exact ⟨hp, this, Rat.abs_of_nonpos (Rat.le_of_lt hq)⟩

/-- RELATIVE FORM for the specification function: every rational in the normal range `2^-126 ≤ |q| < 2^127` is rounded
to a finite binary32 with `|toRat (roundF32 q) − q| ≤ 2^-24·|q|` -/
theorem roundF32_rel (q : Rat) (hlo : 1 ≤ q.abs * ((2 ^ 126 : Nat) : Rat)) (hhi : q.abs < ((2 ^ 127 : Nat) : Rat)) :
    FinP (roundF32 q) ∧ Near (toRat (roundF32 q)) q (q.abs / 16777216) := by
  by_cases h0 : 0 ≤ q
  · have hq : 0 < q := by
      apply Rat.lt_of_le_of_ne h0
      intro he
      rw [← he, Rat.abs_zero, Rat.zero_mul] at hlo
      exact absurd hlo (by decide)
    rw [Rat.abs_of_nonneg h0] at hlo hhi ⊢
    exact (roundF32_rel_pos q hq hlo hhi).2
  · have hq : q < 0 := Rat.not_le.mp h0
    obtain ⟨hp, hr, ha⟩ := roundF32_of_neg q hq
    rw [ha] at hlo hhi ⊢
    obtain ⟨b, f, nr⟩ := roundF32_rel_pos (-q) hp hlo hhi
    obtain ⟨f1, v1⟩ := finP_neg_of _ b
    rw [hr, v1]
    refine ⟨f1, ?_⟩
    have := near_neg _ _ _ nr
    rwa [Rat.neg_neg] at this

/-- ABSOLUTE FORM for the specification function: `q = 0` or `2^-200 ≤ |q|`, `|q| < 2^E` (`E ≤ 127`) ⇒ finite and
`|toRat (roundF32 q) − q| ≤ 2^(E−25)` (for `E = −125 + 126`… down to the subnormal range use `E = 0`: the bound is then
2^-25; the sharper subnormal bound 2^-150 is `isRound_ulp`'s `T = 875`) -/
theorem roundF32_ulp (q : Rat) (hlo : q = 0 ∨ 1 ≤ q.abs * ((2 ^ 200 : Nat) : Rat)) (E W : Nat) (hE : E ≤ 127)
    (hW : W = 2 ^ E) (h1 : -(W : Rat) < q) (h2 : q < (W : Rat)) :
    FinP (roundF32 q) ∧ Near (toRat (roundF32 q)) q ((W : Rat) / 33554432) := by
  have hWpos : (0 : Rat) < (W : Rat) := Rat.natCast_pos.mpr (by rw [hW]; exact two_pow_pos E)
  by_cases hz : q = 0
  · subst hz
    have e : roundF32 0 = 0 := by decide
    rw [e, toRat_zero]
    refine ⟨by decide, ?_⟩
    unfold Near
    constructor <;> grind
  · have hlo' : 1 ≤ q.abs * ((2 ^ 200 : Nat) : Rat) := by
      rcases hlo with h | h
      · exact absurd h hz
      · exact h
    by_cases h0 : 0 ≤ q
    · have hq : 0 < q := Rat.lt_of_le_of_ne h0 (fun he => hz he.symm)
      rw [Rat.abs_of_nonneg h0] at hlo'
      exact (roundF32_ulp_pos q hq hlo' E W hE hW h2).2
    · have hq : q < 0 := Rat.not_le.mp h0
      obtain ⟨hp, hr, ha⟩ := roundF32_of_neg q hq
      rw [ha] at hlo'
      obtain ⟨b, f, nr⟩ := roundF32_ulp_pos (-q) hp hlo' E W hE hW (by grind)
      obtain ⟨f1, v1⟩ := finP_neg_of _ b
      rw [hr, v1]
      refine ⟨f1, ?_⟩
      have := near_neg _ _ _ nr
      rwa [Rat.neg_neg] at this
end Dds.F32Err

