/- predicate of the 16-bit / binary32 survival check (evaluated slice-wise in QuantFinA1..4) -/
import DdsModel.Proofs.Quant
namespace Dds.Quant
def holdsF32U16 (v : Nat) : Bool :=
  decide (f32Num (f32Bits ((v : Rat) / 65535)) ≤ f32Den (f32Bits ((v : Rat) / 65535)))
  && (decide (0 < f32Den (f32Bits ((v : Rat) / 65535)))
  && (qRatio 65535 (f32Num (f32Bits ((v : Rat) / 65535))) (f32Den (f32Bits ((v : Rat) / 65535))) == v))
end Dds.Quant
