/-
What a checked threshold table (`Proofs/F32Thr.lean`) says about its exceptional entries `2t + 1`, in the vocabulary
of the specification (`Rat`): the pattern `t` is the LARGEST float below the exact tie `(2k − 1)/(2L)` of the code
`k` it produces (so the nearest code is `k − 1`), and it is within the tie tolerance `2^-12/255` of that tie.
-/
import DdsModel.Proofs.F32Thr
namespace Dds.F32Thr
open Dds Dds.CF32 Dds.ConvFast Dds.F32Mono Dds.Spec

/-- the exceptional patterns of a table -/
def devOf (tbl : List Nat) : List Nat := (tbl.filter (fun e => e % 2 == 1)).map (fun e => e / 2)

theorem mem_devOf (tbl : List Nat) (b : Nat) : b ∈ devOf tbl ↔ (2 * b + 1) ∈ tbl := by
  unfold devOf
  simp only [List.mem_map, List.mem_filter, beq_iff_eq]
  constructor
  · rintro ⟨e, ⟨he, ho⟩, hb⟩
    have : e = 2 * b + 1 := by omega
    rw [← this]; exact he
  · intro h
    exact ⟨2 * b + 1, ⟨h, by omega⟩, by omega⟩

/-- number of odd entries (a plain loop for the kernel) -/
def countOdd : List Nat → Nat
  | [] => 0
  | e :: es => Nat.add (Nat.mod e 2) (countOdd es)

theorem devOf_length : ∀ tbl : List Nat, (devOf tbl).length = countOdd tbl
  | [] => rfl
  | e :: es => by
    have ih := devOf_length es
    unfold devOf at ih ⊢
    have e1 : Nat.mod e 2 = e % 2 := rfl
    have e2 : ∀ a b : Nat, Nat.add a b = a + b := fun _ _ => rfl
    rw [List.filter_cons, countOdd, e1, e2]
    by_cases h : e % 2 = 1
    · have : (e % 2 == 1) = true := by simpa using h
      rw [if_pos this, List.map_cons, List.length_cons, ih, h]; omega
    · have : ¬ (e % 2 == 1) = true := by simpa using h
      rw [if_neg this, ih]; omega

/-! ### fractions of naturals -/

theorem natDiv_lt_natDiv (N D A B : Nat) (hD : 0 < D) (hB : 0 < B) :
    (N : Rat) / (D : Rat) < (A : Rat) / (B : Rat) ↔ N * B < A * D := by
  have e : (A : Rat) / (B : Rat) * (D : Rat) = ((A * D : Nat) : Rat) / (B : Rat) := by
    rw [Rat.div_def, Rat.div_def, Rat.natCast_mul, Rat.mul_assoc, Rat.mul_comm (B : Rat)⁻¹, ← Rat.mul_assoc]
  rw [Rat.div_lt_iff (Rat.natCast_pos.mpr hD), e, Rat.lt_div_iff (Rat.natCast_pos.mpr hB), ← Rat.natCast_mul,
    Rat.natCast_lt_natCast]

theorem natDiv_le_natDiv (N D A B : Nat) (hD : 0 < D) (hB : 0 < B) :
    (N : Rat) / (D : Rat) ≤ (A : Rat) / (B : Rat) ↔ N * B ≤ A * D := by
  rw [← Rat.not_lt, natDiv_lt_natDiv A B N D hB hD]
  omega

theorem toRat_natDiv (b : Nat) (hb : b < 0x7F800000) : toRat b = (pval b : Rat) / ((2 ^ 149 : Nat) : Rat) := by
  rw [toRat_pval b hb]
  exact mkRat_eq_natDiv _ _

/-! ### the tie tolerance -/

theorem cast_two_k (k : Nat) (hk : 1 ≤ k) : ((2 * k - 1 : Nat) : Rat) + 1 = 2 * (k : Rat) := by
  have h : 2 * k - 1 + 1 = 2 * k := by omega
  have := congrArg (Nat.cast : Nat → Rat) h
  rw [Rat.natCast_add, Rat.natCast_mul] at this
  exact this

/-- a code is its lower tie plus half a step -/
theorem tie_half (k L : Nat) (hk : 1 ≤ k) (hL : 0 < L) :
    (k : Rat) / (L : Rat) = ((2 * k - 1 : Nat) : Rat) / ((2 * L : Nat) : Rat) + 1 / (2 * (L : Rat)) := by
  have h1 := cast_two_k k hk
  have hL' : (0 : Rat) < (L : Rat) := Rat.natCast_pos.mpr hL
  rw [Rat.natCast_mul]
  generalize ((2 * k - 1 : Nat) : Rat) = a at *
  generalize (k : Rat) = kk at *
  generalize (L : Rat) = l at *
  have : ((2 : Nat) : Rat) = 2 := rfl
  rw [this]
  grind

theorem natDiv_add_inv (N D T : Nat) (hD : 0 < D) (hT : 0 < T) :
    (N : Rat) / (D : Rat) + 1 / (T : Rat) = ((N * T + D : Nat) : Rat) / ((D * T : Nat) : Rat) := by
  have hD' : (0 : Rat) < (D : Rat) := Rat.natCast_pos.mpr hD
  have hT' : (0 : Rat) < (T : Rat) := Rat.natCast_pos.mpr hT
  rw [Rat.natCast_add, Rat.natCast_mul, Rat.natCast_mul]
  generalize (N : Rat) = n at *
  generalize (D : Rat) = d at *
  generalize (T : Rat) = t at *
  grind

/-- a value just below the tie of the code `k` (within `2^-12/255`) makes `k` admissible -/
theorem admissible_of (L k : Nat) (q : Rat) (hk : 1 ≤ k) (hL : 0 < L) (hq0 : 0 ≤ q) (hq1 : q < 1)
    (h1 : q < ((2 * k - 1 : Nat) : Rat) / ((2 * L : Nat) : Rat))
    (h2 : ((2 * k - 1 : Nat) : Rat) / ((2 * L : Nat) : Rat) ≤ q + 1 / 1044480) : admissible L q k = true := by
  unfold admissible clamp01
  have hm : min 1 q = q := by
    rw [Rat.min_def, if_neg (by rw [Rat.not_le]; exact hq1)]
  have hx : max 0 q = q := by
    rw [Rat.max_def, if_pos hq0]
  rw [hm, hx, tie_half k L hk hL]
  generalize ((2 * k - 1 : Nat) : Rat) / ((2 * L : Nat) : Rat) = tie at *
  have hL' : (0 : Rat) < (L : Rat) := Rat.natCast_pos.mpr hL
  have hl : (0 : Rat) ≤ 1 / (2 * (L : Rat)) := by
    apply Rat.le_of_lt
    rw [Rat.div_def]
    exact Rat.mul_pos (by decide) (Rat.inv_pos.mpr (Rat.mul_pos (by decide) hL'))
  generalize 1 / (2 * (L : Rat)) = hl' at *
  apply decide_eq_true
  constructor <;> grind

theorem adm_arith (k L N P : Nat) (k1 : 1 ≤ k) (k2 : k ≤ L) (hs2 : 2 * L * N < (2 * k - 1) * P)
    (hadm : 1044480 * ((2 * k - 1) * P - 2 * L * N) ≤ 2 * L * P) :
    N * 1 < 1 * P ∧ (2 * k - 1) * (P * 1044480) ≤ (N * 1044480 + P) * (2 * L) := by
  have hkL : (2 * k - 1) * P ≤ (2 * L - 1) * P := Nat.mul_le_mul_right _ (by omega)
  have e4 : (2 * L - 1) * P = 2 * L * P - P := by rw [Nat.sub_mul, Nat.one_mul]
  have e5 : (2 * k - 1) * (P * 1044480) = 1044480 * ((2 * k - 1) * P) := by
    rw [← Nat.mul_assoc, Nat.mul_comm]
  have e6 : (N * 1044480 + P) * (2 * L) = 1044480 * (2 * L * N) + 2 * L * P := by
    rw [Nat.add_mul, Nat.mul_comm P, Nat.mul_right_comm, Nat.mul_comm (N * (2 * L)), Nat.mul_comm N]
  constructor
  · have h : 2 * L * N < 2 * L * P := by omega
    have := Nat.lt_of_mul_lt_mul_left h
    omega
  · rw [e5, e6]
    generalize (2 * k - 1) * P = X at *
    generalize 2 * L * N = Y at *
    generalize 2 * L * P = Z at *
    omega

/-! ### the exceptional entries -/

/-- an exceptional pattern `b` (entry `2b + 1`): it is finite and positive-or-zero, its result `k` is one above the
nearest code, `value b < (2k − 1)/(2L) ≤ value (b + 1)` -/
theorem dev_facts (K h cap L top : Nat) (tbl : List Nat) (htop : top ≤ 0x7F800000)
    (hmono : ∀ a b, a ≤ b → b < top → pipe K h cap a ≤ pipe K h cap b) (hle : ∀ b, b < top → pipe K h cap b ≤ L)
    (hlen : tbl.length = L) (hc : chkList K h cap L top 1 0 tbl = true) (b : Nat) (hm : (2 * b + 1) ∈ tbl) :
    b + 1 < top ∧ (pipe K h cap b : Int) = toCode L (toRat b) + 1 ∧ 1 ≤ pipe K h cap b ∧
    toRat b < ((2 * pipe K h cap b - 1 : Nat) : Rat) / ((2 * L : Nat) : Rat) ∧
    ((2 * pipe K h cap b - 1 : Nat) : Rat) / ((2 * L : Nat) : Rat) ≤ toRat (b + 1) ∧
    admissible L (toRat b) (pipe K h cap b) = true := by
  obtain ⟨k, k1, k2, e⟩ := mem_entry K h cap L top tbl hc _ hm
  have e1 : (2 * b + 1) / 2 = b := by omega
  have e2 : (2 * b + 1) % 2 = 1 := by omega
  rw [e1, e2] at e
  have hbt : b + 1 < top := e.s_fin
  have hmain := thr_main K h cap L top tbl htop hmono hle hlen hc b (by omega)
  rw [if_pos hm] at hmain
  -- the code of the entry is the result
  have hD : (2 : Nat) ^ 149 ≠ 0 := Nat.pos_iff_ne_zero.mp (two_pow_pos 149)
  have hDp := two_pow_pos 149
  have hcode : toCode L (toRat b) = ((codeR L (pval b) (2 ^ 149) : Nat) : Int) := by
    rw [toRat_pval b (by omega), toCode_mkRat L (pval b) (2 ^ 149) hD]
  have hk : pipe K h cap b = k := by
    have hlt : ¬ k ≤ codeR L (pval b) (2 ^ 149) := by
      rw [le_codeR_iff L _ _ k hDp k1 (by omega)]
      have := e.s2
      have e3 : b + 1 - 1 = b := by omega
      rw [e3] at this
      omega
    have := e.p1
    rw [hcode] at hmain
    omega
  have hL : 0 < 2 * L := by omega
  refine ⟨hbt, hmain, by omega, ?_, ?_, ?_⟩
  · rw [hk, toRat_natDiv b (by omega), natDiv_lt_natDiv _ _ _ _ hDp hL]
    have := e.s2
    have e3 : b + 1 - 1 = b := by omega
    rw [e3] at this
    rw [Nat.mul_comm (pval b)]
    exact this
  · rw [hk, toRat_natDiv (b + 1) (by omega), natDiv_le_natDiv _ _ _ _ hL hDp]
    have := e.s1
    rw [Nat.mul_comm (pval (b + 1))]
    exact this
  · have hs2 := e.s2
    have e3 : b + 1 - 1 = b := by omega
    rw [e3] at hs2
    have hadm : 1044480 * ((2 * k - 1) * 2 ^ 149 - 2 * L * pval b) ≤ 2 * L * 2 ^ 149 := by
      rcases e.adm with h0 | h0
      · omega
      · exact h0
    obtain ⟨a1, a2⟩ := adm_arith k L (pval b) (2 ^ 149) k1 (by omega) hs2 hadm
    rw [hk]
    apply admissible_of L k _ k1 (by omega)
    · rw [toRat_pval b (by omega)]; exact mkRat_nonneg _ _
    · have : (1 : Rat) = ((1 : Nat) : Rat) / ((1 : Nat) : Rat) := by decide +kernel
      rw [toRat_natDiv b (by omega), this, natDiv_lt_natDiv _ _ _ _ hDp (by decide)]
      exact a1
    · rw [toRat_natDiv b (by omega), natDiv_lt_natDiv _ _ _ _ hDp hL, Nat.mul_comm (pval b)]
      exact hs2
    · have hT : (1 : Rat) / 1044480 = 1 / ((1044480 : Nat) : Rat) := by decide +kernel
      rw [toRat_natDiv b (by omega), hT, natDiv_add_inv _ _ _ hDp (by decide),
        natDiv_le_natDiv _ _ _ _ hL (Nat.mul_pos hDp (by decide))]
      exact a2

/-! ### the pipeline is monotone for the order `key` on ALL non-NaN patterns -/

theorem pipe_zero (K mx : Nat) (hK : K < 0x7F800000) : pipe K half mx 0 = 0 := by
  unfold pipe
  have h0 : pval 0 = 0 := by decide +kernel
  have hh : rpU (pval half) 851 = half := by decide +kernel
  rw [fmul_pval 0 K (by decide) hK, h0, Nat.zero_mul, rpU_zero, fadd_pval 0 half (by decide) (by decide), h0,
    Nat.zero_add, hh]
  exact Dds.EncTotal.QuantBits.toNatSat_small _ _ (Nat.le_refl _)

open Dds.EncTotal.QuantBits in
/-- `x ↦ (x * K + 0.5) as uN` is monotone for the order of the VALUES (`key`, `−0 = +0`) on all non-NaN patterns:
negative inputs (and `−0`, `−∞`) give 0, the non-negative half line is `pipe_mono` -/
theorem pipe_mono_key (K mx a b : Nat) (hK : K < 0x7F800000) (hK0 : 0 < K) (ha : a < 2 ^ 32) (hb : b < 2 ^ 32)
    (hna : isNaN a = false) (hnb : isNaN b = false) (h : key a ≤ key b) : pipe K half mx a ≤ pipe K half mx b := by
  have negz : ∀ x, NegR x → pipe K half mx x = 0 := fun x hx => pipe_neg K mx x hK hK0 hx
  have negk : ∀ x, NegR x → key x ≤ 0 := by
    intro x hx
    obtain ⟨_, n2⟩ := negR_flags x hx
    unfold key; rw [n2]; simp only [if_true]; omega
  have posk : ∀ x, x ≤ 0x7F800000 → key x = (x : Int) := fun x hx => Dds.EncTotal.SharedExp.key_of_lt x (by
    simp only [signBit]; omega)
  have cls : ∀ x, x < 2 ^ 32 → isNaN x = false → x ≤ 0x7F800000 ∨ NegR x := by
    intro x hx hn
    rcases classify x hx with h | h | h | ⟨h, _⟩ | h
    · left; omega
    · left; omega
    · rw [hn] at h; exact absurd h (by decide)
    · right; exact h
    · right; subst h; exact ⟨by decide, by decide⟩
  rcases cls a ha hna with ha' | ha'
  · rcases cls b hb hnb with hb' | hb'
    · rw [posk a ha', posk b hb'] at h
      exact pipe_mono hK hK0 (by decide) (by omega) hb'
    · -- `0 ≤ key a ≤ key b ≤ 0`: `a = +0`
      have := negk b hb'
      rw [posk a ha'] at h
      have ha0 : a = 0 := by omega
      rw [ha0, pipe_zero K mx hK]
      exact Nat.zero_le _
  · rw [negz a ha']; exact Nat.zero_le _

end Dds.F32Thr
