/-
C13 / BC7 encoder, T3: `closest_rgb / closest_rgba / closest_alpha` are EXHAUSTIVE searches over the whole palette with
a strict `<` update: per pixel the FIRST palette entry of least squared distance is chosen; the returned error is the sum
of the chosen distances and stays far below `u32::MAX`; the index list holds exactly the chosen indexes.
-/
import DdsModel.Proofs.Enc7Writer
namespace Dds.Enc7
open Dds Dds.BcTables

/-! ### the inner loop -/

theorem closestLoop_spec {α : Type} (dist : α → Nat) (l : List α) (j : Nat) (best : Nat × Nat) :
    (closestLoop dist l j best).2 ≤ best.2 ∧
    (∀ (k : Nat) (c : α), l[k]? = some c → (closestLoop dist l j best).2 ≤ dist c) ∧
    ((closestLoop dist l j best = best ∧ ∀ (k : Nat) (c : α), l[k]? = some c → best.2 ≤ dist c) ∨
     (∃ (k : Nat) (c : α), l[k]? = some c ∧ closestLoop dist l j best = (j + k, dist c) ∧ dist c < best.2 ∧
        ∀ (k' : Nat) (c' : α), k' < k → l[k']? = some c' → dist c < dist c')) := by
  induction l generalizing j best with
  | nil =>
    refine ⟨Nat.le_refl _, ?_, Or.inl ⟨rfl, ?_⟩⟩ <;> intro k c h <;> simp at h
  | cons a l ih =>
    simp only [closestLoop]
    by_cases hlt : dist a < best.2
    · simp only [hlt, if_true]
      obtain ⟨h1, h2, h3⟩ := ih (j + 1) (j, dist a)
      simp only at h1
      refine ⟨by omega, ?_, ?_⟩
      · intro k c hk
        cases k with
        | zero => simp at hk; subst hk; exact h1
        | succ k => exact h2 k c (by simpa using hk)
      · right
        rcases h3 with ⟨he, hall⟩ | ⟨k, c, hk, he, hd, hfirst⟩
        · exact ⟨0, a, rfl, by rw [he, Nat.add_zero], hlt, fun k' c' hk' => by omega⟩
        · refine ⟨k + 1, c, by simpa using hk, by rw [he]; congr 1; omega, by simp only at hd; omega, ?_⟩
          intro k' c' hk' hc'
          cases k' with
          | zero => simp at hc'; subst hc'; exact hd
          | succ k' => exact hfirst k' c' (by omega) (by simpa using hc')
    · simp only [hlt, if_false]
      obtain ⟨h1, h2, h3⟩ := ih (j + 1) best
      refine ⟨h1, ?_, ?_⟩
      · intro k c hk
        cases k with
        | zero => simp at hk; subst hk; omega
        | succ k => exact h2 k c (by simpa using hk)
      · rcases h3 with ⟨he, hall⟩ | ⟨k, c, hk, he, hd, hfirst⟩
        · left
          refine ⟨he, ?_⟩
          intro k c hk
          cases k with
          | zero => simp at hk; subst hk; omega
          | succ k => exact hall k c (by simpa using hk)
        · right
          refine ⟨k + 1, c, by simpa using hk, by rw [he]; congr 1; omega, hd, ?_⟩
          intro k' c' hk' hc'
          cases k' with
          | zero => simp at hc'; subst hc'; omega
          | succ k' => exact hfirst k' c' (by omega) (by simpa using hc')

/-- one pixel: the chosen index is the first index of least distance over the WHOLE palette -/
theorem closestOne_spec {α : Type} (dist : α → Nat) (pal : List α) (hne : pal ≠ [])
    (hd : ∀ c ∈ pal, dist c < U32 - 1) :
    ∃ c, pal[(closestOne dist pal).1]? = some c ∧ (closestOne dist pal).2 = dist c ∧
      (∀ (j : Nat) (c' : α), pal[j]? = some c' → dist c ≤ dist c') ∧
      (∀ (j : Nat) (c' : α), j < (closestOne dist pal).1 → pal[j]? = some c' → dist c < dist c') := by
  obtain ⟨_, h2, h3⟩ := closestLoop_spec dist pal 0 (0, U32 - 1)
  rcases h3 with ⟨_, hall⟩ | ⟨k, c, hk, he, _, hfirst⟩
  · exfalso
    cases pal with
    | nil => exact hne rfl
    | cons a l =>
      have := hall 0 a rfl
      have := hd a (List.mem_cons_self ..)
      simp only at *
      omega
  · have he' : closestOne dist pal = (k, dist c) := by rw [closestOne, he, Nat.zero_add]
    refine ⟨c, by rw [he']; exact hk, by rw [he'], ?_, ?_⟩
    · intro j c' hj
      have := h2 j c' hj
      rw [he] at this; exact this
    · intro j c' hj hc'
      rw [he'] at hj
      exact hfirst j c' hj hc'

/-! ### the outer loop: index list and error sum -/

/-- the chosen `(index, distance)` per pixel -/
def choices {α : Type} (dist : α → α → Nat) (pal pixels : List α) : List (Nat × Nat) :=
  pixels.map fun p => closestOne (dist p) pal

theorem closestAll_spec {α : Type} (I : Nat) (dist : α → α → Nat) (pal pixels : List α) (i : Nat) (st : Nat × Nat)
    (B : Nat) (hI : I = 2 ∨ I = 3 ∨ I = 4) (hn : i + pixels.length ≤ 16) (hst : st.1 < 2 ^ (i * I))
    (hch : ∀ ch ∈ choices dist pal pixels, ch.1 < 2 ^ I ∧ ch.2 ≤ B)
    (herr : st.2 + pixels.length * B < U32) :
    closestAll I dist pal pixels i st =
      (st.1 + 2 ^ (i * I) * fv ((choices dist pal pixels).map fun ch => (ch.1, I)),
       st.2 + ((choices dist pal pixels).map (·.2)).sum) := by
  induction pixels generalizing i st with
  | nil => simp [closestAll, choices, fv]
  | cons p ps ih =>
    have hc := hch (closestOne (dist p) pal) (by simp [choices])
    have hlen : (p :: ps).length = ps.length + 1 := rfl
    rw [hlen] at hn herr
    have h8 : (closestOne (dist p) pal).1 % U8 = (closestOne (dist p) pal).1 := by
      apply Nat.mod_eq_of_lt
      have : 2 ^ I ≤ U8 := by rcases hI with h | h | h <;> subst h <;> decide
      omega
    have hiI : i * I + I ≤ 64 := by rcases hI with h | h | h <;> subst h <;> omega
    have hsh : (closestOne (dist p) pal).1 <<< (i * I) < U64 := by
      rw [Nat.shiftLeft_eq, Bc7.U64_eq]
      calc (closestOne (dist p) pal).1 * 2 ^ (i * I) < 2 ^ I * 2 ^ (i * I) :=
            Nat.mul_lt_mul_of_pos_right hc.1 (Nat.two_pow_pos _)
        _ = 2 ^ (I + i * I) := (Nat.pow_add 2 _ _).symm
        _ ≤ 2 ^ 64 := Nat.pow_le_pow_right (by decide) (by omega)
    have hset : set I st.1 i ((closestOne (dist p) pal).1) = st.1 + (closestOne (dist p) pal).1 * 2 ^ (i * I) := by
      simp only [set, Nat.mod_eq_of_lt hsh, or_shl_eq_add _ _ _ hst]
    have hB : ps.length * B + B = (ps.length + 1) * B := by rw [Nat.succ_mul]
    have herr' : (st.2 + (closestOne (dist p) pal).2) % U32 = st.2 + (closestOne (dist p) pal).2 := by
      apply Nat.mod_eq_of_lt
      have : st.2 + (closestOne (dist p) pal).2 ≤ st.2 + (ps.length * B + B) := by
        have := hc.2
        omega
      omega
    have hst' : st.1 + (closestOne (dist p) pal).1 * 2 ^ (i * I) < 2 ^ ((i + 1) * I) := by
      rw [Nat.succ_mul, Nat.pow_add]
      have : (closestOne (dist p) pal).1 * 2 ^ (i * I) + 2 ^ (i * I) ≤ 2 ^ I * 2 ^ (i * I) := by
        rw [← Nat.succ_mul]; exact Nat.mul_le_mul_right _ hc.1
      rw [Nat.mul_comm (2 ^ (i * I))]; omega
    simp only [closestAll, h8, hset, herr']
    rw [ih (i + 1) _ (by omega) hst' (fun ch hm => hch ch (by
      simp only [choices, List.map_cons, List.mem_cons] at hm ⊢; exact Or.inr hm)) (by
        simp only
        have := hc.2
        have : st.2 + (closestOne (dist p) pal).2 + ps.length * B ≤ st.2 + (ps.length * B + B) := by omega
        omega)]
    simp only [choices, List.map_cons, List.sum_cons, fv, Nat.succ_mul, Nat.pow_add, Nat.mul_add, Nat.mul_assoc,
      Nat.add_assoc, Nat.mul_comm (closestOne (dist p) pal).1, Nat.mul_left_comm]

/-- reading the packed list back: entry `k` of `fv (vals.map (·, I))` is `vals[k]` -/
theorem get_fv (I : Nat) (vals : List Nat) (k v : Nat) (hI : I = 2 ∨ I = 3 ∨ I = 4) (hv : ∀ w ∈ vals, w < 2 ^ I)
    (hk : vals[k]? = some v) : get I (fv (vals.map fun w => (w, I))) k = v := by
  rw [get_eq_fld I _ k hI]
  induction vals generalizing k with
  | nil => simp at hk
  | cons w ws ih =>
    have hw := hv w (List.mem_cons_self ..)
    simp only [List.map_cons, fv_cons]
    cases k with
    | zero =>
      simp at hk; subst hk
      simp only [Bc7.fld, Nat.zero_mul, Nat.shiftRight_zero, split_mod _ _ _ hw]
    | succ k =>
      have e : (k + 1) * I = I + k * I := by rw [Nat.succ_mul]; omega
      simp only [Bc7.fld, e, Nat.shiftRight_add, split_shr _ _ _ hw]
      exact ih k (fun w hw => hv w (List.mem_cons_of_mem _ hw)) (by simpa using hk)

/-! ### T3 in one statement (generic in the colour type; `d` is only the out-of-range default of `getD`) -/

theorem getD_of_getElem? {α : Type} (l : List α) (i : Nat) (d c : α) (h : l[i]? = some c) : l.getD i d = c := by
  simp [List.getD_eq_getElem?_getD, h]

theorem getElem?_of_lt {α : Type} (l : List α) (i : Nat) (d : α) (h : i < l.length) : l[i]? = some (l.getD i d) := by
  simp [List.getD_eq_getElem?_getD, List.getElem?_eq_getElem h]

theorem closest_argmin {α : Type} (I : Nat) (dist : α → α → Nat) (pal pixels : List α) (d : α) (B : Nat)
    (hI : I = 2 ∨ I = 3 ∨ I = 4) (hpal : pal.length = 2 ^ I) (hn : pixels.length ≤ 16)
    (hd : ∀ p ∈ pixels, ∀ c ∈ pal, dist p c ≤ B) (hB : 16 * B < U32 - 1) :
    (∀ i, i < pixels.length →
      get I (closestAll I dist pal pixels 0 (0, 0)).1 i < 2 ^ I ∧
      (∀ j, j < 2 ^ I → dist (pixels.getD i d) (pal.getD (get I (closestAll I dist pal pixels 0 (0, 0)).1 i) d) ≤
        dist (pixels.getD i d) (pal.getD j d)) ∧
      (∀ j, j < get I (closestAll I dist pal pixels 0 (0, 0)).1 i →
        dist (pixels.getD i d) (pal.getD (get I (closestAll I dist pal pixels 0 (0, 0)).1 i) d) <
          dist (pixels.getD i d) (pal.getD j d))) ∧
    (closestAll I dist pal pixels 0 (0, 0)).2 = ((List.range pixels.length).map fun i =>
      dist (pixels.getD i d) (pal.getD (get I (closestAll I dist pal pixels 0 (0, 0)).1 i) d)).sum ∧
    (closestAll I dist pal pixels 0 (0, 0)).2 ≤ pixels.length * B ∧
    (closestAll I dist pal pixels 0 (0, 0)).1 < 2 ^ (16 * I) := by
  have hne : pal ≠ [] := by
    intro h; rw [h] at hpal; simp at hpal
    have := Nat.two_pow_pos I; omega
  -- per pixel facts
  have hone : ∀ p ∈ pixels, ∃ c, pal[(closestOne (dist p) pal).1]? = some c ∧ (closestOne (dist p) pal).2 = dist p c ∧
      (∀ (j : Nat) (c' : α), pal[j]? = some c' → dist p c ≤ dist p c') ∧
      (∀ (j : Nat) (c' : α), j < (closestOne (dist p) pal).1 → pal[j]? = some c' → dist p c < dist p c') := by
    intro p hp
    exact closestOne_spec (dist p) pal hne (fun c hc => by have := hd p hp c hc; omega)
  have hch : ∀ ch ∈ choices dist pal pixels, ch.1 < 2 ^ I ∧ ch.2 ≤ B := by
    intro ch hm
    obtain ⟨p, hp, rfl⟩ := List.mem_map.mp hm
    obtain ⟨c, hc, he, _, _⟩ := hone p hp
    have hlt : (closestOne (dist p) pal).1 < pal.length := by
      rcases Nat.lt_or_ge (closestOne (dist p) pal).1 pal.length with h | h
      · exact h
      · rw [List.getElem?_eq_none h] at hc; cases hc
    refine ⟨by rw [← hpal]; exact hlt, ?_⟩
    rw [he]; exact hd p hp c (List.mem_of_getElem? hc)
  have hall := closestAll_spec I dist pal pixels 0 (0, 0) B hI (by omega) (by simp) hch (by
    simp only [Nat.zero_add]
    have : pixels.length * B ≤ 16 * B := Nat.mul_le_mul_right _ hn
    omega)
  simp only [Nat.zero_mul, Nat.pow_zero, Nat.one_mul, Nat.zero_add] at hall
  -- the index of pixel i
  have hidx : ∀ i, i < pixels.length → get I (closestAll I dist pal pixels 0 (0, 0)).1 i =
      (closestOne (dist (pixels.getD i d)) pal).1 := by
    intro i hi
    rw [hall]
    have := get_fv I ((choices dist pal pixels).map (·.1)) i (closestOne (dist (pixels.getD i d)) pal).1 hI
      (by
        intro w hw
        obtain ⟨ch, hch', rfl⟩ := List.mem_map.mp hw
        exact (hch ch hch').1)
      (by rw [List.getElem?_map, choices, List.getElem?_map, getElem?_of_lt pixels i d hi]; rfl)
    simpa [List.map_map, Function.comp_def] using this
  have hr2 : (closestAll I dist pal pixels 0 (0, 0)).2 = ((choices dist pal pixels).map (·.2)).sum := by rw [hall]
  refine ⟨?_, ?_, ?_, ?_⟩
  · intro i hi
    have hp : pixels.getD i d ∈ pixels := by
      have := getElem?_of_lt pixels i d hi
      exact List.mem_of_getElem? this
    obtain ⟨c, hc, _, hmin, hfirst⟩ := hone _ hp
    rw [hidx i hi]
    have hcD := getD_of_getElem? pal _ d c hc
    have hlt : (closestOne (dist (pixels.getD i d)) pal).1 < pal.length := by
      rcases Nat.lt_or_ge (closestOne (dist (pixels.getD i d)) pal).1 pal.length with h | h
      · exact h
      · rw [List.getElem?_eq_none h] at hc; cases hc
    refine ⟨by rw [← hpal]; exact hlt, ?_, ?_⟩
    · intro j hj
      rw [hcD]
      exact hmin j _ (getElem?_of_lt pal j d (by rw [hpal]; exact hj))
    · intro j hj
      rw [hcD]
      exact hfirst j _ hj (getElem?_of_lt pal j d (by omega))
  · rw [hr2]
    congr 1
    apply List.ext_getElem
    · simp [choices]
    · intro i h1 h2
      have hi : i < pixels.length := by simpa [choices] using h1
      have hp : pixels.getD i d ∈ pixels := List.mem_of_getElem? (getElem?_of_lt pixels i d hi)
      obtain ⟨c, hc, he, _, _⟩ := hone _ hp
      have e1 : pixels[i] = pixels.getD i d := by
        simp [List.getD_eq_getElem?_getD, List.getElem?_eq_getElem hi]
      simp only [choices, List.getElem_map, List.getElem_range, e1]
      rw [he, hidx i hi, getD_of_getElem? pal _ d c hc]
  · rw [hr2]
    have : ∀ (l : List (Nat × Nat)), (∀ ch ∈ l, ch.2 ≤ B) → (l.map (·.2)).sum ≤ l.length * B := by
      intro l
      induction l with
      | nil => simp
      | cons a l ih =>
        intro h
        simp only [List.map_cons, List.sum_cons, List.length_cons, Nat.succ_mul]
        have := h a (List.mem_cons_self ..)
        have := ih (fun ch hm => h ch (List.mem_cons_of_mem _ hm))
        omega
    have := this (choices dist pal pixels) (fun ch hm => (hch ch hm).2)
    simpa [choices] using this
  · rw [hall]
    have hok : FieldsOK ((choices dist pal pixels).map fun ch => (ch.1, I)) := by
      intro f hf
      obtain ⟨ch, hm, rfl⟩ := List.mem_map.mp hf
      exact ⟨(hch ch hm).1, (by omega : I < 64)⟩
    have hwid : ∀ (l : List (Nat × Nat)), width (l.map fun ch => (ch.1, I)) = l.length * I := by
      intro l
      induction l with
      | nil => simp [width]
      | cons a l ih => simp only [List.map_cons, width, ih, List.length_cons, Nat.succ_mul]; omega
    have := fv_lt _ hok
    rw [hwid] at this
    refine Nat.lt_of_lt_of_le this (Nat.pow_le_pow_right (by decide) ?_)
    have : (choices dist pal pixels).length = pixels.length := by simp [choices]
    rw [this]
    exact Nat.mul_le_mul_right _ hn

end Dds.Enc7
