/- Helper lemmas for C16: straight-alpha samples, and invariants along a whole generated chain. -/
import DdsModel.Proofs.MipResize
namespace Dds.Mip

/-! ### straight-alpha samples -/

theorem saColour_range (p : Prec) (lo hi : Rat) (hg : p.Grid lo hi) (accC accA : Rat)
    (hpos : 0 < saAlpha p accA) (h1 : lo * accA ≤ accC) (h2 : accC ≤ hi * accA) :
    lo ≤ saColour p accC accA ∧ saColour p accC accA ≤ hi := by
  obtain ⟨ha, h8, h16⟩ := saAlpha_pos p accA hpos
  obtain ⟨r1, r2⟩ := ratio_bounds lo hi accC accA ha h1 h2
  cases p with
  | u8 =>
    unfold saColour; simp only
    rw [if_neg (h8 rfl)]
    exact quant_range' _ lo hi _ hg r1 r2
  | u16 =>
    unfold saColour; simp only
    rw [if_neg (h16 rfl)]
    exact quant_range' _ lo hi _ hg r1 r2
  | f32 =>
    unfold saColour; simp only
    rw [if_neg (by grind)]
    exact ⟨r1, r2⟩

theorem saAlpha_range (p : Prec) (lo hi : Rat) (hg : p.Grid lo hi) (h0 : 0 ≤ lo) (accA : Rat)
    (h1 : lo ≤ accA) (h2 : accA ≤ hi) : lo ≤ saAlpha p accA ∧ saAlpha p accA ≤ hi := by
  cases p with
  | u8 => exact quant_range' _ lo hi _ hg h1 h2
  | u16 => exact quant_range' _ lo hi _ hg h1 h2
  | f32 =>
    unfold saAlpha; simp only
    by_cases hz : accA ≤ 0
    · rw [if_pos hz]; constructor <;> grind
    · rw [if_neg hz]; exact ⟨h1, h2⟩

theorem saAlpha_fix (p : Prec) (a : Rat) (hg : p.Grid a a) (h0 : 0 ≤ a) : saAlpha p a = a := by
  obtain ⟨h1, h2⟩ := saAlpha_range p a a hg h0 a Rat.le_refl Rat.le_refl
  exact Rat.le_antisymm h2 h1

theorem grid_zero (p : Prec) : p.Grid 0 0 := by
  cases p
  · exact Or.inr ⟨0, 0, by simp, by simp, by simp only [Prec.maxVal]; grind⟩
  · exact Or.inr ⟨0, 0, by simp, by simp, by simp only [Prec.maxVal]; grind⟩
  · exact Or.inl rfl

/-- zero accumulated alpha: every precision writes the pixel (0,0,0,0) -/
theorem saColour_zero (p : Prec) (accC : Rat) : saColour p accC 0 = 0 := by
  have hq := quant_fix p 0 (grid_zero p)
  cases p with
  | u8 =>
    unfold saColour; simp only
    rw [if_pos (by grind)]
    have : accC * 0 = 0 := by grind
    rw [this]; exact hq
  | u16 => unfold saColour; simp only; rw [if_pos hq]
  | f32 => unfold saColour; simp only; rw [if_pos Rat.le_refl]

theorem saAlpha_zero (p : Prec) : saAlpha p 0 = 0 := saAlpha_fix p 0 (grid_zero p) Rat.le_refl

theorem Plane.at_map {α : Type} (l : List α) (F : α → Rat) (k : Nat) (hk : k < l.length) :
    Plane.at (l.map F) k = F (l[k]'hk) := by
  unfold Plane.at
  rw [List.getD_eq_getElem?_getD, List.getElem?_map, List.getElem?_eq_getElem hk]; rfl

/-! ### image level: which path `resize_into` takes -/

theorem resizeImg_plain (K : Kernel) (f : Filter) (p : Prec) (sa : Bool) (src : Img) (s : Sz)
    (h : sa = false ∨ src.planes.length ≠ 4) :
    resizeImg K f p sa src s =
      ⟨s.1, s.2, src.planes.map (resizePlane p (K.taps f src.w src.h s.1 s.2))⟩ := by
  unfold resizeImg
  rcases h with rfl | h
  · rfl
  · cases sa with
    | false => rfl
    | true =>
      match hp : src.planes, h with
      | [], _ => rfl
      | [_], _ => rfl
      | [_, _], _ => rfl
      | [_, _, _], _ => rfl
      | [_, _, _, _], h => exact absurd rfl h
      | _ :: _ :: _ :: _ :: _ :: _, _ => rfl

theorem resizeImg_sa (K : Kernel) (f : Filter) (p : Prec) (src : Img) (s : Sz) (r g b a : Plane)
    (h : src.planes = [r, g, b, a]) :
    resizeImg K f p true src s =
      (let ts := K.taps f src.w src.h s.1 s.2
       ⟨s.1, s.2, [resizeColourSA p ts r a, resizeColourSA p ts g a, resizeColourSA p ts b a,
                  resizeAlphaSA p ts a]⟩) := by
  unfold resizeImg; rw [h]

/-! ### plain path along a chain -/

/-- A property of one channel's plane (indexed by the pixel count) that every plain resize step
preserves holds for that channel of every generated level. -/
theorem chain_plain {K : Kernel} {f : Filter} {p : Prec} {sa : Bool} (Pp : Nat → Plane → Prop)
    (step : ∀ sw sh dw dh pl, Pp (sw * sh) pl → Pp (dw * dh) (resizePlane p (K.taps f sw sh dw dh) pl))
    (c : Nat) (src : Img) (hplain : sa = false ∨ src.planes.length ≠ 4) (pl0 : Plane)
    (h0 : src.planes[c]? = some pl0) (hp : Pp (src.w * src.h) pl0) (plan : List (Sz × Nat)) :
    ∀ l ∈ runPlan (resizeImg K f p sa) src plan [],
      ∃ pl, l.planes[c]? = some pl ∧ Pp (l.w * l.h) pl := by
  let P : Img → Prop := fun i =>
    i.planes.length = src.planes.length ∧ ∃ pl, i.planes[c]? = some pl ∧ Pp (i.w * i.h) pl
  have key : ∀ l ∈ runPlan (resizeImg K f p sa) src plan [], P l := by
    apply runPlan_inv (S := P) (P := P)
    · intro i s hi
      have hi' : P i := by rcases hi with h | h <;> exact h
      obtain ⟨hl, pl, hc, hpp⟩ := hi'
      have hpl : sa = false ∨ i.planes.length ≠ 4 := by
        rcases hplain with h | h
        · exact Or.inl h
        · exact Or.inr (by rw [hl]; exact h)
      rw [resizeImg_plain K f p sa i s hpl]
      refine ⟨by simp only [List.length_map]; exact hl, resizePlane p (K.taps f i.w i.h s.1 s.2) pl, ?_, ?_⟩
      · simp only [List.getElem?_map, hc, Option.map_some]
      · exact step i.w i.h s.1 s.2 pl hpp
    · exact ⟨rfl, pl0, h0, hp⟩
  intro l hl
  exact (key l hl).2

/-- two sources of the same size that agree on channel `c`: every generated level agrees on
channel `c` (plain path) -/
theorem chain_plain_rel {K : Kernel} {f : Filter} {p : Prec} {sa : Bool} (c : Nat) (src src' : Img)
    (hplain : sa = false ∨ (src.planes.length ≠ 4 ∧ src'.planes.length ≠ 4))
    (hw : src.w = src'.w) (hh : src.h = src'.h) (hc : src.planes[c]? = src'.planes[c]?)
    (plan : List (Sz × Nat)) :
    AllRel (fun l l' => l.w = l'.w ∧ l.h = l'.h ∧ l.planes[c]? = l'.planes[c]?)
      (runPlan (resizeImg K f p sa) src plan []) (runPlan (resizeImg K f p sa) src' plan []) := by
  let Rel : Img → Img → Prop := fun l l' =>
    (l.w = l'.w ∧ l.h = l'.h ∧ l.planes[c]? = l'.planes[c]?) ∧
      l.planes.length = src.planes.length ∧ l'.planes.length = src'.planes.length
  have key := runPlan_rel (S := Rel) (Rel := Rel) (R := resizeImg K f p sa) (R' := resizeImg K f p sa)
    (src := src) (src' := src') (by
      intro i i' s hi
      have hi' : Rel i i' := by rcases hi with h | h <;> exact h
      obtain ⟨⟨e1, e2, e3⟩, l1, l2⟩ := hi'
      have hp1 : sa = false ∨ i.planes.length ≠ 4 := by
        rcases hplain with h | h
        · exact Or.inl h
        · exact Or.inr (by rw [l1]; exact h.1)
      have hp2 : sa = false ∨ i'.planes.length ≠ 4 := by
        rcases hplain with h | h
        · exact Or.inl h
        · exact Or.inr (by rw [l2]; exact h.2)
      rw [resizeImg_plain K f p sa i s hp1, resizeImg_plain K f p sa i' s hp2]
      refine ⟨⟨rfl, rfl, ?_⟩, by simp only [List.length_map]; exact l1, by simp only [List.length_map]; exact l2⟩
      simp only [List.getElem?_map, e1, e2, e3])
    ⟨⟨hw, hh, hc⟩, rfl, rfl⟩ plan [] [] trivial
  exact AllRel.mono (fun _ _ h => h.1) key

/-! ### straight-alpha path along a chain -/

/-- the image is RGBA and colour plane `c` (0..2) together with the alpha plane satisfies `Q` -/
def SAInv (Q : Nat → Plane → Plane → Prop) (c : Nat) (i : Img) : Prop :=
  ∃ r g b a x, i.planes = [r, g, b, a] ∧ [r, g, b][c]? = some x ∧ Q (i.w * i.h) x a

/-- If the source satisfies `S`, every straight-alpha resize step turns `S` into `Q`, and `Q`
implies `S`, then every generated level satisfies `Q`. -/
theorem chain_sa {K : Kernel} {f : Filter} {p : Prec} (S Q : Nat → Plane → Plane → Prop)
    (hQS : ∀ n x a, Q n x a → S n x a)
    (step : ∀ sw sh dw dh x a, S (sw * sh) x a →
      Q (dw * dh) (resizeColourSA p (K.taps f sw sh dw dh) x a) (resizeAlphaSA p (K.taps f sw sh dw dh) a))
    (c : Nat) (src : Img) (hs : SAInv S c src) (plan : List (Sz × Nat)) :
    ∀ l ∈ runPlan (resizeImg K f p true) src plan [], SAInv Q c l := by
  apply runPlan_inv (S := SAInv S c) (P := SAInv Q c)
  · intro i s hi
    have hi' : SAInv S c i := by
      rcases hi with h | h
      · exact h
      · obtain ⟨r, g, b, a, x, h1, h2, h3⟩ := h
        exact ⟨r, g, b, a, x, h1, h2, hQS _ _ _ h3⟩
    obtain ⟨r, g, b, a, x, h1, h2, h3⟩ := hi'
    rw [resizeImg_sa K f p i s r g b a h1]
    refine ⟨_, _, _, _, resizeColourSA p (K.taps f i.w i.h s.1 s.2) x a, rfl, ?_, step i.w i.h s.1 s.2 x a h3⟩
    match c, h2 with
    | 0, h2 => simp only [List.getElem?_cons_zero, Option.some.injEq] at h2 ⊢; rw [h2]
    | 1, h2 =>
      simp only [List.getElem?_cons_succ, List.getElem?_cons_zero, Option.some.injEq] at h2 ⊢; rw [h2]
    | 2, h2 =>
      simp only [List.getElem?_cons_succ, List.getElem?_cons_zero, Option.some.injEq] at h2 ⊢; rw [h2]
    | n + 3, h2 => simp at h2
  · exact hs

/-! ### the straight-alpha step for the four invariants used in `Theorems/C16.lean` -/

theorem mem_resizeAlphaSA {p : Prec} {ts : List Taps} {a : Plane} {v : Rat} (h : v ∈ resizeAlphaSA p ts a) :
    ∃ t ∈ ts, v = saAlpha p (dot t a.at) := by
  unfold resizeAlphaSA at h
  obtain ⟨t, ht, rfl⟩ := List.mem_map.mp h
  exact ⟨t, ht, rfl⟩

theorem mem_resizeColourSA {p : Prec} {ts : List Taps} {c a : Plane} {v : Rat} (h : v ∈ resizeColourSA p ts c a) :
    ∃ t ∈ ts, v = saColour p (dot t fun i => c.at i * a.at i) (dot t a.at) := by
  unfold resizeColourSA at h
  obtain ⟨t, ht, rfl⟩ := List.mem_map.mp h
  exact ⟨t, ht, rfl⟩

theorem length_resizeAlphaSA (p : Prec) (ts : List Taps) (a : Plane) : (resizeAlphaSA p ts a).length = ts.length := by
  unfold resizeAlphaSA; rw [List.length_map]

theorem length_resizeColourSA (p : Prec) (ts : List Taps) (c a : Plane) :
    (resizeColourSA p ts c a).length = ts.length := by
  unfold resizeColourSA; rw [List.length_map]

/-- range invariant: alpha inside `[alo, ahi]`, colour of VISIBLE pixels (alpha > 0) inside `[lo, hi]` -/
def QRange (alo ahi lo hi : Rat) (n : Nat) (x a : Plane) : Prop :=
  x.length = n ∧ a.length = n ∧ (∀ v ∈ a, alo ≤ v ∧ v ≤ ahi) ∧
    ∀ k, k < n → 0 < a.at k → lo ≤ x.at k ∧ x.at k ≤ hi

theorem step_QRange (p : Prec) (alo ahi lo hi : Rat) (hga : p.Grid alo ahi) (h0 : 0 ≤ alo) (hg : p.Grid lo hi)
    (ts : List Taps) (n m : Nat) (ok : TapsOK ts n m) (nn : ∀ t ∈ ts, t.NonNeg) (x a : Plane)
    (h : QRange alo ahi lo hi n x a) :
    QRange alo ahi lo hi m (resizeColourSA p ts x a) (resizeAlphaSA p ts a) := by
  obtain ⟨hx, ha, hav, hxv⟩ := h
  have ha0 : ∀ v ∈ a, 0 ≤ v := fun v hv => Rat.le_trans h0 (hav v hv).1
  refine ⟨by rw [length_resizeColourSA, ok.len], by rw [length_resizeAlphaSA, ok.len], ?_, ?_⟩
  · intro v hv
    obtain ⟨t, ht, rfl⟩ := mem_resizeAlphaSA hv
    have hb := dot_bounds t a.at alo ahi (nn t ht)
      (fun iw hiw _ => hav _ (Plane.at_mem a iw.1 (by rw [ha]; exact ok.inRange t ht iw hiw)))
    rw [ok.sum t ht] at hb
    exact saAlpha_range p alo ahi hga h0 _ (by grind) (by grind)
  · intro k hk hpos
    have hk' : k < ts.length := by rw [ok.len]; exact hk
    unfold resizeAlphaSA at hpos
    rw [Plane.at_map ts _ k hk'] at hpos
    unfold resizeColourSA
    rw [Plane.at_map ts _ k hk']
    have ht : ts[k] ∈ ts := List.getElem_mem hk'
    obtain ⟨b1, b2⟩ := premul_bounds ts[k] n (ok.inRange _ ht) (nn _ ht) x a hx ha lo hi ha0 hxv
    exact saColour_range p lo hi hg _ _ hpos b1 b2

/-- constant invariant -/
def QConst (cx ca : Rat) (n : Nat) (x a : Plane) : Prop :=
  x.length = n ∧ a.length = n ∧ (∀ v ∈ a, v = ca) ∧ ∀ v ∈ x, v = cx

theorem step_QConst (p : Prec) (cx ca : Rat) (hgx : p.Grid cx cx) (hga : p.Grid ca ca) (hpos : 0 < ca)
    (ts : List Taps) (n m : Nat) (ok : TapsOK ts n m) (x a : Plane) (h : QConst cx ca n x a) :
    QConst cx ca m (resizeColourSA p ts x a) (resizeAlphaSA p ts a) := by
  obtain ⟨hx, ha, hav, hxv⟩ := h
  have hA : ∀ t ∈ ts, dot t a.at = ca := by
    intro t ht
    rw [dot_const t a.at ca (fun iw hiw => hav _ (Plane.at_mem a iw.1 (by rw [ha]; exact ok.inRange t ht iw hiw))),
      ok.sum t ht]
    grind
  have hC : ∀ t ∈ ts, dot t (fun i => x.at i * a.at i) = cx * ca := by
    intro t ht
    rw [dot_const t _ (cx * ca) (fun iw hiw => by
      show x.at iw.1 * a.at iw.1 = cx * ca
      rw [hav _ (Plane.at_mem a iw.1 (by rw [ha]; exact ok.inRange t ht iw hiw)),
        hxv _ (Plane.at_mem x iw.1 (by rw [hx]; exact ok.inRange t ht iw hiw))]), ok.sum t ht]
    grind
  have hfix := saAlpha_fix p ca hga (Rat.le_of_lt hpos)
  refine ⟨by rw [length_resizeColourSA, ok.len], by rw [length_resizeAlphaSA, ok.len], ?_, ?_⟩
  · intro v hv
    obtain ⟨t, ht, rfl⟩ := mem_resizeAlphaSA hv
    rw [hA t ht]; exact hfix
  · intro v hv
    obtain ⟨t, ht, rfl⟩ := mem_resizeColourSA hv
    rw [hA t ht, hC t ht]
    obtain ⟨r1, r2⟩ := saColour_range p cx cx hgx (cx * ca) ca (by rw [hfix]; exact hpos) Rat.le_refl Rat.le_refl
    exact Rat.le_antisymm r2 r1

/-- fully transparent invariant (source: alpha all zero; generated: everything zero) -/
def SZero (n : Nat) (x a : Plane) : Prop := x.length = n ∧ a.length = n ∧ ∀ v ∈ a, v = 0
def QZero (n : Nat) (x a : Plane) : Prop := SZero n x a ∧ ∀ v ∈ x, v = 0

theorem step_QZero (p : Prec) (ts : List Taps) (n m : Nat) (ok : TapsOK ts n m) (x a : Plane) (h : SZero n x a) :
    QZero m (resizeColourSA p ts x a) (resizeAlphaSA p ts a) := by
  obtain ⟨hx, ha, hav⟩ := h
  have hA : ∀ t ∈ ts, dot t a.at = 0 := by
    intro t ht
    rw [dot_const t a.at 0 (fun iw hiw => hav _ (Plane.at_mem a iw.1 (by rw [ha]; exact ok.inRange t ht iw hiw)))]
    grind
  refine ⟨⟨by rw [length_resizeColourSA, ok.len], by rw [length_resizeAlphaSA, ok.len], ?_⟩, ?_⟩
  · intro v hv
    obtain ⟨t, ht, rfl⟩ := mem_resizeAlphaSA hv
    rw [hA t ht]; exact saAlpha_zero p
  · intro v hv
    obtain ⟨t, ht, rfl⟩ := mem_resizeColourSA hv
    rw [hA t ht]; exact saColour_zero p _

theorem grid_max (p : Prec) : p.Grid p.maxVal p.maxVal := by
  cases p
  · exact Or.inr ⟨255, 255, by simp [Prec.maxVal], by simp [Prec.maxVal], Rat.le_refl⟩
  · exact Or.inr ⟨65535, 65535, by simp [Prec.maxVal], by simp [Prec.maxVal], Rat.le_refl⟩
  · exact Or.inl rfl

theorem maxVal_pos (p : Prec) : 0 < p.maxVal := by
  cases p <;> simp only [Prec.maxVal] <;> grind

/-- opaque invariant -/
def QOpaque (p : Prec) (n : Nat) (x a : Plane) : Prop := x.length = n ∧ a.length = n ∧ ∀ v ∈ a, v = p.maxVal

theorem step_QOpaque (p : Prec) (ts : List Taps) (n m : Nat) (ok : TapsOK ts n m) (x a : Plane)
    (h : QOpaque p n x a) : QOpaque p m (resizeColourSA p ts x a) (resizeAlphaSA p ts a) := by
  obtain ⟨hx, ha, hav⟩ := h
  refine ⟨by rw [length_resizeColourSA, ok.len], by rw [length_resizeAlphaSA, ok.len], ?_⟩
  intro v hv
  obtain ⟨t, ht, rfl⟩ := mem_resizeAlphaSA hv
  rw [dot_const t a.at p.maxVal
    (fun iw hiw => hav _ (Plane.at_mem a iw.1 (by rw [ha]; exact ok.inRange t ht iw hiw))), ok.sum t ht]
  have : p.maxVal * 1 = p.maxVal := by grind
  rw [this]
  exact saAlpha_fix p p.maxVal (grid_max p) (Rat.le_of_lt (maxVal_pos p))

end Dds.Mip
