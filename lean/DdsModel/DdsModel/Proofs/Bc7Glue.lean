/-
C03x glue, part 7: `Bc7.decodeBlock = Bc7Spec.decodeBlock` for EVERY block (all eight modes + the reserved
"mode 8"); no bound on the block is needed: both models only look at bits 0..127.
-/
import DdsModel.Proofs.Bc7Glue456
import DdsModel.Proofs.Bc7Glue137
import DdsModel.Proofs.Bc7Glue02
namespace Dds.Bc7
open Dds.BcTables Dds.Bc7Spec

theorem mode8_eq (b : Nat) (h : modeOf b = 8) : Bc7.decodeBlock b = Bc7Spec.decodeBlock b := by
  have hs : Bc7Spec.decodeBlock b = List.replicate 16 [0, 0, 0, 0] := by
    simp only [Bc7Spec.decodeBlock, h]; rfl
  rw [hs]
  simp only [Bc7.decodeBlock, extractMode_eq, h, Nat.reduceEqDiff, if_false]

theorem decodeBlock_eq (b : Nat) : Bc7.decodeBlock b = Bc7Spec.decodeBlock b := by
  have h := modeOf_le b
  have : modeOf b = 0 ∨ modeOf b = 1 ∨ modeOf b = 2 ∨ modeOf b = 3 ∨ modeOf b = 4 ∨ modeOf b = 5 ∨
      modeOf b = 6 ∨ modeOf b = 7 ∨ modeOf b = 8 := by omega
  rcases this with h | h | h | h | h | h | h | h | h
  · exact mode0_eq b h
  · exact mode1_eq b h
  · exact mode2_eq b h
  · exact mode3_eq b h
  · exact mode4_eq b h
  · exact mode5_eq b h
  · exact mode6_eq b h
  · exact mode7_eq b h
  · exact mode8_eq b h

end Dds.Bc7
