/- finite facts (whole domains): 16-bit integer paths equal the integer closed form of the quantiser -/
import DdsModel.Proofs.Quant
namespace Dds.Quant
set_option maxRecDepth 100000
theorem n16_n8_all : allRange (fun x => n16_n8 x == qRatio (2 ^ 8 - 1) x (2 ^ 16 - 1)) 10 0 65536 = true := by
  decide +kernel
theorem s16_norm_from_n16_all :
    allRange (fun x => s16_norm_from_n16 x == qRatio (2 ^ 16 - 2) x (2 ^ 16 - 1)) 10 0 65536 = true := by
  decide +kernel
end Dds.Quant
