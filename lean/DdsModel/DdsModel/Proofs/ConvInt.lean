/-
Complete evaluation of the integer conversions against the rational specification
(`decide +kernel` over the whole input domain, binary-splitting range checker).
-/
import DdsModel.Conv
import DdsModel.ConvSpec
import DdsModel.Proofs.ConvRange
namespace Dds.ConvProofs
open Dds Dds.Conv Dds.Spec Dds.CF32 Dds.ConvRange
set_option maxRecDepth 100000

/-- `impl x` is the code of the ideal `q x` (nearest, tie up) and whether `max * q x` is a tie is
given by `tie x` -/
def okInt (impl : Nat → Nat) (max : Nat) (q : Nat → Rat) (tie : Nat → Bool) (x : Nat) : Bool :=
  ((impl x : Int) == toCode max (q x)) && (isTie ((max : Rat) * clamp01 (q x)) == tie x)

def never : Nat → Bool := fun _ => false

theorem n1n8_ok : ∀ x, x < 2 → okInt n1n8 255 (unorm 1) never x = true :=
  forall_lt_of_allRange _ 0 2 (by decide +kernel)
theorem n1n16_ok : ∀ x, x < 2 → okInt n1n16 65535 (unorm 1) never x = true :=
  forall_lt_of_allRange _ 0 2 (by decide +kernel)
theorem n2n8_ok : ∀ x, x < 4 → okInt n2n8 255 (unorm 2) never x = true :=
  forall_lt_of_allRange _ 0 4 (by decide +kernel)
theorem n2n16_ok : ∀ x, x < 4 → okInt n2n16 65535 (unorm 2) never x = true :=
  forall_lt_of_allRange _ 0 4 (by decide +kernel)
theorem n4n8_ok : ∀ x, x < 16 → okInt n4n8 255 (unorm 4) never x = true :=
  forall_lt_of_allRange _ 0 16 (by decide +kernel)
theorem n4n16_ok : ∀ x, x < 16 → okInt n4n16 65535 (unorm 4) never x = true :=
  forall_lt_of_allRange _ 0 16 (by decide +kernel)
theorem n5n8_ok : ∀ x, x < 32 → okInt n5n8 255 (unorm 5) never x = true :=
  forall_lt_of_allRange _ 0 32 (by decide +kernel)
theorem n5n16_ok : ∀ x, x < 32 → okInt n5n16 65535 (unorm 5) never x = true :=
  forall_lt_of_allRange _ 0 32 (by decide +kernel)
theorem n6n8_ok : ∀ x, x < 64 → okInt n6n8 255 (unorm 6) never x = true :=
  forall_lt_of_allRange _ 0 64 (by decide +kernel)
theorem n6n16_ok : ∀ x, x < 64 → okInt n6n16 65535 (unorm 6) never x = true :=
  forall_lt_of_allRange _ 0 64 (by decide +kernel)
theorem n8n16_ok : ∀ x, x < 256 → okInt n8n16 65535 (unorm 8) never x = true :=
  forall_lt_of_allRange _ 3 256 (by decide +kernel)
theorem n10n8_ok : ∀ x, x < 1024 → okInt n10n8 255 (unorm 10) never x = true :=
  forall_lt_of_allRange _ 5 1024 (by decide +kernel)
theorem n10n16_ok : ∀ x, x < 1024 → okInt n10n16 65535 (unorm 10) never x = true :=
  forall_lt_of_allRange _ 5 1024 (by decide +kernel)

/-- SNORM: the only tie is the code of 0 (`0.5 * max`), it goes up -/
def tieZero : Nat → Bool := fun x => x == 0
theorem s8n8_ok : ∀ x, x < 256 → okInt s8n8 255 (snorm 8) tieZero x = true :=
  forall_lt_of_allRange _ 3 256 (by decide +kernel)
theorem s8n16_ok : ∀ x, x < 256 → okInt s8n16 65535 (snorm 8) tieZero x = true :=
  forall_lt_of_allRange _ 3 256 (by decide +kernel)

/-- XR: `255 * clamp((x-384)/510)` is `c / 2`, a tie for every odd `c` strictly inside the range -/
def tieXr : Nat → Bool := fun x => 384 < x && x < 894 && x % 2 == 1
theorem xr10n8_ok : ∀ x, x < 1024 → okInt xr10n8 255 xr tieXr x = true :=
  forall_lt_of_allRange _ 5 1024 (by decide +kernel)
theorem xr10n16_ok : ∀ x, x < 1024 → okInt xr10n16 65535 xr tieXr x = true :=
  forall_lt_of_allRange _ 5 1024 (by decide +kernel)

/-- denormal 11-bit / 10-bit floats to UNORM16: the integer formulas `(m + 7) >> 4`, `(m + 3) >> 3`;
ties (`m = 8, 24, 40, 56` resp. `4, 12, 20, 28`: value `m * 65535 / 2^20`…) do not exist because
65535 is odd and the denominators are powers of two larger than `2 m` — checked, not assumed -/
def f11d (m : Nat) : Rat := (smallFloat 6 false m).getD 0
def f10d (m : Nat) : Rat := (smallFloat 5 false m).getD 0
theorem fp11Denorm_ok : ∀ m, m < 64 → okInt fp11DenormN16 65535 f11d never m = true :=
  forall_lt_of_allRange _ 0 64 (by decide +kernel)
theorem fp10Denorm_ok : ∀ m, m < 32 → okInt fp10DenormN16 65535 f10d never m = true :=
  forall_lt_of_allRange _ 0 32 (by decide +kernel)

end Dds.ConvProofs
