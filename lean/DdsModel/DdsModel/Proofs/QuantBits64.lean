/-
C15: `s16::from_uf32` on bit patterns — the binary64 computation
`(x.min(1.0) as f64 * 65534.0 + 0.5) as u16` is followed operator by operator and shown to be
EXACT: the widening is exact, the product of a 24-bit by a 16-bit significand has at most 40
bits, and the sum with 0.5 has at most 53 bits unless `x < 2^-53`, where the (rounded) sum stays
below 0.75 and the cast gives 0 like the exact value.
-/
import DdsModel.EncTotal64
import DdsModel.Proofs.ConvF64
import DdsModel.Proofs.QuantBits
import DdsModel.Proofs.Quant
namespace Dds.EncTotal.QuantBits
open Dds.CF32

/-! ### the binary64 chain for a positive value `m · 2^-k ≤ 1` -/

/-- `norm` for the positive finite `f32` value `m·2^-k` (`m < 2^24`, `23 ≤ k ≤ 149`, value ≤ 1):
every binary64 operation is exact or irrelevant, the result is `⌊m·65534 / 2^k + 1/2⌋` -/
theorem chain (m k : Nat) (hm0 : m ≠ 0) (hm24 : m < 2 ^ 24) (hk1 : 23 ≤ k) (hk2 : k ≤ 149)
    (hmk : m ≤ 2 ^ k) :
    CF64.toNatSat (CF64.fadd (CF64.fmul (CF64.roundPack false m (-(k : Int))) CF64.k65534)
      CF64.half) 65535 = (m * 65534 + 2 ^ (k - 1)) / 2 ^ k := by
  obtain ⟨kf1, kf2, kf3, _⟩ := CF64.k65534_facts
  -- step 1: the widening is exact
  have hL1 : Nat.log2 m ≤ 23 := by
    have := (Nat.log2_lt hm0).mpr hm24
    omega
  obtain ⟨r1, r1a, r1b⟩ := CF64.roundPack_exact m 0 (-(k : Int)) hm0
    (Nat.lt_trans hm24 (by decide)) (by omega) (by omega)
  rw [Nat.pow_zero, Nat.mul_one,
    show (Nat.log2 m : Int) + ((0 : Nat) : Int) + -(k : Int) = (Nat.log2 m : Int) - k by omega]
    at r1
  obtain ⟨x1, x2, x3⟩ := CF64.pat_fields ((Nat.log2 m : Int) - k) _ (by omega) (by omega) r1a r1b
  rw [r1]
  -- step 2: the product is exact
  rw [CF64.fmul_pos _ _ x1 kf1, x2, x3, kf2, kf3]
  clear x1 x2 x3 kf1 kf2 kf3 r1
  have hprod : m * 2 ^ (52 - Nat.log2 m) * (65534 * 2 ^ 37) =
      (m * 65534) * 2 ^ (89 - Nat.log2 m) := by
    rw [Nat.mul_mul_mul_comm, ← Nat.pow_add]
    congr 2; omega
  rw [hprod]
  clear hprod
  have ha0 : m * 65534 ≠ 0 := by omega
  have ha40 : m * 65534 < 2 ^ 40 := by
    have : m < 16777216 := hm24
    rw [show (2 : Nat) ^ 40 = 1099511627776 by decide]
    omega
  have hak : m * 65534 ≤ 65534 * 2 ^ k := by
    rw [Nat.mul_comm]; exact Nat.mul_le_mul_left _ hmk
  generalize m * 65534 = a at ha0 ha40 hak ⊢
  have hL2 : Nat.log2 a ≤ 39 := by
    have := (Nat.log2_lt ha0).mpr ha40
    omega
  obtain ⟨r2, r2a, r2b⟩ := CF64.roundPack_exact a (89 - Nat.log2 m)
    ((Nat.log2 m : Int) - k - 52 + -37) ha0
    (Nat.lt_trans ha40 (by decide)) (by omega) (by omega)
  rw [show (Nat.log2 a : Int) + ((89 - Nat.log2 m : Nat) : Int) +
      ((Nat.log2 m : Int) - k - 52 + -37) = (Nat.log2 a : Int) - k by omega] at r2
  rw [r2]
  obtain ⟨p1, p2, p3⟩ := CF64.pat_fields ((Nat.log2 a : Int) - k) _ (by omega) (by omega) r2a r2b
  -- step 3: the sum, as `c · 2^t · 2^(-k-t)` with `c = a + 2^(k-1)`
  rw [CF64.fadd_half _ p1, p2, p3]
  clear p1 p2 p3 r2
  have hsum : ∃ t : Nat,
      (a * 2 ^ (52 - Nat.log2 a)) <<<
          ((Nat.log2 a : Int) - k - 52 - min ((Nat.log2 a : Int) - k - 52) (-53)).toNat +
        2 ^ 52 <<< (-53 - min ((Nat.log2 a : Int) - k - 52) (-53)).toNat
        = (a + 2 ^ (k - 1)) * 2 ^ t ∧
      min ((Nat.log2 a : Int) - k - 52) (-53) = -(k : Int) - t := by
    by_cases hc : (-1 : Int) ≤ (Nat.log2 a : Int) - k
    · refine ⟨53 - k, ?_, by omega⟩
      have hmin : min ((Nat.log2 a : Int) - k - 52) (-53) = -53 := by omega
      rw [hmin]
      have e1 : ((Nat.log2 a : Int) - k - 52 - -53).toNat = Nat.log2 a + 1 - k := by omega
      have e2 : ((-53 : Int) - -53).toNat = 0 := rfl
      have ea : 52 - Nat.log2 a + (Nat.log2 a + 1 - k) = 53 - k := by omega
      have eb : k - 1 + (53 - k) = 52 := by omega
      rw [e1, e2, Nat.shiftLeft_eq, Nat.shiftLeft_eq, Nat.pow_zero, Nat.mul_one, Nat.add_mul,
        Nat.mul_assoc, ← Nat.pow_add, ← Nat.pow_add, ea, eb]
    · refine ⟨52 - Nat.log2 a, ?_, by omega⟩
      have hmin : min ((Nat.log2 a : Int) - k - 52) (-53) = (Nat.log2 a : Int) - k - 52 := by
        omega
      rw [hmin]
      have e1 : ((Nat.log2 a : Int) - k - 52 - ((Nat.log2 a : Int) - k - 52)).toNat = 0 := by
        omega
      have e2 : ((-53 : Int) - ((Nat.log2 a : Int) - k - 52)).toNat = k - 1 - Nat.log2 a := by
        omega
      have ea : 52 + (k - 1 - Nat.log2 a) = k - 1 + (52 - Nat.log2 a) := by omega
      rw [e1, e2, Nat.shiftLeft_eq, Nat.shiftLeft_eq, Nat.pow_zero, Nat.mul_one, Nat.add_mul,
        ← Nat.pow_add, ← Nat.pow_add, ea]
  obtain ⟨t, hs1, hs2⟩ := hsum
  rw [hs1, hs2]
  have hP : 0 < 2 ^ (k - 1) := Nat.two_pow_pos _
  have hkk : 2 ^ k = 2 * 2 ^ (k - 1) := by
    rw [show k = (k - 1) + 1 by omega, Nat.pow_succ, Nat.mul_comm]; simp
  generalize hc : a + 2 ^ (k - 1) = c
  have hc0 : c ≠ 0 := by omega
  have hcl : 2 ^ (k - 1) ≤ c := by omega
  by_cases hk53 : k ≤ 53
  · -- the sum has at most 53 significant bits: exact
    have hc53 : c < 2 ^ 53 := by
      have h1 : 2 ^ (k - 1) ≤ 2 ^ 52 := Nat.pow_le_pow_right (by omega) (by omega)
      have h2 : (2 : Nat) ^ 40 + 2 ^ 52 < 2 ^ 53 := by decide
      omega
    have hLc1 : k - 1 ≤ Nat.log2 c := (Nat.le_log2 hc0).mpr hcl
    have hLc2 : Nat.log2 c ≤ 52 := by
      have := (Nat.log2_lt hc0).mpr hc53
      omega
    obtain ⟨r3, r3a, r3b⟩ := CF64.roundPack_exact c t (-(k : Int) - t) hc0 hc53 (by omega)
      (by omega)
    rw [show (Nat.log2 c : Int) + (t : Int) + (-(k : Int) - t) = (Nat.log2 c : Int) - k by omega]
      at r3
    rw [r3]
    -- the value is below 65535
    have hclt : c < 65535 * 2 ^ k := by
      have h1 : a ≤ 65534 * 2 ^ k := hak
      rw [show 65535 * 2 ^ k = 65534 * 2 ^ k + 2 ^ k by rw [← Nat.succ_mul]]
      omega
    have hLc3 : Nat.log2 c < 16 + k := by
      rw [Nat.log2_lt hc0, Nat.pow_add]
      exact Nat.lt_trans hclt (Nat.mul_lt_mul_of_pos_right (by decide) (Nat.two_pow_pos k))
    have hdiv : c * 2 ^ (52 - Nat.log2 c) / 2 ^ (52 - ((Nat.log2 c : Int) - k)).toNat =
        c / 2 ^ k := by
      have e1 : (52 - ((Nat.log2 c : Int) - k)).toNat = k + (52 - Nat.log2 c) := by omega
      rw [e1, Nat.pow_add]
      exact Nat.mul_div_mul_right _ _ (Nat.two_pow_pos _)
    rw [CF64.toNatSat_pat _ _ _ (by omega) (by omega) r3a r3b (by
      rw [hdiv]
      have : c / 2 ^ k < 65535 := (Nat.div_lt_iff_lt_mul (Nat.two_pow_pos k)).mpr hclt
      omega), hdiv]
  · -- `x < 2^-53`: the product is below 2^-14, the rounded sum below 0.75, the cast 0
    have h40 : (2 : Nat) ^ 40 ≤ 2 ^ (k - 2) := Nat.pow_le_pow_right (by omega) (by omega)
    have hk2' : 2 ^ (k - 1) = 2 * 2 ^ (k - 2) := by
      rw [show k - 1 = (k - 2) + 1 by omega, Nat.pow_succ, Nat.mul_comm]
    have hLc : Nat.log2 c = k - 1 := by
      apply Dds.EncTotal.SharedExp.log2_eq
      · exact hcl
      · rw [show k - 1 + 1 = k by omega]; omega
    have hct0 : c * 2 ^ t ≠ 0 := by
      have : 0 < c * 2 ^ t := Nat.mul_pos (by omega) (Nat.two_pow_pos t)
      omega
    have hlog : Nat.log2 (c * 2 ^ t) = k - 1 + t := by rw [CF64.log2_mul_pow c t hc0, hLc]
    have hle := CF64.roundPack_le (c * 2 ^ t) (-(k : Int) - t) hct0 (2 ^ 52 + 2 ^ 51) (-1)
      (by rw [hlog]; omega) (by omega) (by
        rw [hlog, show 52 - (k - 1 + t) = 0 by omega, Nat.pow_zero, Nat.mul_one,
          show k - 1 + t - 52 = (k - 53) + t by omega, Nat.pow_add, ← Nat.mul_assoc]
        apply Nat.mul_le_mul_right
        have e1 : (2 ^ 52 + 2 ^ 51) * 2 ^ (k - 53) = 3 * 2 ^ (k - 2) := by
          rw [show (2 : Nat) ^ 52 + 2 ^ 51 = 3 * 2 ^ 51 by decide, Nat.mul_assoc, ← Nat.pow_add,
            show 51 + (k - 53) = k - 2 by omega]
        rw [e1]
        omega)
    have hlt : CF64.pat (-1) (2 ^ 52 + 2 ^ 51) < CF64.one := by decide
    rw [CF64.toNatSat_lt_one _ _ (Nat.lt_of_le_of_lt hle hlt)]
    symm
    apply Nat.div_eq_of_lt
    omega

end Dds.EncTotal.QuantBits
