/-
C15: `s16::from_uf32` on bit patterns — the binary64 computation
`(x.min(1.0) as f64 * 65534.0 + 0.5) as u16` is followed operator by operator and shown to be
EXACT: the widening is exact, the product of a 24-bit by a 16-bit significand has at most 40
bits, and the sum with 0.5 has at most 53 bits unless `x < 2^-53`, where the (rounded) sum stays
below 0.75 and the cast gives 0 like the exact value.
-/
import DdsModel.EncTotal64
import DdsModel.Proofs.ConvF64
import DdsModel.Proofs.QuantBits
import DdsModel.Proofs.Quant
namespace Dds.EncTotal.QuantBits
open Dds.CF32

/-! ### the binary64 chain for a positive value `m · 2^-k ≤ 1` -/

/-- `norm` for the positive finite `f32` value `m·2^-k` (`m < 2^24`, `23 ≤ k ≤ 149`, value ≤ 1):
every binary64 operation is exact or irrelevant, the result is `⌊m·65534 / 2^k + 1/2⌋` -/
theorem chain (m k : Nat) (hm0 : m ≠ 0) (hm24 : m < 2 ^ 24) (hk1 : 23 ≤ k) (hk2 : k ≤ 149)
    (hmk : m ≤ 2 ^ k) :
    CF64.toNatSat (CF64.fadd (CF64.fmul (CF64.roundPack false m (-(k : Int))) CF64.k65534)
      CF64.half) 65535 = (m * 65534 + 2 ^ (k - 1)) / 2 ^ k := by
  obtain ⟨kf1, kf2, kf3, _⟩ := CF64.k65534_facts
  -- step 1: the widening is exact
  have hL1 : Nat.log2 m ≤ 23 := by
    have := (Nat.log2_lt hm0).mpr hm24
    omega
  obtain ⟨r1, r1a, r1b⟩ := CF64.roundPack_exact m 0 (-(k : Int)) hm0
    (Nat.lt_trans hm24 (by decide)) (by omega) (by omega)
  rw [Nat.pow_zero, Nat.mul_one,
    show (Nat.log2 m : Int) + ((0 : Nat) : Int) + -(k : Int) = (Nat.log2 m : Int) - k by omega]
    at r1
  obtain ⟨x1, x2, x3⟩ := CF64.pat_fields ((Nat.log2 m : Int) - k) _ (by omega) (by omega) r1a r1b
  rw [r1]
  -- step 2: the product is exact
  rw [CF64.fmul_pos _ _ x1 kf1, x2, x3, kf2, kf3]
  clear x1 x2 x3 kf1 kf2 kf3 r1
  have hprod : m * 2 ^ (52 - Nat.log2 m) * (65534 * 2 ^ 37) =
      (m * 65534) * 2 ^ (89 - Nat.log2 m) := by
    rw [Nat.mul_mul_mul_comm, ← Nat.pow_add]
    congr 2; omega
  rw [hprod]
  clear hprod
  have ha0 : m * 65534 ≠ 0 := by omega
  have ha40 : m * 65534 < 2 ^ 40 := by
    have : m < 16777216 := hm24
    rw [show (2 : Nat) ^ 40 = 1099511627776 by decide]
    omega
  have hak : m * 65534 ≤ 65534 * 2 ^ k := by
    rw [Nat.mul_comm]; exact Nat.mul_le_mul_left _ hmk
  generalize m * 65534 = a at ha0 ha40 hak ⊢
  have hL2 : Nat.log2 a ≤ 39 := by
    have := (Nat.log2_lt ha0).mpr ha40
    omega
  obtain ⟨r2, r2a, r2b⟩ := CF64.roundPack_exact a (89 - Nat.log2 m)
    ((Nat.log2 m : Int) - k - 52 + -37) ha0
    (Nat.lt_trans ha40 (by decide)) (by omega) (by omega)
  rw [show (Nat.log2 a : Int) + ((89 - Nat.log2 m : Nat) : Int) +
      ((Nat.log2 m : Int) - k - 52 + -37) = (Nat.log2 a : Int) - k by omega] at r2
  rw [r2]
  obtain ⟨p1, p2, p3⟩ := CF64.pat_fields ((Nat.log2 a : Int) - k) _ (by omega) (by omega) r2a r2b
  -- step 3: the sum, as `c · 2^t · 2^(-k-t)` with `c = a + 2^(k-1)`
  rw [CF64.fadd_half _ p1, p2, p3]
  clear p1 p2 p3 r2
  have hsum : ∃ t : Nat,
      (a * 2 ^ (52 - Nat.log2 a)) <<<
          ((Nat.log2 a : Int) - k - 52 - min ((Nat.log2 a : Int) - k - 52) (-53)).toNat +
        2 ^ 52 <<< (-53 - min ((Nat.log2 a : Int) - k - 52) (-53)).toNat
        = (a + 2 ^ (k - 1)) * 2 ^ t ∧
      min ((Nat.log2 a : Int) - k - 52) (-53) = -(k : Int) - t := by
    by_cases hc : (-1 : Int) ≤ (Nat.log2 a : Int) - k
    · refine ⟨53 - k, ?_, by omega⟩
      have hmin : min ((Nat.log2 a : Int) - k - 52) (-53) = -53 := by omega
      rw [hmin]
      have e1 : ((Nat.log2 a : Int) - k - 52 - -53).toNat = Nat.log2 a + 1 - k := by omega
      have e2 : ((-53 : Int) - -53).toNat = 0 := rfl
      have ea : 52 - Nat.log2 a + (Nat.log2 a + 1 - k) = 53 - k := by omega
      have eb : k - 1 + (53 - k) = 52 := by omega
      rw [e1, e2, Nat.shiftLeft_eq, Nat.shiftLeft_eq, Nat.pow_zero, Nat.mul_one, Nat.add_mul,
        Nat.mul_assoc, ← Nat.pow_add, ← Nat.pow_add, ea, eb]
    · refine ⟨52 - Nat.log2 a, ?_, by omega⟩
      have hmin : min ((Nat.log2 a : Int) - k - 52) (-53) = (Nat.log2 a : Int) - k - 52 := by
        omega
      rw [hmin]
      have e1 : ((Nat.log2 a : Int) - k - 52 - ((Nat.log2 a : Int) - k - 52)).toNat = 0 := by
        omega
      have e2 : ((-53 : Int) - ((Nat.log2 a : Int) - k - 52)).toNat = k - 1 - Nat.log2 a := by
        omega
      have ea : 52 + (k - 1 - Nat.log2 a) = k - 1 + (52 - Nat.log2 a) := by omega
      rw [e1, e2, Nat.shiftLeft_eq, Nat.shiftLeft_eq, Nat.pow_zero, Nat.mul_one, Nat.add_mul,
        ← Nat.pow_add, ← Nat.pow_add, ea]
  obtain ⟨t, hs1, hs2⟩ := hsum
  rw [hs1, hs2]
  have hP : 0 < 2 ^ (k - 1) := Nat.two_pow_pos _
  have hkk : 2 ^ k = 2 * 2 ^ (k - 1) := by
    rw [show k = (k - 1) + 1 by omega, Nat.pow_succ, Nat.mul_comm]; simp
  generalize hc : a + 2 ^ (k - 1) = c
  have hc0 : c ≠ 0 := by omega
  have hcl : 2 ^ (k - 1) ≤ c := by omega
  by_cases hk53 : k ≤ 53
  · -- the sum has at most 53 significant bits: exact
    have hc53 : c < 2 ^ 53 := by
      have h1 : 2 ^ (k - 1) ≤ 2 ^ 52 := Nat.pow_le_pow_right (by omega) (by omega)
      have h2 : (2 : Nat) ^ 40 + 2 ^ 52 < 2 ^ 53 := by decide
      omega
    have hLc1 : k - 1 ≤ Nat.log2 c := (Nat.le_log2 hc0).mpr hcl
    have hLc2 : Nat.log2 c ≤ 52 := by
      have := (Nat.log2_lt hc0).mpr hc53
      omega
    obtain ⟨r3, r3a, r3b⟩ := CF64.roundPack_exact c t (-(k : Int) - t) hc0 hc53 (by omega)
      (by omega)
    rw [show (Nat.log2 c : Int) + (t : Int) + (-(k : Int) - t) = (Nat.log2 c : Int) - k by omega]
      at r3
    rw [r3]
    -- the value is below 65535
    have hclt : c < 65535 * 2 ^ k := by
      have h1 : a ≤ 65534 * 2 ^ k := hak
      rw [show 65535 * 2 ^ k = 65534 * 2 ^ k + 2 ^ k by rw [← Nat.succ_mul]]
      omega
    have hLc3 : Nat.log2 c < 16 + k := by
      rw [Nat.log2_lt hc0, Nat.pow_add]
      exact Nat.lt_trans hclt (Nat.mul_lt_mul_of_pos_right (by decide) (Nat.two_pow_pos k))
    have hdiv : c * 2 ^ (52 - Nat.log2 c) / 2 ^ (52 - ((Nat.log2 c : Int) - k)).toNat =
        c / 2 ^ k := by
      have e1 : (52 - ((Nat.log2 c : Int) - k)).toNat = k + (52 - Nat.log2 c) := by omega
      rw [e1, Nat.pow_add]
      exact Nat.mul_div_mul_right _ _ (Nat.two_pow_pos _)
    rw [CF64.toNatSat_pat _ _ _ (by omega) (by omega) r3a r3b (by
      rw [hdiv]
      have : c / 2 ^ k < 65535 := (Nat.div_lt_iff_lt_mul (Nat.two_pow_pos k)).mpr hclt
      omega), hdiv]
  · -- `x < 2^-53`: the product is below 2^-14, the rounded sum below 0.75, the cast 0
    have h40 : (2 : Nat) ^ 40 ≤ 2 ^ (k - 2) := Nat.pow_le_pow_right (by omega) (by omega)
    have hk2' : 2 ^ (k - 1) = 2 * 2 ^ (k - 2) := by
      rw [show k - 1 = (k - 2) + 1 by omega, Nat.pow_succ, Nat.mul_comm]
    have hLc : Nat.log2 c = k - 1 := by
      apply Dds.EncTotal.SharedExp.log2_eq
      · exact hcl
      · rw [show k - 1 + 1 = k by omega]; omega
    have hct0 : c * 2 ^ t ≠ 0 := by
      have : 0 < c * 2 ^ t := Nat.mul_pos (by omega) (Nat.two_pow_pos t)
      omega
    have hlog : Nat.log2 (c * 2 ^ t) = k - 1 + t := by rw [CF64.log2_mul_pow c t hc0, hLc]
    have hle := CF64.roundPack_le (c * 2 ^ t) (-(k : Int) - t) hct0 (2 ^ 52 + 2 ^ 51) (-1)
      (by rw [hlog]; omega) (by omega) (by
        rw [hlog, show 52 - (k - 1 + t) = 0 by omega, Nat.pow_zero, Nat.mul_one,
          show k - 1 + t - 52 = (k - 53) + t by omega, Nat.pow_add, ← Nat.mul_assoc]
        apply Nat.mul_le_mul_right
        have e1 : (2 ^ 52 + 2 ^ 51) * 2 ^ (k - 53) = 3 * 2 ^ (k - 2) := by
          rw [show (2 : Nat) ^ 52 + 2 ^ 51 = 3 * 2 ^ 51 by decide, Nat.mul_assoc, ← Nat.pow_add,
            show 51 + (k - 53) = k - 2 by omega]
        rw [e1]
        omega)
    have hlt : CF64.pat (-1) (2 ^ 52 + 2 ^ 51) < CF64.one := by decide
    rw [CF64.toNatSat_lt_one _ _ (Nat.lt_of_le_of_lt hle hlt)]
    symm
    apply Nat.div_eq_of_lt
    omega

/-! ### `x.min(1.0)` by class of `x` -/

theorem fmin_of_nan (x : Nat) (h : isNaN x = true) : fmin x one = one := by
  unfold fmin; rw [if_pos h]

theorem fmin_of_le_one (x : Nat) (hx : x ≤ one) : fmin x one = x := by
  have hn : isNaN x = false :=
    SharedExp.isNaN_of_le x (Nat.le_trans hx (by decide))
  have hk : key x = (x : Int) := SharedExp.key_of_lt x (Nat.lt_of_le_of_lt hx (by decide))
  have hk1 : key one = (one : Int) := by decide
  have hl : flt one x = false := by
    simp only [flt, hn, show isNaN one = false from by decide, hk, hk1]
    simp; omega
  unfold fmin
  simp [hn, show isNaN one = false from by decide, hl]

theorem fmin_of_negR (x : Nat) (hx : NegR x) : fmin x one = x := by
  obtain ⟨hn, hneg⟩ := negR_flags x hx
  have hk : key x ≤ 0 := by
    unfold key; rw [hneg]; simp only [if_true]; omega
  have hk1 : key one = (one : Int) := by decide
  have hl : flt one x = false := by
    have hone : (0 : Int) < (one : Int) := by decide
    simp only [flt, hn, show isNaN one = false from by decide, hk1]
    simp; omega
  unfold fmin
  simp [hn, show isNaN one = false from by decide, hl]

theorem fmin_of_ge_one (x : Nat) (h1 : one ≤ x) (h2 : x ≤ posInf) : fmin x one = one := by
  have hn : isNaN x = false := SharedExp.isNaN_of_le x h2
  have hk : key x = (x : Int) := SharedExp.key_of_lt x (Nat.lt_of_le_of_lt h2 (by decide))
  have hk1 : key one = (one : Int) := by decide
  unfold fmin
  simp only [hn, show isNaN one = false from by decide, Bool.false_eq_true, if_false]
  by_cases he : x = one
  · subst he; simp
  · have hl : flt one x = true := by
      simp only [flt, hn, show isNaN one = false from by decide, hk, hk1]
      simp; omega
    simp [hl]

/-! ### the widening -/

theorem ofF32_posfin (x : Nat) (hx : x < posInf) :
    CF64.ofF32 x = CF64.roundPack false (mant x) (expo x) := by
  obtain ⟨a1, a2, a3⟩ := SharedExp.posfin_flags x hx
  unfold CF64.ofF32
  simp [force_eq, a1, a2, a3]

/-- a negative non-NaN `f32` widens to a negative non-NaN `f64` -/
theorem ofF32_negR (x : Nat) (hx : NegR x) : CF64.NegR (CF64.ofF32 x) := by
  obtain ⟨hn, hneg⟩ := negR_flags x hx
  unfold CF64.ofF32
  simp only [force_eq, hn, hneg, Bool.false_eq_true, if_false, if_true]
  by_cases hi : isInf x = true
  · simp only [hi, if_true]
    exact ⟨by decide, by decide⟩
  · simp only [hi, Bool.false_eq_true, if_false]
    exact CF64.roundPack_true_negR _ _

/-- the fields of a positive pattern `x ≤ 1.0`: the value is `mant x · 2^-k ≤ 1` -/
theorem le_one_fields (x : Nat) (hx : x ≤ one) :
    mant x < 2 ^ 24 ∧ 23 ≤ (-expo x).toNat ∧ (-expo x).toNat ≤ 149 ∧
    expo x = -(((-expo x).toNat : Nat) : Int) ∧ mant x ≤ 2 ^ (-expo x).toNat ∧
    (x ≠ 0 → mant x ≠ 0) := by
  have hxinf : x < posInf := Nat.lt_of_le_of_lt hx (by decide)
  have hml := SharedExp.mant_lt x
  have hXle : expField x ≤ 127 := by
    rw [SharedExp.expField_eq]; simp only [one] at hx; omega
  have hsplit := SharedExp.pattern_split x hxinf
  by_cases hX : 1 ≤ expField x
  · obtain ⟨m1, m2⟩ := SharedExp.mant_normal x hX
    refine ⟨hml, by rw [m2]; omega, by rw [m2]; omega, by rw [m2]; omega, ?_, fun _ => by omega⟩
    by_cases h127 : expField x = 127
    · rw [h127] at hsplit
      have hf0 : fracField x = 0 := by simp only [one] at hx; omega
      rw [m2, h127, m1, hf0]
      decide
    · rw [m2]
      exact Nat.le_trans (Nat.le_of_lt hml) (Nat.pow_le_pow_right (by omega) (by omega))
  · obtain ⟨m1, m2⟩ := SharedExp.mant_subnormal x (by omega)
    refine ⟨hml, by rw [m2]; decide, by rw [m2]; decide, by rw [m2]; decide, ?_, ?_⟩
    · rw [m2]
      exact Nat.le_trans (Nat.le_of_lt hml) (by decide)
    · intro h0
      have : expField x = 0 := by omega
      rw [this] at hsplit
      omega

/-! ### `norm` by class of `x` -/

/-- everything that `min` maps to 1.0 — NaN of any payload and sign, `+∞`, every value ≥ 1 —
gives the largest `norm` -/
theorem s16Norm_of_fmin_one (x : Nat) (h : fmin x one = one) : s16Norm x = 65534 := by
  unfold s16Norm
  rw [h]
  decide +kernel

/-- negative values, `-0.0` and `-∞` give `norm = 0` -/
theorem s16Norm_negR (x : Nat) (hx : NegR x) : s16Norm x = 0 := by
  unfold s16Norm
  rw [fmin_of_negR x hx]
  obtain ⟨kf1, _, _, kf4⟩ := CF64.k65534_facts
  rcases CF64.fadd_neg_half _ (CF64.fmul_neg _ _ (ofF32_negR x hx) kf1 kf4) with h1 | h1
  · exact CF64.toNatSat_neg _ _ h1
  · exact CF64.toNatSat_lt_one _ _ (Nat.lt_of_le_of_lt h1 (by decide))

/-- `0 ≤ x ≤ 1`: `norm = ⌊mant x · 65534 / 2^k + 1/2⌋`, no rounding error of the binary64
evaluation reaches the result -/
theorem s16Norm_le_one (x : Nat) (hx : x ≤ one) :
    s16Norm x = (mant x * 65534 + 2 ^ ((-expo x).toNat - 1)) / 2 ^ (-expo x).toNat := by
  by_cases h0 : x = 0
  · subst h0; decide +kernel
  obtain ⟨f1, f2, f3, f4, f5, f6⟩ := le_one_fields x hx
  unfold s16Norm
  rw [fmin_of_le_one x hx, ofF32_posfin x (Nat.lt_of_le_of_lt hx (by decide))]
  generalize (-expo x).toNat = k at *
  rw [f4]
  exact chain (mant x) k (f6 h0) f1 f2 f3 f5

/-! ### the specification side: `Quant.sq 16` of the real value -/

open Dds.Quant in
theorem sq16_ge_one (v : Rat) (h : 1 ≤ v) : sq 16 v = 65534 := by
  have hc : clamp01 v = ((1 : Nat) : Rat) / ((1 : Nat) : Rat) := by
    unfold clamp01
    have h0 : ¬ v < 0 := by grind
    rw [if_neg h0]
    by_cases h1 : 1 < v
    · rw [if_pos h1]; decide +kernel
    · rw [if_neg h1]
      have : v = 1 := Rat.le_antisymm (Rat.not_lt.mp h1) h
      rw [this]; decide +kernel
  have hq := qL_ratio 65534 1 1 (by decide) (by decide)
  unfold sq
  rw [show snormLevels 16 = 65534 from by decide]
  unfold qL at hq ⊢
  rw [hc]
  rw [clamp01_of_mem (by decide +kernel) (by decide +kernel)] at hq
  rw [hq]; decide +kernel

open Dds.Quant in
theorem sq16_le_zero (v : Rat) (h : v ≤ 0) : sq 16 v = 0 := by
  have hc : clamp01 v = ((0 : Nat) : Rat) / ((1 : Nat) : Rat) := by
    unfold clamp01
    by_cases h0 : v < 0
    · rw [if_pos h0]; decide +kernel
    · rw [if_neg h0]
      have : v = 0 := Rat.le_antisymm h (Rat.not_lt.mp h0)
      rw [this]; decide +kernel
  have hq := qL_ratio 65534 0 1 (by decide) (by decide)
  unfold sq
  rw [show snormLevels 16 = 65534 from by decide]
  unfold qL at hq ⊢
  rw [hc]
  rw [clamp01_of_mem (by decide +kernel) (by decide +kernel)] at hq
  rw [hq]; decide +kernel

theorem pow2_pos (e : Int) : 0 < pow2 e := by
  unfold pow2
  split
  · exact Rat.natCast_pos.mpr (Nat.two_pow_pos _)
  · rw [Rat.div_def, Rat.one_mul]
    exact Rat.inv_pos.mpr (Rat.natCast_pos.mpr (Nat.two_pow_pos _))

/-- the magnitude of a finite pattern is a non-negative rational -/
theorem mag_nonneg (x : Nat) : 0 ≤ (mant x : Rat) * pow2 (expo x) :=
  Rat.mul_nonneg Rat.natCast_nonneg (Rat.le_of_lt (pow2_pos _))

theorem toRat_negR (x : Nat) (hx : NegR x) (hfin : expField x ≠ 255) : toRat x ≤ 0 := by
  obtain ⟨_, hneg⟩ := negR_flags x hx
  have h := mag_nonneg x
  unfold toRat
  simp only [beq_iff_eq, hfin, if_false, hneg, if_true]
  grind

theorem toRat_le_one (x : Nat) (hx : x ≤ one) :
    toRat x = (mant x : Rat) / ((2 ^ (-expo x).toNat : Nat) : Rat) := by
  obtain ⟨f1, f2, f3, f4, f5, f6⟩ := le_one_fields x hx
  obtain ⟨a1, a2, a3⟩ := SharedExp.posfin_flags x (Nat.lt_of_le_of_lt hx (by decide))
  have hfin : expField x ≠ 255 := by
    rw [SharedExp.expField_eq]; simp only [one] at hx; omega
  have hneg : ¬ (expo x ≥ 0) := by omega
  unfold toRat pow2
  simp only [beq_iff_eq, hfin, if_false, a3, Bool.false_eq_true, hneg]
  rw [Rat.div_def, Rat.div_def, Rat.one_mul]

theorem toRat_ge_one (x : Nat) (h1 : one ≤ x) (h2 : x < posInf) : 1 ≤ toRat x := by
  obtain ⟨a1, a2, a3⟩ := SharedExp.posfin_flags x h2
  have hX : 127 ≤ expField x := by
    rw [SharedExp.expField_eq]; simp only [one] at h1; simp only [posInf] at h2; omega
  have hX2 : expField x ≤ 254 := by
    rw [SharedExp.expField_eq]; simp only [posInf] at h2; omega
  obtain ⟨m1, m2⟩ := SharedExp.mant_normal x (by omega)
  have hm : 2 ^ 23 ≤ mant x := by rw [m1]; simp only [Nat.reducePow]; omega
  have hfin : expField x ≠ 255 := by omega
  unfold toRat pow2
  simp only [beq_iff_eq, hfin, if_false, a3, Bool.false_eq_true]
  by_cases he : expo x ≥ 0
  · rw [if_pos he, ← Rat.natCast_mul]
    have : 1 ≤ mant x * 2 ^ (expo x).toNat :=
      Nat.le_trans (Nat.le_trans (by decide) hm) (Nat.le_mul_of_pos_right _ (Nat.two_pow_pos _))
    exact Rat.natCast_le_natCast.mpr this
  · rw [if_neg he, Rat.div_def, Rat.one_mul, ← Rat.div_def]
    apply Dds.Quant.le_div_of_mul_le (Rat.natCast_pos.mpr (Nat.two_pow_pos _))
    rw [Rat.one_mul]
    apply Rat.natCast_le_natCast.mpr
    exact Nat.le_trans (Nat.pow_le_pow_right (by omega) (by omega)) hm

/-- integer form of the quantiser on the ratio `m / 2^k` -/
theorem qRatio_pow (m k : Nat) (hk : 1 ≤ k) :
    Dds.Quant.qRatio 65534 m (2 ^ k) = (m * 65534 + 2 ^ (k - 1)) / 2 ^ k := by
  unfold Dds.Quant.qRatio
  have hkk : 2 ^ k = 2 * 2 ^ (k - 1) := by
    rw [show k = (k - 1) + 1 by omega, Nat.pow_succ, Nat.mul_comm]; simp
  have : 2 * m * 65534 + 2 ^ k = 2 * (m * 65534 + 2 ^ (k - 1)) := by
    rw [hkk, Nat.mul_add, Nat.mul_assoc]
  rw [this]
  exact Nat.mul_div_mul_left _ _ (by decide)

/-- **the binary64 evaluation computes the specified quantiser.**  For every binary32 pattern the
`norm` of `s16::from_uf32` is `Quant.sq 16` = `⌊clamp01(v)·65534 + 1/2⌋` of the real value
`uvalue x` (NaN ↦ 1 through `min`, `±∞` beyond the clamp). -/
theorem s16Norm_eq_sq (x : Nat) (hx : x < 2 ^ 32) : s16Norm x = Dds.Quant.sq 16 (uvalue x) := by
  unfold uvalue
  by_cases hn : isNaN x = true
  · rw [if_pos hn, s16Norm_of_fmin_one x (fmin_of_nan x hn), sq16_ge_one _ (by decide)]
  rw [if_neg hn]
  have hnn : ¬ (x / 8388608 % 256 = 255 ∧ x % 8388608 ≠ 0) :=
    fun h => hn ((SharedExp.isNaN_iff x).mpr h)
  have hinf : isInf x = true ↔ (x / 8388608 % 256 = 255 ∧ x % 8388608 = 0) := by
    unfold isInf; rw [SharedExp.expField_eq, SharedExp.fracField_eq]; simp
  have hnegb : isNeg x = true ↔ 2147483648 ≤ x := by unfold isNeg signBit; simp
  by_cases hs : x < signBit
  · have hle : x ≤ posInf := by simp only [signBit, posInf] at hs ⊢; omega
    have hng : ¬ (isNeg x = true) := by rw [hnegb]; simp only [signBit] at hs; omega
    by_cases hi : isInf x = true
    · rw [if_pos hi, if_neg hng]
      have : one ≤ x := by rw [hinf] at hi; simp only [one]; omega
      rw [s16Norm_of_fmin_one x (fmin_of_ge_one x this hle), sq16_ge_one _ (by decide)]
    · rw [if_neg hi]
      have hlt : x < posInf := by rw [hinf] at hi; simp only [posInf] at hle ⊢; omega
      by_cases h1 : x ≤ one
      · rw [s16Norm_le_one x h1, toRat_le_one x h1]
        obtain ⟨f1, f2, f3, f4, f5, f6⟩ := le_one_fields x h1
        unfold Dds.Quant.sq
        rw [show Dds.Quant.snormLevels 16 = 65534 from by decide,
          Dds.Quant.qL_ratio 65534 _ _ (Nat.two_pow_pos _) f5, qRatio_pow _ _ (by omega)]
      · rw [s16Norm_of_fmin_one x (fmin_of_ge_one x (by omega) hle),
          sq16_ge_one _ (toRat_ge_one x (by omega) hlt)]
  · have hN : NegR x := by
      unfold NegR
      simp only [signBit, posInf] at hs ⊢
      omega
    have hng : isNeg x = true := by rw [hnegb]; simp only [signBit] at hs; omega
    rw [s16Norm_negR x hN]
    by_cases hi : isInf x = true
    · rw [if_pos hi, if_pos hng, sq16_le_zero _ (by decide)]
    · rw [if_neg hi]
      have hfin : expField x ≠ 255 := by
        rw [SharedExp.expField_eq]
        rw [hinf] at hi
        omega
      rw [sq16_le_zero _ (toRat_negR x hN hfin)]

theorem snormFromNorm16_eq (t : Nat) (ht : t ≤ 65534) :
    snormFromNorm 16 t = some (Dds.Quant.snormOfNorm 16 t) := by
  unfold snormFromNorm Dds.Quant.snormOfNorm
  rw [if_pos (by omega)]
  have : t + 1 + 2 ^ 16 - 2 ^ (16 - 1) = t + 1 + 2 ^ (16 - 1) := by omega
  rw [this]

/-- no panic, and the encoded SNORM16 code is the specified one: `Quant.sencode 16` -/
theorem s16_eq_sencode (x : Nat) (hx : x < 2 ^ 32) :
    s16 x = some (Dds.Quant.sencode 16 (uvalue x)) := by
  unfold s16 Dds.Quant.sencode
  rw [s16Norm_eq_sq x hx]
  exact snormFromNorm16_eq _ (Dds.Quant.qL_le _ _)

/-- the decoded code is within half a SNORM16 step of the clamped input (C12's
`snorm_half_step` at 16 bits, for the value the binary64 code really computes) -/
theorem s16_half_step (x : Nat) (hx : x < 2 ^ 32) :
    ∃ v, s16 x = some v ∧ v < 2 ^ 16 ∧
      Dds.Quant.sdeq 16 v - Dds.Quant.clamp01 (uvalue x) ≤ 1 / (2 * 65534) ∧
      -(1 / (2 * 65534)) ≤ Dds.Quant.sdeq 16 v - Dds.Quant.clamp01 (uvalue x) := by
  refine ⟨_, s16_eq_sencode x hx, ?_, ?_⟩
  · unfold Dds.Quant.sencode Dds.Quant.snormOfNorm
    exact Nat.mod_lt _ (by decide)
  · unfold Dds.Quant.sdeq Dds.Quant.sencode Dds.Quant.sq
    rw [Dds.Quant.snormNorm_ofNorm 16 _ (by omega) (Dds.Quant.qL_le _ _)]
    have := Dds.Quant.qL_half_step (Dds.Quant.snormLevels 16) (by decide) (uvalue x)
    rw [show ((Dds.Quant.snormLevels 16 : Nat) : Rat) = 65534 from by decide] at this
    exact this

/-- for `0 ≤ x ≤ 1` the clamp is the identity: `norm = ⌊v·65534 + 1/2⌋` -/
theorem s16Norm_le_one_rat (x : Nat) (hx : x ≤ one) :
    s16Norm x = Dds.Quant.roundHalfUp (toRat x * 65534) := by
  obtain ⟨f1, f2, f3, f4, f5, f6⟩ := le_one_fields x hx
  have h := s16Norm_eq_sq x (Nat.lt_of_le_of_lt hx (by decide))
  have hfin : isNaN x = false ∧ isInf x = false := by
    obtain ⟨a1, a2, _⟩ := SharedExp.posfin_flags x (Nat.lt_of_le_of_lt hx (by decide))
    exact ⟨a1, a2⟩
  unfold uvalue at h
  simp only [hfin.1, hfin.2, Bool.false_eq_true, if_false] at h
  rw [h]
  unfold Dds.Quant.sq Dds.Quant.qL
  obtain ⟨c0, c1⟩ := Dds.Quant.ratio_mem (Nat.two_pow_pos (-expo x).toNat) f5
  rw [toRat_le_one x hx, Dds.Quant.clamp01_of_mem c0 c1]
  rfl

/-! ### the three SNORM16 formats -/

theorem s16_some (x : Nat) (hx : x < 2 ^ 32) : ∃ v, s16 x = some v ∧ v < 2 ^ 16 := by
  obtain ⟨v, h1, h2, _⟩ := s16_half_step x hx
  exact ⟨v, h1, h2⟩

theorem encode16_fit (r g b a : Nat) (hr : r < 2 ^ 32) (hg : g < 2 ^ 32) (hb : b < 2 ^ 32)
    (ha : a < 2 ^ 32) :
    ∃ r' g' b' a', s16 r = some r' ∧ s16 g = some g' ∧ s16 b = some b' ∧ s16 a = some a' ∧
      encode16 "R16_SNORM" r g b a = some r' ∧ r' < 2 ^ 16 ∧
      encode16 "R16G16_SNORM" r g b a = some (pack [(r', 16), (g', 16)]) ∧
      pack [(r', 16), (g', 16)] < 2 ^ 32 ∧
      encode16 "R16G16B16A16_SNORM" r g b a = some (pack [(r', 16), (g', 16), (b', 16), (a', 16)]) ∧
      pack [(r', 16), (g', 16), (b', 16), (a', 16)] < 2 ^ 64 := by
  obtain ⟨r', e1, h1⟩ := s16_some r hr
  obtain ⟨g', e2, h2⟩ := s16_some g hg
  obtain ⟨b', e3, h3⟩ := s16_some b hb
  obtain ⟨a', e4, h4⟩ := s16_some a ha
  refine ⟨r', g', b', a', e1, e2, e3, e4, ?_, h1, ?_, ?_, ?_, ?_⟩
  · show s16 r = some r'
    exact e1
  · show (match s16 r, s16 g with
      | some r, some g => some (r ||| (g <<< 16))
      | _, _ => none) = _
    rw [e1, e2]
    simp only [pack, Nat.zero_shiftLeft, Nat.or_zero]
  · apply pack_fields_lt _ _ 32 rfl
    simp only [List.mem_cons, List.not_mem_nil, or_false]
    intro f hf
    rcases hf with rfl | rfl <;> dsimp only <;> omega
  · show (match s16 r, s16 g, s16 b, s16 a with
      | some r, some g, some b, some a => some (r ||| (g <<< 16) ||| (b <<< 32) ||| (a <<< 48))
      | _, _, _, _ => none) = _
    rw [e1, e2, e3, e4]
    simp only [pack, Nat.shiftLeft_or_distrib, ← Nat.shiftLeft_add, Nat.zero_shiftLeft, Nat.or_zero,
      Nat.or_assoc]
  · apply pack_fields_lt _ _ 64 rfl
    simp only [List.mem_cons, List.not_mem_nil, or_false]
    intro f hf
    rcases hf with rfl | rfl | rfl | rfl <;> dsimp only <;> omega

end Dds.EncTotal.QuantBits
