/-
BC3n (`BC3_UNORM_NORMAL`): with `calcB = z8` on all pairs (`Proofs/Bc3nAll.lean`) the exception `f ≠ .bc3n`
of `Proofs/BcPixels.lean` disappears: pixel and block equality for EVERY format of the BC1–BC5 model.
-/
import DdsModel.Proofs.Bc3nAll
import DdsModel.Proofs.BcPixels
namespace Dds.Bc
open Dds.BcSpec (rnd)

/-- BC3n at 8 bit: R (BC3 alpha), G (BC3 green) and B (`calc_b`) equal the specification -/
theorem px8_bc3n_eq (blk : Nat → Nat) (hb : ∀ i, blk i < 256) (p : Nat) (hp : p < 16) :
    px8 .bc3n blk p = BcSpec.px8 .bc3n blk p := by
  rw [px8_bc3n blk hb p hp]
  have ha : rnd (255 * BcSpec.bc4uVal blk 0 p) < 256 := by
    rw [← bc3Alpha_eq blk hb p hp]; exact bc4u8_lt blk hb p
  have hg : (BcSpec.colorPx false blk 8 p).2.1 < 256 := by
    rw [← colorUpper_eq blk hb p hp]; exact (bc1NoDefaultPx_lt (upper blk) p).2.1
  rw [Bc3n.calcB_eq_z8 _ _ ha hg]
  rfl

/-- every pixel of every format, all precisions -/
theorem px_eq_all (f : Fmt) (pr : Prec) (blk : Nat → Nat) (hb : ∀ i, blk i < 256) (p : Nat) (hp : p < 16) :
    px f pr blk p = BcSpec.px f pr blk p := by
  by_cases hf : f = .bc3n
  · subst hf
    simp only [px, pxWith, stdConv, BcSpec.px]
    exact map_widen_eq pr _ _ (px8_bc3n_eq blk hb p hp) (px8_lt _ blk hb p)
  · exact px_eq f hf pr blk hb p hp

theorem decodeBlock_eq_all (f : Fmt) (pr : Prec) (blk : Nat → Nat) (hb : ∀ i, blk i < 256) :
    decodeBlock f pr blk = BcSpec.decodeBlock f pr blk := by
  unfold decodeBlock decodeBlockWith BcSpec.decodeBlock
  apply List.map_congr_left
  intro p hp
  rw [List.mem_range] at hp
  exact px_eq_all f pr blk hb p hp

end Dds.Bc
